(* E9 / C14 — the three readers agree.  The toolkit's own code (load_csv + tablib csv
   import/export, XLSX import + _sanitize, Dataset.dict getter/setter) is the model of
   Csv.v / Sanitize.v; openpyxl and json are NOT modelled: they appear as section variables
   with the one property each that the agreement needs (visible premises of the theorems). *)
From Coq Require Import List NArith Bool Lia Arith.
From RPFT Require Import Base.Sexp Base.PyStr Base.PyStrFacts Base.Result Base.ODict Gen.Tables
  Io.Csv Io.Sanitize Io.TreeFlags Io.IoFacts Io.SanitizeFacts Io.JsonTableFacts.
Import ListNotations.

(* the toolkit's CSV reader / tablib's CSV export at the regenerated dialect *)
Definition load_csv (translated : bool) : str -> result io_err (table str str) :=
  load_csv_text csv_delimiter csv_quotechar csv_field_limit translated.
Definition export_csv : table str str -> str :=
  csv_export_set csv_delimiter csv_quotechar csv_lineterminator.

(* a table with every header and cell newline-normalised (CR LF and CR become LF) *)
Definition tr_table (t : table str str) : table str str :=
  mkT (map translate (hdr t)) (map (map translate) (rws t)).

Definition cells_fit (t : table str str) : Prop := Forall (Forall fits) (package_rows t).

Definition no_cr (s : str) : Prop := forallb (fun c => negb (N.eqb c c_cr)) s = true.
Definition cr_free (t : table str str) : Prop := Forall (Forall no_cr) (package_rows t).

Definition no_empty_row (t : table str str) : Prop :=
  Forall (fun r => exists s, In s r /\ s <> []) (rws t).

(* ================================================================== rows without content *)

Lemma keep_row_exists r : keep_row r = true <-> exists s, In s r /\ s <> [].
Proof.
  unfold keep_row. rewrite existsb_exists. split; intros [s [Hin Hs]]; exists s; (split; [exact Hin|]).
  - destruct s; [discriminate|discriminate].
  - destruct s; [congruence|reflexivity].
Qed.

Lemma drop_empty_rows_id {H} (t : table H str) :
  Forall (fun r => exists s, In s r /\ s <> []) (rws t) -> drop_empty_rows t = t.
Proof.
  intros Hr. destruct t as [h rows]. unfold drop_empty_rows. cbn [hdr rws] in *. f_equal.
  apply filter_id. revert Hr. apply Forall_impl. intros r Hx. apply (proj2 (keep_row_exists r)). exact Hx.
Qed.

Lemma drop_if_id {H} b (t : table H str) :
  Forall (fun r => exists s, In s r /\ s <> []) (rws t) -> drop_if b t = t.
Proof. intros Hr. destruct b; [apply drop_empty_rows_id, Hr|reflexivity]. Qed.

Lemma drop_empty_rows_idem {H} (t : table H str) : drop_empty_rows (drop_empty_rows t) = drop_empty_rows t.
Proof.
  unfold drop_empty_rows. cbn [hdr rws]. f_equal. apply filter_id. apply Forall_forall.
  intros r Hin. apply filter_In in Hin. exact (proj2 Hin).
Qed.

Lemma rect_drop_empty_rows {H} (t : table H str) : rect t -> rect (drop_empty_rows t).
Proof.
  unfold rect, drop_empty_rows. cbn [hdr rws]. intros Hr. apply Forall_forall. intros r Hin.
  apply filter_In in Hin. rewrite Forall_forall in Hr. apply Hr. exact (proj1 Hin).
Qed.

Lemma rect_drop_if {H} b (t : table H str) : rect t -> rect (drop_if b t).
Proof. destruct b; [apply rect_drop_empty_rows|exact (fun x => x)]. Qed.

Lemma hdr_drop_if {H} b (t : table H str) : hdr (drop_if b t) = hdr t.
Proof. destruct b; reflexivity. Qed.

Lemma lift_drop_empty_rows t : lift_table (drop_empty_rows t) = drop_empty_rows (lift_table t).
Proof. reflexivity. Qed.

(* ================================================================== one sheet, CSV *)

Lemma pad_to_id {C} n (fill : C) r : length r = n -> pad_to n fill r = r.
Proof. intros H. unfold pad_to. subst n. rewrite Nat.ltb_irrefl. reflexivity. Qed.

Lemma csv_import_rest_rect h rows : forall acc,
  h <> [] -> rect (mkT h acc) -> Forall (fun r => length r = length h) rows ->
  csv_import_rest (mkT h acc) rows = Ok (mkT h (acc ++ rows)).
Proof.
  induction rows as [|r rows IH]; intros acc Hh Hr Hl.
  - cbn. rewrite app_nil_r. reflexivity.
  - inversion Hl as [|r' rows' Hlen Hrest]; subst.
    destruct r as [|c r]; [destruct h; [congruence|discriminate]|].
    cbn [csv_import_rest]. rewrite (width_rect _ Hr). cbn [hdr].
    rewrite pad_to_id by exact Hlen. rewrite append_rect by assumption. cbn [hdr rws].
    rewrite IH; [rewrite <- app_assoc; reflexivity|exact Hh|apply rect_snoc; assumption|exact Hrest].
Qed.

Lemma csv_import_set_rect h rows :
  h <> [] -> Forall (fun r => length r = length h) rows -> csv_import_set (h :: rows) = Ok (mkT h rows).
Proof.
  intros Hh Hl. unfold csv_import_set. rewrite set_headers_empty.
  rewrite csv_import_rest_rect; [reflexivity|exact Hh|constructor|exact Hl].
Qed.

Lemma package_rows_hdr (t : table str str) : hdr t <> [] -> package_rows t = hdr t :: rws t.
Proof. unfold package_rows. destruct (hdr t); [congruence|reflexivity]. Qed.

Definition csv_norm (translated : bool) (t : table str str) : table str str :=
  if translated then tr_table t else t.

Theorem csv_sheet translated t :
  hdr t <> [] -> rect t -> cells_fit t -> load_csv translated (export_csv t) = Ok (csv_norm translated t).
Proof.
  intros Hh Hr Hf. unfold load_csv, export_csv, load_csv_text, csv_export_set, cells_fit in *.
  rewrite package_rows_hdr in * by exact Hh. destruct translated.
  - pose proof (csv_text_roundtrip _ Hf) as E. unfold csv_rd, csv_wr in E. rewrite E. clear E.
    cbn [map]. unfold csv_norm, tr_table. apply csv_import_set_rect.
    + destruct (hdr t); [congruence|discriminate].
    + apply Forall_map. revert Hr. unfold rect. apply Forall_impl. intros r Hlen. rewrite !map_length. exact Hlen.
  - pose proof (csv_roundtrip _ Hf) as E. unfold csv_rd, csv_wr in E. rewrite E. clear E.
    unfold csv_norm. destruct t as [h rows]. cbn [hdr rws] in *. apply csv_import_set_rect; assumption.
Qed.

(* CSVSheetReader on the exported file: load_csv, then the rows without content go on a tree that
   omits them *)
Definition read_csv (fl : reader_flags) (translated : bool) : str -> result io_err (table str str) :=
  read_csv_sheet csv_delimiter csv_quotechar csv_field_limit translated fl.

Theorem csv_reader_sheet fl translated t :
  hdr t <> [] -> rect t -> cells_fit t ->
  read_csv fl translated (export_csv t) = Ok (drop_if (rf_csv_drop fl) (csv_norm translated t)).
Proof.
  intros Hh Hr Hf. unfold read_csv, read_csv_sheet.
  pose proof (csv_sheet translated t Hh Hr Hf) as E. unfold load_csv in E. rewrite E. reflexivity.
Qed.

(* ================================================================== one sheet, XLSX *)

(* what openpyxl returns for a string cell: None for '', else the text with CR LF / CR
   turned into LF (hypothesis [xl_roundtrip] below) *)
Definition xl_cell (s : str) : xcell := grid_cell (translate s).
Definition xl_grid (t : table str str) : list (list xcell) := map (map xl_cell) (package_rows t).

Lemma xlsx_import_rect (hx : list xcell) (rx : list (list xcell)) : forall acc : list (list xcell),
  rect (mkT hx acc) -> Forall (fun r => length r = length hx) rx ->
  foldM (fun (t : table xcell xcell) (r : list xcell) => append t (pad_to (width t) (Some [] : xcell) r)) rx (mkT hx acc)
  = Ok (mkT hx (acc ++ rx)).
Proof.
  induction rx as [|r rx IH]; intros acc Hr Hl.
  - cbn. rewrite app_nil_r. reflexivity.
  - inversion Hl as [|r' rx' Hlen Hrest]; subst. cbn [foldM].
        rewrite (width_rect _ Hr). cbn [hdr]. rewrite pad_to_id by exact Hlen.
    rewrite append_rect by assumption. cbn [hdr rws].
    rewrite IH; [rewrite <- app_assoc; reflexivity|apply rect_snoc; assumption|exact Hrest].
Qed.

Lemma strip_none_all_some l : Forall (fun c : xcell => c <> None) l -> strip_none l = l.
Proof.
  induction l as [|c l IH]; intros H; [reflexivity|]. inversion H as [|c' l' Hc Hl]; subst.
  cbn [strip_none]. rewrite IH by exact Hl. destruct c; [reflexivity|congruence].
Qed.

Lemma xl_cell_nonempty s : s <> [] -> xl_cell s = Some (translate s).
Proof.
  intros H. unfold xl_cell, grid_cell. destruct (translate s) eqn:E; [apply translate_nil_inv in E; congruence|reflexivity].
Qed.

Lemma cell_text_xl_cell s : cell_text (xl_cell s) = translate s.
Proof. unfold xl_cell, grid_cell. destruct (translate s); reflexivity. Qed.

Lemma keep_row_translate r : (exists s, In s r /\ s <> []) -> keep_row (map translate r) = true.
Proof.
  intros [s [Hin Hs]]. unfold keep_row. apply existsb_exists. exists (translate s). split; [apply in_map, Hin|].
  destruct (translate s) eqn:E; [apply translate_nil_inv in E; congruence|reflexivity].
Qed.

Lemma no_empty_row_tr t : no_empty_row t -> no_empty_row (tr_table t).
Proof.
  unfold no_empty_row, tr_table. cbn [rws]. intros H. apply Forall_map. revert H. apply Forall_impl.
  intros r Hx. apply (proj1 (keep_row_exists _)). apply keep_row_translate. exact Hx.
Qed.

(* every sheet of the property's domain: the XLSX reader returns the newline-normalised table
   WITHOUT its rows of empty cells (`_sanitize` has always omitted them) *)
Theorem xlsx_sheet_gen t :
  hdr t <> [] -> Forall (fun s => s <> []) (hdr t) -> rect t ->
  read_xlsx_sheet (xl_grid t) = Ok (lift_table (drop_empty_rows (tr_table t))).
Proof.
  intros Hh Hne Hr. unfold read_xlsx_sheet, xl_grid. rewrite package_rows_hdr by exact Hh.
  cbn [map xlsx_import_sheet]. rewrite set_headers_empty.
  assert (Hrx : Forall (fun r => length r = length (map xl_cell (hdr t))) (map (map xl_cell) (rws t))).
  { apply Forall_map. revert Hr. unfold rect. apply Forall_impl. intros r Hlen. rewrite !map_length. exact Hlen. }
  rewrite xlsx_import_rect; [|constructor|exact Hrx]. cbn [app].
  assert (Hsome : map xl_cell (hdr t) = map Some (map translate (hdr t))).
  { rewrite map_map. apply map_ext_in. intros s Hin. rewrite Forall_forall in Hne. apply xl_cell_nonempty, Hne, Hin. }
  assert (Hstrip : strip_none (map xl_cell (hdr t)) = map xl_cell (hdr t)).
  { apply strip_none_all_some. rewrite Hsome. apply Forall_map. apply Forall_forall. intros s _. discriminate. }
  rewrite sanitize_imported; cbn [hdr rws]; [|exact Hrx|].
    unfold str in *.   - rewrite Hstrip. unfold lift_table, drop_empty_rows, tr_table. cbn [hdr rws]. f_equal. f_equal; [exact Hsome|].
    rewrite map_map.
    assert (Em : map (fun r => sanitize_row (length (map xl_cell (hdr t))) (map xl_cell r)) (rws t)
                 = map (map translate) (rws t)).
    { apply map_ext_in. intros r Hin. unfold sanitize_row. rewrite map_map.
      rewrite (map_ext _ _ cell_text_xl_cell). unfold rect in Hr. rewrite Forall_forall in Hr.
      assert (El : length (map xl_cell (hdr t)) = length (map translate r)).
      { rewrite !map_length. symmetry. apply Hr, Hin. }
      rewrite El. apply firstn_all. }
    etransitivity; [apply (f_equal (filter keep_row)); exact Em|reflexivity].
  - unfold str in *. rewrite Hstrip. destruct (hdr t); [congruence|discriminate].
Qed.

Theorem xlsx_sheet t :
  hdr t <> [] -> Forall (fun s => s <> []) (hdr t) -> rect t -> no_empty_row t ->
  read_xlsx_sheet (xl_grid t) = Ok (lift_table (tr_table t)).
Proof.
  intros Hh Hne Hr Hrows. rewrite (xlsx_sheet_gen t Hh Hne Hr).
  rewrite (drop_empty_rows_id (tr_table t)); [reflexivity|]. apply no_empty_row_tr. exact Hrows.
Qed.

(* explicit empty cells to the right of the table (columns without header) make openpyxl report
   a wider grid, None-filled: the reader returns the same table *)
Definition widen (k : nat) (grid : list (list xcell)) : list (list xcell) :=
  map (fun r => r ++ repeat None k) grid.

Theorem xlsx_sheet_stray_gen t k :
  hdr t <> [] -> Forall (fun s => s <> []) (hdr t) -> rect t ->
  read_xlsx_sheet (widen k (xl_grid t)) = Ok (lift_table (drop_empty_rows (tr_table t))).
Proof.
  intros Hh Hne Hr. unfold read_xlsx_sheet, xl_grid, widen. rewrite package_rows_hdr by exact Hh.
  cbn [map xlsx_import_sheet]. rewrite set_headers_empty.
  set (hx := map xl_cell (hdr t)).
  set (rx := map (fun r : list xcell => r ++ repeat None k) (map (map xl_cell) (rws t))).
  assert (Hrx : Forall (fun r => length r = length (hx ++ repeat None k)) rx).
  { unfold rx, hx. rewrite map_map. apply Forall_map. revert Hr. unfold rect. apply Forall_impl. intros r Hlen.
    rewrite !app_length, !map_length, Hlen. reflexivity. }
  rewrite xlsx_import_rect; [|constructor|exact Hrx]. cbn [app].
  assert (Hsome : hx = map Some (map translate (hdr t))).
  { unfold hx. rewrite map_map. apply map_ext_in. intros s Hin. rewrite Forall_forall in Hne. apply xl_cell_nonempty, Hne, Hin. }
  assert (Hstrip : strip_none (hx ++ repeat None k) = hx).
  { rewrite strip_none_repeat. apply strip_none_all_some. rewrite Hsome. apply Forall_map. apply Forall_forall. intros s _. discriminate. }
  assert (Hhx : hx <> []).
  { unfold hx. destruct (hdr t); [congruence|discriminate]. }
  pose proof (sanitize_imported (mkT (hx ++ repeat None k) rx) Hrx) as E. cbn [hdr rws] in E.
  rewrite Hstrip in E. specialize (E Hhx).
  etransitivity; [exact E|]. clear E.
  unfold lift_table, drop_empty_rows, tr_table. cbn [hdr rws]. f_equal. f_equal; [exact Hsome|].
  assert (Em : map (sanitize_row (length hx)) rx = map (map translate) (rws t)).
  { unfold rx. rewrite !map_map. apply map_ext_in. intros r Hin. unfold sanitize_row. rewrite map_app, map_map.
    rewrite (map_ext _ _ cell_text_xl_cell).
    assert (El : length hx = length (map translate r)).
    { unfold hx. rewrite !map_length. symmetry. unfold rect in Hr. rewrite Forall_forall in Hr. apply Hr, Hin. }
    rewrite El, firstn_app, firstn_all, Nat.sub_diag. cbn [firstn]. apply app_nil_r. }
  etransitivity; [apply (f_equal (filter keep_row)); exact Em|reflexivity].
Qed.

Theorem xlsx_sheet_stray t k :
  hdr t <> [] -> Forall (fun s => s <> []) (hdr t) -> rect t -> no_empty_row t ->
  read_xlsx_sheet (widen k (xl_grid t)) = Ok (lift_table (tr_table t)).
Proof.
  intros Hh Hne Hr Hrows. rewrite (xlsx_sheet_stray_gen t k Hh Hne Hr).
  rewrite (drop_empty_rows_id (tr_table t)); [reflexivity|]. apply no_empty_row_tr. exact Hrows.
Qed.

(* ================================================================== one sheet, JSON *)

Lemma rect_tr_table t : rect t -> rect (tr_table t).
Proof.
  unfold rect, tr_table. cbn [hdr rws]. intros H. apply Forall_map. revert H. apply Forall_impl.
  intros r Hlen. rewrite !map_length. exact Hlen.
Qed.

Theorem json_sheet t :
  NoDup (hdr t) -> rect t -> rws t <> [] -> from_dicts (to_dicts t) = Ok t.
Proof. exact (json_table_roundtrip t). Qed.

(* a table can travel through `convert` + JSONSheetReader when it has a row, or no header, or when
   the tree writes AND reads the object form that carries the headers of a sheet without rows *)
Definition json_carries (fl : reader_flags) (t : table str str) : Prop :=
  rws t <> [] \/ hdr t = [] \/ (rf_tojson_table fl = true /\ rf_json_table fl = true).

Theorem json_sheet_gen fl t :
  NoDup (hdr t) -> rect t -> json_carries fl t ->
  read_json_sheet fl (to_json_sheet fl t) = Ok (drop_if (rf_json_drop fl) t).
Proof.
  intros Hnd Hr Hc. destruct t as [h rows]. unfold json_carries in Hc. cbn [hdr rws] in *.
  destruct rows as [|r rows].
  - (* no rows *)
    destruct h as [|c h].
    + unfold to_json_sheet. cbn [hdr rws]. destruct (rf_tojson_table fl); vm_compute; destruct (rf_json_drop fl); reflexivity.
    + destruct Hc as [Hc|[Hc|[Hw Hrd]]]; [exfalso; apply Hc; reflexivity|discriminate|].
      unfold to_json_sheet, read_json_sheet. cbn [hdr rws]. rewrite Hw, Hrd. rewrite set_headers_empty. cbn [foldM].
      destruct (rf_json_drop fl); reflexivity.
  - assert (E : to_json_sheet fl (mkT h (r :: rows)) = to_dicts (mkT h (r :: rows))).
    { unfold to_json_sheet. cbn [hdr rws]. destruct (rf_tojson_table fl); [|reflexivity]. destruct h; reflexivity. }
    rewrite E. unfold read_json_sheet.
    assert (E2 : from_dicts (to_dicts (mkT h (r :: rows))) = Ok (mkT h (r :: rows))).
    { apply json_table_roundtrip; cbn [hdr rws]; [exact Hnd|exact Hr|discriminate]. }
    destruct (to_dicts (mkT h (r :: rows))) eqn:Ed.
    + rewrite E2. reflexivity.
    + rewrite E2. reflexivity.
    + unfold to_dicts in Ed. cbn [hdr rws] in Ed. destruct h; discriminate.
Qed.

(* ================================================================== workbooks *)

Lemma wb_mapM_ok {S T} (f : S -> result io_err T) (g : S -> T) (wb : workbook S) :
  Forall (fun p => f (snd p) = Ok (g (snd p))) wb -> wb_mapM f wb = Ok (wb_map g wb).
Proof.
  unfold wb_mapM, wb_map. induction wb as [|p wb IH]; intros H; [reflexivity|].
  inversion H as [|p' wb' Hp Hwb]; subst. cbn [mapM map]. rewrite Hp, IH by exact Hwb. reflexivity.
Qed.

Lemma wb_mapM_wb_map {S T U} (f : T -> result io_err U) (g : S -> T) (wb : workbook S) :
  wb_mapM f (wb_map g wb) = wb_mapM (fun x => f (g x)) wb.
Proof.
  unfold wb_mapM, wb_map. induction wb as [|p wb IH]; [reflexivity|]. cbn [mapM map fst snd]. rewrite IH. reflexivity.
Qed.

Lemma wb_map_id {S} (g : S -> S) (wb : workbook S) : Forall (fun p => g (snd p) = snd p) wb -> wb_map g wb = wb.
Proof.
  unfold wb_map. induction wb as [|[n t] wb IH]; intros H; [reflexivity|].
  inversion H as [|p' wb' Hp Hwb]; subst. cbn [map fst snd] in *. rewrite Hp, IH by exact Hwb. reflexivity.
Qed.

Lemma wb_map_wb_map {S T U} (f : T -> U) (g : S -> T) (wb : workbook S) :
  wb_map f (wb_map g wb) = wb_map (fun x => f (g x)) wb.
Proof. unfold wb_map. rewrite map_map. reflexivity. Qed.

Lemma wb_map_ext {S T} (f g : S -> T) (wb : workbook S) :
  Forall (fun p => f (snd p) = g (snd p)) wb -> wb_map f wb = wb_map g wb.
Proof.
  unfold wb_map. intros H. apply map_ext_in. intros p Hin. rewrite Forall_forall in H. rewrite (H p Hin). reflexivity.
Qed.

Lemma Forall_wb_map {S T} (P : str * T -> Prop) (g : S -> T) (wb : workbook S) :
  Forall (fun p => P (fst p, g (snd p))) wb -> Forall P (wb_map g wb).
Proof. intros H. unfold wb_map. apply Forall_map. exact H. Qed.

Lemma translate_no_cr s : no_cr s -> translate s = s.
Proof. exact (translate_id s). Qed.

Lemma tr_table_cr_free t : hdr t <> [] -> cr_free t -> tr_table t = t.
Proof.
  intros Hh H. unfold cr_free in H. rewrite package_rows_hdr in H by exact Hh.
  inversion H as [|h rows Hhd Hrows]; subst. destruct t as [h rows]. unfold tr_table. cbn [hdr rws] in *.
  assert (Hm : forall r, Forall no_cr r -> map translate r = r).
  { intros r Hr. rewrite <- (map_id r) at 2. apply map_ext_in. intros s Hin. rewrite Forall_forall in Hr.
    apply translate_no_cr, Hr, Hin. }
  f_equal; [apply Hm, Hhd|]. rewrite <- (map_id rows) at 2. apply map_ext_in. intros r Hin.
  rewrite Forall_forall in Hrows. apply Hm, Hrows, Hin.
Qed.


Ltac dom_step :=
  match goal with
  | |- _ /\ _ => split
  | |- _ <> _ => discriminate
  | |- Forall _ [] => constructor
  | |- Forall _ (_ :: _) => constructor
  | |- NoDup (map _ _) => vm_compute
  | |- NoDup [] => constructor
  | |- NoDup (_ :: _) => constructor
  | |- ~ In _ _ => cbn; intuition discriminate
  | |- @eq nat _ _ => reflexivity
  | |- fits _ => vm_compute; discriminate
  | |- no_cr _ => reflexivity
  end.

Section Agree.
(* ---- the two libraries that are not modelled *)
Variables (X J : Type).
Variable xl_write : workbook (table str str) -> X.            (* openpyxl: save string cells *)
Variable xl_load : X -> workbook (list (list xcell)).          (* openpyxl: load_workbook, cell values *)
Variable json_dumps : workbook jsheet -> J.                    (* json.dumps(..., ensure_ascii=False) *)
Variable json_loads : J -> workbook jsheet.                    (* json.load *)
Hypothesis xl_roundtrip : forall wb, xl_load (xl_write wb) = wb_map xl_grid wb.
Hypothesis json_roundtrip : forall b, json_loads (json_dumps b) = b.
Variable fl : reader_flags.                                    (* rows without content / sheets without rows: per tree *)
Variable translated : bool.                                    (* how load_csv opens its file *)

Notation d := csv_delimiter.
Notation q := csv_quotechar.

(* the same abstract workbook through the three formats *)
Definition via_csv (wb : workbook (table str str)) : result io_err (workbook (table str str)) :=
  read_csv_wb d q csv_field_limit translated fl (write_csv_wb d q csv_lineterminator wb).

Definition via_xlsx (wb : workbook (table str str)) : result io_err (workbook (table xcell str)) :=
  read_xlsx_wb (xl_load (xl_write wb)).

(* `convert` (CSV folder -> JSON file) followed by JSONSheetReader *)
Definition via_json (wb : workbook (table str str)) : result io_err (workbook (table str str)) :=
  match via_csv wb with
  | Err e => Err e
  | Ok w => read_json_wb fl (json_loads (json_dumps (to_json_wb fl w)))
  end.

(* the workbook itself written in `convert`'s format (to_json of a reader that holds exactly these
   sheets — e.g. a file converted earlier), read by JSONSheetReader *)
Definition via_json_direct (wb : workbook (table str str)) : result io_err (workbook (table str str)) :=
  read_json_wb fl (json_loads (json_dumps (to_json_wb fl wb))).

Definition cdrop : table str str -> table str str := drop_if (rf_csv_drop fl).
Definition jdrop : table str str -> table str str := drop_if (rf_json_drop fl).

Definition csv_ok (t : table str str) : Prop := hdr t <> [] /\ rect t /\ cells_fit t.

Theorem via_csv_ok wb :
  Forall (fun p => csv_ok (snd p)) wb -> via_csv wb = Ok (wb_map (fun t => cdrop (csv_norm translated t)) wb).
Proof.
  intros H. unfold via_csv, read_csv_wb, write_csv_wb. rewrite wb_mapM_wb_map.
  apply wb_mapM_ok. revert H. apply Forall_impl. intros p [Hh [Hr Hf]].
  apply (csv_reader_sheet fl translated); assumption.
Qed.

Definition xlsx_dom (t : table str str) : Prop :=
  hdr t <> [] /\ Forall (fun s => s <> []) (hdr t) /\ rect t.

Theorem via_xlsx_gen wb :
  Forall (fun p => xlsx_dom (snd p)) wb ->
  via_xlsx wb = Ok (wb_map (fun t => lift_table (drop_empty_rows (tr_table t))) wb).
Proof.
  intros H. unfold via_xlsx, read_xlsx_wb. rewrite xl_roundtrip, wb_mapM_wb_map.
  apply wb_mapM_ok. revert H. apply Forall_impl. intros p [Hh [Hne Hr]]. apply xlsx_sheet_gen; assumption.
Qed.

Definition xlsx_ok (t : table str str) : Prop :=
  hdr t <> [] /\ Forall (fun s => s <> []) (hdr t) /\ rect t /\ no_empty_row t.

Theorem via_xlsx_ok wb :
  Forall (fun p => xlsx_ok (snd p)) wb -> via_xlsx wb = Ok (wb_map (fun t => lift_table (tr_table t)) wb).
Proof.
  intros H. rewrite via_xlsx_gen.
  - f_equal. apply wb_map_ext. revert H. apply Forall_impl. intros p [_ [_ [_ Hrows]]].
    rewrite (drop_empty_rows_id (tr_table (snd p))); [reflexivity|]. apply no_empty_row_tr. exact Hrows.
  - revert H. apply Forall_impl. unfold xlsx_ok, xlsx_dom. tauto.
Qed.

Definition json_dom (t : table str str) : Prop := NoDup (hdr t) /\ rect t /\ json_carries fl t.

Lemma read_json_to_json w :
  Forall (fun p => json_dom (snd p)) w ->
  read_json_wb fl (json_loads (json_dumps (to_json_wb fl w))) = Ok (wb_map jdrop w).
Proof.
  intros H. rewrite json_roundtrip. unfold read_json_wb, to_json_wb. rewrite wb_mapM_wb_map.
  apply wb_mapM_ok. revert H. apply Forall_impl. intros p [Hn [Hr Hc]]. apply json_sheet_gen; assumption.
Qed.

Theorem via_json_gen wb :
  Forall (fun p => csv_ok (snd p)) wb -> Forall (fun p => json_dom (cdrop (csv_norm translated (snd p)))) wb ->
  via_json wb = Ok (wb_map (fun t => jdrop (cdrop (csv_norm translated t))) wb).
Proof.
  intros Hc Hj. unfold via_json. rewrite via_csv_ok by exact Hc.
  rewrite read_json_to_json; [rewrite wb_map_wb_map; reflexivity|]. apply Forall_wb_map. exact Hj.
Qed.

Theorem via_json_direct_gen wb :
  Forall (fun p => json_dom (snd p)) wb -> via_json_direct wb = Ok (wb_map jdrop wb).
Proof. exact (read_json_to_json wb). Qed.

(* ---- the agreement theorem, cells intact: the property's domain (rectangular sheets,
   non-empty pairwise distinct headers, cells within the csv field limit) without rows of empty
   cells and with at least one row per sheet, for cells without CR (a CR is newline-normalised by
   the CSV and XLSX readers: see formats_agree_normalised).  It holds on EVERY tree (any flags):
   the two findings concern exactly the sheets excluded here, see [formats_agree_full_decided] *)
Definition sheet_ok (t : table str str) : Prop :=
  hdr t <> [] /\ Forall (fun s => s <> []) (hdr t) /\ NoDup (hdr t) /\ rect t /\ cells_fit t /\
  no_empty_row t /\ rws t <> [].

Definition wb_ok (wb : workbook (table str str)) : Prop := Forall (fun p => sheet_ok (snd p)) wb.
Definition wb_cr_free (wb : workbook (table str str)) : Prop := Forall (fun p => cr_free (snd p)) wb.

Lemma csv_norm_cr_free t : hdr t <> [] -> cr_free t -> csv_norm translated t = t.
Proof. intros Hh Hc. unfold csv_norm. destruct translated; [apply tr_table_cr_free; assumption|reflexivity]. Qed.

Theorem formats_agree wb :
  wb_ok wb -> wb_cr_free wb ->
  via_csv wb = Ok wb /\ via_xlsx wb = Ok (wb_map lift_table wb) /\ via_json wb = Ok wb.
Proof.
  intros Hok Hcr. unfold wb_ok, wb_cr_free in *.
  assert (Hnorm : wb_map (fun t => cdrop (csv_norm translated t)) wb = wb).
  { apply wb_map_id. rewrite Forall_forall in *. intros p Hin. destruct (Hok p Hin) as [Hh [_ [_ [_ [_ [Hrows _]]]]]].
    rewrite csv_norm_cr_free; [|exact Hh|apply Hcr, Hin]. apply drop_if_id. exact Hrows. }
  assert (Htr : wb_map (fun t => lift_table (tr_table t)) wb = wb_map lift_table wb).
  { unfold wb_map. apply map_ext_in. intros p Hin. rewrite Forall_forall in *. destruct (Hok p Hin) as [Hh _].
    rewrite tr_table_cr_free; [reflexivity|exact Hh|apply Hcr, Hin]. }
  assert (Hc : Forall (fun p => csv_ok (snd p)) wb).
  { revert Hok. apply Forall_impl. unfold sheet_ok, csv_ok. tauto. }
  split; [|split].
  - rewrite via_csv_ok by exact Hc. rewrite Hnorm. reflexivity.
  - rewrite via_xlsx_ok; [rewrite Htr; reflexivity|]. revert Hok. apply Forall_impl. unfold sheet_ok, xlsx_ok. tauto.
  - assert (Hsame : forall p, In p wb -> cdrop (csv_norm translated (snd p)) = snd p).
    { intros p Hin. rewrite Forall_forall in *. destruct (Hok p Hin) as [Hh [_ [_ [_ [_ [Hrows _]]]]]].
      rewrite csv_norm_cr_free; [|exact Hh|apply Hcr, Hin]. apply drop_if_id. exact Hrows. }
    rewrite via_json_gen; [|exact Hc|].
    + f_equal. apply wb_map_id. apply Forall_forall. intros p Hin. rewrite (Hsame p Hin).
      rewrite Forall_forall in Hok. destruct (Hok p Hin) as [_ [_ [_ [_ [_ [Hrows _]]]]]]. apply drop_if_id. exact Hrows.
    + apply Forall_forall. intros p Hin. rewrite (Hsame p Hin).
      rewrite Forall_forall in Hok. destruct (Hok p Hin) as [_ [_ [Hnd [Hr [_ [_ Hrows]]]]]].
      unfold json_dom, json_carries. tauto.
Qed.

(* the three reads, compared with each other *)
Corollary formats_agree_eq wb :
  wb_ok wb -> wb_cr_free wb ->
  rmap (wb_map lift_table) (via_csv wb) = via_xlsx wb /\ via_json wb = via_csv wb.
Proof.
  intros Hok Hcr. destruct (formats_agree wb Hok Hcr) as [E1 [E2 E3]]. rewrite E1, E2, E3. split; reflexivity.
Qed.

(* ---- with CR in cells: all three readers still agree, on the newline-normalised workbook
   (load_csv opens its file with newline=None) *)
Definition sheet_ok_tr (t : table str str) : Prop :=
  hdr t <> [] /\ Forall (fun s => s <> []) (hdr t) /\ NoDup (map translate (hdr t)) /\ rect t /\ cells_fit t /\
  no_empty_row t /\ rws t <> [].

Theorem formats_agree_normalised wb :
  translated = true -> Forall (fun p => sheet_ok_tr (snd p)) wb ->
  via_csv wb = Ok (wb_map tr_table wb) /\
  via_xlsx wb = Ok (wb_map lift_table (wb_map tr_table wb)) /\
  via_json wb = Ok (wb_map tr_table wb).
Proof.
  intros Ht Hok.
  assert (Hc : Forall (fun p => csv_ok (snd p)) wb).
  { revert Hok. apply Forall_impl. unfold sheet_ok_tr, csv_ok. tauto. }
  assert (Hsame : forall p, In p wb -> cdrop (csv_norm translated (snd p)) = tr_table (snd p)).
  { intros p Hin. rewrite Forall_forall in Hok. destruct (Hok p Hin) as [_ [_ [_ [_ [_ [Hrows _]]]]]].
    rewrite Ht. unfold csv_norm. apply drop_if_id. apply no_empty_row_tr. exact Hrows. }
  split; [|split].
  - rewrite via_csv_ok by exact Hc. f_equal. apply wb_map_ext. apply Forall_forall. exact Hsame.
  - rewrite wb_map_wb_map. apply via_xlsx_ok. revert Hok. apply Forall_impl. unfold sheet_ok_tr, xlsx_ok. tauto.
  - rewrite via_json_gen; [|exact Hc|].
    + f_equal. apply wb_map_ext. apply Forall_forall. intros p Hin. rewrite (Hsame p Hin).
      rewrite Forall_forall in Hok. destruct (Hok p Hin) as [_ [_ [_ [_ [_ [Hrows _]]]]]].
      apply drop_if_id. apply no_empty_row_tr. exact Hrows.
    + apply Forall_forall. intros p Hin. rewrite (Hsame p Hin).
      rewrite Forall_forall in Hok. destruct (Hok p Hin) as [Hh [_ [Hnd [Hr [_ [_ Hrows]]]]]].
      unfold json_dom, json_carries. split; [exact Hnd|]. split; [apply rect_tr_table, Hr|]. left.
      unfold tr_table. cbn [rws]. destruct (rws (snd p)); [congruence|discriminate].
Qed.

(* ---- the unrestricted statement: the property's own quantifier ("rectangular text sheets
   with unique non-empty headers", any number of rows, empty cells allowed), the JSON being
   produced by `convert` from the CSV folder (via_json) or held in `convert`'s format (via_json_direct) *)
Definition in_property_domain (t : table str str) : Prop :=
  hdr t <> [] /\ Forall (fun s => s <> []) (hdr t) /\ NoDup (hdr t) /\ rect t /\ cells_fit t /\ cr_free t.

Definition formats_agree_full : Prop :=
  forall wb, Forall (fun p => in_property_domain (snd p)) wb ->
  rmap (wb_map lift_table) (via_csv wb) = via_xlsx wb /\ via_json wb = via_csv wb /\ via_json_direct wb = via_csv wb.

(* what the readers return on such a workbook when both repairs are in: the workbook without its
   rows of empty cells — names, headers and every other cell intact *)
Theorem formats_agree_full_repaired wb :
  flags_repaired fl = true -> Forall (fun p => in_property_domain (snd p)) wb ->
  via_csv wb = Ok (wb_map drop_empty_rows wb) /\
  via_xlsx wb = Ok (wb_map lift_table (wb_map drop_empty_rows wb)) /\
  via_json wb = Ok (wb_map drop_empty_rows wb) /\
  via_json_direct wb = Ok (wb_map drop_empty_rows wb).
Proof.
  intros Hfl Hdom. unfold flags_repaired in Hfl.
  apply andb_prop in Hfl; destruct Hfl as [Hfl Hw]. apply andb_prop in Hfl; destruct Hfl as [Hfl Hrd].
  apply andb_prop in Hfl; destruct Hfl as [Hcd Hjd].
  assert (Hc : Forall (fun p => csv_ok (snd p)) wb).
  { revert Hdom. apply Forall_impl. unfold in_property_domain, csv_ok. tauto. }
  assert (Hsame : forall p, In p wb -> cdrop (csv_norm translated (snd p)) = drop_empty_rows (snd p)).
  { intros p Hin. rewrite Forall_forall in Hdom. destruct (Hdom p Hin) as [Hh [_ [_ [_ [_ Hcr]]]]].
    rewrite csv_norm_cr_free by assumption. unfold cdrop. rewrite Hcd. reflexivity. }
  assert (Hjdom : forall t, in_property_domain t -> json_dom t).
  { intros t [_ [_ [Hnd [Hr _]]]]. unfold json_dom, json_carries. tauto. }
  split; [|split; [|split]].
  - rewrite via_csv_ok by exact Hc. f_equal. apply wb_map_ext. apply Forall_forall. exact Hsame.
  - rewrite via_xlsx_gen.
    + rewrite wb_map_wb_map. f_equal. apply wb_map_ext. revert Hdom. apply Forall_impl.
      intros p [Hh [_ [_ [_ [_ Hcr]]]]]. rewrite tr_table_cr_free by assumption. reflexivity.
    + revert Hdom. apply Forall_impl. unfold in_property_domain, xlsx_dom. tauto.
  - rewrite via_json_gen; [|exact Hc|].
    + f_equal. apply wb_map_ext. apply Forall_forall. intros p Hin. rewrite (Hsame p Hin).
      unfold jdrop. rewrite Hjd. apply (drop_empty_rows_idem (snd p)).
    + apply Forall_forall. intros p Hin. rewrite (Hsame p Hin).
      rewrite Forall_forall in Hdom. destruct (Hdom p Hin) as [_ [_ [Hnd [Hr _]]]].
      unfold json_dom, json_carries. split; [exact Hnd|]. split; [apply rect_drop_empty_rows, Hr|]. tauto.
  - rewrite via_json_direct_gen.
    + f_equal. apply wb_map_ext. apply Forall_forall. intros p _. unfold jdrop. rewrite Hjd. reflexivity.
    + revert Hdom. apply Forall_impl. intros p Hp. apply Hjdom, Hp.
Qed.

Corollary formats_agree_full_holds : flags_repaired fl = true -> formats_agree_full.
Proof.
  intros Hfl wb Hdom. destruct (formats_agree_full_repaired wb Hfl Hdom) as [E1 [E2 [E3 E4]]].
  rewrite E1, E2, E3, E4. repeat split; reflexivity.
Qed.

Local Open Scope N_scope.

(* witness 1 (finding "all-empty row"): one sheet "s", header "a", rows "x" and "" — a row with
   content and a row without.  A CSV / JSON reader that keeps the second row disagrees with
   `_sanitize`, which has always omitted it. *)
Definition wb_empty_row : workbook (table str str) := [([115], mkT [[97]] [[[120]]; [[]]])].
(* the smallest such sheet: ONLY a row without content (needs both repairs: once that row is
   omitted the sheet has no rows) *)
Definition wb_only_empty_row : workbook (table str str) := [([115], mkT [[97]] [[[]]])].
(* witness 2 (finding "sheet without rows"): one sheet "s", header "a", no rows.  CSV and
   XLSX keep the header; `convert` + JSONSheetReader return a table without headers unless the
   headers travel in the object form. *)
Definition wb_header_only : workbook (table str str) := [([115], mkT [[97]] [])].

Lemma wb_empty_row_in_domain : Forall (fun p => in_property_domain (snd p)) wb_empty_row.
Proof.
  constructor; [|constructor]. unfold in_property_domain, rect, cells_fit, cr_free. cbn [hdr rws package_rows snd].
  repeat dom_step.
Qed.

Lemma wb_only_empty_row_in_domain : Forall (fun p => in_property_domain (snd p)) wb_only_empty_row.
Proof.
  constructor; [|constructor]. unfold in_property_domain, rect, cells_fit, cr_free. cbn [hdr rws package_rows snd].
  repeat dom_step.
Qed.

Lemma wb_header_only_in_domain : Forall (fun p => in_property_domain (snd p)) wb_header_only.
Proof.
  constructor; [|constructor]. unfold in_property_domain, rect, cells_fit, cr_free. cbn [hdr rws package_rows snd].
  repeat dom_step.
Qed.

(* what the three formats give on witness 1, on every tree *)
Theorem empty_row_witness :
  via_csv wb_empty_row = Ok (wb_map cdrop wb_empty_row) /\
  via_xlsx wb_empty_row = Ok [([115], mkT [Some [97]] [[[120]]])] /\
  via_json_direct wb_empty_row = Ok (wb_map jdrop wb_empty_row).
Proof.
  split; [|split].
  - unfold via_csv, cdrop. destruct fl as [a b c e]. cbn [rf_csv_drop]. destruct a, translated; vm_compute; reflexivity.
  - unfold via_xlsx. rewrite xl_roundtrip. vm_compute. reflexivity.
  - unfold via_json_direct, jdrop. rewrite json_roundtrip.
    destruct fl as [a b c e]. cbn [rf_json_drop]. destruct a, b, c, e; vm_compute; reflexivity.
Qed.

(* a tree whose CSV reader keeps rows without content *)
Theorem formats_agree_empty_row_refuted :
  rf_csv_drop fl = false ->
  via_csv wb_empty_row = Ok wb_empty_row /\
  via_xlsx wb_empty_row = Ok [([115], mkT [Some [97]] [[[120]]])] /\
  rmap (wb_map lift_table) (via_csv wb_empty_row) <> via_xlsx wb_empty_row.
Proof.
  intros Hcd. destruct empty_row_witness as [E1 [E2 _]]. unfold cdrop in E1. rewrite Hcd in E1.
  change (wb_map (drop_if false) wb_empty_row) with wb_empty_row in E1.
  split; [exact E1|]. split; [exact E2|]. rewrite E1, E2. vm_compute. discriminate.
Qed.

(* a tree whose CSV reader omits them and whose JSON reader does not *)
Theorem formats_agree_empty_row_json_refuted :
  rf_csv_drop fl = true -> rf_json_drop fl = false ->
  via_json_direct wb_empty_row = Ok wb_empty_row /\
  via_json_direct wb_empty_row <> via_csv wb_empty_row.
Proof.
  intros Hcd Hjd. destruct empty_row_witness as [E1 [_ E3]]. unfold cdrop in E1. unfold jdrop in E3. rewrite Hcd in E1. rewrite Hjd in E3.
  change (wb_map (drop_if false) wb_empty_row) with wb_empty_row in E3.
  split; [exact E3|]. rewrite E1, E3. vm_compute. discriminate.
Qed.

(* witness 2 on every tree: the CSV reader keeps the headers; `convert` + JSONSheetReader keep them
   iff the object form is both written and read *)
Theorem header_only_witness :
  via_csv wb_header_only = Ok wb_header_only /\
  via_json wb_header_only =
    (if rf_tojson_table fl then (if rf_json_table fl then Ok wb_header_only else Err EFormat)
     else Ok [([115], empty_table)]).
Proof.
  assert (E1 : via_csv wb_header_only = Ok wb_header_only).
  { unfold via_csv. destruct fl as [a b c e]. destruct a, translated; vm_compute; reflexivity. }
  split; [exact E1|]. unfold via_json. rewrite E1, json_roundtrip.
  destruct fl as [a b c e]. cbn [rf_tojson_table rf_json_table]. destruct a, b, c, e; vm_compute; reflexivity.
Qed.

Theorem formats_agree_header_only_refuted :
  rf_tojson_table fl && rf_json_table fl = false ->
  via_csv wb_header_only = Ok wb_header_only /\
  via_json wb_header_only <> via_csv wb_header_only.
Proof.
  intros Hf. destruct header_only_witness as [E1 E2]. split; [exact E1|]. rewrite E1, E2.
  destruct (rf_tojson_table fl); [destruct (rf_json_table fl); [discriminate Hf|discriminate]|].
  vm_compute. discriminate.
Qed.

Theorem formats_agree_full_refuted : flags_repaired fl = false -> ~ formats_agree_full.
Proof.
  intros Hfl H. unfold flags_repaired in Hfl.
  destruct (rf_csv_drop fl) eqn:Hcd.
  - destruct (rf_json_drop fl) eqn:Hjd.
    + cbn [andb] in Hfl. rewrite andb_comm in Hfl.
      destruct (H wb_header_only wb_header_only_in_domain) as [_ [E _]].
      destruct (formats_agree_header_only_refuted Hfl) as [_ Hne]. exact (Hne E).
    + destruct (H wb_empty_row wb_empty_row_in_domain) as [_ [_ E]].
      destruct (formats_agree_empty_row_json_refuted Hcd Hjd) as [_ Hne]. exact (Hne E).
  - destruct (H wb_empty_row wb_empty_row_in_domain) as [E _].
    destruct (formats_agree_empty_row_refuted Hcd) as [_ [_ Hne]]. exact (Hne E).
Qed.

(* DECIDED by the flags of the tree: the statement over the property's whole domain holds exactly
   on a tree with both repairs *)
Theorem formats_agree_full_decided :
  if flags_repaired fl then formats_agree_full else ~ formats_agree_full.
Proof.
  destruct (flags_repaired fl) eqn:E; [apply formats_agree_full_holds, E|apply formats_agree_full_refuted, E].
Qed.

(* ---- per finding.  (1) rows without content: every sheet of the property's domain that keeps at
   least one row with content — the three readers (and JSON held in convert's format) agree, on
   the workbook without those rows, exactly on a tree whose CSV and JSON readers omit them *)
Definition has_content_row (t : table str str) : Prop := exists r, In r (rws t) /\ keep_row r = true.

Definition empty_rows_agree : Prop :=
  forall wb, Forall (fun p => in_property_domain (snd p) /\ has_content_row (snd p)) wb ->
  via_csv wb = Ok (wb_map drop_empty_rows wb) /\
  via_xlsx wb = Ok (wb_map lift_table (wb_map drop_empty_rows wb)) /\
  via_json wb = Ok (wb_map drop_empty_rows wb) /\
  via_json_direct wb = Ok (wb_map drop_empty_rows wb).

Lemma has_content_row_drop t : has_content_row t -> rws (drop_empty_rows t) <> [].
Proof.
  intros [r [Hin Hk]] E. assert (Hf : In r (rws (drop_empty_rows t))).
  { unfold drop_empty_rows. cbn [rws]. apply filter_In. split; [exact Hin|exact Hk]. }
  rewrite E in Hf. exact Hf.
Qed.

Theorem empty_rows_agree_holds : rf_csv_drop fl = true -> rf_json_drop fl = true -> empty_rows_agree.
Proof.
  intros Hcd Hjd wb Hdom.
  assert (Hdom' : Forall (fun p => in_property_domain (snd p)) wb) by (revert Hdom; apply Forall_impl; tauto).
  assert (Hc : Forall (fun p => csv_ok (snd p)) wb).
  { revert Hdom'. apply Forall_impl. unfold in_property_domain, csv_ok. tauto. }
  assert (Hsame : forall p, In p wb -> cdrop (csv_norm translated (snd p)) = drop_empty_rows (snd p)).
  { intros p Hin. rewrite Forall_forall in Hdom'. destruct (Hdom' p Hin) as [Hh [_ [_ [_ [_ Hcr]]]]].
    rewrite csv_norm_cr_free by assumption. unfold cdrop. rewrite Hcd. reflexivity. }
  split; [|split; [|split]].
  - rewrite via_csv_ok by exact Hc. f_equal. apply wb_map_ext. apply Forall_forall. exact Hsame.
  - rewrite via_xlsx_gen.
    + rewrite wb_map_wb_map. f_equal. apply wb_map_ext. revert Hdom'. apply Forall_impl.
      intros p [Hh [_ [_ [_ [_ Hcr]]]]]. rewrite tr_table_cr_free by assumption. reflexivity.
    + revert Hdom'. apply Forall_impl. unfold in_property_domain, xlsx_dom. tauto.
  - rewrite via_json_gen; [|exact Hc|].
    + f_equal. apply wb_map_ext. apply Forall_forall. intros p Hin. rewrite (Hsame p Hin).
      unfold jdrop. rewrite Hjd. apply (drop_empty_rows_idem (snd p)).
    + apply Forall_forall. intros p Hin. rewrite (Hsame p Hin).
      rewrite Forall_forall in Hdom. destruct (Hdom p Hin) as [[_ [_ [Hnd [Hr _]]]] Hrow].
      unfold json_dom, json_carries. split; [exact Hnd|]. split; [apply rect_drop_empty_rows, Hr|].
      left. apply has_content_row_drop, Hrow.
  - rewrite via_json_direct_gen.
    + f_equal. apply wb_map_ext. apply Forall_forall. intros p _. unfold jdrop. rewrite Hjd. reflexivity.
    + revert Hdom. apply Forall_impl. intros p [[_ [_ [Hnd [Hr _]]]] [r [Hin _]]].
      unfold json_dom, json_carries. split; [exact Hnd|]. split; [exact Hr|]. left. intros E. rewrite E in Hin. exact Hin.
Qed.

Lemma wb_empty_row_has_content : Forall (fun p => in_property_domain (snd p) /\ has_content_row (snd p)) wb_empty_row.
Proof.
  pose proof wb_empty_row_in_domain as H. inversion H as [|p l Hp _]; subst.
  constructor; [|constructor]. split; [exact Hp|]. exists [[120]]. split; [left; reflexivity|reflexivity].
Qed.

Theorem empty_rows_agree_decided :
  if rf_csv_drop fl && rf_json_drop fl then empty_rows_agree else ~ empty_rows_agree.
Proof.
  destruct (rf_csv_drop fl) eqn:Hcd; [destruct (rf_json_drop fl) eqn:Hjd|]; cbn [andb].
  - apply empty_rows_agree_holds; assumption.
  - intros H. destruct (H wb_empty_row wb_empty_row_has_content) as [E1 [_ [_ E4]]].
    destruct (formats_agree_empty_row_json_refuted Hcd Hjd) as [_ Hne]. apply Hne. rewrite E1, E4. reflexivity.
  - intros H. destruct (H wb_empty_row wb_empty_row_has_content) as [E1 [E2 _]].
    destruct (formats_agree_empty_row_refuted Hcd) as [_ [_ Hne]]. apply Hne. rewrite E1, E2. reflexivity.
Qed.

End Agree.

(* ---- per finding.  (2) sheets without rows: EVERY table with pairwise distinct headers — with or
   without rows — comes back from `convert` + JSONSheetReader (up to the rows without content the
   JSON reader omits), exactly on a tree that writes and reads the object form *)
Definition json_roundtrip_all (fl : reader_flags) : Prop :=
  forall t : table str str, NoDup (hdr t) -> rect t ->
  read_json_sheet fl (to_json_sheet fl t) = Ok (drop_if (rf_json_drop fl) t).

Theorem json_roundtrip_all_decided fl :
  if rf_tojson_table fl && rf_json_table fl then json_roundtrip_all fl else ~ json_roundtrip_all fl.
Proof.
  destruct (rf_tojson_table fl && rf_json_table fl) eqn:E.
  - apply andb_prop in E. destruct E as [E1 E2]. intros t Hnd Hr. apply json_sheet_gen; [exact Hnd|exact Hr|].
    unfold json_carries. tauto.
  - intros H. specialize (H (mkT [[97%N]] []) ltac:(repeat constructor; intros []) ltac:(constructor)).
    destruct fl as [a b c e]. cbn [rf_tojson_table rf_json_table rf_json_drop] in *.
    destruct b, c, e; try discriminate E; vm_compute in H; discriminate H.
Qed.

(* ================================================================== non-vacuity *)

(* the two library hypotheses are satisfiable (a file format that stores exactly what openpyxl
   hands back / the parsed JSON), and a workbook with commas, quotes, LF and non-ASCII cells, an
   empty cell and two sheets is in the domain of [formats_agree] *)
Local Open Scope N_scope.

Definition ex_wb : workbook (table str str) :=
  [ ([115; 49], mkT [[97]; [98; 32; 99]; [233]]
                    [[[120; 44; 121]; []; [34; 104; 105; 34; 10; 19990]]; [[]; [49]; []]]);
    ([102; 108; 111; 119; 32; 97], mkT [[105; 100]] [[[128512]]]) ].

Lemma ex_wb_ok : wb_ok ex_wb /\ wb_cr_free ex_wb.
Proof.
  unfold wb_ok, wb_cr_free, ex_wb. split.
  - repeat (constructor; [|try constructor]); unfold sheet_ok, rect, cells_fit, no_empty_row;
      cbn [hdr rws package_rows snd]; repeat dom_step.
    + exists [120; 44; 121]. split; [left; reflexivity|discriminate].
    + exists [49]. split; [right; left; reflexivity|discriminate].
    + exists [128512]. split; [left; reflexivity|discriminate].
  - repeat (constructor; [|try constructor]); unfold cr_free; cbn [hdr rws package_rows snd]; repeat dom_step.
Qed.

Example formats_agree_nonvacuous :
  let xl_write := wb_map xl_grid in
  let xl_load := fun x : workbook (list (list xcell)) => x in
  let dumps := fun b : workbook jsheet => b in
  let loads := fun b : workbook jsheet => b in
  (forall wb, xl_load (xl_write wb) = wb_map xl_grid wb) /\ (forall b, loads (dumps b) = b) /\
  wb_ok ex_wb /\ wb_cr_free ex_wb /\
  via_csv tree_flags load_csv_translated ex_wb = Ok ex_wb /\
  via_xlsx _ xl_write xl_load ex_wb = Ok (wb_map lift_table ex_wb) /\
  via_json _ dumps loads tree_flags load_csv_translated ex_wb = Ok ex_wb.
Proof.
  cbv zeta. split; [reflexivity|]. split; [reflexivity|].
  destruct ex_wb_ok as [H1 H2]. split; [exact H1|]. split; [exact H2|].
  apply (formats_agree _ _ _ _ _ _); auto.
Qed.

(* the same with CR LF / CR inside cells: the three readers agree on the normalised workbook *)
Definition ex_wb_cr : workbook (table str str) :=
  [ ([115], mkT [[97]; [98]] [[[120; 13; 10; 121]; [13]]; [[]; [122; 13]]]) ].

Example formats_agree_normalised_nonvacuous :
  load_csv_translated = true /\
  Forall (fun p => sheet_ok_tr (snd p)) ex_wb_cr /\ wb_map tr_table ex_wb_cr <> ex_wb_cr /\
  via_csv tree_flags load_csv_translated ex_wb_cr = Ok (wb_map tr_table ex_wb_cr).
Proof.
  assert (Ht : load_csv_translated = true) by reflexivity.
  assert (Hok : Forall (fun p => sheet_ok_tr (snd p)) ex_wb_cr).
  { unfold ex_wb_cr. constructor; [|constructor]. unfold sheet_ok_tr, rect, cells_fit, no_empty_row.
    cbn [hdr rws package_rows snd]. repeat dom_step.
    - exists [120; 13; 10; 121]. split; [left; reflexivity|discriminate].
    - exists [122; 13]. split; [right; left; reflexivity|discriminate]. }
  split; [exact Ht|]. split; [exact Hok|]. split; [vm_compute; discriminate|].
  apply (formats_agree_normalised _ _ (wb_map xl_grid) (fun x => x) (fun b => b) (fun b => b) (fun _ => eq_refl) (fun _ => eq_refl) tree_flags); auto.
Qed.

(* at the regenerated newline mode of load_csv *)
Lemma load_csv_translated_true : load_csv_translated = true.
Proof. reflexivity. Qed.

Theorem formats_agree_normalised_tables :
  forall (X J : Type) (xl_write : workbook (table str str) -> X) (xl_load : X -> workbook (list (list xcell)))
         (json_dumps : workbook jsheet -> J) (json_loads : J -> workbook jsheet),
  (forall wb, xl_load (xl_write wb) = wb_map xl_grid wb) ->
  (forall b, json_loads (json_dumps b) = b) ->
  forall (fl : reader_flags) (wb : workbook (table str str)),
  Forall (fun p => sheet_ok_tr (snd p)) wb ->
  via_csv fl load_csv_translated wb = Ok (wb_map tr_table wb) /\
  via_xlsx X xl_write xl_load wb = Ok (wb_map lift_table (wb_map tr_table wb)) /\
  via_json J json_dumps json_loads fl load_csv_translated wb = Ok (wb_map tr_table wb).
Proof.
  intros X J xw xlo jd jl Hx Hj fl wb Hok.
  exact (formats_agree_normalised X J xw xlo jd jl Hx Hj fl load_csv_translated wb load_csv_translated_true Hok).
Qed.

(* ---- the whole domain of the property: a workbook with rows of empty cells (first, middle, last,
   and a sheet that holds nothing else), a sheet without rows, commas, quotes, LF, non-ASCII.
   With both repairs (flags all true) the four reads agree on the workbook without those rows. *)
Definition flags_all (b : bool) : reader_flags :=
  {| rf_csv_drop := b; rf_json_drop := b; rf_json_table := b; rf_tojson_table := b |}.

Definition ex_wb_full : workbook (table str str) :=
  [ ([115; 49], mkT [[97]; [98; 32; 99]] [[[]; []]; [[120; 44; 121]; []]; [[]; []]; [[]; [34; 10; 19990]]; [[]; []]]);
    ([101], mkT [[105; 100]] [[[]]]);
    ([104], mkT [[105; 100]; [118]] []) ].

Lemma ex_wb_full_in_domain : Forall (fun p => in_property_domain (snd p)) ex_wb_full.
Proof.
  unfold ex_wb_full. repeat (constructor; [|try constructor]);
    unfold in_property_domain, rect, cells_fit, cr_free; cbn [hdr rws package_rows snd]; repeat dom_step.
Qed.

Example formats_agree_full_nonvacuous :
  let xl_write := wb_map xl_grid in
  let xl_load := fun x : workbook (list (list xcell)) => x in
  let dumps := fun b : workbook jsheet => b in
  let loads := fun b : workbook jsheet => b in
  flags_repaired (flags_all true) = true /\ flags_repaired (flags_all false) = false /\
  Forall (fun p => in_property_domain (snd p)) ex_wb_full /\
  wb_map drop_empty_rows ex_wb_full =
    [ ([115; 49], mkT [[97]; [98; 32; 99]] [[[120; 44; 121]; []]; [[]; [34; 10; 19990]]]);
      ([101], mkT [[105; 100]] []); ([104], mkT [[105; 100]; [118]] []) ] /\
  via_csv (flags_all true) load_csv_translated ex_wb_full = Ok (wb_map drop_empty_rows ex_wb_full) /\
  via_xlsx _ xl_write xl_load ex_wb_full = Ok (wb_map lift_table (wb_map drop_empty_rows ex_wb_full)) /\
  via_json _ dumps loads (flags_all true) load_csv_translated ex_wb_full = Ok (wb_map drop_empty_rows ex_wb_full) /\
  via_json_direct _ dumps loads (flags_all true) ex_wb_full = Ok (wb_map drop_empty_rows ex_wb_full).
Proof.
  cbv zeta. split; [reflexivity|]. split; [reflexivity|]. split; [exact ex_wb_full_in_domain|].
  split; [vm_compute; reflexivity|].
  apply (formats_agree_full_repaired _ _ (wb_map xl_grid) (fun x => x) (fun b => b) (fun b => b) (fun _ => eq_refl) (fun _ => eq_refl)
           (flags_all true) load_csv_translated ex_wb_full eq_refl ex_wb_full_in_domain).
Qed.

(* the decided statements at the flags of the tree at hand *)
Theorem formats_agree_full_tree :
  forall (X J : Type) (xl_write : workbook (table str str) -> X) (xl_load : X -> workbook (list (list xcell)))
         (json_dumps : workbook jsheet -> J) (json_loads : J -> workbook jsheet),
  (forall wb, xl_load (xl_write wb) = wb_map xl_grid wb) ->
  (forall b, json_loads (json_dumps b) = b) ->
  forall translated : bool,
  if flags_repaired tree_flags
  then formats_agree_full X J xl_write xl_load json_dumps json_loads tree_flags translated
  else ~ formats_agree_full X J xl_write xl_load json_dumps json_loads tree_flags translated.
Proof.
  intros X J xw xlo jd jl Hx Hj tr. exact (formats_agree_full_decided X J xw xlo jd jl Hx Hj tree_flags tr).
Qed.

