(* E9 / C14 — the three readers agree.  The toolkit's own code (load_csv + tablib csv
   import/export, XLSX import + _sanitize, Dataset.dict getter/setter) is the model of
   Csv.v / Sanitize.v; openpyxl and json are NOT modelled: they appear as section variables
   with the one property each that the agreement needs (visible premises of the theorems). *)
From Coq Require Import List NArith Bool Lia Arith.
From RPFT Require Import Base.Sexp Base.PyStr Base.PyStrFacts Base.Result Base.ODict Gen.Tables
  Io.Csv Io.Sanitize Io.IoFacts Io.SanitizeFacts Io.JsonTableFacts.
Import ListNotations.

(* the toolkit's CSV reader / tablib's CSV export at the regenerated dialect *)
Definition load_csv (translated : bool) : str -> result io_err (table str str) :=
  load_csv_text csv_delimiter csv_quotechar csv_field_limit translated.
Definition export_csv : table str str -> str :=
  csv_export_set csv_delimiter csv_quotechar csv_lineterminator.

(* a table with every header and cell newline-normalised (CR LF and CR become LF) *)
Definition tr_table (t : table str str) : table str str :=
  mkT (map translate (hdr t)) (map (map translate) (rws t)).

Definition cells_fit (t : table str str) : Prop := Forall (Forall fits) (package_rows t).

Definition no_cr (s : str) : Prop := forallb (fun c => negb (N.eqb c c_cr)) s = true.
Definition cr_free (t : table str str) : Prop := Forall (Forall no_cr) (package_rows t).

Definition no_empty_row (t : table str str) : Prop :=
  Forall (fun r => exists s, In s r /\ s <> []) (rws t).

(* ================================================================== one sheet, CSV *)

Lemma pad_to_id {C} n (fill : C) r : length r = n -> pad_to n fill r = r.
Proof. intros H. unfold pad_to. subst n. rewrite Nat.ltb_irrefl. reflexivity. Qed.

Lemma csv_import_rest_rect h rows : forall acc,
  h <> [] -> rect (mkT h acc) -> Forall (fun r => length r = length h) rows ->
  csv_import_rest (mkT h acc) rows = Ok (mkT h (acc ++ rows)).
Proof.
  induction rows as [|r rows IH]; intros acc Hh Hr Hl.
  - cbn. rewrite app_nil_r. reflexivity.
  - inversion Hl as [|r' rows' Hlen Hrest]; subst.
    destruct r as [|c r]; [destruct h; [congruence|discriminate]|].
    cbn [csv_import_rest]. rewrite (width_rect _ Hr). cbn [hdr].
    rewrite pad_to_id by exact Hlen. rewrite append_rect by assumption. cbn [hdr rws].
    rewrite IH; [rewrite <- app_assoc; reflexivity|exact Hh|apply rect_snoc; assumption|exact Hrest].
Qed.

Lemma csv_import_set_rect h rows :
  h <> [] -> Forall (fun r => length r = length h) rows -> csv_import_set (h :: rows) = Ok (mkT h rows).
Proof.
  intros Hh Hl. unfold csv_import_set. rewrite set_headers_empty.
  rewrite csv_import_rest_rect; [reflexivity|exact Hh|constructor|exact Hl].
Qed.

Lemma package_rows_hdr (t : table str str) : hdr t <> [] -> package_rows t = hdr t :: rws t.
Proof. unfold package_rows. destruct (hdr t); [congruence|reflexivity]. Qed.

Definition csv_norm (translated : bool) (t : table str str) : table str str :=
  if translated then tr_table t else t.

Theorem csv_sheet translated t :
  hdr t <> [] -> rect t -> cells_fit t -> load_csv translated (export_csv t) = Ok (csv_norm translated t).
Proof.
  intros Hh Hr Hf. unfold load_csv, export_csv, load_csv_text, csv_export_set, cells_fit in *.
  rewrite package_rows_hdr in * by exact Hh. destruct translated.
  - pose proof (csv_text_roundtrip _ Hf) as E. unfold csv_rd, csv_wr in E. rewrite E. clear E.
    cbn [map]. unfold csv_norm, tr_table. apply csv_import_set_rect.
    + destruct (hdr t); [congruence|discriminate].
    + apply Forall_map. revert Hr. unfold rect. apply Forall_impl. intros r Hlen. rewrite !map_length. exact Hlen.
  - pose proof (csv_roundtrip _ Hf) as E. unfold csv_rd, csv_wr in E. rewrite E. clear E.
    unfold csv_norm. destruct t as [h rows]. cbn [hdr rws] in *. apply csv_import_set_rect; assumption.
Qed.

(* ================================================================== one sheet, XLSX *)

(* what openpyxl returns for a string cell: None for '', else the text with CR LF / CR
   turned into LF (hypothesis [xl_roundtrip] below) *)
Definition xl_cell (s : str) : xcell := grid_cell (translate s).
Definition xl_grid (t : table str str) : list (list xcell) := map (map xl_cell) (package_rows t).

Lemma xlsx_import_rect (hx : list xcell) (rx : list (list xcell)) : forall acc : list (list xcell),
  rect (mkT hx acc) -> Forall (fun r => length r = length hx) rx ->
  foldM (fun (t : table xcell xcell) (r : list xcell) => append t (pad_to (width t) (Some [] : xcell) r)) rx (mkT hx acc)
  = Ok (mkT hx (acc ++ rx)).
Proof.
  induction rx as [|r rx IH]; intros acc Hr Hl.
  - cbn. rewrite app_nil_r. reflexivity.
  - inversion Hl as [|r' rx' Hlen Hrest]; subst. cbn [foldM].
        rewrite (width_rect _ Hr). cbn [hdr]. rewrite pad_to_id by exact Hlen.
    rewrite append_rect by assumption. cbn [hdr rws].
    rewrite IH; [rewrite <- app_assoc; reflexivity|apply rect_snoc; assumption|exact Hrest].
Qed.

Lemma strip_none_all_some l : Forall (fun c : xcell => c <> None) l -> strip_none l = l.
Proof.
  induction l as [|c l IH]; intros H; [reflexivity|]. inversion H as [|c' l' Hc Hl]; subst.
  cbn [strip_none]. rewrite IH by exact Hl. destruct c; [reflexivity|congruence].
Qed.

Lemma xl_cell_nonempty s : s <> [] -> xl_cell s = Some (translate s).
Proof.
  intros H. unfold xl_cell, grid_cell. destruct (translate s) eqn:E; [apply translate_nil_inv in E; congruence|reflexivity].
Qed.

Lemma cell_text_xl_cell s : cell_text (xl_cell s) = translate s.
Proof. unfold xl_cell, grid_cell. destruct (translate s); reflexivity. Qed.

Lemma keep_row_translate r : (exists s, In s r /\ s <> []) -> keep_row (map translate r) = true.
Proof.
  intros [s [Hin Hs]]. unfold keep_row. apply existsb_exists. exists (translate s). split; [apply in_map, Hin|].
  destruct (translate s) eqn:E; [apply translate_nil_inv in E; congruence|reflexivity].
Qed.

Theorem xlsx_sheet t :
  hdr t <> [] -> Forall (fun s => s <> []) (hdr t) -> rect t -> no_empty_row t ->
  read_xlsx_sheet (xl_grid t) = Ok (lift_table (tr_table t)).
Proof.
  intros Hh Hne Hr Hrows. unfold read_xlsx_sheet, xl_grid. rewrite package_rows_hdr by exact Hh.
  cbn [map xlsx_import_sheet]. rewrite set_headers_empty.
  assert (Hrx : Forall (fun r => length r = length (map xl_cell (hdr t))) (map (map xl_cell) (rws t))).
  { apply Forall_map. revert Hr. unfold rect. apply Forall_impl. intros r Hlen. rewrite !map_length. exact Hlen. }
  rewrite xlsx_import_rect; [|constructor|exact Hrx]. cbn [app].
  assert (Hsome : map xl_cell (hdr t) = map Some (map translate (hdr t))).
  { rewrite map_map. apply map_ext_in. intros s Hin. rewrite Forall_forall in Hne. apply xl_cell_nonempty, Hne, Hin. }
  assert (Hstrip : strip_none (map xl_cell (hdr t)) = map xl_cell (hdr t)).
  { apply strip_none_all_some. rewrite Hsome. apply Forall_map. apply Forall_forall. intros s _. discriminate. }
  rewrite sanitize_imported; cbn [hdr rws]; [|exact Hrx|].
    unfold str in *.   - rewrite Hstrip. unfold lift_table, tr_table. cbn [hdr rws]. f_equal. f_equal; [exact Hsome|].
    rewrite map_map.
    assert (Em : map (fun r => sanitize_row (length (map xl_cell (hdr t))) (map xl_cell r)) (rws t)
                 = map (map translate) (rws t)).
    { apply map_ext_in. intros r Hin. unfold sanitize_row. rewrite map_map.
      rewrite (map_ext _ _ cell_text_xl_cell). unfold rect in Hr. rewrite Forall_forall in Hr.
      assert (El : length (map xl_cell (hdr t)) = length (map translate r)).
      { rewrite !map_length. symmetry. apply Hr, Hin. }
      rewrite El. apply firstn_all. }
    transitivity (filter keep_row (map (map translate) (rws t))); [f_equal; exact Em|].
    apply filter_id. apply Forall_map. revert Hrows. unfold no_empty_row. apply Forall_impl.
    exact keep_row_translate.
  - unfold str in *. rewrite Hstrip. destruct (hdr t); [congruence|discriminate].
Qed.

(* explicit empty cells to the right of the table (columns without header) make openpyxl report
   a wider grid, None-filled: the reader returns the same table *)
Definition widen (k : nat) (grid : list (list xcell)) : list (list xcell) :=
  map (fun r => r ++ repeat None k) grid.

Theorem xlsx_sheet_stray t k :
  hdr t <> [] -> Forall (fun s => s <> []) (hdr t) -> rect t -> no_empty_row t ->
  read_xlsx_sheet (widen k (xl_grid t)) = Ok (lift_table (tr_table t)).
Proof.
  intros Hh Hne Hr Hrows. unfold read_xlsx_sheet, xl_grid, widen. rewrite package_rows_hdr by exact Hh.
  cbn [map xlsx_import_sheet]. rewrite set_headers_empty.
  set (hx := map xl_cell (hdr t)).
  set (rx := map (fun r : list xcell => r ++ repeat None k) (map (map xl_cell) (rws t))).
  assert (Hrx : Forall (fun r => length r = length (hx ++ repeat None k)) rx).
  { unfold rx, hx. rewrite map_map. apply Forall_map. revert Hr. unfold rect. apply Forall_impl. intros r Hlen.
    rewrite !app_length, !map_length, Hlen. reflexivity. }
  rewrite xlsx_import_rect; [|constructor|exact Hrx]. cbn [app].
  assert (Hsome : hx = map Some (map translate (hdr t))).
  { unfold hx. rewrite map_map. apply map_ext_in. intros s Hin. rewrite Forall_forall in Hne. apply xl_cell_nonempty, Hne, Hin. }
  assert (Hstrip : strip_none (hx ++ repeat None k) = hx).
  { rewrite strip_none_repeat. apply strip_none_all_some. rewrite Hsome. apply Forall_map. apply Forall_forall. intros s _. discriminate. }
  assert (Hhx : hx <> []).
  { unfold hx. destruct (hdr t); [congruence|discriminate]. }
  pose proof (sanitize_imported (mkT (hx ++ repeat None k) rx) Hrx) as E. cbn [hdr rws] in E.
  rewrite Hstrip in E. specialize (E Hhx).
  etransitivity; [exact E|]. clear E.
  unfold lift_table, tr_table. cbn [hdr rws]. f_equal. f_equal; [exact Hsome|].
  assert (Em : map (sanitize_row (length hx)) rx = map (map translate) (rws t)).
  { unfold rx. rewrite !map_map. apply map_ext_in. intros r Hin. unfold sanitize_row. rewrite map_app, map_map.
    rewrite (map_ext _ _ cell_text_xl_cell).
    assert (El : length hx = length (map translate r)).
    { unfold hx. rewrite !map_length. symmetry. unfold rect in Hr. rewrite Forall_forall in Hr. apply Hr, Hin. }
    rewrite El, firstn_app, firstn_all, Nat.sub_diag. cbn [firstn]. apply app_nil_r. }
  transitivity (filter keep_row (map (map translate) (rws t))); [f_equal; exact Em|].
  apply filter_id. apply Forall_map. revert Hrows. unfold no_empty_row. apply Forall_impl.
  exact keep_row_translate.
Qed.

(* ================================================================== one sheet, JSON *)

Lemma rect_tr_table t : rect t -> rect (tr_table t).
Proof.
  unfold rect, tr_table. cbn [hdr rws]. intros H. apply Forall_map. revert H. apply Forall_impl.
  intros r Hlen. rewrite !map_length. exact Hlen.
Qed.

Theorem json_sheet t :
  NoDup (hdr t) -> rect t -> rws t <> [] -> from_dicts (to_dicts t) = Ok t.
Proof. exact (json_table_roundtrip t). Qed.

(* ================================================================== workbooks *)

Lemma wb_mapM_ok {S T} (f : S -> result io_err T) (g : S -> T) (wb : workbook S) :
  Forall (fun p => f (snd p) = Ok (g (snd p))) wb -> wb_mapM f wb = Ok (wb_map g wb).
Proof.
  unfold wb_mapM, wb_map. induction wb as [|p wb IH]; intros H; [reflexivity|].
  inversion H as [|p' wb' Hp Hwb]; subst. cbn [mapM map]. rewrite Hp, IH by exact Hwb. reflexivity.
Qed.

Lemma wb_mapM_wb_map {S T U} (f : T -> result io_err U) (g : S -> T) (wb : workbook S) :
  wb_mapM f (wb_map g wb) = wb_mapM (fun x => f (g x)) wb.
Proof.
  unfold wb_mapM, wb_map. induction wb as [|p wb IH]; [reflexivity|]. cbn [mapM map fst snd]. rewrite IH. reflexivity.
Qed.

Lemma wb_map_id {S} (g : S -> S) (wb : workbook S) : Forall (fun p => g (snd p) = snd p) wb -> wb_map g wb = wb.
Proof.
  unfold wb_map. induction wb as [|[n t] wb IH]; intros H; [reflexivity|].
  inversion H as [|p' wb' Hp Hwb]; subst. cbn [map fst snd] in *. rewrite Hp, IH by exact Hwb. reflexivity.
Qed.

Lemma wb_map_wb_map {S T U} (f : T -> U) (g : S -> T) (wb : workbook S) :
  wb_map f (wb_map g wb) = wb_map (fun x => f (g x)) wb.
Proof. unfold wb_map. rewrite map_map. reflexivity. Qed.

Lemma Forall_wb_map {S T} (P : str * T -> Prop) (g : S -> T) (wb : workbook S) :
  Forall (fun p => P (fst p, g (snd p))) wb -> Forall P (wb_map g wb).
Proof. intros H. unfold wb_map. apply Forall_map. exact H. Qed.

Lemma translate_no_cr s : no_cr s -> translate s = s.
Proof. exact (translate_id s). Qed.

Lemma tr_table_cr_free t : hdr t <> [] -> cr_free t -> tr_table t = t.
Proof.
  intros Hh H. unfold cr_free in H. rewrite package_rows_hdr in H by exact Hh.
  inversion H as [|h rows Hhd Hrows]; subst. destruct t as [h rows]. unfold tr_table. cbn [hdr rws] in *.
  assert (Hm : forall r, Forall no_cr r -> map translate r = r).
  { intros r Hr. rewrite <- (map_id r) at 2. apply map_ext_in. intros s Hin. rewrite Forall_forall in Hr.
    apply translate_no_cr, Hr, Hin. }
  f_equal; [apply Hm, Hhd|]. rewrite <- (map_id rows) at 2. apply map_ext_in. intros r Hin.
  rewrite Forall_forall in Hrows. apply Hm, Hrows, Hin.
Qed.


Ltac dom_step :=
  match goal with
  | |- _ /\ _ => split
  | |- _ <> _ => discriminate
  | |- Forall _ [] => constructor
  | |- Forall _ (_ :: _) => constructor
  | |- NoDup (map _ _) => vm_compute
  | |- NoDup [] => constructor
  | |- NoDup (_ :: _) => constructor
  | |- ~ In _ _ => cbn; intuition discriminate
  | |- @eq nat _ _ => reflexivity
  | |- fits _ => vm_compute; discriminate
  | |- no_cr _ => reflexivity
  end.

Section Agree.
(* ---- the two libraries that are not modelled *)
Variables (X J : Type).
Variable xl_write : workbook (table str str) -> X.            (* openpyxl: save string cells *)
Variable xl_load : X -> workbook (list (list xcell)).          (* openpyxl: load_workbook, cell values *)
Variable json_dumps : workbook jsheet -> J.                    (* json.dumps(..., ensure_ascii=False) *)
Variable json_loads : J -> workbook jsheet.                    (* json.load *)
Hypothesis xl_roundtrip : forall wb, xl_load (xl_write wb) = wb_map xl_grid wb.
Hypothesis json_roundtrip : forall b, json_loads (json_dumps b) = b.
Variable translated : bool.                                    (* how load_csv opens its file *)

Notation d := csv_delimiter.
Notation q := csv_quotechar.

(* the same abstract workbook through the three formats *)
Definition via_csv (wb : workbook (table str str)) : result io_err (workbook (table str str)) :=
  read_csv_wb d q csv_field_limit translated (write_csv_wb d q csv_lineterminator wb).

Definition via_xlsx (wb : workbook (table str str)) : result io_err (workbook (table xcell str)) :=
  read_xlsx_wb (xl_load (xl_write wb)).

(* `convert` (CSV folder -> JSON file) followed by JSONSheetReader *)
Definition via_json (wb : workbook (table str str)) : result io_err (workbook (table str str)) :=
  match via_csv wb with
  | Err e => Err e
  | Ok w => read_json_wb (json_loads (json_dumps (to_json_wb w)))
  end.

Definition csv_ok (t : table str str) : Prop := hdr t <> [] /\ rect t /\ cells_fit t.

Theorem via_csv_ok wb :
  Forall (fun p => csv_ok (snd p)) wb -> via_csv wb = Ok (wb_map (csv_norm translated) wb).
Proof.
  intros H. unfold via_csv, read_csv_wb, write_csv_wb. rewrite wb_mapM_wb_map.
  apply wb_mapM_ok. revert H. apply Forall_impl. intros p [Hh [Hr Hf]]. apply (csv_sheet translated); assumption.
Qed.

Definition xlsx_ok (t : table str str) : Prop :=
  hdr t <> [] /\ Forall (fun s => s <> []) (hdr t) /\ rect t /\ no_empty_row t.

Theorem via_xlsx_ok wb :
  Forall (fun p => xlsx_ok (snd p)) wb -> via_xlsx wb = Ok (wb_map (fun t => lift_table (tr_table t)) wb).
Proof.
  intros H. unfold via_xlsx, read_xlsx_wb. rewrite xl_roundtrip, wb_mapM_wb_map.
  apply wb_mapM_ok. revert H. apply Forall_impl. intros p [Hh [Hne [Hr Hrows]]]. apply xlsx_sheet; assumption.
Qed.

Definition json_ok (t : table str str) : Prop := NoDup (hdr t) /\ rect t /\ rws t <> [].

Lemma read_json_to_json w :
  Forall (fun p => json_ok (snd p)) w -> read_json_wb (json_loads (json_dumps (to_json_wb w))) = Ok w.
Proof.
  intros H. rewrite json_roundtrip. unfold read_json_wb, to_json_wb. rewrite wb_mapM_wb_map.
  rewrite (wb_mapM_ok _ (fun t => t)).
  - f_equal. apply wb_map_id. apply Forall_forall. reflexivity.
  - revert H. apply Forall_impl. intros p [Hn [Hr Hrows]]. apply json_sheet; assumption.
Qed.

Theorem via_json_ok wb :
  Forall (fun p => csv_ok (snd p)) wb -> Forall (fun p => json_ok (csv_norm translated (snd p))) wb ->
  via_json wb = Ok (wb_map (csv_norm translated) wb).
Proof.
  intros Hc Hj. unfold via_json. rewrite via_csv_ok by exact Hc.
  apply read_json_to_json. apply Forall_wb_map. exact Hj.
Qed.

(* ---- the agreement theorem, cells intact: the property's domain (rectangular sheets,
   non-empty pairwise distinct headers, cells within the csv field limit) minus the two
   classes where it is false (all-empty row; sheet without rows), for cells without CR
   (a CR is newline-normalised by the CSV and XLSX readers: see formats_agree_normalised) *)
Definition sheet_ok (t : table str str) : Prop :=
  hdr t <> [] /\ Forall (fun s => s <> []) (hdr t) /\ NoDup (hdr t) /\ rect t /\ cells_fit t /\
  no_empty_row t /\ rws t <> [].

Definition wb_ok (wb : workbook (table str str)) : Prop := Forall (fun p => sheet_ok (snd p)) wb.
Definition wb_cr_free (wb : workbook (table str str)) : Prop := Forall (fun p => cr_free (snd p)) wb.

Lemma csv_norm_cr_free t : hdr t <> [] -> cr_free t -> csv_norm translated t = t.
Proof. intros Hh Hc. unfold csv_norm. destruct translated; [apply tr_table_cr_free; assumption|reflexivity]. Qed.

Theorem formats_agree wb :
  wb_ok wb -> wb_cr_free wb ->
  via_csv wb = Ok wb /\ via_xlsx wb = Ok (wb_map lift_table wb) /\ via_json wb = Ok wb.
Proof.
  intros Hok Hcr. unfold wb_ok, wb_cr_free in *.
  assert (Hnorm : wb_map (csv_norm translated) wb = wb).
  { apply wb_map_id. rewrite Forall_forall in *. intros p Hin. destruct (Hok p Hin) as [Hh _].
    apply csv_norm_cr_free; [exact Hh|apply Hcr, Hin]. }
  assert (Htr : wb_map (fun t => lift_table (tr_table t)) wb = wb_map lift_table wb).
  { unfold wb_map. apply map_ext_in. intros p Hin. rewrite Forall_forall in *. destruct (Hok p Hin) as [Hh _].
    rewrite tr_table_cr_free; [reflexivity|exact Hh|apply Hcr, Hin]. }
  assert (Hc : Forall (fun p => csv_ok (snd p)) wb).
  { revert Hok. apply Forall_impl. unfold sheet_ok, csv_ok. tauto. }
  split; [|split].
  - rewrite via_csv_ok by exact Hc. rewrite Hnorm. reflexivity.
  - rewrite via_xlsx_ok; [rewrite Htr; reflexivity|]. revert Hok. apply Forall_impl. unfold sheet_ok, xlsx_ok. tauto.
  - rewrite via_json_ok; [rewrite Hnorm; reflexivity|exact Hc|].
    rewrite Forall_forall in *. intros p Hin. destruct (Hok p Hin) as [Hh [_ [Hnd [Hr [_ [_ Hrows]]]]]].
    rewrite csv_norm_cr_free; [|exact Hh|apply Hcr, Hin]. unfold json_ok. tauto.
Qed.

(* the three reads, compared with each other *)
Corollary formats_agree_eq wb :
  wb_ok wb -> wb_cr_free wb ->
  rmap (wb_map lift_table) (via_csv wb) = via_xlsx wb /\ via_json wb = via_csv wb.
Proof.
  intros Hok Hcr. destruct (formats_agree wb Hok Hcr) as [E1 [E2 E3]]. rewrite E1, E2, E3. split; reflexivity.
Qed.

(* ---- with CR in cells: all three readers still agree, on the newline-normalised workbook
   (load_csv opens its file with newline=None) *)
Definition sheet_ok_tr (t : table str str) : Prop :=
  hdr t <> [] /\ Forall (fun s => s <> []) (hdr t) /\ NoDup (map translate (hdr t)) /\ rect t /\ cells_fit t /\
  no_empty_row t /\ rws t <> [].

Theorem formats_agree_normalised wb :
  translated = true -> Forall (fun p => sheet_ok_tr (snd p)) wb ->
  via_csv wb = Ok (wb_map tr_table wb) /\
  via_xlsx wb = Ok (wb_map lift_table (wb_map tr_table wb)) /\
  via_json wb = Ok (wb_map tr_table wb).
Proof.
  intros Ht Hok.
  assert (Hc : Forall (fun p => csv_ok (snd p)) wb).
  { revert Hok. apply Forall_impl. unfold sheet_ok_tr, csv_ok. tauto. }
  split; [|split].
  - rewrite via_csv_ok by exact Hc. rewrite Ht. reflexivity.
  - rewrite wb_map_wb_map. apply via_xlsx_ok. revert Hok. apply Forall_impl. unfold sheet_ok_tr, xlsx_ok. tauto.
  - rewrite via_json_ok; [rewrite Ht; reflexivity|exact Hc|].
    revert Hok. apply Forall_impl. intros p [Hh [_ [Hnd [Hr [_ [_ Hrows]]]]]]. rewrite Ht. unfold csv_norm, json_ok.
    split; [exact Hnd|]. split; [apply rect_tr_table, Hr|]. unfold tr_table. cbn [rws].
    destruct (rws (snd p)); [congruence|discriminate].
Qed.

(* ---- the unrestricted statement: the property's own quantifier ("rectangular text sheets
   with unique non-empty headers", any number of rows, empty cells allowed) *)
Definition in_property_domain (t : table str str) : Prop :=
  hdr t <> [] /\ Forall (fun s => s <> []) (hdr t) /\ NoDup (hdr t) /\ rect t /\ cells_fit t /\ cr_free t.

Definition formats_agree_full : Prop :=
  forall wb, Forall (fun p => in_property_domain (snd p)) wb ->
  rmap (wb_map lift_table) (via_csv wb) = via_xlsx wb /\ via_json wb = via_csv wb.

Local Open Scope N_scope.

(* witness 1 (finding "all-empty row"): one sheet "s", header "a", one row with an empty
   cell.  CSV keeps the row, _sanitize drops it. *)
Definition wb_empty_row : workbook (table str str) := [([115], mkT [[97]] [[[]]])].
(* witness 2 (finding "sheet without rows"): one sheet "s", header "a", no rows.  CSV and
   XLSX keep the header, convert + JSONSheetReader return a table without headers. *)
Definition wb_header_only : workbook (table str str) := [([115], mkT [[97]] [])].

Lemma wb_empty_row_in_domain : Forall (fun p => in_property_domain (snd p)) wb_empty_row.
Proof.
  constructor; [|constructor]. unfold in_property_domain, rect, cells_fit, cr_free. cbn [hdr rws package_rows snd].
  repeat dom_step.
Qed.

Lemma wb_header_only_in_domain : Forall (fun p => in_property_domain (snd p)) wb_header_only.
Proof.
  constructor; [|constructor]. unfold in_property_domain, rect, cells_fit, cr_free. cbn [hdr rws package_rows snd].
  repeat dom_step.
Qed.

Theorem formats_agree_empty_row_refuted :
  via_csv wb_empty_row = Ok wb_empty_row /\
  via_xlsx wb_empty_row = Ok [([115], mkT [Some [97]] [])] /\
  rmap (wb_map lift_table) (via_csv wb_empty_row) <> via_xlsx wb_empty_row.
Proof.
  assert (E1 : via_csv wb_empty_row = Ok wb_empty_row) by (unfold via_csv; destruct translated; vm_compute; reflexivity).
  assert (E2 : via_xlsx wb_empty_row = Ok [([115], mkT [Some [97]] [])]).
  { unfold via_xlsx. rewrite xl_roundtrip. vm_compute. reflexivity. }
  split; [exact E1|]. split; [exact E2|]. rewrite E1, E2. vm_compute. discriminate.
Qed.

Theorem formats_agree_header_only_refuted :
  via_csv wb_header_only = Ok wb_header_only /\
  via_json wb_header_only = Ok [([115], empty_table)] /\
  via_json wb_header_only <> via_csv wb_header_only.
Proof.
  assert (E1 : via_csv wb_header_only = Ok wb_header_only) by (unfold via_csv; destruct translated; vm_compute; reflexivity).
  assert (E2 : via_json wb_header_only = Ok [([115], empty_table)]).
  { unfold via_json. rewrite E1, json_roundtrip. vm_compute. reflexivity. }
  split; [exact E1|]. split; [exact E2|]. rewrite E1, E2. vm_compute. discriminate.
Qed.

Theorem formats_agree_full_refuted : ~ formats_agree_full.
Proof.
  intros H. destruct (H wb_empty_row wb_empty_row_in_domain) as [E _].
  destruct formats_agree_empty_row_refuted as [_ [_ Hne]]. exact (Hne E).
Qed.

(* the second witness alone refutes it too (a different defect) *)
Theorem formats_agree_full_refuted_by_header_only :
  ~ (forall wb, Forall (fun p => in_property_domain (snd p)) wb -> via_json wb = via_csv wb).
Proof.
  intros H. destruct formats_agree_header_only_refuted as [_ [_ Hne]].
  exact (Hne (H wb_header_only wb_header_only_in_domain)).
Qed.

End Agree.

(* ================================================================== non-vacuity *)

(* the two library hypotheses are satisfiable (a file format that stores exactly what openpyxl
   hands back / the parsed JSON), and a workbook with commas, quotes, LF and non-ASCII cells, an
   empty cell and two sheets is in the domain of [formats_agree] *)
Local Open Scope N_scope.

Definition ex_wb : workbook (table str str) :=
  [ ([115; 49], mkT [[97]; [98; 32; 99]; [233]]
                    [[[120; 44; 121]; []; [34; 104; 105; 34; 10; 19990]]; [[]; [49]; []]]);
    ([102; 108; 111; 119; 32; 97], mkT [[105; 100]] [[[128512]]]) ].

Lemma ex_wb_ok : wb_ok ex_wb /\ wb_cr_free ex_wb.
Proof.
  unfold wb_ok, wb_cr_free, ex_wb. split.
  - repeat (constructor; [|try constructor]); unfold sheet_ok, rect, cells_fit, no_empty_row;
      cbn [hdr rws package_rows snd]; repeat dom_step.
    + exists [120; 44; 121]. split; [left; reflexivity|discriminate].
    + exists [49]. split; [right; left; reflexivity|discriminate].
    + exists [128512]. split; [left; reflexivity|discriminate].
  - repeat (constructor; [|try constructor]); unfold cr_free; cbn [hdr rws package_rows snd]; repeat dom_step.
Qed.

Example formats_agree_nonvacuous :
  let xl_write := wb_map xl_grid in
  let xl_load := fun x : workbook (list (list xcell)) => x in
  let dumps := fun b : workbook jsheet => b in
  let loads := fun b : workbook jsheet => b in
  (forall wb, xl_load (xl_write wb) = wb_map xl_grid wb) /\ (forall b, loads (dumps b) = b) /\
  wb_ok ex_wb /\ wb_cr_free ex_wb /\
  via_csv load_csv_translated ex_wb = Ok ex_wb /\
  via_xlsx _ xl_write xl_load ex_wb = Ok (wb_map lift_table ex_wb) /\
  via_json _ dumps loads load_csv_translated ex_wb = Ok ex_wb.
Proof.
  cbv zeta. split; [reflexivity|]. split; [reflexivity|].
  destruct ex_wb_ok as [H1 H2]. split; [exact H1|]. split; [exact H2|].
  apply (formats_agree _ _ _ _ _ _); auto.
Qed.

(* the same with CR LF / CR inside cells: the three readers agree on the normalised workbook *)
Definition ex_wb_cr : workbook (table str str) :=
  [ ([115], mkT [[97]; [98]] [[[120; 13; 10; 121]; [13]]; [[]; [122; 13]]]) ].

Example formats_agree_normalised_nonvacuous :
  load_csv_translated = true /\
  Forall (fun p => sheet_ok_tr (snd p)) ex_wb_cr /\ wb_map tr_table ex_wb_cr <> ex_wb_cr /\
  via_csv load_csv_translated ex_wb_cr = Ok (wb_map tr_table ex_wb_cr).
Proof.
  assert (Ht : load_csv_translated = true) by reflexivity.
  assert (Hok : Forall (fun p => sheet_ok_tr (snd p)) ex_wb_cr).
  { unfold ex_wb_cr. constructor; [|constructor]. unfold sheet_ok_tr, rect, cells_fit, no_empty_row.
    cbn [hdr rws package_rows snd]. repeat dom_step.
    - exists [120; 13; 10; 121]. split; [left; reflexivity|discriminate].
    - exists [122; 13]. split; [right; left; reflexivity|discriminate]. }
  split; [exact Ht|]. split; [exact Hok|]. split; [vm_compute; discriminate|].
  apply (formats_agree_normalised _ _ (wb_map xl_grid) (fun x => x) (fun b => b) (fun b => b)); auto.
Qed.

(* at the regenerated newline mode of load_csv *)
Lemma load_csv_translated_true : load_csv_translated = true.
Proof. reflexivity. Qed.

Theorem formats_agree_normalised_tables :
  forall (X J : Type) (xl_write : workbook (table str str) -> X) (xl_load : X -> workbook (list (list xcell)))
         (json_dumps : workbook jsheet -> J) (json_loads : J -> workbook jsheet),
  (forall wb, xl_load (xl_write wb) = wb_map xl_grid wb) ->
  (forall b, json_loads (json_dumps b) = b) ->
  forall wb : workbook (table str str),
  Forall (fun p => sheet_ok_tr (snd p)) wb ->
  via_csv load_csv_translated wb = Ok (wb_map tr_table wb) /\
  via_xlsx X xl_write xl_load wb = Ok (wb_map lift_table (wb_map tr_table wb)) /\
  via_json J json_dumps json_loads load_csv_translated wb = Ok (wb_map tr_table wb).
Proof.
  intros X J xw xlo jd jl Hx Hj wb Hok.
  exact (formats_agree_normalised X J xw xlo jd jl Hx Hj load_csv_translated wb load_csv_translated_true Hok).
Qed.
