(* E9 / C14 — facts about the csv codec model (Csv.v) and the reader glue (Sanitize.v). *)
From Coq Require Import List NArith Bool Lia Arith.
From RPFT Require Import Base.Sexp Base.PyStr Base.Result Base.ODict Gen.Tables Io.Csv Io.Sanitize.
Import ListNotations.
Local Open Scope N_scope.

Lemma frev_rev {A} (l : list A) : frev l = rev l.
Proof. unfold frev. symmetry. apply rev_alt. Qed.

(* ================================================================== csv codec *)

Section CsvFacts.
Variables (delim quote : char) (lim : N).
Hypothesis Hq_nl : is_nl quote = false.
Hypothesis Hd_nl : is_nl delim = false.
Hypothesis Hdq : (delim =? quote) = false.

Notation run' := (run delim quote lim).
Notation step' := (step delim quote lim).
Notation escape' := (escape_field quote).

Definition special (c : char) : bool := (c =? delim) || (c =? quote) || is_nl c.

(* a field as the writer may emit it: quoted (any content), or bare (no special char) *)
Definition wfield (p : bool * str) : str :=
  if fst p then quote :: escape' (snd p) ++ [quote] else snd p.

Definition field_ok (p : bool * str) : Prop :=
  N.of_nat (length (snd p)) <= lim /\ (fst p = true \/ forallb (fun c => negb (special c)) (snd p) = true).

Definition row_text (fs : list (bool * str)) : str := join_char delim (map wfield fs).

Lemma eol_after_plain c r : is_nl c = false -> r <> [] -> eol_after c r = false.
Proof.
  intros Hc Hr. destruct r as [|d r]; [congruence|]. unfold eol_after.
  unfold is_nl in Hc. apply orb_false_iff in Hc. destruct Hc as [H1 H2]. rewrite H1, H2. reflexivity.
Qed.

Lemma leb_gt_false n : n < lim -> (lim <=? n) = false.
Proof. intros H. apply N.leb_gt. exact H. Qed.

(* ---- inside a quoted field *)

Lemma run_inq_char c f n rw out r :
  (c =? quote) = false -> n < lim ->
  run' (mkR InQuoted f n rw) out (c :: r) = run' (mkR InQuoted (c :: f) (n + 1) rw) out r.
Proof.
  intros Hc Hn. cbn [run]. unfold step at 1. cbn [md]. rewrite Hc. unfold add_char. cbn [flen fld md row].
  rewrite (leb_gt_false n Hn). destruct (eol_after c r); [|reflexivity].
  unfold step. cbn [md]. reflexivity.
Qed.

Lemma run_inq_quote f n rw out r :
  n < lim -> r <> [] ->
  run' (mkR InQuoted f n rw) out (quote :: quote :: r) = run' (mkR InQuoted (quote :: f) (n + 1) rw) out r.
Proof.
  intros Hn Hr. cbn [run]. unfold step at 1. cbn [md]. rewrite N.eqb_refl.
  rewrite (eol_after_plain quote (quote :: r) Hq_nl) by discriminate.
  unfold set_md. cbn [fld flen row]. unfold step at 1. cbn [md]. rewrite N.eqb_refl.
  unfold add_char, set_md. cbn [flen fld md row]. rewrite (leb_gt_false n Hn).
  rewrite (eol_after_plain quote r Hq_nl Hr). reflexivity.
Qed.

Lemma escape_app_nonnil cs rest : escape' cs ++ quote :: rest <> [].
Proof. destruct (escape' cs); discriminate. Qed.

Lemma run_quoted_body cs : forall f n rw out rest,
  n + N.of_nat (length cs) <= lim ->
  run' (mkR InQuoted f n rw) out (escape' cs ++ quote :: rest)
  = run' (mkR InQuoted (rev cs ++ f) (n + N.of_nat (length cs)) rw) out (quote :: rest).
Proof.
  induction cs as [|c cs IH]; intros f n rw out rest Hb.
  - cbn. rewrite N.add_0_r. reflexivity.
  - cbn [escape_field length] in *. rewrite Nat2N.inj_succ in *.
    destruct (c =? quote) eqn:Ec.
    + apply N.eqb_eq in Ec. subst c. cbn [app].
      rewrite run_inq_quote; [|lia|apply escape_app_nonnil].
      rewrite IH by lia. cbn [rev]. rewrite <- app_assoc. cbn [app].
      f_equal. f_equal. lia.
    + cbn [app]. rewrite run_inq_char; [|exact Ec|lia].
      rewrite IH by lia. cbn [rev]. rewrite <- app_assoc. cbn [app].
      f_equal. f_equal. lia.
Qed.

(* ---- a bare field *)

Lemma special_false c : special c = false -> (c =? delim) = false /\ (c =? quote) = false /\ is_nl c = false.
Proof. unfold special. intros H. apply orb_false_iff in H. destruct H as [H H3]. apply orb_false_iff in H. tauto. Qed.

Lemma run_infield_body cs : forall f n rw out rest,
  forallb (fun c => negb (special c)) cs = true -> rest <> [] ->
  n + N.of_nat (length cs) <= lim ->
  run' (mkR InField f n rw) out (cs ++ rest)
  = run' (mkR InField (rev cs ++ f) (n + N.of_nat (length cs)) rw) out rest.
Proof.
  induction cs as [|c cs IH]; intros f n rw out rest Hs Hr Hb.
  - cbn. rewrite N.add_0_r. reflexivity.
  - cbn [forallb] in Hs. apply andb_true_iff in Hs. destruct Hs as [Hc Hs].
    apply negb_true_iff in Hc. destruct (special_false c Hc) as [H1 [H2 H3]].
    cbn [length app] in *. rewrite Nat2N.inj_succ in *.
    cbn [run]. unfold step at 1. cbn [md]. rewrite H3, H1. unfold add_char. cbn [flen fld md row].
    rewrite leb_gt_false by lia.
    rewrite (eol_after_plain c (cs ++ rest) H3) by (destruct cs; [exact Hr|discriminate]).
    rewrite IH by (auto; lia). cbn [rev]. rewrite <- app_assoc. cbn [app]. f_equal. f_equal. lia.
Qed.

(* ---- one field, from the start of a record or of a field *)

Definition at_start (m : mode) : Prop := m = StartRecord \/ m = StartField.

Definition after_field (m : mode) (p : bool * str) : mode :=
  if fst p then QuoteInQuoted else match snd p with [] => m | _ => InField end.

Lemma run_field p : forall m rw out rest,
  at_start m -> field_ok p -> rest <> [] ->
  run' (mkR m [] 0 rw) out (wfield p ++ rest)
  = run' (mkR (after_field m p) (rev (snd p)) (N.of_nat (length (snd p))) rw) out rest.
Proof.
  destruct p as [q cs]. intros m rw out rest Hm [Hlen Hok] Hr. unfold wfield, after_field. cbn [fst snd] in *.
  destruct q.
  - (* quoted *)
    cbn [app]. rewrite <- app_assoc. cbn [app].
    assert (E1 : run' (mkR m [] 0 rw) out (quote :: escape' cs ++ quote :: rest)
                 = run' (mkR InQuoted [] 0 rw) out (escape' cs ++ quote :: rest)).
    { cbn [run]. rewrite (eol_after_plain quote _ Hq_nl (escape_app_nonnil cs rest)).
      destruct Hm as [-> | ->]; unfold step, step_start_field; cbn [md]; rewrite ?Hq_nl, N.eqb_refl; reflexivity. }
    rewrite E1. rewrite run_quoted_body by lia. rewrite N.add_0_l, app_nil_r.
    cbn [run]. unfold step at 1. cbn [md]. rewrite N.eqb_refl.
    rewrite (eol_after_plain quote rest Hq_nl Hr). reflexivity.
  - (* bare *)
    destruct Hok as [Hok|Hok]; [discriminate|].
    destruct cs as [|c cs]; [reflexivity|].
    cbn [forallb] in Hok. apply andb_true_iff in Hok. destruct Hok as [Hc Hs].
    apply negb_true_iff in Hc. destruct (special_false c Hc) as [H1 [H2 H3]].
    cbn [app length] in *. rewrite Nat2N.inj_succ in *.
    assert (E1 : run' (mkR m [] 0 rw) out (c :: cs ++ rest)
                 = run' (mkR InField [c] 1 rw) out (cs ++ rest)).
    { cbn [run]. rewrite (eol_after_plain c (cs ++ rest) H3) by (destruct cs; [exact Hr|discriminate]).
      assert (Hl : (lim <=? 0) = false) by (apply leb_gt_false; lia).
      destruct Hm as [-> | ->]; unfold step, step_start_field; cbn [md]; rewrite ?H3, H2, H1;
        unfold add_char, set_md; cbn [flen fld md row]; rewrite Hl; reflexivity. }
    rewrite E1. rewrite run_infield_body by (auto; lia).
    cbn [rev]. f_equal. f_equal. lia.
Qed.

(* ---- what follows a field: the delimiter, or the line terminator *)

Definition field_end (m : mode) : Prop := m = StartField \/ m = InField \/ m = QuoteInQuoted.

Lemma run_delim m f n rw out rest :
  m = StartRecord \/ field_end m -> rest <> [] ->
  run' (mkR m f n rw) out (delim :: rest) = run' (mkR StartField [] 0 (frev f :: rw)) out rest.
Proof.
  intros Hm Hr. cbn [run]. rewrite (eol_after_plain delim rest Hd_nl Hr).
  destruct Hm as [-> | [-> | [-> | ->]]]; unfold step, step_start_field; cbn [md];
    rewrite ?Hd_nl, ?Hdq, ?N.eqb_refl; reflexivity.
Qed.

Definition is_term (term : str) : Prop := term = [c_cr; c_lf] \/ term = [c_lf].

Lemma run_term_field m f n rw out term more :
  field_end m -> is_term term ->
  run' (mkR m f n rw) out (term ++ more) = run' r0 (frev (frev f :: rw) :: out) more.
Proof.
  intros Hm Ht.
  assert (Hlf : eol_after c_lf more = true) by (destruct more; reflexivity).
  assert (Hqlf : (c_lf =? quote) = false).
  { unfold is_nl in Hq_nl. apply orb_false_iff in Hq_nl. rewrite N.eqb_sym. tauto. }
  assert (Hqcr : (c_cr =? quote) = false).
  { unfold is_nl in Hq_nl. apply orb_false_iff in Hq_nl. rewrite N.eqb_sym. tauto. }
  assert (Hdlf : (c_lf =? delim) = false).
  { unfold is_nl in Hd_nl. apply orb_false_iff in Hd_nl. rewrite N.eqb_sym. tauto. }
  assert (Hdcr : (c_cr =? delim) = false).
  { unfold is_nl in Hd_nl. apply orb_false_iff in Hd_nl. rewrite N.eqb_sym. tauto. }
  destruct Ht as [-> | ->]; cbn [app run].
  - change (eol_after c_cr (c_lf :: more)) with false. cbv iota. rewrite Hlf.
    destruct Hm as [-> | [-> | ->]]; unfold step, step_start_field; cbn [md is_nl]; cbn [md];
      rewrite ?Hqcr, ?Hdcr; cbn; reflexivity.
  - rewrite Hlf.
    destruct Hm as [-> | [-> | ->]]; unfold step, step_start_field; cbn [md is_nl]; cbn [md];
      rewrite ?Hqlf, ?Hdlf; cbn; reflexivity.
Qed.

Lemma run_term_empty rw out term more :
  is_term term ->
  run' (mkR StartRecord [] 0 rw) out (term ++ more) = run' r0 (frev rw :: out) more.
Proof.
  intros Ht.
  assert (Hlf : eol_after c_lf more = true) by (destruct more; reflexivity).
  destruct Ht as [-> | ->]; cbn [app run].
  - change (eol_after c_cr (c_lf :: more)) with false. cbv iota. rewrite Hlf. cbn. reflexivity.
  - rewrite Hlf. cbn. reflexivity.
Qed.

(* ---- a whole row *)

Lemma term_nonnil term more : is_term term -> term ++ more <> [].
Proof. intros [-> | ->]; discriminate. Qed.

Lemma run_fields fs : forall m rw out term more,
  fs <> [] -> at_start m -> Forall field_ok fs -> is_term term ->
  ~ (m = StartRecord /\ fs = [(false, [])]) ->
  run' (mkR m [] 0 rw) out (row_text fs ++ term ++ more)
  = run' r0 (frev (rev (map snd fs) ++ rw) :: out) more.
Proof.
  induction fs as [|p fs IH]; intros m rw out term more Hne Hm Hok Ht Hex; [congruence|].
  inversion Hok as [|p' fs' Hp Hfs]; subst.
  destruct fs as [|p2 fs].
  - (* last field *)
    unfold row_text. cbn [map join_char].
    rewrite run_field by (auto using term_nonnil).
    destruct p as [q cs]. unfold after_field. cbn [fst snd map rev app].
    destruct q.
    + rewrite run_term_field by (unfold field_end; auto).
      rewrite (frev_rev (rev cs)), rev_involutive. reflexivity.
    + destruct cs as [|c cs].
      * destruct Hm as [-> | ->]; [exfalso; apply Hex; auto|].
        rewrite run_term_field by (unfold field_end; auto).
        reflexivity.
      * rewrite run_term_field by (unfold field_end; auto).
        rewrite (frev_rev (rev (c :: cs))), rev_involutive. reflexivity.
  - (* a field followed by the delimiter *)
    unfold row_text. cbn [map join_char]. fold (row_text (p2 :: fs)).
    change (join_char delim (wfield p2 :: map wfield fs)) with (row_text (p2 :: fs)).
    rewrite <- app_assoc. cbn [app].
    rewrite run_field by (auto; discriminate).
    assert (Hrest : row_text (p2 :: fs) ++ term ++ more <> []).
    { intros E. apply app_eq_nil in E. destruct E as [_ E]. revert E. apply term_nonnil, Ht. }
    rewrite run_delim; [| |exact Hrest].
    + rewrite IH; [|discriminate|right; reflexivity|exact Hfs|exact Ht|intros [E _]; discriminate].
      rewrite (frev_rev (rev (snd p))), rev_involutive. cbn [map rev]. rewrite <- !app_assoc. reflexivity.
    + destruct p as [q cs]. unfold after_field, field_end. cbn [fst snd].
      destruct q; [tauto|]. destruct cs; [|tauto]. destruct Hm as [-> | ->]; tauto.
Qed.

End CsvFacts.
