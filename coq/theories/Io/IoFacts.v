(* E9 / C14 — facts about the csv codec model (Csv.v) and the reader glue (Sanitize.v). *)
From Coq Require Import List NArith Bool Lia Arith.
From RPFT Require Import Base.Sexp Base.PyStr Base.Result Base.ODict Gen.Tables Io.Csv Io.Sanitize.
Import ListNotations.
Local Open Scope N_scope.

Lemma frev_rev {A} (l : list A) : frev l = rev l.
Proof. unfold frev. symmetry. apply rev_alt. Qed.

(* ================================================================== csv codec *)

Section CsvFacts.
Variables (delim quote : char) (lim : N).
Hypothesis Hq_nl : is_nl quote = false.
Hypothesis Hd_nl : is_nl delim = false.
Hypothesis Hdq : (delim =? quote) = false.

Notation run' := (run delim quote lim).
Notation step' := (step delim quote lim).
Notation escape' := (escape_field quote).

Definition special (c : char) : bool := (c =? delim) || (c =? quote) || is_nl c.

(* a field as the writer may emit it: quoted (any content), or bare (no special char) *)
Definition wfield (p : bool * str) : str :=
  if fst p then quote :: escape' (snd p) ++ [quote] else snd p.

Definition field_ok (p : bool * str) : Prop :=
  N.of_nat (length (snd p)) <= lim /\ (fst p = true \/ forallb (fun c => negb (special c)) (snd p) = true).

Definition row_text (fs : list (bool * str)) : str := join_char delim (map wfield fs).

Lemma eol_after_plain c r : is_nl c = false -> r <> [] -> eol_after c r = false.
Proof.
  intros Hc Hr. destruct r as [|d r]; [congruence|]. unfold eol_after.
  unfold is_nl in Hc. apply orb_false_iff in Hc. destruct Hc as [H1 H2]. rewrite H1, H2. reflexivity.
Qed.

Lemma leb_gt_false n : n < lim -> (lim <=? n) = false.
Proof. intros H. apply N.leb_gt. exact H. Qed.

(* ---- inside a quoted field *)

Lemma run_inq_char c f n rw out r :
  (c =? quote) = false -> n < lim ->
  run' (mkR InQuoted f n rw) out (c :: r) = run' (mkR InQuoted (c :: f) (n + 1) rw) out r.
Proof.
  intros Hc Hn. cbn [run]. unfold step at 1. cbn [md]. rewrite Hc. unfold add_char. cbn [flen fld md row].
  rewrite (leb_gt_false n Hn). destruct (eol_after c r); [|reflexivity].
  unfold step. cbn [md]. reflexivity.
Qed.

Lemma run_inq_quote f n rw out r :
  n < lim -> r <> [] ->
  run' (mkR InQuoted f n rw) out (quote :: quote :: r) = run' (mkR InQuoted (quote :: f) (n + 1) rw) out r.
Proof.
  intros Hn Hr. cbn [run]. unfold step at 1. cbn [md]. rewrite N.eqb_refl.
  rewrite (eol_after_plain quote (quote :: r) Hq_nl) by discriminate.
  unfold set_md. cbn [fld flen row]. unfold step at 1. cbn [md]. rewrite N.eqb_refl.
  unfold add_char, set_md. cbn [flen fld md row]. rewrite (leb_gt_false n Hn).
  rewrite (eol_after_plain quote r Hq_nl Hr). reflexivity.
Qed.

Lemma escape_app_nonnil cs rest : escape' cs ++ quote :: rest <> [].
Proof. destruct (escape' cs); discriminate. Qed.

Lemma run_quoted_body cs : forall f n rw out rest,
  n + N.of_nat (length cs) <= lim ->
  run' (mkR InQuoted f n rw) out (escape' cs ++ quote :: rest)
  = run' (mkR InQuoted (rev cs ++ f) (n + N.of_nat (length cs)) rw) out (quote :: rest).
Proof.
  induction cs as [|c cs IH]; intros f n rw out rest Hb.
  - cbn. rewrite N.add_0_r. reflexivity.
  - cbn [escape_field length] in *. rewrite Nat2N.inj_succ in *.
    destruct (c =? quote) eqn:Ec.
    + apply N.eqb_eq in Ec. subst c. cbn [app].
      rewrite run_inq_quote; [|lia|apply escape_app_nonnil].
      rewrite IH by lia. cbn [rev]. rewrite <- app_assoc. cbn [app].
      f_equal. f_equal. lia.
    + cbn [app]. rewrite run_inq_char; [|exact Ec|lia].
      rewrite IH by lia. cbn [rev]. rewrite <- app_assoc. cbn [app].
      f_equal. f_equal. lia.
Qed.

(* ---- a bare field *)

Lemma special_false c : special c = false -> (c =? delim) = false /\ (c =? quote) = false /\ is_nl c = false.
Proof. unfold special. intros H. apply orb_false_iff in H. destruct H as [H H3]. apply orb_false_iff in H. tauto. Qed.

Lemma run_infield_body cs : forall f n rw out rest,
  forallb (fun c => negb (special c)) cs = true -> rest <> [] ->
  n + N.of_nat (length cs) <= lim ->
  run' (mkR InField f n rw) out (cs ++ rest)
  = run' (mkR InField (rev cs ++ f) (n + N.of_nat (length cs)) rw) out rest.
Proof.
  induction cs as [|c cs IH]; intros f n rw out rest Hs Hr Hb.
  - cbn. rewrite N.add_0_r. reflexivity.
  - cbn [forallb] in Hs. apply andb_true_iff in Hs. destruct Hs as [Hc Hs].
    apply negb_true_iff in Hc. destruct (special_false c Hc) as [H1 [H2 H3]].
    cbn [length app] in *. rewrite Nat2N.inj_succ in *.
    cbn [run]. unfold step at 1. cbn [md]. rewrite H3, H1. unfold add_char. cbn [flen fld md row].
    rewrite leb_gt_false by lia.
    rewrite (eol_after_plain c (cs ++ rest) H3) by (destruct cs; [exact Hr|discriminate]).
    rewrite IH by (auto; lia). cbn [rev]. rewrite <- app_assoc. cbn [app]. f_equal. f_equal. lia.
Qed.

(* ---- one field, from the start of a record or of a field *)

Definition at_start (m : mode) : Prop := m = StartRecord \/ m = StartField.

Definition after_field (m : mode) (p : bool * str) : mode :=
  if fst p then QuoteInQuoted else match snd p with [] => m | _ => InField end.

Lemma run_field p : forall m rw out rest,
  at_start m -> field_ok p -> rest <> [] ->
  run' (mkR m [] 0 rw) out (wfield p ++ rest)
  = run' (mkR (after_field m p) (rev (snd p)) (N.of_nat (length (snd p))) rw) out rest.
Proof.
  destruct p as [q cs]. intros m rw out rest Hm [Hlen Hok] Hr. unfold wfield, after_field. cbn [fst snd] in *.
  destruct q.
  - (* quoted *)
    cbn [app]. rewrite <- app_assoc. cbn [app].
    assert (E1 : run' (mkR m [] 0 rw) out (quote :: escape' cs ++ quote :: rest)
                 = run' (mkR InQuoted [] 0 rw) out (escape' cs ++ quote :: rest)).
    { cbn [run]. rewrite (eol_after_plain quote _ Hq_nl (escape_app_nonnil cs rest)).
      destruct Hm as [-> | ->]; unfold step, step_start_field; cbn [md]; rewrite ?Hq_nl, N.eqb_refl; reflexivity. }
    rewrite E1. rewrite run_quoted_body by lia. rewrite N.add_0_l, app_nil_r.
    cbn [run]. unfold step at 1. cbn [md]. rewrite N.eqb_refl.
    rewrite (eol_after_plain quote rest Hq_nl Hr). reflexivity.
  - (* bare *)
    destruct Hok as [Hok|Hok]; [discriminate|].
    destruct cs as [|c cs]; [reflexivity|].
    cbn [forallb] in Hok. apply andb_true_iff in Hok. destruct Hok as [Hc Hs].
    apply negb_true_iff in Hc. destruct (special_false c Hc) as [H1 [H2 H3]].
    cbn [app length] in *. rewrite Nat2N.inj_succ in *.
    assert (E1 : run' (mkR m [] 0 rw) out (c :: cs ++ rest)
                 = run' (mkR InField [c] 1 rw) out (cs ++ rest)).
    { cbn [run]. rewrite (eol_after_plain c (cs ++ rest) H3) by (destruct cs; [exact Hr|discriminate]).
      assert (Hl : (lim <=? 0) = false) by (apply leb_gt_false; lia).
      destruct Hm as [-> | ->]; unfold step, step_start_field; cbn [md]; rewrite ?H3, H2, H1;
        unfold add_char, set_md; cbn [flen fld md row]; rewrite Hl; reflexivity. }
    rewrite E1. rewrite run_infield_body by (auto; lia).
    cbn [rev]. f_equal. f_equal. lia.
Qed.

(* ---- what follows a field: the delimiter, or the line terminator *)

Definition field_end (m : mode) : Prop := m = StartField \/ m = InField \/ m = QuoteInQuoted.

Lemma run_delim m f n rw out rest :
  m = StartRecord \/ field_end m -> rest <> [] ->
  run' (mkR m f n rw) out (delim :: rest) = run' (mkR StartField [] 0 (frev f :: rw)) out rest.
Proof.
  intros Hm Hr. cbn [run]. rewrite (eol_after_plain delim rest Hd_nl Hr).
  destruct Hm as [-> | [-> | [-> | ->]]]; unfold step, step_start_field; cbn [md];
    rewrite ?Hd_nl, ?Hdq, ?N.eqb_refl; reflexivity.
Qed.

Definition is_term (term : str) : Prop := term = [c_cr; c_lf] \/ term = [c_lf].

Lemma run_term_field m f n rw out term more :
  field_end m -> is_term term ->
  run' (mkR m f n rw) out (term ++ more) = run' r0 (frev (frev f :: rw) :: out) more.
Proof.
  intros Hm Ht.
  assert (Hlf : eol_after c_lf more = true) by (destruct more; reflexivity).
  assert (Hqlf : (c_lf =? quote) = false).
  { unfold is_nl in Hq_nl. apply orb_false_iff in Hq_nl. rewrite N.eqb_sym. tauto. }
  assert (Hqcr : (c_cr =? quote) = false).
  { unfold is_nl in Hq_nl. apply orb_false_iff in Hq_nl. rewrite N.eqb_sym. tauto. }
  assert (Hdlf : (c_lf =? delim) = false).
  { unfold is_nl in Hd_nl. apply orb_false_iff in Hd_nl. rewrite N.eqb_sym. tauto. }
  assert (Hdcr : (c_cr =? delim) = false).
  { unfold is_nl in Hd_nl. apply orb_false_iff in Hd_nl. rewrite N.eqb_sym. tauto. }
  destruct Ht as [-> | ->]; cbn [app run].
  - change (eol_after c_cr (c_lf :: more)) with false. cbv iota. rewrite Hlf.
    destruct Hm as [-> | [-> | ->]]; unfold step, step_start_field; cbn [md is_nl]; cbn [md];
      rewrite ?Hqcr, ?Hdcr; cbn; reflexivity.
  - rewrite Hlf.
    destruct Hm as [-> | [-> | ->]]; unfold step, step_start_field; cbn [md is_nl]; cbn [md];
      rewrite ?Hqlf, ?Hdlf; cbn; reflexivity.
Qed.

Lemma run_term_empty rw out term more :
  is_term term ->
  run' (mkR StartRecord [] 0 rw) out (term ++ more) = run' r0 (frev rw :: out) more.
Proof.
  intros Ht.
  assert (Hlf : eol_after c_lf more = true) by (destruct more; reflexivity).
  destruct Ht as [-> | ->]; cbn [app run].
  - change (eol_after c_cr (c_lf :: more)) with false. cbv iota. rewrite Hlf. cbn. reflexivity.
  - rewrite Hlf. cbn. reflexivity.
Qed.

(* ---- a whole row *)

Lemma term_nonnil term more : is_term term -> term ++ more <> [].
Proof. intros [-> | ->]; discriminate. Qed.

Lemma run_fields fs : forall m rw out term more,
  fs <> [] -> at_start m -> Forall field_ok fs -> is_term term ->
  ~ (m = StartRecord /\ fs = [(false, [])]) ->
  run' (mkR m [] 0 rw) out (row_text fs ++ term ++ more)
  = run' r0 (frev (rev (map snd fs) ++ rw) :: out) more.
Proof.
  induction fs as [|p fs IH]; intros m rw out term more Hne Hm Hok Ht Hex; [congruence|].
  inversion Hok as [|p' fs' Hp Hfs]; subst.
  destruct fs as [|p2 fs].
  - (* last field *)
    unfold row_text. cbn [map join_char].
    rewrite run_field by (auto using term_nonnil).
    destruct p as [q cs]. unfold after_field. cbn [fst snd map rev app].
    destruct q.
    + rewrite run_term_field by (unfold field_end; auto).
      rewrite (frev_rev (rev cs)), rev_involutive. reflexivity.
    + destruct cs as [|c cs].
      * destruct Hm as [-> | ->]; [exfalso; apply Hex; auto|].
        rewrite run_term_field by (unfold field_end; auto).
        reflexivity.
      * rewrite run_term_field by (unfold field_end; auto).
        rewrite (frev_rev (rev (c :: cs))), rev_involutive. reflexivity.
  - (* a field followed by the delimiter *)
    unfold row_text. cbn [map join_char]. fold (row_text (p2 :: fs)).
    change (join_char delim (wfield p2 :: map wfield fs)) with (row_text (p2 :: fs)).
    rewrite <- app_assoc. cbn [app].
    rewrite run_field by (auto; discriminate).
    assert (Hrest : row_text (p2 :: fs) ++ term ++ more <> []).
    { intros E. apply app_eq_nil in E. destruct E as [_ E]. revert E. apply term_nonnil, Ht. }
    rewrite run_delim; [| |exact Hrest].
    + rewrite IH; [|discriminate|right; reflexivity|exact Hfs|exact Ht|intros [E _]; discriminate].
      rewrite (frev_rev (rev (snd p))), rev_involutive. cbn [map rev]. rewrite <- !app_assoc. reflexivity.
    + destruct p as [q cs]. unfold after_field, field_end. cbn [fst snd].
      destruct q; [tauto|]. destruct cs; [|tauto]. destruct Hm as [-> | ->]; tauto.
Qed.

(* ---- a whole text: rows of flagged fields, each followed by the line terminator *)

Definition rows_text (term : str) (frows : list (list (bool * str))) : str :=
  concat (map (fun fs => row_text fs ++ term) frows).

(* a row the writer may emit: every field well-formed, and never a lone bare empty field
   (the writer emits [""] for it: csv_writerow's "single empty field" rule) *)
Definition frow_ok (fs : list (bool * str)) : Prop := Forall field_ok fs /\ fs <> [(false, [])].

Lemma run_rows frows : forall out term,
  is_term term -> Forall frow_ok frows ->
  run' r0 out (rows_text term frows) = Ok (rev out ++ map (map snd) frows).
Proof.
  induction frows as [|fs rest IH]; intros out term Ht Hok.
  - cbn. rewrite frev_rev, app_nil_r. reflexivity.
  - inversion Hok as [|fs' rest' [Hfs Hne] Hrest]; subst.
    unfold rows_text. cbn [map concat]. fold (rows_text term rest). rewrite <- app_assoc.
    destruct fs as [|p fs].
    + change (row_text []) with (@nil char). cbn [app]. unfold r0.
      rewrite run_term_empty by exact Ht. rewrite IH by assumption.
      cbn [rev map]. rewrite <- app_assoc. reflexivity.
    + unfold r0 at 1. rewrite run_fields; [|discriminate|left; reflexivity|exact Hfs|exact Ht|intros [_ E]; exact (Hne E)].
      rewrite IH by assumption. rewrite app_nil_r, frev_rev, rev_involutive.
      cbn [rev map]. rewrite <- app_assoc. reflexivity.
Qed.

(* ---- the same with a continuation, and what happens at a field that exceeds the limit *)

Lemma run_rows_more frows : forall out term more,
  is_term term -> Forall frow_ok frows ->
  run' r0 out (rows_text term frows ++ more) = run' r0 (rev (map (map snd) frows) ++ out) more.
Proof.
  induction frows as [|fs rest IH]; intros out term more Ht Hok; [reflexivity|].
  inversion Hok as [|fs' rest' [Hfs Hne] Hrest]; subst.
  unfold rows_text. cbn [map concat]. fold (rows_text term rest). rewrite <- !app_assoc.
  destruct fs as [|p fs].
  - change (row_text []) with (@nil char). cbn [app]. unfold r0 at 1.
    rewrite run_term_empty by exact Ht. rewrite IH by assumption.
    cbn [rev map]. rewrite <- app_assoc. reflexivity.
  - unfold r0 at 1. rewrite run_fields; [|discriminate|left; reflexivity|exact Hfs|exact Ht|intros [_ E]; exact (Hne E)].
    rewrite IH by assumption. rewrite app_nil_r, frev_rev, rev_involutive.
    cbn [rev map]. rewrite <- app_assoc. reflexivity.
Qed.

Lemma rows_text_app term a b : rows_text term (a ++ b) = rows_text term a ++ rows_text term b.
Proof. unfold rows_text. rewrite map_app, concat_app. reflexivity. Qed.

Lemma escape_app a b : escape' (a ++ b) = escape' a ++ escape' b.
Proof.
  induction a as [|c a IH]; [reflexivity|]. cbn [app escape_field]. rewrite IH.
  destruct (c =? quote); reflexivity.
Qed.

Lemma escape_cons_nonnil c s : escape' (c :: s) <> [].
Proof. cbn [escape_field]. destruct (c =? quote); discriminate. Qed.

Lemma run_quoted_body_gen cs : forall f n rw out rest,
  rest <> [] -> n + N.of_nat (length cs) <= lim ->
  run' (mkR InQuoted f n rw) out (escape' cs ++ rest)
  = run' (mkR InQuoted (rev cs ++ f) (n + N.of_nat (length cs)) rw) out rest.
Proof.
  induction cs as [|c cs IH]; intros f n rw out rest Hr Hb.
  - cbn. rewrite N.add_0_r. reflexivity.
  - assert (Hne : escape' cs ++ rest <> []).
    { intros E. apply app_eq_nil in E. destruct E as [_ E]. exact (Hr E). }
    cbn [escape_field length] in *. rewrite Nat2N.inj_succ in *.
    destruct (c =? quote) eqn:Ec.
    + apply N.eqb_eq in Ec. subst c. cbn [app].
      rewrite run_inq_quote; [|lia|exact Hne].
      rewrite IH by (auto; lia). cbn [rev]. rewrite <- app_assoc. cbn [app].
      f_equal. f_equal. lia.
    + cbn [app]. rewrite run_inq_char; [|exact Ec|lia].
      rewrite IH by (auto; lia). cbn [rev]. rewrite <- app_assoc. cbn [app].
      f_equal. f_equal. lia.
Qed.

Lemma run_inq_overflow f rw out c s2 tail :
  run' (mkR InQuoted f lim rw) out (escape' (c :: s2) ++ tail) = Err EFieldLimit.
Proof.
  cbn [escape_field]. destruct (c =? quote) eqn:Ec.
  - apply N.eqb_eq in Ec. subst c. cbn [app run]. unfold step at 1. cbn [md]. rewrite N.eqb_refl.
    rewrite (eol_after_plain quote _ Hq_nl) by discriminate.
    unfold step at 1. unfold set_md. cbn [md fld flen row]. rewrite N.eqb_refl.
    unfold add_char. cbn [flen]. rewrite N.leb_refl. reflexivity.
  - cbn [app run]. unfold step at 1. cbn [md]. rewrite Ec. unfold add_char. cbn [flen].
    rewrite N.leb_refl. reflexivity.
Qed.

Lemma run_bare_overflow m f rw out c tail :
  m = InField \/ at_start m -> special c = false ->
  run' (mkR m f lim rw) out (c :: tail) = Err EFieldLimit.
Proof.
  intros Hm Hc. destruct (special_false c Hc) as [H1 [H2 H3]].
  cbn [run]. destruct Hm as [-> | [-> | ->]]; unfold step, step_start_field; cbn [md]; rewrite ?H3, ?H2, ?H1;
    unfold add_char, set_md; cbn [flen]; rewrite N.leb_refl; reflexivity.
Qed.

Lemma split_at_lim (s : str) :
  lim < N.of_nat (length s) -> exists s1 c s2, s = s1 ++ c :: s2 /\ N.of_nat (length s1) = lim.
Proof.
  intros H. set (k := N.to_nat lim).
  assert (Hk : (k < length s)%nat) by (unfold k; lia).
  destruct (skipn k s) as [|c s2] eqn:Es.
  - apply (f_equal (@length _)) in Es. rewrite skipn_length in Es. cbn in Es. lia.
  - exists (firstn k s), c, s2. split.
    + rewrite <- Es. symmetry. apply firstn_skipn.
    + rewrite firstn_length. unfold k. lia.
Qed.

Lemma run_field_overflow p : forall m rw out tail,
  at_start m -> lim < N.of_nat (length (snd p)) ->
  fst p = true \/ forallb (fun c => negb (special c)) (snd p) = true ->
  run' (mkR m [] 0 rw) out (wfield p ++ tail) = Err EFieldLimit.
Proof.
  destruct p as [q s]. cbn [fst snd]. intros m rw out tail Hm Hlen Hq.
  destruct (split_at_lim s Hlen) as [s1 [c [s2 [Es Hl1]]]]. subst s. unfold wfield. cbn [fst snd].
  destruct q.
  - (* quoted *)
    rewrite escape_app. cbn [app]. rewrite <- !app_assoc.
    assert (E1 : forall X, X <> [] -> run' (mkR m [] 0 rw) out (quote :: X) = run' (mkR InQuoted [] 0 rw) out X).
    { intros X HX. cbn [run]. rewrite (eol_after_plain quote _ Hq_nl HX).
      destruct Hm as [-> | ->]; unfold step, step_start_field; cbn [md]; rewrite ?Hq_nl, N.eqb_refl; reflexivity. }
    rewrite E1.
    + rewrite run_quoted_body_gen; [| |lia].
      * rewrite N.add_0_l, Hl1. apply run_inq_overflow.
      * intros E. apply app_eq_nil in E. destruct E as [E _]. exact (escape_cons_nonnil c s2 E).
    + intros E. apply app_eq_nil in E. destruct E as [_ E]. apply app_eq_nil in E. destruct E as [E _].
      exact (escape_cons_nonnil c s2 E).
  - (* bare *)
    destruct Hq as [Hq|Hq]; [discriminate|].
    rewrite forallb_app in Hq. apply andb_true_iff in Hq. destruct Hq as [Hs1 Hcs2].
    cbn [forallb] in Hcs2. apply andb_true_iff in Hcs2. destruct Hcs2 as [Hc _]. apply negb_true_iff in Hc.
    rewrite <- app_assoc. cbn [app].
    destruct s1 as [|c0 s1].
    + cbn [length] in Hl1. cbn [app]. change (N.of_nat 0) with 0 in Hl1.
      rewrite Hl1. apply run_bare_overflow; [right; exact Hm|]. exact Hc.
    + cbn [forallb] in Hs1. apply andb_true_iff in Hs1. destruct Hs1 as [Hc0 Hs1].
      apply negb_true_iff in Hc0. destruct (special_false c0 Hc0) as [H1 [H2 H3]].
      cbn [length] in Hl1. rewrite Nat2N.inj_succ in Hl1. cbn [app].
      assert (E1 : run' (mkR m [] 0 rw) out (c0 :: s1 ++ c :: s2 ++ tail)
                   = run' (mkR InField [c0] 1 rw) out (s1 ++ c :: s2 ++ tail)).
      { cbn [run]. rewrite (eol_after_plain c0 _ H3) by (destruct s1; discriminate).
        assert (Hl : (lim <=? 0) = false) by (apply leb_gt_false; lia).
        destruct Hm as [-> | ->]; unfold step, step_start_field; cbn [md]; rewrite ?H3, H2, H1;
          unfold add_char, set_md; cbn [flen fld md row]; rewrite Hl; reflexivity. }
      rewrite E1. rewrite run_infield_body; [|exact Hs1|discriminate|lia].
      replace (1 + N.of_nat (length s1)) with lim by lia.
      apply run_bare_overflow; [left; reflexivity|exact Hc].
Qed.

Lemma row_text_cons p l : l <> [] -> row_text (p :: l) = wfield p ++ delim :: row_text l.
Proof. destruct l as [|p2 l]; [congruence|reflexivity]. Qed.

Lemma run_fields_prefix fs1 : forall m rw out p fs2 more,
  at_start m -> Forall field_ok fs1 -> more <> [] ->
  exists m' rw', at_start m' /\
    run' (mkR m [] 0 rw) out (row_text (fs1 ++ p :: fs2) ++ more)
    = run' (mkR m' [] 0 rw') out (row_text (p :: fs2) ++ more).
Proof.
  induction fs1 as [|p1 fs1 IH]; intros m rw out p fs2 more Hm Hok Hmore.
  - exists m, rw. split; [exact Hm|reflexivity].
  - inversion Hok as [|p1' fs1' Hp1 Hfs1]; subst. cbn [app].
    rewrite row_text_cons by (destruct fs1; discriminate). rewrite <- app_assoc. cbn [app].
    rewrite run_field by (auto; discriminate).
    assert (Hrest : row_text (fs1 ++ p :: fs2) ++ more <> []).
    { intros E. apply app_eq_nil in E. destruct E as [_ E]. exact (Hmore E). }
    rewrite run_delim; [| |exact Hrest].
    + apply IH; [right; reflexivity|exact Hfs1|exact Hmore].
    + destruct p1 as [q cs]. unfold after_field, field_end. cbn [fst snd].
      destruct q; [tauto|]. destruct cs; [|tauto]. destruct Hm as [-> | ->]; tauto.
Qed.

Lemma row_text_head p fs2 more : exists tail, row_text (p :: fs2) ++ more = wfield p ++ tail.
Proof.
  destruct fs2 as [|p2 fs2].
  - exists more. reflexivity.
  - exists (delim :: row_text (p2 :: fs2) ++ more). rewrite row_text_cons by discriminate.
    rewrite <- app_assoc. reflexivity.
Qed.

Lemma Forall_decidable {A} (P : A -> Prop) : (forall x, P x \/ ~ P x) -> forall l, Forall P l \/ ~ Forall P l.
Proof.
  intros Hd l. induction l as [|x l IH]; [left; constructor|].
  destruct (Hd x) as [Hx|Hx]; [|right; intros H; inversion H; contradiction].
  destruct IH as [Hl|Hl]; [left; constructor; assumption|right; intros H; inversion H; contradiction].
Qed.

Lemma Forall_split_first {A} (P : A -> Prop) : (forall x, P x \/ ~ P x) -> forall l,
  ~ Forall P l -> exists l1 x l2, l = l1 ++ x :: l2 /\ Forall P l1 /\ ~ P x.
Proof.
  intros Hd l. induction l as [|x l IH]; intros Hn; [exfalso; apply Hn; constructor|].
  destruct (Hd x) as [Hx|Hx].
  - destruct IH as [l1 [y [l2 [E [H1 H2]]]]].
    + intros Hl. apply Hn. constructor; assumption.
    + exists (x :: l1), y, l2. split; [rewrite E; reflexivity|]. split; [constructor; assumption|exact H2].
  - exists [], x, l. split; [reflexivity|]. split; [constructor|exact Hx].
Qed.

(* ---- universal-newline translation (a file opened with newline=None) *)

Lemma list_ind2 {A} (P : list A -> Prop) :
  P [] -> (forall x, P [x]) -> (forall x y l, P l -> P (y :: l) -> P (x :: y :: l)) -> forall l, P l.
Proof.
  intros H0 H1 H2 l. assert (H : P l /\ forall x, P (x :: l)).
  { induction l as [|y l [IHa IHb]]; [split; [exact H0|exact H1]|].
    split; [apply IHb|]. intros x. apply H2; [exact IHa|apply IHb]. }
  exact (proj1 H).
Qed.

Definition starts_lf (b : str) : bool := match b with d :: _ => d =? c_lf | [] => false end.

Lemma translate_crlf b : translate (c_cr :: c_lf :: b) = c_lf :: translate b.
Proof. reflexivity. Qed.

Lemma translate_cr b : starts_lf b = false -> translate (c_cr :: b) = c_lf :: translate b.
Proof. destruct b as [|d b]; [reflexivity|]. cbn [starts_lf]. intros H. cbn [translate]. rewrite N.eqb_refl, H. reflexivity. Qed.

Lemma translate_noncr c b : (c =? c_cr) = false -> translate (c :: b) = c :: translate b.
Proof. intros H. cbn [translate]. rewrite H. reflexivity. Qed.

Lemma translate_app a : forall b, starts_lf b = false -> translate (a ++ b) = translate a ++ translate b.
Proof.
  induction a as [| x | x y l IH1 IH2] using list_ind2; intros b Hb.
  - reflexivity.
  - cbn [app]. destruct (x =? c_cr) eqn:E.
    + apply N.eqb_eq in E. subst x. rewrite translate_cr by exact Hb. reflexivity.
    + rewrite !translate_noncr by exact E. reflexivity.
  - cbn [app]. destruct (x =? c_cr) eqn:E.
    + apply N.eqb_eq in E. subst x. destruct (y =? c_lf) eqn:Ey.
      * apply N.eqb_eq in Ey. subst y. rewrite !translate_crlf, IH1 by exact Hb. reflexivity.
      * rewrite !translate_cr by (cbn [starts_lf]; exact Ey).
        change (y :: l ++ b) with ((y :: l) ++ b). rewrite IH2 by exact Hb. reflexivity.
    + rewrite !(translate_noncr x) by exact E.
      change (y :: l ++ b) with ((y :: l) ++ b). rewrite IH2 by exact Hb. reflexivity.
Qed.

Lemma translate_id s : forallb (fun c => negb (c =? c_cr)) s = true -> translate s = s.
Proof.
  induction s as [|c s IH]; [reflexivity|]. cbn [forallb]. intros H. apply andb_true_iff in H. destruct H as [Hc Hs].
  apply negb_true_iff in Hc. rewrite translate_noncr by exact Hc. rewrite IH by exact Hs. reflexivity.
Qed.

Lemma translate_length s : (length (translate s) <= length s)%nat.
Proof.
  induction s as [| x | x y l IH1 IH2] using list_ind2.
  - cbn. lia.
  - destruct (x =? c_cr) eqn:E; [apply N.eqb_eq in E; subst x; cbn; lia|rewrite translate_noncr by exact E; cbn; lia].
  - destruct (x =? c_cr) eqn:E.
    + apply N.eqb_eq in E. subst x. destruct (y =? c_lf) eqn:Ey.
      * apply N.eqb_eq in Ey. subst y. rewrite translate_crlf. cbn [length] in *. lia.
      * rewrite translate_cr by (cbn [starts_lf]; exact Ey). cbn [length] in *. lia.
    + rewrite translate_noncr by exact E. cbn [length] in *. lia.
Qed.

Lemma translate_nil_inv s : translate s = [] -> s = [].
Proof.
  destruct s as [|c s]; [reflexivity|]. cbn [translate]. destruct (c =? c_cr); discriminate.
Qed.

Lemma quote_not_cr : (quote =? c_cr) = false.
Proof. unfold is_nl in Hq_nl. apply orb_false_iff in Hq_nl. tauto. Qed.
Lemma quote_not_lf : (quote =? c_lf) = false.
Proof. unfold is_nl in Hq_nl. apply orb_false_iff in Hq_nl. tauto. Qed.
Lemma delim_not_cr : (delim =? c_cr) = false.
Proof. unfold is_nl in Hd_nl. apply orb_false_iff in Hd_nl. tauto. Qed.
Lemma delim_not_lf : (delim =? c_lf) = false.
Proof. unfold is_nl in Hd_nl. apply orb_false_iff in Hd_nl. tauto. Qed.

Lemma escape_cons_other c s : (c =? quote) = false -> escape' (c :: s) = c :: escape' s.
Proof. intros H. cbn [escape_field]. rewrite H. reflexivity. Qed.

Lemma escape_cons_quote s : escape' (quote :: s) = quote :: quote :: escape' s.
Proof. cbn [escape_field]. rewrite N.eqb_refl. reflexivity. Qed.

Lemma starts_lf_escape y l : (y =? c_lf) = false -> starts_lf (escape' (y :: l)) = false.
Proof.
  intros H. cbn [escape_field]. destruct (y =? quote); cbn [starts_lf]; [exact quote_not_lf|exact H].
Qed.

Lemma translate_escape s : translate (escape' s) = escape' (translate s).
Proof.
  assert (Hcrq : (c_cr =? quote) = false) by (rewrite N.eqb_sym; exact quote_not_cr).
  assert (Hlfq : (c_lf =? quote) = false) by (rewrite N.eqb_sym; exact quote_not_lf).
  assert (Hstep : forall x l, (x =? c_cr) = false ->
            translate (escape' l) = escape' (translate l) ->
            translate (escape' (x :: l)) = escape' (translate (x :: l))).
  { intros x l E IH. rewrite (translate_noncr x) by exact E. destruct (x =? quote) eqn:Eq.
    - apply N.eqb_eq in Eq. subst x. rewrite !escape_cons_quote.
      rewrite !(translate_noncr quote) by exact quote_not_cr. rewrite IH. reflexivity.
    - rewrite !escape_cons_other by exact Eq. rewrite translate_noncr by exact E. rewrite IH. reflexivity. }
  induction s as [| x | x y l IH1 IH2] using list_ind2.
  - reflexivity.
  - destruct (x =? c_cr) eqn:E.
    + apply N.eqb_eq in E. subst x. rewrite escape_cons_other by exact Hcrq. cbn [escape_field translate].
      rewrite N.eqb_refl. rewrite escape_cons_other by exact Hlfq. reflexivity.
    + apply Hstep; [exact E|reflexivity].
  - destruct (x =? c_cr) eqn:E.
    + apply N.eqb_eq in E. subst x. rewrite escape_cons_other by exact Hcrq.
      destruct (y =? c_lf) eqn:Ey.
      * apply N.eqb_eq in Ey. subst y. rewrite escape_cons_other by exact Hlfq.
        rewrite !translate_crlf, IH1. rewrite escape_cons_other by exact Hlfq. reflexivity.
      * rewrite translate_cr by (apply starts_lf_escape; exact Ey).
        rewrite translate_cr by (cbn [starts_lf]; exact Ey).
        rewrite IH2. rewrite escape_cons_other by exact Hlfq. reflexivity.
    + apply Hstep; [exact E|exact IH2].
Qed.

Definition trf (p : bool * str) : bool * str := (fst p, translate (snd p)).

Lemma special_not_cr s : forallb (fun c => negb (special c)) s = true -> forallb (fun c => negb (c =? c_cr)) s = true.
Proof.
  intros H. rewrite forallb_forall in *. intros c Hc. specialize (H c Hc).
  apply negb_true_iff in H. destruct (special_false c H) as [_ [_ H3]].
  unfold is_nl in H3. apply orb_false_iff in H3. destruct H3 as [_ H3]. rewrite H3. reflexivity.
Qed.

Lemma translate_wfield p :
  fst p = true \/ forallb (fun c => negb (special c)) (snd p) = true ->
  translate (wfield p) = wfield (trf p).
Proof.
  destruct p as [q s]. unfold wfield, trf. cbn [fst snd]. intros H. destruct q.
  - rewrite translate_noncr by exact quote_not_cr.
    rewrite translate_app by (cbn [starts_lf]; exact quote_not_lf).
    rewrite translate_escape. cbn [translate]. rewrite quote_not_cr. reflexivity.
  - destruct H as [H|H]; [discriminate|]. cbv iota. rewrite translate_id by (apply special_not_cr; exact H). reflexivity.
Qed.

Lemma translate_row_text fs : Forall field_ok fs -> translate (row_text fs) = row_text (map trf fs).
Proof.
  induction fs as [|p fs IH]; intros H; [reflexivity|].
  inversion H as [|p' fs' [_ Hp] Hfs]; subst.
  destruct fs as [|p2 fs].
  - unfold row_text. cbn [map join_char]. apply translate_wfield, Hp.
  - unfold row_text in *. cbn [map join_char] in *.
    rewrite translate_app by (cbn [starts_lf]; exact delim_not_lf).
    rewrite translate_wfield by exact Hp. rewrite translate_noncr by exact delim_not_cr.
    rewrite IH by exact Hfs. reflexivity.
Qed.

Lemma translate_rows_text frows :
  Forall frow_ok frows ->
  translate (rows_text [c_cr; c_lf] frows) = rows_text [c_lf] (map (map trf) frows).
Proof.
  induction frows as [|fs rest IH]; intros H; [reflexivity|].
  inversion H as [|fs' rest' [Hfs _] Hrest]; subst.
  unfold rows_text in *. cbn [map concat]. rewrite <- !app_assoc.
  rewrite translate_app by reflexivity. cbn [app]. rewrite translate_crlf.
  rewrite translate_row_text by exact Hfs. rewrite IH by exact Hrest. reflexivity.
Qed.

Lemma field_ok_trf p : field_ok p -> field_ok (trf p).
Proof.
  destruct p as [q s]. unfold field_ok, trf. cbn [fst snd]. intros [Hl Hq]. split.
  - pose proof (translate_length s). lia.
  - destruct Hq as [Hq|Hq]; [left; exact Hq|right]. rewrite translate_id by (apply special_not_cr, Hq). exact Hq.
Qed.

Lemma frow_ok_trf fs : frow_ok fs -> frow_ok (map trf fs).
Proof.
  intros [Hf Hne]. split.
  - apply Forall_map. revert Hf. apply Forall_impl. exact field_ok_trf.
  - intros E. apply Hne. destruct fs as [|[q s] fs]; [discriminate|]. destruct fs; [|discriminate].
    cbn in E. inversion E as [[Eq Es]]. apply translate_nil_inv in Es. subst. reflexivity.
Qed.

(* ---- the writer emits such a text *)

Lemma existsb_ext' {A} (f g : A -> bool) l : (forall x, f x = g x) -> existsb f l = existsb g l.
Proof. intros H. induction l as [|x l IH]; cbn; [reflexivity|]. rewrite H, IH. reflexivity. Qed.

Lemma existsb_false_forallb {A} (f : A -> bool) l : existsb f l = false -> forallb (fun x => negb (f x)) l = true.
Proof.
  induction l as [|x l IH]; cbn; [reflexivity|]. intros H. apply orb_false_iff in H. destruct H as [H1 H2].
  rewrite H1, IH by exact H2. reflexivity.
Qed.

Section Writer.
Variable term : str.
Hypothesis Hterm : term = [c_cr; c_lf].

Lemma needs_quote_special c : needs_quote delim quote term c = special c.
Proof.
  unfold needs_quote, special. f_equal. subst term. unfold mem_char, is_nl.
  rewrite orb_false_r, orb_comm. rewrite (N.eqb_sym c_lf c), (N.eqb_sym c_cr c). reflexivity.
Qed.

Definition flag_field (s : str) : bool * str := (existsb special s, s).

Definition flag_row (r : list str) : list (bool * str) :=
  match r with
  | [[]] => [(true, [])]
  | _ => map flag_field r
  end.

Lemma write_field_flag s : write_field delim quote term s = wfield (flag_field s).
Proof.
  unfold write_field, wfield, flag_field. cbn [fst snd].
  rewrite (existsb_ext' _ _ s needs_quote_special). reflexivity.
Qed.

Lemma wfield_nonnil p : p <> (false, []) -> wfield p <> [].
Proof.
  destruct p as [q s]. unfold wfield. cbn [fst snd]. destruct q; [discriminate|].
  destruct s; [congruence|discriminate].
Qed.

Lemma row_text_nonnil fs : fs <> [] -> fs <> [(false, [])] -> row_text fs <> [].
Proof.
  intros H1 H2. destruct fs as [|p fs]; [congruence|]. unfold row_text. cbn [map join_char].
  destruct fs as [|p2 fs].
  - apply wfield_nonnil. intros E. apply H2. rewrite E. reflexivity.
  - cbn [map]. intros E. apply app_eq_nil in E. destruct E as [_ E]. discriminate.
Qed.

Lemma map_wfield_flag r : map (write_field delim quote term) r = map wfield (map flag_field r).
Proof. rewrite map_map. apply map_ext. exact write_field_flag. Qed.

Lemma match_nonnil (b x : str) : b <> [] -> match b with [] => x | _ :: _ => b ++ term end = b ++ term.
Proof. destruct b; [congruence|reflexivity]. Qed.

Lemma write_row_flag r : write_row delim quote term r = row_text (flag_row r) ++ term.
Proof.
  unfold write_row. rewrite map_wfield_flag. fold (row_text (map flag_field r)).
  destruct r as [|s r]; [reflexivity|].
  destruct s as [|c s].
  - destruct r as [|s2 r]; [reflexivity|].
    unfold flag_row. apply match_nonnil. apply row_text_nonnil; discriminate.
  - unfold flag_row. apply match_nonnil.
    apply row_text_nonnil; [discriminate|]. cbn [map]. unfold flag_field at 1. intros E. inversion E.
Qed.

Lemma csv_write_flag rows : csv_write delim quote term rows = rows_text term (map flag_row rows).
Proof.
  unfold csv_write, rows_text. rewrite map_map. f_equal. apply map_ext. exact write_row_flag.
Qed.

Lemma snd_flag_row r : map snd (flag_row r) = r.
Proof.
  destruct r as [|s r]; [reflexivity|]. destruct s as [|c s].
  - destruct r as [|s2 r]; [reflexivity|]. unfold flag_row. rewrite map_map. cbn [flag_field snd]. apply map_id.
  - unfold flag_row. rewrite map_map. cbn [flag_field snd]. apply map_id.
Qed.

Definition len_ok (s : str) : Prop := N.of_nat (length s) <= lim.

Lemma field_ok_flag s : len_ok s -> field_ok (flag_field s).
Proof.
  intros H. unfold field_ok, flag_field. cbn [fst snd]. split; [exact H|].
  destruct (existsb special s) eqn:E; [left; reflexivity|right; apply existsb_false_forallb, E].
Qed.

Lemma frow_ok_flag r : Forall len_ok r -> frow_ok (flag_row r).
Proof.
  intros H. unfold frow_ok.
  assert (Hm : Forall field_ok (map flag_field r)).
  { apply Forall_map. revert H. apply Forall_impl. exact field_ok_flag. }
  destruct r as [|s r]; [split; [constructor|discriminate]|].
  destruct s as [|c s].
  - destruct r as [|s2 r].
    + cbn. split; [|discriminate]. constructor; [|constructor]. split; [|left; reflexivity].
      cbn. apply N.le_0_l.
    + split; [exact Hm|discriminate].
  - split; [exact Hm|]. cbn. intros E. inversion E.
Qed.

(* the codec theorem: the reader undoes the writer on every list of rows of arbitrary
   strings; the only side condition is the reader's field size limit *)
Theorem csv_roundtrip_gen rows :
  Forall (Forall len_ok) rows ->
  csv_read delim quote lim (csv_write delim quote term rows) = Ok rows.
Proof.
  intros H. unfold csv_read. rewrite csv_write_flag.
  rewrite run_rows.
  - cbn [rev app]. f_equal. rewrite map_map. rewrite <- (map_id rows) at 2. apply map_ext. exact snd_flag_row.
  - left. exact Hterm.
  - apply Forall_map. revert H. apply Forall_impl. exact frow_ok_flag.
Qed.

Lemma snd_trf_flag_row r : map snd (map trf (flag_row r)) = map translate r.
Proof.
  rewrite map_map. rewrite <- (snd_flag_row r) at 2. rewrite map_map. reflexivity.
Qed.

(* the same file read through a text stream opened with newline=None (what sheets.load_csv
   does): the rows come back with every cell newline-normalised, nothing else changes *)
Theorem csv_text_roundtrip_gen rows :
  Forall (Forall len_ok) rows ->
  csv_read delim quote lim (translate (csv_write delim quote term rows)) = Ok (map (map translate) rows).
Proof.
  intros H. unfold csv_read. rewrite csv_write_flag.
  assert (Hok : Forall frow_ok (map flag_row rows)).
  { apply Forall_map. revert H. apply Forall_impl. exact frow_ok_flag. }
  rewrite Hterm. rewrite translate_rows_text by exact Hok.
  rewrite run_rows.
  - cbn [rev app]. f_equal. rewrite !map_map. apply map_ext. intros r. apply snd_trf_flag_row.
  - right. reflexivity.
  - apply Forall_map. revert Hok. apply Forall_impl. exact frow_ok_trf.
Qed.

Lemma len_ok_decidable s : len_ok s \/ ~ len_ok s.
Proof. unfold len_ok. destruct (N.leb_spec (N.of_nat (length s)) lim); [left; assumption|right; lia]. Qed.

(* the guard is exact: as soon as one field is longer than the limit the reader refuses the
   text the writer produced (whatever else the rows contain) *)
Theorem csv_limit_exceeded_gen rows :
  ~ Forall (Forall len_ok) rows ->
  csv_read delim quote lim (csv_write delim quote term rows) = Err EFieldLimit.
Proof.
  intros Hn.
  destruct (Forall_split_first _ (Forall_decidable _ len_ok_decidable) rows Hn) as [pre [r [post [Er [Hpre Hr]]]]].
  destruct (Forall_split_first _ len_ok_decidable r Hr) as [f1 [s [f2 [Ef [Hf1 Hs]]]]].
  assert (Hlen : lim < N.of_nat (length s)) by (unfold len_ok in Hs; lia).
  unfold csv_read. rewrite csv_write_flag. subst rows. rewrite map_app. cbn [map].
  rewrite rows_text_app. rewrite run_rows_more.
  - unfold rows_text at 1. cbn [map concat]. rewrite <- !app_assoc.
    assert (Efl : flag_row r = map flag_field f1 ++ flag_field s :: map flag_field f2).
    { assert (Hne : r <> [[]]).
      { intros E. rewrite E in Ef. destruct f1 as [|a f1]; [|destruct f1; discriminate].
        cbn [app] in Ef. inversion Ef as [[E1 E2]]. subst s. cbn in Hlen. lia. }
      assert (Hfm : flag_row r = map flag_field r).
      { destruct r as [|a r']; [reflexivity|]. destruct a; [destruct r'; [exfalso; apply Hne; reflexivity|reflexivity]|reflexivity]. }
      rewrite Hfm, Ef, map_app. reflexivity. }
    rewrite Efl. unfold r0 at 1.
    destruct (run_fields_prefix (map flag_field f1) StartRecord [] (rev (map (map snd) (map flag_row pre)) ++ [])
                (flag_field s) (map flag_field f2) (term ++ concat (map (fun fs => row_text fs ++ term) (map flag_row post))))
      as [m' [rw' [Hm' E]]].
    + left. reflexivity.
    + apply Forall_map. revert Hf1. apply Forall_impl. exact field_ok_flag.
    + rewrite Hterm. discriminate.
    + rewrite E. destruct (row_text_head (flag_field s) (map flag_field f2)
                             (term ++ concat (map (fun fs => row_text fs ++ term) (map flag_row post)))) as [tail Et].
      rewrite Et. apply run_field_overflow; [exact Hm'|exact Hlen|].
      unfold flag_field. cbn [fst snd]. destruct (existsb special s) eqn:Ex; [left; reflexivity|right; apply existsb_false_forallb, Ex].
  - left. exact Hterm.
  - apply Forall_map. revert Hpre. apply Forall_impl. exact frow_ok_flag.
Qed.

Corollary csv_roundtrip_iff_gen rows :
  csv_read delim quote lim (csv_write delim quote term rows) = Ok rows <-> Forall (Forall len_ok) rows.
Proof.
  split; [|apply csv_roundtrip_gen].
  intros H. destruct (Forall_decidable _ (Forall_decidable _ len_ok_decidable) rows) as [Hy|Hn]; [exact Hy|].
  rewrite (csv_limit_exceeded_gen rows Hn) in H. discriminate.
Qed.

End Writer.

End CsvFacts.

(* ================================================================== the dialect in use *)

(* The csv parameters are regenerated from the running interpreter / tablib on every run
   (Gen/Tables.v).  The model in Csv.v is the model of a dialect with doublequote,
   QUOTE_MINIMAL, no escapechar, no skipinitialspace, not strict; the facts above need the
   quote character and the delimiter to be distinct non-newline characters and the line
   terminator to be CR LF.  All of that is one boolean over the regenerated table: if tablib
   or the interpreter ever change it, this lemma stops compiling. *)
Definition csv_dialect_ok : bool :=
  negb (is_nl csv_quotechar) && negb (is_nl csv_delimiter) && negb (csv_delimiter =? csv_quotechar)
  && str_eqb csv_lineterminator [c_cr; c_lf]
  && csv_doublequote && csv_quote_minimal && csv_no_escapechar && negb csv_skipinitialspace && negb csv_strict.

Lemma csv_tables_ok : csv_dialect_ok = true.
Proof. vm_compute. reflexivity. Qed.

Lemma csv_q_nl : is_nl csv_quotechar = false.
Proof. vm_compute. reflexivity. Qed.
Lemma csv_d_nl : is_nl csv_delimiter = false.
Proof. vm_compute. reflexivity. Qed.
Lemma csv_dq : (csv_delimiter =? csv_quotechar) = false.
Proof. vm_compute. reflexivity. Qed.
Lemma csv_term : csv_lineterminator = [c_cr; c_lf].
Proof. vm_compute. reflexivity. Qed.

(* the reader's guard: csv.field_size_limit() characters per field *)
Definition fits (s : str) : Prop := N.of_nat (length s) <= csv_field_limit.

Definition csv_rd := csv_read csv_delimiter csv_quotechar csv_field_limit.
Definition csv_wr := csv_write csv_delimiter csv_quotechar csv_lineterminator.

Theorem csv_roundtrip rows : Forall (Forall fits) rows -> csv_rd (csv_wr rows) = Ok rows.
Proof. exact (csv_roundtrip_gen _ _ _ csv_q_nl csv_d_nl csv_dq _ csv_term rows). Qed.

Theorem csv_text_roundtrip rows :
  Forall (Forall fits) rows -> csv_rd (translate (csv_wr rows)) = Ok (map (map translate) rows).
Proof. exact (csv_text_roundtrip_gen _ _ _ csv_q_nl csv_d_nl csv_dq _ csv_term rows). Qed.

(* a table exercising every writer rule: delimiter, quote, CR, LF, CR LF inside cells,
   non-ASCII, a lone empty field (written [""]), an empty row (a blank line), an empty cell
   between cells *)
Definition ex_rows : list (list str) :=
  [ [[97]; [44; 34; 13; 10]; []; [233; 19990; 128512]];
    [[]];
    [];
    [[13]; [10]; [34; 34]; [97; 13; 98]];
    [[]; []] ].

Example csv_roundtrip_nonvacuous :
  Forall (Forall fits) ex_rows /\
  csv_wr ex_rows = [97; 44; 34; 44; 34; 34; 13; 10; 34; 44; 44; 233; 19990; 128512; 13; 10;
                34; 34; 13; 10;
                13; 10;
                34; 13; 34; 44; 34; 10; 34; 44; 34; 34; 34; 34; 34; 34; 44; 34; 97; 13; 98; 34; 13; 10;
                44; 13; 10] /\
  csv_rd (csv_wr ex_rows) = Ok ex_rows.
Proof.
  assert (H : Forall (Forall fits) ex_rows).
  { unfold ex_rows, fits. repeat constructor; vm_compute; discriminate. }
  split; [exact H|]. split; [vm_compute; reflexivity|apply csv_roundtrip, H].
Qed.

Example csv_text_roundtrip_nonvacuous :
  Forall (Forall fits) ex_rows /\ map (map translate) ex_rows <> ex_rows /\
  csv_rd (translate (csv_wr ex_rows)) = Ok (map (map translate) ex_rows).
Proof.
  assert (H : Forall (Forall fits) ex_rows).
  { unfold ex_rows, fits. repeat constructor; vm_compute; discriminate. }
  split; [exact H|]. split; [vm_compute; discriminate|apply csv_text_roundtrip, H].
Qed.

(* the guard is needed: one field of csv.field_size_limit()+1 characters is written, and
   refused by the reader (_csv.Error: field larger than field limit) *)
Definition big_field : str := repeat 97 (N.to_nat (csv_field_limit + 1)).

Theorem csv_roundtrip_unguarded_refuted :
  ~ (forall rows, csv_rd (csv_wr rows) = Ok rows) /\ csv_rd (csv_wr [[big_field]]) = Err EFieldLimit.
Proof.
  assert (H : csv_rd (csv_wr [[big_field]]) = Err EFieldLimit) by (vm_compute; reflexivity).
  split; [|exact H]. intros Hall. rewrite Hall in H. discriminate.
Qed.

(* the guard is exact *)
Theorem csv_limit_exceeded rows :
  ~ Forall (Forall fits) rows -> csv_rd (csv_wr rows) = Err EFieldLimit.
Proof. exact (csv_limit_exceeded_gen _ _ _ csv_q_nl csv_d_nl csv_dq _ csv_term rows). Qed.

Theorem csv_roundtrip_iff rows : csv_rd (csv_wr rows) = Ok rows <-> Forall (Forall fits) rows.
Proof. exact (csv_roundtrip_iff_gen _ _ _ csv_q_nl csv_d_nl csv_dq _ csv_term rows). Qed.
