(* E9 / C13 — the hidden state the code really has, and every API call as a step on it.

   Definitions only.  A pure Gallina function cannot leak, so the model makes the state
   explicit and mirrors the code's DISCIPLINE on it:

   * [s_stack]  rpft.logger.logger.logging_context_handler (processing_stack and
                context_variables move in lock-step; one list models both), pushed and
                popped by [with_ctx] = `with logging_context(..)`: pop on EVERY exit path;
   * [s_slots]  one mutable object per entry of the regenerated inventory of mutable
                default arguments (Gen.Tables.c13_mutable_defaults), addressed by
                [RSlot i]; objects allocated during a call are [RLoc n].  Functions take
                REFERENCES, exactly as Python does: `context={}` hands the callee the one
                shared dict, `copy.deepcopy(context)` allocates a new object;
   * [s_next]   uuid4() as a counter: "never collides" is the only thing used of it;
   * containers that outlive a call (their uuid dictionary persists; export scratch).

   Mirrors (as coded): TagMatcher.__init__/matches, SheetParser.__init__ (deepcopy) /
   add_to_context / remove_from_context / parse_next_row, ContentIndexParser.__init__ /
   _process_content_index_table / _add_template / _process_ignore_row /
   _populate_missing_templates / parse_all_flows / _parse_flow, FlowParser for the row
   vocabulary below (loops included), UUIDDict, RapidProContainer.add_flow /
   update_global_uuids / validate / render, FlowContainer.to_rows' reset discipline,
   converters.create_flows / save_data_sheets. *)
From Coq Require Import List NArith ZArith Bool Arith.
From RPFT Require Import Base.Sexp Base.PyStr Base.Result Gen.Tables.
Import ListNotations.

(* ------------------------------------------------------------------ values *)
Definition oval := list (str * str).          (* contents of a dict / list / set, abstractly *)

Fixpoint aget (d : oval) (k : str) : option str :=
  match d with
  | [] => None
  | (k', v) :: r => if str_eqb k' k then Some v else aget r k
  end.
Fixpoint aset (d : oval) (k v : str) : oval :=
  match d with
  | [] => [(k, v)]
  | (k', v') :: r => if str_eqb k' k then (k', v) :: r else (k', v') :: aset r k v
  end.
Fixpoint apop (d : oval) (k : str) : oval :=
  match d with
  | [] => []
  | (k', v') :: r => if str_eqb k' k then r else (k', v') :: apop r k
  end.

Inductive ref := RSlot (i : nat) | RLoc (n : nat).
Inductive uuid := Given (s : str) | Fresh (n : nat).
Inductive fail := Crit | Raise | OutOfFuel.   (* SystemExit(1) | uncaught exception | model only *)

Definition uuid_eqb (a b : uuid) : bool :=
  match a, b with
  | Given s, Given t => str_eqb s t
  | Fresh n, Fresh m => Nat.eqb n m
  | _, _ => false
  end.
(* Python truthiness of a uuid field: None and "" are falsy *)
Definition truthy (u : option uuid) : bool :=
  match u with
  | None => false
  | Some (Given []) => false
  | Some _ => true
  end.

(* ------------------------------------------------------------------ the state monad *)
Record st := mkS {
  s_stack : list str;      (* head = most recent push *)
  s_slots : list oval;     (* the default objects, in inventory order *)
  s_loc : list oval;       (* objects allocated by the running call *)
  s_next : nat             (* uuid4 counter *)
}.

Definition M (A : Type) := st -> st * result fail A.

Definition ret {A} (a : A) : M A := fun s => (s, Ok a).
Definition mbind {A B} (m : M A) (f : A -> M B) : M B := fun s =>
  match m s with
  | (s1, Ok a) => f a s1
  | (s1, Err e) => (s1, Err e)
  end.
Definition throw {A} (e : fail) : M A := fun s => (s, Err e).
Definition lift {A} (r : result fail A) : M A := fun s => (s, r).

Notation "'let*' x ':=' a 'in' b" := (mbind a (fun x => b)) (at level 200, x name, a at level 100, b at level 200, right associativity).

Fixpoint upd_nth {T} (n : nat) (f : T -> T) (l : list T) : list T :=
  match n, l with
  | _, [] => []
  | O, x :: r => f x :: r
  | S k, x :: r => x :: upd_nth k f r
  end.

Definition read (r : ref) : M oval := fun s =>
  (s, Ok (match r with RSlot i => nth i (s_slots s) [] | RLoc n => nth n (s_loc s) [] end)).
Definition write (r : ref) (f : oval -> oval) : M unit := fun s =>
  (match r with
   | RSlot i => mkS (s_stack s) (upd_nth i f (s_slots s)) (s_loc s) (s_next s)
   | RLoc n => mkS (s_stack s) (s_slots s) (upd_nth n f (s_loc s)) (s_next s)
   end, Ok tt).
Definition alloc (v : oval) : M ref := fun s =>
  (mkS (s_stack s) (s_slots s) (s_loc s ++ [v]) (s_next s), Ok (RLoc (length (s_loc s)))).
Definition freshid : M uuid := fun s =>
  (mkS (s_stack s) (s_slots s) (s_loc s) (S (s_next s)), Ok (Fresh (s_next s))).

(* LoggingContextHandler.add / .pop, and `with logging_context(l): body` *)
Definition push_raw (l : str) : M unit := fun s =>
  (mkS (l :: s_stack s) (s_slots s) (s_loc s) (s_next s), Ok tt).
Definition pop_raw : M unit := fun s =>
  match s_stack s with
  | [] => (s, Err Raise)                                   (* list.pop() on []: IndexError *)
  | _ :: t => (mkS t (s_slots s) (s_loc s) (s_next s), Ok tt)
  end.
(* __exit__ runs on normal exit, on an exception and on SystemExit, and never swallows
   (Gen.Tables.c13_exit_restores tabulates exactly this of the real class) *)
Definition with_ctx {A} (l : str) (body : M A) : M A := fun s =>
  match push_raw l s with
  | (s0, _) =>
    match body s0 with
    | (s1, r) =>
      match pop_raw s1 with
      | (s2, Ok _) => (s2, r)
      | (s2, Err e) => (s2, match r with Ok _ => Err e | Err e0 => Err e end)
      end
    end
  end.

Fixpoint mfold {S A} (f : A -> S -> M A) (l : list S) (a : A) : M A :=
  match l with
  | [] => ret a
  | x :: r => let* a1 := f a x  in mfold f r a1
  end.

(* ------------------------------------------------------------------ inventory slots *)
(* index of a default argument in the regenerated inventory; a missing entry gives an
   out-of-range slot, and [inventory_ok] (HiddenFacts) shows that none is missing *)
Definition triple_eqb (a b : str * str * str) : bool :=
  str_eqb (fst (fst a)) (fst (fst b)) && str_eqb (snd (fst a)) (snd (fst b)) && str_eqb (snd a) (snd b).
Fixpoint find_default (q p : str) (l : list (str * str * str)) (i : nat) : nat :=
  match l with
  | [] => i
  | (q', p', _) :: r => if str_eqb q' q && str_eqb p' p then i else find_default q p r (S i)
  end.
Definition slot_of (q p : str) : ref := RSlot (find_default q p c13_mutable_defaults 0).

(* "rpft.converters:create_flows" etc. — spelled as code points so that the file has no
   string notation dependency *)
Definition q_create_flows : str := [114;112;102;116;46;99;111;110;118;101;114;116;101;114;115;58;99;114;101;97;116;101;95;102;108;111;119;115]%N.
Definition q_save_data_sheets : str := [114;112;102;116;46;99;111;110;118;101;114;116;101;114;115;58;115;97;118;101;95;100;97;116;97;95;115;104;101;101;116;115]%N.
Definition q_tagmatcher_init : str := [114;112;102;116;46;112;97;114;115;101;114;115;46;99;114;101;97;116;105;111;110;46;116;97;103;109;97;116;99;104;101;114;58;84;97;103;77;97;116;99;104;101;114;46;95;95;105;110;105;116;95;95]%N.
Definition q_cip_init : str := [114;112;102;116;46;112;97;114;115;101;114;115;46;99;114;101;97;116;105;111;110;46;99;111;110;116;101;110;116;105;110;100;101;120;112;97;114;115;101;114;58;67;111;110;116;101;110;116;73;110;100;101;120;80;97;114;115;101;114;46;95;95;105;110;105;116;95;95]%N.
Definition q_sheetparser_init : str := [114;112;102;116;46;112;97;114;115;101;114;115;46;99;111;109;109;111;110;46;115;104;101;101;116;112;97;114;115;101;114;58;83;104;101;101;116;80;97;114;115;101;114;46;95;95;105;110;105;116;95;95]%N.
Definition p_tags : str := [116;97;103;115]%N.
Definition p_params : str := [112;97;114;97;109;115]%N.
Definition p_tag_matcher : str := [116;97;103;95;109;97;116;99;104;101;114]%N.
Definition p_context : str := [99;111;110;116;101;120;116]%N.

Definition slot_cf_tags := slot_of q_create_flows p_tags.
Definition slot_sd_tags := slot_of q_save_data_sheets p_tags.
Definition slot_tm_params := slot_of q_tagmatcher_init p_params.
Definition slot_cip_tm := slot_of q_cip_init p_tag_matcher.
Definition slot_sp_context := slot_of q_sheetparser_init p_context.

(* the defaults this model reads (all others are not reached from the modelled calls) *)
Definition modelled_defaults : list (str * str) :=
  [(q_create_flows, p_tags); (q_save_data_sheets, p_tags); (q_tagmatcher_init, p_params);
   (q_cip_init, p_tag_matcher); (q_sheetparser_init, p_context)].

(* ------------------------------------------------------------------ TagMatcher *)
Definition is_digit (c : char) : bool := (48 <=? c)%N && (c <=? 57)%N.
Fixpoint digits_val (s : str) (acc : Z) : Z :=
  match s with [] => acc | c :: r => digits_val r (10 * acc + Z.of_N (c - 48))%Z end.
(* int(param) for the plain decimal numerals the generator uses; anything else: ValueError *)
Definition parse_int (s : str) : option Z :=
  match s with
  | [] => None
  | _ => if forallb is_digit s then Some (digits_val s 0%Z) else None
  end.

Definition patterns := list (Z * list str).
Fixpoint pat_get (p : patterns) (i : Z) : option (list str) :=
  match p with [] => None | (j, l) :: r => if Z.eqb j i then Some l else pat_get r i end.
Fixpoint pat_append (p : patterns) (i : Z) (x : str) : patterns :=
  match p with
  | [] => [(i, [x])]
  | (j, l) :: r => if Z.eqb j i then (j, l ++ [x]) :: r else (j, l) :: pat_append r i x
  end.

Fixpoint tm_scan (params : list str) (cur : option Z) (acc : patterns) : result fail patterns :=
  match params with
  | [] => Ok acc
  | p :: r =>
    match parse_int p with
    | Some v => tm_scan r (Some (v - 1)%Z) acc
    | None => match cur with
              | None => Err Raise                      (* ValueError: must start with a number *)
              | Some i => tm_scan r cur (pat_append acc i p)
              end
    end
  end.

(* TagMatcher(params): reads the list it is given (possibly the shared default) *)
Definition tagmatcher_init (params : ref) : M patterns :=
  let* v := read params  in lift (tm_scan (map fst v) None []).

Fixpoint mem_str (x : str) (l : list str) : bool :=
  match l with [] => false | y :: r => str_eqb y x || mem_str x r end.

Fixpoint tm_matches_from (p : patterns) (tags : list str) (i : Z) : bool :=
  match tags with
  | [] => true
  | t :: r =>
    let here := match t, pat_get p i with
                | [], _ => true
                | _, None => true
                | _, Some l => mem_str t l
                end in
    here && tm_matches_from p r (i + 1)%Z
  end.
Definition tm_matches (p : patterns) (tags : list str) : bool := tm_matches_from p tags 0%Z.

(* a TagMatcher object is its patterns held in an object: the default TagMatcher() of
   ContentIndexParser.__init__ lives in a slot, encoded as an oval  pos -> pattern *)
Fixpoint pats_of_oval (v : oval) (acc : patterns) : patterns :=
  match v with
  | [] => acc
  | (k, x) :: r => match parse_int k with
                   | Some i => pats_of_oval r (pat_append acc i x)
                   | None => pats_of_oval r acc
                   end
  end.
Definition tagmatcher_of_ref (tm : ref) : M patterns := let* v := read tm  in ret (pats_of_oval v []).

(* ------------------------------------------------------------------ workbooks (abstract) *)
Inductive cell := Lit (s : str) | Var (x : str).            (* text | {{x}} *)

Inductive frow :=
  | FSend (nid : str) (txt : cell)                           (* send_message, _nodeId *)
  | FGroup (nid : str) (gname gid : str)                     (* add_to_group, obj_id *)
  | FEnter (nid : str) (fname fid : str)                     (* start_new_flow, obj_id *)
  | FFor (var : str) (items : list str) (body : list frow)   (* begin_for .. end_for *)
  | FBadRow                                                  (* row that fails validation: raises *)
  | FCritRow.                                                (* row the compiler rejects: critical *)

Inductive irow_kind :=
  | ICreateFlow (sheet new_name : str)
  | ITemplateDef (sheet : str)
  | IIgnore (name : str)
  | IInvalid.                                                (* unknown type: LOGGER.error, no abort *)
Record irow := mkI { i_draft : bool; i_tags : list str; i_kind : irow_kind }.

Record workbook := mkW {
  w_index : option (list irow);                              (* None: no content_index sheet *)
  w_flows : list (str * list frow)                           (* the other sheets *)
}.

Fixpoint find_sheet (l : list (str * list frow)) (n : str) : option (list frow) :=
  match l with [] => None | (k, v) :: r => if str_eqb k n then Some v else find_sheet r n end.

(* ------------------------------------------------------------------ containers *)
Definition udict := list (str * option uuid).
Fixpoint uget (d : udict) (k : str) : option (option uuid) :=
  match d with [] => None | (k', v) :: r => if str_eqb k' k then Some v else uget r k end.
Fixpoint uset (d : udict) (k : str) (v : option uuid) : udict :=
  match d with
  | [] => [(k, v)]
  | (k', v') :: r => if str_eqb k' k then (k', v) :: r else (k', v') :: uset r k v
  end.

(* UUIDDict._record_uuid *)
Definition record_uuid (d : udict) (name : str) (u : option uuid) : result fail udict :=
  match uget d name with
  | Some (Some rec) =>
    if truthy (Some rec) then
      (if truthy u && negb (match u with Some x => uuid_eqb x rec | None => true end)
       then Err Raise else Ok d)
    else Ok (uset d name u)
  | _ => Ok (uset d name u)
  end.

Inductive act :=
  | ASend (t : str)
  | AGroup (name : str) (u : option uuid)
  | AEnter (name : str) (u : option uuid).

Record flowc := mkF {
  f_name : str;
  f_uuid : uuid;
  f_nodes : list (uuid * act);          (* node uuid, its action *)
  f_scratch : option (list uuid)        (* export scratch: visited set of the last to_rows *)
}.

Record cont := mkC {
  c_flows : list flowc;
  c_groups : list (str * option uuid);  (* RapidProContainer.groups *)
  c_fdict : udict;                      (* uuid_dict.flow_dict: persists between renders *)
  c_gdict : udict
}.
Definition empty_cont : cont := mkC [] [] [] [].

Definition opt_given (s : str) : option uuid := match s with [] => None | _ => Some (Given s) end.

(* ------------------------------------------------------------------ SheetParser *)
Definition lbl_row : str := [114;111;119]%N.
Definition lbl_index : str := [105;100;120]%N.
Definition lbl_flow : str := [102;108;111;119]%N.

(* self.context = copy.deepcopy(context) *)
Definition sheet_parser_init (context : ref) : M ref := let* v := read context  in alloc v.
Definition add_to_context (sp : ref) (k v : str) : M unit := write sp (fun d => aset d k v).
(* dict.pop(k) raises KeyError on an absent key, dict.pop(k, None) does not: which of the two
   the tree at hand uses is the regenerated constant [remove_tolerant] *)
Definition remove_from_context (sp : ref) (k : str) : M unit :=
  let* d := read sp  in
  match aget d k with
  | None => if remove_tolerant then ret tt else throw Raise
  | Some _ => write sp (fun d => apop d k)
  end.
(* what FlowParser does with the loop variable after end_for: [sh] is the binding the variable
   hid when the loop started (SheetParser.get_shadowed_context); the regenerated policy says
   whether it is put back (ScopeRestore) or the variable is simply removed (ScopePop) *)
Definition leave_loop (sp : ref) (k : str) (sh : option str) : M unit :=
  match loop_scope_policy, sh with
  | ScopeRestore, Some v => add_to_context sp k v
  | _, _ => remove_from_context sp k
  end.

(* CellParser.parse_as_string on the mini language: a variable is looked up in the context
   the parser holds; an unknown one follows the regenerated policy of the Jinja environment *)
Definition render_cell (sp : ref) (c : cell) : M str :=
  match c with
  | Lit s => ret s
  | Var x => let* d := read sp  in
             match aget d x with
             | Some v => ret v
             | None => match env_undefined_policy with Lenient => ret [] | Strict => throw Crit end
             end
  end.

(* ------------------------------------------------------------------ FlowParser *)
Record pstate := mkP { p_nodes : list (uuid * act); p_cont : cont }.

Definition node_uuid (nid : str) : M uuid :=
  match nid with [] => freshid | _ => ret (Given nid) end.

Definition lift_rec_g (c : cont) (name : str) (u : option uuid) : M cont :=
  let* d := lift (record_uuid (c_gdict c) name u)  in ret (mkC (c_flows c) (c_groups c) (c_fdict c) d).
Definition lift_rec_f (c : cont) (name : str) (u : option uuid) : M cont :=
  let* d := lift (record_uuid (c_fdict c) name u)  in ret (mkC (c_flows c) (c_groups c) d (c_gdict c)).

(* a row that is read but not evaluated (_parse_block with omit_content: the body of a loop
   with nothing to iterate over): SheetParser.parse_next_row with omit_templating, no
   _parse_row; only a row the row model cannot place still raises *)
Fixpoint skip_frow (r : frow) : M unit :=
  match r with
  | FBadRow => with_ctx lbl_row (throw Raise)
  | FFor _ _ body =>
      let* _ := with_ctx lbl_row (ret tt)  in
      let* _ := (fix rows (b : list frow) : M unit :=
               match b with
               | [] => ret tt
               | r :: b' => let* _ := skip_frow r  in rows b'
               end) body  in
      with_ctx lbl_row (ret tt)                                     (* the end_for row *)
  | _ => with_ctx lbl_row (ret tt)
  end.
Fixpoint skip_frows (b : list frow) : M unit :=
  match b with
  | [] => ret tt
  | r :: b' => let* _ := skip_frow r  in skip_frows b'
  end.
(* a loop over zero elements: the repaired tree (EmptySkip) reads the body without evaluating
   it; the unrepaired one (EmptyFallThrough) goes straight on to remove the variable *)
Definition skip_empty_body (items : list str) (body : list frow) : M unit :=
  match items, empty_loop_policy with
  | [], EmptySkip => let* _ := skip_frows body  in with_ctx lbl_row (ret tt)
  | _, _ => ret tt
  end.

(* one sheet row: SheetParser.parse_next_row (`with row: parse_row`) and then, for an
   ordinary row, FlowParser._parse_block's `with row: _parse_row(row)` *)
Fixpoint parse_frow (sp : ref) (r : frow) (a : pstate) {struct r} : M pstate :=
  match r with
  | FSend nid c =>
      let* t := with_ctx lbl_row (render_cell sp c)  in
      with_ctx lbl_row (let* u := node_uuid nid  in ret (mkP (p_nodes a ++ [(u, ASend t)]) (p_cont a)))
  | FGroup nid g gid =>
      let* _ := with_ctx lbl_row (ret tt)  in
      with_ctx lbl_row (
        let* c1 := match gid with [] => ret (p_cont a) | _ => lift_rec_g (p_cont a) g (Some (Given gid)) end  in
        let* u := node_uuid nid  in
        ret (mkP (p_nodes a ++ [(u, AGroup g (opt_given gid))]) c1))
  | FEnter nid f fid =>
      let* _ := with_ctx lbl_row (ret tt)  in
      with_ctx lbl_row (
        let* c1 := match fid with [] => ret (p_cont a) | _ => lift_rec_f (p_cont a) f (Some (Given fid)) end  in
        let* u := node_uuid nid  in
        (* EnterFlowNode(row.mainarg_flow_name, uuid=node_uuid): the action's flow reference gets NO
           uuid here; obj_id only reaches the container's dictionary, assign_global_uuids fills it in *)
        ret (mkP (p_nodes a ++ [(u, AEnter f None)]) c1))
  | FFor var items body =>
      let* _ := with_ctx lbl_row (ret tt)  in                       (* the begin_for row is parsed *)
      let* d0 := read sp  in                                        (* get_shadowed_context *)
      let* a1 := (fix iter (its : list str) (a : pstate) {struct its} : M pstate :=
               match its with
               | [] => ret a
               | it :: rest =>
                   let* _ := add_to_context sp var it  in
                   let* a' := (fix rows (b : list frow) (a : pstate) {struct b} : M pstate :=
                            match b with
                            | [] => ret a
                            | r :: b' => let* a1 := parse_frow sp r a  in rows b' a1
                            end) body a  in
                   let* _ := with_ctx lbl_row (ret tt)  in           (* the end_for row is parsed *)
                   iter rest a'
               end) items a  in
      let* _ := skip_empty_body items body  in
      let* _ := leave_loop sp var (aget d0 var)  in
      ret a1
  | FBadRow => with_ctx lbl_row (throw Raise)
  | FCritRow => let* _ := with_ctx lbl_row (ret tt)  in with_ctx lbl_row (throw Crit)
  end.

Fixpoint parse_frows (sp : ref) (b : list frow) (a : pstate) : M pstate :=
  match b with
  | [] => ret a
  | r :: b' => let* a1 := parse_frow sp r a  in parse_frows sp b' a1
  end.

(* ContentIndexParser._parse_flow + FlowParser.__init__/parse: context = {} for a flow
   without data row; SheetParser deep-copies it *)
Definition parse_flow (name : str) (rows : list frow) (c : cont) : M (flowc * cont) :=
  let* ctx := alloc []  in                                           (* context = {} ; dict(context) *)
  let* sp := sheet_parser_init ctx  in
  let* a := parse_frows sp rows (mkP [] c)  in
  let* u := freshid  in                                              (* FlowContainer(uuid=None) *)
  ret (mkF name u (p_nodes a) None, p_cont a).

(* ------------------------------------------------------------------ ContentIndexParser *)
Record cip := mkCip {
  k_flow_rows : list (str * str);          (* (sheet, new_name) of queued create_flow rows *)
  k_templates : list str                   (* names of template sheets registered *)
}.

Definition flow_row_name (r : str * str) : str := match snd r with [] => fst r | n => n end.

(* _add_template: the sheet must exist (ParserError otherwise) *)
Definition add_template (w : workbook) (k : cip) (sheet : str) (update : bool) : M cip :=
  if negb (mem_str sheet (k_templates k)) || update then
    match find_sheet (w_flows w) sheet with
    | None => throw Raise
    | Some _ => ret (mkCip (k_flow_rows k) (if mem_str sheet (k_templates k) then k_templates k else k_templates k ++ [sheet]))
    end
  else ret k.

Definition process_irow (w : workbook) (tm : patterns) (k : cip) (r : irow) : M cip :=
  with_ctx lbl_index (
    if i_draft r then ret k
    else if negb (tm_matches tm (i_tags r)) then ret k
    else match i_kind r with
         | ICreateFlow sheet new_name => ret (mkCip (k_flow_rows k ++ [(sheet, new_name)]) (k_templates k))
         | ITemplateDef sheet => add_template w k sheet true
         | IIgnore name =>
             ret (mkCip (filter (fun fr => negb (str_eqb (flow_row_name fr) name)) (k_flow_rows k)) (k_templates k))
         | IInvalid => ret k
         end).

(* ContentIndexParser.__init__ : the index sheet is read through a SheetParser built
   WITHOUT a context argument (the shared default {} is deep-copied), every row is parsed
   first (`with row`), then processed in order *)
Definition cip_init (w : workbook) (tm : patterns) : M cip :=
  match w_index w with
  | None => throw Crit                                         (* "No content index sheet provided" *)
  | Some rows =>
      let* sp := sheet_parser_init slot_sp_context  in
      let* _ := mfold (fun (_ : unit) (_ : irow) => with_ctx lbl_row (let* _ := read sp  in ret tt)) rows tt  in
      let* k := mfold (process_irow w tm) rows (mkCip [] [])  in
      (* _populate_missing_templates *)
      mfold (fun k fr => with_ctx lbl_flow (add_template w k (fst fr) false)) (k_flow_rows k) k
  end.

(* flows[flow.name] = flow : dict keyed by name, first position, last value *)
Fixpoint fset (l : list flowc) (f : flowc) : list flowc :=
  match l with
  | [] => [f]
  | g :: r => if str_eqb (f_name g) (f_name f) then f :: r else g :: fset r f
  end.

(* RapidProContainer.add_flow *)
Definition add_flow (c : cont) (f : flowc) : M cont :=
  let* d := lift (record_uuid (c_fdict c) (f_name f) (Some (f_uuid f)))  in
  ret (mkC (c_flows c ++ [f]) (c_groups c) d (c_gdict c)).

Definition parse_all_flows (w : workbook) (k : cip) : M cont :=
  let* fc := mfold (fun (acc : list flowc * cont) fr =>
                 with_ctx lbl_flow (
                   match find_sheet (w_flows w) (fst fr) with
                   | None => throw Raise                       (* unreachable after cip_init *)
                   | Some rows =>
                       let* r := parse_flow (flow_row_name fr) rows (snd acc)  in
                       ret (fset (fst acc) (fst r), snd r)
                   end)) (k_flow_rows k) ([], empty_cont)  in
  mfold add_flow (fst fc) (snd fc).

(* ------------------------------------------------------------------ render *)
Definition record_act (c : cont) (a : uuid * act) : M cont :=
  match snd a with
  | ASend _ => ret c
  | AGroup g u => lift_rec_g c g u
  | AEnter f u => lift_rec_f c f u
  end.

Fixpoint gen_missing (d : udict) : M udict :=
  match d with
  | [] => ret []
  | (k, v) :: r =>
      let* v1 := (if truthy v then ret v else (let* u := freshid  in ret (Some u)))  in
      let* r1 := gen_missing r  in
      ret ((k, v1) :: r1)
  end.

Definition lookup_u (d : udict) (k : str) : option uuid :=
  match uget d k with Some v => v | None => None end.

Definition assign_act (fd gd : udict) (a : uuid * act) : uuid * act :=
  (fst a, match snd a with
          | ASend t => ASend t
          | AGroup g _ => AGroup g (lookup_u gd g)
          | AEnter f _ => AEnter f (lookup_u fd f)
          end).

(* what render() returns, as far as identifiers and texts go *)
Record rendered := mkR {
  r_flows : list (str * uuid * list (uuid * act));
  r_groups : list (str * option uuid)
}.

(* RapidProContainer.update_global_uuids + validate + render *)
Definition render (c : cont) : M (cont * rendered) :=
  let* c1 := mfold (fun c g => lift_rec_g c (fst g) (snd g)) (c_groups c) c  in
  let* c2 := mfold (fun c f => lift_rec_f c (f_name f) (Some (f_uuid f))) (c_flows c) c1  in
  let* c3 := mfold (fun c f => mfold record_act (f_nodes f) c) (c_flows c) c2  in
  let* fd := gen_missing (c_fdict c3)  in
  let* gd := gen_missing (c_gdict c3)  in
  let flows := map (fun f => mkF (f_name f) (f_uuid f) (map (assign_act fd gd) (f_nodes f)) (f_scratch f)) (c_flows c) in
  let c4 := mkC flows gd fd gd in
  ret (c4, mkR (map (fun f => (f_name f, f_uuid f, f_nodes f)) flows) gd).

(* FlowContainer.to_rows: the scratch attributes (visited_nodes, completed_nodes, rows,
   node.row_models) are RESET before they are read; the rows are then a function of the
   nodes.  The traversal itself is E8's business; here: linear flows, one row per node. *)
Definition export_rows (f : flowc) (visited : list uuid) : list (uuid * act) :=
  filter (fun n => negb (existsb (uuid_eqb (fst n)) visited)) (f_nodes f).
Definition to_rows (f : flowc) : flowc * list (uuid * act) :=
  let f0 := mkF (f_name f) (f_uuid f) (f_nodes f) (Some []) in          (* reset *)
  let visited := match f_scratch f0 with Some v => v | None => [] end in
  let rows := export_rows f0 visited in
  (mkF (f_name f) (f_uuid f) (f_nodes f) (Some (map fst rows)), rows).

(* ------------------------------------------------------------------ renaming invented ids *)
Definition shift_uuid (k : nat) (u : uuid) : uuid :=
  match u with Given s => Given s | Fresh n => Fresh (k + n) end.
Definition shift_act (k : nat) (a : act) : act :=
  match a with
  | ASend t => ASend t
  | AGroup g u => AGroup g (option_map (shift_uuid k) u)
  | AEnter f u => AEnter f (option_map (shift_uuid k) u)
  end.
Definition shift_node (k : nat) (n : uuid * act) := (shift_uuid k (fst n), shift_act k (snd n)).
Definition shift_rendered (k : nat) (r : rendered) : rendered :=
  mkR (map (fun f => (fst (fst f), shift_uuid k (snd (fst f)), map (shift_node k) (snd f))) (r_flows r))
      (map (fun g => (fst g, option_map (shift_uuid k) (snd g))) (r_groups r)).
Definition shift_flowc (k : nat) (f : flowc) : flowc :=
  mkF (f_name f) (shift_uuid k (f_uuid f)) (map (shift_node k) (f_nodes f))
      (option_map (map (shift_uuid k)) (f_scratch f)).
Definition shift_udict (k : nat) (d : udict) : udict :=
  map (fun e => (fst e, option_map (shift_uuid k) (snd e))) d.
Definition shift_cont (k : nat) (c : cont) : cont :=
  mkC (map (shift_flowc k) (c_flows c)) (shift_udict k (c_groups c))
      (shift_udict k (c_fdict c)) (shift_udict k (c_gdict c)).

(* ------------------------------------------------------------------ calls and steps *)
Record hidden := mkH {
  h_stack : list str;
  h_slots : list oval;
  h_fresh : nat;
  h_conts : list cont       (* containers the caller still holds, oldest first *)
}.

Definition init_slots : list oval := c13_default_values.
Definition init : hidden := mkH [] init_slots 0 [].

Inductive call :=
  | CCreateFlows (tags : option (list str)) (w : workbook)    (* converters.create_flows *)
  | CSaveData (tags : option (list str)) (has_models : bool) (w : workbook)
  | CParseKeep (w : workbook)         (* ContentIndexParser(reader).parse_all(): default TagMatcher; container kept *)
  | CRender (i : nat)
  | CToRows (i j : nat)
  | COpaque (ok : bool).              (* convert_to_json, flows_to_sheets: no modelled state *)

Inductive outcome :=
  | ORendered (r : rendered)
  | OSaved
  | OKept                              (* container stored as the newest of h_conts *)
  | ORows (rows : list (uuid * act))
  | ONone
  | OFail (f : fail).

Definition shift_outcome (k : nat) (o : outcome) : outcome :=
  match o with
  | ORendered r => ORendered (shift_rendered k r)
  | ORows rows => ORows (map (shift_node k) rows)
  | o => o
  end.


(* A call that builds its objects from files runs with a call-local uuid counter; the ids
   it invents are then placed after every id the process has handed out so far.  The
   absolute value of an invented id therefore cannot enter the call's computation: this is
   the model's rendering of "uuid4() values are only ever compared for equality". *)
Definition enter0 (h : hidden) : st := mkS (h_stack h) (h_slots h) [] 0.
Definition leave0 (h : hidden) (s : st) (cs : list cont) : hidden :=
  mkH (s_stack s) (s_slots s) (h_fresh h + s_next s) cs.
(* A call on a container the caller holds sees that container's identifiers as they are *)
Definition enter (h : hidden) : st := mkS (h_stack h) (h_slots h) [] (h_fresh h).
Definition leave (h : hidden) (s : st) (cs : list cont) : hidden :=
  mkH (s_stack s) (s_slots s) (s_next s) cs.

Definition tags_ref (slot : ref) (tags : option (list str)) : M ref :=
  match tags with None => ret slot | Some l => alloc (map (fun t => (t, [])) l) end.

Definition m_create_flows (tags : option (list str)) (w : workbook) : M rendered :=
  let* tr := tags_ref slot_cf_tags tags  in
  let* tm := tagmatcher_init tr  in
  let* k := cip_init w tm  in
  let* c := parse_all_flows w k  in
  let* cr := render c  in
  ret (snd cr).

Definition m_save_data (tags : option (list str)) (has_models : bool) (w : workbook) : M unit :=
  let* tr := tags_ref slot_sd_tags tags  in
  let* tm := tagmatcher_init tr  in
  let* _ := cip_init w tm  in
  if has_models then ret tt else throw Raise.    (* self.user_models_module.__name__ on None *)

Definition m_parse_keep (w : workbook) : M cont :=
  let* tm := tagmatcher_of_ref slot_cip_tm  in
  let* k := cip_init w tm  in
  parse_all_flows w k.

Fixpoint set_nth {T} (n : nat) (x : T) (l : list T) : list T :=
  match n, l with
  | _, [] => []
  | O, _ :: r => x :: r
  | S k, y :: r => y :: set_nth k x r
  end.

Definition step (h : hidden) (c : call) : hidden * outcome :=
  match c with
  | CCreateFlows tags w =>
      match m_create_flows tags w (enter0 h) with
      | (s, Ok r) => (leave0 h s (h_conts h), ORendered (shift_rendered (h_fresh h) r))
      | (s, Err e) => (leave0 h s (h_conts h), OFail e)
      end
  | CSaveData tags hm w =>
      match m_save_data tags hm w (enter0 h) with
      | (s, Ok _) => (leave0 h s (h_conts h), OSaved)
      | (s, Err e) => (leave0 h s (h_conts h), OFail e)
      end
  | CParseKeep w =>
      match m_parse_keep w (enter0 h) with
      | (s, Ok c) => (leave0 h s (h_conts h ++ [shift_cont (h_fresh h) c]), OKept)
      | (s, Err e) => (leave0 h s (h_conts h), OFail e)
      end
  | CRender i =>
      match nth_error (h_conts h) i with
      | None => (h, ONone)
      | Some c =>
          match render c (enter h) with
          | (s, Ok (c', r)) => (leave h s (set_nth i c' (h_conts h)), ORendered r)
          | (s, Err e) => (leave h s (h_conts h), OFail e)
          end
      end
  | CToRows i j =>
      match nth_error (h_conts h) i with
      | None => (h, ONone)
      | Some c =>
          match nth_error (c_flows c) j with
          | None => (h, ONone)
          | Some f =>
              let (f', rows) := to_rows f in
              (mkH (h_stack h) (h_slots h) (h_fresh h)
                   (set_nth i (mkC (set_nth j f' (c_flows c)) (c_groups c) (c_fdict c) (c_gdict c)) (h_conts h)),
               ORows rows)
          end
      end
  | COpaque ok => (h, if ok then ONone else OFail Raise)
  end.

Fixpoint run (h : hidden) (cs : list call) : hidden * list outcome :=
  match cs with
  | [] => (h, [])
  | c :: r => let (h1, o) := step h c in let (h2, os) := run h1 r in (h2, o :: os)
  end.

Inductive reachable : hidden -> Prop :=
  | reach_init : reachable init
  | reach_step : forall h c, reachable h -> reachable (fst (step h c)).

(* identifiers occurring in an outcome *)
Definition act_ids (a : act) : list uuid :=
  match a with
  | ASend _ => []
  | AGroup _ (Some u) | AEnter _ (Some u) => [u]
  | _ => []
  end.
Definition node_ids (n : uuid * act) : list uuid := fst n :: act_ids (snd n).
Definition rendered_ids (r : rendered) : list uuid :=
  flat_map (fun f => snd (fst f) :: flat_map node_ids (snd f)) (r_flows r)
  ++ flat_map (fun g => match snd g with Some u => [u] | None => [] end) (r_groups r).
Definition outcome_ids (o : outcome) : list uuid :=
  match o with
  | ORendered r => rendered_ids r
  | ORows rows => flat_map node_ids rows
  | _ => []
  end.
Definition is_fresh_in (lo hi : nat) (u : uuid) : bool :=
  match u with Given _ => true | Fresh n => (lo <=? n) && (n <? hi) end.
