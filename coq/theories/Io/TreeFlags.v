(* E9 / C14 — the reader flags of the tree at hand: how its readers / `convert` treat rows without
   content and sheets without rows.  PROBED by translator/tables_c14.py (Gen/Tables.v); the model
   (Io/Sanitize.v) and every fact are stated for arbitrary flags.  Definitions only. *)
From RPFT Require Import Base.Sexp Gen.Tables Io.Csv Io.Sanitize.

Definition tree_flags : reader_flags :=
  {| rf_csv_drop := csv_reader_drops_empty_rows; rf_json_drop := json_reader_drops_empty_rows;
     rf_json_table := json_reader_table_form; rf_tojson_table := to_json_table_form |}.

(* both findings of C14 repaired *)
Definition flags_repaired (fl : reader_flags) : bool :=
  rf_csv_drop fl && rf_json_drop fl && rf_json_table fl && rf_tojson_table fl.
