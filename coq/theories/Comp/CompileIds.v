(* E7 — facts about the compiler model: accounting of the identifiers at DEFINING positions.
   node_ids nd = the invented identifiers a node defines (its uuid unless given, action, category, exit and
   case uuids).  Every operation either keeps them, or adds identifiers drawn in [n, n') — each draw used
   once —, or (update_default_exit of a basic node) drops one and adds one:  IdStep n n' old new. *)
From Coq Require Import List NArith Bool Arith Lia Permutation.
From RPFT Require Import Base.Sexp Base.PyStr Base.Result Gen.Tables Flow.Flow Flow.Closed Flow.RowSem
     Comp.Compile Comp.CompileFacts.
Import ListNotations.

Lemma NoDup_app_intro {X} (a b : list X) : NoDup a -> NoDup b -> (forall x, In x a -> ~ In x b) -> NoDup (a ++ b).
Proof.
  intros Ha Hb Hd. induction Ha as [|x a Hx Ha IH]; cbn; [exact Hb|]. constructor.
  - intros Hin. apply in_app_or in Hin as [Hin|Hin]; [contradiction|]. apply (Hd x); [left; reflexivity|exact Hin].
  - apply IH. intros y Hy. apply Hd. right. exact Hy.
Qed.

Lemma NoDup_app_l {X} (a b : list X) : NoDup (a ++ b) -> NoDup a.
Proof.
  induction a as [|x a IH]; cbn; [constructor|]. intros H. inversion H as [|? ? Hx Hr]; subst.
  constructor; [intros Hin; apply Hx, in_or_app; left; exact Hin|apply IH, Hr].
Qed.
Lemma NoDup_app_r {X} (a b : list X) : NoDup (a ++ b) -> NoDup b.
Proof. induction a as [|x a IH]; cbn; [auto|]. intros H. inversion H; subst. auto. Qed.
Lemma NoDup_app_disj {X} (a b : list X) x : NoDup (a ++ b) -> In x a -> ~ In x b.
Proof.
  induction a as [|y a IH]; cbn; [intros _ []|]. intros H. inversion H as [|? ? Hy Hr]; subst. intros [->|Hin].
  - intros Hb. apply Hy. apply in_or_app. right. exact Hb.
  - apply IH; assumption.
Qed.

Lemma perm_insert {X} (a b c n : list X) : Permutation (a ++ (b ++ n) ++ c) (n ++ a ++ b ++ c).
Proof.
  rewrite <- !app_assoc. rewrite (app_assoc a b). etransitivity; [apply Permutation_app_swap_app|].
  rewrite <- !app_assoc. apply Permutation_refl.
Qed.

Section Ids.
Variable fresh : nat -> id.
Hypothesis fresh_inj : forall a b, fresh a = fresh b -> a = b.

(* a list of distinct draws from [n, n') *)
Definition FreshList (n n' : nat) (l : list id) : Prop :=
  NoDup l /\ forall u, In u l -> exists m, n <= m /\ m < n' /\ u = fresh m.

Lemma FreshList_nil n n' : FreshList n n' [].
Proof. split; [constructor|intros u []]. Qed.

Lemma FreshList_one n n' m : n <= m -> m < n' -> FreshList n n' [fresh m].
Proof.
  intros H1 H2. split; [constructor; [intros []|constructor]|]. intros u [<-|[]]. exists m. auto.
Qed.

Lemma FreshList_widen n0 n n' n1 l : n0 <= n -> n' <= n1 -> FreshList n n' l -> FreshList n0 n1 l.
Proof.
  intros H0 H1 [Hnd H]. split; [exact Hnd|]. intros u Hu. destruct (H u Hu) as (m & A & B & C). exists m. repeat split; try lia; exact C.
Qed.

Lemma FreshList_app n n1 n2 a b : n <= n1 -> n1 <= n2 -> FreshList n n1 a -> FreshList n1 n2 b -> FreshList n n2 (a ++ b).
Proof.
  intros L1 L2 [Ha Hfa] [Hb Hfb]. split.
  - apply NoDup_app_intro; [exact Ha|exact Hb|]. intros x Hxa Hxb.
    destruct (Hfa x Hxa) as (m & A1 & A2 & ->). destruct (Hfb _ Hxb) as (m' & B1 & B2 & E). apply fresh_inj in E. lia.
  - intros u Hu. apply in_app_or in Hu as [Hu|Hu].
    + destruct (Hfa u Hu) as (m & A1 & A2 & ->). exists m. split; [lia|]. split; [lia|reflexivity].
    + destruct (Hfb u Hu) as (m & A1 & A2 & ->). exists m. split; [lia|]. split; [lia|reflexivity].
Qed.

Lemma FreshList_indices n n' ms : NoDup ms -> (forall m, In m ms -> n <= m /\ m < n') -> FreshList n n' (map fresh ms).
Proof.
  intros Hnd H. split.
  - apply FinFun.Injective_map_NoDup; [exact fresh_inj|exact Hnd].
  - intros u Hu. apply in_map_iff in Hu as (m & <- & Hm). exists m. destruct (H m Hm). auto.
Qed.

Lemma FreshList_perm n n' l l' : Permutation l l' -> FreshList n n' l -> FreshList n n' l'.
Proof.
  intros Hp [Hnd H]. split; [eapply Permutation_NoDup; eauto|]. intros u Hu. apply H. eapply Permutation_in; [apply Permutation_sym, Hp|exact Hu].
Qed.

Lemma FreshList_gain n n1 n2 old news new :
  n <= n1 -> n1 <= n2 -> FreshList n n1 old -> FreshList n1 n2 news -> Permutation new (news ++ old) -> FreshList n n2 new.
Proof.
  intros L1 L2 Fo Fn P. apply (FreshList_perm n n2 (old ++ news)).
  - apply Permutation_sym. rewrite P. apply Permutation_app_comm.
  - apply (FreshList_app n n1 n2); assumption.
Qed.

Lemma FreshList_below n n' l : FreshList n n' l -> Forall (below fresh n') l.
Proof. intros [_ H]. rewrite Forall_forall. intros u Hu. destruct (H u Hu) as (m & _ & Hm & ->). apply below_fresh. exact Hm. Qed.

Lemma FreshList_not_below n n' l u : FreshList n n' l -> below fresh n u -> ~ In u l.
Proof.
  intros [_ H] (k & Hk & ->) Hin. destruct (H _ Hin) as (m & Hm & _ & E). apply fresh_inj in E. lia.
Qed.

(* ---------------------------------------------------------------- identifiers of routers and nodes *)
Definition body_ids (b : cbody) : list id :=
  match b with
  | BBasic e => [x_uuid e]
  | BSwitch _ r => sw_ids r
  | BRandom r => flat_map cat_ids (rr_cats r)
  end.
Definition uuid_ids (nd : cnode) : list id := if cn_given nd then [] else [cn_uuid nd].
Definition node_ids (nd : cnode) : list id := uuid_ids nd ++ map fst (cn_actions nd) ++ body_ids (cn_body nd).

(* old -> new: draws news from [n, n') are added, dropped are forgotten *)
Definition IdStep (n n' : nat) (old new : list id) : Prop :=
  exists news kept dropped, FreshList n n' news /\ Permutation new (news ++ kept) /\ Permutation old (dropped ++ kept).

Lemma IdStep_gain n n' news old new : FreshList n n' news -> Permutation new (news ++ old) -> IdStep n n' old new.
Proof. intros Hf Hp. exists news, old, []. split; [exact Hf|]. split; [exact Hp|apply Permutation_refl]. Qed.

Lemma IdStep_eq n n' l : IdStep n n' l l.
Proof. apply (IdStep_gain n n' []); [apply FreshList_nil|apply Permutation_refl]. Qed.

Lemma IdStep_frame n n' a b old new : IdStep n n' old new -> IdStep n n' (a ++ old ++ b) (a ++ new ++ b).
Proof.
  intros (news & kept & dropped & Hf & Hn & Ho). exists news, (a ++ kept ++ b), dropped. split; [exact Hf|]. split.
  - rewrite (Permutation_app_comm news). rewrite <- !app_assoc.
    apply Permutation_app_head. rewrite app_assoc. rewrite (Permutation_app_comm (kept ++ b) news).
    rewrite app_assoc. apply Permutation_app_tail. rewrite Hn. apply Permutation_refl.
  - rewrite (Permutation_app_comm dropped). rewrite <- !app_assoc.
    apply Permutation_app_head. rewrite app_assoc. rewrite (Permutation_app_comm (kept ++ b) dropped).
    rewrite app_assoc. apply Permutation_app_tail. rewrite Ho. apply Permutation_refl.
Qed.

Lemma IdStep_body n n' nd b :
  IdStep n n' (body_ids (cn_body nd)) (body_ids b) -> IdStep n n' (node_ids nd) (node_ids (with_body nd b)).
Proof.
  intros H. unfold node_ids, uuid_ids. cbn.
  pose proof (IdStep_frame n n' (uuid_ids nd ++ map fst (cn_actions nd)) [] _ _ H) as F.
  rewrite !app_nil_r, <- !app_assoc in F. exact F.
Qed.

(* ---------------------------------------------------------------- switch routers *)
Lemma flat_map_upd_first p f l : (forall c, cat_ids (f c) = cat_ids c) -> flat_map cat_ids (upd_first p f l) = flat_map cat_ids l.
Proof. intros H. rewrite !flat_map_concat_map, upd_first_map; [reflexivity|exact H]. Qed.

Lemma sw_ids_upd_cat p f r : (forall c, cat_ids (f c) = cat_ids c) -> sw_ids (sw_upd_cat p f r) = sw_ids r.
Proof. intros H. unfold sw_ids. rewrite sw_all_cats_upd_cat, sw_cases_upd_cat, flat_map_upd_first by exact H. reflexivity. Qed.

Lemma sw_ids_set_operand r v : sw_ids (sw_set_operand r v) = sw_ids r.
Proof. destruct v; reflexivity. Qed.

Lemma sw_ids_update_default r d name : sw_ids (sw_update_default r d name) = sw_ids r.
Proof.
  unfold sw_ids, sw_update_default, sw_all_cats. cbn. rewrite !flat_map_app. cbn. destruct name; reflexivity.
Qed.

Lemma sw_ids_rename_default r name : sw_ids (sw_rename_default r name) = sw_ids r.
Proof. unfold sw_ids, sw_rename_default, sw_all_cats. cbn. rewrite !flat_map_app. reflexivity. Qed.

Lemma sw_ids_update_noresp r d : sw_ids (sw_update_noresp r d) = sw_ids r.
Proof.
  unfold sw_update_noresp. destruct (sw_wait r) as [| |t c] eqn:E; try reflexivity.
  unfold sw_ids, sw_all_cats. cbn. rewrite E. cbn. rewrite !flat_map_app. reflexivity.
Qed.

Lemma sw_ids_add_cat r c : Permutation (sw_ids (sw_add_cat r c)) (cat_ids c ++ sw_ids r).
Proof.
  unfold sw_ids, sw_add_cat, sw_all_cats. cbn [sw_cats sw_default sw_wait sw_cases].
  rewrite <- (app_assoc (sw_cats r)). rewrite !flat_map_app. cbn [flat_map app]. rewrite <- !app_assoc.
  apply (Permutation_app_swap_app (flat_map cat_ids (sw_cats r)) (cat_ids c)).
Qed.

Lemma sw_ids_add_case r k : Permutation (sw_ids (sw_add_case r k)) ([ck_uuid k] ++ sw_ids r).
Proof.
  unfold sw_ids, sw_add_case. cbn. rewrite map_app. cbn. rewrite app_assoc. apply Permutation_sym, Permutation_cons_append.
Qed.

Lemma sw_ids_mark (g : bool) r u : sw_ids (if g then sw_mark_auto r u else r) = sw_ids r.
Proof. destruct g; reflexivity. Qed.

Lemma sw_claim_ids r nm r' : sw_claim r nm = Ok r' -> sw_ids r' = sw_ids r.
Proof.
  unfold sw_claim. destruct (find (name_is nm) (sw_all_cats r)) as [c|]; [|intros H; injection H as <-; reflexivity].
  destruct (_ || _); [discriminate|]. destruct (memb (cc_uuid c) (sw_auto r)); [|intros H; injection H as <-; reflexivity].
  destruct (alt_loop _ _ _) as [nm'|e]; [|discriminate]. intros H. injection H as <-. apply sw_ids_upd_cat. reflexivity.
Qed.

Lemma sw_add_choice_ids n r v ty args name d b r' n' :
  sw_add_choice fresh n r v ty args name d b = Ok (r', n') ->
  n <= n' /\ exists news, FreshList n n' news /\ Permutation (sw_ids r') (news ++ sw_ids r).
Proof.
  unfold sw_add_choice. rewrite <- (sw_ids_set_operand r v). generalize (sw_set_operand r v). intros r0.
  destruct (find _ (sw_cases r0)) as [k|].
  - destruct (existsb _ _); [|discriminate]. intros H. injection H as <- <-. split; [lia|]. exists []. split; [apply FreshList_nil|].
    rewrite sw_ids_upd_cat by reflexivity. apply Permutation_refl.
  - destruct (match name with [] => _ | _ => _ end) as [nm|e]; [|discriminate]. destruct b.
    + destruct (new_case _ _ _ _ _) as [[k n1]|e] eqn:Ek; [|discriminate]. intros H. injection H as <- <-.
      apply (new_case_spec fresh fresh_inj) in Ek as (Hu & _ & ->). split; [lia|]. exists [fresh n]. split; [apply FreshList_one; lia|].
      rewrite sw_ids_add_case, Hu, sw_ids_update_default. apply Permutation_refl.
    + destruct (if explicit_names_claimed && _ then sw_claim r0 nm else Ok r0) as [r1|e] eqn:Ecl; [|discriminate].
      assert (E1 : sw_ids r1 = sw_ids r0).
      { destruct (explicit_names_claimed && _); [eapply sw_claim_ids; eauto|injection Ecl as <-; reflexivity]. }
      rewrite <- E1. clear Ecl E1. destruct (find (name_is nm) _) as [c|].
      * destruct (new_case _ _ _ _ _) as [[k n1]|e] eqn:Ek; [|discriminate]. intros H. injection H as <- <-.
        apply (new_case_spec fresh fresh_inj) in Ek as (Hu & _ & ->). split; [lia|]. exists [fresh n]. split; [apply FreshList_one; lia|].
        rewrite sw_ids_mark, sw_ids_add_case, Hu, sw_ids_upd_cat by reflexivity. apply Permutation_refl.
      * destruct (new_cat _ _ _ _) as [[c n1]|e] eqn:Ec; [|discriminate].
        destruct (new_case _ _ _ _ _) as [[k n2]|e] eqn:Ek; [|discriminate]. intros H. injection H as <- <-.
        apply (new_cat_spec fresh fresh_inj) in Ec as (-> & ->). apply (new_case_spec fresh fresh_inj) in Ek as (Hu & _ & ->). split; [lia|].
        exists (map fresh [S (S n); n; S n]). split.
        -- apply FreshList_indices.
           ++ constructor; [cbn; lia|]. constructor; [cbn; lia|]. constructor; [cbn; lia|constructor].
           ++ intros m Hm. cbn in Hm. lia.
        -- rewrite sw_ids_mark, sw_ids_add_case, Hu, sw_ids_add_cat. cbn. apply Permutation_refl.
Qed.

Lemma new_switch_ids n operand result timeout r n' :
  new_switch fresh n operand result timeout = Ok (r, n') -> n <= n' /\ FreshList n n' (sw_ids r).
Proof.
  unfold new_switch. destruct (new_cat fresh n s_Other None) as [[other n1]|e] eqn:E1; [|discriminate].
  apply (new_cat_spec fresh fresh_inj) in E1 as (-> & ->).
  assert (F2 : forall m, m = S (S n) -> FreshList n m (map fresh [n; S n])).
  { intros m ->. apply FreshList_indices; [constructor; [cbn; lia|constructor; [cbn; lia|constructor]]|intros m Hm; cbn in Hm; lia]. }
  destruct timeout as [[|p]|].
  - intros H. injection H as <- <-. split; [lia|]. unfold sw_ids, sw_all_cats. cbn. apply F2. reflexivity.
  - destruct (new_cat fresh (S (S n)) s_NoResponse None) as [[nr n2]|e] eqn:E2; [|discriminate].
    apply (new_cat_spec fresh fresh_inj) in E2 as (-> & ->). intros H. injection H as <- <-. split; [lia|].
    unfold sw_ids, sw_all_cats. cbn.
    apply (FreshList_indices n (S (S (S (S n)))) [n; S n; S (S n); S (S (S n))]).
    + constructor; [cbn; lia|]. constructor; [cbn; lia|]. constructor; [cbn; lia|]. constructor; [cbn; lia|constructor].
    + intros m Hm. cbn in Hm. lia.
  - intros H. injection H as <- <-. split; [lia|]. unfold sw_ids, sw_all_cats. cbn. apply F2. reflexivity.
Qed.

Lemma rr_add_choice_ids n r name d r' n' :
  rr_add_choice fresh n r name d = Ok (r', n') ->
  n <= n' /\ exists news, FreshList n n' news /\ Permutation (flat_map cat_ids (rr_cats r')) (news ++ flat_map cat_ids (rr_cats r)).
Proof.
  unfold rr_add_choice. generalize (match name with [] => s_Bucket ++ dec_nat (length (rr_cats r) + 2) | _ => name end). intros nm.
  destruct (existsb (name_is nm) (rr_cats r)).
  - intros H. injection H as <- <-. split; [lia|]. exists []. split; [apply FreshList_nil|]. cbn.
    rewrite flat_map_upd_first by reflexivity. apply Permutation_refl.
  - destruct (new_cat fresh n nm d) as [[c n1]|e] eqn:E; [|discriminate]. apply (new_cat_spec fresh fresh_inj) in E as (-> & ->).
    intros H. injection H as <- <-. split; [lia|]. exists (map fresh [n; S n]). split.
    + apply FreshList_indices; [constructor; [cbn; lia|constructor; [cbn; lia|constructor]]|intros m Hm; cbn in Hm; lia].
    + cbn [rr_cats map]. rewrite flat_map_app. cbn [flat_map cat_ids cat_xid cc_uuid cc_exit x_uuid app]. apply (Permutation_app_comm _ [fresh n; fresh (S n)]).
Qed.

(* ---------------------------------------------------------------- constructors: all identifiers are new draws *)
Lemma node_uuid_ids given n u g n1 :
  node_uuid fresh given n = (u, g, n1) -> n <= n1 /\ FreshList n n1 (if g then [] else [u]).
Proof.
  unfold node_uuid. destruct given; intros H; injection H as <- <- <-.
  - split; [lia|]. apply FreshList_one; lia.
  - split; [lia|]. apply FreshList_nil.
Qed.

Lemma new_switch_parts_ids n given operand result timeout u g r n' :
  new_switch_parts fresh n given operand result timeout = Ok (u, g, r, n') ->
  n <= n' /\ FreshList n n' ((if g then [] else [u]) ++ sw_ids r).
Proof.
  unfold new_switch_parts. destruct (node_uuid fresh given n) as [[u0 g0] n1] eqn:Eu. apply node_uuid_ids in Eu as (L1 & F1).
  destruct operand; [discriminate|]. destruct (new_switch fresh (S n1) _ result timeout) as [[r0 n3]|e] eqn:Er; [|discriminate].
  apply new_switch_ids in Er as (L2 & F2). intros H. injection H as <- <- <- <-. split; [lia|].
  apply (FreshList_app n (S n1) n3); [lia|lia| |exact F2]. eapply FreshList_widen; [| |exact F1]; lia.
Qed.

Lemma new_switch_node_ids n given operand result timeout nd n' :
  new_switch_node fresh n given operand result timeout = Ok (nd, n') -> n <= n' /\ FreshList n n' (node_ids nd).
Proof.
  unfold new_switch_node. destruct (new_switch_parts fresh n given operand result timeout) as [[[[u g] r] n3]|e] eqn:E; [|discriminate].
  apply new_switch_parts_ids in E as (L & F). intros H. injection H as <- <-. split; [exact L|exact F].
Qed.

Lemma new_enter_node_ids n given name payload nd n' :
  new_enter_node fresh n given name payload = Ok (nd, n') -> n <= n' /\ FreshList n n' (node_ids nd).
Proof.
  unfold new_enter_node. destruct (node_uuid fresh given n) as [[u0 g0] n1] eqn:Eu. apply node_uuid_ids in Eu as (L1 & F1).
  destruct name; [discriminate|].
  destruct (new_switch fresh (S (S n1)) s_child_run_status None None) as [[r0 n3]|e] eqn:Er; [|discriminate].
  apply new_switch_ids in Er as (L2 & F2).
  destruct (sw_add_choice fresh n3 _ _ _ _ _ _ _) as [[r2 n4]|e] eqn:E1; [|discriminate].
  apply sw_add_choice_ids in E1 as (L3 & news1 & F3 & P3). rewrite sw_ids_rename_default in P3.
  destruct (sw_add_choice fresh n4 _ _ _ _ _ _ _) as [[r3 n5]|e] eqn:E2; [|discriminate].
  apply sw_add_choice_ids in E2 as (L4 & news2 & F4 & P4).
  intros H. injection H as <- <-. split; [lia|]. unfold node_ids, uuid_ids. cbn.
  apply (FreshList_app n (S n1) n5); [lia|lia|eapply FreshList_widen; [| |exact F1]; lia|].
  apply (FreshList_app (S n1) (S (S n1)) n5 [fresh (S n1)]); [lia|lia|apply FreshList_one; lia|].
  assert (F5 : FreshList (S (S n1)) n4 (sw_ids r2)) by (apply (FreshList_gain _ n3 _ (sw_ids r0) news1); assumption || lia).
  apply (FreshList_gain _ n4 _ (sw_ids r2) news2); assumption || lia.
Qed.

Lemma new_outcome_node_ids n given sv payload wh nd n' :
  new_outcome_node fresh n given sv payload wh = Ok (nd, n') -> n <= n' /\ FreshList n n' (node_ids nd).
Proof.
  unfold new_outcome_node. destruct (node_uuid fresh given n) as [[u0 g0] n1] eqn:Eu. apply node_uuid_ids in Eu as (L1 & F1).
  destruct sv; [discriminate|]. destruct (field_key _) as [key|e]; [|discriminate].
  destruct (new_switch fresh (S (S n1)) _ None None) as [[r0 n3]|e] eqn:Er; [|discriminate].
  apply new_switch_ids in Er as (L2 & F2).
  destruct (sw_add_choice fresh n3 _ _ _ _ _ _ _) as [[r2 n4]|e] eqn:E1; [|discriminate].
  apply sw_add_choice_ids in E1 as (L3 & news1 & F3 & P3). rewrite sw_ids_rename_default in P3.
  intros H. injection H as <- <-. split; [lia|]. unfold node_ids, uuid_ids. cbn [cn_given cn_uuid cn_actions cn_body body_ids map fst]. rewrite sw_ids_update_default.
  apply (FreshList_app n (S n1) n4); [lia|lia|eapply FreshList_widen; [| |exact F1]; lia|].
  apply (FreshList_app (S n1) (S (S n1)) n4 [fresh (S n1)]); [lia|lia|apply FreshList_one; lia|].
  apply (FreshList_gain _ n3 _ (sw_ids r0) news1); assumption || lia.
Qed.

Lemma new_row_node_ids n0 n k given acts payload nd n' :
  n0 <= n -> FreshList n0 n (map fst acts) -> new_row_node fresh n k given acts payload = Ok (nd, n') ->
  n <= n' /\ FreshList n0 n' (node_ids nd).
Proof.
  intros L0 Fa. unfold new_row_node.
  assert (Hbasic : forall u g n1 m, node_uuid fresh given n = (u, g, n1) -> n1 <= m ->
            FreshList n0 (S m) (node_ids (mkCNode u g acts (BBasic (mkCExit (fresh m) None))))).
  { intros u g n1 m Eu Lm. apply node_uuid_ids in Eu as (L1 & F1). unfold node_ids, uuid_ids. cbn.
    apply (FreshList_perm _ _ (map fst acts ++ (if g then [] else [u]) ++ [fresh m])).
    - rewrite app_assoc. rewrite (Permutation_app_comm (map fst acts)). rewrite <- app_assoc. apply Permutation_refl.
    - apply (FreshList_app n0 n (S m)); [lia|lia|exact Fa|]. apply (FreshList_app n n1 (S m)); [lia|lia|exact F1|].
      apply FreshList_one; lia. }
  assert (Hwrap : forall nd0, n <= n' -> FreshList n n' (node_ids nd0) -> FreshList n0 n' (node_ids nd0))
    by (intros nd0 L F; eapply FreshList_widen; [| |exact F]; lia).
  destruct k as [| |t sv|op sv|sv|sv|name|sv|sv].
  - destruct (node_uuid fresh given n) as [[u g] n1] eqn:Eu. intros H. injection H as <- <-.
    pose proof (node_uuid_ids _ _ _ _ _ Eu) as (L1 & _). split; [lia|]. apply (Hbasic u g n1 (S n1) eq_refl). lia.
  - destruct (node_uuid fresh given n) as [[u g] n1] eqn:Eu. intros H. injection H as <- <-.
    pose proof (node_uuid_ids _ _ _ _ _ Eu) as (L1 & _). split; [lia|]. apply (Hbasic u g n1 n1 eq_refl). lia.
  - intros H. apply new_switch_node_ids in H as (L & F). split; [exact L|apply Hwrap; assumption].
  - intros H. apply new_switch_node_ids in H as (L & F). split; [exact L|apply Hwrap; assumption].
  - intros H. apply new_switch_node_ids in H as (L & F). split; [exact L|apply Hwrap; assumption].
  - destruct (node_uuid fresh given n) as [[u g] n1] eqn:Eu. intros H. injection H as <- <-.
    apply node_uuid_ids in Eu as (L1 & F1). split; [lia|]. unfold node_ids, uuid_ids. cbn. rewrite app_nil_r.
    eapply FreshList_widen; [| |exact F1]; lia.
  - intros H. apply new_enter_node_ids in H as (L & F). split; [exact L|apply Hwrap; assumption].
  - intros H. apply new_outcome_node_ids in H as (L & F). split; [exact L|apply Hwrap; assumption].
  - intros H. apply new_outcome_node_ids in H as (L & F). split; [exact L|apply Hwrap; assumption].
Qed.

(* ---------------------------------------------------------------- node updates *)
Lemma node_update_default_ids n nd d nd' n' :
  node_update_default fresh n nd d = Ok (nd', n') -> n <= n' /\ IdStep n n' (node_ids nd) (node_ids nd').
Proof.
  unfold node_update_default. destruct (cn_body nd) as [e|cls r|r] eqn:Eb.
  - cbn. intros H. injection H as <- <-. split; [lia|]. apply IdStep_body. rewrite Eb. cbn.
    exists [fresh n], [], [x_uuid e]. split; [apply FreshList_one; lia|]. split; apply Permutation_refl.
  - destruct cls; try discriminate; intros H; injection H as <- <-; (split; [lia|]); apply IdStep_body; rewrite Eb;
      cbn [body_ids]; rewrite sw_ids_update_default; apply IdStep_eq.
  - discriminate.
Qed.

Lemma node_fill_loose_ids nd d : node_ids (node_fill_loose nd d) = node_ids nd.
Proof.
  unfold node_fill_loose, node_ids, uuid_ids. cbn. f_equal. f_equal. destruct (cn_body nd) as [e|cls r|r]; cbn.
  - unfold fill_exit. destruct (is_loose (x_dest e)); reflexivity.
  - unfold sw_ids, sw_all_cats. cbn. f_equal.
    replace (wait_cats (match sw_wait r with CWTimeout t c => CWTimeout t (fill_cat d c) | w => w end))
      with (map (fill_cat d) (wait_cats (sw_wait r))) by (destruct (sw_wait r); reflexivity).
    change (fill_cat d (sw_default r) :: map (fill_cat d) (wait_cats (sw_wait r))) with (map (fill_cat d) (sw_default r :: wait_cats (sw_wait r))).
    rewrite <- map_app. rewrite !flat_map_concat_map, map_map. f_equal. apply map_ext. intros c. apply fill_cat_ids.
  - rewrite !flat_map_concat_map, map_map. f_equal. apply map_ext. intros c. apply fill_cat_ids.
Qed.
End Ids.
