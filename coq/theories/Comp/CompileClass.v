(* E7 — the Python class of a node never changes: every update of add_exit / connect_loose_exits replaces the
   exits or the router of a node, never its kind (basic / switch-router of a given class / random-router). *)
From Coq Require Import List NArith Bool Arith Lia.
From RPFT Require Import Base.Sexp Base.PyStr Base.Result Gen.Tables Flow.Flow Flow.Closed Flow.RowSem
     Comp.Compile Comp.CompileFacts.
Import ListNotations.

Definition same_class (b b' : cbody) : Prop :=
  match b, b' with
  | BBasic _, BBasic _ => True
  | BSwitch c _, BSwitch c' _ => c = c'
  | BRandom _, BRandom _ => True
  | _, _ => False
  end.

Lemma same_class_refl b : same_class b b.
Proof. destruct b; cbn; auto. Qed.
Lemma same_class_trans a b c : same_class a b -> same_class b c -> same_class a c.
Proof. destruct a, b, c; cbn; try contradiction; auto. congruence. Qed.

Definition class_pres (s s' : cstate) : Prop :=
  forall i nd, nth_error (cs_nodes s) i = Some nd ->
               exists nd', nth_error (cs_nodes s') i = Some nd' /\ same_class (cn_body nd) (cn_body nd').

Lemma class_pres_refl s : class_pres s s.
Proof. intros i nd H. exists nd. split; [exact H|apply same_class_refl]. Qed.

Lemma class_pres_trans a b c : class_pres a b -> class_pres b c -> class_pres a c.
Proof.
  intros H1 H2 i nd H. destruct (H1 i nd H) as (x & Hx & Cx). destruct (H2 i x Hx) as (y & Hy & Cy).
  exists y. split; [exact Hy|eapply same_class_trans; eauto].
Qed.

Lemma class_pres_set_node s k nd nd' n' :
  nth_error (cs_nodes s) k = Some nd -> same_class (cn_body nd) (cn_body nd') -> class_pres s (set_node s k nd' n').
Proof.
  intros Hk Hc i x Hx. cbn. destruct (Nat.eq_dec i k) as [->|Hne].
  - exists nd'. split; [eapply update_nth_same; eauto|]. assert (x = nd) by congruence. subst x. exact Hc.
  - exists x. split; [rewrite update_nth_other by exact Hne; exact Hx|apply same_class_refl].
Qed.

Lemma class_pres_push s nd n' : class_pres s (push_node s nd n').
Proof.
  intros i x Hx. exists x. split; [|apply same_class_refl]. cbn. rewrite nth_error_app1; [exact Hx|]. apply nth_error_Some. congruence.
Qed.

Lemma class_pres_nodes s s' : cs_nodes s' = cs_nodes s -> class_pres s s'.
Proof. intros E i x Hx. exists x. rewrite E. split; [exact Hx|apply same_class_refl]. Qed.

Lemma class_pres_foldM {X} (f : cstate -> X -> res cstate) l : forall s s',
  (forall a x b, f a x = Ok b -> class_pres a b) -> foldM f l s = Ok s' -> class_pres s s'.
Proof.
  induction l as [|x r IH]; intros s s' Hf; cbn.
  - intros H. injection H as <-. apply class_pres_refl.
  - destruct (f s x) as [s1|e] eqn:E; [|discriminate]. intros H. eapply class_pres_trans; [eapply Hf, E|eapply IH; eauto].
Qed.

Section Class.
Variable fresh : nat -> id.

Lemma fill_node_at_class s k d s' : fill_node_at s k d = Ok s' -> class_pres s s'.
Proof.
  unfold fill_node_at. destruct (nth_error (cs_nodes s) k) as [nd|] eqn:E; [|discriminate]. intros H. injection H as <-.
  eapply class_pres_set_node; eauto. unfold node_fill_loose. cbn. destruct (cn_body nd); cbn; auto.
Qed.

Lemma cconnect_loose_class fuel : forall s g d s', cconnect_loose fuel s g d = Ok s' -> class_pres s s'.
Proof.
  induction fuel as [|f IH]; intros s g d s'; cbn; [discriminate|].
  destruct (nth_error (cs_groups s) g) as [[k1 k2 rt|ps [k|]|ms]|]; try discriminate.
  - apply fill_node_at_class.
  - apply fill_node_at_class.
  - apply class_pres_foldM. intros a x b. apply IH.
  - apply class_pres_foldM. intros a x b. apply IH.
Qed.

Lemma row_add_exit_class s g k1 k2 rt d c s' : row_add_exit fresh s g k1 k2 rt d c = Ok s' -> class_pres s s'.
Proof.
  unfold row_add_exit. destruct (nth_error (cs_nodes s) (row_exit_node k1 k2)) as [nd|] eqn:E; [|discriminate].
  destruct (cond_blank c && negb _).
  { unfold node_update_default. destruct (cn_body nd) as [e|cls r|r] eqn:Eb.
    - cbn. intros H. injection H as <-. eapply class_pres_set_node; eauto. rewrite Eb. exact I.
    - destruct cls; try discriminate; intros H; injection H as <-; (eapply class_pres_set_node; [eauto|rewrite Eb; reflexivity]).
    - discriminate. }
  destruct (cn_body nd) as [e|cls r|r] eqn:Eb.
  - destruct rt; try discriminate.
    destruct (new_switch_parts fresh (cs_next s) [] _ None _) as [[[[u gv] r0] n1]|e']; [|discriminate].
    cbn [new_exit]. destruct (sw_add_choice fresh (S n1) _ _ _ _ _ _ _) as [[r2 n3]|e'']; [|discriminate].
    intros H. injection H as <-.
    eapply class_pres_trans; [|apply class_pres_nodes; reflexivity].
    eapply class_pres_trans; [|apply class_pres_push]. eapply class_pres_set_node; eauto. rewrite Eb. exact I.
  - destruct cls.
    + destruct (str_eqb (lower (c_value c)) s_no_response).
      * destruct (sw_wait r); intros H; injection H as <-; try apply class_pres_refl.
        eapply class_pres_set_node; eauto. rewrite Eb. reflexivity.
      * destruct (sw_add_choice fresh (cs_next s) r _ _ _ _ _ _) as [[r' n1]|e]; [|discriminate].
        intros H. injection H as <-. eapply class_pres_set_node; eauto. rewrite Eb. reflexivity.
    + destruct (str_eqb _ s_complete || str_eqb _ s_completed).
      * destruct (existsb _ _); [|discriminate]. intros H. injection H as <-. eapply class_pres_set_node; eauto. rewrite Eb. reflexivity.
      * destruct (str_eqb _ s_expired); intros H; injection H as <-; [|apply class_pres_refl].
        eapply class_pres_set_node; eauto. rewrite Eb. reflexivity.
    + destruct (str_eqb _ s_success).
      * destruct (existsb _ _); [|discriminate]. intros H. injection H as <-. eapply class_pres_set_node; eauto. rewrite Eb. reflexivity.
      * destruct (str_eqb _ s_failure); intros H; injection H as <-; [|apply class_pres_refl].
        eapply class_pres_set_node; eauto. rewrite Eb. reflexivity.
  - destruct (rr_add_choice fresh (cs_next s) r _ d) as [[r' n1]|e]; [|discriminate].
    intros H. injection H as <-. eapply class_pres_set_node; eauto. rewrite Eb. exact I.
Qed.

Lemma noop_router_edge_class s k d c s' : noop_router_edge fresh s k d c = Ok s' -> class_pres s s'.
Proof.
  unfold noop_router_edge. destruct (nth_error (cs_nodes s) k) as [nd|] eqn:E; [|discriminate].
  destruct (cn_body nd) as [e|cls r|r] eqn:Eb; try discriminate.
  destruct (negb (nonempty (c_value c)) && negb (memb (c_type c) no_args_tests)).
  - intros H. injection H as <-. eapply class_pres_set_node; eauto. rewrite Eb. reflexivity.
  - destruct (sw_add_choice fresh (cs_next s) r _ _ _ _ _ _) as [[r' n1]|e]; [|discriminate].
    intros H. injection H as <-. eapply class_pres_set_node; eauto. rewrite Eb. reflexivity.
Qed.

Lemma cadd_exit_class fuel : forall s g d c s', cadd_exit fresh fuel s g d c = Ok s' -> class_pres s s'.
Proof.
  induction fuel as [|f IH]; intros s g d c s'; cbn [cadd_exit]; [discriminate|].
  destruct (nth_error (cs_groups s) g) as [[k1 k2 rt|ps [k|]|ms]|]; try discriminate.
  - apply row_add_exit_class.
  - apply noop_router_edge_class.
  - destruct (cond_blank c).
    + apply class_pres_foldM. intros a x b. apply IH.
    + destruct (c_variable c) as [|v0 v]; [discriminate|].
      destruct (new_switch_node fresh (cs_next s) [] (v0 :: v) None None) as [[nn n1]|e]; [|discriminate].
      destruct (foldM _ ps _) as [s2|e] eqn:Ef; [|discriminate]. intros H.
      eapply class_pres_trans; [|eapply noop_router_edge_class, H].
      eapply class_pres_trans; [|eapply class_pres_foldM; [|exact Ef]; intros a x b; apply IH].
      eapply class_pres_trans; [apply class_pres_push|apply class_pres_nodes; reflexivity].
  - destruct (negb (cond_blank c)); [discriminate|]. destruct (negb (chas_loose f s g)); [discriminate|].
    apply class_pres_foldM. intros a x b. destruct (chas_loose f a x); [apply cconnect_loose_class|].
    intros H. injection H as <-. apply class_pres_refl.
Qed.

Lemma cadd_row_edge_class s e d s' : cadd_row_edge fresh s e d = Ok s' -> class_pres s s'.
Proof.
  unfold cadd_row_edge. destruct (csource s e) as [[g|]|x]; try discriminate.
  - apply cadd_exit_class.
  - intros H. injection H as <-. apply class_pres_refl.
Qed.
End Class.
