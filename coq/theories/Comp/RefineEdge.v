(* E7/C02 — facts for the refinement, part 3: one edge leaving a row group.
   apply_row_edge of the reference builder against RowNodeGroup.add_exit of the compiler model. *)
From Coq Require Import List NArith Bool Arith Lia.
From RPFT Require Import Base.Sexp Base.PyStr Base.PyStrFacts Base.Result Gen.Tables Flow.Lts Flow.Flow Flow.Closed
     Flow.RowSem Comp.Compile Comp.CompileFacts Comp.CompileIds Comp.CompileInv Comp.Refine Comp.RefineFacts Comp.RefineStore.
Import ListNotations.

Section WithNames.
Context {GN : GenNames}.

Lemma update_same {X} (l : list X) k x : nth_error l k = Some x -> RowSem.update l k x = l.
Proof. revert k. induction l as [|y r IH]; intros [|k]; cbn; try discriminate; [congruence|]. intros H. rewrite IH by exact H. reflexivity. Qed.

Lemma set_node_same sr k n : nth_error (s_nodes sr) k = Some n -> RowSem.set_node sr k n = sr.
Proof. intros H. unfold RowSem.set_node. rewrite update_same by exact H. destruct sr; reflexivity. Qed.

Section Edge.
Variable fresh : nat -> id.
Variable GP : id -> Prop.
Hypothesis fresh_inj : forall a b, fresh a = fresh b -> a = b.
Hypothesis fresh_not_sentinel : forall k, fresh k <> hard_exit_sentinel.

Lemma dest_sim_ok phi sc tgt d : dest_sim phi (cuu sc) tgt d -> dest_ok (uuids sc) d.
Proof.
  destruct tgt as [| |k], d as [u|]; cbn.
  - intros [].
  - auto.
  - intros ->. left. reflexivity.
  - intros [].
  - intros (_ & c & _ & Hn). right. eapply nth_error_In, Hn.
  - intros [].
Qed.

Definition router_idx (c : nat * option nat) : nat := match snd c with Some j => j | None => fst c end.

Lemma router_idx_in c : In (router_idx c) (cluster_idx c).
Proof. destruct c as [a [b|]]; cbn; auto. Qed.

(* the decision of a reference node and the router of its cluster are updated together *)
Lemma Sim_dec_update phi sr sc k n c d d' ndr clsr r r' next' cont' :
  Sim phi sr sc -> nth_error (s_nodes sr) k = Some n -> rn_dec n = Some d -> nth_error phi k = Some c ->
  nth_error (cs_nodes sc) (router_idx c) = Some ndr -> cn_body ndr = BSwitch clsr r ->
  dec_sim phi (cuu sc) d' r' -> shape_ok clsr d' ->
  Sim phi (RowSem.set_node sr k (mkRNode (rn_actions n) (Some d') cont'))
      (Compile.set_node sc (router_idx c) (with_body ndr (BSwitch clsr r')) next').
Proof.
  intros Hsim Hk Hdec Hc Hr Hb Hds Hsh.
  destruct (sim_nodes _ _ _ Hsim k n c Hk Hc) as (nd & o & Hcn & Hns).
  eapply Sim_set; eauto.
  - apply router_idx_in.
  - rewrite Hb. cbn. reflexivity.
  - intros nd2 o2 Hcn2. unfold cluster_nodes, router_idx in *. destruct c as [k1 [j|]]; cbn in *.
    + (* implicit router *)
      destruct (nth_error (cs_nodes sc) k1) as [a|] eqn:E1; [|discriminate].
      destruct (nth_error (cs_nodes sc) j) as [b|] eqn:E2; [|discriminate]. injection Hcn as <- <-.
      assert (b = ndr) by congruence. subst b.
      assert (Hne : k1 <> j).
      { intros ->. pose proof (sim_disj _ _ _ Hsim) as Hd.
        destruct (flat_map_update_split cluster_idx _ _ _ Hc) as [E _]. rewrite E in Hd. cbn in Hd.
        apply NoDup_app_r in Hd. inversion Hd as [|? ? Hx _]; subst. apply Hx. left. reflexivity. }
      rewrite update_nth_other in Hcn2 by exact Hne. rewrite E1 in Hcn2.
      rewrite (update_nth_same _ _ _ _ E2) in Hcn2. injection Hcn2 as <- <-.
      inversion Hns as [| | |? ? e nr r0 d0 H1 H2 H3 H4 H5 H6 H7 H8 H9]; subst.
      assert (clsr = SPlain /\ r0 = r) as [-> ->] by (rewrite Hb in H6; injection H6; auto).
      eapply NS_implicit with (e := e) (r := r'); cbn; eauto.
    + destruct (nth_error (cs_nodes sc) k1) as [a|] eqn:E1; [|discriminate]. injection Hcn as <- <-.
      assert (a = ndr) by congruence. subst a.
      rewrite (update_nth_same _ _ _ _ E1) in Hcn2. injection Hcn2 as <- <-.
      inversion Hns as [? ? e H1 H2|? ? cls0 r0 d0 H1 H2 H3 H4 H5|? ? rr0 dr0 H1 H2 H3 H4|]; subst.
      * rewrite Hb in H2. discriminate.
      * eapply NS_router with (cls := clsr) (r := r'); cbn; eauto.
      * rewrite Hb in H2. discriminate.
Qed.

(* the same for the node of a split_random row *)
Lemma Sim_rand_update phi sr sc k n c d d' ndr r r' next' cont' :
  Sim phi sr sc -> nth_error (s_nodes sr) k = Some n -> rn_dec n = Some d -> nth_error phi k = Some c -> snd c = None ->
  nth_error (cs_nodes sc) (fst c) = Some ndr -> cn_body ndr = BRandom r ->
  rand_sim phi (cuu sc) d' r' ->
  Sim phi (RowSem.set_node sr k (mkRNode (rn_actions n) (Some d') cont'))
      (Compile.set_node sc (fst c) (with_body ndr (BRandom r')) next').
Proof.
  intros Hsim Hk Hdec Hc Ho Hr Hb Hds.
  destruct (sim_nodes _ _ _ Hsim k n c Hk Hc) as (nd & o & Hcn & Hns).
  eapply Sim_set; eauto.
  - left. reflexivity.
  - rewrite Hb. cbn. exact I.
  - intros nd2 o2 Hcn2. unfold cluster_nodes in *. destruct c as [k1 [j|]]; cbn in *; [discriminate|].
    rewrite Hr in Hcn. injection Hcn as <- <-.
    rewrite (update_nth_same _ _ _ _ Hr) in Hcn2. injection Hcn2 as <- <-.
    inversion Hns as [? ? e H1 H2|? ? cls0 r0 d0 H1 H2 H3 H4 H5|? ? rr0 dr0 H1 H2 H3 H4|]; subst; try (rewrite Hb in H2; discriminate).
    eapply NS_random with (r := r'); cbn; eauto.
Qed.

(* ---------------------------------------------------------------- a fresh router against a fresh decision *)
Lemma new_switch_dec_sim phi uu n operand timeout r0 n1 :
  new_switch fresh n operand None timeout = Ok (r0, n1) -> (timeout = None \/ timeout = Some 0%N) ->
  dec_sim phi uu (fresh_dec operand (match timeout with None => WNone | Some _ => WMsg end) DNone) r0.
Proof.
  unfold new_switch. destruct (new_cat fresh n s_Other None) as [[other n']|e] eqn:E; [|discriminate].
  apply (new_cat_spec fresh fresh_inj) in E as (-> & ->).
  intros H Ht. assert (Hr : exists w, r0 = mkSwitch operand None w [] [] (mkCCat (fresh n) s_Other (mkCExit (fresh (S n)) None)) []
                                     /\ ((timeout = None /\ w = CWNone) \/ (timeout = Some 0%N /\ w = CWMsg))).
  { destruct Ht as [->| ->]; injection H as <- <-; eexists; split; eauto. }
  destruct Hr as (w & -> & Hw). constructor; cbn.
  - reflexivity.
  - reflexivity.
  - reflexivity.
  - unfold wait_sim. cbn. destruct Hw as [[-> ->]|[-> ->]]; reflexivity.
  - constructor.
  - split; cbn [fst snd fresh_dec rd_default cc_name]; [apply name_sim_wild; intros _; exact gname_other|exact I].
  - constructor.
  - unfold sw_all_cats. cbn. destruct Hw as [[_ ->]|[_ ->]]; cbn; (constructor; [intros []|constructor]).
  - constructor; cbn; [constructor|intros u []|].
    intros _. unfold sw_all_cats. cbn. destruct Hw as [[_ ->]|[_ ->]]; cbn; (constructor; [intros []|constructor]).
Qed.

(* ---------------------------------------------------------------- a conditional edge into a plain router *)
Inductive cls_rt : eclass -> rowtype -> Prop :=
| CR_wait : cls_rt EWait RTOther
| CR_action : cls_rt EAction RTOther
| CR_split : cls_rt ESplit RTSplitValue
| CR_group : cls_rt EGroup RTSplitGroup.

Definition ref_add (cls : eclass) (d : rdec) (c : econd) (tgt : dest) : rdec :=
  match cls with
  | ESplit => add_case nab d (rd_operand d) (c_type c) (c_value c) (ref_args c) (c_cname c) tgt
  | EGroup => add_case nab d (rd_operand d) has_group_s (c_value c) [None; Some (c_value c)] (c_cname c) tgt
  | _ => add_case nab d (match c_variable c with [] => s_input_text | v => v end) (c_type c) (c_value c) (ref_args c) (c_cname c) tgt
  end.

(* what cond_ok says of the category name, for the two argument lists an edge may be compiled with *)
Lemma cond_ok_names c : cond_ok c -> name_ok (c_cname c) (ref_args c) /\ name_ok (c_cname c) [None; Some (c_value c)].
Proof.
  intros (_ & _ & H & _). unfold name_ok, cname_ok in *. destruct explicit_names_claimed; [auto|].
  destruct (c_cname c) as [|a nm]; [|auto]. split; intros k; apply (H k).
Qed.

Lemma plain_edge_dec phi uu n U cls rt d r c tgt dd r' n' :
  dec_sim phi uu d r -> plain_dec d -> SwOK fresh n U r -> cond_ok c -> dest_sim phi uu tgt dd -> cls_rt cls rt ->
  sw_add_choice fresh n r (match rt with RTOther => or_default (c_variable c) s_input_text | _ => sw_operand r end)
                (match rt with RTSplitGroup => has_group_s | _ => or_default (c_type c) s_has_any_word end)
                (match rt with RTSplitGroup => [None; Some (c_value c)] | _ => row_args c end)
                (c_cname c) dd false = Ok (r', n') ->
  dec_sim phi uu (ref_add cls d c tgt) r' /\ plain_dec (ref_add cls d c tgt).
Proof.
  intros Hs Hp Hok Hc Hd Hcr. destruct (cond_ok_names c Hc) as [N1 N2]. destruct Hc as (Hra & _ & _). rewrite Hra.
  assert (Ev : (match c_variable c with [] => s_input_text | v => v end) = or_default (c_variable c) s_input_text)
    by (destruct (c_variable c); reflexivity).
  destruct Hcr; cbn [ref_add]; rewrite ?Ev; intros H.
  - eapply dec_sim_add_case; eauto.
  - eapply dec_sim_add_case; eauto.
  - rewrite (ds_operand _ _ _ _ Hs). eapply dec_sim_add_case; eauto.
  - rewrite (ds_operand _ _ _ _ Hs). eapply (dec_sim_add_case fresh fresh_inj phi uu n U d r (sw_operand r) has_group_s); eauto.
Qed.

(* ---------------------------------------------------------------- what the exit node of a row group is *)
Lemma row_exit_router c : row_exit_node (fst c) (match snd c with Some j => [j] | None => [] end) = router_idx c.
Proof. destruct c as [a [b|]]; reflexivity. Qed.

Inductive exit_view (phi : list (nat * option nat)) (sc : cstate) (n : rnode) (cls : eclass) (rt : rowtype) (c0 : nat * option nat) : Prop :=
| EV_basic nd e :
    snd c0 = None -> nth_error (cs_nodes sc) (fst c0) = Some nd -> cn_body nd = BBasic e -> rn_dec n = None ->
    map snd (cn_actions nd) = rn_actions n -> dest_sim phi (cuu sc) (rn_cont n) (x_dest e) ->
    cls = EAction -> rt = RTOther -> exit_view phi sc n cls rt c0
| EV_random nd r d0 :
    snd c0 = None -> nth_error (cs_nodes sc) (fst c0) = Some nd -> cn_body nd = BRandom r -> rn_dec n = Some d0 ->
    rand_sim phi (cuu sc) d0 r -> cls = ERandom -> rt = RTOther -> exit_view phi sc n cls rt c0
| EV_router ndx clsr r d0 :
    nth_error (cs_nodes sc) (router_idx c0) = Some ndx -> cn_body ndx = BSwitch clsr r -> rn_dec n = Some d0 ->
    dec_sim phi (cuu sc) d0 r -> shape_ok clsr d0 ->
    ((clsr = SPlain /\ cls_rt cls rt) \/ (clsr = SEnter /\ cls = EFlow) \/ (clsr = SOutcome /\ cls = EOutcome)) ->
    exit_view phi sc n cls rt c0.

Lemma exit_view_of phi sr sc g k cls n k1 ks rt :
  Sim phi sr sc -> nth_error (s_groups sr) g = Some (GRow k cls) -> nth_error (cs_groups sc) g = Some (CGRow k1 ks rt) ->
  nth_error (s_nodes sr) k = Some n ->
  exists c0, nth_error phi k = Some c0 /\ k1 = fst c0 /\ ks = (match snd c0 with Some j => [j] | None => [] end)
             /\ exit_view phi sc n cls rt c0.
Proof.
  intros Hsim Hg Hgc Hk.
  destruct (Forall2_nth _ _ _ _ _ (sim_groups _ _ _ Hsim) Hg) as (y & Hy & Hxy). rewrite Hgc in Hy. injection Hy as <-.
  apply group_sim_row_inv in Hxy as (c0 & rt' & nd & Ey & Hc0 & Hnd & Hcl). injection Ey as -> -> ->.
  exists c0. split; [exact Hc0|]. split; [reflexivity|]. split; [reflexivity|].
  destruct (sim_nodes _ _ _ Hsim k n c0 Hk Hc0) as (nd' & o & Hcn & Hns).
  unfold cluster_nodes in Hcn. rewrite Hnd in Hcn. unfold cuu.
  destruct c0 as [a [j|]]; cbn in *.
  - destruct (nth_error (cs_nodes sc) j) as [nr|] eqn:Ej; [|discriminate]. injection Hcn as <- <-.
    inversion Hns as [| | |? ? e nr' r d0 H1 H2 H3 H4 H5 H6 H7 H8 H9]; subst.
    rewrite H2 in Hcl. destruct cls; cbn in Hcl; try contradiction. subst rt'.
    eapply EV_router with (ndx := nr) (clsr := SPlain); cbn; eauto. left. split; [reflexivity|constructor].
  - injection Hcn as <- <-. inversion Hns as [? ? e H1 H2 H3 H4|? ? clsr r d0 H1 H2 H3 H4 H5|? ? rr0 dr0 H1 H2 H3 H4|]; subst.
    + rewrite H2 in Hcl. destruct cls; cbn in Hcl; try contradiction. subst rt'. eapply EV_basic; cbn; eauto.
    + eapply EV_router with (ndx := nd) (clsr := clsr); cbn; eauto.
      rewrite H2 in Hcl. destruct cls, clsr; cbn in Hcl; try contradiction; subst;
        try (left; split; [reflexivity|constructor]); try (right; left; split; reflexivity); right; right; split; reflexivity.
    + rewrite H2 in Hcl. destruct cls; cbn in Hcl; try contradiction. subst rt'. eapply EV_random; cbn; eauto.
Qed.

Lemma sw_upd_cat_head p f r c rest :
  sw_cats r = c :: rest -> p c = true ->
  sw_upd_cat p f r = mkSwitch (sw_operand r) (sw_result r) (sw_wait r) (sw_cases r) (f c :: rest) (sw_default r) (sw_auto r).
Proof. intros E Hp. unfold sw_upd_cat. rewrite E. cbn. rewrite Hp. cbn. reflexivity. Qed.

(* the single fixed category of an enter-flow / webhook / airtime router is re-targeted by name *)
Lemma dec_sim_set_named phi uu d r nm x tgt dd :
  dec_sim phi uu d r -> rd_cats d = [(CFixed nm, x)] -> dest_sim phi uu tgt dd ->
  existsb (name_is nm) (sw_all_cats r) = true /\
  dec_sim phi uu (mkDec false (rd_operand d) (rd_wait d) (rd_result d) (rd_cases d) (set_cat_dest (rd_cats d) 0 tgt) (rd_default d) (rd_noresp d))
          (sw_upd_cat (name_is nm) (fun c => cat_set_dest c dd) r)
  /\ find_cat (rd_cats d) nm 0 = Some 0.
Proof.
  intros Hs Ec Hd. pose proof (ds_cats _ _ _ _ Hs) as Hc. rewrite Ec in Hc.
  inversion Hc as [|a c l l' Hac Hl E1 E2]; subst. inversion Hl; subst. symmetry in E2.
  destruct Hac as [Hn _]. cbn in Hn.
  assert (Hp : name_is nm c = true) by (unfold name_is; rewrite <- Hn; apply str_eqb_refl).
  split; [unfold sw_all_cats; rewrite E2; cbn; rewrite Hp; reflexivity|]. split.
  - assert (Hu : uuid_is (cc_uuid c) c = true) by (unfold uuid_is; apply str_eqb_refl).
    rewrite (sw_upd_cat_head (name_is nm) (fun c => cat_set_dest c dd) r c [] E2 Hp).
    rewrite <- (sw_upd_cat_head (uuid_is (cc_uuid c)) (fun c => cat_set_dest c dd) r c [] E2 Hu).
    rewrite <- (ds_random _ _ _ _ Hs).
    apply (dec_sim_set_cat phi uu d r 0 (cc_uuid c) tgt dd Hs); [rewrite Ec; cbn; lia| |exact Hd].
    unfold sw_all_cats. rewrite E2. reflexivity.
  - rewrite Ec. cbn. rewrite str_eqb_refl. reflexivity.
Qed.

Lemma row_edge_sim phi sr sc g k cls n tgt d c n' k1 ks rt sc' :
  Sim phi sr sc -> StOK fresh GP sc ->
  nth_error (s_groups sr) g = Some (GRow k cls) -> nth_error (cs_groups sc) g = Some (CGRow k1 ks rt) ->
  nth_error (s_nodes sr) k = Some n ->
  cond_ok c -> dest_sim phi (cuu sc) tgt d ->
  apply_row_edge nab n cls c tgt = Some n' ->
  row_add_exit fresh sc g k1 ks rt d c = Ok sc' ->
  exists phi', Sim phi' (RowSem.set_node sr k n') sc' /\ phi_le phi phi'
               /\ (forall k0 c1, k0 <> k -> nth_error phi k0 = Some c1 -> nth_error phi' k0 = Some c1).
Proof.
  intros Hsim Hst Hg Hgc Hk Hcok Hd Href Hcomp. destruct (cond_ok_names c Hcok) as [Hnm1 _].
  assert (Hra : row_args c = ref_args c) by apply Hcok.
  destruct (exit_view_of phi sr sc g k cls n k1 ks rt Hsim Hg Hgc Hk) as (c0 & Hc0 & -> & -> & Hv).
  unfold row_add_exit in Hcomp. rewrite row_exit_router in Hcomp.
  destruct Hv as [nd e Ho Hnd Hb Hdec Hact Hcont -> ->|nd r d0 Ho Hnd Hb Hdec Hrs -> ->|ndx clsr r d0 Hndx Hb Hdec Hds Hsh Hcl].
  2:{ (* ---- the node of a split_random row: every edge is a bucket *)
    assert (Er : router_idx c0 = fst c0) by (unfold router_idx; rewrite Ho; reflexivity).
    rewrite Er, Hnd, Hb in Hcomp. cbn [apply_row_edge] in Href. rewrite Hdec in Href. injection Href as <-.
    rewrite andb_false_r in Hcomp.
    destruct (rr_add_choice fresh (cs_next sc) r _ d) as [[r' n1]|x] eqn:Ea; [|discriminate]. injection Hcomp as <-.
    exists phi. split; [|split; [apply phi_le_refl|auto]].
    pose proof (StOK_random fresh GP _ _ _ _ Hst Hnd Hb) as Hok.
    assert (Hbn : ~ is_bucket_name (bucket_name c)) by apply Hcok.
    eapply Sim_rand_update; eauto.
    assert (Eb : match c_cname c with [] => c_value c | x => x end = bucket_name c) by (unfold bucket_name, or_default; destruct (c_cname c); reflexivity).
    rewrite Eb. eapply (rand_sim_add_bucket fresh fresh_inj); eauto. }
  - (* ---- the exit node is the basic node of an action row *)
    assert (Er : router_idx c0 = fst c0) by (unfold router_idx; rewrite Ho; reflexivity).
    rewrite Er, Hnd, Hb in Hcomp. cbn [apply_row_edge] in Href. rewrite Hdec in Href.
    destruct (cond_blank c) eqn:Eb; cbn [andb negb] in Hcomp.
    + (* the default continuation *)
      injection Href as <-. unfold node_update_default in Hcomp. rewrite Hb in Hcomp. cbn in Hcomp. injection Hcomp as <-.
      exists phi. split; [|split; [apply phi_le_refl|auto]].
      eapply Sim_set; eauto.
      * destruct c0 as [a [b|]]; cbn in *; [discriminate|left; reflexivity].
      * rewrite Hb. exact I.
      * intros nd2 o2 Hcn2. unfold cluster_nodes in Hcn2. destruct c0 as [a [b|]]; cbn in *; [discriminate|].
        rewrite (update_nth_same _ _ _ _ Hnd) in Hcn2. injection Hcn2 as <- <-.
        eapply NS_basic with (e := mkCExit (fresh (cs_next sc)) d); cbn; eauto.
    + (* a condition on an edge from a basic node: the implicit router *)
      destruct (new_switch_parts fresh (cs_next sc) [] _ None _) as [[[[u gv] r0] n1]|e'] eqn:Ep; [|discriminate].
      cbn [new_exit] in Hcomp.
      destruct (sw_add_choice fresh (S n1) _ _ _ _ _ _ _) as [[r2 n3]|e''] eqn:Ea; [|discriminate].
      injection Hcomp as <-.
      (* what the router constructor made *)
      set (variable := or_default (c_variable c) s_input_text) in *.
      set (timeout := match c_variable c with [] => Some 0%N | _ => None end) in *.
      assert (Hu : u = fresh (cs_next sc) /\ gv = false /\ new_switch fresh (S (S (cs_next sc))) variable None timeout = Ok (r0, n1)).
      { unfold new_switch_parts in Ep. cbn [node_uuid] in Ep. destruct variable as [|v0 v]; [discriminate|].
        destruct (new_switch fresh (S (S (cs_next sc))) (v0 :: v) None timeout) as [[r0' n1']|x]; [|discriminate].
        injection Ep as <- <- <- <-. auto. }
      destruct Hu as (-> & -> & Enew).
      set (j := length (cs_nodes sc)). set (phi' := RowSem.update phi k (fst c0, Some j)).
      set (uu' := cuu sc ++ [fresh (cs_next sc)]).
      assert (Hc0' : nth_error phi k = Some (fst c0, None)) by (destruct c0 as [a [b|]]; cbn in *; [discriminate|exact Hc0]).
      assert (Hple : phi_le phi phi') by (eapply phi_le_update; eauto).
      assert (Hgu : grows (cuu sc) uu') by apply grows_app.
      assert (Htimeout : timeout = None \/ timeout = Some 0%N) by (unfold timeout; destruct (c_variable c); auto).
      pose proof (new_switch_dec_sim phi' uu' _ _ _ _ _ Enew Htimeout) as Hds0.
      pose proof (new_switch_ok fresh fresh_inj _ (uuids sc ++ [fresh (cs_next sc)]) _ _ _ _ _ Enew) as (Hle1 & Hok0).
      assert (Hcont' : dest_sim phi' uu' (rn_cont n) (x_dest e)) by (eapply dest_sim_mono; eauto).
      assert (Hd' : dest_sim phi' uu' tgt d) by (eapply dest_sim_mono; eauto).
      pose proof (dec_sim_set_default phi' uu' _ _ _ _ Hds0 Hcont') as Hds1.
      assert (Hok1 : SwOK fresh (S n1) (uuids sc ++ [fresh (cs_next sc)]) (sw_update_default r0 (x_dest e) [])).
      { apply SwOK_update_default.
        - eapply dest_ok_mono; [|eapply StOK_basic; eauto]. apply incl_appl, incl_refl.
        - eapply SwOK_mono; [| |exact Hok0]; [lia|apply incl_refl]. }
      destruct (dec_sim_add_case fresh fresh_inj phi' uu' (S n1) _ _ _ variable (c_type c) (c_value c) (ref_args c) (c_cname c) tgt d r2 n3
                  Hds1 ltac:(split; [constructor|split; [reflexivity|destruct timeout; exact I]]) Hok1 Hd' Hnm1) as [Hds2 Hpl2].
      { rewrite Hra in Ea. exact Ea. }
      exists phi'. split; [|split; [exact Hple|intros k0 c1 Hne0 H0; unfold phi'; rewrite update_nth_other by exact Hne0; exact H0]].
      (* the reference node *)
      assert (En' : n' = mkRNode (rn_actions n)
                     (Some (add_case nab (set_default (fresh_dec variable (match timeout with None => WNone | Some _ => WMsg end) DNone) (rn_cont n))
                                     variable (c_type c) (c_value c) (ref_args c) (c_cname c) tgt)) DNone).
      { unfold variable, timeout, or_default in *. destruct (c_variable c); injection Href as <-; reflexivity. }
      rewrite En'. rewrite Ho. cbn [app].
      eapply (Sim_implicit phi sr sc g k EAction n _ (fst c0) nd); eauto.
      * destruct c0 as [a [b|]]; cbn in *; [discriminate|exact Hgc].
      * rewrite Hb. exact I.
      * eapply NS_implicit with (e := mkCExit (fresh n1) (Some (fresh (cs_next sc)))) (r := r2); cbn; eauto.
  - (* ---- the exit node carries a switch router *)
    rewrite Hndx, Hb in Hcomp.
    pose proof (StOK_switch fresh GP _ _ _ _ _ Hst Hndx Hb) as Hok.
    destruct (cond_blank c) eqn:Eb; cbn [andb negb] in Hcomp.
    + (* the default branch *)
      assert (Href' : cls <> EFlow /\ n' = mkRNode (rn_actions n) (Some (set_default d0 tgt)) (rn_cont n)).
      { destruct Hcl as [[_ Hcr]|[[_ Hf]|[_ Ho]]].
        - destruct Hcr; cbn in Href; rewrite Eb, Hdec in Href; injection Href as <-; (split; [discriminate|reflexivity]).
        - subst cls. cbn in Href. rewrite Eb in Href. discriminate.
        - subst cls. cbn in Href. rewrite Eb, Hdec in Href. injection Href as <-. split; [discriminate|reflexivity]. }
      destruct Href' as [Hne ->].
      unfold node_update_default in Hcomp. rewrite Hb in Hcomp.
      assert (clsr <> SEnter) by (destruct Hcl as [[-> _]|[[-> ->]|[-> _]]]; [discriminate|contradiction|discriminate]).
      destruct clsr; try contradiction; injection Hcomp as <-; exists phi; (split; [|split; [apply phi_le_refl|auto]]);
        (eapply Sim_dec_update; eauto); try (apply dec_sim_set_default; assumption); try (apply shape_set_default; assumption).
    + destruct Hcl as [[-> Hcr]|[[-> ->]|[-> ->]]].
      * (* a plain router: wait_for_response / split rows, the implicit router of an action row *)
        assert (Href' : n' = if str_eqb (lower (c_value c)) s_no_response then noresp_edge n d0 tgt
                             else mkRNode (rn_actions n) (Some (ref_add cls d0 c tgt)) (rn_cont n)).
        { destruct Hcr; cbn in Href; rewrite ?Eb, ?Hdec in Href;
            destruct (str_eqb (lower (c_value c)) s_no_response); injection Href as <-; reflexivity. }
        destruct (str_eqb (lower (c_value c)) s_no_response) eqn:Enr.
        -- subst n'. unfold noresp_edge. destruct (rd_noresp d0) as [[nm x]|] eqn:Enp.
           ++ destruct (wait_sim_noresp_some _ _ _ _ _ _ Hds Enp) as (t & cw & Ew). rewrite Ew in Hcomp. injection Hcomp as <-.
              exists phi. split; [|split; [apply phi_le_refl|auto]].
              eapply Sim_dec_update; eauto; try (eapply dec_sim_noresp; eauto).
              destruct Hsh as (P1 & P2 & P3). rewrite Enp in P3. split; [exact P1|split; [exact P2|exact P3]].
           ++ pose proof (wait_sim_noresp_none _ _ _ _ Hds Enp) as Hw.
              destruct (sw_wait r); try contradiction; injection Hcomp as <-;
                (exists phi; split; [rewrite set_node_same by exact Hk; exact Hsim|split; [apply phi_le_refl|auto]]).
        -- subst n'.
           destruct (sw_add_choice fresh (cs_next sc) r _ _ _ _ _ _) as [[r' n1]|x] eqn:Ea; [|discriminate]. injection Hcomp as <-.
           destruct (plain_edge_dec phi (cuu sc) _ _ cls rt d0 r c tgt d r' n1 Hds Hsh Hok Hcok Hd Hcr Ea) as [Hds' Hpl'].
           exists phi. split; [|split; [apply phi_le_refl|auto]].
           eapply Sim_dec_update; eauto.
      * (* start_new_flow *)
        destruct Hsh as (x & Ecats). cbn [apply_row_edge] in Href. rewrite Eb, Hdec in Href.
        destruct (str_eqb (lower (c_value c)) s_complete || str_eqb (lower (c_value c)) s_completed).
        -- destruct (dec_sim_set_named phi (cuu sc) d0 r s_Complete x tgt d Hds Ecats Hd) as (Hex & Hds' & Hfc).
           rewrite Hfc in Href. injection Href as <-. rewrite Hex in Hcomp. injection Hcomp as <-.
           exists phi. split; [|split; [apply phi_le_refl|auto]].
           eapply Sim_dec_update; eauto. exists tgt. cbn. rewrite Ecats. reflexivity.
        -- destruct (str_eqb (lower (c_value c)) s_expired).
           ++ injection Href as <-. injection Hcomp as <-. exists phi. split; [|split; [apply phi_le_refl|auto]].
              eapply Sim_dec_update; eauto; try (apply dec_sim_set_default; assumption); try (exists x; exact Ecats).
           ++ injection Href as <-. injection Hcomp as <-. exists phi. split; [rewrite set_node_same by exact Hk; exact Hsim|split; [apply phi_le_refl|auto]].
      * (* call_webhook / transfer_airtime *)
        destruct Hsh as (x & Ecats). cbn [apply_row_edge] in Href. rewrite Eb, Hdec in Href.
        destruct (str_eqb (lower (c_value c)) s_success).
        -- destruct (dec_sim_set_named phi (cuu sc) d0 r s_Success x tgt d Hds Ecats Hd) as (Hex & Hds' & Hfc).
           rewrite Hfc in Href. injection Href as <-. rewrite Hex in Hcomp. injection Hcomp as <-.
           exists phi. split; [|split; [apply phi_le_refl|auto]].
           eapply Sim_dec_update; eauto. exists tgt. cbn. rewrite Ecats. reflexivity.
        -- destruct (str_eqb (lower (c_value c)) s_failure).
           ++ injection Href as <-. injection Hcomp as <-. exists phi. split; [|split; [apply phi_le_refl|auto]].
              eapply Sim_dec_update; eauto; try (apply dec_sim_set_default; assumption); try (exists x; exact Ecats).
           ++ injection Href as <-. injection Hcomp as <-. exists phi. split; [rewrite set_node_same by exact Hk; exact Hsim|split; [apply phi_le_refl|auto]].
Qed.
End Edge.
End WithNames.
