(* E7/C02 — facts for the refinement, part 4: node groups.
   has_loose_exits, connect_loose_exits, entry_node and add_exit of the reference builder against those of the
   compiler model, by induction on the fuel both recursions share. *)
From Coq Require Import List NArith Bool Arith Lia.
From RPFT Require Import Base.Sexp Base.PyStr Base.PyStrFacts Base.Result Gen.Tables Flow.Lts Flow.Flow Flow.Closed
     Flow.RowSem Comp.Compile Comp.CompileFacts Comp.CompileIds Comp.CompileInv Comp.Refine Comp.RefineFacts Comp.RefineStore
     Comp.RefineEdge.
Import ListNotations.

Section WithNames.
Context {GN : GenNames}.

(* ---------------------------------------------------------------- loose exits of a decision *)
Definition is_dnone (d : dest) : bool := match d with DNone => true | _ => false end.

Lemma dest_sim_loose phi uu d d' : dest_sim phi uu d d' -> is_dnone d = is_loose d'.
Proof. destruct d, d'; cbn; try contradiction; auto. Qed.

Lemma existsb_Forall2 {X Y} (P : X -> Y -> Prop) (p : X -> bool) (q : Y -> bool) l l' :
  Forall2 P l l' -> (forall x y, P x y -> p x = q y) -> existsb p l = existsb q l'.
Proof. intros H Hpq. induction H as [|a b l l' Hab _ IH]; cbn; [reflexivity|]. rewrite (Hpq _ _ Hab), IH. reflexivity. Qed.

Lemma existsb_ext' {X} (p q : X -> bool) l : (forall x, p x = q x) -> existsb p l = existsb q l.
Proof. intros H. induction l as [|a r IH]; cbn; [reflexivity|]. rewrite H, IH. reflexivity. Qed.

Lemma fold_left_map' {X Y Z} (f : Z -> Y -> Z) (g : X -> Y) l z : fold_left f (map g l) z = fold_left (fun a x => f a (g x)) l z.
Proof. revert z. induction l as [|a r IH]; intros z; cbn; [reflexivity|apply IH]. Qed.

Lemma nth_error_app2_same {X} (l : list X) x : nth_error (l ++ [x]) (length l) = Some x.
Proof. rewrite nth_error_app2 by lia. rewrite Nat.sub_diag. reflexivity. Qed.

Lemma existsb_map' {X Y} (f : X -> Y) (p : Y -> bool) l : existsb p (map f l) = existsb (fun x => p (f x)) l.
Proof. induction l as [|a r IH]; cbn; [reflexivity|]. rewrite IH. reflexivity. Qed.

Definition dec_loose (d : rdec) : bool :=
  existsb (fun cd => is_dnone (snd cd)) (rd_cats d) || is_dnone (snd (rd_default d))
  || match rd_noresp d with Some (_, x) => is_dnone x | None => false end.

Definition sw_loose (r : cswitch) : bool := existsb (fun e => is_loose (x_dest e)) (map cc_exit (sw_all_cats r)).

Lemma dec_loose_sim phi uu d r : dec_sim phi uu d r -> dec_loose d = sw_loose r.
Proof.
  intros [_ _ _ H4 H5 H6 _ _]. unfold dec_loose, sw_loose, sw_all_cats. rewrite map_app, existsb_app. cbn [map existsb].
  rewrite existsb_map'.
  rewrite (existsb_Forall2 _ (fun cd => is_dnone (snd cd)) (fun c => is_loose (x_dest (cc_exit c))) _ _ H5).
  2:{ intros x y [_ Hd]. eapply dest_sim_loose, Hd. }
  rewrite <- orb_assoc. f_equal. destruct H6 as [_ Hd]. unfold cat_dest in Hd. rewrite (dest_sim_loose _ _ _ _ Hd). f_equal.
  unfold wait_sim in H4. destruct (rd_wait d), (sw_wait r) as [| |t c]; try contradiction; try (rewrite H4; reflexivity).
  destruct H4 as (_ & [nm x] & -> & _ & Hx). cbn in *. unfold cat_dest in Hx. rewrite (dest_sim_loose _ _ _ _ Hx). rewrite orb_false_r. reflexivity.
Qed.

(* ---------------------------------------------------------------- connect_loose_exits on a decision *)
Definition dec_filled (d : rdec) (tgt : dest) : rdec :=
  mkDec (rd_random d) (rd_operand d) (rd_wait d) (rd_result d) (rd_cases d)
        (map (fun cd => (fst cd, fill (snd cd) tgt)) (rd_cats d))
        (fst (rd_default d), fill (snd (rd_default d)) tgt)
        (match rd_noresp d with Some (nm, x) => Some (nm, fill x tgt) | None => None end).

Definition sw_filled (r : cswitch) (dd : dst) : cswitch :=
  mkSwitch (sw_operand r) (sw_result r) (match sw_wait r with CWTimeout t c => CWTimeout t (fill_cat dd c) | w => w end)
           (sw_cases r) (map (fill_cat dd) (sw_cats r)) (fill_cat dd (sw_default r)) (sw_auto r).

Lemma cat_sim_fill phi uu x c tgt dd :
  cat_sim phi uu x c -> dest_sim phi uu tgt dd -> cat_sim phi uu (fst x, fill (snd x) tgt) (fill_cat dd c).
Proof.
  intros [Hn Hd] Ht. split; [exact Hn|]. cbn [snd]. unfold fill_cat, fill_exit, cat_dest in *. cbn.
  pose proof (dest_sim_loose _ _ _ _ Hd) as El. destruct (snd x); cbn in *; rewrite <- El; cbn; assumption.
Qed.

Lemma sw_filled_uuids r dd : map cc_uuid (sw_all_cats (sw_filled r dd)) = map cc_uuid (sw_all_cats r).
Proof.
  unfold sw_filled, sw_all_cats. cbn. rewrite !map_app, map_map. cbn. f_equal. f_equal. destruct (sw_wait r); reflexivity.
Qed.

Lemma dec_sim_fill phi uu d r tgt dd :
  dec_sim phi uu d r -> dest_sim phi uu tgt dd -> dec_sim phi uu (dec_filled d tgt) (sw_filled r dd).
Proof.
  intros [H1 H2 H3 H4 H5 H6 H7 H8 H9] Ht. constructor.
  - exact H1.
  - exact H2.
  - exact H3.
  - unfold wait_sim in *. cbn. destruct (rd_wait d), (sw_wait r) as [| |t c]; try contradiction; try (rewrite H4; reflexivity).
    destruct H4 as (Et & [nm x] & Ex & Hx). split; [exact Et|]. rewrite Ex. exists (nm, fill x tgt). split; [reflexivity|].
    apply (cat_sim_fill phi uu (nm, x) c tgt dd Hx Ht).
  - cbn. clear - H5 Ht. induction H5 as [|a b l l' Hab _ IH]; cbn; constructor; [apply cat_sim_fill; assumption|exact IH].
  - cbn. apply cat_sim_fill; assumption.
  - rewrite sw_filled_uuids. exact H7.
  - rewrite sw_filled_uuids. exact H8.
  - eapply marks_same; [| | | |exact H9].
    + cbn. rewrite map_map. reflexivity.
    + cbn. rewrite map_map. reflexivity.
    + unfold sw_filled, sw_all_cats. cbn. rewrite !map_app, map_map. cbn. f_equal. f_equal. destruct (sw_wait r); reflexivity.
    + reflexivity.
Qed.

Lemma shape_filled cls d tgt : shape_ok cls d -> shape_ok cls (dec_filled d tgt).
Proof.
  destruct cls; cbn.
  - unfold plain_dec. cbn. rewrite map_length. intros (P1 & P2 & P3). split; [exact P1|]. split; [exact P2|].
    destruct (rd_noresp d) as [[nm x]|]; [exact P3|exact I].
  - intros (x & ->). cbn. eexists. reflexivity.
  - intros (x & ->). cbn. eexists. reflexivity.
Qed.

Lemma node_fill_switch nd cls r dd : cn_body nd = BSwitch cls r -> node_fill_loose nd dd = with_body nd (BSwitch cls (sw_filled r dd)).
Proof. intros E. unfold node_fill_loose. rewrite E. reflexivity. Qed.

Lemma node_has_loose_switch nd cls r : cn_body nd = BSwitch cls r -> node_has_loose nd = sw_loose r.
Proof. intros E. unfold node_has_loose, node_exits, sw_loose. rewrite E. reflexivity. Qed.

(* the buckets of a random split *)
Lemma buckets_loose_sim phi uu l : forall i l',
  Forall2 (bucket_sim phi uu) (number_from i l) l' ->
  existsb (fun cd => is_dnone (snd cd)) l = existsb (fun c => is_loose (x_dest (cc_exit c))) l'.
Proof.
  induction l as [|x l IH]; intros i l' H; cbn [number_from] in H; inversion H as [|a c l0 l1 Hxc Hl]; subst; cbn [existsb]; [reflexivity|].
  destruct Hxc as [_ Hd]. cbn [fst snd] in Hd. rewrite (dest_sim_loose _ _ _ _ Hd). rewrite (IH _ _ Hl). reflexivity.
Qed.

Lemma rand_loose_sim phi uu d r :
  rand_sim phi uu d r -> existsb (fun cd => is_dnone (snd cd)) (rd_cats d) = existsb (fun c => is_loose (x_dest (cc_exit c))) (rr_cats r).
Proof. intros [_ _ H _]. eapply buckets_loose_sim, H. Qed.

Lemma number_from_map' {X Y} (f : X -> Y) l i : number_from i (map f l) = map (fun ix => (fst ix, f (snd ix))) (number_from i l).
Proof. revert i. induction l as [|a r IH]; intros i; cbn; [reflexivity|]. rewrite IH. reflexivity. Qed.

Lemma rand_sim_fill phi uu d r tgt dd :
  rand_sim phi uu d r -> dest_sim phi uu tgt dd -> rand_sim phi uu (dec_filled d tgt) (mkRandom (rr_result r) (map (fill_cat dd) (rr_cats r))).
Proof.
  intros [H1 H2 H3 H4] Ht. constructor; cbn.
  - exact H1.
  - exact H2.
  - rewrite number_from_map'. clear - H3 Ht. induction H3 as [|a b l l' Hab _ IH]; cbn; constructor; [|exact IH].
    destruct Hab as [Hn Hd]. split; [exact Hn|]. cbn [fst snd]. unfold fill_cat, fill_exit, cat_dest in *. cbn.
    pose proof (dest_sim_loose _ _ _ _ Hd) as El. destruct (snd (snd a)); cbn in *; rewrite <- El; cbn; assumption.
  - rewrite map_map. cbn. exact H4.
Qed.

Section Group.
Variable fresh : nat -> id.
Variable GP : id -> Prop.
Hypothesis fresh_inj : forall a b, fresh a = fresh b -> a = b.
Hypothesis fresh_not_sentinel : forall k, fresh k <> hard_exit_sentinel.

(* the exit node of the cluster of a reference node: what has_loose_exits / connect_loose_exits look at *)
Lemma loose_at phi sr sc k n c0 :
  Sim phi sr sc -> nth_error (s_nodes sr) k = Some n -> nth_error phi k = Some c0 ->
  exists ndx, nth_error (cs_nodes sc) (router_idx c0) = Some ndx /\ node_loose n = node_has_loose ndx.
Proof.
  intros Hsim Hk Hc0. destruct (sim_nodes _ _ _ Hsim k n c0 Hk Hc0) as (nd & o & Hcn & Hns).
  unfold cluster_nodes, router_idx in *. destruct c0 as [a [j|]]; cbn in *.
  - destruct (nth_error (cs_nodes sc) a) as [x|]; [|discriminate]. destruct (nth_error (cs_nodes sc) j) as [nr|] eqn:Ej; [|discriminate].
    injection Hcn as <- <-. exists nr. split; [reflexivity|].
    inversion Hns as [| | |? ? e nr' r d0 H1 H2 H3 H4 H5 H6 H7 H8 H9]; subst.
    unfold node_loose. rewrite H1, (ds_random _ _ _ _ H8). rewrite (node_has_loose_switch _ _ _ H6), <- (dec_loose_sim _ _ _ _ H8). reflexivity.
  - destruct (nth_error (cs_nodes sc) a) as [x|]; [|discriminate]. injection Hcn as <- <-. exists x. split; [reflexivity|].
    inversion Hns as [? ? e H1 H2 H3 H4|? ? cls r d0 H1 H2 H3 H4 H5|? ? rr0 dr0 H1 H2 H3 H4|]; subst.
    + unfold node_loose, node_has_loose, node_exits. rewrite H1, H2. cbn. pose proof (dest_sim_loose _ _ _ _ H4) as El.
      unfold is_dnone in El. rewrite El, orb_false_r. reflexivity.
    + unfold node_loose. rewrite H1, (ds_random _ _ _ _ H4). rewrite (node_has_loose_switch _ _ _ H2), <- (dec_loose_sim _ _ _ _ H4). reflexivity.
    + unfold node_loose. rewrite H1, (rs_random _ _ _ _ H4). unfold node_has_loose, node_exits. rewrite H2. cbn [body_cats].
      rewrite existsb_map'. apply rand_loose_sim with (phi := phi) (uu := map cn_uuid (cs_nodes sc)). exact H4.
Qed.

Lemma has_loose_sim fuel : forall phi sr sc g, Sim phi sr sc -> has_loose fuel sr g = chas_loose fuel sc g.
Proof.
  induction fuel as [|f IH]; intros phi sr sc g Hsim; cbn; [reflexivity|].
  pose proof (sim_groups _ _ _ Hsim) as Hg.
  destruct (nth_error (s_groups sr) g) as [x|] eqn:Ex.
  - destruct (Forall2_nth _ _ _ _ _ Hg Ex) as (y & Ey & Hxy). rewrite Ey.
    destruct Hxy as [k cls c0 rt nd Hk Hn Hcl|ps Hps|ps k k1 ndq rq Hps Hk Hnq Hbq|ms].
    + rewrite row_exit_router. assert (Hlt : k < length (s_nodes sr)) by (rewrite <- (sim_len _ _ _ Hsim); apply nth_error_Some; congruence).
      destruct (nth_error (s_nodes sr) k) as [n|] eqn:En; [|apply nth_error_None in En; lia].
      destruct (loose_at phi sr sc k n c0 Hsim En Hk) as (ndx & -> & E). exact E.
    + apply existsb_ext'. intros p. apply (IH phi), Hsim.
    + assert (Hlt : k < length (s_nodes sr)) by (rewrite <- (sim_len _ _ _ Hsim); apply nth_error_Some; congruence).
      destruct (nth_error (s_nodes sr) k) as [n|] eqn:En; [|apply nth_error_None in En; lia].
      destruct (loose_at phi sr sc k n (k1, None) Hsim En Hk) as (ndx & E1 & E). cbn in E1. rewrite E1. exact E.
    + apply existsb_ext'. intros m. apply (IH phi), Hsim.
  - assert (nth_error (cs_groups sc) g = None) as ->; [|reflexivity].
    apply nth_error_None. rewrite <- (Forall2_length' _ _ _ Hg). apply nth_error_None, Ex.
Qed.

Lemma ext_grows sc sc' : ext sc sc' -> grows (cuu sc) (cuu sc').
Proof. intros H. destruct (ext_uuids _ _ H) as (x & E). exists x. exact E. Qed.

(* connect_loose_exits on the cluster of one reference node *)
Lemma connect_at phi sr sc k n c0 tgt dd sc' :
  Sim phi sr sc -> nth_error (s_nodes sr) k = Some n -> nth_error phi k = Some c0 -> dest_sim phi (cuu sc) tgt dd ->
  fill_node_at sc (router_idx c0) dd = Ok sc' -> Sim phi (RowSem.set_node sr k (connect_node n tgt)) sc'.
Proof.
  intros Hsim Hk Hc0 Hd. unfold fill_node_at.
  destruct (nth_error (cs_nodes sc) (router_idx c0)) as [ndx|] eqn:Ex; [|discriminate]. intros H. injection H as <-.
  destruct (sim_nodes _ _ _ Hsim k n c0 Hk Hc0) as (nd & o & Hcn & Hns).
  assert (Hview : (exists e, snd c0 = None /\ nd = ndx /\ cn_body nd = BBasic e /\ rn_dec n = None /\ map snd (cn_actions nd) = rn_actions n
                              /\ dest_sim phi (cuu sc) (rn_cont n) (x_dest e))
                  \/ (exists cls r d0, cn_body ndx = BSwitch cls r /\ rn_dec n = Some d0 /\ dec_sim phi (cuu sc) d0 r /\ shape_ok cls d0)
                  \/ (exists r d0, snd c0 = None /\ cn_body ndx = BRandom r /\ rn_dec n = Some d0 /\ rand_sim phi (cuu sc) d0 r)).
  { unfold cluster_nodes, router_idx in *. destruct c0 as [a [j|]]; cbn in *.
    - destruct (nth_error (cs_nodes sc) a) as [x|]; [|discriminate]. rewrite Ex in Hcn. injection Hcn as <- <-.
      inversion Hns as [| | |? ? e nr' r d0 H1 H2 H3 H4 H5 H6 H7 H8 H9]; subst. right. left. exists SPlain, r, d0. auto.
    - rewrite Ex in Hcn. injection Hcn as <- <-.
      inversion Hns as [? ? e H1 H2 H3 H4|? ? cls r d0 H1 H2 H3 H4 H5|? ? rr0 dr0 H1 H2 H3 H4|]; subst;
        [left; exists e; auto 10|right; left; exists cls, r, d0; auto|right; right; exists rr0, dr0; auto]. }
  destruct Hview as [(e & Ho & -> & Hb & Hdec & Hact & Hcont)|[(cls & r & d0 & Hb & Hdec & Hds & Hsh)|(r & d0 & Ho & Hb & Hdec & Hrs)]].
  3:{ assert (Ecn : connect_node n tgt = mkRNode (rn_actions n) (Some (dec_filled d0 tgt)) (rn_cont n)) by (unfold connect_node; rewrite Hdec; reflexivity).
      rewrite Ecn. assert (Er : router_idx c0 = fst c0) by (unfold router_idx; rewrite Ho; reflexivity). rewrite Er in *.
      assert (Ef : node_fill_loose ndx dd = with_body ndx (BRandom (mkRandom (rr_result r) (map (fill_cat dd) (rr_cats r)))))
        by (unfold node_fill_loose; rewrite Hb; reflexivity).
      rewrite Ef. eapply Sim_rand_update; eauto. apply rand_sim_fill; assumption. }
  - unfold connect_node. rewrite Hdec. eapply Sim_set; eauto.
    + apply (router_idx_in fresh fresh_inj).
    + unfold node_fill_loose. rewrite Hb. exact I.
    + intros nd2 o2 Hcn2. unfold cluster_nodes, router_idx in *. destruct c0 as [a [j|]]; cbn in *; [discriminate|].
      rewrite (update_nth_same _ _ _ _ Ex) in Hcn2. injection Hcn2 as <- <-.
      eapply NS_basic with (e := fill_exit dd e); cbn.
      * reflexivity.
      * unfold node_fill_loose. rewrite Hb. reflexivity.
      * exact Hact.
      * unfold fill_exit. pose proof (dest_sim_loose _ _ _ _ Hcont) as El. destruct (rn_cont n); cbn in *; rewrite <- El; cbn; assumption.
  - rewrite (node_fill_switch _ _ _ dd Hb).
    assert (Ecn : connect_node n tgt = mkRNode (rn_actions n) (Some (dec_filled d0 tgt)) (rn_cont n)) by (unfold connect_node; rewrite Hdec; reflexivity).
    rewrite Ecn. eapply (Sim_dec_update fresh fresh_inj); eauto; [apply dec_sim_fill; assumption|apply shape_filled; assumption].
Qed.

Lemma connect_loose_sim fuel : forall phi sr sc g tgt dd sc',
  Sim phi sr sc -> StOK fresh GP sc -> dest_sim phi (cuu sc) tgt dd ->
  cconnect_loose fuel sc g dd = Ok sc' ->
  Sim phi (connect_loose fuel sr g tgt) sc' /\ StOK fresh GP sc' /\ ext sc sc'.
Proof.
  induction fuel as [|f IH]; intros phi sr sc g tgt dd sc' Hsim Hst Hd Hc; [discriminate|].
  destruct (cconnect_loose_ok fresh GP fresh_inj (S f) sc g dd sc' Hst (dest_sim_ok phi sc tgt dd Hd) Hc) as [Hst' Hext].
  split; [|split; assumption]. cbn in Hc |- *.
  pose proof (sim_groups _ _ _ Hsim) as Hg.
  destruct (nth_error (s_groups sr) g) as [x|] eqn:Ex.
  2:{ assert (E : nth_error (cs_groups sc) g = None) by (apply nth_error_None; rewrite <- (Forall2_length' _ _ _ Hg); apply nth_error_None, Ex).
      rewrite E in Hc. discriminate. }
  destruct (Forall2_nth _ _ _ _ _ Hg Ex) as (y & Ey & Hxy). rewrite Ey in Hc.
  assert (Hfold : forall (ids : list nat) s0 c0 c1, Sim phi s0 c0 -> StOK fresh GP c0 -> dest_sim phi (cuu c0) tgt dd ->
            foldM (fun s' m => cconnect_loose f s' m dd) ids c0 = Ok c1 ->
            Sim phi (fold_left (fun s' m => connect_loose f s' m tgt) ids s0) c1).
  { induction ids as [|m r IHr]; intros s0 c0 c1 Hs0 Ht0 Hd0; cbn.
    - intros H. injection H as <-. exact Hs0.
    - destruct (cconnect_loose f c0 m dd) as [c2|e] eqn:E; [|discriminate]. intros H.
      destruct (IH phi s0 c0 m tgt dd c2 Hs0 Ht0 Hd0 E) as (Hs2 & Ht2 & He2).
      apply (IHr _ c2 c1 Hs2 Ht2); [|exact H]. eapply dest_sim_mono; [apply phi_le_refl|apply ext_grows, He2|exact Hd0]. }
  destruct Hxy as [k cls c0 rt nd Hk Hn Hcl|ps Hps|ps k k1 ndq rq Hps Hk Hnq Hbq|ms].
  - rewrite row_exit_router in Hc.
    assert (Hlt : k < length (s_nodes sr)) by (rewrite <- (sim_len _ _ _ Hsim); apply nth_error_Some; congruence).
    destruct (nth_error (s_nodes sr) k) as [n|] eqn:En; [|apply nth_error_None in En; lia].
    eapply connect_at; eauto.
  - (* a no_op without router: its parents *)
    assert (E : fold_left (fun s' (p : nat * econd) => connect_loose f s' (fst p) tgt) ps sr
                = fold_left (fun s' m => connect_loose f s' m tgt) (map fst ps) sr) by (rewrite fold_left_map'; reflexivity).
    rewrite E. apply (Hfold (map fst ps) sr sc sc' Hsim Hst Hd).
    clear - Hc. revert sc Hc. induction ps as [|p r IHr]; intros sc Hc; cbn in *; [exact Hc|].
    destruct (cconnect_loose f sc (fst p) dd); [apply IHr, Hc|discriminate].
  - assert (Hlt : k < length (s_nodes sr)) by (rewrite <- (sim_len _ _ _ Hsim); apply nth_error_Some; congruence).
    destruct (nth_error (s_nodes sr) k) as [n|] eqn:En; [|apply nth_error_None in En; lia].
    eapply (connect_at phi sr sc k n (k1, None)); eauto.
  - apply (Hfold ms sr sc sc' Hsim Hst Hd Hc).
Qed.

(* entry_node *)
Lemma entry_sim fuel : forall phi sr sc g k k1,
  Sim phi sr sc -> entry_node fuel sr g = Some k -> centry fuel sc g = Ok k1 ->
  exists c, nth_error phi k = Some c /\ fst c = k1.
Proof.
  induction fuel as [|f IH]; intros phi sr sc g k k1 Hsim; cbn; [discriminate|].
  pose proof (sim_groups _ _ _ Hsim) as Hg.
  destruct (nth_error (s_groups sr) g) as [x|] eqn:Ex; [|discriminate].
  destruct (Forall2_nth _ _ _ _ _ Hg Ex) as (y & Ey & Hxy). rewrite Ey.
  destruct Hxy as [k0 cls c0 rt nd Hk Hn Hcl|ps Hps|ps k0 k1' ndq rq Hps Hk Hnq Hbq|ms]; try discriminate.
  - intros H1 H2. injection H1 as <-. injection H2 as <-. exists c0. auto.
  - destruct ms as [|m ms']; [discriminate|]. apply IH, Hsim.
Qed.

(* ---------------------------------------------------------------- the decision node of a no_op *)
Lemma group_sim_noop_inv phi cn ps y : group_sim phi cn (GNoOp ps None) y -> y = CGNoOp ps None /\ Forall (fun p => cond_ok (snd p)) ps.
Proof. intros H. inversion H; subst. auto. Qed.

Lemma group_sim_noop_router_inv phi cn ps k y :
  group_sim phi cn (GNoOp ps (Some k)) y ->
  exists k1 nd r, y = CGNoOp ps (Some k1) /\ Forall (fun p => cond_ok (snd p)) ps /\ nth_error phi k = Some (k1, None)
                  /\ nth_error cn k1 = Some nd /\ cn_body nd = BSwitch SPlain r.
Proof. intros H. inversion H; subst. eauto 10. Qed.

Lemma group_sim_block_inv phi cn ms y : group_sim phi cn (GBlock ms) y -> y = CGBlock ms.
Proof. intros H. inversion H; subst. reflexivity. Qed.

Lemma Sim_noop_router phi sr sc g ps n nn next' r :
  Sim phi sr sc -> nth_error (s_groups sr) g = Some (GNoOp ps None) -> rn_actions n = [] -> cn_body nn = BSwitch SPlain r ->
  node_sim (phi ++ [(length (cs_nodes sc), None)]) (cuu sc ++ [cn_uuid nn]) n nn None ->
  Sim (phi ++ [(length (cs_nodes sc), None)])
      (RowSem.set_group (fst (RowSem.add_node sr n)) g (GNoOp ps (Some (length (s_nodes sr)))))
      (set_cgroup (push_node sc nn next') g (CGNoOp ps (Some (length (cs_nodes sc))))).
Proof.
  intros Hsim Hg Hact Hbn Hns. pose proof (Sim_push phi sr sc n nn next' Hsim Hns) as H1.
  destruct (Forall2_nth _ _ _ _ _ (sim_groups _ _ _ Hsim) Hg) as (y & Hy & Hxy). apply group_sim_noop_inv in Hxy as [-> Hps].
  eapply Sim_set_group with (old := GNoOp ps None).
  - exact H1.
  - exact Hg.
  - cbn. constructor; [intros []|constructor].
  - intros x [<-|[]]. right. intros Hin. pose proof (grow_bound phi sr sc _ Hsim Hin). lia.
  - intros ps0 k0 n0 E Hk0. injection E as _ <-. cbn in Hk0. rewrite nth_error_app2 in Hk0 by lia. rewrite Nat.sub_diag in Hk0.
    injection Hk0 as <-. exact Hact.
  - eapply GS_noop_router; [exact Hps| |cbn; apply nth_error_app2_same|exact Hbn]. rewrite <- (sim_len _ _ _ Hsim). apply nth_error_app2_same.
Qed.

(* an edge leaving a no_op that has its decision node *)
Lemma noop_edge_sim phi sr sc k k1 ndq rq c tgt dd n d sc' :
  Sim phi sr sc -> StOK fresh GP sc -> nth_error phi k = Some (k1, None) ->
  nth_error (cs_nodes sc) k1 = Some ndq -> cn_body ndq = BSwitch SPlain rq ->
  nth_error (s_nodes sr) k = Some n -> rn_dec n = Some d -> rn_actions n = [] ->
  cond_ok c -> dest_sim phi (cuu sc) tgt dd ->
  noop_router_edge fresh sc k1 dd c = Ok sc' ->
  Sim phi (RowSem.set_node sr k (mkRNode [] (Some (noop_case nab d c tgt)) DNone)) sc'.
Proof.
  intros Hsim Hst Hc0 Hnq Hbq Hk Hdec Hact Hcok Hd. destruct (cond_ok_names c Hcok) as [Hnm _]. destruct Hcok as (_ & Hna & _).
  unfold noop_router_edge. rewrite Hnq, Hbq.
  destruct (sim_nodes _ _ _ Hsim k n _ Hk Hc0) as (nd & o & Hcl & Hns). unfold cluster_nodes in Hcl. cbn in Hcl. rewrite Hnq in Hcl.
  injection Hcl as <- <-. inversion Hns as [? ? e H1 H2|? ? cls r d0 H1 H2 H3 H4 H5|? ? rr0 dr0 H1 H2 H3 H4|]; subst; [congruence| |congruence].
  assert (d0 = d) by congruence. subst d0. assert (cls = SPlain /\ r = rq) as [-> ->] by (rewrite Hbq in H2; injection H2; auto).
  pose proof (StOK_switch fresh GP _ _ _ _ _ Hst Hnq Hbq) as Hok.
  rewrite <- Hact.
  unfold noop_case. destruct (c_value c) as [|v0 v] eqn:Ev; cbn [nonempty negb andb].
  - unfold nab. destruct (memb (c_type c) no_args_tests) eqn:Em; cbn [negb andb].
    + destruct (sw_add_choice fresh (cs_next sc) rq _ _ _ _ _ _) as [[r' n1]|x] eqn:Ea; [|discriminate]. intros H. injection H as <-.
      rewrite Hna in Ea.
      destruct (dec_sim_add_case fresh fresh_inj phi (cuu sc) _ _ d rq (c_variable c) (c_type c) [] (ref_args c) (c_cname c) tgt dd r' n1 H4 H5 Hok Hd Hnm Ea) as [Hds' Hpl'].
      eapply (Sim_dec_update fresh fresh_inj phi sr sc k n (k1, None)); eauto.
    + intros H. injection H as <-.
      eapply (Sim_dec_update fresh fresh_inj phi sr sc k n (k1, None)); eauto; try (apply dec_sim_set_default; assumption); try exact H5.
  - destruct (sw_add_choice fresh (cs_next sc) rq _ _ _ _ _ _) as [[r' n1]|x] eqn:Ea; [|discriminate]. intros H. injection H as <-.
    rewrite Hna in Ea.
    destruct (dec_sim_add_case fresh fresh_inj phi (cuu sc) _ _ d rq (c_variable c) (c_type c) (v0 :: v) (ref_args c) (c_cname c) tgt dd r' n1 H4 H5 Hok Hd Hnm Ea) as [Hds' Hpl'].
    eapply (Sim_dec_update fresh fresh_inj phi sr sc k n (k1, None)); eauto.
Qed.

(* ---------------------------------------------------------------- what add_exit may change among the reference groups *)
Record gframe (sr sr' : st) : Prop := {
  gf_len : length (s_groups sr') = length (s_groups sr);
  gf_nodes : length (s_nodes sr) <= length (s_nodes sr');
  gf_groups : forall g x, nth_error (s_groups sr) g = Some x ->
              nth_error (s_groups sr') g = Some x
              \/ exists ps k, x = GNoOp ps None /\ nth_error (s_groups sr') g = Some (GNoOp ps (Some k)) /\ length (s_nodes sr) <= k;
  (* a node no group names is left alone *)
  gf_keep : forall k n, nth_error (s_nodes sr) k = Some n -> ~ In k (flat_map grow_node (s_groups sr)) ->
            nth_error (s_nodes sr') k = Some n }.

Lemma gframe_refl sr : gframe sr sr.
Proof. constructor; auto. Qed.

Lemma gframe_grow0 sr sr' k0 :
  length (s_groups sr') = length (s_groups sr) ->
  (forall g x, nth_error (s_groups sr) g = Some x ->
              nth_error (s_groups sr') g = Some x
              \/ exists ps k, x = GNoOp ps None /\ nth_error (s_groups sr') g = Some (GNoOp ps (Some k)) /\ length (s_nodes sr) <= k) ->
  k0 < length (s_nodes sr) ->
  ~ In k0 (flat_map grow_node (s_groups sr)) -> ~ In k0 (flat_map grow_node (s_groups sr')).
Proof.
  intros F1 F3 Hlt Hn Hin. apply in_flat_map in Hin as (x' & Hx' & Hk). apply In_nth_error in Hx' as (g & Hg).
  assert (Hgl : g < length (s_groups sr)) by (rewrite <- F1; apply nth_error_Some; congruence).
  destruct (nth_error (s_groups sr) g) as [x|] eqn:Ex; [|apply nth_error_None in Ex; lia].
  destruct (F3 g x Ex) as [H|(ps & k & -> & H & Hk')].
  - rewrite Hg in H. injection H as ->. apply Hn. apply in_flat_map. exists x. split; [eapply nth_error_In, Ex|exact Hk].
  - rewrite Hg in H. injection H as ->. cbn in Hk. destruct Hk as [<-|[]]. lia.
Qed.

Lemma gframe_trans a b c : gframe a b -> gframe b c -> gframe a c.
Proof.
  intros [A1 A2 A3 A4] [B1 B2 B3 B4]. constructor; [congruence|lia| |].
  - intros g x Hx.
    destruct (A3 g x Hx) as [H|(ps & k & -> & H & Hk)].
    + destruct (B3 g x H) as [H'|(ps & k & -> & H' & Hk)]; [left; exact H'|right; exists ps, k; repeat split; [exact H'|lia]].
    + destruct (B3 g _ H) as [H'|(ps' & k' & E & _ & _)]; [|discriminate]. right. exists ps, k. auto.
  - intros k n Hk Hn. apply B4; [apply A4; assumption|].
    apply (gframe_grow0 a b k A1 A3); [apply nth_error_Some; congruence|exact Hn].
Qed.

Lemma gframe_set_node sr k n : In k (flat_map grow_node (s_groups sr)) -> gframe sr (RowSem.set_node sr k n).
Proof.
  intros Hin. constructor; cbn; [reflexivity|rewrite update_length; lia|auto|].
  intros k0 n0 Hk0 Hn0. rewrite update_nth_other; [exact Hk0|]. intros ->. contradiction.
Qed.

Lemma grow_in sr g x k : nth_error (s_groups sr) g = Some x -> In k (grow_node x) -> In k (flat_map grow_node (s_groups sr)).
Proof. intros Hg Hk. apply in_flat_map. exists x. split; [eapply nth_error_In, Hg|exact Hk]. Qed.

Lemma connect_loose_frame fuel : forall sr g tgt, gframe sr (connect_loose fuel sr g tgt).
Proof.
  induction fuel as [|f IH]; intros sr g tgt; cbn; [apply gframe_refl|].
  assert (Hfold : forall X (h : X -> nat) (l : list X) s0, gframe s0 (fold_left (fun s' x => connect_loose f s' (h x) tgt) l s0)).
  { intros X h l. induction l as [|a r IHr]; intros s0; cbn; [apply gframe_refl|]. eapply gframe_trans; [apply IH|apply IHr]. }
  destruct (nth_error (s_groups sr) g) as [[k cls|ps [k|]|ms]|] eqn:Eg; try apply gframe_refl.
  - destruct (nth_error (s_nodes sr) k); [apply gframe_set_node; eapply grow_in; [exact Eg|left; reflexivity]|apply gframe_refl].
  - destruct (nth_error (s_nodes sr) k); [apply gframe_set_node; eapply grow_in; [exact Eg|left; reflexivity]|apply gframe_refl].
  - apply (Hfold _ fst).
  - apply (Hfold _ (fun m => m)).
Qed.

(* the clusters of reference nodes that no group names are left alone *)
Definition pframe (sr : st) (phi phi' : list (nat * option nat)) : Prop :=
  forall k0 c, k0 < length (s_nodes sr) -> ~ In k0 (flat_map grow_node (s_groups sr)) ->
               nth_error phi k0 = Some c -> nth_error phi' k0 = Some c.

Lemma pframe_refl sr phi : pframe sr phi phi.
Proof. intros k0 c _ _ H. exact H. Qed.

Lemma gframe_grow sr sr' k0 : gframe sr sr' -> k0 < length (s_nodes sr) ->
  ~ In k0 (flat_map grow_node (s_groups sr)) -> ~ In k0 (flat_map grow_node (s_groups sr')).
Proof. intros [F1 F2 F3 F4]. apply gframe_grow0; assumption. Qed.

Lemma pframe_trans sr sr' phi phi' phi'' : gframe sr sr' -> pframe sr phi phi' -> pframe sr' phi' phi'' -> pframe sr phi phi''.
Proof.
  intros Hf H1 H2 k0 c Hlt Hn Hc. apply H2; [destruct Hf; lia|eapply gframe_grow; eauto|apply H1; assumption].
Qed.

(* ---------------------------------------------------------------- add_exit *)
Lemma fold_left_none {X} (f : st -> X -> option st) l :
  fold_left (fun os x => match os with Some s' => f s' x | None => None end) l None = None.
Proof. induction l as [|a r IH]; cbn; [reflexivity|exact IH]. Qed.

Lemma add_exit_sim fuel : forall phi sr sc g c tgt dd sr' sc',
  Sim phi sr sc -> StOK fresh GP sc -> cond_ok c -> dest_sim phi (cuu sc) tgt dd ->
  add_exit nab fuel sr g c tgt = Some sr' -> cadd_exit fresh fuel sc g dd c = Ok sc' ->
  exists phi', Sim phi' sr' sc' /\ phi_le phi phi' /\ StOK fresh GP sc' /\ ext sc sc' /\ gframe sr sr' /\ pframe sr phi phi'.
Proof.
  induction fuel as [|f IH]; intros phi sr sc g c tgt dd sr' sc' Hsim Hst Hcn Hd Hr Hc; [discriminate|].
  destruct (cadd_exit_ok fresh GP fresh_inj (S f) sc g dd c sc' Hst (dest_sim_ok phi sc tgt dd Hd) Hc) as [Hst' Hext].
  assert (Hgoal : exists phi', Sim phi' sr' sc' /\ phi_le phi phi' /\ gframe sr sr' /\ pframe sr phi phi');
    [|destruct Hgoal as (phi' & H1 & H2 & H3 & H4); exists phi'; auto 10].
  cbn [add_exit cadd_exit] in Hr, Hc.
  pose proof (sim_groups _ _ _ Hsim) as Hg.
  destruct (nth_error (s_groups sr) g) as [x|] eqn:Ex; [|discriminate].
  destruct (Forall2_nth _ _ _ _ _ Hg Ex) as (y & Ey & Hxy). rewrite Ey in Hc.
  (* the parents of a no_op, one after the other *)
  assert (Hfold : forall (ps : list (nat * econd)) t0 d0 phi0 s0 c0 s1 c1,
             Forall (fun p => cond_ok (snd p)) ps -> Sim phi0 s0 c0 -> StOK fresh GP c0 -> dest_sim phi0 (cuu c0) t0 d0 ->
             fold_left (fun os p => match os with Some s' => add_exit nab f s' (fst p) (snd p) t0 | None => None end) ps (Some s0) = Some s1 ->
             foldM (fun s' p => cadd_exit fresh f s' (fst p) d0 (snd p)) ps c0 = Ok c1 ->
             exists phi', Sim phi' s1 c1 /\ phi_le phi0 phi' /\ StOK fresh GP c1 /\ ext c0 c1 /\ gframe s0 s1 /\ pframe s0 phi0 phi').
  { induction ps as [|p r IHr]; intros t0 d0 phi0 s0 c0 s1 c1 Hps Hs0 Ht0 Hd0; cbn.
    - intros H1 H2. injection H1 as <-. injection H2 as <-. exists phi0. split; [exact Hs0|]. split; [apply phi_le_refl|].
      split; [exact Ht0|]. split; [apply ext_refl|]. split; [apply gframe_refl|apply pframe_refl].
    - inversion Hps as [|? ? Hp Hr']; subst.
      destruct (add_exit nab f s0 (fst p) (snd p) t0) as [s2|] eqn:E1; [|rewrite fold_left_none; discriminate].
      destruct (cadd_exit fresh f c0 (fst p) d0 (snd p)) as [c2|e] eqn:E2; [|discriminate].
      intros H1 H2. destruct (IH phi0 s0 c0 (fst p) (snd p) t0 d0 s2 c2 Hs0 Ht0 Hp Hd0 E1 E2) as (phi2 & Hs2 & Hle2 & Ht2 & He2 & Hf2 & Hp2).
      destruct (IHr t0 d0 phi2 s2 c2 s1 c1 Hr' Hs2 Ht2) as (phi3 & Hs3 & Hle3 & Ht3 & He3 & Hf3 & Hp3); [|exact H1|exact H2|].
      + eapply dest_sim_mono; [exact Hle2|apply ext_grows, He2|exact Hd0].
      + exists phi3. split; [exact Hs3|]. split; [eapply phi_le_trans; eauto|]. split; [exact Ht3|].
        split; [eapply ext_trans; eauto|]. split; [eapply gframe_trans; eauto|eapply pframe_trans; eauto]. }
  destruct x as [k cls|ps [k|]|ms].
  - (* a row group *)
    apply group_sim_row_inv in Hxy as (c0 & rt & nd & -> & Hc0 & Hnd & Hcl).
    destruct (nth_error (s_nodes sr) k) as [n|] eqn:En; [|discriminate].
    destruct (apply_row_edge nab n cls c tgt) as [n'|] eqn:Ea; [|discriminate]. injection Hr as <-.
    destruct (row_edge_sim fresh GP fresh_inj fresh_not_sentinel phi sr sc g k cls n tgt dd c n' _ _ rt sc' Hsim Hst Ex Ey En Hcn Hd Ea Hc)
      as (phi' & H1 & H2 & H3). exists phi'. split; [exact H1|]. split; [exact H2|]. split; [apply gframe_set_node; eapply grow_in; [exact Ex|left; reflexivity]|].
    intros k0 c1 _ Hn0 Hc1. apply H3; [|exact Hc1]. intros ->. apply Hn0. apply in_flat_map. exists (GRow k cls).
    split; [eapply nth_error_In, Ex|left; reflexivity].
  - (* a no_op that has its decision node *)
    apply group_sim_noop_router_inv in Hxy as (k1 & ndq & rq & -> & Hps & Hk & Hnq & Hbq).
    destruct (nth_error (s_nodes sr) k) as [n|] eqn:En; [|discriminate].
    destruct (rn_dec n) as [d|] eqn:Ed; [|discriminate]. injection Hr as <-.
    exists phi. split; [|split; [apply phi_le_refl|split; [apply gframe_set_node; eapply grow_in; [exact Ex|left; reflexivity]|apply pframe_refl]]].
    eapply noop_edge_sim; eauto. eapply (sim_acts _ _ _ Hsim); eauto.
  - (* a no_op without decision node *)
    apply group_sim_noop_inv in Hxy as [-> Hps].
    destruct (cond_blank c).
    + destruct (Hfold ps tgt dd phi sr sc sr' sc' Hps Hsim Hst Hd Hr Hc) as (phi' & H1 & H2 & _ & _ & H3 & H4). exists phi'. auto.
    + destruct (c_variable c) as [|v0 v] eqn:Ev; [discriminate|].
      destruct (new_switch_node fresh (cs_next sc) [] (v0 :: v) None None) as [[nn' n1]|e] eqn:En; [|discriminate].
      (* the decision node on both sides *)
      pose proof En as En0.
      unfold new_switch_node in En. destruct (new_switch_parts fresh (cs_next sc) [] (v0 :: v) None None) as [[[[u gv] r0] n3]|e] eqn:Ep; [|discriminate].
      injection En as <- <-.
      assert (Hu : u = fresh (cs_next sc) /\ gv = false /\ new_switch fresh (S (S (cs_next sc))) (v0 :: v) None None = Ok (r0, n3)).
      { unfold new_switch_parts in Ep. cbn [node_uuid] in Ep.
        destruct (new_switch fresh (S (S (cs_next sc))) (v0 :: v) None None) as [[r0' n1']|x]; [|discriminate]. injection Ep as <- <- <- <-. auto. }
      destruct Hu as (-> & -> & Enew).
      set (nn := mkCNode (fresh (cs_next sc)) false [] (BSwitch SPlain r0)) in *.
      set (j := length (cs_nodes sc)) in *. set (kr := length (s_nodes sr)) in *.
      set (phi1 := phi ++ [(j, None)]). set (uu1 := cuu sc ++ [cn_uuid nn]).
      set (n0 := mkRNode [] (Some (fresh_dec (v0 :: v) WNone DNone)) DNone).
      pose proof (new_switch_dec_sim fresh fresh_inj phi1 uu1 _ _ None _ _ Enew (or_introl eq_refl)) as Hds0.
      assert (Hns0 : node_sim phi1 uu1 n0 nn None).
      { eapply NS_router with (cls := SPlain) (r := r0) (d := fresh_dec (v0 :: v) WNone DNone); cbn; eauto. split; [constructor|split; [reflexivity|exact I]]. }
      pose proof (Sim_noop_router phi sr sc g ps n0 nn n3 r0 Hsim Ex eq_refl eq_refl Hns0) as Hsim1.
      fold j kr phi1 in Hsim1.
      set (sr1 := RowSem.set_group (fst (RowSem.add_node sr n0)) g (GNoOp ps (Some kr))) in *.
      set (sc1 := set_cgroup (push_node sc nn n3) g (CGNoOp ps (Some j))) in *.
      assert (Hr1 : match fold_left (fun os p => match os with Some s' => add_exit nab f s' (fst p) (snd p) (DNode kr) | None => None end) ps (Some sr1) with
                    | Some s3 => match nth_error (s_nodes s3) kr with
                                 | Some n => match rn_dec n with
                                             | Some d => Some (RowSem.set_node s3 kr (mkRNode [] (Some (noop_case nab d c tgt)) DNone))
                                             | None => None end
                                 | None => None end
                    | None => None end = Some sr') by exact Hr.
      clear Hr.
      destruct (fold_left _ ps (Some sr1)) as [sr2|] eqn:Ef1; [|discriminate].
      destruct (foldM _ ps sc1) as [sc2|e] eqn:Ef2; [|discriminate].
      (* the store invariant of the compiled side after the allocation *)
      assert (Hst1 : StOK fresh GP sc1).
      { destruct (new_switch_node_ok fresh GP fresh_inj (cs_next sc) (uuids sc ++ [cn_uuid nn]) [] (v0 :: v) None None nn n3) as (N1 & N2 & _);
          [intros Hne; contradiction|exact En0|].
        apply StOK_set_cgroup. apply (push_StOK fresh GP fresh_inj sc nn n3 Hst N1 N2).
        destruct (new_switch_node_ids fresh fresh_inj (cs_next sc) [] (v0 :: v) None None nn n3 En0) as (_ & F). exact F. }
      assert (Hd1 : dest_sim phi1 (cuu sc1) (DNode kr) (Some (cn_uuid nn))).
      { cbn. split; [apply fresh_not_sentinel|]. exists (j, None). split.
        - unfold phi1, kr. rewrite <- (sim_len _ _ _ Hsim). apply nth_error_app2_same.
        - cbn. unfold cuu, sc1. cbn. rewrite map_app. cbn. unfold j. rewrite <- (map_length cn_uuid (cs_nodes sc)). apply nth_error_app2_same. }
      destruct (Hfold ps (DNode kr) (Some (cn_uuid nn)) phi1 sr1 sc1 sr2 sc2 Hps Hsim1 Hst1 Hd1 Ef1 Ef2) as (phi2 & Hs2 & Hle2 & Ht2 & He2 & Hf2 & Hp2).
      (* the edge itself *)
      destruct (nth_error (s_nodes sr2) kr) as [n2|] eqn:En2; [|discriminate].
      destruct (rn_dec n2) as [d2|] eqn:Ed2; [|discriminate]. injection Hr1 as <-.
      (* the group of the no_op is still there, with this decision node *)
      assert (Hg1 : nth_error (s_groups sr1) g = Some (GNoOp ps (Some kr))).
      { unfold sr1. cbn. eapply update_nth_same; eauto. }
      assert (Hg2 : nth_error (s_groups sr2) g = Some (GNoOp ps (Some kr))).
      { destruct (gf_groups _ _ Hf2 g _ Hg1) as [H|(ps' & k' & E & _)]; [exact H|discriminate]. }
      destruct (Forall2_nth _ _ _ _ _ (sim_groups _ _ _ Hs2) Hg2) as (y2 & Ey2 & Hxy2).
      apply group_sim_noop_router_inv in Hxy2 as (k1 & ndq & rq & -> & _ & Hk2 & Hnq & Hbq).
      assert (k1 = j).
      { destruct (Hle2 kr (j, None)) as (c2 & Hc2 & Ec2).
        - unfold phi1, kr. rewrite <- (sim_len _ _ _ Hsim). apply nth_error_app2_same.
        - rewrite Hk2 in Hc2. injection Hc2 as <-. exact Ec2. }
      subst k1.
      assert (Hf01 : gframe sr sr1).
      { constructor; cbn.
        - apply update_length.
        - rewrite app_length. lia.
        - intros g0 x0 Hx0. destruct (Nat.eq_dec g0 g) as [->|Hne].
          + right. assert (x0 = GNoOp ps None) by congruence. subst x0. exists ps, kr. split; [reflexivity|].
            split; [eapply update_nth_same; eauto|unfold kr; lia].
          + left. rewrite update_nth_other by exact Hne. exact Hx0.
        - intros k0 n1 Hk0 _. apply nth_error_app_l. exact Hk0. }
      exists phi2. split; [|split; [|split]].
      * eapply noop_edge_sim; eauto.
        -- eapply (sim_acts _ _ _ Hs2); eauto.
        -- eapply dest_sim_mono; [eapply phi_le_trans; [apply phi_le_app|exact Hle2]| |exact Hd].
           eapply grows_trans; [|apply ext_grows, He2]. unfold cuu, sc1. cbn. rewrite map_app. apply grows_app.
      * eapply phi_le_trans; [apply phi_le_app|exact Hle2].
      * eapply gframe_trans; [exact Hf01|eapply gframe_trans; [exact Hf2|apply gframe_set_node; eapply grow_in; [exact Hg2|left; reflexivity]]].
      * eapply (pframe_trans sr sr1 phi phi1 phi2 Hf01); [|exact Hp2].
        intros k0 c1 _ _ Hc1. unfold phi1. apply nth_error_app_l. exact Hc1.
  - (* a block *)
    apply group_sim_block_inv in Hxy as ->.
    destruct (negb (cond_blank c)); [discriminate|].
    rewrite <- (has_loose_sim f phi sr sc g Hsim) in Hc.
    destruct (negb (has_loose f sr g)); [discriminate|]. injection Hr as <-.
    exists phi.
    assert (Hb : forall (l : list nat) s0 c0 c1, Sim phi s0 c0 -> StOK fresh GP c0 -> dest_sim phi (cuu c0) tgt dd ->
              foldM (fun s' m => if chas_loose f s' m then cconnect_loose f s' m dd else Ok s') l c0 = Ok c1 ->
              Sim phi (fold_left (fun s' m => if has_loose f s' m then connect_loose f s' m tgt else s') l s0) c1
              /\ gframe s0 (fold_left (fun s' m => if has_loose f s' m then connect_loose f s' m tgt else s') l s0)).
    { induction l as [|m r IHr]; intros s0 c0 c1 Hs0 Ht0 Hd0; cbn.
      - intros H. injection H as <-. split; [exact Hs0|apply gframe_refl].
      - rewrite <- (has_loose_sim f phi s0 c0 m Hs0). destruct (has_loose f s0 m).
        + destruct (cconnect_loose f c0 m dd) as [c2|e] eqn:E; [|discriminate]. intros H.
          destruct (connect_loose_sim f phi s0 c0 m tgt dd c2 Hs0 Ht0 Hd0 E) as (Hs2 & Ht2 & He2).
          destruct (IHr _ c2 c1 Hs2 Ht2) as [H1 H2]; [|exact H|].
          * eapply dest_sim_mono; [apply phi_le_refl|apply ext_grows, He2|exact Hd0].
          * split; [exact H1|eapply gframe_trans; [apply connect_loose_frame|exact H2]].
        + intros H. apply (IHr _ _ _ Hs0 Ht0 Hd0 H). }
    destruct (Hb ms sr sc sc' Hsim Hst Hd Hc) as [H1 H2]. split; [exact H1|split; [apply phi_le_refl|split; [exact H2|apply pframe_refl]]].
Qed.
End Group.
End WithNames.
