(* E7/C02 — facts for the refinement, part 4: node groups.
   has_loose_exits, connect_loose_exits, entry_node and add_exit of the reference builder against those of the
   compiler model, by induction on the fuel both recursions share. *)
From Coq Require Import List NArith Bool Arith Lia.
From RPFT Require Import Base.Sexp Base.PyStr Base.PyStrFacts Base.Result Gen.Tables Flow.Lts Flow.Flow Flow.Closed
     Flow.RowSem Comp.Compile Comp.CompileFacts Comp.CompileIds Comp.CompileInv Comp.Refine Comp.RefineFacts Comp.RefineStore
     Comp.RefineEdge.
Import ListNotations.

(* ---------------------------------------------------------------- loose exits of a decision *)
Definition is_dnone (d : dest) : bool := match d with DNone => true | _ => false end.

Lemma dest_sim_loose phi uu d d' : dest_sim phi uu d d' -> is_dnone d = is_loose d'.
Proof. destruct d, d'; cbn; try contradiction; auto. Qed.

Lemma existsb_Forall2 {X Y} (P : X -> Y -> Prop) (p : X -> bool) (q : Y -> bool) l l' :
  Forall2 P l l' -> (forall x y, P x y -> p x = q y) -> existsb p l = existsb q l'.
Proof. intros H Hpq. induction H as [|a b l l' Hab _ IH]; cbn; [reflexivity|]. rewrite (Hpq _ _ Hab), IH. reflexivity. Qed.

Lemma existsb_ext' {X} (p q : X -> bool) l : (forall x, p x = q x) -> existsb p l = existsb q l.
Proof. intros H. induction l as [|a r IH]; cbn; [reflexivity|]. rewrite H, IH. reflexivity. Qed.

Lemma fold_left_map' {X Y Z} (f : Z -> Y -> Z) (g : X -> Y) l z : fold_left f (map g l) z = fold_left (fun a x => f a (g x)) l z.
Proof. revert z. induction l as [|a r IH]; intros z; cbn; [reflexivity|apply IH]. Qed.

Lemma existsb_map' {X Y} (f : X -> Y) (p : Y -> bool) l : existsb p (map f l) = existsb (fun x => p (f x)) l.
Proof. induction l as [|a r IH]; cbn; [reflexivity|]. rewrite IH. reflexivity. Qed.

Definition dec_loose (d : rdec) : bool :=
  existsb (fun cd => is_dnone (snd cd)) (rd_cats d) || is_dnone (snd (rd_default d))
  || match rd_noresp d with Some (_, x) => is_dnone x | None => false end.

Definition sw_loose (r : cswitch) : bool := existsb (fun e => is_loose (x_dest e)) (map cc_exit (sw_all_cats r)).

Lemma dec_loose_sim phi uu d r : dec_sim phi uu d r -> dec_loose d = sw_loose r.
Proof.
  intros [_ _ _ H4 H5 H6 _ _]. unfold dec_loose, sw_loose, sw_all_cats. rewrite map_app, existsb_app. cbn [map existsb].
  rewrite existsb_map'.
  rewrite (existsb_Forall2 _ (fun cd => is_dnone (snd cd)) (fun c => is_loose (x_dest (cc_exit c))) _ _ H5).
  2:{ intros x y [_ Hd]. eapply dest_sim_loose, Hd. }
  rewrite <- orb_assoc. f_equal. destruct H6 as [_ Hd]. unfold cat_dest in Hd. rewrite (dest_sim_loose _ _ _ _ Hd). f_equal.
  unfold wait_sim in H4. destruct (rd_wait d), (sw_wait r) as [| |t c]; try contradiction; try (rewrite H4; reflexivity).
  destruct H4 as (_ & [nm x] & -> & _ & Hx). cbn in *. unfold cat_dest in Hx. rewrite (dest_sim_loose _ _ _ _ Hx). rewrite orb_false_r. reflexivity.
Qed.

(* ---------------------------------------------------------------- connect_loose_exits on a decision *)
Definition dec_filled (d : rdec) (tgt : dest) : rdec :=
  mkDec (rd_random d) (rd_operand d) (rd_wait d) (rd_result d) (rd_cases d)
        (map (fun cd => (fst cd, fill (snd cd) tgt)) (rd_cats d))
        (fst (rd_default d), fill (snd (rd_default d)) tgt)
        (match rd_noresp d with Some (nm, x) => Some (nm, fill x tgt) | None => None end).

Definition sw_filled (r : cswitch) (dd : dst) : cswitch :=
  mkSwitch (sw_operand r) (sw_result r) (match sw_wait r with CWTimeout t c => CWTimeout t (fill_cat dd c) | w => w end)
           (sw_cases r) (map (fill_cat dd) (sw_cats r)) (fill_cat dd (sw_default r)).

Lemma cat_sim_fill phi uu x c tgt dd :
  cat_sim phi uu x c -> dest_sim phi uu tgt dd -> cat_sim phi uu (fst x, fill (snd x) tgt) (fill_cat dd c).
Proof.
  intros [Hn Hd] Ht. split; [exact Hn|]. cbn [snd]. unfold fill_cat, fill_exit, cat_dest in *. cbn.
  pose proof (dest_sim_loose _ _ _ _ Hd) as El. destruct (snd x); cbn in *; rewrite <- El; cbn; assumption.
Qed.

Lemma sw_filled_uuids r dd : map cc_uuid (sw_all_cats (sw_filled r dd)) = map cc_uuid (sw_all_cats r).
Proof.
  unfold sw_filled, sw_all_cats. cbn. rewrite !map_app, map_map. cbn. f_equal. f_equal. destruct (sw_wait r); reflexivity.
Qed.

Lemma dec_sim_fill phi uu d r tgt dd :
  dec_sim phi uu d r -> dest_sim phi uu tgt dd -> dec_sim phi uu (dec_filled d tgt) (sw_filled r dd).
Proof.
  intros [H1 H2 H3 H4 H5 H6 H7 H8] Ht. constructor.
  - exact H1.
  - exact H2.
  - exact H3.
  - unfold wait_sim in *. cbn. destruct (rd_wait d), (sw_wait r) as [| |t c]; try contradiction; try (rewrite H4; reflexivity).
    destruct H4 as (Et & [nm x] & Ex & Hx). split; [exact Et|]. rewrite Ex. exists (nm, fill x tgt). split; [reflexivity|].
    apply (cat_sim_fill phi uu (nm, x) c tgt dd Hx Ht).
  - cbn. clear - H5 Ht. induction H5 as [|a b l l' Hab _ IH]; cbn; constructor; [apply cat_sim_fill; assumption|exact IH].
  - cbn. apply cat_sim_fill; assumption.
  - rewrite sw_filled_uuids. exact H7.
  - rewrite sw_filled_uuids. exact H8.
Qed.

Lemma shape_filled cls d tgt : shape_ok cls d -> shape_ok cls (dec_filled d tgt).
Proof.
  destruct cls; cbn.
  - unfold plain_dec. cbn. rewrite map_length. auto.
  - intros (x & ->). cbn. eexists. reflexivity.
  - intros (x & ->). cbn. eexists. reflexivity.
Qed.

Lemma node_fill_switch nd cls r dd : cn_body nd = BSwitch cls r -> node_fill_loose nd dd = with_body nd (BSwitch cls (sw_filled r dd)).
Proof. intros E. unfold node_fill_loose. rewrite E. reflexivity. Qed.

Lemma node_has_loose_switch nd cls r : cn_body nd = BSwitch cls r -> node_has_loose nd = sw_loose r.
Proof. intros E. unfold node_has_loose, node_exits, sw_loose. rewrite E. reflexivity. Qed.

Section Group.
Variable fresh : nat -> id.
Variable GP : id -> Prop.
Hypothesis fresh_inj : forall a b, fresh a = fresh b -> a = b.
Hypothesis fresh_not_sentinel : forall k, fresh k <> hard_exit_sentinel.

(* the exit node of the cluster of a reference node: what has_loose_exits / connect_loose_exits look at *)
Lemma loose_at phi sr sc k n c0 :
  Sim phi sr sc -> nth_error (s_nodes sr) k = Some n -> nth_error phi k = Some c0 ->
  exists ndx, nth_error (cs_nodes sc) (router_idx c0) = Some ndx /\ node_loose n = node_has_loose ndx.
Proof.
  intros Hsim Hk Hc0. destruct (sim_nodes _ _ _ Hsim k n c0 Hk Hc0) as (nd & o & Hcn & Hns).
  unfold cluster_nodes, router_idx in *. destruct c0 as [a [j|]]; cbn in *.
  - destruct (nth_error (cs_nodes sc) a) as [x|]; [|discriminate]. destruct (nth_error (cs_nodes sc) j) as [nr|] eqn:Ej; [|discriminate].
    injection Hcn as <- <-. exists nr. split; [reflexivity|].
    inversion Hns as [| |? ? e nr' r d0 H1 H2 H3 H4 H5 H6 H7 H8 H9]; subst.
    unfold node_loose. rewrite H1. rewrite (node_has_loose_switch _ _ _ H6), <- (dec_loose_sim _ _ _ _ H8). reflexivity.
  - destruct (nth_error (cs_nodes sc) a) as [x|]; [|discriminate]. injection Hcn as <- <-. exists x. split; [reflexivity|].
    inversion Hns as [? ? e H1 H2 H3 H4|? ? cls r d0 H1 H2 H3 H4 H5|]; subst.
    + unfold node_loose, node_has_loose, node_exits. rewrite H1, H2. cbn. pose proof (dest_sim_loose _ _ _ _ H4) as El.
      unfold is_dnone in El. rewrite El, orb_false_r. reflexivity.
    + unfold node_loose. rewrite H1. rewrite (node_has_loose_switch _ _ _ H2), <- (dec_loose_sim _ _ _ _ H4). reflexivity.
Qed.

Lemma has_loose_sim fuel : forall phi sr sc g, Sim phi sr sc -> has_loose fuel sr g = chas_loose fuel sc g.
Proof.
  induction fuel as [|f IH]; intros phi sr sc g Hsim; cbn; [reflexivity|].
  pose proof (sim_groups _ _ _ Hsim) as Hg.
  destruct (nth_error (s_groups sr) g) as [x|] eqn:Ex.
  - destruct (Forall2_nth _ _ _ _ _ Hg Ex) as (y & Ey & Hxy). rewrite Ey.
    destruct Hxy as [k cls c0 rt nd Hk Hn Hcl|ps Hps|ps k k1 Hps Hk|ms].
    + rewrite row_exit_router. assert (Hlt : k < length (s_nodes sr)) by (rewrite <- (sim_len _ _ _ Hsim); apply nth_error_Some; congruence).
      destruct (nth_error (s_nodes sr) k) as [n|] eqn:En; [|apply nth_error_None in En; lia].
      destruct (loose_at phi sr sc k n c0 Hsim En Hk) as (ndx & -> & E). exact E.
    + apply existsb_ext'. intros p. apply (IH phi), Hsim.
    + assert (Hlt : k < length (s_nodes sr)) by (rewrite <- (sim_len _ _ _ Hsim); apply nth_error_Some; congruence).
      destruct (nth_error (s_nodes sr) k) as [n|] eqn:En; [|apply nth_error_None in En; lia].
      destruct (loose_at phi sr sc k n (k1, None) Hsim En Hk) as (ndx & E1 & E). cbn in E1. rewrite E1. exact E.
    + apply existsb_ext'. intros m. apply (IH phi), Hsim.
  - assert (nth_error (cs_groups sc) g = None) as ->; [|reflexivity].
    apply nth_error_None. rewrite <- (Forall2_length' _ _ _ Hg). apply nth_error_None, Ex.
Qed.

Lemma ext_grows sc sc' : ext sc sc' -> grows (cuu sc) (cuu sc').
Proof. intros H. destruct (ext_uuids _ _ H) as (x & E). exists x. exact E. Qed.

(* connect_loose_exits on the cluster of one reference node *)
Lemma connect_at phi sr sc k n c0 tgt dd sc' :
  Sim phi sr sc -> nth_error (s_nodes sr) k = Some n -> nth_error phi k = Some c0 -> dest_sim phi (cuu sc) tgt dd ->
  fill_node_at sc (router_idx c0) dd = Ok sc' -> Sim phi (RowSem.set_node sr k (connect_node n tgt)) sc'.
Proof.
  intros Hsim Hk Hc0 Hd. unfold fill_node_at.
  destruct (nth_error (cs_nodes sc) (router_idx c0)) as [ndx|] eqn:Ex; [|discriminate]. intros H. injection H as <-.
  destruct (sim_nodes _ _ _ Hsim k n c0 Hk Hc0) as (nd & o & Hcn & Hns).
  assert (Hview : (exists e, snd c0 = None /\ nd = ndx /\ cn_body nd = BBasic e /\ rn_dec n = None /\ map snd (cn_actions nd) = rn_actions n
                              /\ dest_sim phi (cuu sc) (rn_cont n) (x_dest e))
                  \/ (exists cls r d0, cn_body ndx = BSwitch cls r /\ rn_dec n = Some d0 /\ dec_sim phi (cuu sc) d0 r /\ shape_ok cls d0)).
  { unfold cluster_nodes, router_idx in *. destruct c0 as [a [j|]]; cbn in *.
    - destruct (nth_error (cs_nodes sc) a) as [x|]; [|discriminate]. rewrite Ex in Hcn. injection Hcn as <- <-.
      inversion Hns as [| |? ? e nr' r d0 H1 H2 H3 H4 H5 H6 H7 H8 H9]; subst. right. exists SPlain, r, d0. auto.
    - rewrite Ex in Hcn. injection Hcn as <- <-.
      inversion Hns as [? ? e H1 H2 H3 H4|? ? cls r d0 H1 H2 H3 H4 H5|]; subst; [left; exists e; auto 10|right; exists cls, r, d0; auto]. }
  destruct Hview as [(e & Ho & -> & Hb & Hdec & Hact & Hcont)|(cls & r & d0 & Hb & Hdec & Hds & Hsh)].
  - unfold connect_node. rewrite Hdec. eapply Sim_set; eauto.
    + apply (router_idx_in fresh fresh_inj).
    + unfold node_fill_loose. rewrite Hb. exact I.
    + intros nd2 o2 Hcn2. unfold cluster_nodes, router_idx in *. destruct c0 as [a [j|]]; cbn in *; [discriminate|].
      rewrite (update_nth_same _ _ _ _ Ex) in Hcn2. injection Hcn2 as <- <-.
      eapply NS_basic with (e := fill_exit dd e); cbn.
      * reflexivity.
      * unfold node_fill_loose. rewrite Hb. reflexivity.
      * exact Hact.
      * unfold fill_exit. pose proof (dest_sim_loose _ _ _ _ Hcont) as El. destruct (rn_cont n); cbn in *; rewrite <- El; cbn; assumption.
  - rewrite (node_fill_switch _ _ _ dd Hb).
    assert (Ecn : connect_node n tgt = mkRNode (rn_actions n) (Some (dec_filled d0 tgt)) (rn_cont n)) by (unfold connect_node; rewrite Hdec; reflexivity).
    rewrite Ecn. eapply (Sim_dec_update fresh fresh_inj); eauto; [apply dec_sim_fill; assumption|apply shape_filled; assumption].
Qed.

Lemma connect_loose_sim fuel : forall phi sr sc g tgt dd sc',
  Sim phi sr sc -> StOK fresh GP sc -> dest_sim phi (cuu sc) tgt dd ->
  cconnect_loose fuel sc g dd = Ok sc' ->
  Sim phi (connect_loose fuel sr g tgt) sc' /\ StOK fresh GP sc' /\ ext sc sc'.
Proof.
  induction fuel as [|f IH]; intros phi sr sc g tgt dd sc' Hsim Hst Hd Hc; [discriminate|].
  destruct (cconnect_loose_ok fresh GP fresh_inj (S f) sc g dd sc' Hst (dest_sim_ok phi sc tgt dd Hd) Hc) as [Hst' Hext].
  split; [|split; assumption]. cbn in Hc |- *.
  pose proof (sim_groups _ _ _ Hsim) as Hg.
  destruct (nth_error (s_groups sr) g) as [x|] eqn:Ex.
  2:{ assert (E : nth_error (cs_groups sc) g = None) by (apply nth_error_None; rewrite <- (Forall2_length' _ _ _ Hg); apply nth_error_None, Ex).
      rewrite E in Hc. discriminate. }
  destruct (Forall2_nth _ _ _ _ _ Hg Ex) as (y & Ey & Hxy). rewrite Ey in Hc.
  assert (Hfold : forall (ids : list nat) s0 c0 c1, Sim phi s0 c0 -> StOK fresh GP c0 -> dest_sim phi (cuu c0) tgt dd ->
            foldM (fun s' m => cconnect_loose f s' m dd) ids c0 = Ok c1 ->
            Sim phi (fold_left (fun s' m => connect_loose f s' m tgt) ids s0) c1).
  { induction ids as [|m r IHr]; intros s0 c0 c1 Hs0 Ht0 Hd0; cbn.
    - intros H. injection H as <-. exact Hs0.
    - destruct (cconnect_loose f c0 m dd) as [c2|e] eqn:E; [|discriminate]. intros H.
      destruct (IH phi s0 c0 m tgt dd c2 Hs0 Ht0 Hd0 E) as (Hs2 & Ht2 & He2).
      apply (IHr _ c2 c1 Hs2 Ht2); [|exact H]. eapply dest_sim_mono; [apply phi_le_refl|apply ext_grows, He2|exact Hd0]. }
  destruct Hxy as [k cls c0 rt nd Hk Hn Hcl|ps Hps|ps k k1 Hps Hk|ms].
  - rewrite row_exit_router in Hc.
    assert (Hlt : k < length (s_nodes sr)) by (rewrite <- (sim_len _ _ _ Hsim); apply nth_error_Some; congruence).
    destruct (nth_error (s_nodes sr) k) as [n|] eqn:En; [|apply nth_error_None in En; lia].
    eapply connect_at; eauto.
  - (* a no_op without router: its parents *)
    assert (E : fold_left (fun s' (p : nat * econd) => connect_loose f s' (fst p) tgt) ps sr
                = fold_left (fun s' m => connect_loose f s' m tgt) (map fst ps) sr) by (rewrite fold_left_map'; reflexivity).
    rewrite E. apply (Hfold (map fst ps) sr sc sc' Hsim Hst Hd).
    clear - Hc. revert sc Hc. induction ps as [|p r IHr]; intros sc Hc; cbn in *; [exact Hc|].
    destruct (cconnect_loose f sc (fst p) dd); [apply IHr, Hc|discriminate].
  - assert (Hlt : k < length (s_nodes sr)) by (rewrite <- (sim_len _ _ _ Hsim); apply nth_error_Some; congruence).
    destruct (nth_error (s_nodes sr) k) as [n|] eqn:En; [|apply nth_error_None in En; lia].
    eapply (connect_at phi sr sc k n (k1, None)); eauto.
  - apply (Hfold ms sr sc sc' Hsim Hst Hd Hc).
Qed.

(* entry_node *)
Lemma entry_sim fuel : forall phi sr sc g k k1,
  Sim phi sr sc -> entry_node fuel sr g = Some k -> centry fuel sc g = Ok k1 ->
  exists c, nth_error phi k = Some c /\ fst c = k1.
Proof.
  induction fuel as [|f IH]; intros phi sr sc g k k1 Hsim; cbn; [discriminate|].
  pose proof (sim_groups _ _ _ Hsim) as Hg.
  destruct (nth_error (s_groups sr) g) as [x|] eqn:Ex; [|discriminate].
  destruct (Forall2_nth _ _ _ _ _ Hg Ex) as (y & Ey & Hxy). rewrite Ey.
  destruct Hxy as [k0 cls c0 rt nd Hk Hn Hcl|ps Hps|ps k0 k1' Hps Hk|ms]; try discriminate.
  - intros H1 H2. injection H1 as <-. injection H2 as <-. exists c0. auto.
  - destruct ms as [|m ms']; [discriminate|]. apply IH, Hsim.
Qed.
End Group.
