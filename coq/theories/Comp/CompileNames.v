(* E7 - the names the compiler invents (SwitchRouter.generate_category_name, RandomRouter.add_choice) against the
   names that are taken, for EVERY state of the router - whatever edges were applied before, in whatever order, and
   whatever the sheet called its own categories ("Other", "No Response", "Yes_alt", ...):

   - generate_category_name always terminates with a name (the fuel of alt_loop, one step per taken name plus one, is
     enough: pigeon-hole on the candidates nm, nm_alt, nm_alt_alt, ...) and the name is the name of NO category of
     the router - ordinary categories, the default category, the No Response category alike (gen_cat_name_fresh);
   - hence a test the sheet leaves unnamed, when it is not a re-targeting of an existing test, gets a category OF ITS
     OWN: sw_add_choice appends one category (uuid: the next draw; destination: the edge's) and one case that points
     to it, and leaves every other category - their names, their exits, the default, the timeout branch - as it was
     (add_choice_unnamed_own_category).  This is what the seeded defect C02-w4 broke (uniqueness checked against
     self.categories only: a value "other" took over the default category);
   - RandomRouter.add_choice does NOT have the property: the name "Bucket <number of buckets + 2>" it invents is not
     kept apart from the names that are taken, and a bucket of that name is re-targeted instead (finding
     bucket-name-clash; rr_unnamed_bucket_refuted, with the witness the harness replays on the implementation); it
     holds when no bucket has that name (rr_unnamed_bucket_own_category). *)
From Coq Require Import List NArith Bool Arith Lia FinFun.
From RPFT Require Import Base.Sexp Base.PyStr Base.PyStrFacts Base.Result Gen.Tables Flow.Lts Flow.Flow Flow.Closed Flow.RowSem Comp.Compile.
Import ListNotations.

(* ---------------------------------------------------------------- the candidates of alt_loop *)
Fixpoint alts_n (k : nat) : str := match k with O => [] | S k' => s_alt ++ alts_n k' end.

Lemma alts_n_length k : length (alts_n k) = 4 * k.
Proof. induction k as [|k IH]; [reflexivity|]. cbn [alts_n]. rewrite app_length, IH. cbn [s_alt length]. lia. Qed.

Lemma alt_loop_err fuel names nm0 e :
  alt_loop fuel names nm0 = Err e -> forall k, k < fuel -> memb (nm0 ++ alts_n k) names = true.
Proof.
  revert nm0. induction fuel as [|f IH]; intros nm0 H k Hk; [lia|].
  cbn [alt_loop] in H. destruct (memb nm0 names) eqn:E; [|discriminate].
  destruct k as [|k].
  - cbn [alts_n]. rewrite app_nil_r. exact E.
  - cbn [alts_n]. rewrite app_assoc. apply (IH _ H). lia.
Qed.

Lemma memb_In (u : str) l : memb u l = true -> In u l.
Proof.
  unfold memb. intros H. apply existsb_exists in H as (x & Hx & Hq). apply str_eqb_eq in Hq. subst. exact Hx.
Qed.

Lemma cands_NoDup (nm0 : str) n : NoDup (map (fun k => nm0 ++ alts_n k) (seq 0 n)).
Proof.
  apply Injective_map_NoDup; [|apply seq_NoDup].
  intros a b H. apply (f_equal (@length _)) in H. rewrite !app_length, !alts_n_length in H. lia.
Qed.

(* the fuel generate_category_name is given is enough: it never runs out *)
Lemma alt_loop_total names nm0 : exists nm, alt_loop (S (length names)) names nm0 = Ok nm.
Proof.
  destruct (alt_loop (S (length names)) names nm0) as [nm|e] eqn:E; [exists nm; reflexivity|].
  exfalso.
  pose proof (alt_loop_err _ _ _ _ E) as H.
  assert (Hi : incl (map (fun k => nm0 ++ alts_n k) (seq 0 (S (length names)))) names).
  { intros x Hx. apply in_map_iff in Hx as (k & <- & Hk). apply in_seq in Hk. destruct Hk as [_ Hk]. apply memb_In, H. exact Hk. }
  pose proof (NoDup_incl_length (cands_NoDup nm0 (S (length names))) Hi) as L.
  rewrite map_length, seq_length in L. exact (Nat.nle_succ_diag_l _ L).
Qed.

Lemma alt_loop_not_taken fuel names nm0 nm : alt_loop fuel names nm0 = Ok nm -> memb nm names = false.
Proof.
  revert nm0. induction fuel as [|f IH]; intros nm0; cbn [alt_loop]; [discriminate|].
  destruct (memb nm0 names) eqn:E; [apply IH|]. intros H. injection H as <-. exact E.
Qed.

(* generate_category_name: always a name, and one that no category in `names` has *)
Lemma gen_cat_name_fresh names args : exists nm, gen_cat_name names args = Ok nm /\ memb nm names = false.
Proof.
  unfold gen_cat_name. destruct (alt_loop_total names (join_char 95%N (map (fun a => title (arg_text a)) args))) as (nm & E).
  exists nm. split; [exact E|]. exact (alt_loop_not_taken _ _ _ _ E).
Qed.

Lemma find_name_is_none nm (l : list ccat) : memb nm (map cc_name l) = false -> find (name_is nm) l = None.
Proof.
  induction l as [|c r IH]; cbn [map find]; [reflexivity|]. unfold memb. cbn [existsb]. intros H.
  apply orb_false_iff in H as [H1 H2]. unfold name_is at 1.
  destruct (str_eqb (cc_name c) nm) eqn:E.
  - apply str_eqb_eq in E. subst. rewrite str_eqb_refl in H1. discriminate.
  - apply IH, H2.
Qed.

(* ---------------------------------------------------------------- SwitchRouter.add_choice, unnamed test *)
Lemma sw_set_operand_cases r v : sw_cases (sw_set_operand r v) = sw_cases r.
Proof. destruct v; reflexivity. Qed.
Lemma sw_set_operand_cats r v : sw_cats (sw_set_operand r v) = sw_cats r.
Proof. destruct v; reflexivity. Qed.
Lemma sw_set_operand_default r v : sw_default (sw_set_operand r v) = sw_default r.
Proof. destruct v; reflexivity. Qed.
Lemma sw_set_operand_wait r v : sw_wait (sw_set_operand r v) = sw_wait r.
Proof. destruct v; reflexivity. Qed.
Lemma sw_set_operand_all_cats r v : sw_all_cats (sw_set_operand r v) = sw_all_cats r.
Proof. destruct v; reflexivity. Qed.

Section Unnamed.
Variable fresh : nat -> id.

(* A test the sheet leaves unnamed (blank condition_name) that is not already a test of the router: whatever the
   router holds - any number of categories with any names, a default category, a No Response category - the test
   gets a NEW category, whose name no category of the router has, whose uuid is the next draw and whose exit leads
   where the edge says; one case is appended and points to it; the categories that were there, the default category
   and the wait (with its No Response category) are untouched. *)
Lemma add_choice_unnamed_own_category n (r : cswitch) variable ty args d r' n' :
  find (fun k => str_eqb (ck_type k) ty && ostr_list_eqb (ck_args k) args) (sw_cases r) = None ->
  sw_add_choice fresh n r variable ty args [] d false = Ok (r', n') ->
  exists c k,
    sw_cats r' = sw_cats r ++ [c] /\ sw_cases r' = sw_cases r ++ [k] /\
    sw_default r' = sw_default r /\ sw_wait r' = sw_wait r /\
    cc_uuid c = fresh n /\ ck_cat k = cc_uuid c /\ cat_dest c = d /\
    memb (cc_name c) (map cc_name (sw_all_cats r)) = false.
Proof.
  intros Hf H. unfold sw_add_choice in H. rewrite sw_set_operand_cases, Hf in H.
  rewrite sw_set_operand_all_cats in H.
  destruct (gen_cat_name_fresh (map cc_name (sw_all_cats r)) args) as (nm & Eg & Hnm).
  rewrite Eg in H. cbn [negb] in H. rewrite andb_false_r in H.
  rewrite sw_set_operand_all_cats, (find_name_is_none _ _ Hnm) in H.
  unfold new_cat in H. destruct (Nat.ltb cat_name_limit (length nm)); [discriminate|].
  cbn [cc_uuid] in H.
  unfold new_case in H. destruct (negb (memb ty known_tests)); [discriminate|].
  injection H as <- <-.
  eexists _, _. cbn [sw_mark_auto sw_add_case sw_add_cat sw_cats sw_cases sw_default sw_wait cc_uuid ck_cat cc_name cat_dest cc_exit x_dest].
  rewrite sw_set_operand_cats, sw_set_operand_cases, sw_set_operand_default, sw_set_operand_wait.
  repeat split; try reflexivity. exact Hnm.
Qed.

(* ---------------------------------------------------------------- RandomRouter.add_choice, unnamed bucket *)
Definition bucket_auto_name (r : crandom) : str := s_Bucket ++ dec_nat (length (rr_cats r) + 2).

(* when no bucket has the name the tool is about to invent, the unnamed bucket is a new one *)
Lemma rr_unnamed_bucket_own_category n (r : crandom) d r' n' :
  existsb (name_is (bucket_auto_name r)) (rr_cats r) = false ->
  rr_add_choice fresh n r [] d = Ok (r', n') ->
  exists c, rr_cats r' = rr_cats r ++ [c] /\ cc_uuid c = fresh n /\ cat_dest c = d /\ cc_name c = bucket_auto_name r.
Proof.
  intros Hn H. unfold rr_add_choice in H. fold (bucket_auto_name r) in H. rewrite Hn in H.
  unfold new_cat in H. destruct (Nat.ltb cat_name_limit (length (bucket_auto_name r))); [discriminate|].
  injection H as <- <-. eexists. cbn [rr_cats cc_uuid cat_dest cc_exit x_dest cc_name]. repeat split; reflexivity.
Qed.
End Unnamed.

(* ... and when one has, it is NOT: split_random; "Bucket 3" -> A; (blank) -> B.  The second edge re-targets the
   first bucket; the router still has one bucket, which now leads to B. *)
Definition wfresh : nat -> id := std_fresh.      (* the supply the extracted model runs with *)
Definition ex_bucket3 : crandom :=
  mkRandom None [mkCCat (wfresh 0) (s_Bucket ++ [51%N]) (mkCExit (wfresh 1) (Some [65%N]))].

Lemma rr_unnamed_bucket_refuted :
  ~ (forall fresh n (r : crandom) d r' n',
        rr_add_choice fresh n r [] d = Ok (r', n') -> exists c, rr_cats r' = rr_cats r ++ [c] /\ cat_dest c = d).
Proof.
  intros H.
  assert (E : rr_add_choice wfresh 2 ex_bucket3 [] (Some [66%N])
              = Ok (mkRandom None [mkCCat (wfresh 0) (s_Bucket ++ [51%N]) (mkCExit (wfresh 1) (Some [66%N]))], 2)) by (vm_compute; reflexivity).
  destruct (H _ _ _ _ _ _ E) as (c & Hc & _). cbn [rr_cats ex_bucket3] in Hc.
  apply (f_equal (@length _)) in Hc. rewrite app_length in Hc. cbn [length] in Hc. lia.
Qed.

(* the statement is not vacuous: a router that already has categories called Other (the default), No Response, and -
   by the sheet's own choice - "Other_alt", gets the unnamed test for "other" under a fourth name *)
Definition ex_switch_other : cswitch :=
  mkSwitch s_input_text None (CWTimeout 60%N (mkCCat (wfresh 2) s_NoResponse (mkCExit (wfresh 3) None))) []
           [mkCCat (wfresh 4) (s_Other ++ s_alt) (mkCExit (wfresh 5) (Some [65%N]))]
           (mkCCat (wfresh 0) s_Other (mkCExit (wfresh 1) (Some [66%N]))) [].

Lemma add_choice_unnamed_nonvacuous :
  match sw_add_choice wfresh 6 ex_switch_other [] s_has_any_word [Some [111;116;104;101;114]%N] [] (Some [67%N]) false with
  | Ok (r', _) => map cc_name (sw_all_cats r') = [s_Other ++ s_alt; s_Other ++ s_alt ++ s_alt; s_Other; s_NoResponse]
                  /\ map cat_dest (sw_all_cats r') = [Some [65%N]; Some [67%N]; Some [66%N]; None]
  | Err _ => False
  end.
Proof. vm_compute. split; reflexivity. Qed.
