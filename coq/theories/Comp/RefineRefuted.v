(* E7/C02 — where the compiled flow does NOT mean what the rows say: witnesses.
   For each sheet: the model compiles it, the reference gives it a meaning, and a concrete input/outcome sequence
   (a trace of the reference flow, built by Flow/Refute.v: walk) is matched by NO trace of the compiled flow
   (Flow/Refute.v: runs_nil) - up to the same label matching the refinement theorem uses. *)
From Coq Require Import List NArith Bool Arith Lia.
From RPFT Require Import Base.Sexp Base.PyStr Base.SexpEq Base.Result Gen.Tables Flow.Lts Flow.Refute Flow.Flow Flow.FlowFacts Flow.RowSem
     Comp.Compile Comp.CompileExamples Comp.CompileExampleFacts Comp.Refine.
Import ListNotations.

Definition not_refined (rows : list crow) : Prop :=
  exists f ref t, compile std_fresh ex_name rows = Ok f /\ rowsem nab (map cr_row rows) = Some ref
                  /\ traces ref t /\ forall t', traces f t' -> ~ Forall2 (ematch sexp smatch) t t'.

(* the trace of the reference that takes the given branches, and the refutation by computation *)
Ltac refute_by choices :=
  match goal with
  | |- not_refined ?rows =>
    let c := eval vm_compute in (compile std_fresh ex_name rows) in
    let r := eval vm_compute in (rowsem nab (map cr_row rows)) in
    match c with Ok ?f => match r with Some ?g =>
      exists f, g, (walk sexp state (lts_of_flow g) 40 init_state choices);
      split; [vm_compute; reflexivity|split; [vm_compute; reflexivity|split; [apply walk_exec|]]];
      apply (runs_nil sexp smatch state (lts_of_flow f) (S (length (f_nodes f)))); vm_compute; reflexivity
    end end
  end.

(* Decided for the code of this run (Gen/Tables.v: explicit_names_claimed, probed): on a tree where an explicit category name
   is looked up among ALL categories of the router the three sheets below are NOT refined; on a tree where an explicit name
   claims its name (the repair of the finding category-name-clash) the first compiles to a flow the verified checker accepts
   against the reference and the other two are refused (ECatNameTaken). *)
Definition accepted (rows : list crow) : Prop :=
  exists f ref, compile std_fresh ex_name rows = Ok f /\ rowsem nab (map cr_row rows) = Some ref
                /\ sim_check smatch ref f = true /\ sim_check (fun a b => smatch b a) f ref = true.

Ltac decide_clash choices :=
  destruct explicit_names_claimed eqn:Eflag;
  first [ exfalso; vm_compute in Eflag; discriminate Eflag
        | refute_by choices
        | reflexivity
        | match goal with
          | |- accepted ?rows =>
            let c := eval vm_compute in (compile std_fresh ex_name rows) in
            let r := eval vm_compute in (rowsem nab (map cr_row rows)) in
            match c with Ok ?f => match r with Some ?g =>
              exists f, g; split; [vm_compute; reflexivity|split; [vm_compute; reflexivity|split; vm_compute; reflexivity]] end end
          end ].

(* a category named like the category the compiler invented for an earlier test ("yes" -> "Yes"): the reply "yes"
   leads to message A by the rows, to message B in the compiled flow *)
Theorem clash_generated_name_decided : if explicit_names_claimed then accepted ex_clash_gen else not_refined ex_clash_gen.
Proof. decide_clash [0]. Qed.

(* a category named like the default category ("Other"): any other reply leads to A by the rows, to B when compiled *)
Theorem clash_default_name_decided :
  if explicit_names_claimed then compile std_fresh ex_name ex_clash_other = Err ECatNameTaken else not_refined ex_clash_other.
Proof. decide_clash [1]. Qed.

(* a category named like the No Response category: the timeout leads to A by the rows, to B when compiled *)
Theorem clash_no_response_name_decided :
  if explicit_names_claimed then compile std_fresh ex_name ex_clash_noresp = Err ECatNameTaken else not_refined ex_clash_noresp.
Proof. decide_clash [2]. Qed.
