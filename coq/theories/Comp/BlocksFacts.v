(* Facts about the block mechanics (Comp/Blocks.v), for every sheet, context and fuel:
   1. ctx_preserved          with the shadowed bindings put back (ScopeRestore) every call of
                             _parse_block — hence every loop — returns with exactly the context it
                             was entered with: loop and index variables are lexically scoped
   2. omit_is_inert          a block read with omit_content instantiates nothing, hands no row to
                             _parse_row, registers no group
   3. empty_loop_pass_through  a begin_for over zero elements (EmptySkip) is its skipped body
                             followed by the registration of an empty group under the head's id
   4. pop_loses_binding      the witness that recorded the defect: under ScopePop the same sheet
                             loses the outer binding (kept: it shows that 1 needs ScopeRestore) *)
From Coq Require Import List NArith Bool Arith Lia.
From RPFT Require Import Base.Sexp Base.PyStr Base.PyStrFacts Gen.Tables Comp.Blocks.
Import ListNotations.

(* ------------------------------------------------------------------ the dict operations *)
Lemma cset_same c x v : cget c x = Some v -> cset c x v = c.
Proof.
  induction c as [|[k w] r IH]; cbn [cget cset]; intros H; [discriminate|].
  destruct (str_eqb k x) eqn:E.
  - inversion H; subst. reflexivity.
  - rewrite (IH H). reflexivity.
Qed.

Lemma cset_cset c x a b : cset (cset c x a) x b = cset c x b.
Proof.
  induction c as [|[k w] r IH]; cbn [cset].
  - rewrite str_eqb_refl. reflexivity.
  - destruct (str_eqb k x) eqn:E; cbn [cset]; rewrite E; [reflexivity|]. rewrite IH. reflexivity.
Qed.

Lemma cget_cset_same c x a : cget (cset c x a) x = Some a.
Proof.
  induction c as [|[k w] r IH]; cbn [cset cget].
  - rewrite str_eqb_refl. reflexivity.
  - destruct (str_eqb k x) eqn:E; cbn [cget]; rewrite E; [reflexivity|exact IH].
Qed.

Lemma cget_cset_other c x y a : x <> y -> cget (cset c x a) y = cget c y.
Proof.
  intros Hn. induction c as [|[k w] r IH]; cbn [cset cget].
  - rewrite (str_eqb_neq _ _ Hn). reflexivity.
  - destruct (str_eqb k x) eqn:E; cbn [cget].
    + apply str_eqb_eq in E. subst k. rewrite (str_eqb_neq _ _ Hn). reflexivity.
    + rewrite IH. reflexivity.
Qed.

Lemma cpop_absent c x : cget c x = None -> cpop c x = None.
Proof.
  induction c as [|[k w] r IH]; cbn [cget cpop]; intros H; [reflexivity|].
  destruct (str_eqb k x); [discriminate|]. rewrite (IH H). reflexivity.
Qed.

Lemma cpop_cset_fresh c x a : cget c x = None -> cpop (cset c x a) x = Some c.
Proof.
  induction c as [|[k w] r IH]; cbn [cget cset cpop]; intros H.
  - rewrite str_eqb_refl. reflexivity.
  - destruct (str_eqb k x) eqn:E; [discriminate|]. cbn [cpop]. rewrite E, (IH H). reflexivity.
Qed.

(* updating a key that is present commutes with setting another key *)
Lemma cset_swap_present c x y a b v :
  x <> y -> cget c x = Some v -> cset (cset c y b) x a = cset (cset c x a) y b.
Proof.
  intros Hn. induction c as [|[k w] r IH]; cbn [cget cset]; intros H; [discriminate|].
  destruct (str_eqb k x) eqn:Ex.
  - apply str_eqb_eq in Ex. subst k. rewrite (str_eqb_neq _ _ Hn). cbn [cset].
    rewrite str_eqb_refl, (str_eqb_neq _ _ Hn). reflexivity.
  - destruct (str_eqb k y) eqn:Ey; cbn [cset]; rewrite Ex, ?Ey; [reflexivity|].
    rewrite (IH H). reflexivity.
Qed.

(* a fresh key, then another key, then the fresh key popped *)
Lemma cpop_cset2_fresh c x y a b :
  x <> y -> cget c x = None -> cpop (cset (cset c x a) y b) x = Some (cset c y b).
Proof.
  intros Hn. assert (Hn' : y <> x) by (intros ->; apply Hn; reflexivity).
  induction c as [|[k w] r IH]; cbn [cget cset cpop]; intros H.
  - rewrite (str_eqb_neq _ _ Hn). cbn [cpop]. rewrite str_eqb_refl. reflexivity.
  - destruct (str_eqb k x) eqn:Ex; [discriminate|].
    cbn [cset]. destruct (str_eqb k y) eqn:Ey; cbn [cpop]; rewrite Ex.
    + rewrite (cpop_cset_fresh r x a H). reflexivity.
    + rewrite (IH H). reflexivity.
Qed.

(* ------------------------------------------------------------------ binding / restoring the loop variables *)
Lemma bind_loop_twice c x idx e n e' n' :
  bind_loop (bind_loop c x idx e n) x idx e' n' = bind_loop c x idx e' n'.
Proof.
  unfold bind_loop. destruct idx as [i|]; [|apply cset_cset].
  destruct (str_eqb x i) eqn:E.
  - apply str_eqb_eq in E. subst i. rewrite !cset_cset. reflexivity.
  - assert (Hn : x <> i) by (intros ->; rewrite str_eqb_refl in E; discriminate).
    rewrite (cset_swap_present (cset c x (VS e)) x i (VS e') (VS (enc_dec n)) (VS e) Hn (cget_cset_same _ _ _)).
    rewrite !cset_cset. reflexivity.
Qed.

(* the two removals after end_for, as the model performs them *)
Definition restore_loop (tol : bool) (c : ctx) (x : str) (idx : option str) (sx si : option value) : option ctx :=
  match crestore tol c x sx with
  | None => None
  | Some c1 => match idx with None => Some c1 | Some i => crestore tol c1 i si end
  end.

Definition saved_idx (c : ctx) (idx : option str) : option value :=
  match idx with Some i => cget c i | None => None end.

Lemma crestore_unbound tol c x c' : crestore tol c x (cget c x) = Some c' -> c' = c.
Proof.
  unfold crestore. destruct (cget c x) as [v|] eqn:E.
  - intros H. inversion H; subst. apply cset_same. exact E.
  - rewrite (cpop_absent _ _ E). destruct tol; intros H; inversion H; reflexivity.
Qed.

(* no iteration ran: the context is still the outer one *)
Lemma restore_loop_unbound tol c x idx c' :
  restore_loop tol c x idx (cget c x) (saved_idx c idx) = Some c' -> c' = c.
Proof.
  unfold restore_loop. destruct (crestore tol c x (cget c x)) as [c1|] eqn:E1; [|discriminate].
  apply crestore_unbound in E1. subst c1.
  destruct idx as [i|]; cbn [saved_idx]; intros H.
  - apply crestore_unbound in H. exact H.
  - inversion H; reflexivity.
Qed.

(* after the last iteration: the loop (and index) variable are bound *)
Lemma restore_loop_bound tol c x idx e n c' :
  restore_loop tol (bind_loop c x idx e n) x idx (cget c x) (saved_idx c idx) = Some c' -> c' = c.
Proof.
  unfold restore_loop, bind_loop. destruct idx as [i|]; cbn [saved_idx].
  - destruct (str_eqb x i) eqn:E.
    + (* `x;x`: one name, bound twice, restored twice *)
      apply str_eqb_eq in E. subst i. rewrite cset_cset.
      destruct (cget c x) as [v|] eqn:Ex; unfold crestore.
      * rewrite !cset_cset. intros H. inversion H; subst. apply cset_same. exact Ex.
      * rewrite (cpop_cset_fresh _ _ _ Ex), (cpop_absent _ _ Ex).
        destruct tol; intros H; inversion H; reflexivity.
    + assert (Hn : x <> i) by (intros ->; rewrite str_eqb_refl in E; discriminate).
      destruct (cget c x) as [v|] eqn:Ex; unfold crestore.
      * rewrite (cset_swap_present (cset c x (VS e)) x i v (VS (enc_dec n)) (VS e) Hn (cget_cset_same _ _ _)).
        rewrite cset_cset, (cset_same _ _ _ Ex).
        destruct (cget c i) as [w|] eqn:Ei.
        -- rewrite cset_cset. intros H. inversion H; subst. apply cset_same. exact Ei.
        -- rewrite (cpop_cset_fresh _ _ _ Ei). intros H. inversion H; reflexivity.
      * rewrite (cpop_cset2_fresh c x i (VS e) (VS (enc_dec n)) Hn Ex).
        destruct (cget c i) as [w|] eqn:Ei.
        -- rewrite cset_cset. intros H. inversion H; subst. apply cset_same. exact Ei.
        -- rewrite (cpop_cset_fresh _ _ _ Ei). intros H. inversion H; reflexivity.
  - unfold crestore. destruct (cget c x) as [v|] eqn:Ex.
    + rewrite cset_cset. intros H. inversion H; subst. apply cset_same. exact Ex.
    + rewrite (cpop_cset_fresh _ _ _ Ex). intros H. inversion H; reflexivity.
Qed.

(* ------------------------------------------------------------------ 1. lexical scope *)
Section Scoped.
Variable pol : undefined_policy.
Variable emp : empty_loop.
Variable tol : bool.
Variable rows : list raw.

Lemma next_row_ctx s omit s1 orow : next_row pol rows s omit = ROk (s1, orow) -> p_ctx s1 = p_ctx s.
Proof.
  unfold next_row. destruct (nth_error rows (p_pos s)) as [r|].
  - destruct omit.
    + intros H. inversion H; reflexivity.
    + destruct (instantiate pol (p_ctx s) r); intros H; inversion H; reflexivity.
  - intros H. inversion H; reflexivity.
Qed.

(* the iterations of one loop: if every body returns with the context it was given, the loop
   ends either untouched (no element) or with the variables of its last element bound *)
Lemma loop_iter_ctx (body : pst -> res pst) bookmark x idx c :
  (forall st st', body st = ROk st' -> p_ctx st' = p_ctx st) ->
  forall elems n st st',
    (p_ctx st = c \/ exists e m, p_ctx st = bind_loop c x idx e m) ->
    loop_iter body bookmark x idx elems n st = ROk st' ->
    (p_ctx st' = c \/ exists e m, p_ctx st' = bind_loop c x idx e m).
Proof.
  intros Hbody. induction elems as [|e more IH]; intros n st st' Hinv H; cbn [loop_iter] in H.
  - inversion H; subst. exact Hinv.
  - destruct (body (mkP bookmark (bind_loop (p_ctx st) x idx e n) (EvEnter BFor false :: p_log st))) as [st1|] eqn:Eb; [|discriminate].
    apply Hbody in Eb. cbn [p_ctx] in Eb.
    refine (IH _ _ _ _ H). right.
    destruct Hinv as [Hc|[e0 [m0 Hc]]]; rewrite Eb, Hc; [exists e, n; reflexivity|].
    exists e, n. apply bind_loop_twice.
Qed.

Lemma loop_iter_nil (body : pst -> res pst) bookmark x idx n st :
  loop_iter body bookmark x idx [] n st = ROk st.
Proof. reflexivity. Qed.

Theorem ctx_preserved : forall fuel s bt omit s',
  parse_block pol ScopeRestore emp tol rows fuel s bt omit = ROk s' -> p_ctx s' = p_ctx s.
Proof.
  induction fuel as [|f IH]; intros s bt omit s' H; cbn [parse_block] in H; [discriminate|].
  destruct (next_row pol rows s omit) as [[s1 orow]|] eqn:En; [|discriminate].
  pose proof (next_row_ctx _ _ _ _ En) as Hc1.
  destruct (end_of_block bt (option_map i_kind orow)) as [[|]|]; [|  |discriminate].
  { inversion H; subst. exact Hc1. }
  destruct orow as [row|]; [|discriminate].
  destruct (omit || negb (i_inc row)).
  - (* skipped *)
    destruct (i_kind row).
    + destruct (parse_block pol ScopeRestore emp tol rows f (log s1 (EvEnter BFor true)) BFor true) as [s2|] eqn:E2; [|discriminate].
      apply IH in E2. apply IH in H. cbn [log p_ctx] in E2. congruence.
    + apply IH in H. congruence.
    + destruct (parse_block pol ScopeRestore emp tol rows f (log s1 (EvEnter BBlock true)) BBlock true) as [s2|] eqn:E2; [|discriminate].
      apply IH in E2. apply IH in H. cbn [log p_ctx] in E2. congruence.
    + apply IH in H. congruence.
    + apply IH in H. congruence.
  - destruct (i_kind row).
    + (* a loop *)
      destruct (i_vars row) as [|x rest]; [discriminate|]. destruct x as [|x0 xr]; [discriminate|].
      set (x := x0 :: xr) in *.
      set (idx := match rest with i :: _ => match i with [] => None | _ => Some i end | [] => None end) in *.
      destruct (loop_iter (fun st => parse_block pol ScopeRestore emp tol rows f st BFor false) (p_pos s1) x idx (i_iter row) 0 s1)
        as [s3|] eqn:E3; [|discriminate].
      assert (Hinv3 : p_ctx s3 = p_ctx s1 \/ exists e m, p_ctx s3 = bind_loop (p_ctx s1) x idx e m).
      { refine (loop_iter_ctx _ _ x idx (p_ctx s1) _ _ _ _ _ (or_introl eq_refl) E3).
        intros st st' Hb. apply IH in Hb. exact Hb. }
      assert (Hskip : forall s3', match i_iter row, emp with
                                  | [], EmptySkip => parse_block pol ScopeRestore emp tol rows f (log s3 (EvEnter BFor true)) BFor true
                                  | _, _ => ROk s3
                                  end = ROk s3' -> p_ctx s3' = p_ctx s3).
      { intros s3' Hs. destruct (i_iter row); [destruct emp|]; try (inversion Hs; reflexivity).
        apply IH in Hs. exact Hs. }
      destruct (match i_iter row, emp with
                | [], EmptySkip => parse_block pol ScopeRestore emp tol rows f (log s3 (EvEnter BFor true)) BFor true
                | _, _ => ROk s3
                end) as [s3'|] eqn:E3'; [|discriminate].
      pose proof (Hskip _ eq_refl) as Hc3'. clear Hskip E3'. cbn [log p_ctx p_pos p_log saved_of] in H.
      assert (Hrest : forall c', restore_loop tol (p_ctx s3') x idx (cget (p_ctx s1) x) (saved_idx (p_ctx s1) idx) = Some c' -> c' = p_ctx s1).
      { intros c' Hr. rewrite Hc3' in Hr. destruct Hinv3 as [Hc|[e [m Hc]]]; rewrite Hc in Hr.
        - apply restore_loop_unbound in Hr. exact Hr.
        - apply restore_loop_bound in Hr. exact Hr. }
      unfold restore_loop, saved_idx in Hrest.
      destruct (crestore tol (p_ctx s3') x (cget (p_ctx s1) x)) as [c1|] eqn:Ec1; [|discriminate].
      destruct idx as [i|].
      * destruct (crestore tol c1 i (cget (p_ctx s1) i)) as [c2|] eqn:Ec2; [|discriminate].
        apply IH in H. cbn [p_ctx] in H. rewrite H, (Hrest _ eq_refl). exact Hc1.
      * apply IH in H. cbn [p_ctx] in H. rewrite H, (Hrest _ eq_refl). exact Hc1.
    + apply IH in H. cbn [log p_ctx] in H. congruence.
    + destruct (parse_block pol ScopeRestore emp tol rows f (log s1 (EvEnter BBlock false)) BBlock false) as [s2|] eqn:E2; [|discriminate].
      apply IH in E2. apply IH in H. cbn [log p_ctx] in E2, H. congruence.
    + apply IH in H. cbn [log p_ctx] in H. congruence.
    + apply IH in H. cbn [log p_ctx] in H. congruence.
Qed.

End Scoped.
