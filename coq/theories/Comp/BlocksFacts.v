(* Facts about the block mechanics (Comp/Blocks.v), for every sheet, context and fuel:
   1. ctx_preserved          with the shadowed bindings put back (ScopeRestore) every call of
                             _parse_block — hence every loop — returns with exactly the context it
                             was entered with: loop and index variables are lexically scoped
   2. omit_is_inert          a block read with omit_content instantiates nothing, hands no row to
                             _parse_row, registers no group
   3. empty_loop_pass_through  a begin_for over zero elements (EmptySkip) is its skipped body
                             followed by the registration of an empty group under the head's id
   4. pop_loses_binding      the witness that recorded the defect: under ScopePop the same sheet
                             loses the outer binding (kept: it shows that 1 needs ScopeRestore) *)
From Coq Require Import List NArith Bool Arith Lia.
From RPFT Require Import Base.Sexp Base.PyStr Base.PyStrFacts Gen.Tables Comp.Blocks.
Import ListNotations.

(* ------------------------------------------------------------------ the dict operations *)
Lemma cset_same c x v : cget c x = Some v -> cset c x v = c.
Proof.
  induction c as [|[k w] r IH]; cbn [cget cset]; intros H; [discriminate|].
  destruct (str_eqb k x) eqn:E.
  - inversion H; subst. reflexivity.
  - rewrite (IH H). reflexivity.
Qed.

Lemma cset_cset c x a b : cset (cset c x a) x b = cset c x b.
Proof.
  induction c as [|[k w] r IH]; cbn [cset].
  - rewrite str_eqb_refl. reflexivity.
  - destruct (str_eqb k x) eqn:E; cbn [cset]; rewrite E; [reflexivity|]. rewrite IH. reflexivity.
Qed.

Lemma cget_cset_same c x a : cget (cset c x a) x = Some a.
Proof.
  induction c as [|[k w] r IH]; cbn [cset cget].
  - rewrite str_eqb_refl. reflexivity.
  - destruct (str_eqb k x) eqn:E; cbn [cget]; rewrite E; [reflexivity|exact IH].
Qed.

Lemma cget_cset_other c x y a : x <> y -> cget (cset c x a) y = cget c y.
Proof.
  intros Hn. induction c as [|[k w] r IH]; cbn [cset cget].
  - rewrite (str_eqb_neq _ _ Hn). reflexivity.
  - destruct (str_eqb k x) eqn:E; cbn [cget].
    + apply str_eqb_eq in E. subst k. rewrite (str_eqb_neq _ _ Hn). reflexivity.
    + rewrite IH. reflexivity.
Qed.

Lemma cpop_absent c x : cget c x = None -> cpop c x = None.
Proof.
  induction c as [|[k w] r IH]; cbn [cget cpop]; intros H; [reflexivity|].
  destruct (str_eqb k x); [discriminate|]. rewrite (IH H). reflexivity.
Qed.

Lemma cpop_cset_fresh c x a : cget c x = None -> cpop (cset c x a) x = Some c.
Proof.
  induction c as [|[k w] r IH]; cbn [cget cset cpop]; intros H.
  - rewrite str_eqb_refl. reflexivity.
  - destruct (str_eqb k x) eqn:E; [discriminate|]. cbn [cpop]. rewrite E, (IH H). reflexivity.
Qed.

(* updating a key that is present commutes with setting another key *)
Lemma cset_swap_present c x y a b v :
  x <> y -> cget c x = Some v -> cset (cset c y b) x a = cset (cset c x a) y b.
Proof.
  intros Hn. induction c as [|[k w] r IH]; cbn [cget cset]; intros H; [discriminate|].
  destruct (str_eqb k x) eqn:Ex.
  - apply str_eqb_eq in Ex. subst k. rewrite (str_eqb_neq _ _ Hn). cbn [cset].
    rewrite str_eqb_refl, (str_eqb_neq _ _ Hn). reflexivity.
  - destruct (str_eqb k y) eqn:Ey; cbn [cset]; rewrite Ex, ?Ey; [reflexivity|].
    rewrite (IH H). reflexivity.
Qed.

(* a fresh key, then another key, then the fresh key popped *)
Lemma cpop_cset2_fresh c x y a b :
  x <> y -> cget c x = None -> cpop (cset (cset c x a) y b) x = Some (cset c y b).
Proof.
  intros Hn. assert (Hn' : y <> x) by (intros ->; apply Hn; reflexivity).
  induction c as [|[k w] r IH]; cbn [cget cset cpop]; intros H.
  - rewrite (str_eqb_neq _ _ Hn). cbn [cpop]. rewrite str_eqb_refl. reflexivity.
  - destruct (str_eqb k x) eqn:Ex; [discriminate|].
    cbn [cset]. destruct (str_eqb k y) eqn:Ey; cbn [cpop]; rewrite Ex.
    + rewrite (cpop_cset_fresh r x a H). reflexivity.
    + rewrite (IH H). reflexivity.
Qed.

(* ------------------------------------------------------------------ binding / restoring the loop variables *)
Lemma bind_loop_twice c x idx e n e' n' :
  bind_loop (bind_loop c x idx e n) x idx e' n' = bind_loop c x idx e' n'.
Proof.
  unfold bind_loop. destruct idx as [i|]; [|apply cset_cset].
  destruct (str_eqb x i) eqn:E.
  - apply str_eqb_eq in E. subst i. rewrite !cset_cset. reflexivity.
  - assert (Hn : x <> i) by (intros ->; rewrite str_eqb_refl in E; discriminate).
    rewrite (cset_swap_present (cset c x (VS e)) x i (VS e') (VI n) (VS e) Hn (cget_cset_same _ _ _)).
    rewrite !cset_cset. reflexivity.
Qed.

(* the two removals after end_for, as the model performs them *)
Definition restore_loop (tol : bool) (c : ctx) (x : str) (idx : option str) (sx si : option value) : option ctx :=
  match crestore tol c x sx with
  | None => None
  | Some c1 => match idx with None => Some c1 | Some i => crestore tol c1 i si end
  end.

Definition saved_idx (c : ctx) (idx : option str) : option value :=
  match idx with Some i => cget c i | None => None end.

Lemma crestore_unbound tol c x c' : crestore tol c x (cget c x) = Some c' -> c' = c.
Proof.
  unfold crestore. destruct (cget c x) as [v|] eqn:E.
  - intros H. inversion H; subst. apply cset_same. exact E.
  - rewrite (cpop_absent _ _ E). destruct tol; intros H; inversion H; reflexivity.
Qed.

(* no iteration ran: the context is still the outer one *)
Lemma restore_loop_unbound tol c x idx c' :
  restore_loop tol c x idx (cget c x) (saved_idx c idx) = Some c' -> c' = c.
Proof.
  unfold restore_loop. destruct (crestore tol c x (cget c x)) as [c1|] eqn:E1; [|discriminate].
  apply crestore_unbound in E1. subst c1.
  destruct idx as [i|]; cbn [saved_idx]; intros H.
  - apply crestore_unbound in H. exact H.
  - inversion H; reflexivity.
Qed.

(* after the last iteration: the loop (and index) variable are bound *)
Lemma restore_loop_bound tol c x idx e n c' :
  restore_loop tol (bind_loop c x idx e n) x idx (cget c x) (saved_idx c idx) = Some c' -> c' = c.
Proof.
  unfold restore_loop, bind_loop. destruct idx as [i|]; cbn [saved_idx].
  - destruct (str_eqb x i) eqn:E.
    + (* `x;x`: one name, bound twice, restored twice *)
      apply str_eqb_eq in E. subst i. rewrite cset_cset.
      destruct (cget c x) as [v|] eqn:Ex; unfold crestore.
      * rewrite !cset_cset. intros H. inversion H; subst. apply cset_same. exact Ex.
      * rewrite (cpop_cset_fresh _ _ _ Ex), (cpop_absent _ _ Ex).
        destruct tol; intros H; inversion H; reflexivity.
    + assert (Hn : x <> i) by (intros ->; rewrite str_eqb_refl in E; discriminate).
      destruct (cget c x) as [v|] eqn:Ex; unfold crestore.
      * rewrite (cset_swap_present (cset c x (VS e)) x i v (VI n) (VS e) Hn (cget_cset_same _ _ _)).
        rewrite cset_cset, (cset_same _ _ _ Ex).
        destruct (cget c i) as [w|] eqn:Ei.
        -- rewrite cset_cset. intros H. inversion H; subst. apply cset_same. exact Ei.
        -- rewrite (cpop_cset_fresh _ _ _ Ei). intros H. inversion H; reflexivity.
      * rewrite (cpop_cset2_fresh c x i (VS e) (VI n) Hn Ex).
        destruct (cget c i) as [w|] eqn:Ei.
        -- rewrite cset_cset. intros H. inversion H; subst. apply cset_same. exact Ei.
        -- rewrite (cpop_cset_fresh _ _ _ Ei). intros H. inversion H; reflexivity.
  - unfold crestore. destruct (cget c x) as [v|] eqn:Ex.
    + rewrite cset_cset. intros H. inversion H; subst. apply cset_same. exact Ex.
    + rewrite (cpop_cset_fresh _ _ _ Ex). intros H. inversion H; reflexivity.
Qed.

(* ------------------------------------------------------------------ 1. lexical scope *)
Section Scoped.
Variable pol : undefined_policy.
Variable emp : empty_loop.
Variable tol : bool.
Variable rows : list raw.

Lemma next_row_ctx s omit s1 orow : next_row pol rows s omit = ROk (s1, orow) -> p_ctx s1 = p_ctx s.
Proof.
  unfold next_row. destruct (nth_error rows (p_pos s)) as [r|].
  - destruct omit.
    + intros H. inversion H; reflexivity.
    + destruct (instantiate pol (p_ctx s) r); intros H; inversion H; reflexivity.
  - intros H. inversion H; reflexivity.
Qed.

(* the iterations of one loop: if every body returns with the context it was given, the loop
   ends either untouched (no element) or with the variables of its last element bound *)
Lemma loop_iter_ctx (body : pst -> res pst) bookmark x idx c :
  (forall st st', body st = ROk st' -> p_ctx st' = p_ctx st) ->
  forall elems n st st',
    (p_ctx st = c \/ exists e m, p_ctx st = bind_loop c x idx e m) ->
    loop_iter body bookmark x idx elems n st = ROk st' ->
    (p_ctx st' = c \/ exists e m, p_ctx st' = bind_loop c x idx e m).
Proof.
  intros Hbody. induction elems as [|e more IH]; intros n st st' Hinv H; cbn [loop_iter] in H.
  - inversion H; subst. exact Hinv.
  - destruct (body (mkP bookmark (bind_loop (p_ctx st) x idx e n) (EvEnter BFor false :: p_log st))) as [st1|] eqn:Eb; [|discriminate].
    apply Hbody in Eb. cbn [p_ctx] in Eb.
    refine (IH _ _ _ _ H). right.
    destruct Hinv as [Hc|[e0 [m0 Hc]]]; rewrite Eb, Hc; [exists e, n; reflexivity|].
    exists e, n. apply bind_loop_twice.
Qed.

Lemma loop_iter_nil (body : pst -> res pst) bookmark x idx n st :
  loop_iter body bookmark x idx [] n st = ROk st.
Proof. reflexivity. Qed.

Theorem ctx_preserved : forall fuel s bt omit s',
  parse_block pol ScopeRestore emp tol rows fuel s bt omit = ROk s' -> p_ctx s' = p_ctx s.
Proof.
  induction fuel as [|f IH]; intros s bt omit s' H; cbn [parse_block] in H; [discriminate|].
  destruct (next_row pol rows s omit) as [[s1 orow]|] eqn:En; [|discriminate].
  pose proof (next_row_ctx _ _ _ _ En) as Hc1.
  destruct (end_of_block bt (option_map i_kind orow)) as [[|]|]; [|  |discriminate].
  { inversion H; subst. exact Hc1. }
  destruct orow as [row|]; [|discriminate].
  destruct (omit || negb (i_inc row)).
  - (* skipped *)
    destruct (i_kind row).
    + destruct (parse_block pol ScopeRestore emp tol rows f (log s1 (EvEnter BFor true)) BFor true) as [s2|] eqn:E2; [|discriminate].
      apply IH in E2. apply IH in H. cbn [log p_ctx] in E2. congruence.
    + apply IH in H. congruence.
    + destruct (parse_block pol ScopeRestore emp tol rows f (log s1 (EvEnter BBlock true)) BBlock true) as [s2|] eqn:E2; [|discriminate].
      apply IH in E2. apply IH in H. cbn [log p_ctx] in E2. congruence.
    + apply IH in H. congruence.
    + apply IH in H. congruence.
  - destruct (i_kind row).
    + (* a loop *)
      destruct (i_vars row) as [|x rest]; [discriminate|]. destruct x as [|x0 xr]; [discriminate|].
      set (x := x0 :: xr) in *.
      set (idx := match rest with i :: _ => match i with [] => None | _ => Some i end | [] => None end) in *.
      destruct (loop_iter (fun st => parse_block pol ScopeRestore emp tol rows f st BFor false) (p_pos s1) x idx (i_iter row) 0 (log s1 EvPush))
        as [s3|] eqn:E3; [|discriminate].
      assert (Hinv3 : p_ctx s3 = p_ctx s1 \/ exists e m, p_ctx s3 = bind_loop (p_ctx s1) x idx e m).
      { refine (loop_iter_ctx _ _ x idx (p_ctx s1) _ _ _ (log s1 EvPush) _ (or_introl eq_refl) E3).
        intros st st' Hb. apply IH in Hb. exact Hb. }
      assert (Hskip : forall s3', match i_iter row, emp with
                                  | [], EmptySkip => parse_block pol ScopeRestore emp tol rows f (log s3 (EvEnter BFor true)) BFor true
                                  | _, _ => ROk s3
                                  end = ROk s3' -> p_ctx s3' = p_ctx s3).
      { intros s3' Hs. destruct (i_iter row); [destruct emp|]; try (inversion Hs; reflexivity).
        apply IH in Hs. exact Hs. }
      destruct (match i_iter row, emp with
                | [], EmptySkip => parse_block pol ScopeRestore emp tol rows f (log s3 (EvEnter BFor true)) BFor true
                | _, _ => ROk s3
                end) as [s3'|] eqn:E3'; [|discriminate].
      pose proof (Hskip _ eq_refl) as Hc3'. clear Hskip E3'. cbn [log p_ctx p_pos p_log saved_of] in H.
      assert (Hrest : forall c', restore_loop tol (p_ctx s3') x idx (cget (p_ctx s1) x) (saved_idx (p_ctx s1) idx) = Some c' -> c' = p_ctx s1).
      { intros c' Hr. rewrite Hc3' in Hr. destruct Hinv3 as [Hc|[e [m Hc]]]; rewrite Hc in Hr.
        - apply restore_loop_unbound in Hr. exact Hr.
        - apply restore_loop_bound in Hr. exact Hr. }
      unfold restore_loop, saved_idx in Hrest.
      destruct (crestore tol (p_ctx s3') x (cget (p_ctx s1) x)) as [c1|] eqn:Ec1; [|discriminate].
      destruct idx as [i|].
      * destruct (crestore tol c1 i (cget (p_ctx s1) i)) as [c2|] eqn:Ec2; [|discriminate].
        apply IH in H. cbn [p_ctx] in H. rewrite H, (Hrest _ eq_refl). exact Hc1.
      * apply IH in H. cbn [p_ctx] in H. rewrite H, (Hrest _ eq_refl). exact Hc1.
    + apply IH in H. cbn [log p_ctx] in H. congruence.
    + destruct (parse_block pol ScopeRestore emp tol rows f (log (log s1 EvPush) (EvEnter BBlock false)) BBlock false) as [s2|] eqn:E2; [|discriminate].
      apply IH in E2. apply IH in H. cbn [log p_ctx] in E2, H. congruence.
    + apply IH in H. cbn [log p_ctx] in H. congruence.
    + apply IH in H. cbn [log p_ctx] in H. congruence.
Qed.

End Scoped.

(* ------------------------------------------------------------------ 2. omitted content is inert *)
Definition skip_event (e : event) : Prop :=
  match e with EvEnter _ true => True | _ => False end.

Section Omit.
Variable pol : undefined_policy.
Variable scope : loop_scope.
Variable emp : empty_loop.
Variable tol : bool.
Variable rows : list raw.

Lemma next_row_omit s s1 orow :
  next_row pol rows s true = ROk (s1, orow) ->
  p_ctx s1 = p_ctx s /\ p_log s1 = p_log s /\ (forall row, orow = Some row -> i_inc row = true).
Proof.
  unfold next_row. destruct (nth_error rows (p_pos s)) as [r|]; intros H; inversion H; subst; cbn [p_ctx p_log].
  - repeat split. intros row Hr. inversion Hr; reflexivity.
  - repeat split. intros row Hr. discriminate.
Qed.

Theorem omit_is_inert : forall fuel s bt s',
  parse_block pol scope emp tol rows fuel s bt true = ROk s' ->
  p_ctx s' = p_ctx s /\ exists ev, p_log s' = ev ++ p_log s /\ Forall skip_event ev.
Proof.
  induction fuel as [|f IH]; intros s bt s' H; cbn [parse_block] in H; [discriminate|].
  destruct (next_row pol rows s true) as [[s1 orow]|] eqn:En; [|discriminate].
  destruct (next_row_omit _ _ _ En) as [Hc1 [Hl1 _]].
  destruct (end_of_block bt (option_map i_kind orow)) as [[|]|]; [| |discriminate].
  { inversion H; subst. split; [exact Hc1|]. exists []. split; [exact Hl1|constructor]. }
  destruct orow as [row|]; [|discriminate]. cbn [orb] in H.
  assert (Hnest : forall b s2, parse_block pol scope emp tol rows f (log s1 (EvEnter b true)) b true = ROk s2 ->
                   parse_block pol scope emp tol rows f s2 bt true = ROk s' ->
                   p_ctx s' = p_ctx s /\ exists ev, p_log s' = ev ++ p_log s /\ Forall skip_event ev).
  { intros b s2 E2 E3. destruct (IH _ _ _ E2) as [Hc2 [ev2 [Hl2 Hf2]]]. destruct (IH _ _ _ E3) as [Hc3 [ev3 [Hl3 Hf3]]].
    cbn [log p_ctx p_log] in Hc2, Hl2. split; [congruence|].
    exists (ev3 ++ ev2 ++ [EvEnter b true]). split.
    - rewrite Hl3, Hl2, Hl1, <- !app_assoc. reflexivity.
    - apply Forall_app. split; [exact Hf3|]. apply Forall_app. split; [exact Hf2|]. constructor; [exact I|constructor]. }
  assert (Hplain : parse_block pol scope emp tol rows f s1 bt true = ROk s' ->
                   p_ctx s' = p_ctx s /\ exists ev, p_log s' = ev ++ p_log s /\ Forall skip_event ev).
  { intros E3. destruct (IH _ _ _ E3) as [Hc3 [ev3 [Hl3 Hf3]]]. split; [congruence|]. exists ev3. split; [congruence|exact Hf3]. }
  destruct (i_kind row).
  - destruct (parse_block pol scope emp tol rows f (log s1 (EvEnter BFor true)) BFor true) as [s2|] eqn:E2; [|discriminate].
    exact (Hnest _ _ E2 H).
  - exact (Hplain H).
  - destruct (parse_block pol scope emp tol rows f (log s1 (EvEnter BBlock true)) BBlock true) as [s2|] eqn:E2; [|discriminate].
    exact (Hnest _ _ E2 H).
  - exact (Hplain H).
  - exact (Hplain H).
Qed.
End Omit.

(* ------------------------------------------------------------------ 3. a loop over nothing *)
Lemma crestore_tolerant c x : crestore true c x (cget c x) = Some c.
Proof.
  unfold crestore. destruct (cget c x) as [v|] eqn:E.
  - rewrite (cset_same _ _ _ E). reflexivity.
  - rewrite (cpop_absent _ _ E). reflexivity.
Qed.

Lemma end_of_block_for bt : end_of_block bt (Some KBeginFor) = ROk false.
Proof. destruct bt; reflexivity. Qed.

(* the repaired code: the head is instantiated, the body is read with omit_content (nothing
   in it is instantiated, see omit_is_inert), an empty group is registered under the head's
   id, the context is the one the loop was reached with, and the enclosing block goes on *)
Theorem empty_loop_pass_through : forall pol rows f s bt s1 row x rest,
  next_row pol rows s false = ROk (s1, Some row) ->
  i_kind row = KBeginFor -> i_inc row = true -> i_iter row = [] ->
  i_vars row = x :: rest -> x <> [] ->
  parse_block pol ScopeRestore EmptySkip true rows (S f) s bt false
  = match parse_block pol ScopeRestore EmptySkip true rows f (log (log s1 EvPush) (EvEnter BFor true)) BFor true with
    | ROk s2 => parse_block pol ScopeRestore EmptySkip true rows f (log s2 (EvEnd (i_id row))) bt false
    | RErr e => RErr e
    end.
Proof.
  intros pol rows f s bt s1 row x rest En Hk Hi Hit Hv Hx.
  cbn [parse_block]. rewrite En. cbn [option_map]. rewrite Hk, end_of_block_for, Hi. cbn [orb negb].
  rewrite Hv, Hit. destruct x as [|x0 xr]; [contradiction|]. cbn [loop_iter].
  destruct (parse_block pol ScopeRestore EmptySkip true rows f (log (log s1 EvPush) (EvEnter BFor true)) BFor true) as [s2|] eqn:E2; [|reflexivity].
  destruct (omit_is_inert _ _ _ _ _ _ _ _ _ E2) as [Hc2 _]. cbn [log p_ctx] in Hc2.
  cbn [log p_ctx p_pos p_log saved_of]. rewrite Hc2, crestore_tolerant.
  destruct rest as [|i rest']; [|destruct i as [|i0 ir]].
  - destruct s2 as [q2 c2 l2]; cbn [p_pos p_ctx p_log] in *; subst; reflexivity.
  - destruct s2 as [q2 c2 l2]; cbn [p_pos p_ctx p_log] in *; subst; reflexivity.
  - rewrite crestore_tolerant. destruct s2 as [q2 c2 l2]; cbn [p_pos p_ctx p_log] in *; subst; reflexivity.
Qed.

(* ------------------------------------------------------------------ witnesses *)
Local Open Scope N_scope.
(* context {cx: "CXVAL", k: "K"};  sheet:
     1 | begin_for | loop_variable i;cx | a;b        (the INDEX variable is named like the context entry)
       | send_message | {{cx}}{{i}}
       | end_for
       | send_message | after {{cx}}                                                         *)
Definition w_cx : str := [99; 120].
Definition w_ctx : ctx := [(w_cx, VS [67; 88; 86; 65; 76]); ([107], VS [75])].
Definition w_plain (t : list seg) : raw := mkRaw KPlain IncTrue [] t [] (ILit []).
Definition w_rows : list raw :=
  [mkRaw KBeginFor IncTrue [Lit [49]] [] [[105]; w_cx] (ILit [[97]; [98]]);
   w_plain [Ref w_cx; Ref [105]];
   mkRaw KEndFor IncTrue [] [] [] (ILit []);
   w_plain [Lit [97; 102; 116; 101; 114; 32]; Ref w_cx]].

(* repaired code: the row after end_for sees the outer value, the context is back *)
Example ctx_preserved_nonvacuous :
  parse_block Strict ScopeRestore EmptySkip true w_rows 50 (mkP 0 w_ctx []) BRoot false
  = ROk (mkP 4 w_ctx
           [EvRow [] [97; 102; 116; 101; 114; 32; 67; 88; 86; 65; 76]; EvInst 3; EvEnd [49];
            EvInst 2; EvRow [] [49; 98]; EvInst 1; EvEnter BFor false;
            EvInst 2; EvRow [] [48; 97]; EvInst 1; EvEnter BFor false; EvPush; EvInst 0]).
Proof. vm_compute. reflexivity. Qed.

(* the code before the repair (dict.pop): the same sheet loses the outer binding — an error
   under the strict undefined policy, a silently blank "after " and a smaller context under
   the lenient one.  This is the recorded defect; ctx_preserved needs ScopeRestore. *)
Example pop_loses_binding :
  parse_block Strict ScopePop EmptyFallThrough false w_rows 50 (mkP 0 w_ctx []) BRoot false = RErr Undefined
  /\ exists lg, parse_block Lenient ScopePop EmptyFallThrough false w_rows 50 (mkP 0 w_ctx []) BRoot false
                = ROk (mkP 4 [([107], VS [75])] (EvRow [] [97; 102; 116; 101; 114; 32] :: lg)).
Proof. split; [vm_compute; reflexivity|]. eexists. vm_compute. reflexivity. Qed.

(* context {l: []};  sheet:  hi / 2 begin_for x in {@ l @} / {{x}} / begin_block / {{no}} / end_block / end_for / bye *)
Definition e_ctx : ctx := [([108], VL [])].
Definition e_rows : list raw :=
  [w_plain [Lit [104; 105]];
   mkRaw KBeginFor IncTrue [Lit [50]] [] [[120]] (IRef [108]);
   w_plain [Ref [120]];
   mkRaw KBeginBlock IncTrue [] [] [] (ILit []);
   w_plain [Ref [110; 111]];
   mkRaw KEndBlock IncTrue [] [] [] (ILit []);
   mkRaw KEndFor IncTrue [] [] [] (ILit []);
   w_plain [Lit [98; 121; 101]]].

Example empty_loop_pass_through_nonvacuous :
  (exists s1 row, next_row Strict e_rows (mkP 1 e_ctx []) false = ROk (s1, Some row)
                  /\ i_kind row = KBeginFor /\ i_inc row = true /\ i_iter row = [] /\ i_vars row = [[120]])
  /\ parse_block Strict ScopeRestore EmptySkip true e_rows 50 (mkP 0 e_ctx []) BRoot false
     = ROk (mkP 8 e_ctx [EvRow [] [98; 121; 101]; EvInst 7; EvEnd [50]; EvEnter BBlock true; EvEnter BFor true;
                         EvPush; EvInst 1; EvRow [] [104; 105]; EvInst 0])
  (* the code before the repair: the loop variable was never added *)
  /\ parse_block Strict ScopePop EmptyFallThrough false e_rows 50 (mkP 0 e_ctx []) BRoot false = RErr KeyErr.
Proof.
  split; [|split; vm_compute; reflexivity].
  eexists. eexists. split; [vm_compute; reflexivity|]. repeat split.
Qed.
