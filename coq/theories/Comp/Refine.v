(* E7/C02 — the compiler model refines the reference meaning of rows: DEFINITIONS.
   The fragment of sheets the theorem covers (fragb), and the simulation relation between the state of the
   reference builder (Flow/RowSem.v: run_rows) and the state of the compiler model (Comp/Compile.v: crun).

   Correspondence of nodes: a reference node k (actions, decision, continuation) is a CLUSTER of the compiled
   flow: the row's node, followed — when the row is an action row that received a conditional edge — by the
   implicit router node.  phi maps reference node indices to clusters. *)
From Coq Require Import List NArith Bool Arith.
From RPFT Require Import Base.Sexp Base.PyStr Base.Result Gen.Tables Flow.Lts Flow.Flow Flow.Closed Flow.RowSem
     Comp.Compile.
Import ListNotations.

(* The constants probed from the tree must never be computed away by a proof step: every lemma is to hold for both
   values (cbn / simpl would otherwise reduce `if flag then .. else ..` with the value of THIS run). *)
Global Opaque explicit_names_claimed padding_edges_dropped_at_read has_group_edges_by_name has_group_by_name_from_noop.

(* the test table both builders consult *)
Definition nab (t : str) : bool := memb t no_args_tests.

(* ---------------------------------------------------------------- the fragment *)
Definition kind_cls (k : nkind) : eclass :=
  match k with
  | KBasic1 | KBasic2 => EAction
  | KWait _ _ => EWait
  | KSplitValue _ _ => ESplit
  | KSplitGroup _ => EGroup
  | KRandom _ => ERandom
  | KEnterFlow _ => EFlow
  | KWebhook _ | KAirtime _ => EOutcome
  end.

Definition wild0 : cname * dest := (CWild, DNone).

(* the initial decision the reference reading gives a row of that kind (harness/rowref.py: dec0) *)
Definition kind_dec0 (k : nkind) : option rdec :=
  match k with
  | KBasic1 | KBasic2 => None
  | KWait t sv =>
    Some (mkDec false s_input_text (match t with 0%N => WMsg | _ => WTimeout t [] end) (render_result (Some sv)) [] [] wild0
                (match t with 0%N => None | _ => Some (CFixed s_NoResponse, DNone) end))
  | KSplitValue op sv => Some (mkDec false op WNone (render_result (Some sv)) [] [] wild0 None)
  | KSplitGroup sv => Some (mkDec false s_contact_groups WNone (render_result (Some sv)) [] [] wild0 None)
  | KRandom sv => Some (mkDec true [] WNone (render_result (Some sv)) [] [] wild0 None)
  | KEnterFlow _ =>
    Some (mkDec false s_child_run_status WNone None
                [(s_has_only_text, [Some s_completed], 0); (s_has_only_text, [Some s_expired], 1)]
                [(CFixed s_Complete, DNone)] (CFixed s_Expired, DNone) None)
  | KWebhook sv =>
    match field_key sv with
    | Ok key => Some (mkDec false (s_results_prefix ++ key ++ s_category_suffix) WNone None
                            [(s_has_only_text, [Some s_Success], 0)] [(CFixed s_Success, DNone)] (CFixed s_Failure, DNone) None)
    | Err _ => None
    end
  | KAirtime sv =>
    match field_key sv with
    | Ok key => Some (mkDec false (s_results_prefix ++ key) WNone None
                            [(s_has_category, [Some s_Success], 0)] [(CFixed s_Success, DNone)] (CFixed s_Failure, DNone) None)
    | Err _ => None
    end
  end.

(* boolean equality of initial decisions *)
Fixpoint list_eqb {X} (eqb : X -> X -> bool) (l l' : list X) : bool :=
  match l, l' with
  | [], [] => true
  | a :: r, b :: r' => eqb a b && list_eqb eqb r r'
  | _, _ => false
  end.
Definition cname_eqb (a b : cname) : bool :=
  match a, b with CWild, CWild => true | CFixed u, CFixed v => str_eqb u v | _, _ => false end.
Definition dest_eqb (a b : dest) : bool :=
  match a, b with DNone, DNone => true | DHard, DHard => true | DNode i, DNode j => Nat.eqb i j | _, _ => false end.
Definition catd_eqb (a b : cname * dest) : bool := cname_eqb (fst a) (fst b) && dest_eqb (snd a) (snd b).
Definition wait_eqb (a b : wait_spec) : bool :=
  match a, b with
  | WNone, WNone | WMsg, WMsg => true
  | WTimeout s c, WTimeout s' c' => N.eqb s s' && str_eqb c c'
  | _, _ => false
  end.
Definition ostr_eqb (a b : option str) : bool :=
  match a, b with None, None => true | Some u, Some v => str_eqb u v | _, _ => false end.
Definition rcase_eqb (a b : str * list (option str) * nat) : bool :=
  str_eqb (fst (fst a)) (fst (fst b)) && list_eqb ostr_eqb (snd (fst a)) (snd (fst b)) && Nat.eqb (snd a) (snd b).
Definition rdec_eqb (x y : rdec) : bool :=
  Bool.eqb (rd_random x) (rd_random y) && str_eqb (rd_operand x) (rd_operand y) && wait_eqb (rd_wait x) (rd_wait y)
  && ostr_eqb (rd_result x) (rd_result y) && list_eqb rcase_eqb (rd_cases x) (rd_cases y)
  && list_eqb catd_eqb (rd_cats x) (rd_cats y) && catd_eqb (rd_default x) (rd_default y)
  && match rd_noresp x, rd_noresp y with None, None => true | Some u, Some v => catd_eqb u v | _, _ => false end.
Definition rdec_eqb_shallow (a b : option rdec) : bool :=
  match a, b with None, None => true | Some x, Some y => rdec_eqb x y | _, _ => false end.

Definition eclass_eqb (a b : eclass) : bool :=
  match a, b with
  | EAction, EAction | EWait, EWait | ESplit, ESplit | EGroup, EGroup | ERandom, ERandom | EFlow, EFlow | EOutcome, EOutcome => true
  | _, _ => false
  end.

(* ---------------------------------------------------------------- reading by the code of this run vs the reference reading
   The reference (Flow/RowSem.v) never reads a padding entry as an edge and reads a has_group test as [_, group name]
   in every kind of row.  The model follows the tree (Gen/Tables.v).  The two readings of a row agree when: *)
Definition has_group_typed (c : econd) : bool := str_eqb (c_type c) has_group_s.
(* no entry other than the first is blank throughout *)
Definition no_paddingb (es : list redge) : bool := forallb (fun e => negb (edge_trivial e)) (tl es).
Definition cond_agreesb (c : econd) : bool :=
  (has_group_edges_by_name && has_group_by_name_from_noop) || negb (has_group_typed c).
Definition edges_agreeb (es : list redge) : bool :=
  (padding_edges_dropped_at_read || no_paddingb es) && forallb (fun e => cond_agreesb (e_cond e)) es.

(* one row of the fragment: node rows without node names / given ids, not random,
   carrying the class, the initial decision and at most the one action the reference reading of their kind gives *)
Definition gen_base (args : list (option str)) : str := join_char 95%N (map (fun a => title (arg_text a)) args).
Fixpoint alts (k : nat) : str := match k with O => [] | S k' => s_alt ++ alts k' end.

(* the invented names of a sheet: for every condition of the sheet the names generate_category_name may give its
   category (the base name with any number of "_alt"), and the name of the default category *)
Definition cond_bases (c : econd) : list str := [gen_base (ref_args c); gen_base [None; Some (c_value c)]].
Definition sheet_bases (rows : list crow) : list str :=
  flat_map (fun cr => flat_map (fun e => cond_bases (e_cond e)) (r_edges (cr_row cr))) rows.
Definition gnameb (bases : list str) (n : str) : bool :=
  str_eqb n s_Other || existsb (fun b => existsb (fun k => str_eqb n (b ++ alts k)) (seq 0 (S (length n)))) bases.

(* the name RandomRouter.add_choice gives a bucket: the category name, else the value, else "Bucket <n>" *)
Definition bucket_name (c : econd) : str := or_default (c_cname c) (c_value c).

(* an explicit category name must not be one of them, nor "No Response"; an explicit bucket name does not look like an
   invented one *)
Definition edge_okb (bases : list str) (e : redge) : bool :=
  (explicit_names_claimed ||
   match c_cname (e_cond e) with [] => true | nm => negb (gnameb bases nm) && negb (str_eqb nm s_NoResponse) end)
  && negb (starts_with s_Bucket (bucket_name (e_cond e))).

Definition row_okb (bases : list str) (cr : crow) : bool :=
  edges_agreeb (r_edges (cr_row cr)) &&
  forallb (edge_okb bases) (r_edges (cr_row cr)) &&
  (* the input encoding (harness/rowref.py, comp_corr.py): a given `_nodeId` is the row's node name; it is not the
     hard-exit marker *)
  match cr_uuid cr with [] => true | u => str_eqb (r_node_name (cr_row cr)) u && negb (str_eqb u hard_exit_sentinel) end &&
  match r_type (cr_row cr) with
  | TNode cls acts dec0 =>
    eclass_eqb cls (kind_cls (cr_kind cr)) && rdec_eqb_shallow dec0 (kind_dec0 (cr_kind cr))
    && match cr_kind cr with
       | KBasic1 | KBasic2 => Nat.leb (length acts) 1
       | KWait _ _ | KSplitValue _ _ | KSplitGroup _ | KRandom _ => match acts with [] => true | _ => false end
       | KEnterFlow _ | KWebhook _ | KAirtime _ => Nat.eqb (length acts) 1
       end
  | _ => true
  end.

(* the executable test of the premises the refinement theorem still has (harness: wire 120 3) *)
Definition fragb (rows : list crow) : bool := forallb (row_okb (sheet_bases rows)) rows.

(* ---------------------------------------------------------------- names the compiler invents
   A category the sheet does not name gets a name from the compiler: generate_category_name = the arguments,
   title-cased and joined by "_", with "_alt" appended while the name is taken; the default category is "Other".
   The reference leaves such a name open (CWild).  G is a set of names that holds every name the compiler may invent
   for the sheet at hand; an EXPLICIT name (condition_name) is required to lie outside G and to differ from
   "No Response": get_or_create_category looks a name up among ALL categories of the router, the invented ones, the
   default and the No Response category included (the findings category-name-clash). *)
Notation cluster := (nat * option nat)%type (only parsing).          (* the row's node, the implicit router *)

Class GenNames := { gname : str -> Prop; gname_other : gname s_Other }.

Section Rel.
Context {GN : GenNames}.

(* every name generate_category_name may give the category of this condition is in G *)
Definition gen_ok (c : econd) : Prop :=
  forall k, gname (gen_base (ref_args c) ++ alts k) /\ gname (gen_base [None; Some (c_value c)] ++ alts k).

(* what the simulation needs of an edge condition: the code's arguments are the reference's; the category is
   unnamed and its invented name lies in G, or named with a name outside G *)
Definition is_bucket_name (n : str) : Prop := exists k, n = s_Bucket ++ dec_nat k.

(* the premise on category names - needed only as long as an explicit name may hit a category it does not mean (the
   finding category-name-clash; Gen/Tables.v: explicit_names_claimed says whether the tree has the repair) *)
Definition cname_ok (c : econd) : Prop :=
  if explicit_names_claimed then True
  else match c_cname c with [] => gen_ok c | nm => ~ gname nm /\ nm <> s_NoResponse end.

Definition cond_ok (c : econd) : Prop :=
  row_args c = ref_args c /\ noop_args c = ref_args c /\ cname_ok c /\ ~ is_bucket_name (bucket_name c).

(* ---------------------------------------------------------------- the simulation relation *)

Definition dest_sim (phi : list cluster) (uu : list id) (d : dest) (d' : dst) : Prop :=
  match d, d' with
  | DNone, None => True
  | DHard, Some u => u = hard_exit_sentinel
  | DNode k, Some u => u <> hard_exit_sentinel /\ exists c, nth_error phi k = Some c /\ nth_error uu (fst c) = Some u
  | _, _ => False
  end.

(* a name the sheet fixes is the category's name; a name it leaves open is one of the invented names *)
Definition name_sim (c : cname) (n : str) : Prop :=
  match c with CFixed s => s = n | CWild => if explicit_names_claimed then True else gname n end.

Definition cat_sim (phi : list cluster) (uu : list id) (x : cname * dest) (c : ccat) : Prop :=
  name_sim (fst x) (cc_name c) /\ dest_sim phi uu (snd x) (cat_dest c).

Definition case_sim (cats : list id) (k : str * list (option str) * nat) (k' : ccase) : Prop :=
  fst (fst k) = ck_type k' /\ snd (fst k) = ck_args k' /\ nth_error cats (snd k) = Some (ck_cat k').

Definition wait_sim (phi : list cluster) (uu : list id) (d : rdec) (w : cwait) : Prop :=
  match rd_wait d, w with
  | WNone, CWNone => rd_noresp d = None
  | WMsg, CWMsg => rd_noresp d = None
  | WTimeout t _, CWTimeout t' c => t = t' /\ exists x, rd_noresp d = Some x /\ cat_sim phi uu x c
  | _, _ => False
  end.

(* which categories carry an invented name (SwitchRouter._generated_name_uuids): exactly the ones the sheet leaves
   unnamed; with the repair the names of a router are pairwise distinct *)
Record marks_ok (d : rdec) (r : cswitch) : Prop := {
  mk_marks : Forall2 (fun x c => memb (cc_uuid c) (sw_auto r) = match fst x with CWild => true | CFixed _ => false end) (rd_cats d) (sw_cats r);
  mk_incl : incl (sw_auto r) (map cc_uuid (sw_cats r));
  mk_names : explicit_names_claimed = true -> NoDup (map cc_name (sw_all_cats r)) }.

Record dec_sim (phi : list cluster) (uu : list id) (d : rdec) (r : cswitch) : Prop := {
  ds_random : rd_random d = false;
  ds_operand : rd_operand d = sw_operand r;
  ds_result : rd_result d = render_result (sw_result r);
  ds_wait : wait_sim phi uu d (sw_wait r);
  ds_cats : Forall2 (cat_sim phi uu) (rd_cats d) (sw_cats r);
  ds_default : cat_sim phi uu (rd_default d) (sw_default r);
  ds_cases : Forall2 (case_sim (map cc_uuid (sw_all_cats r))) (rd_cases d) (sw_cases r);
  ds_uuids : NoDup (map cc_uuid (sw_all_cats r));
  ds_marks : marks_ok d r }.

(* a random split: buckets only; the i-th bucket, when the sheet does not name it, is called "Bucket <i+2>" *)
Definition bucket_sim (phi : list cluster) (uu : list id) (ix : nat * (cname * dest)) (c : ccat) : Prop :=
  match fst (snd ix) with
  | CFixed s => s = cc_name c /\ ~ is_bucket_name s
  | CWild => cc_name c = s_Bucket ++ dec_nat (fst ix + 2)
  end /\ dest_sim phi uu (snd (snd ix)) (cat_dest c).

Record rand_sim (phi : list cluster) (uu : list id) (d : rdec) (r : crandom) : Prop := {
  rs_random : rd_random d = true;
  rs_result : rd_result d = render_result (rr_result r);
  rs_cats : Forall2 (bucket_sim phi uu) (number_from 0 (rd_cats d)) (rr_cats r);
  rs_uuids : NoDup (map cc_uuid (rr_cats r)) }.

(* every case of the decision leads to one of its own (non-default) categories: routers that only grow by add_case *)
(* ... whose default category has a name the sheet leaves open ("Other") and whose No Response category is called so *)
Definition plain_dec (d : rdec) : Prop :=
  Forall (fun k => snd k < length (rd_cats d)) (rd_cases d) /\ fst (rd_default d) = CWild
  /\ match rd_noresp d with Some x => fst x = CFixed s_NoResponse | None => True end.

(* the shape of a decision by the Python class of its node *)
Definition shape_ok (cls : swclass) (d : rdec) : Prop :=
  match cls with
  | SPlain => plain_dec d
  | SEnter => exists x, rd_cats d = [(CFixed s_Complete, x)]
  | SOutcome => exists x, rd_cats d = [(CFixed s_Success, x)]
  end.

(* the class of a reference row against the Python class of the row's node and the row type the group remembers *)
Definition class_ok (cls : eclass) (rt : rowtype) (b : cbody) : Prop :=
  match cls, b with
  | EAction, BBasic _ => rt = RTOther
  | EWait, BSwitch SPlain _ => rt = RTOther
  | ESplit, BSwitch SPlain _ => rt = RTSplitValue
  | EGroup, BSwitch SPlain _ => rt = RTSplitGroup
  | ERandom, BRandom _ => rt = RTOther
  | EFlow, BSwitch SEnter _ => True
  | EOutcome, BSwitch SOutcome _ => True
  | _, _ => False
  end.

(* a reference node against its cluster *)
Inductive node_sim (phi : list cluster) (uu : list id) : rnode -> cnode -> option cnode -> Prop :=
| NS_basic n nd e :
    rn_dec n = None -> cn_body nd = BBasic e -> map snd (cn_actions nd) = rn_actions n ->
    dest_sim phi uu (rn_cont n) (x_dest e) -> node_sim phi uu n nd None
| NS_router n nd cls r d :
    rn_dec n = Some d -> cn_body nd = BSwitch cls r -> map snd (cn_actions nd) = rn_actions n ->
    dec_sim phi uu d r -> shape_ok cls d -> node_sim phi uu n nd None
| NS_random n nd r d :
    rn_dec n = Some d -> cn_body nd = BRandom r -> map snd (cn_actions nd) = rn_actions n ->
    rand_sim phi uu d r -> node_sim phi uu n nd None
| NS_implicit n nd e nr r d :
    rn_dec n = Some d -> cn_body nd = BBasic e -> map snd (cn_actions nd) = rn_actions n ->
    x_dest e = Some (cn_uuid nr) -> cn_uuid nr <> hard_exit_sentinel ->
    cn_body nr = BSwitch SPlain r -> cn_actions nr = [] -> dec_sim phi uu d r -> plain_dec d ->
    node_sim phi uu n nd (Some nr).

Definition cluster_nodes (cn : list cnode) (c : cluster) : option (cnode * option cnode) :=
  match nth_error cn (fst c), snd c with
  | Some nd, None => Some (nd, None)
  | Some nd, Some j => match nth_error cn j with Some nr => Some (nd, Some nr) | None => None end
  | None, _ => None
  end.

Definition cluster_idx (c : cluster) : list nat := fst c :: match snd c with Some j => [j] | None => [] end.

Inductive group_sim (phi : list cluster) (cn : list cnode) : group -> cgroup -> Prop :=
| GS_row k cls c rt nd :
    nth_error phi k = Some c -> nth_error cn (fst c) = Some nd -> class_ok cls rt (cn_body nd) ->
    group_sim phi cn (GRow k cls) (CGRow (fst c) (match snd c with Some j => [j] | None => [] end) rt)
| GS_noop ps : Forall (fun p => cond_ok (snd p)) ps -> group_sim phi cn (GNoOp ps None) (CGNoOp ps None)
| GS_noop_router ps k k1 nd r :
    Forall (fun p : nat * econd => cond_ok (snd p)) ps ->
    nth_error phi k = Some (k1, None) -> nth_error cn k1 = Some nd -> cn_body nd = BSwitch SPlain r ->
    group_sim phi cn (GNoOp ps (Some k)) (CGNoOp ps (Some k1))
| GS_block ms : group_sim phi cn (GBlock ms) (CGBlock ms).

(* the reference node a row group stands for (each reference node is the node of at most one group) *)
Definition grow_node (g : group) : list nat :=
  match g with GRow k _ => [k] | GNoOp _ (Some k) => [k] | _ => [] end.

Record Sim (phi : list cluster) (sr : st) (sc : cstate) : Prop := {
  sim_len : length phi = length (s_nodes sr);
  sim_nodes : forall k n c, nth_error (s_nodes sr) k = Some n -> nth_error phi k = Some c ->
              exists nd o, cluster_nodes (cs_nodes sc) c = Some (nd, o) /\ node_sim phi (map cn_uuid (cs_nodes sc)) n nd o;
  sim_disj : NoDup (flat_map cluster_idx phi);
  sim_groups : Forall2 (group_sim phi (cs_nodes sc)) (s_groups sr) (cs_groups sc);
  sim_ginj : NoDup (flat_map grow_node (s_groups sr));
  (* the decision node of a no_op carries no action *)
  sim_acts : forall g ps k n, nth_error (s_groups sr) g = Some (GNoOp ps (Some k)) -> nth_error (s_nodes sr) k = Some n -> rn_actions n = [];
  sim_rowmap : s_rowmap sr = cs_rowmap sc;
  sim_stack : s_stack sr = cs_stack sc;
  (* node names: the reference maps a name to a node, the compiler to the first node of its cluster *)
  sim_names : forall nm, nm <> [] ->
              match alookup (s_names sr) nm with
              | Some k => exists c, nth_error phi k = Some c /\ alookup (cs_names sc) nm = Some (fst c)
              | None => alookup (cs_names sc) nm = None
              end }.
End Rel.
