(* E7/C02 — facts for the refinement, part 6: the row loop.  run_rows of the reference builder against crun of the
   compiler model, over the rows of the fragment. *)
From Coq Require Import List NArith Bool Arith Lia.
From RPFT Require Import Base.Sexp Base.PyStr Base.PyStrFacts Base.Result Gen.Tables Flow.Lts Flow.Flow Flow.Closed
     Flow.RowSem Comp.Compile Comp.CompileFacts Comp.CompileIds Comp.CompileInv Comp.CompileStep Comp.CompileClass Comp.Refine Comp.RefineFacts
     Comp.RefineStore Comp.RefineEdge Comp.RefineGroup Comp.RefineStep.
Import ListNotations.

Section WithNames.
Context {GN : GenNames}.

(* what run_rows does with one row *)
Definition rstep (sr : st) (heads : list str) (r : row) : option (st * list str) :=
  match r_type r with
  | TEndBlock =>
    match heads, s_stack sr with
    | h :: heads', members :: outer =>
      Some (fst (RowSem.add_group (mkSt (s_nodes sr) (s_groups sr) (s_rowmap sr) (s_names sr) outer) (GBlock members) h), heads')
    | _, _ => None
    end
  | TBeginBlock => match step_row nab sr r with Some s' => Some (s', r_id r :: heads) | None => None end
  | _ => match step_row nab sr r with Some s' => Some (s', heads) | None => None end
  end.

Lemma run_rows_cons r rest sr heads :
  run_rows nab (r :: rest) sr heads = match rstep sr heads r with Some (s', h') => run_rows nab rest s' h' | None => None end.
Proof.
  unfold rstep. cbn [run_rows]. destruct (r_type r); try (destruct (step_row nab sr r); reflexivity).
  destruct heads as [|h heads']; [reflexivity|]. destruct (s_stack sr) as [|members outer]; [reflexivity|].
  destruct (RowSem.add_group _ (GBlock members) h) as [s2 g]. reflexivity.
Qed.

Section Run.
Variable fresh : nat -> id.
Hypothesis fresh_inj : forall a b, fresh a = fresh b -> a = b.
Hypothesis fresh_not_sentinel : forall k, fresh k <> hard_exit_sentinel.
Variable GP : id -> Prop.
Hypothesis GP_ns : forall u, GP u -> u <> hard_exit_sentinel.
(* what the input encoding says of a given `_nodeId` is enough for GP *)
Hypothesis HGP : forall (u : str) (nm : str), (nm = u /\ u <> hard_exit_sentinel) -> GP u.

Lemma csource_push sc hs e : csource (set_stack_heads sc ([] :: cs_stack sc) hs) e = csource sc e.
Proof. unfold csource. cbn. destruct (e_from e); reflexivity. Qed.

Lemma cparse_noop_push sc hs edges rid :
  cparse_noop (set_stack_heads sc ([] :: cs_stack sc) hs) edges rid
  = match foldM (fun ps e => match csource sc e with Err x => Err x | Ok None => Ok ps | Ok (Some g) => Ok (ps ++ [(g, e_cond e)]) end) edges [] with
    | Err x => Err x
    | Ok ps => Ok (add_cgroup (set_stack_heads sc ([] :: cs_stack sc) hs) (CGNoOp ps None) rid)
    end.
Proof.
  unfold cparse_noop.
  assert (E : forall acc, foldM (fun ps e => match csource (set_stack_heads sc ([] :: cs_stack sc) hs) e with
                                             | Err x => Err x | Ok None => Ok ps | Ok (Some g) => Ok (ps ++ [(g, e_cond e)]) end) edges acc
                        = foldM (fun ps e => match csource sc e with Err x => Err x | Ok None => Ok ps | Ok (Some g) => Ok (ps ++ [(g, e_cond e)]) end) edges acc).
  { induction edges as [|e r IH]; intros acc; cbn; [reflexivity|]. rewrite csource_push.
    destruct (csource sc e) as [[g|]|x]; try reflexivity; apply IH. }
  rewrite E. reflexivity.
Qed.

(* one row *)
Lemma row_sim phi sr sc cr heads sr1 heads1 sc1 :
  Sim phi sr sc -> StOK fresh GP sc -> cs_heads sc = heads -> row_ok cr ->
  rstep sr heads (cr_row cr) = Some (sr1, heads1) -> cstep_read fresh sc cr = Ok sc1 ->
  exists phi1, Sim phi1 sr1 sc1 /\ cs_heads sc1 = heads1 /\ phi_le phi phi1.
Proof.
  intros Hsim Hst Hh Hok Hr Hc. unfold rstep in Hr.
  destruct (r_type (cr_row cr)) as [cls payloads dec0|tgts| | | | |] eqn:Et.
  - (* node rows *)
    destruct (step_row nab sr (cr_row cr)) as [s'|] eqn:Es; [|discriminate]. injection Hr as <- <-.
    destruct Hok as (Hedges & Henc & Hrow). rewrite Et in Hrow. destruct Hrow as (-> & -> & Hacts).
    unfold step_row in Es. unfold cstep_read in Hc. rewrite Et in Es, Hc.
    set (kind := cr_kind cr) in *.
    change (match (if is_basic_kind kind then match payloads with p :: _ => Some p | [] => None end else None) with
            | Some p => ([(fresh (cs_next sc), p)], S (cs_next sc)) | None => ([], cs_next sc) end)
      with (row_acts fresh sc kind payloads) in Hc.
    destruct (row_acts fresh sc kind payloads) as [acts n1] eqn:Eacts.
    destruct (row_acts_ok fresh sc kind payloads acts n1 Hacts Eacts) as (Haok & Hn1 & Hbelow & Hfresh).
    assert (Hgiven : cr_uuid cr <> [] -> GP (cr_uuid cr)) by (intros Hne; apply (HGP _ (r_node_name (cr_row cr))), Henc, Hne).
    assert (Hname : or_default (cr_uuid cr) (r_node_name (cr_row cr)) = r_node_name (cr_row cr)).
    { unfold or_default. destruct (cr_uuid cr) as [|a u] eqn:Eu; [reflexivity|]. symmetry. apply Henc. discriminate. }
    rewrite Hname in Hc.
    (* which branch: the same on both sides *)
    assert (Hra : (if is_basic_kind kind then match payloads with p :: _ => Some p | [] => None end else None) = None
                  <-> merge_actions (kind_cls kind) payloads = []).
    { destruct kind; cbn; try tauto; destruct payloads; split; intros; congruence. }
    assert (Hnew : ref_new sr (cr_row cr) (kind_cls kind) payloads (kind_dec0 kind) = Some s' ->
                   comp_new fresh sc cr acts n1 payloads = Ok sc1 ->
                   exists phi1, Sim phi1 s' sc1 /\ cs_heads sc1 = cs_heads sc /\ phi_le phi phi1).
    { intros R1 R2. destruct (new_node_sim fresh fresh_inj fresh_not_sentinel GP GP_ns phi sr sc cr payloads acts n1 s' sc1
                               Hsim Hst Hedges Hgiven Hname Haok Hn1 Hbelow Hfresh R1 R2) as (phi1 & H1 & H2 & H3 & _).
      exists phi1. auto. }
    assert (G : exists phi1, Sim phi1 s' sc1 /\ cs_heads sc1 = cs_heads sc /\ phi_le phi phi1);
      [|destruct G as (phi1 & H1 & H2 & H3); exists phi1; split; [exact H1|split; [congruence|exact H3]]].
    pose proof (sim_names _ _ _ Hsim (r_node_name (cr_row cr))) as Hnames.
    destruct (r_node_name (cr_row cr)) as [|a nm] eqn:En.
    + (* no node name *)
      apply Hnew; [unfold ref_new; rewrite En; exact Es|].
      unfold comp_new. rewrite En, Hname. destruct (if is_basic_kind kind then _ else None); exact Hc.
    + specialize (Hnames ltac:(discriminate)).
      destruct (alookup (s_names sr) (a :: nm)) as [k|] eqn:Ek.
      * destruct Hnames as (c & Hck & Ecn). rewrite Ecn in Hc.
        destruct (merge_actions (kind_cls kind) payloads) as [|p0 ps0] eqn:Em.
        -- (* a node of that name exists, but the row brings no action to merge: a node of its own *)
           apply Hnew; [unfold ref_new; rewrite En; exact Es|].
           unfold comp_new. rewrite En, Hname. rewrite (proj2 Hra eq_refl) in Hc. exact Hc.
        -- (* merged *)
           destruct (if is_basic_kind kind then match payloads with p :: _ => Some p | [] => None end else None) as [p|] eqn:Era.
           2:{ pose proof (proj1 Hra eq_refl) as Hx. discriminate Hx. }
           assert (Hmap : map snd acts = payloads).
           { unfold kind in *. destruct (cr_kind cr); cbn in Era; try discriminate; exact Haok. }
           assert (Hpay : p0 :: ps0 = payloads).
           { unfold kind in *. destruct (cr_kind cr); cbn in Era, Em; try discriminate; symmetry; exact Em. }
           destruct (r_edges (cr_row cr)) as [|e [|e2 es]]; try discriminate.
           destruct (negb (cond_blank (e_cond e))); [discriminate|].
           destruct (source_group sr e) as [[g|]|] eqn:Esrc; try discriminate.
           destruct (merge_row_sim fresh fresh_inj GP phi sr sc k (fst c) e g acts n1 payloads (r_id (cr_row cr)) s' sc1 Hsim Hst
                       ltac:(exists c; auto) Hmap Hn1 Hbelow Hfresh Esrc) as [H1 H2]; [exact Es|exact Hc|].
           exists phi. split; [exact H1|split; [exact H2|apply phi_le_refl]].
      * (* no node of that name yet *)
        rewrite Hnames in Hc.
        apply Hnew; [unfold ref_new; rewrite En; exact Es|].
        unfold comp_new. rewrite En, Hname. destruct (if is_basic_kind kind then _ else None); exact Hc.
  - (* go_to *)
    destruct (step_row nab sr (cr_row cr)) as [s'|] eqn:Es; [|discriminate]. injection Hr as <- <-.
    unfold step_row in Es. unfold cstep_read in Hc. rewrite Et in Es, Hc.
    destruct (negb _) eqn:En in Es; [discriminate|]. rewrite En in Hc.
    destruct Hok as [Hedges _].
    match type of Hc with foldM _ ?l0 _ = _ => set (l := l0) in * end.
    assert (HF : Forall (fun et : redge * str => edge_ok (fst et)) l).
    { rewrite Forall_forall in *. intros [e t] Het. apply in_combine_l in Het. apply Hedges, Het. }
    destruct (goto_sim fresh fresh_inj fresh_not_sentinel GP GP_ns l phi sr sc s' sc1 Hsim Hst HF Es Hc) as (phi1 & H1 & H2 & H3).
    exists phi1. split; [exact H1|]. split; [congruence|exact H3].
  - (* no_op *)
    destruct (step_row nab sr (cr_row cr)) as [s'|] eqn:Es; [|discriminate]. injection Hr as <- <-.
    unfold step_row in Es. unfold cstep_read in Hc. rewrite Et in Es, Hc. destruct Hok as [Hedges _].
    exists phi. split; [eapply noop_row_sim; eauto|]. split; [|apply phi_le_refl].
    unfold cparse_noop in Hc. destruct (foldM _ _ []) as [ps|x]; [|discriminate]. injection Hc as <-. exact Hh.
  - (* hard_exit *)
    destruct (step_row nab sr (cr_row cr)) as [s'|] eqn:Es; [|discriminate]. injection Hr as <- <-.
    unfold step_row in Es. unfold cstep_read in Hc. rewrite Et in Es, Hc. destruct Hok as [Hedges _].
    destruct (exit_rows_sim fresh fresh_inj fresh_not_sentinel GP phi sr sc _ DHard sentinel_dst s' sc1 Hsim Hst Hedges) as (phi1 & H1 & H2 & H3); auto.
    + reflexivity.
    + exists phi1. split; [exact H1|]. split; [congruence|exact H3].
  - (* loose_exit *)
    destruct (step_row nab sr (cr_row cr)) as [s'|] eqn:Es; [|discriminate]. injection Hr as <- <-.
    unfold step_row in Es. unfold cstep_read in Hc. rewrite Et in Es, Hc. destruct Hok as [Hedges _].
    destruct (exit_rows_sim fresh fresh_inj fresh_not_sentinel GP phi sr sc _ DNone None s' sc1 Hsim Hst Hedges) as (phi1 & H1 & H2 & H3); auto.
    + exact I.
    + exists phi1. split; [exact H1|]. split; [congruence|exact H3].
  - (* begin_block *)
    destruct (step_row nab sr (cr_row cr)) as [s'|] eqn:Es; [|discriminate]. injection Hr as <- <-.
    unfold step_row in Es. unfold cstep_read in Hc. rewrite Et in Es, Hc. destruct Hok as [Hedges _].
    set (is_start := match r_edges (cr_row cr) with [e] => match e_from e with FStart => true | _ => false end | _ => false end) in *.
    pose proof (Sim_with_stack phi sr sc ([] :: cs_stack sc) (r_id (cr_row cr) :: cs_heads sc) Hsim) as Hs0.
    rewrite <- (sim_stack _ _ _ Hsim) in Hs0 at 1.
    destruct is_start.
    + injection Es as <-. injection Hc as <-. exists phi. split; [exact Hs0|]. split; [cbn; rewrite Hh; reflexivity|apply phi_le_refl].
    + rewrite cparse_noop_push in Hc.
      destruct (fold_left _ (r_edges (cr_row cr)) (Some [])) as [ps|] eqn:E1; [|discriminate]. injection Es as <-.
      destruct (foldM _ (r_edges (cr_row cr)) []) as [ps'|x] eqn:E2; [|discriminate]. injection Hc as <-.
      destruct (noop_parents_sim phi sr sc (r_edges (cr_row cr)) [] ps ps' Hsim Hedges ltac:(constructor) E1 E2) as [<- Hps].
      exists phi. split; [|split; [cbn; rewrite Hh; reflexivity|apply phi_le_refl]].
      assert (G := Sim_add_group phi _ _ (GNoOp ps None) (CGNoOp ps None) [] Hs0 (GS_noop _ _ ps Hps) (fun k (H : In k []) => match H with end)
                     (fun q k (H : GNoOp ps None = GNoOp q (Some k)) => ltac:(discriminate))).
      exact G.
  - (* end_block *)
    destruct heads as [|h heads']; [discriminate|]. rewrite (sim_stack _ _ _ Hsim) in Hr.
    unfold cstep_read in Hc. rewrite Et, Hh in Hc.
    destruct (cs_stack sc) as [|members outer] eqn:Estk; [discriminate|]. injection Hr as <- <-. injection Hc as <-.
    exists phi. split; [|split; [reflexivity|apply phi_le_refl]].
    assert (G := Sim_add_group phi _ _ (GBlock members) (CGBlock members) h (Sim_with_stack phi sr sc outer heads' Hsim) (GS_block _ _ members)
                   (fun k (H : In k []) => match H with end) (fun q k (H : GBlock members = GNoOp q (Some k)) => ltac:(discriminate))).
    exact G.
Qed.

(* the whole loop *)
Theorem run_sim rows : forall phi sr sc heads sr' sc',
  Forall row_ok rows -> (forall cr, In cr rows -> cr_uuid cr <> [] -> GP (cr_uuid cr)) ->
  Sim phi sr sc -> Inv fresh GP sc -> cs_heads sc = heads ->
  run_rows nab (map cr_row rows) sr heads = Some sr' -> foldM (cstep_read fresh) rows sc = Ok sc' ->
  exists phi', Sim phi' sr' sc' /\ Inv fresh GP sc' /\ cs_heads sc' = [] /\ phi_le phi phi'.
Proof.
  induction rows as [|cr rest IH]; intros phi sr sc heads sr' sc' Hok Hgiven Hsim Hinv Hh; cbn [map foldM].
  - cbn. destruct heads; [|discriminate]. intros H1 H2. injection H1 as <-. injection H2 as <-. exists phi.
    split; [exact Hsim|]. split; [exact Hinv|]. split; [exact Hh|apply phi_le_refl].
  - rewrite run_rows_cons. inversion Hok as [|? ? Hcr Hrest]; subst.
    destruct (rstep sr (cs_heads sc) (cr_row cr)) as [[s1 h1]|] eqn:Er; [|discriminate].
    destruct (cstep_read fresh sc cr) as [c1|x] eqn:Ec; [|discriminate]. intros H1 H2.
    destruct (row_sim phi sr sc cr _ s1 h1 c1 Hsim (inv_st _ _ _ Hinv) eq_refl Hcr Er Ec) as (phi1 & S1 & E1 & L1).
    destruct (IH phi1 s1 c1 h1 sr' sc' Hrest) as (phi2 & S2 & I2 & E2 & L2); auto.
    + intros cr0 Hin. apply Hgiven. right. exact Hin.
    + eapply (cstep_read_ok fresh GP fresh_inj); eauto. apply Hgiven. left. reflexivity.
    + exists phi2. split; [exact S2|]. split; [exact I2|]. split; [exact E2|eapply phi_le_trans; eauto].
Qed.
End Run.
End WithNames.
