(* E7/C01 — several flows in one container.  Every FlowParser of a container draws its identifiers from the same
   source (generate_new_uuid); with ONE injective supply shared by the parsers - flow i starts drawing where flow i-1
   stopped - the identifiers the compiler invents are pairwise distinct across the whole document, and the document
   checker of the property (closedb: clauses a-g) accepts it. *)
From Coq Require Import List NArith Bool Arith Lia.
From RPFT Require Import Base.Sexp Base.PyStr Base.PyStrFacts Base.Result Gen.Tables Flow.Lts Flow.Flow Flow.Closed Flow.NodeIdCheck Flow.NodeIdCheckFacts
     Flow.RowSem Comp.Compile Comp.CompileFacts Comp.CompileIds Comp.CompileInv Comp.CompileStep Comp.CompileClosed Comp.CompileDistinct.
Import ListNotations.

Section Doc.
Variable fresh : nat -> id.
Hypothesis fresh_inj : forall a b, fresh a = fresh b -> a = b.

(* the supply as a parser sees it that starts after o draws *)
Definition shift (o : nat) : nat -> id := fun k => fresh (o + k).

Lemma shift_inj o a b : shift o a = shift o b -> a = b.
Proof. unfold shift. intros H. apply fresh_inj in H. lia. Qed.

(* compile the sheets of a container one after the other *)
Fixpoint compile_doc (o : nat) (sheets : list (str * list crow)) : res (list flow) :=
  match sheets with
  | [] => Ok []
  | (name, rows) :: rest =>
    match compile (shift o) name rows with
    | Err e => Err e
    | Ok f => match compile_doc (o + compile_draws (shift o) rows) rest with
              | Err e => Err e
              | Ok fs => Ok (f :: fs)
              end
    end
  end.

(* where the supply stands after the container *)
Fixpoint doc_end (o : nat) (sheets : list (str * list crow)) : nat :=
  match sheets with
  | [] => o
  | (_, rows) :: rest => doc_end (o + compile_draws (shift o) rows) rest
  end.

Lemma doc_end_ge o sheets : o <= doc_end o sheets.
Proof. revert o. induction sheets as [|[nm rows] rest IH]; intros o; cbn; [lia|]. specialize (IH (o + compile_draws (shift o) rows)). lia. Qed.

Lemma NoDup_app_both {X} (a b : list X) : NoDup a -> NoDup b -> (forall x, In x a -> ~ In x b) -> NoDup (a ++ b).
Proof.
  induction a as [|x a IH]; cbn; [auto|]. intros Ha Hb Hd. inversion Ha as [|? ? Hx Hr]; subst. constructor.
  - intros Hin. apply in_app_or in Hin as [Hin|Hin]; [contradiction|]. apply (Hd x); [left; reflexivity|exact Hin].
  - apply IH; [exact Hr|exact Hb|]. intros y Hy. apply Hd. right. exact Hy.
Qed.

(* the invented identifiers of the compiled flows: pairwise distinct, each a draw of the container's range *)
Theorem compile_doc_ids G sheets : forall o fs,
  (forall k, ~ In (fresh k) G) ->
  (forall name rows cr, In (name, rows) sheets -> In cr rows -> cr_uuid cr <> [] -> In (cr_uuid cr) G) ->
  compile_checks_node_uuids = true -> compile_doc o sheets = Ok fs ->
  NoDup (filter (invented G) (doc_def_ids fs))
  /\ (forall u, In u (filter (invented G) (doc_def_ids fs)) -> exists k, o <= k < doc_end o sheets /\ u = fresh k)
  /\ (forall f, In f fs -> FlowClosed f).
Proof.
  induction sheets as [|[name rows] rest IH]; intros o fs HG Hrows Hc; cbn [compile_doc doc_end].
  - intros H. injection H as <-. cbn. split; [constructor|]. split; [intros u []|intros f []].
  - destruct (compile (shift o) name rows) as [f|e] eqn:Ef; [|discriminate].
    destruct (compile_doc (o + compile_draws (shift o) rows) rest) as [fs'|e] eqn:Er; [|discriminate]. intros H. injection H as <-.
    assert (Hv : forall us, compile_flow_validation us = None -> NoDup us).
    { intros us. unfold compile_flow_validation. rewrite Hc. apply node_id_check_spec. }
    destruct (compile_def_ids (shift o) (shift_inj o) (fun u => In u G) (fun u Hin k E => HG (o + k) (eq_ind _ (fun x => In x G) Hin _ E))
                              _ name rows f Hv (fun cr Hcr Hne => Hrows name rows cr (or_introl eq_refl) Hcr Hne) Ef) as [Hnd Hsrc].
    destruct (IH (o + compile_draws (shift o) rows) fs' HG (fun nm rws cr Hin => Hrows nm rws cr (or_intror Hin)) Hc Er) as (Hnd' & Hsrc' & Hcl').
    assert (Hthis : forall u, In u (filter (invented G) (flow_def_ids f)) -> exists k, o <= k < o + compile_draws (shift o) rows /\ u = fresh k).
    { intros u Hu. apply filter_In in Hu as [Hin Hinv]. destruct (Hsrc u Hin) as [HG'|(k & Hk & ->)].
      - unfold invented in Hinv. apply memb_In in HG'. rewrite HG' in Hinv. discriminate.
      - exists (o + k). split; [lia|reflexivity]. }
    pose proof (doc_end_ge (o + compile_draws (shift o) rows) rest) as Hge.
    unfold doc_def_ids. cbn [flat_map]. rewrite filter_app. split; [|split].
    + apply NoDup_app_both; [apply NoDup_filter, Hnd|exact Hnd'|].
      intros u Hu Hu'. destruct (Hthis u Hu) as (k & Hk & ->). destruct (Hsrc' _ Hu') as (k' & Hk' & E). apply fresh_inj in E. lia.
    + intros u Hu. apply in_app_or in Hu as [Hu|Hu].
      * destruct (Hthis u Hu) as (k & Hk & ->). exists k. split; [lia|reflexivity].
      * destruct (Hsrc' u Hu) as (k & Hk & ->). exists k. split; [lia|reflexivity].
    + intros f0 [<-|Hin]; [eapply (compile_with_closed (shift o) (shift_inj o)); eauto|apply Hcl', Hin].
Qed.

(* all of (a)-(g) for the document: the checker accepts it, for every set G of given identifiers that holds the rows'
   `_nodeId`s and none of the supply's, when the identifiers the container draws are RFC-4122 v4 strings *)
Theorem compile_container_closed G sheets fs :
  (forall k, k < doc_end 0 sheets -> is_uuid4 (fresh k) = true) -> (forall k, ~ In (fresh k) G) ->
  (forall name rows cr, In (name, rows) sheets -> In cr rows -> cr_uuid cr <> [] -> In (cr_uuid cr) G) ->
  compile_checks_node_uuids = true -> compile_doc 0 sheets = Ok fs -> closedb G fs = true.
Proof.
  intros Hu4 HG Hrows Hc Hf. apply closedb_spec.
  destruct (compile_doc_ids G sheets 0 fs HG Hrows Hc Hf) as (Hnd & Hsrc & Hcl).
  constructor; [exact Hcl|exact Hnd|]. intros u Hu. destruct (Hsrc u Hu) as (k & Hk & ->). apply Hu4. lia.
Qed.
End Doc.

(* ---------------------------------------------------------------- non-vacuity: a container with two flows *)
From RPFT Require Import Comp.CompileExamples Comp.CompileExampleFacts.

(* one template compiled into two flows (the same given `_nodeId`s in both - they are GIVEN, not invented) and a flow
   with a router and named categories, one supply of version-4 uuid strings for the whole container *)
Definition ex_container : list (str * list crow) := [(ex_name, ex_given); ([103%N], ex_given); ([104%N], ex_router)].

Example compile_container_closed_example :
  (forall k, k < doc_end uuid_fresh 0 ex_container -> is_uuid4 (uuid_fresh k) = true)
  /\ (forall k, ~ In (uuid_fresh k) ex_given_ids)
  /\ (forall name rows cr, In (name, rows) ex_container -> In cr rows -> cr_uuid cr <> [] -> In (cr_uuid cr) ex_given_ids)
  /\ exists fs, compile_doc uuid_fresh 0 ex_container = Ok fs /\ length fs = 3 /\ closedb ex_given_ids fs = true
               /\ length (filter (invented ex_given_ids) (doc_def_ids fs)) = 50.
Proof.
  destruct compile_doc_closed_example as (_ & _ & HG & Hgiven & _ & _).
  split; [|split; [exact HG|split]].
  - intros k Hk. apply uuid_fresh_uuid4. assert (E : doc_end uuid_fresh 0 ex_container <= 256) by (vm_compute; lia). lia.
  - intros name rows cr [E|[E|[E|[]]]] Hcr Hne; injection E as <- <-.
    + apply Hgiven; assumption.
    + apply Hgiven; assumption.
    + exfalso. assert (F : forallb (fun c => match cr_uuid c with [] => true | _ => false end) ex_router = true) by (vm_compute; reflexivity).
      rewrite forallb_forall in F. specialize (F cr Hcr). destruct (cr_uuid cr); [contradiction|discriminate].
  - let r := eval vm_compute in (compile_doc uuid_fresh 0 ex_container) in
    match r with Ok ?fs => exists fs; split; [vm_compute; reflexivity|split; [vm_compute; reflexivity|split; vm_compute; reflexivity]] end.
Qed.
