(* Facts about the typed template arguments of insert_as_block rows (Comp/InsertArgs.v): a complete characterisation of
   the binding over OBJECTS, the named corollaries C03 needs ("instantiated with its own data row and arguments": the
   argument given is the argument bound, whatever its type and truth value; only the empty string is a blank), the link
   with the string-level model of C12 (Index/Args.v), and the loop statement: a loop that hands its variable to an
   inserted template natively instantiates the template, element by element, exactly as the unrolled rows do. *)
From Coq Require Import List NArith ZArith Bool Lia PeanoNat Arith.
From RPFT Require Import Base.Sexp Base.PyStr Base.ODict Base.Result Gen.Tables Cell.Cell Index.Args Index.ArgsFacts
  Tmpl.MiniJinja Tmpl.RowLoop Tmpl.TmplFacts Tmpl.Insert Comp.InsertArgs.
Import ListNotations.

(* ---- association lists over objects: a new key is appended ---- *)
Lemma oset_new_v : forall (c : tctx) k v, oget str_eqb c k = None -> oset str_eqb c k v = c ++ [(k, v)].
Proof.
  induction c as [|[k' v'] r IH]; intros k v H; cbn in *; [reflexivity|].
  destruct (str_eqb k' k); [discriminate|]. rewrite IH by exact H. reflexivity.
Qed.

Lemma oget_app_v : forall (c l : tctx) k,
  oget str_eqb (c ++ l) k = match oget str_eqb c k with Some v => Some v | None => oget str_eqb l k end.
Proof.
  induction c as [|[k' v'] r IH]; intros l k; cbn; [reflexivity|].
  destruct (str_eqb k' k); [reflexivity|apply IH].
Qed.

Lemma ocontains_false_v : forall (c : tctx) k, ocontains str_eqb c k = false <-> oget str_eqb c k = None.
Proof. intros c k. unfold ocontains. destruct (oget str_eqb c k); split; congruence. Qed.

(* ---- only the empty string is a blank ---- *)
Lemma is_blank_iff : forall v, is_blank v = true <-> v = VStr [].
Proof.
  intros v. split.
  - destruct v as [| | |s| | | | |]; try discriminate. destruct s; [reflexivity|discriminate].
  - intros ->. reflexivity.
Qed.

(* the objects Python calls false and that are NOT the empty string *)
Definition falsy_object (v : value) : Prop := falsy v = true /\ v <> VStr [].

Lemma falsy_objects :
  falsy_object (VInt 0) /\ falsy_object (VBool false) /\ falsy_object VNone /\ falsy_object (VList [])
  /\ falsy_object (VTuple []) /\ falsy_object (VDict []).
Proof. repeat split; try reflexivity; discriminate. Qed.

Lemma falsy_object_not_blank : forall v, falsy_object v -> is_blank v = false.
Proof.
  intros v [_ H]. destruct (is_blank v) eqn:E; [|reflexivity]. apply is_blank_iff in E. contradiction.
Qed.

(* ---- what one declaration/argument pair binds, declaratively ---- *)
Definition bound (sheets : tsheets) (d : argdef) (a : value) : option value :=
  let v := arg_value d a in
  if is_blank v then None
  else if str_eqb (ad_type d) sheet_type_kw then
    match v with
    | VStr s => oget str_eqb sheets s
    | _ => None
    end
  else Some v.

Fixpoint bound_all (sheets : tsheets) (das : list (argdef * value)) : option tctx :=
  match das with
  | [] => Some []
  | (d, a) :: r => match bound sheets d a, bound_all sheets r with
                   | Some v, Some l => Some ((ad_name d, v) :: l)
                   | _, _ => None
                   end
  end.

Lemma bind_one_ok : forall sheets (c c' : tctx) d a,
  bind_one sheets c d a = Ok c' <->
  oget str_eqb c (ad_name d) = None /\ exists v, bound sheets d a = Some v /\ c' = c ++ [(ad_name d, v)].
Proof.
  intros sheets c c' d a. unfold bind_one, bound.
  destruct (ocontains str_eqb c (ad_name d)) eqn:Hc.
  - split; [discriminate|]. intros [H _]. apply ocontains_false_v in H. congruence.
  - apply ocontains_false_v in Hc.
    destruct (is_blank (arg_value d a)).
    { split; [discriminate|]. intros [_ [v [H _]]]. discriminate. }
    destruct (str_eqb (ad_type d) sheet_type_kw).
    + destruct (arg_value d a) as [|b|z|s|l|l|dd|n|];
        try (match goal with |- context [hashable ?x] => destruct (hashable x) end;
             (split; [discriminate|intros [_ [v [H _]]]; discriminate])).
      destruct (oget str_eqb sheets s) as [rows|].
      * rewrite oset_new_v by exact Hc. split.
        -- intros H. inversion H; subst. split; [exact Hc|]. eexists. split; reflexivity.
        -- intros [_ [v [H1 H2]]]. inversion H1; subst. reflexivity.
      * split; [discriminate|]. intros [_ [v [H _]]]. discriminate.
    + rewrite oset_new_v by exact Hc. split.
      * intros H. inversion H; subst. split; [exact Hc|]. eexists. split; reflexivity.
      * intros [_ [v [H1 H2]]]. inversion H1; subst. reflexivity.
Qed.

Definition names (das : list (argdef * value)) : list str := map (fun da => ad_name (fst da)) das.

(* the complete characterisation of the loop *)
Lemma bind_all_ok : forall sheets das (c c' : tctx),
  bind_all sheets das c = Ok c' <->
  NoDup (names das) /\ (forall n, In n (names das) -> oget str_eqb c n = None)
  /\ exists l, bound_all sheets das = Some l /\ c' = c ++ l.
Proof.
  intros sheets das. induction das as [|[d a] r IH]; intros c c'; cbn [bind_all bound_all names map fst].
  - split.
    + intros H. inversion H; subst. split; [constructor|]. split; [intros n []|].
      exists []. rewrite app_nil_r. split; reflexivity.
    + intros [_ [_ [l [H1 H2]]]]. inversion H1; subst. rewrite app_nil_r. reflexivity.
  - destruct (bind_one sheets c d a) as [c1|e] eqn:Hb.
    + apply bind_one_ok in Hb. destruct Hb as [Hc [v [Hv Hc1]]]. subst c1.
      rewrite IH. rewrite Hv. fold (names r). split.
      * intros [Hnd [Hdis [l [Hl Hc']]]]. split; [|split].
        -- constructor; [|exact Hnd]. intros Hin. specialize (Hdis _ Hin).
           rewrite oget_app_v, Hc in Hdis. cbn in Hdis. rewrite str_eqb_refl in Hdis. discriminate.
        -- intros n [Hn|Hn]; [subst; exact Hc|]. specialize (Hdis _ Hn).
           rewrite oget_app_v in Hdis. destruct (oget str_eqb c n); [discriminate|reflexivity].
        -- rewrite Hl. eexists. split; [reflexivity|]. rewrite Hc', <- app_assoc. reflexivity.
      * intros [Hnd [Hdis [l [Hl Hc']]]]. inversion Hnd as [|x xs Hnotin Hnd']; subst.
        destruct (bound_all sheets r) as [l'|]; [|discriminate]. inversion Hl; subst.
        split; [exact Hnd'|]. split.
        -- intros n Hn. rewrite oget_app_v. rewrite (Hdis n (or_intror Hn)). cbn.
           rewrite str_eqb_neq; [reflexivity|]. intros Heq. subst. contradiction.
        -- exists l'. split; [reflexivity|]. rewrite <- app_assoc. reflexivity.
    + split; [discriminate|]. intros [Hnd [Hdis [l [Hl Hc']]]]. exfalso.
      assert (Hno : forall c1, bind_one sheets c d a <> Ok c1) by (intros c1; rewrite Hb; discriminate).
      destruct (bound sheets d a) as [v|] eqn:Hv; [|discriminate].
      apply (Hno (c ++ [(ad_name d, v)])). apply bind_one_ok. split.
      * apply Hdis. left. reflexivity.
      * exists v. split; [exact Hv|reflexivity].
Qed.

(* ---- fit: exactly one argument per declaration, positional ---- *)
Lemma fit_length : forall n (args : list value), length (fit n args) = n.
Proof. intros n args. unfold fit. rewrite app_length, repeat_length, firstn_length. lia. Qed.

Lemma fit_nth : forall n (args : list value) i, (i < n)%nat -> nth i (fit n args) (VStr []) = nth i args (VStr []).
Proof.
  intros n args i Hi. unfold fit.
  destruct (Nat.lt_ge_cases i (length (firstn n args))) as [Hlt|Hge].
  - rewrite app_nth1 by exact Hlt. rewrite firstn_length in Hlt.
    rewrite <- (firstn_skipn n args) at 2. rewrite app_nth1; [reflexivity|]. rewrite firstn_length. exact Hlt.
  - rewrite app_nth2 by exact Hge. rewrite firstn_length in *.
    assert (Hrep : forall k m, nth k (repeat (VStr []) m) (VStr []) = VStr []).
    { intros k m. revert k. induction m as [|m IHm]; intros [|k]; cbn; auto. }
    rewrite Hrep. symmetry. apply nth_overflow. lia.
Qed.

Definition pairs (defs : list argdef) (args : list value) := combine defs (fit (length defs) args).

Lemma pairs_names : forall defs args, names (pairs defs args) = map ad_name defs.
Proof.
  intros defs args. unfold pairs, names.
  assert (H : forall (l : list argdef) (l' : list value), length l = length l' ->
              map (fun da : argdef * value => ad_name (fst da)) (combine l l') = map ad_name l).
  { induction l as [|x l IH]; intros [|y l'] Hl; cbn in *; try discriminate; [reflexivity|].
    f_equal. apply IH. lia. }
  apply H. rewrite fit_length. reflexivity.
Qed.

Lemma pairs_nth : forall defs args i d,
  nth_error defs i = Some d -> nth_error (pairs defs args) i = Some (d, nth i args (VStr [])).
Proof.
  intros defs args i d Hd. unfold pairs.
  assert (Hi : (i < length defs)%nat) by (apply nth_error_Some; congruence).
  rewrite <- (fit_nth (length defs) args i Hi).
  apply combine_nth_error; [|exact Hd]. rewrite fit_length. reflexivity.
Qed.

Lemma bound_all_nth : forall sheets das l i d a,
  bound_all sheets das = Some l -> nth_error das i = Some (d, a) ->
  exists v, bound sheets d a = Some v /\ nth_error l i = Some (ad_name d, v).
Proof.
  intros sheets das. induction das as [|[d0 a0] r IH]; intros l i d a Hl Hn.
  - destruct i; discriminate.
  - cbn in Hl. destruct (bound sheets d0 a0) as [v0|] eqn:Hv0; [|discriminate].
    destruct (bound_all sheets r) as [l0|] eqn:Hl0; [|discriminate]. inversion Hl; subst.
    destruct i as [|i]; cbn in Hn.
    + inversion Hn; subst. exists v0. split; [exact Hv0|reflexivity].
    + cbn. apply (IH l0 i d a eq_refl Hn).
Qed.

Lemma bound_all_keys : forall sheets das l, bound_all sheets das = Some l -> okeys l = names das.
Proof.
  intros sheets das. induction das as [|[d a] r IH]; intros l H; cbn in H.
  - inversion H. reflexivity.
  - destruct (bound sheets d a); [|discriminate]. destruct (bound_all sheets r) as [l0|]; [|discriminate].
    inversion H; subst. cbn. f_equal. apply IH. reflexivity.
Qed.

Lemma oget_nodup_nth_v : forall (l : tctx) i k v,
  NoDup (okeys l) -> nth_error l i = Some (k, v) -> oget str_eqb l k = Some v.
Proof.
  induction l as [|[k0 v0] r IH]; intros i k v Hnd Hn.
  - destruct i; discriminate.
  - cbn in Hnd. inversion Hnd as [|x xs Hnotin Hnd']; subst. destruct i as [|i]; cbn in Hn.
    + inversion Hn; subst. cbn. rewrite str_eqb_refl. reflexivity.
    + cbn. destruct (str_eqb k0 k) eqn:E.
      * apply str_eqb_iff in E. subst. exfalso. apply Hnotin.
        apply nth_error_In in Hn. apply (in_map fst) in Hn. exact Hn.
      * apply (IH i k v Hnd' Hn).
Qed.

(* ---- the characterisation of map_template_arguments_to_context over objects ---- *)
Theorem bind_args_ok_iff : forall sheets defs args (c c' : tctx),
  bind_args sheets defs args c = Ok c' <->
  NoDup (map ad_name defs) /\ (forall n, In n (map ad_name defs) -> oget str_eqb c n = None)
  /\ exists l, bound_all sheets (pairs defs args) = Some l /\ c' = c ++ l.
Proof.
  intros sheets defs args c c'. unfold bind_args. fold (pairs defs args).
  rewrite bind_all_ok, pairs_names. reflexivity.
Qed.

(* arguments bind positionally; what is bound is [bound] of the argument at that position *)
Theorem typed_args_positional : forall sheets defs args (c c' : tctx) i d,
  bind_args sheets defs args c = Ok c' -> nth_error defs i = Some d ->
  exists v, bound sheets d (nth i args (VStr [])) = Some v /\ oget str_eqb c' (ad_name d) = Some v.
Proof.
  intros sheets defs args c c' i d H Hd. apply bind_args_ok_iff in H.
  destruct H as [Hnd [Hdis [l [Hl Hc']]]].
  destruct (bound_all_nth _ _ _ _ _ _ Hl (pairs_nth defs args i d Hd)) as [v [Hv Hn]].
  exists v. split; [exact Hv|]. subst c'. rewrite oget_app_v.
  rewrite (Hdis (ad_name d)); [|apply in_map; apply nth_error_In with i; exact Hd].
  apply oget_nodup_nth_v with i; [|exact Hn].
  rewrite (bound_all_keys _ _ _ Hl), pairs_names. exact Hnd.
Qed.

(* the data row (and whatever else the context held) is untouched *)
Theorem typed_context_kept : forall sheets defs args (c c' : tctx) k v,
  bind_args sheets defs args c = Ok c' -> oget str_eqb c k = Some v -> oget str_eqb c' k = Some v.
Proof.
  intros sheets defs args c c' k v H Hk. apply bind_args_ok_iff in H.
  destruct H as [_ [_ [l [_ Hc']]]]. subst c'. rewrite oget_app_v, Hk. reflexivity.
Qed.

(* THE statement: an argument that is not the empty string is the value the template is instantiated with — whatever
   its type and whatever Python thinks of its truth value *)
Theorem given_argument_reaches_template : forall sheets defs args (c c' : tctx) i d,
  bind_args sheets defs args c = Ok c' -> nth_error defs i = Some d ->
  str_eqb (ad_type d) sheet_type_kw = false ->
  nth i args (VStr []) <> VStr [] ->
  oget str_eqb c' (ad_name d) = Some (nth i args (VStr [])).
Proof.
  intros sheets defs args c c' i d H Hd Hty Hnb.
  destruct (typed_args_positional _ _ _ _ _ _ _ H Hd) as [v [Hv Hg]].
  unfold bound, arg_value in Hv.
  destruct (is_blank (nth i args (VStr []))) eqn:Hb; [apply is_blank_iff in Hb; contradiction|].
  rewrite Hb, Hty in Hv. inversion Hv; subst. exact Hg.
Qed.

Corollary falsy_argument_is_kept : forall sheets defs args (c c' : tctx) i d,
  bind_args sheets defs args c = Ok c' -> nth_error defs i = Some d ->
  str_eqb (ad_type d) sheet_type_kw = false ->
  falsy_object (nth i args (VStr [])) ->
  oget str_eqb c' (ad_name d) = Some (nth i args (VStr [])).
Proof.
  intros sheets defs args c c' i d H Hd Hty [_ Hne].
  exact (given_argument_reaches_template sheets defs args c c' i d H Hd Hty Hne).
Qed.

(* a blank or missing position takes the declared default (a str) *)
Theorem typed_blank_takes_default : forall sheets defs args (c c' : tctx) i d,
  bind_args sheets defs args c = Ok c' -> nth_error defs i = Some d ->
  str_eqb (ad_type d) sheet_type_kw = false ->
  nth i args (VStr []) = VStr [] ->
  oget str_eqb c' (ad_name d) = Some (VStr (ad_default d)) /\ ad_default d <> [].
Proof.
  intros sheets defs args c c' i d H Hd Hty Hb.
  destruct (typed_args_positional _ _ _ _ _ _ _ H Hd) as [v [Hv Hg]].
  unfold bound, arg_value in Hv. rewrite Hb in Hv. cbn [is_blank] in Hv.
  destruct (ad_default d) as [|ch r] eqn:Hdf; [discriminate|].
  cbn [is_blank] in Hv. rewrite Hty in Hv. inversion Hv; subst. split; [exact Hg|discriminate].
Qed.

(* a required argument (no default) that is blank or missing stops the run; a FALSY object is not missing *)
Theorem typed_missing_required_is_error : forall sheets defs args (c : tctx) i d,
  nth_error defs i = Some d -> ad_default d = [] -> nth i args (VStr []) = VStr [] ->
  forall c', bind_args sheets defs args c <> Ok c'.
Proof.
  intros sheets defs args c i d Hd Hdf Hb c' H.
  destruct (typed_args_positional _ _ _ _ _ _ _ H Hd) as [v [Hv _]].
  unfold bound, arg_value in Hv. rewrite Hb in Hv. cbn [is_blank] in Hv. rewrite Hdf in Hv. discriminate.
Qed.

(* surplus arguments are ignored, whatever they are (they only decide about a warning) *)
Theorem typed_extra_args_ignored : forall sheets defs args extra (c : tctx),
  (length defs <= length args)%nat ->
  bind_args sheets defs (args ++ extra) c = bind_args sheets defs args c.
Proof.
  intros sheets defs args extra c Hl. unfold bind_args, fit.
  rewrite firstn_app. replace (length defs - length args)%nat with 0%nat by lia.
  cbn [firstn]. rewrite app_nil_r. reflexivity.
Qed.

(* ---- the link with the string-level model of C12 (Index/Args.v): on arguments that are strings / nested lists of
   strings — everything a content-index row and a text cell can hold — the two bindings are the same function ---- *)
Section Link.
Context {D : Type}.
Variable inj : D -> value.                     (* how a data-row field is an object *)
Variable rows_value : dsheet D -> value.       (* how the rows of a data sheet are an object *)

Definition cval_value (v : cval D) : value :=
  match v with VData d => inj d | VArg a => nv_to_value a | VRows r => rows_value r end.
Definition ctx_value (c : Args.ctx D) : tctx := map (fun kv => (fst kv, cval_value (snd kv))) c.
Definition sheets_value (s : list (str * dsheet D)) : tsheets := map (fun kv => (fst kv, rows_value (snd kv))) s.

Lemma nv_blank : forall a, is_blank (nv_to_value a) = Args.is_blank a.
Proof. intros [s|l]; [destruct s; reflexivity|reflexivity]. Qed.

Lemma nv_arg_value : forall d a, arg_value d (nv_to_value a) = nv_to_value (Args.arg_value d a).
Proof.
  intros d a. unfold arg_value, Args.arg_value. rewrite nv_blank. destruct (Args.is_blank a); reflexivity.
Qed.

Lemma oget_ctx_value : forall (c : Args.ctx D) k,
  oget str_eqb (ctx_value c) k = option_map cval_value (oget str_eqb c k).
Proof.
  induction c as [|[k' v'] r IH]; intros k; cbn; [reflexivity|]. destruct (str_eqb k' k); [reflexivity|apply IH].
Qed.

Lemma oget_sheets_value : forall (s : list (str * dsheet D)) k,
  oget str_eqb (sheets_value s) k = option_map rows_value (oget str_eqb s k).
Proof.
  induction s as [|[k' v'] r IH]; intros k; cbn; [reflexivity|]. destruct (str_eqb k' k); [reflexivity|apply IH].
Qed.

Lemma oset_ctx_value : forall (c : Args.ctx D) k v,
  oset str_eqb (ctx_value c) k (cval_value v) = ctx_value (oset str_eqb c k v).
Proof.
  induction c as [|[k' v'] r IH]; intros k v; cbn; [reflexivity|].
  destruct (str_eqb k' k); cbn; [reflexivity|]. rewrite IH. reflexivity.
Qed.

Definition berr_of (e : aerr) : berr :=
  match e with
  | EDoubly n => BDoubly n
  | ERequired n => BRequired n
  | EUnknownSheet n => BUnknownSheet (VStr n)
  | EUnhashable => BUnhashable
  end.

Definition res_value (r : result aerr (Args.ctx D)) : result berr tctx :=
  match r with Ok c => Ok (ctx_value c) | Err e => Err (berr_of e) end.

Lemma bind_one_link : forall sheets (c : Args.ctx D) d a,
  bind_one (sheets_value sheets) (ctx_value c) d (nv_to_value a) = res_value (Args.bind_one sheets c d a).
Proof.
  intros sheets c d a. unfold bind_one, Args.bind_one, ocontains. rewrite oget_ctx_value.
  destruct (oget str_eqb c (ad_name d)); cbn [option_map]; [reflexivity|].
  rewrite nv_arg_value, nv_blank. destruct (Args.is_blank (Args.arg_value d a)); [reflexivity|].
  destruct (str_eqb (ad_type d) sheet_type_kw).
  - destruct (Args.arg_value d a) as [s|l]; cbn [nv_to_value].
    + rewrite oget_sheets_value. destruct (oget str_eqb sheets s) as [rows|]; cbn [option_map res_value berr_of]; [|reflexivity].
      change (rows_value rows) with (cval_value (VRows rows)). rewrite oset_ctx_value. reflexivity.
    + reflexivity.
  - cbn [res_value]. change (nv_to_value (Args.arg_value d a)) with (cval_value (VArg (Args.arg_value d a))).
    rewrite oset_ctx_value. reflexivity.
Qed.

Lemma bind_all_link : forall sheets das (c : Args.ctx D),
  bind_all (sheets_value sheets) (map (fun da => (fst da, nv_to_value (snd da))) das) (ctx_value c)
  = res_value (Args.bind_all sheets das c).
Proof.
  intros sheets das. induction das as [|[d a] r IH]; intros c; cbn [map bind_all Args.bind_all fst snd]; [reflexivity|].
  rewrite bind_one_link. destruct (Args.bind_one sheets c d a) as [c1|e]; cbn [res_value]; [apply IH|reflexivity].
Qed.

Lemma fit_link : forall n (args : list nv), fit n (map nv_to_value args) = map nv_to_value (fit_args n args).
Proof.
  intros n args. unfold fit, fit_args. rewrite map_app, firstn_map, !map_length.
  f_equal. generalize (n - length (firstn n args))%nat. intros k. induction k as [|k IH]; cbn; [reflexivity|f_equal; exact IH].
Qed.

Lemma combine_map_r : forall (A B C : Type) (f : B -> C) (l : list A) (l' : list B),
  combine l (map f l') = map (fun p => (fst p, f (snd p))) (combine l l').
Proof. induction l as [|x l IH]; intros [|y l']; cbn; try reflexivity. f_equal. apply IH. Qed.

Theorem typed_binding_extends_string_binding : forall sheets defs (args : list nv) (c : Args.ctx D),
  bind_args (sheets_value sheets) defs (map nv_to_value args) (ctx_value c)
  = res_value (map_template_arguments_to_context sheets defs args c).
Proof.
  intros sheets defs args c. unfold bind_args, map_template_arguments_to_context.
  rewrite fit_link, combine_map_r. apply bind_all_link.
Qed.
End Link.

(* ---- the road from the insert row to the context ---- *)

(* nothing of the inserting context reaches the inserted template except through the value of the argument cell *)
Theorem insert_context_only_through_cell : forall pe pn sheets defs row o1 o2 cell,
  insert_args pe pn o1 cell = insert_args pe pn o2 cell ->
  insert_context pe pn sheets defs row o1 cell = insert_context pe pn sheets defs row o2 cell.
Proof. intros pe pn sheets defs row o1 o2 cell H. unfold insert_context. rewrite H. reflexivity. Qed.

(* a whole-cell native template over a NON-EMPTY context: the value of its expression, provided the cell is in the
   sub-language (closed, computable side conditions on the text of the cell) *)
Definition native_cell_ok (e : expr) : bool :=
  let stripped := strip (show_cell (CNative e)) in
  cell_ok (CNative e) && starts_with [123; 64]%N stripped && ends_with [64; 125]%N stripped
  && negb (find_sub [123; 64]%N (skipn 2 stripped)).

Lemma parse_native_cell : forall pe pn cx e,
  cx <> [] -> native_cell_ok e = true ->
  parse_m pe pn (Some cx) (CNative e)
  = match eval_native native_result_checked pn e cx with Err er => Err er | Ok x => Ok (PObj x) end.
Proof.
  intros pe pn cx e Hcx H. unfold native_cell_ok in H.
  apply andb_true_iff in H. destruct H as [H H4]. apply andb_true_iff in H. destruct H as [H H3].
  apply andb_true_iff in H. destruct H as [H1 H2]. apply negb_true_iff in H4.
  destruct cx as [|kv rest]; [contradiction|].
  unfold parse_m, parse_f, parse_as_string_m, parse_as_string_f, tree_flags. cbn [f_nat_check andb].
  rewrite H1. cbn [negb]. rewrite H2, H3. cbn [andb]. rewrite H4.
  destruct (eval_native native_result_checked pn e (kv :: rest)); reflexivity.
Qed.

(* ---- the loop statement.  The insert row `insert_as_block t` with template_arguments {@ [k] @} — the loop variable
   handed over as the OBJECT it is — inside `begin_for k in <elements>`.  In the iteration for element e the
   inserting context binds k to e (whatever else it holds: RowLoop/Blocks say what, and that the binding is gone
   after end_for); the template is instantiated with e ITSELF as its first argument: the same context the unrolled
   row (whose argument list is the one-element list [e]) gives.  In particular for e = 0, False, None, []: the first
   element of a range is not replaced by the declared default. ---- *)
Definition kname : str := [107]%N.                                  (* k *)
Definition cell_k : cell := CNative (EList [EVar kname]).           (* {@ [k] @} *)
Definition cell_k_scalar : cell := CNative (EVar kname).            (* {@ k @} *)

Lemma cell_k_ok : native_cell_ok (EList [EVar kname]) = true.
Proof. vm_compute. reflexivity. Qed.
Lemma cell_k_scalar_ok : native_cell_ok (EVar kname) = true.
Proof. vm_compute. reflexivity. Qed.
Lemma kname_free : reserved_var kname = false.
Proof. vm_compute. reflexivity. Qed.

Lemma lookup_nonempty : forall (cx : ctx) x v, lookup cx x = Some v -> cx <> [].
Proof. intros [|kv r] x v H; [discriminate|discriminate]. Qed.

Lemma insert_args_cell_k : forall pe pn cx e,
  lookup cx kname = Some e -> has_undef e = false ->
  insert_args pe pn cx (Some cell_k) = Ok [e].
Proof.
  intros pe pn cx e Hl Hu. unfold insert_args, cell_k.
  rewrite parse_native_cell; [|apply (lookup_nonempty _ _ _ Hl)|apply cell_k_ok].
  unfold eval_native. cbn [eval]. rewrite kname_free, Hl.
  rewrite has_undef_list. cbn [existsb]. rewrite Hu. cbn [orb]. rewrite andb_false_r. reflexivity.
Qed.

(* {@ k @}: a scalar object is the one-element argument list (a list would be the argument list itself) *)
Definition scalar_object (v : value) : Prop :=
  match v with VNone | VBool _ | VInt _ => True | _ => False end.

Lemma insert_args_cell_k_scalar : forall pe pn cx e,
  lookup cx kname = Some e -> scalar_object e ->
  insert_args pe pn cx (Some cell_k_scalar) = Ok [e].
Proof.
  intros pe pn cx e Hl Hs. unfold insert_args, cell_k_scalar.
  rewrite parse_native_cell; [|apply (lookup_nonempty _ _ _ Hl)|apply cell_k_scalar_ok].
  unfold eval_native. cbn [eval]. rewrite kname_free, Hl.
  destruct e; try contradiction; cbn [has_undef]; rewrite andb_false_r; reflexivity.
Qed.

Theorem loop_hands_each_element_to_template : forall pe pn sheets defs row (cxs : list tctx) (es : list value),
  Forall2 (fun cx e => lookup cx kname = Some e /\ has_undef e = false) cxs es ->
  map (fun cx => insert_context pe pn sheets defs row cx (Some cell_k)) cxs
  = map (fun e => bind_args sheets defs [e] row) es.
Proof.
  intros pe pn sheets defs row cxs es H. induction H as [|cx e cxs es [Hl Hu] _ IH]; [reflexivity|].
  cbn [map]. rewrite IH. f_equal. unfold insert_context. rewrite (insert_args_cell_k pe pn cx e Hl Hu). reflexivity.
Qed.

(* one declared (non-sheet) argument, any default: element e arrives as e — unless it is the empty string *)
Lemma bind_single : forall (d : argdef) (e : value) (row : tctx),
  str_eqb (ad_type d) sheet_type_kw = false -> oget str_eqb row (ad_name d) = None -> e <> VStr [] ->
  bind_args [] [d] [e] row = Ok (row ++ [(ad_name d, e)]).
Proof.
  intros d e row Hty Hfree Hne. apply bind_args_ok_iff. split; [|split].
  - cbn. constructor; [intros []|constructor].
  - intros n [Hn|[]]. subst. exact Hfree.
  - exists [(ad_name d, e)]. split; [|reflexivity].
    unfold pairs. cbn [length fit firstn app repeat Nat.sub combine bound_all].
    unfold bound, arg_value. destruct (is_blank e) eqn:Hb; [apply is_blank_iff in Hb; contradiction|].
    rewrite Hb, Hty. reflexivity.
Qed.

Lemma zrange_shape : forall n, Forall (fun e => exists k, e = VInt (Z.of_nat k)) (zrange n).
Proof. intros n. unfold zrange. apply Forall_forall. intros e He. apply in_map_iff in He. destruct He as [k [Hk _]]. eauto. Qed.

(* begin_for k in range(n) / insert_as_block t {@ [k] @}: the insertions are instantiated with 0, 1, ..., n-1 *)
Theorem range_loop_hands_each_index : forall pe pn d row n (cxs : list tctx),
  str_eqb (ad_type d) sheet_type_kw = false -> oget str_eqb row (ad_name d) = None ->
  Forall2 (fun cx e => lookup cx kname = Some e) cxs (zrange n) ->
  map (fun cx => insert_context pe pn [] [d] row cx (Some cell_k)) cxs
  = map (fun e => Ok (row ++ [(ad_name d, e)])) (zrange n).
Proof.
  intros pe pn d row n cxs Hty Hfree H.
  rewrite (loop_hands_each_element_to_template pe pn [] [d] row cxs (zrange n)).
  - apply map_ext_in. intros e He. pose proof (zrange_shape n) as Hs. rewrite Forall_forall in Hs.
    destruct (Hs e He) as [k ->]. apply bind_single; [exact Hty|exact Hfree|discriminate].
  - pose proof (zrange_shape n) as Hs. revert H Hs. generalize (zrange n). intros es H.
    induction H as [|cx e cxs' es' Hl _ IH]; intros Hs; [constructor|].
    inversion Hs as [|x xs [k Hk] Hs']; subst. constructor; [split; [exact Hl|reflexivity]|apply IH; exact Hs'].
Qed.

(* ---- what a binding by TRUTH VALUE (`arg or default`) would do instead: the class of defect the typed model
   excludes.  Not the code's function: a comparison point for the witnesses. ---- *)
Definition arg_value_by_truth (d : argdef) (a : value) : value := if falsy a then VStr (ad_default d) else a.

Lemma binding_by_truth_differs : forall d a, falsy_object a -> ad_default d <> [] ->
  arg_value_by_truth d a = VStr (ad_default d) /\ arg_value d a = a /\ arg_value d a <> arg_value_by_truth d a.
Proof.
  intros d a Hf Hd. pose proof (falsy_object_not_blank a Hf) as Hb. destruct Hf as [Hf Hne].
  unfold arg_value_by_truth, arg_value. rewrite Hf, Hb. split; [reflexivity|]. split; [reflexivity|].
  intros E. subst a. cbn in Hf. destruct (ad_default d); [contradiction|discriminate].
Qed.

Lemma binding_by_truth_same_on_strings : forall d s, arg_value_by_truth d (VStr s) = arg_value d (VStr s).
Proof. intros d [|c r]; reflexivity. Qed.

(* ---- witnesses (the declarations n;;1 and flag;;yes, the loop variable k) ---- *)
Definition n_name : str := [110]%N.
Definition def_n : argdef := mk_argdef n_name [] [49]%N.            (* n;;1 *)
Definition def_n_required : argdef := mk_argdef n_name [] [].         (* n *)

Definition insert_witness : Prop :=
  (* {@ [k] @} with k = 0, 1 (ints), False, None, [] : the object is bound, with and without a declared default *)
  map (fun e => insert_context_m [] [def_n] [] [(kname, e)] (Some cell_k)) [VInt 0; VInt 1; VBool false; VNone; VList []]
  = map (fun e => Ok [(n_name, e)]) [VInt 0; VInt 1; VBool false; VNone; VList []]
  /\ insert_context_m [] [def_n_required] [] [(kname, VInt 0)] (Some cell_k) = Ok [(n_name, VInt 0)]
  (* {@ k @}: the scalar is the only argument *)
  /\ insert_context_m [] [def_n] [] [(kname, VInt 0)] (Some cell_k_scalar) = Ok [(n_name, VInt 0)]
  (* the empty string and a missing position take the default; without a default they are reported *)
  /\ insert_context_m [] [def_n] [] [(kname, VStr [])] (Some cell_k) = Ok [(n_name, VStr [49]%N)]
  /\ insert_context_m [] [def_n] [] [(kname, VInt 0)] None = Ok [(n_name, VStr [49]%N)]
  /\ insert_context_m [] [def_n_required] [] [(kname, VStr [])] (Some cell_k) = Err (BRequired n_name)
  (* the text cell {{ k }} hands over the STRING "0" *)
  /\ insert_context_m [] [def_n] [] [(kname, VInt 0)] (Some (CTmpl [NOut (EVar kname)])) = Ok [(n_name, VStr [48]%N)]
  (* the data row is kept, in front *)
  /\ insert_context_m [] [def_n] [([120]%N, VInt 7)] [(kname, VBool false)] (Some cell_k)
     = Ok [([120]%N, VInt 7); (n_name, VBool false)].

Lemma insert_witness_holds : insert_witness.
Proof. unfold insert_witness. repeat split; vm_compute; reflexivity. Qed.

(* ---- the link with the insert model of C16 (Tmpl/Insert.v: at most one declared argument, no default, a string):
   its [block_context] is this binding ---- *)
Lemma plain_type_is_not_sheet : str_eqb [] sheet_type_kw = false.
Proof. vm_compute. reflexivity. Qed.

Definition defs_of_template (t : template) : list argdef :=
  match t_arg t with None => [] | Some x => [mk_argdef x [] []] end.

Theorem block_context_is_typed_binding : forall (t : template) (a : str) c,
  block_context t a = Ok c -> bind_args [] (defs_of_template t) [VStr a] [] = Ok c.
Proof.
  intros t a c. unfold block_context, defs_of_template. destruct (t_arg t) as [x|].
  - destruct a as [|ch r]; [discriminate|]. intros H. inversion H; subst.
    unfold bind_args. cbn [length fit firstn app repeat Nat.sub combine bind_all].
    unfold bind_one. cbn [ocontains oget ad_name ad_type ad_default arg_value is_blank].
    rewrite plain_type_is_not_sheet. reflexivity.
  - intros H. inversion H; subst. reflexivity.
Qed.
