(* E7 — facts about the compiler model, part 3: the invariant of the row loop.
   Inv s: the store is fine (StOK), every group hangs in the tree below the stack of open blocks, and every
   node of the store sits in a group — so that add_nodes_to_flow will reach every node an exit may point to.
   Inv cs0, and cstep keeps Inv; hence Inv of every state crun returns. *)
From Coq Require Import List NArith Bool Arith Lia Permutation.
From RPFT Require Import Base.Sexp Base.PyStr Base.Result Gen.Tables Flow.Flow Flow.Closed Flow.RowSem
     Comp.Compile Comp.CompileFacts Comp.CompileIds Comp.CompileInv.
Import ListNotations.

(* g' is g or below the block g *)
Inductive Sub (gs : list cgroup) : nat -> nat -> Prop :=
| Sub_refl g : Sub gs g g
| Sub_block r ms m g : nth_error gs r = Some (CGBlock ms) -> In m ms -> Sub gs m g -> Sub gs r g.

Lemma Sub_transport gs gs' r g :
  (forall b ms, nth_error gs b = Some (CGBlock ms) -> nth_error gs' b = Some (CGBlock ms)) ->
  Sub gs r g -> Sub gs' r g.
Proof.
  intros H S. induction S as [g|r ms m g E Hin _ IH]; [constructor|].
  eapply Sub_block; [apply H, E|exact Hin|exact IH].
Qed.

Lemma nth_error_app_old {X} (l : list X) x k y : nth_error l k = Some y -> nth_error (l ++ [x]) k = Some y.
Proof. intros H. rewrite nth_error_app1; [exact H|]. apply nth_error_Some. congruence. Qed.

Lemma nth_error_app_new {X} (l : list X) x : nth_error (l ++ [x]) (length l) = Some x.
Proof. rewrite nth_error_app2 by lia. rewrite Nat.sub_diag. reflexivity. Qed.

Lemma Sub_app gs x r g : Sub gs r g -> Sub (gs ++ [x]) r g.
Proof. apply Sub_transport. intros b ms. apply nth_error_app_old. Qed.

Section Step.
Variable fresh : nat -> id.
Variable GP : id -> Prop.
Hypothesis fresh_inj : forall a b, fresh a = fresh b -> a = b.

Lemma InGroup_app gs x g k : InGroup gs g k -> InGroup (gs ++ [x]) g k.
Proof.
  unfold InGroup. destruct (nth_error gs g) as [y|] eqn:E; [|intros []].
  rewrite (nth_error_app_old _ x _ _ E). auto.
Qed.

Definition TreeOK (s : cstate) : Prop :=
  forall g, g < length (cs_groups s) -> exists r, In r (concat (cs_stack s)) /\ Sub (cs_groups s) r g.
Definition LeafOK (s : cstate) : Prop :=
  forall k, k < length (cs_nodes s) -> exists g, InGroup (cs_groups s) g k.

Record Inv (s : cstate) : Prop := { inv_st : StOK fresh GP s; inv_tree : TreeOK s; inv_leaf : LeafOK s }.

(* StOK only reads the uuid counter and the nodes *)
Lemma StOK_same s s' : cs_next s' = cs_next s -> cs_nodes s' = cs_nodes s -> StOK fresh GP s -> StOK fresh GP s'.
Proof.
  intros E1 E2 [H1 H2]. constructor.
  - unfold uuids. rewrite E1, E2. exact H1.
  - unfold all_ids. rewrite E1, E2. exact H2.
Qed.

Lemma Inv_cs0 : Inv cs0.
Proof.
  constructor.
  - constructor; [constructor|split; constructor].
  - intros g H. cbn in H. lia.
  - intros k H. cbn in H. lia.
Qed.

Lemma TreeOK_ext s s' : ext s s' -> TreeOK s -> TreeOK s'.
Proof.
  intros He H g Hg. rewrite (ext_glen _ _ He) in Hg. destruct (H g Hg) as (r & Hr & Hs).
  exists r. rewrite (ext_stack _ _ He). split; [exact Hr|]. eapply Sub_transport; [|exact Hs]. apply (ext_blocks _ _ He).
Qed.

Lemma LeafOK_ext s s' : ext s s' -> LeafOK s -> LeafOK s'.
Proof.
  intros He H k Hk. destruct (Nat.lt_ge_cases k (length (cs_nodes s))) as [Hlt|Hge].
  - destruct (H k Hlt) as (g & Hg). exists g. apply (ext_leaf _ _ He), Hg.
  - apply (ext_new _ _ He); assumption.
Qed.

Lemma Inv_ext s s' : Inv s -> StOK fresh GP s' -> ext s s' -> Inv s'.
Proof. intros [_ H2 H3] Hst He. constructor; [exact Hst|eapply TreeOK_ext; eauto|eapply LeafOK_ext; eauto]. Qed.

(* ---------------------------------------------------------------- appending a group *)
Definition stack_add (st : list (list nat)) (k : nat) : list (list nat) :=
  match st with [] => [[k]] | top :: r => (top ++ [k]) :: r end.

Lemma stack_add_old st k r : In r (concat st) -> In r (concat (stack_add st k)).
Proof.
  destruct st as [|top rest]; cbn; [intros []|]. intros H. apply in_app_or in H as [H|H]; apply in_or_app.
  - left. apply in_or_app. left. exact H.
  - right. exact H.
Qed.

Lemma stack_add_new st k : In k (concat (stack_add st k)).
Proof.
  destruct st as [|top rest]; cbn; [left; reflexivity|]. apply in_or_app. left. apply in_or_app. right. left. reflexivity.
Qed.

Lemma add_cgroup_stack s x rid : cs_stack (add_cgroup s x rid) = stack_add (cs_stack s) (length (cs_groups s)).
Proof. reflexivity. Qed.

Lemma TreeOK_add s x rid : TreeOK s -> TreeOK (add_cgroup s x rid).
Proof.
  intros H g Hg. cbn in Hg. rewrite app_length in Hg. cbn in Hg.
  rewrite add_cgroup_stack. cbn [cs_groups add_cgroup].
  destruct (Nat.eq_dec g (length (cs_groups s))) as [->|Hne].
  - exists (length (cs_groups s)). split; [apply stack_add_new|constructor].
  - destruct (H g ltac:(lia)) as (r & Hr & Hs). exists r. split; [apply stack_add_old, Hr|apply Sub_app, Hs].
Qed.

(* a new leaf group whose nodes are exactly the still homeless ones *)
Lemma LeafOK_add s x rid :
  (forall k, k < length (cs_nodes s) -> (exists g, InGroup (cs_groups s) g k) \/ InGroup (cs_groups s ++ [x]) (length (cs_groups s)) k) ->
  LeafOK (add_cgroup s x rid).
Proof.
  intros H k Hk. cbn in Hk. destruct (H k Hk) as [(g & Hg)|Hn].
  - exists g. cbn. apply InGroup_app, Hg.
  - exists (length (cs_groups s)). exact Hn.
Qed.

Lemma Inv_add_empty s x rid : (forall k, ~ InGroup [x] 0 k) \/ True -> Inv s -> Inv (add_cgroup s x rid).
Proof.
  intros _ [H1 H2 H3]. constructor; [eapply StOK_same; [| |exact H1]; reflexivity|apply TreeOK_add, H2|].
  apply LeafOK_add. intros k Hk. left. apply H3, Hk.
Qed.

(* end_block: the members of the innermost open block become a block group of the enclosing one *)
Lemma Inv_end_block s members outer heads' h :
  cs_stack s = members :: outer -> Inv s ->
  Inv (add_cgroup (set_stack_heads s outer heads') (CGBlock members) h).
Proof.
  intros Es [H1 H2 H3]. constructor; [eapply StOK_same; [| |exact H1]; reflexivity| |].
  - intros g Hg. cbn in Hg. rewrite app_length in Hg. cbn in Hg.
    rewrite add_cgroup_stack. cbn [cs_groups cs_stack add_cgroup set_stack_heads].
    destruct (Nat.eq_dec g (length (cs_groups s))) as [->|Hne].
    + exists (length (cs_groups s)). split; [apply stack_add_new|constructor].
    + destruct (H2 g ltac:(lia)) as (r & Hr & Hs). rewrite Es in Hr. cbn in Hr. apply in_app_or in Hr as [Hr|Hr].
      * exists (length (cs_groups s)). split; [apply stack_add_new|].
        eapply Sub_block; [apply nth_error_app_new|exact Hr|apply Sub_app, Hs].
      * exists r. split; [apply stack_add_old, Hr|apply Sub_app, Hs].
  - apply LeafOK_add. intros k Hk. left. apply H3, Hk.
Qed.

Lemma Inv_set_stack_push s hs : Inv s -> Inv (set_stack_heads s ([] :: cs_stack s) hs).
Proof. intros [H1 H2 H3]. constructor; [eapply StOK_same; [| |exact H1]; reflexivity|exact H2|exact H3]. Qed.

Lemma Inv_set_rowmap s rid g : Inv s -> Inv (set_rowmap s rid g).
Proof. intros [H1 H2 H3]. constructor; [eapply StOK_same; [| |exact H1]; reflexivity|exact H2|exact H3]. Qed.

Lemma Inv_set_names s nm k : Inv s -> Inv (set_names s nm k).
Proof. intros [H1 H2 H3]. constructor; [eapply StOK_same; [| |exact H1]; reflexivity|exact H2|exact H3]. Qed.

(* ---------------------------------------------------------------- edges *)
Lemma cadd_row_edge_ok s e d s' :
  StOK fresh GP s -> dest_ok (uuids s) d -> cadd_row_edge fresh s e d = Ok s' -> StOK fresh GP s' /\ ext s s'.
Proof.
  intros Hst Hd. unfold cadd_row_edge. destruct (csource s e) as [[g|]|x]; try discriminate.
  - apply (cadd_exit_ok fresh GP fresh_inj); assumption.
  - intros H. injection H as <-. split; [exact Hst|apply ext_refl].
Qed.

Lemma fold_edges_ok (dest : cstate -> dst) es : forall s s',
  (forall a, ext s a -> dest_ok (uuids a) (dest a)) ->
  StOK fresh GP s -> foldM (fun a e => cadd_row_edge fresh a e (dest a)) es s = Ok s' -> StOK fresh GP s' /\ ext s s'.
Proof.
  intros s s' Hd Hst. apply foldM_ext; [|exact Hst].
  intros a x b Ha Hea _. apply cadd_row_edge_ok; [exact Ha|apply Hd, Hea].
Qed.

Lemma cparse_noop_ok s edges rid s' : Inv s -> cparse_noop s edges rid = Ok s' -> Inv s'.
Proof.
  intros Hi. unfold cparse_noop. destruct (foldM _ edges []) as [ps|x]; [|discriminate].
  intros H. injection H as <-. apply Inv_add_empty; [right; exact I|exact Hi].
Qed.

(* ---------------------------------------------------------------- one row *)
Lemma cstep_read_ok s cr s' :
  (cr_uuid cr <> [] -> GP (cr_uuid cr)) -> Inv s -> cstep_read fresh s cr = Ok s' -> Inv s'.
Proof.
  intros Hgiven Hi. unfold cstep_read. destruct (r_type (cr_row cr)) as [cls payloads dec0|tgts| | | | |] eqn:Et.
  - (* node rows *)
    set (row_action := if is_basic_kind (cr_kind cr) then match payloads with p :: _ => Some p | [] => None end else None).
    destruct (match row_action with Some p => ([(fresh (cs_next s), p)], S (cs_next s)) | None => ([], cs_next s) end) as [acts n1] eqn:Ea.
    assert (Hn1 : cs_next s <= n1 /\ Forall (below fresh n1) (map fst acts) /\ FreshList fresh (cs_next s) n1 (map fst acts)).
    { destruct row_action; injection Ea as <- <-; cbn; split; try lia; split.
      - constructor; [apply below_fresh; lia|constructor].
      - apply FreshList_one; lia.
      - constructor.
      - apply FreshList_nil. }
    destruct Hn1 as (Hn1 & Hacts & Facts).
    set (node_name := or_default (cr_uuid cr) (r_node_name (cr_row cr))).
    destruct (match node_name with [] => None | _ => alookup (cs_names s) node_name end) as [k|] eqn:Eex;
      [destruct row_action as [p|] eqn:Era|].
    + (* merged into an existing node *)
      destruct (r_edges (cr_row cr)) as [|e [|e2 es]]; try discriminate.
      destruct (negb (cond_blank (e_cond e))); [discriminate|].
      destruct (match e_from e with FBlank => _ | FStart => _ | FRow rid => _ end) as [g|]; [|discriminate].
      destruct (centry (cfuel s) s g) as [k'|x]; [|discriminate].
      destruct (negb (Nat.eqb k k')); [discriminate|].
      destruct (nth_error (cs_nodes s) k) as [nd|] eqn:En; [|discriminate].
      assert (Hs1 : Inv (set_node s k (mkCNode (cn_uuid nd) (cn_given nd) (cn_actions nd ++ acts) (cn_body nd)) n1)).
      { destruct Hi as [H1 H2 H3].
        destruct (set_node_ok fresh GP fresh_inj s k nd (mkCNode (cn_uuid nd) (cn_given nd) (cn_actions nd ++ acts) (cn_body nd)) n1 H1 En eq_refl Hn1) as [Hst He].
        - destruct (StOK_nth fresh GP _ _ _ H1 En) as [N1 N2 N3 N4]. constructor; cbn.
          + intros Hg. eapply below_mono; [exact Hn1|apply N1, Hg].
          + rewrite map_app. apply Forall_app. split; [eapply Forall_below_mono; eauto|exact Hacts].
          + eapply BodyOK_mono; [exact Hn1|apply incl_refl|exact N3].
          + exact N4.
        - unfold node_ids, uuid_ids. cbn. rewrite map_app.
          apply (IdStep_gain fresh _ _ (map fst acts)); [exact Facts|].
          apply perm_insert.
        - apply (Inv_ext s); [constructor; assumption|exact Hst|exact He]. }
      destruct (r_id (cr_row cr)) as [|c0 rid]; [intros H; injection H as <-; exact Hs1|].
      destruct (e_from e) as [| |frm]; try discriminate.
      destruct (alookup (cs_rowmap s) frm) as [g'|]; [|discriminate].
      intros H. injection H as <-. apply Inv_set_rowmap, Hs1.
    + (* a node of that name exists but the row has no action: a new node *)
      revert Ea. intros Ea. injection Ea as <- <-.
      destruct (new_row_node fresh (cs_next s) (cr_kind cr) (cr_uuid cr) [] _) as [[nd n2]|x] eqn:En; [|discriminate].
      pose proof (new_row_node_ids fresh fresh_inj (cs_next s) _ _ _ _ _ _ _ Hn1 Facts En) as (_ & Fn).
      apply (new_row_node_ok fresh GP fresh_inj _ (uuids s ++ [cn_uuid nd])) in En as (N1 & N2 & _); [|exact Hgiven|constructor].
      destruct (foldM _ _ (push_node s nd n2)) as [s2|x] eqn:Ef; [|discriminate].
      intros H. injection H as <-.
      apply (fold_edges_ok (fun _ => Some (cn_uuid nd))) in Ef as [Hst2 He2].
      2:{ intros a Ha. eapply ext_dest_ok; [exact Ha|]. right. unfold uuids. cbn. rewrite map_app. apply in_or_app. right. left. reflexivity. }
      2:{ apply (push_StOK fresh GP fresh_inj); [apply Hi|exact N1|exact N2|exact Fn]. }
      apply Inv_set_names. destruct Hi as [H1 H2 H3]. constructor; [eapply StOK_same; [| |exact Hst2]; reflexivity| |].
      * apply TreeOK_add. eapply TreeOK_ext; [exact He2|]. exact H2.
      * apply LeafOK_add. intros j Hj.
        destruct (Nat.lt_ge_cases j (length (cs_nodes s))) as [Hlt|Hge].
        -- left. destruct (H3 j Hlt) as (g & Hg). exists g. apply (ext_leaf _ _ He2). exact Hg.
        -- destruct (Nat.eq_dec j (length (cs_nodes s))) as [->|Hne].
           ++ right. unfold InGroup. rewrite nth_error_app_new. left. reflexivity.
           ++ left. apply (ext_new _ _ He2); [cbn; rewrite app_length; cbn; lia|exact Hj].
    + (* no node of that name: a new node *)
      destruct (new_row_node fresh n1 (cr_kind cr) (cr_uuid cr) acts _) as [[nd n2]|x] eqn:En.
      2:{ destruct row_action; discriminate. }
      pose proof (new_row_node_ids fresh fresh_inj (cs_next s) _ _ _ _ _ _ _ Hn1 Facts En) as (_ & Fn).
      apply (new_row_node_ok fresh GP fresh_inj _ (uuids s ++ [cn_uuid nd])) in En as (N1 & N2 & _); [|exact Hgiven|exact Hacts].
      destruct (foldM _ _ (push_node s nd n2)) as [s2|x] eqn:Ef.
      2:{ destruct row_action; discriminate. }
      intros H. assert (H' : Ok (set_names (add_cgroup s2 (CGRow (length (cs_nodes s)) [] (rowtype_of (cr_kind cr))) (r_id (cr_row cr))) node_name (length (cs_nodes s))) = Ok s')
        by (destruct row_action; exact H). clear H. injection H' as <-.
      apply (fold_edges_ok (fun _ => Some (cn_uuid nd))) in Ef as [Hst2 He2].
      2:{ intros a Ha. eapply ext_dest_ok; [exact Ha|]. right. unfold uuids. cbn. rewrite map_app. apply in_or_app. right. left. reflexivity. }
      2:{ apply (push_StOK fresh GP fresh_inj); [apply Hi|lia|exact N2|exact Fn]. }
      apply Inv_set_names. destruct Hi as [H1 H2 H3]. constructor; [eapply StOK_same; [| |exact Hst2]; reflexivity| |].
      * apply TreeOK_add. eapply TreeOK_ext; [exact He2|]. exact H2.
      * apply LeafOK_add. intros j Hj.
        destruct (Nat.lt_ge_cases j (length (cs_nodes s))) as [Hlt|Hge].
        -- left. destruct (H3 j Hlt) as (g & Hg). exists g. apply (ext_leaf _ _ He2). exact Hg.
        -- destruct (Nat.eq_dec j (length (cs_nodes s))) as [->|Hne].
           ++ right. unfold InGroup. rewrite nth_error_app_new. left. reflexivity.
           ++ left. apply (ext_new _ _ He2); [cbn; rewrite app_length; cbn; lia|exact Hj].
  - (* go_to *)
    destruct (negb _); [discriminate|]. intros H.
    apply (foldM_ext fresh GP) in H as [Hst' He']; [apply (Inv_ext s); [exact Hi|exact Hst'|exact He']| |apply Hi].
    intros a x b Ha Hea _. destruct (alookup (cs_rowmap a) (snd x)) as [g|]; [|discriminate].
    destruct (centry (cfuel a) a g) as [k|y]; [|discriminate].
    destruct (nth_error (cs_nodes a) k) as [nd|] eqn:En; [|discriminate].
    apply cadd_row_edge_ok; [exact Ha|]. right. unfold uuids. apply in_map. eapply nth_error_In, En.
  - (* no_op *)
    apply cparse_noop_ok, Hi.
  - (* hard_exit *)
    intros H. apply (fold_edges_ok (fun _ => sentinel_dst)) in H as [Hst' He']; [apply (Inv_ext s); [exact Hi|exact Hst'|exact He']| |apply Hi].
    intros a _. left. reflexivity.
  - (* loose_exit *)
    intros H. apply (fold_edges_ok (fun _ => None)) in H as [Hst' He']; [apply (Inv_ext s); [exact Hi|exact Hst'|exact He']| |apply Hi].
    intros a _. exact I.
  - (* begin_block *)
    destruct (match r_edges (cr_row cr) with [e] => _ | _ => false end).
    + intros H. injection H as <-. apply Inv_set_stack_push, Hi.
    + apply cparse_noop_ok. apply Inv_set_stack_push, Hi.
  - (* end_block *)
    destruct (cs_heads s) as [|h heads']; [discriminate|]. destruct (cs_stack s) as [|members outer] eqn:Es; [discriminate|].
    intros H. injection H as <-. apply Inv_end_block; assumption.
Qed.

(* the row as written: read (padding edges), then applied *)
Lemma cstep_ok s cr s' :
  (cr_uuid cr <> [] -> GP (cr_uuid cr)) -> Inv s -> cstep fresh s cr = Ok s' -> Inv s'.
Proof. intros Hgiven Hi. unfold cstep. apply cstep_read_ok; [exact Hgiven|exact Hi]. Qed.

(* every given `_nodeId` of the rows enjoys GP *)
Definition given_ok (rows : list crow) : Prop :=
  forall cr, In cr rows -> cr_uuid cr <> [] -> GP (cr_uuid cr).

Theorem crun_read_Inv rows s : given_ok rows -> crun_read fresh rows = Ok s -> Inv s.
Proof.
  unfold crun_read. intros Hg. assert (G : forall s0, Inv s0 -> foldM (cstep_read fresh) rows s0 = Ok s -> Inv s).
  { induction rows as [|r rest IH]; intros s0 H0; cbn.
    - intros H. injection H as <-. exact H0.
    - destruct (cstep_read fresh s0 r) as [s1|x] eqn:E; [|discriminate].
      apply IH; [intros cr Hcr; apply Hg; right; exact Hcr|].
      eapply cstep_read_ok; [apply Hg; left; reflexivity|exact H0|exact E]. }
  apply G, Inv_cs0.
Qed.

Theorem crun_Inv rows s : given_ok rows -> crun fresh rows = Ok s -> Inv s.
Proof.
  unfold crun. intros Hg. assert (G : forall s0, Inv s0 -> foldM (cstep fresh) rows s0 = Ok s -> Inv s).
  { induction rows as [|r rest IH]; intros s0 H0; cbn.
    - intros H. injection H as <-. exact H0.
    - destruct (cstep fresh s0 r) as [s1|x] eqn:E; [|discriminate].
      apply IH; [intros cr Hcr; apply Hg; right; exact Hcr|].
      eapply cstep_ok; [apply Hg; left; reflexivity|exact H0|exact E]. }
  apply G, Inv_cs0.
Qed.
End Step.
