(* E7/C02 — facts for the refinement, part 1: destinations, categories, decisions.
   Each update the reference builder makes to a decision (rdec) is matched by the update the compiler model makes
   to the router (cswitch), keeping dec_sim. *)
From Coq Require Import List NArith Bool Arith Lia.
From RPFT Require Import Base.Sexp Base.PyStr Base.PyStrFacts Base.Result Gen.Tables Flow.Lts Flow.Flow Flow.Closed
     Flow.RowSem Comp.Compile Comp.CompileFacts Comp.CompileIds Comp.Refine.
Import ListNotations.

Section WithNames.
Context {GN : GenNames}.

(* ---------------------------------------------------------------- lists *)
Lemma Forall2_length' {X Y} (P : X -> Y -> Prop) l l' : Forall2 P l l' -> length l = length l'.
Proof. induction 1; cbn; congruence. Qed.

Lemma Forall2_nth {X Y} (P : X -> Y -> Prop) l l' i x : Forall2 P l l' -> nth_error l i = Some x -> exists y, nth_error l' i = Some y /\ P x y.
Proof.
  intros H. revert i. induction H as [|a b l l' Hab _ IH]; intros [|i]; cbn; try discriminate.
  - intros E. injection E as <-. exists b. auto.
  - apply IH.
Qed.

Lemma Forall2_update {X Y} (P : X -> Y -> Prop) l l' i x y :
  Forall2 P l l' -> P x y -> Forall2 P (RowSem.update l i x) (RowSem.update l' i y).
Proof.
  intros H Hxy. revert i. induction H as [|a b l l' Hab Hl IH]; intros [|i]; cbn.
  - constructor.
  - constructor.
  - constructor; assumption.
  - constructor; [exact Hab|apply IH].
Qed.

Lemma Forall2_app_one {X Y} (P : X -> Y -> Prop) l l' x y : Forall2 P l l' -> P x y -> Forall2 P (l ++ [x]) (l' ++ [y]).
Proof. intros H Hxy. apply Forall2_app; [exact H|constructor; [exact Hxy|constructor]]. Qed.

Lemma Forall2_impl {X Y} (P Q : X -> Y -> Prop) l l' : (forall x y, P x y -> Q x y) -> Forall2 P l l' -> Forall2 Q l l'.
Proof. intros H F. induction F; constructor; auto. Qed.

(* find on two related lists finds at the same position *)
Lemma find_Forall2 {X Y} (P : X -> Y -> Prop) (p : X -> bool) (q : Y -> bool) l l' :
  Forall2 P l l' -> (forall x y, P x y -> p x = q y) ->
  match find p l, find q l' with
  | Some x, Some y => P x y
  | None, None => True
  | _, _ => False
  end.
Proof.
  intros H Hpq. induction H as [|a b l l' Hab _ IH]; cbn; [exact I|].
  rewrite (Hpq _ _ Hab). destruct (q b); [exact Hab|exact IH].
Qed.

(* with distinct keys, updating the first element whose key is u is updating position i *)
Lemma upd_first_nth {X} (h : X -> str) (f : X -> X) l i c :
  NoDup (map h l) -> nth_error l i = Some c ->
  upd_first (fun x => str_eqb (h x) (h c)) f l = RowSem.update l i (f c).
Proof.
  revert i. induction l as [|a r IH]; intros [|i]; cbn; try discriminate.
  - intros _ E. injection E as ->. rewrite str_eqb_refl. reflexivity.
  - intros Hnd E. inversion Hnd as [|? ? Ha Hr]; subst.
    destruct (str_eqb (h a) (h c)) eqn:Eq.
    + apply str_eqb_eq in Eq. exfalso. apply Ha. rewrite Eq. apply in_map. eapply nth_error_In, E.
    + rewrite (IH i Hr E). reflexivity.
Qed.

Lemma existsb_nth {X} (p : X -> bool) l i c : nth_error l i = Some c -> p c = true -> existsb p l = true.
Proof. intros E Hp. apply existsb_exists. exists c. split; [eapply nth_error_In, E|exact Hp]. Qed.

Lemma nth_error_app_l {X} (l l' : list X) i x : nth_error l i = Some x -> nth_error (l ++ l') i = Some x.
Proof. intros H. rewrite nth_error_app1; [exact H|]. apply nth_error_Some. congruence. Qed.

Lemma update_app_l {X} (l l' : list X) i x : i < length l -> RowSem.update (l ++ l') i x = RowSem.update l i x ++ l'.
Proof.
  revert i. induction l as [|a r IH]; intros i Hi; cbn in Hi; [lia|]. destruct i as [|i]; cbn; [reflexivity|].
  rewrite IH by lia. reflexivity.
Qed.

(* ---------------------------------------------------------------- monotonicity *)
Definition grows {X} (l l' : list X) : Prop := exists x, l' = l ++ x.

Lemma grows_refl {X} (l : list X) : grows l l.
Proof. exists []. rewrite app_nil_r. reflexivity. Qed.
Lemma grows_trans {X} (a b c : list X) : grows a b -> grows b c -> grows a c.
Proof. intros (x & ->) (y & ->). exists (x ++ y). rewrite app_assoc. reflexivity. Qed.
Lemma grows_app {X} (l x : list X) : grows l (l ++ x).
Proof. exists x. reflexivity. Qed.
Lemma grows_nth {X} (l l' : list X) i x : grows l l' -> nth_error l i = Some x -> nth_error l' i = Some x.
Proof. intros (y & ->). apply nth_error_app_l. Qed.

(* phi may grow, and a cluster may gain its implicit router: the row's node of every cluster stays *)
Definition phi_le (phi phi' : list cluster) : Prop :=
  forall k c, nth_error phi k = Some c -> exists c', nth_error phi' k = Some c' /\ fst c' = fst c.

Lemma phi_le_refl phi : phi_le phi phi.
Proof. intros k c H. exists c. auto. Qed.
Lemma phi_le_trans a b c : phi_le a b -> phi_le b c -> phi_le a c.
Proof.
  intros H1 H2 k x Hx. destruct (H1 k x Hx) as (y & Hy & Ey). destruct (H2 k y Hy) as (z & Hz & Ez). exists z. split; [exact Hz|congruence].
Qed.
Lemma phi_le_app phi x : phi_le phi (phi ++ x).
Proof. intros k c H. exists c. split; [apply nth_error_app_l, H|reflexivity]. Qed.
Lemma phi_le_update phi k c c' : nth_error phi k = Some c -> fst c' = fst c -> phi_le phi (RowSem.update phi k c').
Proof.
  intros Hk Ef j x Hx. destruct (Nat.eq_dec j k) as [->|Hne].
  - assert (x = c) by congruence. subst x. exists c'. split; [eapply update_nth_same; eauto|exact Ef].
  - exists x. split; [rewrite update_nth_other by exact Hne; exact Hx|reflexivity].
Qed.

Lemma dest_sim_mono phi uu phi' uu' d d' : phi_le phi phi' -> grows uu uu' -> dest_sim phi uu d d' -> dest_sim phi' uu' d d'.
Proof.
  intros Hp Hu. destruct d as [| |k], d' as [u|]; cbn; auto.
  intros (Hne & c & Hc & Hn). split; [exact Hne|]. destruct (Hp k c Hc) as (c' & Hc' & Ef). exists c'. split; [exact Hc'|].
  rewrite Ef. eapply grows_nth; eauto.
Qed.

Lemma cat_sim_mono phi uu phi' uu' x c : phi_le phi phi' -> grows uu uu' -> cat_sim phi uu x c -> cat_sim phi' uu' x c.
Proof. intros Hp Hu [H1 H2]. split; [exact H1|eapply dest_sim_mono; eauto]. Qed.

Lemma dec_sim_mono phi uu phi' uu' d r : phi_le phi phi' -> grows uu uu' -> dec_sim phi uu d r -> dec_sim phi' uu' d r.
Proof.
  intros Hp Hu [H1 H2 H3 H4 H5 H6 H7 H8]. constructor; try assumption.
  - unfold wait_sim in *. destruct (rd_wait d), (sw_wait r); try assumption.
    destruct H4 as (E & x & Ex & Hx). split; [exact E|]. exists x. split; [exact Ex|eapply cat_sim_mono; eauto].
  - eapply Forall2_impl; [|exact H5]. intros x y. apply cat_sim_mono; assumption.
  - eapply cat_sim_mono; eauto.
Qed.

Lemma rand_sim_mono phi uu phi' uu' d r : phi_le phi phi' -> grows uu uu' -> rand_sim phi uu d r -> rand_sim phi' uu' d r.
Proof.
  intros Hp Hu [H1 H2 H3 H4]. constructor; try assumption.
  eapply Forall2_impl; [|exact H3]. intros x y [A B]. split; [exact A|eapply dest_sim_mono; eauto].
Qed.

Lemma node_sim_mono phi uu phi' uu' n nd o : phi_le phi phi' -> grows uu uu' -> node_sim phi uu n nd o -> node_sim phi' uu' n nd o.
Proof.
  intros Hp Hu H. destruct H.
  - eapply NS_basic; eauto. eapply dest_sim_mono; eauto.
  - eapply NS_router; eauto. eapply dec_sim_mono; eauto.
  - eapply NS_random; eauto. eapply rand_sim_mono; eauto.
  - eapply NS_implicit; eauto. eapply dec_sim_mono; eauto.
Qed.

(* ---------------------------------------------------------------- decisions *)
Section Dec.
Variable phi : list cluster.
Variable uu : list id.

Lemma sw_all_cats_uuid_update_default r d nm :
  map cc_uuid (sw_all_cats (sw_update_default r d nm)) = map cc_uuid (sw_all_cats r).
Proof. unfold sw_update_default, sw_all_cats. cbn. rewrite !map_app. cbn. destruct nm; reflexivity. Qed.

Lemma dec_sim_set_default d r tgt d' :
  dec_sim phi uu d r -> dest_sim phi uu tgt d' -> dec_sim phi uu (set_default d tgt) (sw_update_default r d' []).
Proof.
  intros [H1 H2 H3 H4 H5 H6 H7 H8] Hd. constructor.
  - exact H1.
  - exact H2.
  - exact H3.
  - exact H4.
  - exact H5.
  - destruct H6 as [Hn _]. split; [exact Hn|exact Hd].
  - rewrite (sw_all_cats_uuid_update_default r d' []). exact H7.
  - rewrite (sw_all_cats_uuid_update_default r d' []). exact H8.
Qed.

Lemma plain_set_default d tgt : plain_dec d -> plain_dec (set_default d tgt).
Proof. intros (H1 & H2 & H3). split; [exact H1|split; [exact H2|exact H3]]. Qed.

Lemma shape_set_default cls d tgt : shape_ok cls d -> shape_ok cls (set_default d tgt).
Proof. destruct cls; auto. Qed.

Lemma sw_all_cats_uuid_update_noresp r d : map cc_uuid (sw_all_cats (sw_update_noresp r d)) = map cc_uuid (sw_all_cats r).
Proof.
  unfold sw_update_noresp. destruct (sw_wait r) as [| |t c] eqn:E; try reflexivity.
  unfold sw_all_cats. cbn. rewrite E. rewrite !map_app. reflexivity.
Qed.

(* the no-response edge *)
Lemma dec_sim_noresp d r nm x tgt d' :
  dec_sim phi uu d r -> rd_noresp d = Some (nm, x) -> dest_sim phi uu tgt d' ->
  dec_sim phi uu (mkDec (rd_random d) (rd_operand d) (rd_wait d) (rd_result d) (rd_cases d) (rd_cats d) (rd_default d) (Some (nm, tgt)))
          (sw_update_noresp r d').
Proof.
  intros [H1 H2 H3 H4 H5 H6 H7 H8] En Hd.
  rewrite <- (sw_all_cats_uuid_update_noresp r d') in H7, H8.
  unfold sw_update_noresp in *. unfold wait_sim in H4.
  destruct (rd_wait d) as [| |t z] eqn:Ew, (sw_wait r) as [| |t' c] eqn:Ec; try contradiction; try congruence.
  destruct H4 as (Et & y & Ey & Hy). rewrite En in Ey. injection Ey as <-.
  constructor.
  - exact H1.
  - exact H2.
  - exact H3.
  - unfold wait_sim. cbn. split; [exact Et|]. exists (nm, tgt). split; [reflexivity|].
    destruct Hy as [Hn _]. split; [exact Hn|exact Hd].
  - exact H5.
  - exact H6.
  - exact H7.
  - exact H8.
Qed.

Lemma wait_sim_noresp_none d r : dec_sim phi uu d r -> rd_noresp d = None -> match sw_wait r with CWTimeout _ _ => False | _ => True end.
Proof.
  intros [_ _ _ H4 _ _ _ _] En. unfold wait_sim in H4. destruct (rd_wait d), (sw_wait r); try contradiction; auto.
  destruct H4 as (_ & x & Ex & _). congruence.
Qed.

Lemma wait_sim_noresp_some d r nm x : dec_sim phi uu d r -> rd_noresp d = Some (nm, x) -> exists t c, sw_wait r = CWTimeout t c.
Proof.
  intros [_ _ _ H4 _ _ _ _] En. unfold wait_sim in H4. destruct (rd_wait d), (sw_wait r) as [| |t c]; try contradiction; try congruence.
  exists t, c. reflexivity.
Qed.

(* re-targeting the category of position i *)
Lemma dec_sim_set_cat d r i u tgt d' :
  dec_sim phi uu d r -> i < length (rd_cats d) -> nth_error (map cc_uuid (sw_all_cats r)) i = Some u -> dest_sim phi uu tgt d' ->
  dec_sim phi uu (mkDec (rd_random d) (rd_operand d) (rd_wait d) (rd_result d) (rd_cases d) (set_cat_dest (rd_cats d) i tgt)
                        (rd_default d) (rd_noresp d))
          (sw_upd_cat (uuid_is u) (fun c => cat_set_dest c d') r).
Proof.
  intros [H1 H2 H3 H4 H5 H6 H7 H8] Hi Hu Hd.
  assert (Hlen := Forall2_length' _ _ _ H5).
  destruct (nth_error (rd_cats d) i) as [[cn0 d0]|] eqn:Ei; [|apply nth_error_None in Ei; lia].
  destruct (Forall2_nth _ _ _ _ _ H5 Ei) as (c & Ec & Hc).
  assert (Euc : u = cc_uuid c).
  { unfold sw_all_cats in Hu. rewrite map_app in Hu. rewrite nth_error_app1 in Hu by (rewrite map_length; lia).
    rewrite nth_error_map, Ec in Hu. cbn in Hu. congruence. }
  subst u.
  assert (Hall : nth_error (sw_all_cats r) i = Some c) by (apply nth_error_app_l, Ec).
  assert (Eupd : sw_all_cats (sw_upd_cat (uuid_is (cc_uuid c)) (fun x => cat_set_dest x d') r)
                 = RowSem.update (sw_cats r) i (cat_set_dest c d') ++ sw_default r :: wait_cats (sw_wait r)).
  { rewrite sw_all_cats_upd_cat. unfold uuid_is.
    rewrite (upd_first_nth cc_uuid (fun x => cat_set_dest x d') (sw_all_cats r) i c H8 Hall).
    unfold sw_all_cats. apply update_app_l. lia. }
  assert (Ecats : sw_cats (sw_upd_cat (uuid_is (cc_uuid c)) (fun x => cat_set_dest x d') r) = RowSem.update (sw_cats r) i (cat_set_dest c d')
                  /\ sw_default (sw_upd_cat (uuid_is (cc_uuid c)) (fun x => cat_set_dest x d') r) = sw_default r
                  /\ sw_wait (sw_upd_cat (uuid_is (cc_uuid c)) (fun x => cat_set_dest x d') r) = sw_wait r
                  /\ sw_operand (sw_upd_cat (uuid_is (cc_uuid c)) (fun x => cat_set_dest x d') r) = sw_operand r
                  /\ sw_result (sw_upd_cat (uuid_is (cc_uuid c)) (fun x => cat_set_dest x d') r) = sw_result r).
  { unfold sw_upd_cat. rewrite (existsb_nth (uuid_is (cc_uuid c)) (sw_cats r) i c Ec) by (unfold uuid_is; apply str_eqb_refl).
    cbn. repeat split; try reflexivity. unfold uuid_is.
    apply (upd_first_nth cc_uuid (fun x => cat_set_dest x d') (sw_cats r) i c); [|exact Ec].
    unfold sw_all_cats in H8. rewrite map_app in H8. eapply NoDup_app_l, H8. }
  destruct Ecats as (E1 & E2 & E3 & E4 & E5).
  assert (Euu : map cc_uuid (sw_all_cats (sw_upd_cat (uuid_is (cc_uuid c)) (fun x => cat_set_dest x d') r)) = map cc_uuid (sw_all_cats r)).
  { rewrite sw_all_cats_upd_cat. apply upd_first_map. reflexivity. }
  constructor; cbn; rewrite ?E1, ?E2, ?E3, ?E4, ?E5, ?sw_cases_upd_cat, ?Euu; try assumption.
  unfold set_cat_dest. rewrite Ei. apply Forall2_update; [exact H5|]. destruct Hc as [Hn _]. split; [exact Hn|exact Hd].
Qed.
End Dec.

(* ---------------------------------------------------------------- add_case against add_choice *)
Lemma str_eqb_sym a b : str_eqb a b = str_eqb b a.
Proof.
  destruct (str_eqb a b) eqn:E.
  - apply str_eqb_eq in E. subst. symmetry. apply str_eqb_refl.
  - symmetry. apply str_eqb_neq. intros ->. rewrite str_eqb_refl in E. discriminate.
Qed.

Lemma alt_loop_fresh fuel names nm0 nm : alt_loop fuel names nm0 = Ok nm -> memb nm names = false.
Proof.
  revert nm0. induction fuel as [|f IH]; intros nm0; cbn; [discriminate|].
  destruct (memb nm0 names) eqn:E; [apply IH|]. intros H. injection H as <-. exact E.
Qed.

Lemma find_name_none nm (l : list ccat) : memb nm (map cc_name l) = false -> find (name_is nm) l = None.
Proof.
  induction l as [|c r IH]; cbn; [reflexivity|]. unfold memb. cbn. intros H. apply orb_false_iff in H as [H1 H2].
  unfold name_is at 1. rewrite str_eqb_sym, H1. apply IH, H2.
Qed.

Lemma set_cat_dest_length l i d : length (set_cat_dest l i d) = length l.
Proof. unfold set_cat_dest. destruct (nth_error l i) as [[c ?]|]; [apply update_length|reflexivity]. Qed.

Section AddCase.
Variable fresh : nat -> id.
Hypothesis fresh_inj : forall a b, fresh a = fresh b -> a = b.
Variable phi : list cluster.
Variable uu : list id.

Lemma dec_sim_set_operand d r v :
  dec_sim phi uu d r ->
  dec_sim phi uu (mkDec (rd_random d) (new_operand (rd_operand d) v) (rd_wait d) (rd_result d) (rd_cases d) (rd_cats d) (rd_default d) (rd_noresp d))
          (sw_set_operand r v).
Proof.
  intros [H1 H2 H3 H4 H5 H6 H7 H8]. destruct v as [|c v]; cbn; constructor; cbn; try assumption. reflexivity.
Qed.

Lemma new_case_full n ty args cat k n' :
  new_case fresh n ty args cat = Ok (k, n') ->
  ck_type k = ty /\ ck_args k = (if nab ty then [] else args) /\ ck_cat k = cat /\ ck_uuid k = fresh n /\ n' = S n.
Proof. unfold new_case, nab. destruct (negb (memb ty known_tests)); [discriminate|]. intros H. injection H as <- <-. auto. Qed.

(* the names generate_category_name can return *)
Lemma alt_loop_shape fuel names nm0 nm : alt_loop fuel names nm0 = Ok nm -> exists k, nm = nm0 ++ alts k.
Proof.
  revert nm0. induction fuel as [|f IH]; intros nm0; cbn; [discriminate|].
  destruct (memb nm0 names).
  - intros H. destruct (IH _ H) as (k & ->). exists (S k). cbn [alts]. rewrite app_assoc. reflexivity.
  - intros H. injection H as <-. exists 0. cbn. rewrite app_nil_r. reflexivity.
Qed.

Lemma gen_cat_name_shape names args nm : gen_cat_name names args = Ok nm -> exists k, nm = gen_base args ++ alts k.
Proof. unfold gen_cat_name. apply alt_loop_shape. Qed.

(* looking a category up by an explicit name (a name outside G): the reference finds it among the named categories
   exactly where the compiler finds it among all of them *)
Lemma cname_is_name_is x c nm : cat_sim phi uu x c -> ~ gname nm -> cname_is (fst x) nm = name_is nm c.
Proof.
  intros [Hn _] Hg. unfold name_is. destruct (fst x) as [t|]; cbn in *.
  - subst t. reflexivity.
  - symmetry. apply str_eqb_neq. intros E. apply Hg. rewrite <- E. exact Hn.
Qed.

Lemma find_named nm (f : ccat -> ccat) cats ccats : forall i,
  Forall2 (cat_sim phi uu) cats ccats -> ~ gname nm ->
  match find_cat cats nm i with
  | Some ci => exists j c, ci = i + j /\ j < length cats /\ nth_error ccats j = Some c
                           /\ find (name_is nm) ccats = Some c /\ existsb (name_is nm) ccats = true
                           /\ upd_first (name_is nm) f ccats = RowSem.update ccats j (f c)
  | None => find (name_is nm) ccats = None /\ existsb (name_is nm) ccats = false
  end.
Proof.
  intros i H Hg. revert i. induction H as [|x c l l' Hxc _ IH]; intros i; cbn [find_cat find existsb upd_first]; [auto|].
  destruct x as [cn dd]. rewrite <- (cname_is_name_is (cn, dd) c nm Hxc Hg). cbn [fst].
  destruct (cname_is cn nm).
  - exists 0, c. cbn. repeat split; try reflexivity; lia.
  - specialize (IH (S i)). destruct (find_cat l nm (S i)) as [ci|].
    + destruct IH as (j & c' & -> & Hj & Hn & Hf & He & Hu). exists (S j), c'. cbn. rewrite Hu. repeat split; auto; lia.
    + exact IH.
Qed.

Lemma find_app_none {X} (p : X -> bool) l l' : find p l = None -> find p (l ++ l') = find p l'.
Proof. induction l as [|a r IH]; cbn; [reflexivity|]. destruct (p a); [discriminate|exact IH]. Qed.
Lemma find_app_some {X} (p : X -> bool) l l' x : find p l = Some x -> find p (l ++ l') = Some x.
Proof. induction l as [|a r IH]; cbn; [discriminate|]. destruct (p a); [auto|exact IH]. Qed.

Lemma map_uuid_update l i c d' : nth_error l i = Some c -> map cc_uuid (RowSem.update l i (cat_set_dest c d')) = map cc_uuid l.
Proof.
  revert i. induction l as [|a r IH]; intros [|i]; cbn; try discriminate.
  - intros E. injection E as ->. reflexivity.
  - intros E. rewrite (IH i E). reflexivity.
Qed.

(* the premise on the name: an unnamed category gets one of the invented names of G, an explicit name is outside G *)
Definition name_ok (name : str) (args : list (option str)) : Prop :=
  match name with [] => forall k, gname (gen_base args ++ alts k) | _ => ~ gname name /\ name <> s_NoResponse end.

Lemma dec_sim_add_case n U d r operand ty value args name tgt d' r' n' :
  dec_sim phi uu d r -> plain_dec d -> SwOK fresh n U r -> dest_sim phi uu tgt d' -> name_ok name args ->
  sw_add_choice fresh n r operand (or_default ty s_has_any_word) args name d' false = Ok (r', n') ->
  dec_sim phi uu (add_case nab d operand ty value args name tgt) r' /\ plain_dec (add_case nab d operand ty value args name tgt).
Proof.
  intros Hsim Hplain Hok Hd Hname. unfold sw_add_choice, add_case.
  pose proof (dec_sim_set_operand d r operand Hsim) as Hsim1.
  pose proof (SwOK_set_operand fresh n U r operand Hok) as Hok1.
  set (d1 := mkDec (rd_random d) (new_operand (rd_operand d) operand) (rd_wait d) (rd_result d) (rd_cases d) (rd_cats d) (rd_default d) (rd_noresp d)) in *.
  assert (Hplain1 : plain_dec d1) by exact Hplain.
  set (r1 := sw_set_operand r operand) in *. clearbody r1. clear Hsim Hok.
  set (ty1 := or_default ty s_has_any_word).
  change (match ty with [] => s_has_any_word | _ :: _ => ty end) with ty1.
  change (rd_random d1) with (rd_random d). change (rd_cases d1) with (rd_cases d). change (rd_cats d1) with (rd_cats d).
  pose proof (find_Forall2 (case_sim (map cc_uuid (sw_all_cats r1)))
                (fun k => str_eqb (fst (fst k)) ty1 && ostr_list_eqb (snd (fst k)) args)
                (fun k => str_eqb (ck_type k) ty1 && ostr_list_eqb (ck_args k) args)
                (rd_cases d) (sw_cases r1) (ds_cases _ _ _ _ Hsim1)) as Hfind.
  cbn [rd_cases d1] in Hfind.
  match type of Hfind with (?A -> _) => assert (Hpq : A) end.
  { intros x y (E1 & E2 & _). rewrite E1, E2. reflexivity. }
  specialize (Hfind Hpq). clear Hpq.
  destruct Hplain as (Hpc & Hpd & Hpn).
  destruct (find _ (rd_cases d)) as [[[ty0 a0] ci]|] eqn:Ef1; destruct (find _ (sw_cases r1)) as [k|] eqn:Ef2; try contradiction.
  - (* the case exists on both sides: its category is re-targeted *)
    destruct Hfind as (_ & _ & Hnth). cbn in Hnth.
    destruct (existsb _ (sw_all_cats r1)); [|discriminate]. intros H. injection H as <- <-.
    apply find_some in Ef1 as [Hin _].
    assert (Hci : ci < length (rd_cats d)).
    { rewrite Forall_forall in Hpc. apply (Hpc _ Hin). }
    split; [apply (dec_sim_set_cat phi uu d1 r1 ci (ck_cat k) tgt d' Hsim1 Hci Hnth Hd)|].
    split; [|split; [exact Hpd|exact Hpn]]. cbn [rd_cases rd_cats d1]. rewrite set_cat_dest_length. exact Hpc.
  - (* a new case *)
    destruct Hsim1 as [H1 H2 H3 H4 H5 H6 H7 H8].
    assert (Hlen := Forall2_length' _ _ _ H5). change (rd_cats d1) with (rd_cats d) in Hlen, H5.
    change (rd_default d1) with (rd_default d) in H6. change (rd_cases d1) with (rd_cases d) in H7.
    (* neither the default nor the No Response category carries an explicit name *)
    assert (Hrest : forall nm, ~ gname nm -> nm <> s_NoResponse -> find (name_is nm) (sw_default r1 :: wait_cats (sw_wait r1)) = None).
    { intros nm Hg Hnr. cbn [find]. destruct H6 as [Hn6 _]. rewrite Hpd in Hn6. cbn in Hn6.
      assert (E6 : name_is nm (sw_default r1) = false).
      { unfold name_is. apply str_eqb_neq. intros E. apply Hg. rewrite <- E. exact Hn6. }
      rewrite E6. unfold wait_sim in H4. change (rd_wait d1) with (rd_wait d) in H4. change (rd_noresp d1) with (rd_noresp d) in H4.
      destruct (sw_wait r1) as [| |t cw]; try reflexivity. cbn [wait_cats find].
      destruct (rd_wait d); try contradiction. destruct H4 as (_ & x & Ex & [Hnx _]). rewrite Ex in Hpn. rewrite Hpn in Hnx. cbn in Hnx.
      assert (E7 : name_is nm cw = false) by (unfold name_is; apply str_eqb_neq; intros E; apply Hnr; rewrite <- E, <- Hnx; reflexivity).
      rewrite E7. reflexivity. }
    (* the shared end: a NEW category cn/nm with a case *)
    assert (Hnew : forall cn nm, name_sim cn nm ->
              match new_cat fresh n nm d' with
              | Ok (c, n1) => match new_case fresh n1 ty1 args (cc_uuid c) with
                              | Ok (k, n2) => Ok (sw_add_case (sw_add_cat r1 c) k, n2)
                              | Err e => Err e end
              | Err e => Err e end = Ok (r', n') ->
              dec_sim phi uu (mkDec (rd_random d) (rd_operand d1) (rd_wait d1) (rd_result d1)
                                    (rd_cases d ++ [(ty1, if nab ty1 then [] else args, length (rd_cats d))]) (rd_cats d ++ [(cn, tgt)])
                                    (rd_default d1) (rd_noresp d1)) r'
              /\ plain_dec (mkDec (rd_random d) (rd_operand d1) (rd_wait d1) (rd_result d1)
                                  (rd_cases d ++ [(ty1, if nab ty1 then [] else args, length (rd_cats d))]) (rd_cats d ++ [(cn, tgt)])
                                  (rd_default d1) (rd_noresp d1))).
    { intros cn nm Hcn. destruct (new_cat fresh n nm d') as [[c n1]|e] eqn:Ec; [|discriminate].
      destruct (new_case fresh n1 ty1 args (cc_uuid c)) as [[k n2]|e] eqn:Ek; [|discriminate].
      intros H. injection H as <- <-.
      apply (new_cat_spec fresh fresh_inj) in Ec as (-> & ->). apply new_case_full in Ek as (K1 & K2 & K3 & K4 & ->).
      assert (Huu : map cc_uuid (sw_all_cats (sw_add_case (sw_add_cat r1 (mkCCat (fresh n) nm (mkCExit (fresh (S n)) d'))) k))
                    = map cc_uuid (sw_cats r1) ++ fresh n :: map cc_uuid (sw_default r1 :: wait_cats (sw_wait r1))).
      { unfold sw_add_case, sw_add_cat, sw_all_cats. cbn. rewrite <- app_assoc. rewrite !map_app. reflexivity. }
      split.
      + constructor; cbn [rd_random rd_operand rd_wait rd_result rd_cases rd_cats rd_default rd_noresp
                           sw_operand sw_result sw_wait sw_cases sw_cats sw_default sw_add_case sw_add_cat].
        * exact H1.
        * exact H2.
        * exact H3.
        * exact H4.
        * apply Forall2_app_one; [exact H5|]. split; [exact Hcn|exact Hd].
        * exact H6.
        * rewrite Huu. apply Forall2_app_one.
          -- (* the old cases keep their categories *)
             assert (G0 : forall l l', Forall2 (case_sim (map cc_uuid (sw_all_cats r1))) l l' -> Forall (fun x => snd x < length (rd_cats d)) l ->
                                Forall2 (case_sim (map cc_uuid (sw_cats r1) ++ fresh n :: map cc_uuid (sw_default r1 :: wait_cats (sw_wait r1)))) l l').
             { intros l l' F. induction F as [|x y l l' Hxy _ IH]; intros Hall; [constructor|].
               inversion Hall as [|? ? Hx Hr]; subst. constructor; [|apply IH, Hr].
               destruct Hxy as (E1 & E2 & E3). split; [exact E1|]. split; [exact E2|].
               unfold sw_all_cats in E3. rewrite map_app in E3. rewrite nth_error_app1 in E3 by (rewrite map_length; lia).
               rewrite nth_error_app1 by (rewrite map_length; lia). exact E3. }
             apply G0; [exact H7|exact Hpc].
          -- split; [cbn; symmetry; exact K1|]. split; [cbn; symmetry; exact K2|]. cbn [snd]. change (rd_cats d1) with (rd_cats d).
             rewrite nth_error_app2 by (rewrite map_length; lia). rewrite map_length, Hlen, Nat.sub_diag. cbn. rewrite K3. reflexivity.
        * rewrite Huu. apply NoDup_insert; [unfold sw_all_cats in H8; rewrite map_app in H8; exact H8|].
          destruct Hok1 as [[Hids _ _] _ _]. intros Hin.
          assert (Hb : Forall (below fresh n) (map cc_uuid (sw_all_cats r1))).
          { rewrite Forall_forall in *. intros u Hu. apply in_map_iff in Hu as (c0 & <- & Hc0). apply Hids.
            apply in_flat_map. exists c0. split; [exact Hc0|left; reflexivity]. }
          unfold sw_all_cats in Hb. rewrite map_app in Hb. exact (not_in_below fresh fresh_inj n n _ Hb (le_n _) Hin).
      + split; [|split; [exact Hpd|exact Hpn]]. cbn [rd_cases rd_cats]. change (rd_cats d1) with (rd_cats d).
        apply Forall_app. split.
        * eapply Forall_impl; [|exact Hpc]. intros x Hx. cbn beta in Hx. rewrite app_length. cbn. lia.
        * constructor; [|constructor]. cbn. rewrite app_length. cbn. lia. }
    destruct name as [|c0 nm0].
    + (* unnamed: a new category with an invented name *)
      cbn [gen_cat_name]. destruct (gen_cat_name _ args) as [nm|e] eqn:Eg; [|discriminate].
      pose proof (gen_cat_name_shape _ _ _ Eg) as (kk & Enm).
      unfold gen_cat_name in Eg. apply alt_loop_fresh in Eg. rewrite (find_name_none nm _ Eg).
      apply (Hnew CWild nm). cbn. rewrite Enm. apply Hname.
    + (* an explicit name *)
      destruct Hname as [Hg Hnr]. set (nm := c0 :: nm0) in *.
      pose proof (find_named nm (fun c => cat_set_dest c d') (rd_cats d) (sw_cats r1) 0 H5 Hg) as Hfn.
      destruct (find_cat (rd_cats d) nm 0) as [ci|] eqn:Efc.
      * (* the category of that name exists: it is re-targeted and gets the case *)
        destruct Hfn as (j & c & -> & Hj & Hnj & Hfj & Hej & Huj). cbn [plus].
        unfold sw_all_cats at 1. rewrite (find_app_some _ _ _ _ Hfj).
        destruct (new_case fresh n ty1 args (cc_uuid c)) as [[k n1]|e] eqn:Ek; [|discriminate].
        intros H. injection H as <- <-. apply new_case_full in Ek as (K1 & K2 & K3 & K4 & ->).
        assert (Eupd : sw_upd_cat (name_is nm) (fun c => cat_set_dest c d') r1
                       = mkSwitch (sw_operand r1) (sw_result r1) (sw_wait r1) (sw_cases r1) (RowSem.update (sw_cats r1) j (cat_set_dest c d')) (sw_default r1)).
        { unfold sw_upd_cat. rewrite Hej, Huj. reflexivity. }
        rewrite Eupd.
        assert (Huu : map cc_uuid (sw_all_cats (sw_add_case (mkSwitch (sw_operand r1) (sw_result r1) (sw_wait r1) (sw_cases r1)
                                                                       (RowSem.update (sw_cats r1) j (cat_set_dest c d')) (sw_default r1)) k))
                      = map cc_uuid (sw_all_cats r1)).
        { unfold sw_add_case, sw_all_cats. cbn. rewrite !map_app. rewrite (map_uuid_update _ _ _ _ Hnj). reflexivity. }
        destruct (nth_error (rd_cats d) j) as [[cnj dj]|] eqn:Ej; [|apply nth_error_None in Ej; lia].
        destruct (Forall2_nth _ _ _ _ _ H5 Ej) as (c' & Ec' & Hc'). rewrite Hnj in Ec'. injection Ec' as <-.
        split.
        -- constructor; cbn [rd_random rd_operand rd_wait rd_result rd_cases rd_cats rd_default rd_noresp
                               sw_operand sw_result sw_wait sw_cases sw_cats sw_default sw_add_case].
           ++ exact H1.
           ++ exact H2.
           ++ exact H3.
           ++ exact H4.
           ++ unfold set_cat_dest. rewrite Ej. apply Forall2_update; [exact H5|]. destruct Hc' as [Hn' _]. split; [exact Hn'|exact Hd].
           ++ exact H6.
           ++ rewrite Huu. apply Forall2_app_one; [exact H7|].
              split; [cbn; symmetry; exact K1|]. split; [cbn; symmetry; exact K2|]. cbn [snd].
              unfold sw_all_cats. rewrite map_app. rewrite nth_error_app1 by (rewrite map_length; lia).
              rewrite nth_error_map, Hnj. cbn. rewrite K3. reflexivity.
           ++ rewrite Huu. exact H8.
        -- split; [|split; [exact Hpd|exact Hpn]]. cbn [rd_cases rd_cats]. rewrite set_cat_dest_length.
           apply Forall_app. split; [exact Hpc|]. constructor; [|constructor]. cbn. exact Hj.
      * (* a new category of that name *)
        destruct Hfn as [Hfn _]. unfold sw_all_cats at 1. rewrite (find_app_none _ _ _ Hfn), (Hrest nm Hg Hnr).
        apply (Hnew (CFixed nm) nm). reflexivity.
Qed.

(* ---------------------------------------------------------------- random splits: add_bucket against RandomRouter.add_choice *)
Definition undec (a : N) (s : str) : N := fold_left (fun a c => (10 * a + (c - 48))%N) s a.

Lemma dec_aux_undec f : forall n acc a, (N.to_nat n < f)%nat -> exists m, undec a (dec_aux f n acc) = undec (a * 10 ^ m + n)%N acc.
Proof.
  induction f as [|f IH]; intros n acc a Hf; [lia|]. cbn [dec_aux].
  pose proof (N.div_mod n 10 ltac:(lia)) as Hdm. pose proof (N.mod_lt n 10 ltac:(lia)) as Hlt.
  set (d := (n mod 10)%N) in *. set (q := (n / 10)%N) in *. clearbody d q. unfold undec in *.
  destruct (N.eqb q 0) eqn:Eq.
  - apply N.eqb_eq in Eq. exists 1%N. cbn [fold_left]. f_equal. rewrite Eq in Hdm. rewrite N.pow_1_r. lia.
  - apply N.eqb_neq in Eq. destruct (IH q ((48 + d)%N :: acc) a) as (m & Hm); [lia|].
    exists (N.succ m). rewrite Hm. cbn [fold_left]. f_equal. rewrite N.pow_succ_r'. lia.
Qed.

(* str(n) determines n *)
Lemma dec_nat_inj a b : dec_nat a = dec_nat b -> a = b.
Proof.
  intros H. unfold dec_nat in H.
  destruct (dec_aux_undec (S a) (N.of_nat a) [] 0%N ltac:(lia)) as (m1 & H1).
  destruct (dec_aux_undec (S b) (N.of_nat b) [] 0%N ltac:(lia)) as (m2 & H2).
  rewrite H in H1. rewrite H1 in H2. unfold undec in H2. cbn [fold_left] in H2. lia.
Qed.

Lemma number_from_app {X} (l l' : list X) i : number_from i (l ++ l') = number_from i l ++ number_from (i + length l) l'.
Proof.
  revert i. induction l as [|a r IH]; intros i; cbn; [rewrite Nat.add_0_r; reflexivity|].
  rewrite IH. replace (S i + length r) with (i + S (length r)) by lia. reflexivity.
Qed.

Lemma number_from_update {X} (l : list X) i j x : number_from i (RowSem.update l j x) = RowSem.update (number_from i l) j (i + j, x).
Proof.
  revert i j. induction l as [|a r IH]; intros i [|j]; cbn; try reflexivity.
  - rewrite Nat.add_0_r. reflexivity.
  - rewrite IH. replace (S i + j) with (i + S j) by lia. reflexivity.
Qed.

Lemma number_from_len {X} (l : list X) i : length (number_from i l) = length l.
Proof. revert i. induction l as [|a r IH]; intros i; cbn; [reflexivity|]. rewrite IH. reflexivity. Qed.

Lemma number_from_nth' {X} (l : list X) i j x : nth_error l j = Some x -> nth_error (number_from i l) j = Some (i + j, x).
Proof.
  revert i j. induction l as [|a r IH]; intros i [|j]; cbn; try discriminate.
  - intros E. injection E as ->. rewrite Nat.add_0_r. reflexivity.
  - intros E. rewrite (IH (S i) j E). replace (S i + j) with (i + S j) by lia. reflexivity.
Qed.

(* looking a bucket up by an explicit name (a name that does not look like an invented one) *)
Lemma find_named_b nm (f : ccat -> ccat) cats : forall ccats i,
  Forall2 (bucket_sim phi uu) (number_from i cats) ccats -> ~ is_bucket_name nm ->
  match find_cat cats nm i with
  | Some ci => exists j c, ci = i + j /\ j < length cats /\ nth_error ccats j = Some c
                           /\ existsb (name_is nm) ccats = true
                           /\ upd_first (name_is nm) f ccats = RowSem.update ccats j (f c)
  | None => existsb (name_is nm) ccats = false
  end.
Proof.
  induction cats as [|x l IH]; intros ccats i H Hg; cbn [number_from] in H; inversion H as [|a c l0 l' Hxc Hl]; subst;
    cbn [find_cat existsb upd_first]; [reflexivity|].
  destruct x as [cn dd]. destruct Hxc as [Hn _]. cbn [fst snd] in Hn.
  assert (E : cname_is cn nm = name_is nm c).
  { unfold name_is. destruct cn as [t|]; cbn.
    - destruct Hn as [-> _]. reflexivity.
    - symmetry. apply str_eqb_neq. intros E. apply Hg. rewrite <- E, Hn. eexists. reflexivity. }
  rewrite <- E. destruct (cname_is cn nm).
  - exists 0, c. cbn. repeat split; try reflexivity; lia.
  - specialize (IH l' (S i) Hl Hg). destruct (find_cat l nm (S i)) as [ci|].
    + destruct IH as (j & c' & -> & Hj & Hnj & He & Hu). exists (S j), c'. cbn. rewrite Hu. repeat split; auto; lia.
    + exact IH.
Qed.

Lemma rand_sim_add_bucket n U d r name tgt d' r' n' :
  rand_sim phi uu d r -> CatsOK fresh n U (rr_cats r) -> dest_sim phi uu tgt d' -> ~ is_bucket_name name ->
  rr_add_choice fresh n r name d' = Ok (r', n') -> rand_sim phi uu (add_bucket d name tgt) r'.
Proof.
  intros [R1 R2 R3 R4] Hok Hd Hname. unfold rr_add_choice, add_bucket.
  assert (Hlen : length (rr_cats r) = length (rd_cats d)) by (rewrite <- (Forall2_length' _ _ _ R3); apply number_from_len).
  (* a new bucket cn/nm at the end *)
  assert (Hnew : forall cn nm, match cn with CFixed s => s = nm /\ ~ is_bucket_name s | CWild => nm = s_Bucket ++ dec_nat (length (rd_cats d) + 2) end ->
            match new_cat fresh n nm d' with Ok (c, n1) => Ok (mkRandom (rr_result r) (rr_cats r ++ [c]), n1) | Err e => Err e end = Ok (r', n') ->
            rand_sim phi uu (mkDec true (rd_operand d) (rd_wait d) (rd_result d) (rd_cases d) (rd_cats d ++ [(cn, tgt)]) (rd_default d) (rd_noresp d)) r').
  { intros cn nm Hcn. destruct (new_cat fresh n nm d') as [[c n1]|e] eqn:Ec; [|discriminate]. intros H. injection H as <- <-.
    apply (new_cat_spec fresh fresh_inj) in Ec as (-> & ->). constructor; cbn.
    - reflexivity.
    - exact R2.
    - rewrite number_from_app. apply Forall2_app; [exact R3|]. cbn. constructor; [|constructor]. split; cbn [fst snd]; [|exact Hd].
      destruct cn as [s|]; cbn; [destruct Hcn as [-> Hb]; auto|exact Hcn].
    - rewrite map_app. cbn. apply NoDup_insert with (b := []); rewrite ?app_nil_r; [exact R4|].
      destruct Hok as [Hids _ _]. intros Hin.
      assert (Hb : Forall (below fresh n) (map cc_uuid (rr_cats r))).
      { rewrite Forall_forall in *. intros u Hu. apply in_map_iff in Hu as (c0 & <- & Hc0). apply Hids.
        apply in_flat_map. exists c0. split; [exact Hc0|left; reflexivity]. }
      exact (not_in_below fresh fresh_inj n n _ Hb (le_n _) Hin). }
  destruct name as [|c0 nm0].
  - (* an unnamed bucket: "Bucket <len + 2>", which no bucket is called yet *)
    assert (Hex : existsb (name_is (s_Bucket ++ dec_nat (length (rr_cats r) + 2))) (rr_cats r) = false).
    { apply not_true_is_false. intros Hex. apply existsb_exists in Hex as (c & Hin & Hc). apply In_nth_error in Hin as (j & Hj).
      assert (Hjl : j < length (rd_cats d)) by (rewrite <- Hlen; apply nth_error_Some; congruence).
      destruct (nth_error (rd_cats d) j) as [x|] eqn:Ex; [|apply nth_error_None in Ex; lia].
      pose proof (number_from_nth' _ 0 _ _ Ex) as Enx.
      destruct (Forall2_nth _ _ _ _ _ R3 Enx) as (c' & Ec' & [Hn _]). rewrite Hj in Ec'. injection Ec' as <-. cbn [fst snd] in Hn.
      unfold name_is in Hc. apply str_eqb_eq in Hc. destruct (fst x) as [s|].
      - destruct Hn as [-> Hb]. apply Hb. rewrite Hc. eexists. reflexivity.
      - rewrite Hn in Hc. apply app_inv_head in Hc. apply dec_nat_inj in Hc. lia. }
    rewrite Hex. apply (Hnew CWild). rewrite Hlen. reflexivity.
  - set (nm := c0 :: nm0) in *.
    pose proof (find_named_b nm (fun c => cat_set_dest c d') (rd_cats d) (rr_cats r) 0 R3 Hname) as Hfn.
    destruct (find_cat (rd_cats d) nm 0) as [ci|].
    + destruct Hfn as (j & c & -> & Hj & Hnj & Hej & Huj). cbn [plus]. rewrite Hej, Huj. intros H. injection H as <- <-.
      destruct (nth_error (rd_cats d) j) as [[cnj dj]|] eqn:Ej; [|apply nth_error_None in Ej; lia].
      pose proof (number_from_nth' _ 0 _ _ Ej) as Enx.
      destruct (Forall2_nth _ _ _ _ _ R3 Enx) as (c' & Ec' & [Hn' _]). rewrite Hnj in Ec'. injection Ec' as <-.
      constructor; cbn.
      * reflexivity.
      * exact R2.
      * unfold set_cat_dest. rewrite Ej. rewrite number_from_update. apply Forall2_update; [exact R3|]. split; cbn [fst snd] in *; [exact Hn'|exact Hd].
      * rewrite (map_uuid_update _ _ _ _ Hnj). exact R4.
    + rewrite Hfn. apply (Hnew (CFixed nm)). split; [reflexivity|exact Hname].
Qed.
End AddCase.
End WithNames.
