(* E7/C02 — facts for the refinement, part 1: destinations, categories, decisions.
   Each update the reference builder makes to a decision (rdec) is matched by the update the compiler model makes
   to the router (cswitch), keeping dec_sim. *)
From Coq Require Import List NArith Bool Arith Lia.
From RPFT Require Import Base.Sexp Base.PyStr Base.PyStrFacts Base.Result Gen.Tables Flow.Lts Flow.Flow Flow.Closed
     Flow.RowSem Comp.Compile Comp.CompileFacts Comp.CompileIds Comp.Refine.
Import ListNotations.

Section WithNames.
Context {GN : GenNames}.

(* ---------------------------------------------------------------- lists *)
Lemma Forall2_length' {X Y} (P : X -> Y -> Prop) l l' : Forall2 P l l' -> length l = length l'.
Proof. induction 1; cbn; congruence. Qed.

Lemma Forall2_nth {X Y} (P : X -> Y -> Prop) l l' i x : Forall2 P l l' -> nth_error l i = Some x -> exists y, nth_error l' i = Some y /\ P x y.
Proof.
  intros H. revert i. induction H as [|a b l l' Hab _ IH]; intros [|i]; cbn; try discriminate.
  - intros E. injection E as <-. exists b. auto.
  - apply IH.
Qed.

Lemma Forall2_update {X Y} (P : X -> Y -> Prop) l l' i x y :
  Forall2 P l l' -> P x y -> Forall2 P (RowSem.update l i x) (RowSem.update l' i y).
Proof.
  intros H Hxy. revert i. induction H as [|a b l l' Hab Hl IH]; intros [|i]; cbn.
  - constructor.
  - constructor.
  - constructor; assumption.
  - constructor; [exact Hab|apply IH].
Qed.

Lemma Forall2_app_one {X Y} (P : X -> Y -> Prop) l l' x y : Forall2 P l l' -> P x y -> Forall2 P (l ++ [x]) (l' ++ [y]).
Proof. intros H Hxy. apply Forall2_app; [exact H|constructor; [exact Hxy|constructor]]. Qed.

Lemma Forall2_impl {X Y} (P Q : X -> Y -> Prop) l l' : (forall x y, P x y -> Q x y) -> Forall2 P l l' -> Forall2 Q l l'.
Proof. intros H F. induction F; constructor; auto. Qed.

Lemma Forall2_and_in {X Y} (P : X -> Y -> Prop) l l' : Forall2 P l l' -> Forall2 (fun x y => P x y /\ In y l') l l'.
Proof.
  intros H. assert (G : forall l0, incl l' l0 -> Forall2 (fun x y => P x y /\ In y l0) l l'); [|apply G, incl_refl].
  induction H as [|a b l l' Hab _ IH]; intros l0 Hi; constructor.
  - split; [exact Hab|apply Hi; left; reflexivity].
  - apply IH. intros y Hy. apply Hi. right. exact Hy.
Qed.

(* find on two related lists finds at the same position *)
Lemma find_Forall2 {X Y} (P : X -> Y -> Prop) (p : X -> bool) (q : Y -> bool) l l' :
  Forall2 P l l' -> (forall x y, P x y -> p x = q y) ->
  match find p l, find q l' with
  | Some x, Some y => P x y
  | None, None => True
  | _, _ => False
  end.
Proof.
  intros H Hpq. induction H as [|a b l l' Hab _ IH]; cbn; [exact I|].
  rewrite (Hpq _ _ Hab). destruct (q b); [exact Hab|exact IH].
Qed.

(* with distinct keys, updating the first element whose key is u is updating position i *)
Lemma upd_first_nth {X} (h : X -> str) (f : X -> X) l i c :
  NoDup (map h l) -> nth_error l i = Some c ->
  upd_first (fun x => str_eqb (h x) (h c)) f l = RowSem.update l i (f c).
Proof.
  revert i. induction l as [|a r IH]; intros [|i]; cbn; try discriminate.
  - intros _ E. injection E as ->. rewrite str_eqb_refl. reflexivity.
  - intros Hnd E. inversion Hnd as [|? ? Ha Hr]; subst.
    destruct (str_eqb (h a) (h c)) eqn:Eq.
    + apply str_eqb_eq in Eq. exfalso. apply Ha. rewrite Eq. apply in_map. eapply nth_error_In, E.
    + rewrite (IH i Hr E). reflexivity.
Qed.

Lemma existsb_nth {X} (p : X -> bool) l i c : nth_error l i = Some c -> p c = true -> existsb p l = true.
Proof. intros E Hp. apply existsb_exists. exists c. split; [eapply nth_error_In, E|exact Hp]. Qed.

Lemma nth_error_app_l {X} (l l' : list X) i x : nth_error l i = Some x -> nth_error (l ++ l') i = Some x.
Proof. intros H. rewrite nth_error_app1; [exact H|]. apply nth_error_Some. congruence. Qed.

Lemma update_app_l {X} (l l' : list X) i x : i < length l -> RowSem.update (l ++ l') i x = RowSem.update l i x ++ l'.
Proof.
  revert i. induction l as [|a r IH]; intros i Hi; cbn in Hi; [lia|]. destruct i as [|i]; cbn; [reflexivity|].
  rewrite IH by lia. reflexivity.
Qed.

(* ---------------------------------------------------------------- monotonicity *)
Definition grows {X} (l l' : list X) : Prop := exists x, l' = l ++ x.

Lemma grows_refl {X} (l : list X) : grows l l.
Proof. exists []. rewrite app_nil_r. reflexivity. Qed.
Lemma grows_trans {X} (a b c : list X) : grows a b -> grows b c -> grows a c.
Proof. intros (x & ->) (y & ->). exists (x ++ y). rewrite app_assoc. reflexivity. Qed.
Lemma grows_app {X} (l x : list X) : grows l (l ++ x).
Proof. exists x. reflexivity. Qed.
Lemma grows_nth {X} (l l' : list X) i x : grows l l' -> nth_error l i = Some x -> nth_error l' i = Some x.
Proof. intros (y & ->). apply nth_error_app_l. Qed.

(* phi may grow, and a cluster may gain its implicit router: the row's node of every cluster stays *)
Definition phi_le (phi phi' : list cluster) : Prop :=
  forall k c, nth_error phi k = Some c -> exists c', nth_error phi' k = Some c' /\ fst c' = fst c.

Lemma phi_le_refl phi : phi_le phi phi.
Proof. intros k c H. exists c. auto. Qed.
Lemma phi_le_trans a b c : phi_le a b -> phi_le b c -> phi_le a c.
Proof.
  intros H1 H2 k x Hx. destruct (H1 k x Hx) as (y & Hy & Ey). destruct (H2 k y Hy) as (z & Hz & Ez). exists z. split; [exact Hz|congruence].
Qed.
Lemma phi_le_app phi x : phi_le phi (phi ++ x).
Proof. intros k c H. exists c. split; [apply nth_error_app_l, H|reflexivity]. Qed.
Lemma phi_le_update phi k c c' : nth_error phi k = Some c -> fst c' = fst c -> phi_le phi (RowSem.update phi k c').
Proof.
  intros Hk Ef j x Hx. destruct (Nat.eq_dec j k) as [->|Hne].
  - assert (x = c) by congruence. subst x. exists c'. split; [eapply update_nth_same; eauto|exact Ef].
  - exists x. split; [rewrite update_nth_other by exact Hne; exact Hx|reflexivity].
Qed.

Lemma dest_sim_mono phi uu phi' uu' d d' : phi_le phi phi' -> grows uu uu' -> dest_sim phi uu d d' -> dest_sim phi' uu' d d'.
Proof.
  intros Hp Hu. destruct d as [| |k], d' as [u|]; cbn; auto.
  intros (Hne & c & Hc & Hn). split; [exact Hne|]. destruct (Hp k c Hc) as (c' & Hc' & Ef). exists c'. split; [exact Hc'|].
  rewrite Ef. eapply grows_nth; eauto.
Qed.

Lemma cat_sim_mono phi uu phi' uu' x c : phi_le phi phi' -> grows uu uu' -> cat_sim phi uu x c -> cat_sim phi' uu' x c.
Proof. intros Hp Hu [H1 H2]. split; [exact H1|eapply dest_sim_mono; eauto]. Qed.

(* a name the sheet leaves open *)
Lemma name_sim_wild n : (explicit_names_claimed = false -> gname n) -> name_sim CWild n.
Proof. intros H. unfold name_sim. destruct explicit_names_claimed; [exact I|apply H; reflexivity]. Qed.

(* ---------------------------------------------------------------- the marks of invented names *)
Lemma marks_Forall2_same (a : list id) (l1 l2 : list (cname * dest)) (l1' l2' : list ccat) :
  map fst l2 = map fst l1 -> map cc_uuid l2' = map cc_uuid l1' ->
  Forall2 (fun x c => memb (cc_uuid c) a = match fst x with CWild => true | CFixed _ => false end) l1 l1' ->
  Forall2 (fun x c => memb (cc_uuid c) a = match fst x with CWild => true | CFixed _ => false end) l2 l2'.
Proof.
  intros E1 E2 H. revert l2 l2' E1 E2. induction H as [|x c l l' Hxc _ IH]; intros [|x2 l2] [|c2 l2']; cbn; try discriminate; [constructor|].
  intros E1 E2. injection E1 as Ex E1. injection E2 as Ec E2. constructor; [rewrite Ec, Ex; exact Hxc|apply IH; assumption].
Qed.

Lemma marks_same d d' r r' :
  map fst (rd_cats d') = map fst (rd_cats d) -> map cc_uuid (sw_cats r') = map cc_uuid (sw_cats r) ->
  map cc_name (sw_all_cats r') = map cc_name (sw_all_cats r) -> sw_auto r' = sw_auto r -> marks_ok d r -> marks_ok d' r'.
Proof.
  intros E1 E2 E3 E4 [M1 M2 M3]. constructor.
  - rewrite E4. eapply marks_Forall2_same; eauto.
  - rewrite E4, E2. exact M2.
  - rewrite E3. exact M3.
Qed.

Lemma map_update_same {X Y} (h : X -> Y) (l : list X) i x y : nth_error l i = Some y -> h x = h y -> map h (RowSem.update l i x) = map h l.
Proof.
  revert i. induction l as [|a r IH]; intros [|i]; cbn; try discriminate.
  - intros E Hh. injection E as ->. rewrite Hh. reflexivity.
  - intros E Hh. rewrite (IH i E Hh). reflexivity.
Qed.

Lemma set_cat_dest_fst l i d : map fst (set_cat_dest l i d) = map fst l.
Proof.
  unfold set_cat_dest. destruct (nth_error l i) as [[c d0]|] eqn:E; [|reflexivity].
  eapply (map_update_same fst l i (c, d) (c, d0)); [exact E|reflexivity].
Qed.

Lemma upd_first_map' {X Y} (p : X -> bool) (f : X -> X) (h : X -> Y) l : (forall c, h (f c) = h c) -> map h (upd_first p f l) = map h l.
Proof. apply upd_first_map. Qed.

Lemma sw_upd_cat_names p d r : map cc_name (sw_all_cats (sw_upd_cat p (fun c => cat_set_dest c d) r)) = map cc_name (sw_all_cats r).
Proof. rewrite sw_all_cats_upd_cat. apply upd_first_map. reflexivity. Qed.

Lemma sw_upd_cat_auto p f r : sw_auto (sw_upd_cat p f r) = sw_auto r.
Proof.
  unfold sw_upd_cat. destruct (existsb p (sw_cats r)); [reflexivity|]. destruct (p (sw_default r)); [reflexivity|].
  destruct (sw_wait r) as [| |t c]; try reflexivity. destruct (p c); reflexivity.
Qed.

Lemma sw_upd_cat_cats_uuid p f r : (forall c, cc_uuid (f c) = cc_uuid c) -> map cc_uuid (sw_cats (sw_upd_cat p f r)) = map cc_uuid (sw_cats r).
Proof.
  intros H. unfold sw_upd_cat. destruct (existsb p (sw_cats r)); [cbn; apply upd_first_map; exact H|]. destruct (p (sw_default r)); [reflexivity|].
  destruct (sw_wait r) as [| |t c]; try reflexivity. destruct (p c); reflexivity.
Qed.

Lemma dec_sim_mono phi uu phi' uu' d r : phi_le phi phi' -> grows uu uu' -> dec_sim phi uu d r -> dec_sim phi' uu' d r.
Proof.
  intros Hp Hu [H1 H2 H3 H4 H5 H6 H7 H8 H9]. constructor; try assumption.
  - unfold wait_sim in *. destruct (rd_wait d), (sw_wait r); try assumption.
    destruct H4 as (E & x & Ex & Hx). split; [exact E|]. exists x. split; [exact Ex|eapply cat_sim_mono; eauto].
  - eapply Forall2_impl; [|exact H5]. intros x y. apply cat_sim_mono; assumption.
  - eapply cat_sim_mono; eauto.
Qed.

Lemma rand_sim_mono phi uu phi' uu' d r : phi_le phi phi' -> grows uu uu' -> rand_sim phi uu d r -> rand_sim phi' uu' d r.
Proof.
  intros Hp Hu [H1 H2 H3 H4]. constructor; try assumption.
  eapply Forall2_impl; [|exact H3]. intros x y [A B]. split; [exact A|eapply dest_sim_mono; eauto].
Qed.

Lemma node_sim_mono phi uu phi' uu' n nd o : phi_le phi phi' -> grows uu uu' -> node_sim phi uu n nd o -> node_sim phi' uu' n nd o.
Proof.
  intros Hp Hu H. destruct H.
  - eapply NS_basic; eauto. eapply dest_sim_mono; eauto.
  - eapply NS_router; eauto. eapply dec_sim_mono; eauto.
  - eapply NS_random; eauto. eapply rand_sim_mono; eauto.
  - eapply NS_implicit; eauto. eapply dec_sim_mono; eauto.
Qed.

(* ---------------------------------------------------------------- decisions *)
Section Dec.
Variable phi : list cluster.
Variable uu : list id.

Lemma sw_all_cats_uuid_update_default r d nm :
  map cc_uuid (sw_all_cats (sw_update_default r d nm)) = map cc_uuid (sw_all_cats r).
Proof. unfold sw_update_default, sw_all_cats. cbn. rewrite !map_app. cbn. destruct nm; reflexivity. Qed.

Lemma dec_sim_set_default d r tgt d' :
  dec_sim phi uu d r -> dest_sim phi uu tgt d' -> dec_sim phi uu (set_default d tgt) (sw_update_default r d' []).
Proof.
  intros [H1 H2 H3 H4 H5 H6 H7 H8 H9] Hd. constructor.
  - exact H1.
  - exact H2.
  - exact H3.
  - exact H4.
  - exact H5.
  - destruct H6 as [Hn _]. split; [exact Hn|exact Hd].
  - rewrite (sw_all_cats_uuid_update_default r d' []). exact H7.
  - rewrite (sw_all_cats_uuid_update_default r d' []). exact H8.
  - eapply marks_same; [| | | |exact H9]; try reflexivity.
    unfold sw_update_default, sw_all_cats. cbn. rewrite !map_app. reflexivity.
Qed.

Lemma plain_set_default d tgt : plain_dec d -> plain_dec (set_default d tgt).
Proof. intros (H1 & H2 & H3). split; [exact H1|split; [exact H2|exact H3]]. Qed.

Lemma shape_set_default cls d tgt : shape_ok cls d -> shape_ok cls (set_default d tgt).
Proof. destruct cls; auto. Qed.

Lemma sw_all_cats_uuid_update_noresp r d : map cc_uuid (sw_all_cats (sw_update_noresp r d)) = map cc_uuid (sw_all_cats r).
Proof.
  unfold sw_update_noresp. destruct (sw_wait r) as [| |t c] eqn:E; try reflexivity.
  unfold sw_all_cats. cbn. rewrite E. rewrite !map_app. reflexivity.
Qed.

(* the no-response edge *)
Lemma dec_sim_noresp d r nm x tgt d' :
  dec_sim phi uu d r -> rd_noresp d = Some (nm, x) -> dest_sim phi uu tgt d' ->
  dec_sim phi uu (mkDec (rd_random d) (rd_operand d) (rd_wait d) (rd_result d) (rd_cases d) (rd_cats d) (rd_default d) (Some (nm, tgt)))
          (sw_update_noresp r d').
Proof.
  intros [H1 H2 H3 H4 H5 H6 H7 H8 H9] En Hd.
  rewrite <- (sw_all_cats_uuid_update_noresp r d') in H7, H8.
  assert (H9' : marks_ok (mkDec (rd_random d) (rd_operand d) (rd_wait d) (rd_result d) (rd_cases d) (rd_cats d) (rd_default d) (Some (nm, tgt))) (sw_update_noresp r d')).
  { eapply marks_same; [| | | |exact H9]; try reflexivity; unfold sw_update_noresp; destruct (sw_wait r) as [| |t0 c0] eqn:E0; try reflexivity.
    unfold sw_all_cats. cbn. rewrite E0. rewrite !map_app. reflexivity. }
  unfold sw_update_noresp in *. unfold wait_sim in H4.
  destruct (rd_wait d) as [| |t z] eqn:Ew, (sw_wait r) as [| |t' c] eqn:Ec; try contradiction; try congruence.
  destruct H4 as (Et & y & Ey & Hy). rewrite En in Ey. injection Ey as <-.
  constructor.
  - exact H1.
  - exact H2.
  - exact H3.
  - unfold wait_sim. cbn. split; [exact Et|]. exists (nm, tgt). split; [reflexivity|].
    destruct Hy as [Hn _]. split; [exact Hn|exact Hd].
  - exact H5.
  - exact H6.
  - exact H7.
  - exact H8.
  - exact H9'.
Qed.

Lemma wait_sim_noresp_none d r : dec_sim phi uu d r -> rd_noresp d = None -> match sw_wait r with CWTimeout _ _ => False | _ => True end.
Proof.
  intros [_ _ _ H4 _ _ _ _ _] En. unfold wait_sim in H4. destruct (rd_wait d), (sw_wait r); try contradiction; auto.
  destruct H4 as (_ & x & Ex & _). congruence.
Qed.

Lemma wait_sim_noresp_some d r nm x : dec_sim phi uu d r -> rd_noresp d = Some (nm, x) -> exists t c, sw_wait r = CWTimeout t c.
Proof.
  intros [_ _ _ H4 _ _ _ _ _] En. unfold wait_sim in H4. destruct (rd_wait d), (sw_wait r) as [| |t c]; try contradiction; try congruence.
  exists t, c. reflexivity.
Qed.

(* re-targeting the category of position i *)
Lemma dec_sim_set_cat d r i u tgt d' :
  dec_sim phi uu d r -> i < length (rd_cats d) -> nth_error (map cc_uuid (sw_all_cats r)) i = Some u -> dest_sim phi uu tgt d' ->
  dec_sim phi uu (mkDec (rd_random d) (rd_operand d) (rd_wait d) (rd_result d) (rd_cases d) (set_cat_dest (rd_cats d) i tgt)
                        (rd_default d) (rd_noresp d))
          (sw_upd_cat (uuid_is u) (fun c => cat_set_dest c d') r).
Proof.
  intros [H1 H2 H3 H4 H5 H6 H7 H8 H9] Hi Hu Hd.
  assert (Hlen := Forall2_length' _ _ _ H5).
  destruct (nth_error (rd_cats d) i) as [[cn0 d0]|] eqn:Ei; [|apply nth_error_None in Ei; lia].
  destruct (Forall2_nth _ _ _ _ _ H5 Ei) as (c & Ec & Hc).
  assert (Euc : u = cc_uuid c).
  { unfold sw_all_cats in Hu. rewrite map_app in Hu. rewrite nth_error_app1 in Hu by (rewrite map_length; lia).
    rewrite nth_error_map, Ec in Hu. cbn in Hu. congruence. }
  subst u.
  assert (Hall : nth_error (sw_all_cats r) i = Some c) by (apply nth_error_app_l, Ec).
  assert (Eupd : sw_all_cats (sw_upd_cat (uuid_is (cc_uuid c)) (fun x => cat_set_dest x d') r)
                 = RowSem.update (sw_cats r) i (cat_set_dest c d') ++ sw_default r :: wait_cats (sw_wait r)).
  { rewrite sw_all_cats_upd_cat. unfold uuid_is.
    rewrite (upd_first_nth cc_uuid (fun x => cat_set_dest x d') (sw_all_cats r) i c H8 Hall).
    unfold sw_all_cats. apply update_app_l. lia. }
  assert (Ecats : sw_cats (sw_upd_cat (uuid_is (cc_uuid c)) (fun x => cat_set_dest x d') r) = RowSem.update (sw_cats r) i (cat_set_dest c d')
                  /\ sw_default (sw_upd_cat (uuid_is (cc_uuid c)) (fun x => cat_set_dest x d') r) = sw_default r
                  /\ sw_wait (sw_upd_cat (uuid_is (cc_uuid c)) (fun x => cat_set_dest x d') r) = sw_wait r
                  /\ sw_operand (sw_upd_cat (uuid_is (cc_uuid c)) (fun x => cat_set_dest x d') r) = sw_operand r
                  /\ sw_result (sw_upd_cat (uuid_is (cc_uuid c)) (fun x => cat_set_dest x d') r) = sw_result r).
  { unfold sw_upd_cat. rewrite (existsb_nth (uuid_is (cc_uuid c)) (sw_cats r) i c Ec) by (unfold uuid_is; apply str_eqb_refl).
    cbn. repeat split; try reflexivity. unfold uuid_is.
    apply (upd_first_nth cc_uuid (fun x => cat_set_dest x d') (sw_cats r) i c); [|exact Ec].
    unfold sw_all_cats in H8. rewrite map_app in H8. eapply NoDup_app_l, H8. }
  destruct Ecats as (E1 & E2 & E3 & E4 & E5).
  assert (Euu : map cc_uuid (sw_all_cats (sw_upd_cat (uuid_is (cc_uuid c)) (fun x => cat_set_dest x d') r)) = map cc_uuid (sw_all_cats r)).
  { rewrite sw_all_cats_upd_cat. apply upd_first_map. reflexivity. }
  assert (H9' : marks_ok (mkDec (rd_random d) (rd_operand d) (rd_wait d) (rd_result d) (rd_cases d) (set_cat_dest (rd_cats d) i tgt) (rd_default d) (rd_noresp d))
                         (sw_upd_cat (uuid_is (cc_uuid c)) (fun x => cat_set_dest x d') r)).
  { eapply marks_same; [| | | |exact H9].
    - cbn. apply set_cat_dest_fst.
    - apply sw_upd_cat_cats_uuid. reflexivity.
    - apply sw_upd_cat_names.
    - apply sw_upd_cat_auto. }
  constructor; cbn; rewrite ?E1, ?E2, ?E3, ?E4, ?E5, ?sw_cases_upd_cat, ?Euu; try assumption.
  unfold set_cat_dest. rewrite Ei. apply Forall2_update; [exact H5|]. destruct Hc as [Hn _]. split; [exact Hn|exact Hd].
Qed.
End Dec.

(* ---------------------------------------------------------------- add_case against add_choice *)
Lemma str_eqb_sym a b : str_eqb a b = str_eqb b a.
Proof.
  destruct (str_eqb a b) eqn:E.
  - apply str_eqb_eq in E. subst. symmetry. apply str_eqb_refl.
  - symmetry. apply str_eqb_neq. intros ->. rewrite str_eqb_refl in E. discriminate.
Qed.

Lemma alt_loop_fresh fuel names nm0 nm : alt_loop fuel names nm0 = Ok nm -> memb nm names = false.
Proof.
  revert nm0. induction fuel as [|f IH]; intros nm0; cbn; [discriminate|].
  destruct (memb nm0 names) eqn:E; [apply IH|]. intros H. injection H as <-. exact E.
Qed.

Lemma find_name_none nm (l : list ccat) : memb nm (map cc_name l) = false -> find (name_is nm) l = None.
Proof.
  induction l as [|c r IH]; cbn; [reflexivity|]. unfold memb. cbn. intros H. apply orb_false_iff in H as [H1 H2].
  unfold name_is at 1. rewrite str_eqb_sym, H1. apply IH, H2.
Qed.

Lemma set_cat_dest_length l i d : length (set_cat_dest l i d) = length l.
Proof. unfold set_cat_dest. destruct (nth_error l i) as [[c ?]|]; [apply update_length|reflexivity]. Qed.

Section AddCase.
Variable fresh : nat -> id.
Hypothesis fresh_inj : forall a b, fresh a = fresh b -> a = b.
Variable phi : list cluster.
Variable uu : list id.

Lemma dec_sim_set_operand d r v :
  dec_sim phi uu d r ->
  dec_sim phi uu (mkDec (rd_random d) (new_operand (rd_operand d) v) (rd_wait d) (rd_result d) (rd_cases d) (rd_cats d) (rd_default d) (rd_noresp d))
          (sw_set_operand r v).
Proof.
  intros [H1 H2 H3 H4 H5 H6 H7 H8 H9]. destruct v as [|c v]; cbn; constructor; cbn; try assumption; try reflexivity.
  - destruct H9 as [M1 M2 M3]. constructor; assumption.
  - destruct H9 as [M1 M2 M3]. constructor; assumption.
Qed.

Lemma new_case_full n ty args cat k n' :
  new_case fresh n ty args cat = Ok (k, n') ->
  ck_type k = ty /\ ck_args k = (if nab ty then [] else args) /\ ck_cat k = cat /\ ck_uuid k = fresh n /\ n' = S n.
Proof. unfold new_case, nab. destruct (negb (memb ty known_tests)); [discriminate|]. intros H. injection H as <- <-. auto. Qed.

(* the names generate_category_name can return *)
Lemma alt_loop_shape fuel names nm0 nm : alt_loop fuel names nm0 = Ok nm -> exists k, nm = nm0 ++ alts k.
Proof.
  revert nm0. induction fuel as [|f IH]; intros nm0; cbn; [discriminate|].
  destruct (memb nm0 names).
  - intros H. destruct (IH _ H) as (k & ->). exists (S k). cbn [alts]. rewrite app_assoc. reflexivity.
  - intros H. injection H as <-. exists 0. cbn. rewrite app_nil_r. reflexivity.
Qed.

Lemma gen_cat_name_shape names args nm : gen_cat_name names args = Ok nm -> exists k, nm = gen_base args ++ alts k.
Proof. unfold gen_cat_name. apply alt_loop_shape. Qed.

(* looking a category up by an explicit name: when no category the sheet leaves unnamed carries that name, the
   reference finds it among the named categories exactly where the compiler finds it *)
Definition no_wild_named (nm : str) (cats : list (cname * dest)) (ccats : list ccat) : Prop :=
  forall j x c, nth_error cats j = Some x -> nth_error ccats j = Some c -> fst x = CWild -> name_is nm c = false.

Lemma no_wild_named_tl nm x c cats ccats : no_wild_named nm (x :: cats) (c :: ccats) -> no_wild_named nm cats ccats.
Proof. intros H j y c' Hy Hc'. exact (H (S j) y c' Hy Hc'). Qed.

Lemma find_named nm (f : ccat -> ccat) cats ccats : forall i,
  Forall2 (cat_sim phi uu) cats ccats -> no_wild_named nm cats ccats ->
  match find_cat cats nm i with
  | Some ci => exists j c, ci = i + j /\ j < length cats /\ nth_error ccats j = Some c
                           /\ find (name_is nm) ccats = Some c /\ existsb (name_is nm) ccats = true
                           /\ upd_first (name_is nm) f ccats = RowSem.update ccats j (f c)
  | None => find (name_is nm) ccats = None /\ existsb (name_is nm) ccats = false
  end.
Proof.
  intros i H Hw. revert i. induction H as [|x c l l' Hxc _ IH]; intros i; cbn [find_cat find existsb upd_first]; [auto|].
  destruct x as [cn dd].
  assert (E : cname_is cn nm = name_is nm c).
  { destruct cn as [t|]; cbn.
    - destruct Hxc as [Hn _]. cbn in Hn. subst t. reflexivity.
    - symmetry. exact (Hw 0 (CWild, dd) c eq_refl eq_refl eq_refl). }
  rewrite <- E. destruct (cname_is cn nm).
  - exists 0, c. cbn. repeat split; try reflexivity; lia.
  - specialize (IH (no_wild_named_tl _ _ _ _ _ Hw) (S i)). destruct (find_cat l nm (S i)) as [ci|].
    + destruct IH as (j & c' & -> & Hj & Hn & Hf & He & Hu). exists (S j), c'. cbn. rewrite Hu. repeat split; auto; lia.
    + exact IH.
Qed.

Lemma find_app_none {X} (p : X -> bool) l l' : find p l = None -> find p (l ++ l') = find p l'.
Proof. induction l as [|a r IH]; cbn; [reflexivity|]. destruct (p a); [discriminate|exact IH]. Qed.
Lemma find_app_some {X} (p : X -> bool) l l' x : find p l = Some x -> find p (l ++ l') = Some x.
Proof. induction l as [|a r IH]; cbn; [discriminate|]. destruct (p a); [auto|exact IH]. Qed.

Lemma map_uuid_update l i c d' : nth_error l i = Some c -> map cc_uuid (RowSem.update l i (cat_set_dest c d')) = map cc_uuid l.
Proof. intros H. eapply map_update_same; [exact H|reflexivity]. Qed.

(* the premise on the name, as long as the tree has the defect category-name-clash: an unnamed category gets one of the
   invented names of G, an explicit name is outside G *)
Definition name_ok (name : str) (args : list (option str)) : Prop :=
  if explicit_names_claimed then True
  else match name with [] => forall k, gname (gen_base args ++ alts k) | _ => ~ gname name /\ name <> s_NoResponse end.

(* ---------------------------------------------------------------- an explicit name claims its name (the repaired tree) *)
Lemma find_first {X} (p : X -> bool) l c : find p l = Some c ->
  exists j, nth_error l j = Some c /\ p c = true /\ forall i x, i < j -> nth_error l i = Some x -> p x = false.
Proof.
  induction l as [|a r IH]; cbn; [discriminate|]. destruct (p a) eqn:Ea.
  - intros H. injection H as <-. exists 0. split; [reflexivity|]. split; [exact Ea|]. intros i x Hi. lia.
  - intros H. destruct (IH H) as (j & Hj & Hp & Hlt). exists (S j). split; [exact Hj|]. split; [exact Hp|].
    intros [|i] x Hi Hx; cbn in Hx; [injection Hx as <-; exact Ea|]. apply (Hlt i x); [lia|exact Hx].
Qed.

Lemma find_none_all {X} (p : X -> bool) l : find p l = None -> forall x, In x l -> p x = false.
Proof.
  induction l as [|a r IH]; cbn; [intros _ x []|]. destruct (p a) eqn:Ea; [discriminate|].
  intros H x [<-|Hx]; [exact Ea|apply IH; assumption].
Qed.

Lemma NoDup_map_nth {X Y} (h : X -> Y) (l : list X) i j x y :
  NoDup (map h l) -> nth_error l i = Some x -> nth_error l j = Some y -> h x = h y -> i = j.
Proof.
  revert i j. induction l as [|a r IH]; intros [|i] [|j]; cbn; try discriminate; intros Hnd Hx Hy E; inversion Hnd as [|? ? Ha Hr]; subst.
  - reflexivity.
  - injection Hx as ->. exfalso. apply Ha. rewrite E. apply in_map. eapply nth_error_In, Hy.
  - injection Hy as ->. exfalso. apply Ha. rewrite <- E. apply in_map. eapply nth_error_In, Hx.
  - f_equal. eapply IH; eauto.
Qed.

(* find over get_categories(): a hit that is neither the default nor the No Response category is an ordinary category *)
Lemma find_all_in_cats r p c :
  find p (sw_all_cats r) = Some c ->
  str_eqb (cc_uuid c) (cc_uuid (sw_default r)) || existsb (uuid_is (cc_uuid c)) (wait_cats (sw_wait r)) = false ->
  find p (sw_cats r) = Some c.
Proof.
  unfold sw_all_cats. intros Hf Hu. destruct (find p (sw_cats r)) as [c'|] eqn:E.
  - rewrite (find_app_some _ _ _ _ E) in Hf. exact Hf.
  - rewrite (find_app_none _ _ _ E) in Hf. exfalso. apply orb_false_iff in Hu as [U1 U2]. cbn [find] in Hf.
    destruct (p (sw_default r)); [injection Hf as <-; rewrite str_eqb_refl in U1; discriminate|].
    destruct (sw_wait r) as [| |t cw]; cbn in Hf; try discriminate. destruct (p cw); [|discriminate]. injection Hf as <-.
    cbn in U2. unfold uuid_is in U2. rewrite str_eqb_refl in U2. discriminate.
Qed.

(* replacing one name by a fresh one keeps the names distinct *)
Lemma NoDup_rename nm' : forall (l : list ccat) i y rest, nth_error l i = Some y -> NoDup (map cc_name (l ++ rest)) -> memb nm' (map cc_name (l ++ rest)) = false ->
  NoDup (map cc_name (RowSem.update l i (cat_set_name y nm') ++ rest)).
Proof.
  induction l as [|a l IHl]; intros [|i] y rest; cbn; try discriminate.
  - intros E Hnd' Hm. injection E as ->. inversion Hnd' as [|? ? Ha Hr]; subst. constructor; [|exact Hr].
    intros Hin. unfold memb in Hm. cbn in Hm. apply orb_false_iff in Hm as [_ Hm].
    assert (Hm' : existsb (str_eqb nm') (map cc_name (l ++ rest)) = true) by (apply existsb_exists; exists nm'; split; [exact Hin|apply str_eqb_refl]).
    congruence.
  - intros E Hnd' Hm. inversion Hnd' as [|? ? Ha Hr]; subst. unfold memb in Hm. cbn in Hm. apply orb_false_iff in Hm as [Hm1 Hm2].
    constructor; [|apply IHl; assumption].
    intros Hin. rewrite map_app in Hin, Ha. apply in_app_or in Hin as [Hin|Hin].
    + rewrite in_map_iff in Hin. destruct Hin as (z & Ez & Hz). apply In_nth_error in Hz as (i0 & Hi0).
      destruct (Nat.eq_dec i0 i) as [->|Hne].
      * rewrite (update_nth_same _ _ _ _ E) in Hi0. injection Hi0 as <-. cbn in Ez. rewrite Ez, str_eqb_refl in Hm1. discriminate.
      * rewrite update_nth_other in Hi0 by exact Hne. apply Ha. apply in_or_app. left. rewrite <- Ez. apply in_map. eapply nth_error_In, Hi0.
    + apply Ha. apply in_or_app. right. exact Hin.
Qed.

Lemma dec_sim_rename d r j c nm' :
  explicit_names_claimed = true -> dec_sim phi uu d r -> nth_error (sw_cats r) j = Some c ->
  (exists x, nth_error (rd_cats d) j = Some x /\ fst x = CWild) -> memb nm' (map cc_name (sw_all_cats r)) = false ->
  dec_sim phi uu d (sw_upd_cat (uuid_is (cc_uuid c)) (fun x => cat_set_name x nm') r)
  /\ sw_cats (sw_upd_cat (uuid_is (cc_uuid c)) (fun x => cat_set_name x nm') r) = RowSem.update (sw_cats r) j (cat_set_name c nm')
  /\ sw_default (sw_upd_cat (uuid_is (cc_uuid c)) (fun x => cat_set_name x nm') r) = sw_default r
  /\ sw_wait (sw_upd_cat (uuid_is (cc_uuid c)) (fun x => cat_set_name x nm') r) = sw_wait r.
Proof.
  intros Eflag [H1 H2 H3 H4 H5 H6 H7 H8 H9] Hc (x & Hx & Hwild) Hfresh.
  assert (Hall : nth_error (sw_all_cats r) j = Some c) by (apply nth_error_app_l, Hc).
  assert (Hex : existsb (uuid_is (cc_uuid c)) (sw_cats r) = true) by (eapply existsb_nth; [exact Hc|unfold uuid_is; apply str_eqb_refl]).
  assert (Hnd : NoDup (map cc_uuid (sw_cats r))) by (unfold sw_all_cats in H8; rewrite map_app in H8; eapply NoDup_app_l, H8).
  assert (Ecats : sw_cats (sw_upd_cat (uuid_is (cc_uuid c)) (fun x => cat_set_name x nm') r) = RowSem.update (sw_cats r) j (cat_set_name c nm')).
  { unfold sw_upd_cat. rewrite Hex. cbn. unfold uuid_is. apply (upd_first_nth cc_uuid (fun x => cat_set_name x nm') (sw_cats r) j c Hnd Hc). }
  assert (Erest : sw_default (sw_upd_cat (uuid_is (cc_uuid c)) (fun x => cat_set_name x nm') r) = sw_default r
                  /\ sw_wait (sw_upd_cat (uuid_is (cc_uuid c)) (fun x => cat_set_name x nm') r) = sw_wait r
                  /\ sw_operand (sw_upd_cat (uuid_is (cc_uuid c)) (fun x => cat_set_name x nm') r) = sw_operand r
                  /\ sw_result (sw_upd_cat (uuid_is (cc_uuid c)) (fun x => cat_set_name x nm') r) = sw_result r)
    by (unfold sw_upd_cat; rewrite Hex; cbn; auto).
  destruct Erest as (E2 & E3 & E4 & E5).
  assert (Euu : map cc_uuid (sw_all_cats (sw_upd_cat (uuid_is (cc_uuid c)) (fun x => cat_set_name x nm') r)) = map cc_uuid (sw_all_cats r)).
  { rewrite sw_all_cats_upd_cat. apply upd_first_map. reflexivity. }
  split; [|auto]. constructor; rewrite ?Ecats, ?E2, ?E3, ?E4, ?E5, ?sw_cases_upd_cat, ?Euu; try assumption.
  - (* the categories: only the name of an unnamed one changes *)
    replace (rd_cats d) with (RowSem.update (rd_cats d) j x) by (clear - Hx; revert j Hx; induction (rd_cats d) as [|a l IH]; intros [|j]; cbn; try discriminate; [intros E; injection E as ->; reflexivity|intros E; rewrite (IH j E); reflexivity]).
    apply Forall2_update; [exact H5|]. destruct (Forall2_nth _ _ _ _ _ H5 Hx) as (c' & Hc' & [_ Hd']). assert (c' = c) by congruence. subst c'.
    split; [rewrite Hwild; unfold name_sim; rewrite Eflag; exact I|exact Hd'].
  - (* marks and names *)
    destruct H9 as [M1 M2 M3]. constructor.
    + rewrite Ecats, sw_upd_cat_auto. eapply marks_Forall2_same; [reflexivity| |exact M1]. eapply map_update_same; [exact Hc|reflexivity].
    + rewrite sw_upd_cat_auto, Ecats. erewrite map_update_same; [exact M2|exact Hc|reflexivity].
    + intros _. specialize (M3 Eflag). unfold sw_all_cats in *. rewrite Ecats, E2, E3.
      apply NoDup_rename; assumption.
Qed.

Lemma claim_spec d r nm rc :
  explicit_names_claimed = true -> dec_sim phi uu d r -> plain_dec d -> nm <> [] -> sw_claim r nm = Ok rc ->
  dec_sim phi uu d rc /\ sw_cases rc = sw_cases r /\ map cc_uuid (sw_all_cats rc) = map cc_uuid (sw_all_cats r)
  /\ no_wild_named nm (rd_cats d) (sw_cats rc)
  /\ (find (name_is nm) (sw_cats rc) = None -> find (name_is nm) (sw_all_cats rc) = None).
Proof.
  intros Eflag Hsim (Hpc & Hpd & Hpn) Hne. unfold sw_claim.
  pose proof (mk_names _ _ (ds_marks _ _ _ _ Hsim) Eflag) as Hnames.
  pose proof (mk_marks _ _ (ds_marks _ _ _ _ Hsim)) as Hmarks.
  pose proof (ds_cats _ _ _ _ Hsim) as H5.
  destruct (find (name_is nm) (sw_all_cats r)) as [c|] eqn:Ef.
  2:{ (* no category has that name *)
      intros H. injection H as <-. split; [exact Hsim|]. split; [reflexivity|]. split; [reflexivity|]. split; [|intros _; exact Ef].
      intros j x c Hx Hc _. apply (find_none_all _ _ Ef). unfold sw_all_cats. apply in_or_app. left. eapply nth_error_In, Hc. }
  destruct (str_eqb (cc_uuid c) (cc_uuid (sw_default r)) || existsb (uuid_is (cc_uuid c)) (wait_cats (sw_wait r))) eqn:Eu; [discriminate|].
  pose proof (find_all_in_cats r _ c Ef Eu) as Efc.
  destruct (find_first _ _ _ Efc) as (j & Hj & Hpj & Hbefore).
  assert (Hjall : nth_error (sw_all_cats r) j = Some c) by (apply nth_error_app_l, Hj).
  assert (Huniq : forall i c', nth_error (sw_all_cats r) i = Some c' -> name_is nm c' = true -> i = j).
  { intros i c' Hi Hn. eapply (NoDup_map_nth cc_name (sw_all_cats r)); eauto. unfold name_is in *. apply str_eqb_eq in Hn, Hpj. congruence. }
  assert (Hjlt : j < length (rd_cats d)) by (rewrite (Forall2_length' _ _ _ H5); apply nth_error_Some; congruence).
  destruct (nth_error (rd_cats d) j) as [x|] eqn:Ex; [|apply nth_error_None in Ex; lia].
  destruct (Forall2_nth _ _ _ _ _ Hmarks Ex) as (c' & Hc' & Hm). assert (c' = c) by congruence. subst c'.
  destruct (memb (cc_uuid c) (sw_auto r)) eqn:Eauto.
  - (* the category carries an invented name: it makes way *)
    destruct (alt_loop _ _ (nm ++ s_alt)) as [nm'|e] eqn:Ea; [|discriminate]. intros H. injection H as <-.
    apply alt_loop_fresh in Ea.
    assert (Hwild : fst x = CWild) by (destruct (fst x); [discriminate|reflexivity]).
    destruct (dec_sim_rename d r j c nm' Eflag Hsim Hj ltac:(exists x; auto) Ea) as (Hsim' & Ec & Ed & Ew).
    split; [exact Hsim'|]. split; [apply sw_cases_upd_cat|]. split; [rewrite sw_all_cats_upd_cat; apply upd_first_map; reflexivity|].
    assert (Hnone : forall i c', nth_error (sw_all_cats (sw_upd_cat (uuid_is (cc_uuid c)) (fun y => cat_set_name y nm') r)) i = Some c' -> name_is nm c' = false).
    { intros i c' Hi. unfold sw_all_cats in Hi. rewrite Ec, Ed, Ew in Hi. destruct (Nat.eq_dec i j) as [->|Hij].
      - rewrite nth_error_app1 in Hi by (rewrite update_length; apply nth_error_Some; congruence).
        rewrite (update_nth_same _ _ _ _ Hj) in Hi. injection Hi as <-. unfold name_is. cbn. apply str_eqb_neq. intros E.
        unfold memb in Ea. assert (existsb (str_eqb nm') (map cc_name (sw_all_cats r)) = true); [|congruence].
        apply existsb_exists. exists nm. split; [|rewrite E; apply str_eqb_refl]. unfold name_is in Hpj. apply str_eqb_eq in Hpj. rewrite <- Hpj. apply in_map. eapply nth_error_In, Hjall.
      - assert (Hi' : nth_error (sw_all_cats r) i = Some c').
        { unfold sw_all_cats. destruct (Nat.lt_ge_cases i (length (sw_cats r))) as [Hlt|Hge].
          - rewrite nth_error_app1 in Hi by (rewrite update_length; exact Hlt). rewrite update_nth_other in Hi by exact Hij. rewrite nth_error_app1 by exact Hlt. exact Hi.
          - rewrite nth_error_app2 in Hi by (rewrite update_length; exact Hge). rewrite update_length in Hi. rewrite nth_error_app2 by exact Hge. exact Hi. }
        destruct (name_is nm c') eqn:En; [|reflexivity]. exfalso. apply Hij. eapply Huniq; eauto. }
    split.
    + intros i y c' _ Hc'' _. apply (Hnone i c'). unfold sw_all_cats. apply nth_error_app_l. exact Hc''.
    + intros _. destruct (find (name_is nm) (sw_all_cats (sw_upd_cat (uuid_is (cc_uuid c)) (fun y => cat_set_name y nm') r))) as [c'|] eqn:Ef'; [|reflexivity]. exfalso.
      destruct (find_first _ _ _ Ef') as (i & Hi & Hp & _). rewrite (Hnone i c' Hi) in Hp. discriminate.
  - (* the category was named so by the sheet: it is the one meant *)
    intros H. injection H as <-. split; [exact Hsim|]. split; [reflexivity|]. split; [reflexivity|]. split.
    + intros i y c' Hy Hc'' Hw. destruct (name_is nm c') eqn:En; [|reflexivity]. exfalso.
      assert (i = j) by (eapply Huniq; [apply nth_error_app_l; exact Hc''|exact En]). subst i.
      assert (y = x) by congruence. subst y. rewrite Hw in Hm. discriminate.
    + intros Hnone. rewrite Efc in Hnone. discriminate.
Qed.

Lemma dec_sim_add_case n U d r operand ty value args name tgt d' r' n' :
  dec_sim phi uu d r -> plain_dec d -> SwOK fresh n U r -> dest_sim phi uu tgt d' -> name_ok name args ->
  sw_add_choice fresh n r operand (or_default ty s_has_any_word) args name d' false = Ok (r', n') ->
  dec_sim phi uu (add_case nab d operand ty value args name tgt) r' /\ plain_dec (add_case nab d operand ty value args name tgt).
Proof.
  intros Hsim Hplain Hok Hd Hname. unfold sw_add_choice, add_case.
  pose proof (dec_sim_set_operand d r operand Hsim) as Hsim1.
  pose proof (SwOK_set_operand fresh n U r operand Hok) as Hok1.
  set (d1 := mkDec (rd_random d) (new_operand (rd_operand d) operand) (rd_wait d) (rd_result d) (rd_cases d) (rd_cats d) (rd_default d) (rd_noresp d)) in *.
  assert (Hplain1 : plain_dec d1) by exact Hplain.
  set (r1 := sw_set_operand r operand) in *. clearbody r1. clear Hsim Hok.
  set (ty1 := or_default ty s_has_any_word).
  change (match ty with [] => s_has_any_word | _ :: _ => ty end) with ty1.
  change (rd_random d1) with (rd_random d). change (rd_cases d1) with (rd_cases d). change (rd_cats d1) with (rd_cats d).
  pose proof (find_Forall2 (case_sim (map cc_uuid (sw_all_cats r1)))
                (fun k => str_eqb (fst (fst k)) ty1 && ostr_list_eqb (snd (fst k)) args)
                (fun k => str_eqb (ck_type k) ty1 && ostr_list_eqb (ck_args k) args)
                (rd_cases d) (sw_cases r1) (ds_cases _ _ _ _ Hsim1)) as Hfind.
  cbn [rd_cases d1] in Hfind.
  match type of Hfind with (?A -> _) => assert (Hpq : A) end.
  { intros x y (E1 & E2 & _). rewrite E1, E2. reflexivity. }
  specialize (Hfind Hpq). clear Hpq.
  destruct Hplain as (Hpc & Hpd & Hpn).
  destruct (find _ (rd_cases d)) as [[[ty0 a0] ci]|] eqn:Ef1; destruct (find _ (sw_cases r1)) as [k|] eqn:Ef2; try contradiction.
  - (* the case exists on both sides: its category is re-targeted *)
    destruct Hfind as (_ & _ & Hnth). cbn in Hnth.
    destruct (existsb _ (sw_all_cats r1)); [|discriminate]. intros H. injection H as <- <-.
    apply find_some in Ef1 as [Hin _].
    assert (Hci : ci < length (rd_cats d)).
    { rewrite Forall_forall in Hpc. apply (Hpc _ Hin). }
    split; [apply (dec_sim_set_cat phi uu d1 r1 ci (ck_cat k) tgt d' Hsim1 Hci Hnth Hd)|].
    split; [|split; [exact Hpd|exact Hpn]]. cbn [rd_cases rd_cats d1]. rewrite set_cat_dest_length. exact Hpc.
  - (* a new case.  The shared end: a NEW category cn/nm with the case, on a router rc that still simulates d1 *)
    assert (Hnew : forall rc cn nm (g : bool), dec_sim phi uu d1 rc -> sw_cases rc = sw_cases r1 ->
              map cc_uuid (sw_all_cats rc) = map cc_uuid (sw_all_cats r1) -> name_sim cn nm ->
              g = match cn with CWild => true | CFixed _ => false end ->
              (explicit_names_claimed = true -> memb nm (map cc_name (sw_all_cats rc)) = false) ->
              match new_cat fresh n nm d' with
              | Ok (c, n1) => match new_case fresh n1 ty1 args (cc_uuid c) with
                              | Ok (k, n2) => Ok ((if g then sw_mark_auto (sw_add_case (sw_add_cat rc c) k) (cc_uuid c) else sw_add_case (sw_add_cat rc c) k), n2)
                              | Err e => Err e end
              | Err e => Err e end = Ok (r', n') ->
              dec_sim phi uu (mkDec (rd_random d) (rd_operand d1) (rd_wait d1) (rd_result d1)
                                    (rd_cases d ++ [(ty1, if nab ty1 then [] else args, length (rd_cats d))]) (rd_cats d ++ [(cn, tgt)])
                                    (rd_default d1) (rd_noresp d1)) r'
              /\ plain_dec (mkDec (rd_random d) (rd_operand d1) (rd_wait d1) (rd_result d1)
                                  (rd_cases d ++ [(ty1, if nab ty1 then [] else args, length (rd_cats d))]) (rd_cats d ++ [(cn, tgt)])
                                  (rd_default d1) (rd_noresp d1))).
    { intros rc cn nm g [H1 H2 H3 H4 H5 H6 H7 H8 H9] Ecs Euc Hcn Hg Hfresh.
      assert (Hlen := Forall2_length' _ _ _ H5). change (rd_cats d1) with (rd_cats d) in Hlen, H5.
      change (rd_default d1) with (rd_default d) in H6. change (rd_cases d1) with (rd_cases d) in H7.
      destruct (new_cat fresh n nm d') as [[c n1]|e] eqn:Ec; [|discriminate].
      destruct (new_case fresh n1 ty1 args (cc_uuid c)) as [[k n2]|e] eqn:Ek; [|discriminate].
      intros H. apply (new_cat_spec fresh fresh_inj) in Ec as (-> & ->). apply new_case_full in Ek as (K1 & K2 & K3 & K4 & ->).
      set (cnew := mkCCat (fresh n) nm (mkCExit (fresh (S n)) d')) in *.
      set (r2 := sw_add_case (sw_add_cat rc cnew) k) in *.
      assert (Er' : r' = if g then sw_mark_auto r2 (fresh n) else r2) by (destruct g; injection H as <-; reflexivity).
      assert (Hb : Forall (below fresh n) (map cc_uuid (sw_all_cats rc))).
      { rewrite Euc. destruct Hok1 as [[Hids _ _] _ _]. rewrite Forall_forall in *. intros u Hu. apply in_map_iff in Hu as (c0 & <- & Hc0). apply Hids.
        apply in_flat_map. exists c0. split; [exact Hc0|left; reflexivity]. }
      assert (Hnotin : ~ In (fresh n) (map cc_uuid (sw_all_cats rc))) by (exact (not_in_below fresh fresh_inj n n _ Hb (le_n _))).
      assert (Huu : map cc_uuid (sw_all_cats r2) = map cc_uuid (sw_cats rc) ++ fresh n :: map cc_uuid (sw_default rc :: wait_cats (sw_wait rc))).
      { unfold r2, sw_add_case, sw_add_cat, sw_all_cats. cbn. rewrite <- app_assoc. rewrite !map_app. reflexivity. }
      assert (Hfields : sw_operand r' = sw_operand rc /\ sw_result r' = sw_result rc /\ sw_wait r' = sw_wait rc /\ sw_cases r' = sw_cases rc ++ [k]
                        /\ sw_cats r' = sw_cats rc ++ [cnew] /\ sw_default r' = sw_default rc /\ sw_all_cats r' = sw_all_cats r2
                        /\ sw_auto r' = if g then fresh n :: sw_auto rc else sw_auto rc).
      { rewrite Er'. destruct g; cbn; auto 10. }
      destruct Hfields as (F1 & F2 & F3 & F4 & F5 & F6 & F7 & F8).
      split.
      + constructor; rewrite ?F1, ?F2, ?F3, ?F4, ?F5, ?F6, ?F7; cbn [rd_random rd_operand rd_wait rd_result rd_cases rd_cats rd_default rd_noresp].
        * exact H1.
        * exact H2.
        * exact H3.
        * exact H4.
        * apply Forall2_app_one; [exact H5|]. split; [exact Hcn|exact Hd].
        * exact H6.
        * rewrite Huu. apply Forall2_app_one.
          -- assert (G0 : forall l l', Forall2 (case_sim (map cc_uuid (sw_all_cats rc))) l l' -> Forall (fun x => snd x < length (rd_cats d)) l ->
                                Forall2 (case_sim (map cc_uuid (sw_cats rc) ++ fresh n :: map cc_uuid (sw_default rc :: wait_cats (sw_wait rc)))) l l').
             { intros l l' F. induction F as [|x y l l' Hxy _ IH]; intros Hall; [constructor|].
               inversion Hall as [|? ? Hx Hr]; subst. constructor; [|apply IH, Hr].
               destruct Hxy as (E1 & E2 & E3). split; [exact E1|]. split; [exact E2|].
               unfold sw_all_cats in E3. rewrite map_app in E3. rewrite nth_error_app1 in E3 by (rewrite map_length; lia).
               rewrite nth_error_app1 by (rewrite map_length; lia). exact E3. }
             apply G0; [exact H7|exact Hpc].
          -- split; [cbn; symmetry; exact K1|]. split; [cbn; symmetry; exact K2|]. cbn [snd].
             rewrite nth_error_app2 by (rewrite map_length; lia). rewrite map_length, Hlen, Nat.sub_diag. cbn. rewrite K3. reflexivity.
        * rewrite Huu. apply NoDup_insert; [unfold sw_all_cats in H8; rewrite map_app in H8; exact H8|].
          unfold sw_all_cats in Hnotin. rewrite map_app in Hnotin. exact Hnotin.
        * (* marks: the new category is marked exactly when its name was invented *)
          destruct H9 as [M1 M2 M3]. constructor; rewrite ?F5, ?F7, ?F8.
          -- apply Forall2_app_one.
             ++ destruct g; [|exact M1]. eapply Forall2_impl; [|exact (Forall2_and_in _ _ _ M1)].
                intros x c0 [Hm Hin0]. cbn [memb existsb]. unfold memb in *. cbn. rewrite Hm.
                assert (En : str_eqb (cc_uuid c0) (fresh n) = false).
                { apply str_eqb_neq. intros E. apply Hnotin. rewrite <- E. unfold sw_all_cats. rewrite map_app. apply in_or_app. left. apply in_map. exact Hin0. }
                rewrite En. reflexivity.
             ++ cbn [fst cc_uuid cnew]. subst g. destruct cn as [s0|]; unfold memb; cbn.
                ** assert (Em : existsb (str_eqb (fresh n)) (sw_auto rc) = false); [|exact Em].
                   apply not_true_is_false. intros Hex. apply existsb_exists in Hex as (u & Hu & Eu). apply str_eqb_eq in Eu. subst u.
                   apply Hnotin. unfold sw_all_cats. rewrite map_app. apply in_or_app. left. apply M2, Hu.
                ** rewrite str_eqb_refl. reflexivity.
          -- rewrite map_app. cbn [map cc_uuid cnew]. destruct g.
             ++ intros u [<-|Hu]; [apply in_or_app; right; left; reflexivity|apply in_or_app; left; apply M2, Hu].
             ++ intros u Hu. apply in_or_app. left. apply M2, Hu.
          -- intros Eflag. specialize (M3 Eflag). specialize (Hfresh Eflag).
             unfold r2, sw_add_case, sw_add_cat, sw_all_cats in *. cbn [sw_cats sw_default sw_wait]. rewrite <- app_assoc. cbn [app].
             rewrite map_app. cbn [map cc_name cnew]. rewrite map_app in M3, Hfresh. apply NoDup_insert; [exact M3|].
             intros Hin. unfold memb in Hfresh. assert (existsb (str_eqb nm) (map cc_name (sw_cats rc) ++ map cc_name (sw_default rc :: wait_cats (sw_wait rc))) = true); [|congruence].
             apply existsb_exists. exists nm. split; [exact Hin|apply str_eqb_refl].
      + split; [|split; [exact Hpd|exact Hpn]]. cbn [rd_cases rd_cats].
        apply Forall_app. split.
        * eapply Forall_impl; [|exact Hpc]. intros x Hx. cbn beta in Hx. rewrite app_length. cbn. lia.
        * constructor; [|constructor]. cbn. rewrite app_length. cbn. lia. }
    (* the shared end: the category cn found at position j of a router rc *)
    assert (Hreuse : forall rc nm j c, dec_sim phi uu d1 rc -> sw_cases rc = sw_cases r1 ->
              map cc_uuid (sw_all_cats rc) = map cc_uuid (sw_all_cats r1) ->
              j < length (rd_cats d) -> nth_error (sw_cats rc) j = Some c -> existsb (name_is nm) (sw_cats rc) = true ->
              upd_first (name_is nm) (fun c => cat_set_dest c d') (sw_cats rc) = RowSem.update (sw_cats rc) j (cat_set_dest c d') ->
              match new_case fresh n ty1 args (cc_uuid c) with
              | Ok (k, n1) => Ok (sw_add_case (sw_upd_cat (name_is nm) (fun c => cat_set_dest c d') rc) k, n1)
              | Err e => Err e end = Ok (r', n') ->
              dec_sim phi uu (mkDec (rd_random d) (rd_operand d1) (rd_wait d1) (rd_result d1) (rd_cases d ++ [(ty1, if nab ty1 then [] else args, j)])
                                    (set_cat_dest (rd_cats d) j tgt) (rd_default d1) (rd_noresp d1)) r'
              /\ plain_dec (mkDec (rd_random d) (rd_operand d1) (rd_wait d1) (rd_result d1) (rd_cases d ++ [(ty1, if nab ty1 then [] else args, j)])
                                  (set_cat_dest (rd_cats d) j tgt) (rd_default d1) (rd_noresp d1))).
    { intros rc nm j c [H1 H2 H3 H4 H5 H6 H7 H8 H9] Ecs Euc Hj Hnj Hej Huj.
      change (rd_cats d1) with (rd_cats d) in H5. change (rd_default d1) with (rd_default d) in H6. change (rd_cases d1) with (rd_cases d) in H7.
      destruct (new_case fresh n ty1 args (cc_uuid c)) as [[k n1]|e] eqn:Ek; [|discriminate].
      intros H. injection H as <- <-. apply new_case_full in Ek as (K1 & K2 & K3 & K4 & ->).
      assert (Eupd : sw_upd_cat (name_is nm) (fun c => cat_set_dest c d') rc
                     = mkSwitch (sw_operand rc) (sw_result rc) (sw_wait rc) (sw_cases rc) (RowSem.update (sw_cats rc) j (cat_set_dest c d')) (sw_default rc) (sw_auto rc)).
      { unfold sw_upd_cat. rewrite Hej, Huj. reflexivity. }
      rewrite Eupd.
      assert (Huu : map cc_uuid (sw_all_cats (sw_add_case (mkSwitch (sw_operand rc) (sw_result rc) (sw_wait rc) (sw_cases rc)
                                                                     (RowSem.update (sw_cats rc) j (cat_set_dest c d')) (sw_default rc) (sw_auto rc)) k))
                    = map cc_uuid (sw_all_cats rc)).
      { unfold sw_add_case, sw_all_cats. cbn. rewrite !map_app. rewrite (map_uuid_update _ _ _ _ Hnj). reflexivity. }
      destruct (nth_error (rd_cats d) j) as [[cnj dj]|] eqn:Ej; [|apply nth_error_None in Ej; lia].
      destruct (Forall2_nth _ _ _ _ _ H5 Ej) as (c' & Ec' & Hc'). rewrite Hnj in Ec'. injection Ec' as <-.
      split.
      - constructor; cbn [rd_random rd_operand rd_wait rd_result rd_cases rd_cats rd_default rd_noresp
                           sw_operand sw_result sw_wait sw_cases sw_cats sw_default sw_add_case].
        + exact H1.
        + exact H2.
        + exact H3.
        + exact H4.
        + unfold set_cat_dest. rewrite Ej. apply Forall2_update; [exact H5|]. destruct Hc' as [Hn' _]. split; [exact Hn'|exact Hd].
        + exact H6.
        + rewrite Huu. apply Forall2_app_one; [exact H7|].
          split; [cbn; symmetry; exact K1|]. split; [cbn; symmetry; exact K2|]. cbn [snd].
          unfold sw_all_cats. rewrite map_app. rewrite nth_error_app1 by (rewrite map_length, <- (Forall2_length' _ _ _ H5); exact Hj).
          rewrite nth_error_map, Hnj. cbn. rewrite K3. reflexivity.
        + rewrite Huu. exact H8.
        + eapply marks_same; [| | | |exact H9].
          * cbn. apply set_cat_dest_fst.
          * cbn. eapply map_uuid_update; eauto.
          * unfold sw_add_case, sw_all_cats. cbn. rewrite !map_app. f_equal. eapply map_update_same; [exact Hnj|reflexivity].
          * reflexivity.
      - split; [|split; [exact Hpd|exact Hpn]]. cbn [rd_cases rd_cats]. rewrite set_cat_dest_length.
        apply Forall_app. split; [exact Hpc|]. constructor; [|constructor]. cbn. exact Hj. }
    destruct name as [|c0 nm0].
    + (* unnamed: a new category with an invented name *)
      cbn [gen_cat_name negb andb]. rewrite andb_false_r.
      destruct (gen_cat_name _ args) as [nm|e] eqn:Eg; [|discriminate].
      pose proof (gen_cat_name_shape _ _ _ Eg) as (kk & Enm).
      unfold gen_cat_name in Eg. apply alt_loop_fresh in Eg. rewrite (find_name_none nm _ Eg).
      apply (Hnew r1 CWild nm true Hsim1 eq_refl eq_refl); [|reflexivity|intros _; exact Eg].
      apply name_sim_wild. intros Eflag. unfold name_ok in Hname. rewrite Eflag in Hname. rewrite Enm. apply Hname.
    + (* an explicit name *)
      set (nm := c0 :: nm0) in *. cbn [negb]. rewrite andb_true_r.
      pose proof (ds_cats _ _ _ _ Hsim1) as H5. change (rd_cats d1) with (rd_cats d) in H5.
      destruct explicit_names_claimed eqn:Eflag.
      * (* the repaired tree: the name is claimed first *)
        destruct (sw_claim r1 nm) as [rc|e] eqn:Ecl; [|discriminate].
        destruct (claim_spec d1 r1 nm rc Eflag Hsim1 Hplain1 ltac:(discriminate) Ecl) as (Hsc & Ecs & Euc & Hnw & Hrestc).
        pose proof (find_named nm (fun c => cat_set_dest c d') (rd_cats d) (sw_cats rc) 0 (ds_cats _ _ _ _ Hsc) Hnw) as Hfn.
        destruct (find_cat (rd_cats d) nm 0) as [ci|] eqn:Efc.
        -- destruct Hfn as (j & c & -> & Hj & Hnj & Hfj & Hej & Huj). cbn [plus].
           unfold sw_all_cats at 1. rewrite (find_app_some _ _ _ _ Hfj). apply (Hreuse rc nm j c Hsc Ecs Euc Hj Hnj Hej Huj).
        -- destruct Hfn as [Hfn Hen]. rewrite (Hrestc Hfn).
           apply (Hnew rc (CFixed nm) nm false Hsc Ecs Euc eq_refl eq_refl).
           intros _. unfold memb. apply not_true_is_false. intros Hex. apply existsb_exists in Hex as (u & Hu & Eu). apply str_eqb_eq in Eu. subst u.
           apply in_map_iff in Hu as (c & Ec & Hc). pose proof (find_none_all _ _ (Hrestc Hfn) c Hc) as Hx. unfold name_is in Hx. rewrite Ec, str_eqb_refl in Hx. discriminate.
      * (* the tree with the defect: the premise keeps the name away from the invented ones *)
        unfold name_ok in Hname. rewrite Eflag in Hname. destruct Hname as [Hg Hnr].
        assert (Hnw : no_wild_named nm (rd_cats d) (sw_cats r1)).
        { intros j x c Hx Hc Hw. destruct (Forall2_nth _ _ _ _ _ H5 Hx) as (c' & Hc' & [Hn' _]). assert (c' = c) by congruence. subst c'.
          rewrite Hw in Hn'. cbn in Hn'. rewrite Eflag in Hn'. unfold name_is. apply str_eqb_neq. intros E. apply Hg. rewrite <- E. exact Hn'. }
        pose proof (find_named nm (fun c => cat_set_dest c d') (rd_cats d) (sw_cats r1) 0 H5 Hnw) as Hfn.
        destruct (find_cat (rd_cats d) nm 0) as [ci|] eqn:Efc.
        -- destruct Hfn as (j & c & -> & Hj & Hnj & Hfj & Hej & Huj). cbn [plus].
           unfold sw_all_cats at 1. rewrite (find_app_some _ _ _ _ Hfj). apply (Hreuse r1 nm j c Hsim1 eq_refl eq_refl Hj Hnj Hej Huj).
        -- destruct Hfn as [Hfn _].
           (* neither the default nor the No Response category carries the name *)
           assert (Hrest : find (name_is nm) (sw_default r1 :: wait_cats (sw_wait r1)) = None).
           { destruct Hsim1 as [H1 H2 H3 H4 _ H6 _ _ _]. cbn [find]. destruct H6 as [Hn6 _]. change (rd_default d1) with (rd_default d) in Hn6.
             rewrite Hpd in Hn6. cbn in Hn6. rewrite Eflag in Hn6.
             assert (E6 : name_is nm (sw_default r1) = false) by (unfold name_is; apply str_eqb_neq; intros E; apply Hg; rewrite <- E; exact Hn6).
             rewrite E6. unfold wait_sim in H4. change (rd_wait d1) with (rd_wait d) in H4. change (rd_noresp d1) with (rd_noresp d) in H4.
             destruct (sw_wait r1) as [| |t cw]; try reflexivity. cbn [wait_cats find].
             destruct (rd_wait d); try contradiction. destruct H4 as (_ & x & Ex & [Hnx _]). rewrite Ex in Hpn. rewrite Hpn in Hnx. cbn in Hnx.
             assert (E7 : name_is nm cw = false) by (unfold name_is; apply str_eqb_neq; intros E; apply Hnr; rewrite <- E, <- Hnx; reflexivity).
             rewrite E7. reflexivity. }
           unfold sw_all_cats at 1. rewrite (find_app_none _ _ _ Hfn), Hrest.
           apply (Hnew r1 (CFixed nm) nm false Hsim1 eq_refl eq_refl eq_refl eq_refl). intros H. discriminate.
Qed.

(* ---------------------------------------------------------------- random splits: add_bucket against RandomRouter.add_choice *)
Definition undec (a : N) (s : str) : N := fold_left (fun a c => (10 * a + (c - 48))%N) s a.

Lemma dec_aux_undec f : forall n acc a, (N.to_nat n < f)%nat -> exists m, undec a (dec_aux f n acc) = undec (a * 10 ^ m + n)%N acc.
Proof.
  induction f as [|f IH]; intros n acc a Hf; [lia|]. cbn [dec_aux].
  pose proof (N.div_mod n 10 ltac:(lia)) as Hdm. pose proof (N.mod_lt n 10 ltac:(lia)) as Hlt.
  set (d := (n mod 10)%N) in *. set (q := (n / 10)%N) in *. clearbody d q. unfold undec in *.
  destruct (N.eqb q 0) eqn:Eq.
  - apply N.eqb_eq in Eq. exists 1%N. cbn [fold_left]. f_equal. rewrite Eq in Hdm. rewrite N.pow_1_r. lia.
  - apply N.eqb_neq in Eq. destruct (IH q ((48 + d)%N :: acc) a) as (m & Hm); [lia|].
    exists (N.succ m). rewrite Hm. cbn [fold_left]. f_equal. rewrite N.pow_succ_r'. lia.
Qed.

(* str(n) determines n *)
Lemma dec_nat_inj a b : dec_nat a = dec_nat b -> a = b.
Proof.
  intros H. unfold dec_nat in H.
  destruct (dec_aux_undec (S a) (N.of_nat a) [] 0%N ltac:(lia)) as (m1 & H1).
  destruct (dec_aux_undec (S b) (N.of_nat b) [] 0%N ltac:(lia)) as (m2 & H2).
  rewrite H in H1. rewrite H1 in H2. unfold undec in H2. cbn [fold_left] in H2. lia.
Qed.

Lemma number_from_app {X} (l l' : list X) i : number_from i (l ++ l') = number_from i l ++ number_from (i + length l) l'.
Proof.
  revert i. induction l as [|a r IH]; intros i; cbn; [rewrite Nat.add_0_r; reflexivity|].
  rewrite IH. replace (S i + length r) with (i + S (length r)) by lia. reflexivity.
Qed.

Lemma number_from_update {X} (l : list X) i j x : number_from i (RowSem.update l j x) = RowSem.update (number_from i l) j (i + j, x).
Proof.
  revert i j. induction l as [|a r IH]; intros i [|j]; cbn; try reflexivity.
  - rewrite Nat.add_0_r. reflexivity.
  - rewrite IH. replace (S i + j) with (i + S j) by lia. reflexivity.
Qed.

Lemma number_from_len {X} (l : list X) i : length (number_from i l) = length l.
Proof. revert i. induction l as [|a r IH]; intros i; cbn; [reflexivity|]. rewrite IH. reflexivity. Qed.

Lemma number_from_nth' {X} (l : list X) i j x : nth_error l j = Some x -> nth_error (number_from i l) j = Some (i + j, x).
Proof.
  revert i j. induction l as [|a r IH]; intros i [|j]; cbn; try discriminate.
  - intros E. injection E as ->. rewrite Nat.add_0_r. reflexivity.
  - intros E. rewrite (IH (S i) j E). replace (S i + j) with (i + S j) by lia. reflexivity.
Qed.

(* looking a bucket up by an explicit name (a name that does not look like an invented one) *)
Lemma find_named_b nm (f : ccat -> ccat) cats : forall ccats i,
  Forall2 (bucket_sim phi uu) (number_from i cats) ccats -> ~ is_bucket_name nm ->
  match find_cat cats nm i with
  | Some ci => exists j c, ci = i + j /\ j < length cats /\ nth_error ccats j = Some c
                           /\ existsb (name_is nm) ccats = true
                           /\ upd_first (name_is nm) f ccats = RowSem.update ccats j (f c)
  | None => existsb (name_is nm) ccats = false
  end.
Proof.
  induction cats as [|x l IH]; intros ccats i H Hg; cbn [number_from] in H; inversion H as [|a c l0 l' Hxc Hl]; subst;
    cbn [find_cat existsb upd_first]; [reflexivity|].
  destruct x as [cn dd]. destruct Hxc as [Hn _]. cbn [fst snd] in Hn.
  assert (E : cname_is cn nm = name_is nm c).
  { unfold name_is. destruct cn as [t|]; cbn.
    - destruct Hn as [-> _]. reflexivity.
    - symmetry. apply str_eqb_neq. intros E. apply Hg. rewrite <- E, Hn. eexists. reflexivity. }
  rewrite <- E. destruct (cname_is cn nm).
  - exists 0, c. cbn. repeat split; try reflexivity; lia.
  - specialize (IH l' (S i) Hl Hg). destruct (find_cat l nm (S i)) as [ci|].
    + destruct IH as (j & c' & -> & Hj & Hnj & He & Hu). exists (S j), c'. cbn. rewrite Hu. repeat split; auto; lia.
    + exact IH.
Qed.

Lemma rand_sim_add_bucket n U d r name tgt d' r' n' :
  rand_sim phi uu d r -> CatsOK fresh n U (rr_cats r) -> dest_sim phi uu tgt d' -> ~ is_bucket_name name ->
  rr_add_choice fresh n r name d' = Ok (r', n') -> rand_sim phi uu (add_bucket d name tgt) r'.
Proof.
  intros [R1 R2 R3 R4] Hok Hd Hname. unfold rr_add_choice, add_bucket.
  assert (Hlen : length (rr_cats r) = length (rd_cats d)) by (rewrite <- (Forall2_length' _ _ _ R3); apply number_from_len).
  (* a new bucket cn/nm at the end *)
  assert (Hnew : forall cn nm, match cn with CFixed s => s = nm /\ ~ is_bucket_name s | CWild => nm = s_Bucket ++ dec_nat (length (rd_cats d) + 2) end ->
            match new_cat fresh n nm d' with Ok (c, n1) => Ok (mkRandom (rr_result r) (rr_cats r ++ [c]), n1) | Err e => Err e end = Ok (r', n') ->
            rand_sim phi uu (mkDec true (rd_operand d) (rd_wait d) (rd_result d) (rd_cases d) (rd_cats d ++ [(cn, tgt)]) (rd_default d) (rd_noresp d)) r').
  { intros cn nm Hcn. destruct (new_cat fresh n nm d') as [[c n1]|e] eqn:Ec; [|discriminate]. intros H. injection H as <- <-.
    apply (new_cat_spec fresh fresh_inj) in Ec as (-> & ->). constructor; cbn.
    - reflexivity.
    - exact R2.
    - rewrite number_from_app. apply Forall2_app; [exact R3|]. cbn. constructor; [|constructor]. split; cbn [fst snd]; [|exact Hd].
      destruct cn as [s|]; cbn; [destruct Hcn as [-> Hb]; auto|exact Hcn].
    - rewrite map_app. cbn. apply NoDup_insert with (b := []); rewrite ?app_nil_r; [exact R4|].
      destruct Hok as [Hids _ _]. intros Hin.
      assert (Hb : Forall (below fresh n) (map cc_uuid (rr_cats r))).
      { rewrite Forall_forall in *. intros u Hu. apply in_map_iff in Hu as (c0 & <- & Hc0). apply Hids.
        apply in_flat_map. exists c0. split; [exact Hc0|left; reflexivity]. }
      exact (not_in_below fresh fresh_inj n n _ Hb (le_n _) Hin). }
  destruct name as [|c0 nm0].
  - (* an unnamed bucket: "Bucket <len + 2>", which no bucket is called yet *)
    assert (Hex : existsb (name_is (s_Bucket ++ dec_nat (length (rr_cats r) + 2))) (rr_cats r) = false).
    { apply not_true_is_false. intros Hex. apply existsb_exists in Hex as (c & Hin & Hc). apply In_nth_error in Hin as (j & Hj).
      assert (Hjl : j < length (rd_cats d)) by (rewrite <- Hlen; apply nth_error_Some; congruence).
      destruct (nth_error (rd_cats d) j) as [x|] eqn:Ex; [|apply nth_error_None in Ex; lia].
      pose proof (number_from_nth' _ 0 _ _ Ex) as Enx.
      destruct (Forall2_nth _ _ _ _ _ R3 Enx) as (c' & Ec' & [Hn _]). rewrite Hj in Ec'. injection Ec' as <-. cbn [fst snd] in Hn.
      unfold name_is in Hc. apply str_eqb_eq in Hc. destruct (fst x) as [s|].
      - destruct Hn as [-> Hb]. apply Hb. rewrite Hc. eexists. reflexivity.
      - rewrite Hn in Hc. apply app_inv_head in Hc. apply dec_nat_inj in Hc. lia. }
    rewrite Hex. apply (Hnew CWild). rewrite Hlen. reflexivity.
  - set (nm := c0 :: nm0) in *.
    pose proof (find_named_b nm (fun c => cat_set_dest c d') (rd_cats d) (rr_cats r) 0 R3 Hname) as Hfn.
    destruct (find_cat (rd_cats d) nm 0) as [ci|].
    + destruct Hfn as (j & c & -> & Hj & Hnj & Hej & Huj). cbn [plus]. rewrite Hej, Huj. intros H. injection H as <- <-.
      destruct (nth_error (rd_cats d) j) as [[cnj dj]|] eqn:Ej; [|apply nth_error_None in Ej; lia].
      pose proof (number_from_nth' _ 0 _ _ Ej) as Enx.
      destruct (Forall2_nth _ _ _ _ _ R3 Enx) as (c' & Ec' & [Hn' _]). rewrite Hnj in Ec'. injection Ec' as <-.
      constructor; cbn.
      * reflexivity.
      * exact R2.
      * unfold set_cat_dest. rewrite Ej. rewrite number_from_update. apply Forall2_update; [exact R3|]. split; cbn [fst snd] in *; [exact Hn'|exact Hd].
      * rewrite (map_uuid_update _ _ _ _ Hnj). exact R4.
    + rewrite Hfn. apply (Hnew (CFixed nm)). split; [reflexivity|exact Hname].
Qed.
End AddCase.
End WithNames.
