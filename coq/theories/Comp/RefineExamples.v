(* E7/C02 — non-vacuity of the refinement theorem: directed sheets of the harness that lie in the fragment, compile,
   and have a reference meaning; and the theorem instantiated with the executable uuid supply. *)
From Coq Require Import List NArith Bool Arith Lia.
From RPFT Require Import Base.Sexp Base.PyStr Base.SexpEq Base.Result Gen.Tables Flow.Lts Flow.Flow Flow.FlowFacts Flow.Closed Flow.NodeIdCheck
     Flow.NodeIdCheckFacts Flow.RowSem Comp.Compile Comp.CompileClosed Comp.CompileExamples Comp.CompileExampleFacts Comp.Refine Comp.RefineStep
     Comp.RefineFinal Comp.RefineFrag.
Import ListNotations.

Lemma std_fresh_not_sentinel k : std_fresh k <> hard_exit_sentinel.
Proof. unfold std_fresh. discriminate. Qed.

(* in the fragment; compiles to so many nodes; the reference meaning has so many nodes *)
Definition refines_ex (rows : list crow) (cnodes rnodes : nat) : Prop :=
  fragb rows = true /\
  exists f ref, compile std_fresh ex_name rows = Ok f /\ rowsem nab (map cr_row rows) = Some ref
                /\ length (f_nodes f) = cnodes /\ length (f_nodes ref) = rnodes.

Ltac run_refines :=
  match goal with
  | |- refines_ex ?rows _ _ =>
    split; [vm_compute; reflexivity|];
    let c := eval vm_compute in (compile std_fresh ex_name rows) in
    let r := eval vm_compute in (rowsem nab (map cr_row rows)) in
    match c with Ok ?f => match r with Some ?g =>
      exists f, g; split; [vm_compute; reflexivity|split; [vm_compute; reflexivity|split; vm_compute; reflexivity]] end end
  end.

Example refines_ex_router : refines_ex ex_router 6 6.
Proof. run_refines. Qed.
Example refines_ex_splits : refines_ex ex_splits 9 9.
Proof. run_refines. Qed.
Example refines_ex_merged : refines_ex ex_merged 3 3.
Proof. run_refines. Qed.
Example refines_ex_given : refines_ex ex_given 3 3.
Proof. run_refines. Qed.
Example refines_ex_start_block : refines_ex ex_start_block 3 3.
Proof. run_refines. Qed.
Example refines_ex_implicit : refines_ex ex_implicit 6 5.
Proof. run_refines. Qed.
Example refines_ex_goto_cycle : refines_ex ex_goto_cycle 3 3.
Proof. run_refines. Qed.
Example refines_ex_noop : refines_ex ex_noop 9 9.
Proof. run_refines. Qed.
Example refines_ex_blocks : refines_ex ex_blocks 8 8.
Proof. run_refines. Qed.
Example refines_ex_outcome : refines_ex ex_outcome 9 9.
Proof. run_refines. Qed.
Example refines_ex_exits : refines_ex ex_exits 3 3.
Proof. run_refines. Qed.

(* the theorem for the executable supply and the validation of the code of this run *)
Theorem compile_refines_rowsem_std name rows f ref :
  compile_checks_node_uuids = true -> fragb rows = true ->
  compile std_fresh name rows = Ok f -> rowsem nab (map cr_row rows) = Some ref ->
  (forall t, traces ref t -> exists t', traces f t' /\ Forall2 (ematch sexp smatch) t t')
  /\ (forall t, traces f t -> exists t', traces ref t' /\ Forall2 (ematch sexp (fun a b => smatch b a)) t t').
Proof.
  intros Hc Hfr Hf Hr. eapply (compile_refines_rowsem_fragb std_fresh compile_flow_validation); eauto.
  - apply std_fresh_inj.
  - apply std_fresh_not_sentinel.
  - intros us. unfold compile_flow_validation. rewrite Hc. apply node_id_check_spec.
Qed.
