(* E7/C02 — the refinement theorem: for the sheets of the fragment (Comp/Refine.v, Comp/RefineStep.v: row_ok), the flow
   the compiler model produces and the reference meaning of the rows have the same traces, in both directions, up
   to the names the sheet does not fix. *)
From Coq Require Import List NArith Bool Arith Lia.
From RPFT Require Import Base.Sexp Base.PyStr Base.PyStrFacts Base.SexpEq Base.Result Gen.Tables Flow.Lts Flow.Flow Flow.FlowFacts Flow.Closed
     Flow.RowSem Comp.Compile Comp.CompileFacts Comp.CompileIds Comp.CompileInv Comp.CompileStep Comp.CompileClosed Comp.CompileClass Comp.CompileFirst
     Comp.Refine Comp.RefineFacts Comp.RefineStore Comp.RefineStep Comp.RefineRun Comp.RefineFlow.
Import ListNotations.

Lemma Sim_init : Sim [] st0 cs0.
Proof.
  constructor; cbn; try reflexivity.
  - intros k n c H. destruct k; discriminate.
  - constructor.
  - constructor.
  - constructor.
  - intros g ps k n H. destruct g; discriminate.
Qed.

Section Final.
Variable fresh : nat -> id.
Hypothesis fresh_inj : forall a b, fresh a = fresh b -> a = b.
Hypothesis fresh_not_sentinel : forall k, fresh k <> hard_exit_sentinel.

(* the first row *)
Lemma first_row_First cr s1 cls payloads dec0 :
  r_type (cr_row cr) = TNode cls payloads dec0 -> cstep_read fresh cs0 cr = Ok s1 -> FirstOK s1.
Proof.
  intros Ht. unfold cstep_read. rewrite Ht.
  destruct (match _ with Some p => _ | None => _ end) as [acts n1].
  assert (Ex : match or_default (cr_uuid cr) (r_node_name (cr_row cr)) with [] => None | _ :: _ => alookup (cs_names cs0) (or_default (cr_uuid cr) (r_node_name (cr_row cr))) end = None)
    by (destruct (or_default _ _); reflexivity).
  rewrite Ex.
  set (row_action := if is_basic_kind (cr_kind cr) then match payloads with p :: _ => Some p | [] => None end else None).
  destruct (new_row_node fresh n1 (cr_kind cr) (cr_uuid cr) acts _) as [[nd n2]|x]; [|destruct row_action; discriminate].
  assert (Hf : forall es sx, foldM (fun s' e => cadd_row_edge fresh s' e (Some (cn_uuid nd))) es (push_node cs0 nd n2) = Ok sx -> sx = push_node cs0 nd n2).
  { induction es as [|e r IH]; intros sx; cbn; [intros H; injection H as <-; reflexivity|].
    unfold cadd_row_edge at 1. unfold csource. cbn. destruct (e_from e); cbn; try (apply IH). discriminate. }
  destruct (foldM _ _ (push_node cs0 nd n2)) as [s2|x] eqn:Ef; [|destruct row_action; discriminate].
  apply Hf in Ef. subst s2. intros H.
  assert (H' : Ok (set_names (add_cgroup (push_node cs0 nd n2) (CGRow 0 [] (rowtype_of (cr_kind cr))) (r_id (cr_row cr)))
                             (or_default (cr_uuid cr) (r_node_name (cr_row cr))) 0) = Ok s1) by (destruct row_action; exact H).
  injection H' as <-. split; [|split].
  - exists [], (rowtype_of (cr_kind cr)). reflexivity.
  - exists []. reflexivity.
  - reflexivity.
Qed.

Lemma crun_First cr rest s cls payloads dec0 :
  r_type (cr_row cr) = TNode cls payloads dec0 -> crun_read fresh (cr :: rest) = Ok s -> FirstOK s.
Proof.
  intros Ht. unfold crun_read. cbn. destruct (cstep_read fresh cs0 cr) as [s1|x] eqn:E; [|discriminate].
  pose proof (first_row_First cr s1 _ _ _ Ht E) as F1. clear E. revert s1 F1.
  induction rest as [|r rs IH]; intros s1 F1; cbn.
  - intros H. injection H as <-. exact F1.
  - destruct (cstep_read fresh s1 r) as [s2|x] eqn:E; [|discriminate]. apply IH. eapply cstep_read_First; eauto.
Qed.

(* what _compile_flow builds, with the positions *)
Lemma cfinish_idx GP validate name s f :
  Inv fresh GP s -> cfinish_with fresh validate name s = Ok f ->
  exists nds idxs, f_nodes f = map render_node nds /\ validate (map cn_uuid nds) = None
                   /\ Forall2 (fun i nd => nth_error (cs_nodes s) i = Some nd) idxs nds
                   /\ (forall i, i < length (cs_nodes s) -> In i idxs)
                   /\ (FirstOK s -> exists rest, idxs = 0 :: rest).
Proof.
  intros [Hst Htree Hleaf]. unfold cfinish_with. destruct (cs_heads s) eqn:Eh; [|discriminate].
  destruct (cs_stack s) as [|root [|? ?]] eqn:Es; try discriminate.
  destruct (mapM (cgnodes _ (cs_groups s)) root) as [ls|x] eqn:Em; [|discriminate].
  destruct (mapM _ (concat ls)) as [nds|x] eqn:En; [|discriminate].
  destruct (validate (map cn_uuid nds)) as [u|] eqn:Ev; [discriminate|].
  destruct (forallb node_groups_named nds); [|discriminate].
  intros H. injection H as <-. exists nds, (concat ls). cbn. split; [reflexivity|]. split; [exact Ev|].
  pose proof (mapM_ok_Forall2 _ _ _ Em) as Fm. pose proof (mapM_ok_Forall2 _ _ _ En) as Fn. split; [|split].
  - eapply Forall2_impl; [|exact Fn]. intros i nd Hi. cbn in Hi. destruct (nth_error (cs_nodes s) i); [injection Hi as ->; reflexivity|discriminate].
  - intros k Hlt. destruct (Hleaf k Hlt) as (g & Hg).
    assert (Hgl : g < length (cs_groups s)).
    { unfold InGroup in Hg. apply nth_error_Some. destruct (nth_error (cs_groups s) g); [discriminate|contradiction]. }
    destruct (Htree g Hgl) as (r & Hr & Hs). rewrite Es in Hr. cbn in Hr. rewrite app_nil_r in Hr.
    destruct (Forall2_in_l _ _ _ _ Fm Hr) as (lr & Hlr & Hc).
    apply in_concat. exists lr. split; [exact Hlr|]. eapply cgnodes_reach; eauto.
  - intros ((ks & rt & H0) & (rest & Hl) & _). rewrite Es in Hl. cbn in Hl. subst root.
    cbn [mapM] in Em.
    destruct (cgnodes (S (length (cs_groups s))) (cs_groups s) 0) as [l0|x] eqn:E0; [|discriminate].
    cbn [cgnodes] in E0. rewrite H0 in E0. injection E0 as <-.
    destruct (mapM (cgnodes (S (length (cs_groups s))) (cs_groups s)) rest) as [ls'|x]; [|discriminate].
    injection Em as <-. cbn. eexists. reflexivity.
Qed.

(* ---------------------------------------------------------------- the theorem *)
Definition no_given (rows : list crow) : Prop := forall cr, In cr rows -> cr_uuid cr = [].

Definition starts_with_node (rows : list crow) : Prop :=
  match rows with cr :: _ => match r_type (cr_row cr) with TNode _ _ _ => True | _ => False end | [] => True end.

Lemma empty_flow_traces (F : flow) : f_nodes F = [] -> forall t, exec sexp (lts_of_flow F) init_state t <-> (t = [] \/ t = [EEnd]).
Proof.
  intros HF0 t. assert (HK : lts_of_flow F init_state = KEnd) by (unfold lts_of_flow, init_state; cbn; rewrite HF0; reflexivity). split.
  - intros Ht. inversion Ht; subst; try congruence; auto.
  - intros [-> | ->]; [constructor|apply ex_end, HK].
Qed.

(* the rows AS READ (padding entries dropped on both sides) *)
Theorem compile_read_refines_rowsem_read validate name rows f ref :
  (forall us, validate us = None -> NoDup us) ->
  Forall row_ok rows -> no_given rows -> starts_with_node rows ->
  compile_read_with fresh validate name rows = Ok f -> rowsem_read nab (map cr_row rows) = Some ref ->
  (forall t, traces ref t -> exists t', traces f t' /\ Forall2 (ematch sexp smatch) t t')
  /\ (forall t, traces f t -> exists t', traces ref t' /\ Forall2 (ematch sexp (fun a b => smatch b a)) t t').
Proof.
  intros Hv Hok Hng Hfirst. unfold compile_read_with, rowsem_read.
  destruct (crun_read fresh rows) as [sc|x] eqn:Ec; [|discriminate].
  destruct (run_rows nab (map cr_row rows) st0 []) as [sr|] eqn:Er; [|discriminate].
  intros Hf Href. injection Href as <-.
  set (GP := fun _ : id => False).
  assert (GPns : forall u, GP u -> u <> hard_exit_sentinel) by (intros u []).
  assert (Hgiven : forall cr, In cr rows -> cr_uuid cr <> [] -> GP (cr_uuid cr)) by (intros cr Hin Hne; apply Hne, Hng, Hin).
  unfold traces.
  destruct rows as [|cr0 rest].
  - (* the empty sheet: both flows are empty *)
    cbn in Er. injection Er as <-. unfold crun_read in Ec. cbn in Ec. injection Ec as <-.
    assert (HF0 : f_nodes f = []).
    { revert Hf. unfold cfinish_with. cbn. destruct (validate _); [discriminate|]. intros H. injection H as <-. reflexivity. }
    split; intros t Ht.
    + apply (empty_flow_traces (to_flow st0) eq_refl) in Ht.
      destruct Ht as [-> | ->]; [exists []; split; constructor|].
      exists [EEnd]. split; [apply (empty_flow_traces f HF0); auto|constructor; [exact I|constructor]].
    + apply (empty_flow_traces f HF0) in Ht.
      destruct Ht as [-> | ->]; [exists []; split; constructor|].
      exists [EEnd]. split; [apply (empty_flow_traces (to_flow st0) eq_refl); auto|constructor; [exact I|constructor]].
  - (* the first row, then the others *)
    cbn in Hfirst. destruct (r_type (cr_row cr0)) as [cls payloads dec0| | | | | |] eqn:Et; try contradiction.
    pose proof (crun_First cr0 rest sc _ _ _ Et Ec) as HFirst.
    cbn [map] in Er. rewrite run_rows_cons in Er. unfold crun_read in Ec. cbn [foldM] in Ec.
    destruct (rstep st0 [] (cr_row cr0)) as [[s1 h1]|] eqn:Er1; [|discriminate].
    destruct (cstep_read fresh cs0 cr0) as [c1|x] eqn:Ec1; [|discriminate].
    unfold rstep in Er1. rewrite Et in Er1. destruct (step_row nab st0 (cr_row cr0)) as [s1'|] eqn:Es1; [|discriminate]. injection Er1 as <- <-.
    inversion Hok as [|? ? Hcr0 Hrest]; subst.
    destruct (node_row_sim fresh fresh_inj fresh_not_sentinel GP GPns [] st0 cs0 cr0 cls payloads dec0 s1' c1
                           Sim_init (inv_st _ _ _ (Inv_cs0 fresh GP)) Hcr0 Et Es1 Ec1) as (phi1 & S1 & Hh1 & _ & Hk1).
    cbn in Hk1, Hh1.
    assert (Hinv1 : Inv fresh GP c1).
    { eapply (cstep_read_ok fresh GP fresh_inj); [|apply Inv_cs0|exact Ec1]. intros Hne. exfalso. apply Hne, Hng. left. reflexivity. }
    destruct (run_sim fresh fresh_inj fresh_not_sentinel GP GPns rest phi1 s1' c1 [] sr sc Hrest
                      (fun cr Hin => Hgiven cr (or_intror Hin)) S1 Hinv1 Hh1 Er Ec) as (phi & Hsim & Hinv & _ & L2).
    destruct (cfinish_idx GP validate name sc f Hinv Hf) as (nds & idxs & HF & Hval & Hidx & Hcover & Hfst).
    assert (Hnd : NoDup (map cn_uuid nds)) by (apply Hv, Hval).
    destruct (Hfst HFirst) as (irest & Eidx).
    destruct (L2 0 _ Hk1) as (c0 & Hc0 & Ef0). cbn in Ef0.
    assert (Hlen : 0 < length (s_nodes sr)) by (rewrite <- (sim_len _ _ _ Hsim); apply nth_error_Some; congruence).
    destruct (nth_error (s_nodes sr) 0) as [n0|] eqn:En0; [|apply nth_error_None in En0; lia].
    assert (Hrel : Rel phi sr idxs f (0, 0) (0, 0)).
    { eapply (Rel_node phi sr idxs f 0 n0 c0 0 0); eauto; [rewrite Ef0, Eidx; reflexivity|lia]. }
    destruct (rel_traces fresh GP phi sr sc Hsim (inv_st _ _ _ Hinv) nds idxs f HF Hidx Hcover Hnd (0, 0) (0, 0) Hrel) as [T1 T2].
    split; [exact T1|exact T2].
Qed.

(* ---------------------------------------------------------------- the rows as written *)
Lemma crun_read_rows rows : crun fresh rows = crun_read fresh (map cread_row rows).
Proof.
  unfold crun, crun_read. generalize cs0. induction rows as [|cr r IH]; intros s; cbn; [reflexivity|].
  unfold cstep at 1. destruct (cstep_read fresh s (cread_row cr)); [apply IH|reflexivity].
Qed.

Lemma compile_read_rows validate name rows : compile_with fresh validate name rows = compile_read_with fresh validate name (map cread_row rows).
Proof. unfold compile_with, compile_read_with. rewrite crun_read_rows. reflexivity. Qed.

Lemma reads_same_rows rows : Forall reads_same rows -> map cr_row (map cread_row rows) = map read_row (map cr_row rows).
Proof.
  induction 1 as [|cr r H _ IH]; cbn [map]; [reflexivity|]. rewrite IH.
  assert (E : cr_row (cread_row cr) = read_row (cr_row cr)); [|rewrite E; reflexivity].
  unfold cread_row, read_row. cbn [cr_row r_type r_id r_node_name r_edges]. unfold reads_same in H. rewrite H. reflexivity.
Qed.

Lemma row_ok_read cr : row_ok cr -> row_ok (cread_row cr).
Proof.
  intros [He Hr]. unfold row_ok, cread_row. cbn [cr_row cr_kind cr_uuid r_edges r_type r_node_name]. split; [|exact Hr].
  unfold read_edges. destruct padding_edges_dropped_at_read; [|exact He].
  unfold drop_padding. destruct (r_edges (cr_row cr)) as [|e0 rest]; [constructor|]. inversion He as [|? ? H0 Hrest]; subst.
  constructor; [exact H0|]. rewrite Forall_forall in *. intros e Hin. apply filter_In in Hin as [Hin _]. auto.
Qed.

(* for every sheet of the fragment whose rows the code of this run reads as the reference does *)
Theorem compile_refines_rowsem_partial validate name rows f ref :
  (forall us, validate us = None -> NoDup us) ->
  Forall row_ok rows -> Forall reads_same rows -> no_given rows -> starts_with_node rows ->
  compile_with fresh validate name rows = Ok f -> rowsem nab (map cr_row rows) = Some ref ->
  (forall t, traces ref t -> exists t', traces f t' /\ Forall2 (ematch sexp smatch) t t')
  /\ (forall t, traces f t -> exists t', traces ref t' /\ Forall2 (ematch sexp (fun a b => smatch b a)) t t').
Proof.
  intros Hv Hok Hsame Hng Hfirst Hc Hr. rewrite compile_read_rows in Hc.
  change (rowsem nab (map cr_row rows)) with (rowsem_read nab (map read_row (map cr_row rows))) in Hr.
  rewrite <- (reads_same_rows rows Hsame) in Hr.
  eapply (compile_read_refines_rowsem_read validate name (map cread_row rows)); eauto.
  - apply Forall_forall. intros cr Hin. apply in_map_iff in Hin as (cr0 & <- & Hin0). apply row_ok_read. rewrite Forall_forall in Hok. auto.
  - intros cr Hin. apply in_map_iff in Hin as (cr0 & <- & Hin0). unfold cread_row. cbn [cr_uuid]. apply Hng, Hin0.
  - destruct rows as [|cr0 r]; [exact I|]. exact Hfirst.
Qed.
End Final.
