(* E7/C02 — the refinement theorem: for the sheets of the fragment (Comp/Refine.v, Comp/RefineStep.v: row_ok), the flow
   the compiler model produces and the reference meaning of the rows have the same traces, in both directions, up
   to the names the sheet does not fix. *)
From Coq Require Import List NArith Bool Arith Lia.
From RPFT Require Import Base.Sexp Base.PyStr Base.PyStrFacts Base.SexpEq Base.Result Gen.Tables Flow.Lts Flow.Flow Flow.FlowFacts Flow.Closed
     Flow.RowSem Comp.Compile Comp.CompileFacts Comp.CompileIds Comp.CompileInv Comp.CompileStep Comp.CompileClosed Comp.CompileClass Comp.CompileFirst
     Comp.Refine Comp.RefineFacts Comp.RefineStore Comp.RefineStep Comp.RefineRun Comp.RefineFlow.
Import ListNotations.

Section WithNames.
Context {GN : GenNames}.

Lemma Sim_init : Sim [] st0 cs0.
Proof.
  constructor; cbn; try reflexivity.
  - intros k n c H. destruct k; discriminate.
  - constructor.
  - constructor.
  - constructor.
  - intros g ps k n H. destruct g; discriminate.
Qed.

Section Final.
Variable fresh : nat -> id.
Hypothesis fresh_inj : forall a b, fresh a = fresh b -> a = b.
Hypothesis fresh_not_sentinel : forall k, fresh k <> hard_exit_sentinel.

(* what _compile_flow builds, with the positions *)
Lemma cfinish_idx GP validate name s f :
  Inv fresh GP s -> cfinish_with fresh validate name s = Ok f ->
  exists nds ls root, f_nodes f = map render_node nds /\ validate (map cn_uuid nds) = None
                   /\ Forall2 (fun i nd => nth_error (cs_nodes s) i = Some nd) (concat ls) nds
                   /\ (forall i, i < length (cs_nodes s) -> In i (concat ls))
                   /\ cs_stack s = [root] /\ mapM (cgnodes (S (length (cs_groups s))) (cs_groups s)) root = Ok ls.
Proof.
  intros [Hst Htree Hleaf]. unfold cfinish_with. destruct (cs_heads s) eqn:Eh; [|discriminate].
  destruct (cs_stack s) as [|root [|? ?]] eqn:Es; try discriminate.
  destruct (mapM (cgnodes _ (cs_groups s)) root) as [ls|x] eqn:Em; [|discriminate].
  destruct (mapM _ (concat ls)) as [nds|x] eqn:En; [|discriminate].
  destruct (validate (map cn_uuid nds)) as [u|] eqn:Ev; [discriminate|].
  destruct (forallb node_groups_named nds); [|discriminate].
  intros H. injection H as <-. exists nds, ls, root. split; [reflexivity|]. split; [exact Ev|].
  pose proof (mapM_ok_Forall2 _ _ _ Em) as Fm. pose proof (mapM_ok_Forall2 _ _ _ En) as Fn. split; [|split; [|split; [reflexivity|exact Em]]].
  - eapply Forall2_impl; [|exact Fn]. intros i nd Hi. cbn in Hi. destruct (nth_error (cs_nodes s) i); [injection Hi as ->; reflexivity|discriminate].
  - intros k Hlt. destruct (Hleaf k Hlt) as (g & Hg).
    assert (Hgl : g < length (cs_groups s)).
    { unfold InGroup in Hg. apply nth_error_Some. destruct (nth_error (cs_groups s) g); [discriminate|contradiction]. }
    destruct (Htree g Hgl) as (r & Hr & Hs). rewrite Es in Hr. cbn in Hr. rewrite app_nil_r in Hr.
    destruct (Forall2_in_l _ _ _ _ Fm Hr) as (lr & Hlr & Hc).
    apply in_concat. exists lr. split; [exact Hlr|]. eapply cgnodes_reach; eauto.
Qed.

(* ---------------------------------------------------------------- the order of the nodes
   _compile_flow lists the nodes group by group (add_nodes_to_flow); so does the reference flow (node_order): the
   compiled list is the reference list with every node replaced by its cluster *)
Definition cidx (phi : list (nat * option nat)) (k : nat) : list nat :=
  match nth_error phi k with Some c => cluster_idx c | None => [] end.

Lemma flat_map_flat_map {X Y Z} (f : X -> list Y) (g : Y -> list Z) l : flat_map g (flat_map f l) = flat_map (fun x => flat_map g (f x)) l.
Proof. induction l as [|a r IH]; cbn; [reflexivity|]. rewrite flat_map_app, IH. reflexivity. Qed.

Lemma gnodes_sim phi sr sc fuel : Sim phi sr sc -> forall g l, cgnodes fuel (cs_groups sc) g = Ok l ->
  l = flat_map (cidx phi) (gnodes fuel (s_groups sr) g).
Proof.
  intros Hsim. pose proof (sim_groups _ _ _ Hsim) as Hg. induction fuel as [|f IH]; intros g l; cbn; [discriminate|].
  destruct (nth_error (cs_groups sc) g) as [y|] eqn:Ey; [|discriminate].
  destruct (nth_error (s_groups sr) g) as [x|] eqn:Ex.
  2:{ exfalso. apply nth_error_None in Ex. rewrite (Forall2_length' _ _ _ Hg) in Ex. apply nth_error_None in Ex. congruence. }
  destruct (Forall2_nth _ _ _ _ _ Hg Ex) as (y' & Ey' & Hxy). assert (y' = y) by congruence. subst y'.
  destruct Hxy as [k cls c rt nd Hk Hn Hcl|ps Hps|ps k k1 ndq rq Hps Hk Hnq Hbq|ms].
  - intros H. injection H as <-. cbn. unfold cidx. rewrite Hk, app_nil_r. destruct c as [a [j|]]; reflexivity.
  - intros H. injection H as <-. reflexivity.
  - intros H. injection H as <-. cbn. unfold cidx. rewrite Hk. reflexivity.
  - destruct (mapM (cgnodes f (cs_groups sc)) ms) as [ls|x] eqn:Em; [|discriminate]. cbn. intros H. injection H as <-.
    rewrite flat_map_flat_map. apply mapM_ok_Forall2 in Em. clear - Em IH.
    induction Em as [|m l0 ms ls Hm _ IHm]; cbn [flat_map concat]; [reflexivity|]. rewrite (IH _ _ Hm), IHm. reflexivity.
Qed.

Lemma order_sim phi sr sc root ls : Sim phi sr sc -> cs_stack sc = [root] ->
  mapM (cgnodes (S (length (cs_groups sc))) (cs_groups sc)) root = Ok ls -> concat ls = flat_map (cidx phi) (node_order sr).
Proof.
  intros Hsim Es Em. unfold node_order. rewrite (sim_stack _ _ _ Hsim), Es. cbn [concat]. rewrite app_nil_r.
  rewrite (Forall2_length' _ _ _ (sim_groups _ _ _ Hsim)). rewrite flat_map_flat_map.
  apply mapM_ok_Forall2 in Em. clear Es. induction Em as [|m l0 ms ls0 Hm _ IHm]; cbn [flat_map concat]; [reflexivity|].
  rewrite (gnodes_sim phi sr sc _ Hsim _ _ Hm), IHm. reflexivity.
Qed.

(* the nodes a group names *)
Lemma gnodes_grow fuel gs : forall g k, In k (gnodes fuel gs g) -> In k (flat_map grow_node gs).
Proof.
  induction fuel as [|f IH]; intros g k; cbn; [intros []|].
  destruct (nth_error gs g) as [[k0 cls|ps [k0|]|ms]|] eqn:E; cbn [In]; try contradiction.
  - intros [<-|[]]. apply in_flat_map. exists (GRow k0 cls). split; [eapply nth_error_In, E|left; reflexivity].
  - intros [<-|[]]. apply in_flat_map. exists (GNoOp ps (Some k0)). split; [eapply nth_error_In, E|left; reflexivity].
  - intros H. apply in_flat_map in H as (m & _ & Hm). eapply IH, Hm.
Qed.

Lemma NoDup_flat_map_arg {X Y} (f : X -> list Y) l : NoDup (flat_map f l) -> (forall x, In x l -> f x <> []) -> NoDup l.
Proof.
  induction l as [|a r IH]; cbn; intros Hnd Hne; constructor.
  - intros Hin. destruct (f a) as [|y ys] eqn:Ea; [exact (Hne a (or_introl eq_refl) Ea)|].
    apply (NoDup_app_disj (y :: ys) (flat_map f r) y Hnd); [left; reflexivity|].
    apply in_flat_map. exists a. split; [exact Hin|rewrite Ea; left; reflexivity].
  - apply IH; [eapply NoDup_app_r, Hnd|intros x Hx; apply Hne; right; exact Hx].
Qed.

Lemma Forall2_fun_NoDup {X Y} (P : X -> Y -> Prop) l l' :
  (forall x y y', P x y -> P x y' -> y = y') -> Forall2 P l l' -> NoDup l' -> NoDup l.
Proof.
  intros Hf H. induction H as [|a b l l' Hab Hl IH]; intros Hnd; constructor; inversion Hnd as [|? ? Hb Hr]; subst.
  - intros Hin. apply Hb. destruct (Forall2_in_l _ _ _ _ Hl Hin) as (y & Hy & Hay). rewrite (Hf _ _ _ Hab Hay). exact Hy.
  - apply IH, Hr.
Qed.

(* ---------------------------------------------------------------- the theorem *)
Lemma empty_flow_traces (F : flow) : f_nodes F = [] -> forall t, exec sexp (lts_of_flow F) init_state t <-> (t = [] \/ t = [EEnd]).
Proof.
  intros HF0 t. assert (HK : lts_of_flow F init_state = KEnd) by (unfold lts_of_flow, init_state; cbn; rewrite HF0; reflexivity). split.
  - intros Ht. inversion Ht; subst; try congruence; auto.
  - intros [-> | ->]; [constructor|apply ex_end, HK].
Qed.

(* the rows AS READ (padding entries dropped on both sides) *)
Theorem compile_read_refines_rowsem_read validate name rows f ref :
  (forall us, validate us = None -> NoDup us) ->
  Forall row_ok rows ->
  compile_read_with fresh validate name rows = Ok f -> rowsem_read nab (map cr_row rows) = Some ref ->
  (forall t, traces ref t -> exists t', traces f t' /\ Forall2 (ematch sexp smatch) t t')
  /\ (forall t, traces f t -> exists t', traces ref t' /\ Forall2 (ematch sexp (fun a b => smatch b a)) t t').
Proof.
  intros Hv Hok. unfold compile_read_with, rowsem_read.
  destruct (crun_read fresh rows) as [sc|x] eqn:Ec; [|discriminate].
  destruct (run_rows nab (map cr_row rows) st0 []) as [sr|] eqn:Er; [|discriminate].
  intros Hf Href. injection Href as <-.
  set (GP := fun u : id => u <> hard_exit_sentinel).
  assert (GPns : forall u, GP u -> u <> hard_exit_sentinel) by (intros u H; exact H).
  assert (HGP : forall (u nm : str), nm = u /\ u <> hard_exit_sentinel -> GP u) by (intros u nm [_ H]; exact H).
  assert (Hgiven : forall cr, In cr rows -> cr_uuid cr <> [] -> GP (cr_uuid cr)).
  { intros cr Hin Hne. rewrite Forall_forall in Hok. destruct (Hok cr Hin) as (_ & Henc & _). apply Henc, Hne. }
  unfold traces. unfold crun_read in Ec.
  destruct (run_sim fresh fresh_inj fresh_not_sentinel GP GPns HGP rows [] st0 cs0 [] sr sc Hok Hgiven Sim_init (Inv_cs0 fresh GP) eq_refl Er Ec)
    as (phi & Hsim & Hinv & _ & _).
  destruct (cfinish_idx GP validate name sc f Hinv Hf) as (nds & ls & root & HF & Hval & Hidx & Hcover & Es & Em).
  assert (Hnd : NoDup (map cn_uuid nds)) by (apply Hv, Hval).
  pose proof (order_sim phi sr sc root ls Hsim Es Em) as Hord.
  set (idxs := concat ls) in *. set (ridxs := node_order sr) in *.
  (* the reference order: every node once *)
  assert (Hrbound : forall k, In k ridxs -> k < length (s_nodes sr)).
  { intros k Hk. unfold ridxs, node_order in Hk. apply in_flat_map in Hk as (g & _ & Hk). eapply grow_bound; [exact Hsim|]. eapply gnodes_grow, Hk. }
  assert (Hphi : forall k, k < length (s_nodes sr) -> exists c, nth_error phi k = Some c).
  { intros k Hk. rewrite <- (sim_len _ _ _ Hsim) in Hk. destruct (nth_error phi k) as [c|] eqn:E; [eauto|apply nth_error_None in E; lia]. }
  assert (Hnd_idx : NoDup idxs).
  { eapply (Forall2_fun_NoDup _ idxs nds); [|exact Hidx|eapply NoDup_map_inv, Hnd]. intros x y y' H1 H2. congruence. }
  assert (Hrnodup : NoDup ridxs).
  { apply (NoDup_flat_map_arg (cidx phi)); [rewrite <- Hord; exact Hnd_idx|].
    intros k Hk. destruct (Hphi k (Hrbound k Hk)) as (c & Hc). unfold cidx. rewrite Hc. destruct c as [a [j|]]; discriminate. }
  assert (Hrcover : forall k, k < length (s_nodes sr) -> In k ridxs).
  { intros k Hk. destruct (Hphi k Hk) as (c & Hc).
    destruct (nth_error (s_nodes sr) k) as [n|] eqn:En; [|apply nth_error_None in En; lia].
    destruct (sim_nodes _ _ _ Hsim k n c En Hc) as (nd & o & Hcn & _).
    assert (Hlt : fst c < length (cs_nodes sc)).
    { unfold cluster_nodes in Hcn. destruct (nth_error (cs_nodes sc) (fst c)) eqn:E; [apply nth_error_Some; congruence|discriminate]. }
    pose proof (Hcover _ Hlt) as Hin. rewrite Hord in Hin. apply in_flat_map in Hin as (k' & Hk' & Hin').
    destruct (Nat.eq_dec k' k) as [->|Hne]; [exact Hk'|]. exfalso.
    destruct (Hphi k' (Hrbound k' Hk')) as (c' & Hc'). unfold cidx in Hin'. rewrite Hc' in Hin'.
    eapply (flat_map_NoDup_idx cluster_idx phi k' k c' c (fst c) (sim_disj _ _ _ Hsim)); eauto. left. reflexivity. }
  destruct ridxs as [|k0 rrest] eqn:Eri.
  - (* no node at all: both flows are empty *)
    assert (Hn0 : s_nodes sr = []) by (destruct (s_nodes sr) as [|n0 r0]; [reflexivity|exfalso; exact (Hrcover 0 ltac:(cbn; lia))]).
    assert (HR0 : f_nodes (to_flow sr) = []) by (unfold to_flow; cbn [f_nodes]; fold ridxs; rewrite Eri; reflexivity).
    assert (HF0 : f_nodes f = []).
    { rewrite HF. cbn in Hord. assert (idxs = []) by exact Hord. rewrite H in Hidx. inversion Hidx. reflexivity. }
    split; intros t Ht.
    + apply (empty_flow_traces (to_flow sr) HR0) in Ht.
      destruct Ht as [-> | ->]; [exists []; split; constructor|].
      exists [EEnd]. split; [apply (empty_flow_traces f HF0); auto|constructor; [exact I|constructor]].
    + apply (empty_flow_traces f HF0) in Ht.
      destruct Ht as [-> | ->]; [exists []; split; constructor|].
      exists [EEnd]. split; [apply (empty_flow_traces (to_flow sr) HR0); auto|constructor; [exact I|constructor]].
  - (* both flows start at the first node in sheet order *)
    assert (Hk0 : k0 < length (s_nodes sr)) by (apply Hrbound; left; reflexivity).
    destruct (Hphi k0 Hk0) as (c0 & Hc0).
    destruct (nth_error (s_nodes sr) k0) as [n0|] eqn:En0; [|apply nth_error_None in En0; lia].
    assert (Hp0 : nth_error idxs 0 = Some (fst c0)).
    { rewrite Hord. cbn [flat_map]. unfold cidx at 1. rewrite Hc0. destruct c0 as [a [j|]]; reflexivity. }
    assert (Hrel : Rel phi sr idxs f (k0 :: rrest) (0, 0) (0, 0)).
    { eapply (Rel_node phi sr idxs f (k0 :: rrest) k0 n0 c0 0 0 0); eauto. lia. }
    destruct (rel_traces fresh GP phi sr sc Hsim (inv_st _ _ _ Hinv) nds idxs f HF Hidx Hcover Hnd (k0 :: rrest) Eri Hrbound Hrcover Hrnodup (0, 0) (0, 0) Hrel) as [T1 T2].
    split; [exact T1|exact T2].
Qed.

(* ---------------------------------------------------------------- the rows as written *)
Lemma crun_read_rows rows : crun fresh rows = crun_read fresh (map cread_row rows).
Proof.
  unfold crun, crun_read. generalize cs0. induction rows as [|cr r IH]; intros s; cbn; [reflexivity|].
  unfold cstep at 1. destruct (cstep_read fresh s (cread_row cr)); [apply IH|reflexivity].
Qed.

Lemma compile_read_rows validate name rows : compile_with fresh validate name rows = compile_read_with fresh validate name (map cread_row rows).
Proof. unfold compile_with, compile_read_with. rewrite crun_read_rows. reflexivity. Qed.

Lemma reads_same_rows rows : Forall reads_same rows -> map cr_row (map cread_row rows) = map read_row (map cr_row rows).
Proof.
  induction 1 as [|cr r H _ IH]; cbn [map]; [reflexivity|]. rewrite IH.
  assert (E : cr_row (cread_row cr) = read_row (cr_row cr)); [|rewrite E; reflexivity].
  unfold cread_row, read_row. cbn [cr_row r_type r_id r_node_name r_edges]. unfold reads_same in H. rewrite H. reflexivity.
Qed.

Lemma row_ok_read cr : row_ok cr -> row_ok (cread_row cr).
Proof.
  intros [He Hr]. unfold row_ok, cread_row. cbn [cr_row cr_kind cr_uuid r_edges r_type r_node_name]. split; [|exact Hr].
  unfold read_edges. destruct padding_edges_dropped_at_read; [|exact He].
  unfold drop_padding. destruct (r_edges (cr_row cr)) as [|e0 rest]; [constructor|]. inversion He as [|? ? H0 Hrest]; subst.
  constructor; [exact H0|]. rewrite Forall_forall in *. intros e Hin. apply filter_In in Hin as [Hin _]. auto.
Qed.

(* for every sheet of the fragment whose rows the code of this run reads as the reference does *)
Theorem compile_refines_rowsem_partial validate name rows f ref :
  (forall us, validate us = None -> NoDup us) ->
  Forall row_ok rows -> Forall reads_same rows ->
  compile_with fresh validate name rows = Ok f -> rowsem nab (map cr_row rows) = Some ref ->
  (forall t, traces ref t -> exists t', traces f t' /\ Forall2 (ematch sexp smatch) t t')
  /\ (forall t, traces f t -> exists t', traces ref t' /\ Forall2 (ematch sexp (fun a b => smatch b a)) t t').
Proof.
  intros Hv Hok Hsame Hc Hr. rewrite compile_read_rows in Hc.
  change (rowsem nab (map cr_row rows)) with (rowsem_read nab (map read_row (map cr_row rows))) in Hr.
  rewrite <- (reads_same_rows rows Hsame) in Hr.
  eapply (compile_read_refines_rowsem_read validate name (map cread_row rows)); eauto.
  apply Forall_forall. intros cr Hin. apply in_map_iff in Hin as (cr0 & <- & Hin0). apply row_ok_read. rewrite Forall_forall in Hok. auto.
Qed.
End Final.
End WithNames.
