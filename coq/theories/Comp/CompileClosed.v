(* E7 — the closedness theorem of the compiler model (property C01):
     compile rows = Ok f -> FlowClosed f          (with the node-uuid validation the code has)
   for EVERY list of rows, and every injective uuid supply. *)
From Coq Require Import List NArith Bool Arith Lia.
From RPFT Require Import Base.Sexp Base.PyStr Base.PyStrFacts Base.Result Gen.Tables Flow.Flow Flow.Closed
     Flow.NodeIdCheck Flow.NodeIdCheckFacts Flow.RowSem Comp.Compile Comp.CompileFacts Comp.CompileInv Comp.CompileStep.
Import ListNotations.

Lemma mapM_ok_Forall2 {E S T} (f : S -> result E T) l : forall ys, mapM f l = Ok ys -> Forall2 (fun x y => f x = Ok y) l ys.
Proof.
  induction l as [|x r IH]; cbn; intros ys.
  - intros H. injection H as <-. constructor.
  - destruct (f x) as [y|e] eqn:E1; [|discriminate]. destruct (mapM f r) as [ys'|e] eqn:E2; [|discriminate].
    intros H. injection H as <-. constructor; [exact E1|apply IH; reflexivity].
Qed.

Lemma Forall2_in_l {X Y} (R : X -> Y -> Prop) l l' x : Forall2 R l l' -> In x l -> exists y, In y l' /\ R x y.
Proof.
  intros H. induction H as [|a b l l' Hab _ IH]; [intros []|]. intros [<-|Hin].
  - exists b. split; [left; reflexivity|exact Hab].
  - destruct (IH Hin) as (y & Hy & Hr). exists y. split; [right; exact Hy|exact Hr].
Qed.

Lemma Forall2_in_r {X Y} (R : X -> Y -> Prop) l l' y : Forall2 R l l' -> In y l' -> exists x, In x l /\ R x y.
Proof.
  intros H. induction H as [|a b l l' Hab _ IH]; [intros []|]. intros [<-|Hin].
  - exists a. split; [left; reflexivity|exact Hab].
  - destruct (IH Hin) as (x & Hx & Hr). exists x. split; [right; exact Hx|exact Hr].
Qed.

(* add_nodes_to_flow reaches every node of every group below the root *)
Lemma cgnodes_reach gs r g : Sub gs r g -> forall fuel l k, cgnodes fuel gs r = Ok l -> InGroup gs g k -> In k l.
Proof.
  intros HS. induction HS as [g|r ms m g E Hin _ IH]; intros fuel l k.
  - destruct fuel as [|f]; cbn; [discriminate|]. unfold InGroup.
    destruct (nth_error gs g) as [[a b rt|ps rr|ms]|].
    + intros H. injection H as <-. intros [->|Hk]; [left; reflexivity|right; exact Hk].
    + intros H. injection H as <-. intros ->. left. reflexivity.
    + intros _ [].
    + intros _ [].
  - destruct fuel as [|f]; cbn; [discriminate|]. rewrite E.
    destruct (mapM (cgnodes f gs) ms) as [ls|e] eqn:Em; [|discriminate]. cbn. intros H. injection H as <-. intros Hk.
    apply mapM_ok_Forall2 in Em. destruct (Forall2_in_l _ _ _ _ Em Hin) as (lm & Hlm & Hc).
    apply in_concat. exists lm. split; [exact Hlm|]. eapply IH; eauto.
Qed.

Lemma render_node_uuid nd : n_uuid (render_node nd) = cn_uuid nd.
Proof. unfold render_node. destruct (cn_body nd); reflexivity. Qed.

Section Closed.
Variable fresh : nat -> id.
Hypothesis fresh_inj : forall a b, fresh a = fresh b -> a = b.

(* a node that is NodeOK renders to a node that satisfies the per-node clauses (b)-(f), in any flow that holds
   the uuids its exits may name *)
Lemma render_node_closed GP n U f nd :
  NodeOK fresh GP n U nd -> (forall u, In u U -> In u (node_uuids f)) -> NodeClosed f (render_node nd).
Proof.
  intros [_ _ Hb _] HU.
  assert (Hdest : forall d, dest_ok U d -> match render_dest d with None => True | Some u => In u (node_uuids f) end).
  { intros [u|]; cbn; [|auto]. destruct (str_eqb u hard_exit_sentinel) eqn:E; [auto|].
    intros [->|Hin]; [rewrite str_eqb_refl in E; discriminate|apply HU, Hin]. }
  assert (Hcats : forall l, CatsOK fresh n U l ->
            (forall e, In e (map (fun c => render_exit (cc_exit c)) l) -> match e_dest e with None => True | Some u => In u (node_uuids f) end)
            /\ map c_exit (map render_cat l) = map e_uuid (map (fun c => render_exit (cc_exit c)) l)
            /\ NoDup (map c_exit (map render_cat l))
            /\ map c_uuid (map render_cat l) = map cc_uuid l).
  { intros l [_ Hnd Hd]. split; [|split; [|split]].
    - intros e He. apply in_map_iff in He as (c & <- & Hc). cbn. apply Hdest. rewrite Forall_forall in Hd. apply Hd, Hc.
    - rewrite !map_map. reflexivity.
    - rewrite map_map. exact Hnd.
    - rewrite map_map. reflexivity. }
  unfold render_node. destruct Hb as [e He1 He2|cls r [Hc Hk Hcs]|r Hc].
  - constructor; cbn.
    + intros x [<-|[]]. cbn. apply Hdest, He2.
    + reflexivity.
    + discriminate.
    + discriminate.
    + discriminate.
  - destruct (Hcats _ Hc) as (C1 & C2 & C3 & C4). constructor; cbn.
    + exact C1.
    + discriminate.
    + intros r0 H. injection H as <-. cbn. split; [exact C3|]. split; [rewrite <- C2; exact C3|].
      split; [intros c Hin; rewrite <- C2; apply in_map, Hin|intros e Hin; rewrite C2; apply in_map, Hin].
    + intros r0 H. injection H as <-. cbn. intros k Hin. apply in_map_iff in Hin as (k0 & <- & Hk0).
      cbn. rewrite C4. apply Hcs, Hk0.
    + intros r0 H. injection H as <-. cbn. rewrite C4. intros u [<-|Hu].
      * unfold sw_all_cats. rewrite map_app. apply in_or_app. right. left. reflexivity.
      * unfold sw_all_cats. rewrite map_app. apply in_or_app. right. right.
        destruct (sw_wait r) as [| |t c]; cbn in *; try contradiction. destruct Hu as [<-|[]]. left. reflexivity.
  - destruct (Hcats _ Hc) as (C1 & C2 & C3 & C4). constructor; cbn.
    + exact C1.
    + discriminate.
    + intros r0 H. injection H as <-. cbn. split; [exact C3|]. split; [rewrite <- C2; exact C3|].
      split; [intros c Hin; rewrite <- C2; apply in_map, Hin|intros e Hin; rewrite C2; apply in_map, Hin].
    + intros r0 H. injection H as <-. cbn. intros k [].
    + intros r0 H. injection H as <-. cbn. intros u [].
Qed.

(* what cfinish builds: the nodes are nodes of the store, and every uuid of the store is the uuid of one of them *)
Lemma cfinish_nodes GP validate name s f :
  Inv fresh GP s -> cfinish_with fresh validate name s = Ok f ->
  exists nds, f_nodes f = map render_node nds /\ validate (map cn_uuid nds) = None
              /\ (forall nd, In nd nds -> In nd (cs_nodes s))
              /\ (forall u, In u (uuids s) -> In u (map cn_uuid nds)).
Proof.
  intros [Hst Htree Hleaf]. unfold cfinish_with. destruct (cs_heads s); [|discriminate].
  destruct (cs_stack s) as [|root [|? ?]] eqn:Es; try discriminate.
  destruct (mapM (cgnodes _ (cs_groups s)) root) as [ls|x] eqn:Em; [|discriminate].
  destruct (mapM _ (concat ls)) as [nds|x] eqn:En; [|discriminate].
  destruct (validate (map cn_uuid nds)) as [u|] eqn:Ev; [discriminate|].
  destruct (forallb node_groups_named nds); [|discriminate].
  intros H. injection H as <-. exists nds. cbn. split; [reflexivity|]. split; [exact Ev|].
  apply mapM_ok_Forall2 in Em, En. split.
  - intros nd Hnd. destruct (Forall2_in_r _ _ _ _ En Hnd) as (k & _ & Hk).
    destruct (nth_error (cs_nodes s) k) as [nd'|] eqn:E; [|discriminate]. injection Hk as <-. eapply nth_error_In, E.
  - intros u Hu. unfold uuids in Hu. apply in_map_iff in Hu as (nd & <- & Hnd).
    apply In_nth_error in Hnd as (k & Hk).
    assert (Hlt : k < length (cs_nodes s)) by (apply nth_error_Some; congruence).
    destruct (Hleaf k Hlt) as (g & Hg).
    assert (Hgl : g < length (cs_groups s)).
    { unfold InGroup in Hg. apply nth_error_Some. destruct (nth_error (cs_groups s) g); [discriminate|contradiction]. }
    destruct (Htree g Hgl) as (r & Hr & Hs). rewrite Es in Hr. cbn in Hr. rewrite app_nil_r in Hr.
    destruct (Forall2_in_l _ _ _ _ Em Hr) as (lr & Hlr & Hc).
    assert (Hin : In k (concat ls)).
    { apply in_concat. exists lr. split; [exact Hlr|]. eapply cgnodes_reach; eauto. }
    destruct (Forall2_in_l _ _ _ _ En Hin) as (nd' & Hnd' & Hk').
    rewrite Hk in Hk'. injection Hk' as <-. apply in_map, Hnd'.
Qed.

(* clauses (b)-(f): for EVERY row list, whatever the validation *)
Theorem compile_nodes_closed validate name rows f :
  compile_with fresh validate name rows = Ok f -> forall nd, In nd (f_nodes f) -> NodeClosed f nd.
Proof.
  unfold compile_with. destruct (crun fresh rows) as [s|x] eqn:Er; [|discriminate].
  intros Hf. assert (Hi := crun_Inv fresh (fun _ => True) fresh_inj _ _ (fun _ _ _ => I) Er).
  destruct (cfinish_nodes _ _ _ _ _ Hi Hf) as (nds & Efn & _ & Hsub & Hall).
  intros nd Hnd. rewrite Efn in Hnd. apply in_map_iff in Hnd as (cn & <- & Hcn).
  eapply render_node_closed.
  - destruct Hi as [[Hst _] _ _]. rewrite Forall_forall in Hst. apply Hst, Hsub, Hcn.
  - intros u Hu. unfold node_uuids. rewrite Efn, map_map.
    erewrite map_ext; [apply Hall, Hu|]. intros a. apply render_node_uuid.
Qed.

(* what the validation passed is what it was given: the node uuids of the flow *)
Lemma compile_validated validate name rows f :
  compile_with fresh validate name rows = Ok f -> validate (node_uuids f) = None.
Proof.
  unfold compile_with. destruct (crun fresh rows) as [s|x] eqn:Er; [|discriminate].
  intros Hf. assert (Hi := crun_Inv fresh (fun _ => True) fresh_inj _ _ (fun _ _ _ => I) Er).
  destruct (cfinish_nodes _ _ _ _ _ Hi Hf) as (nds & Efn & Ev & _ & _).
  unfold node_uuids. rewrite Efn, map_map. erewrite map_ext; [exact Ev|]. intros a. apply render_node_uuid.
Qed.

(* with any validation that accepts only duplicate-free lists, the whole of FlowClosed *)
Theorem compile_with_closed validate name rows f :
  (forall us, validate us = None -> NoDup us) ->
  compile_with fresh validate name rows = Ok f -> FlowClosed f.
Proof.
  intros Hv Hf. constructor.
  - apply Hv. eapply compile_validated, Hf.
  - eapply compile_nodes_closed, Hf.
Qed.

(* the model of the code of this run *)
Theorem compile_closed name rows f :
  compile_checks_node_uuids = true -> compile fresh name rows = Ok f -> flow_closedb f = true.
Proof.
  intros Hc Hf. apply flow_closedb_spec. eapply compile_with_closed; [|exact Hf].
  intros us. unfold compile_flow_validation. rewrite Hc. apply node_id_check_spec.
Qed.

(* the sentinel never leaves the compiler: no exit of a compiled flow leads to the HARD_EXIT marker *)
Lemma render_dest_not_sentinel d : render_dest d <> Some hard_exit_sentinel.
Proof.
  destruct d as [u|]; cbn; [|discriminate]. destruct (str_eqb u hard_exit_sentinel) eqn:E; [discriminate|].
  intros H. injection H as ->. rewrite str_eqb_refl in E. discriminate.
Qed.

Theorem compile_no_sentinel validate name rows f :
  compile_with fresh validate name rows = Ok f ->
  forall nd e, In nd (f_nodes f) -> In e (n_exits nd) -> e_dest e <> Some hard_exit_sentinel.
Proof.
  unfold compile_with. destruct (crun fresh rows) as [s|x]; [|discriminate]. unfold cfinish_with.
  destruct (cs_heads s); [|discriminate]. destruct (cs_stack s) as [|root [|? ?]]; try discriminate.
  destruct (mapM _ root) as [ls|x]; [|discriminate]. destruct (mapM _ (concat ls)) as [nds|x]; [|discriminate].
  destruct (validate _); [discriminate|]. destruct (forallb node_groups_named nds); [|discriminate].
  intros H. injection H as <-. cbn. intros nd e Hnd He.
  apply in_map_iff in Hnd as (cn & <- & _). unfold render_node in He.
  destruct (cn_body cn) as [x|cls r|r]; cbn in He.
  - destruct He as [<-|[]]. apply render_dest_not_sentinel.
  - apply in_map_iff in He as (c & <- & _). apply render_dest_not_sentinel.
  - apply in_map_iff in He as (c & <- & _). apply render_dest_not_sentinel.
Qed.
End Closed.

(* ---------------------------------------------------------------- the executable supply *)
Lemma std_fresh_inj a b : std_fresh a = std_fresh b -> a = b.
Proof. unfold std_fresh. intros H. assert (H' : (1114112 + N.of_nat a = 1114112 + N.of_nat b)%N) by congruence. lia. Qed.
