(* E7/C02 — facts for the refinement, part 2: the stores.  How Sim is kept when a reference node and a node of
   its cluster are updated together, when an action node gains its implicit router, when both builders allocate
   a node, when both append a group. *)
From Coq Require Import List NArith Bool Arith Lia.
From RPFT Require Import Base.Sexp Base.PyStr Base.PyStrFacts Base.Result Gen.Tables Flow.Lts Flow.Flow Flow.Closed
     Flow.RowSem Comp.Compile Comp.CompileFacts Comp.CompileIds Comp.CompileInv Comp.CompileClass Comp.Refine Comp.RefineFacts.
Import ListNotations.

Section WithNames.
Context {GN : GenNames}.

Definition cuu (sc : cstate) : list id := map cn_uuid (cs_nodes sc).

Lemma class_ok_same cls rt b b' : same_class b b' -> class_ok cls rt b -> class_ok cls rt b'.
Proof.
  destruct b as [e|c r|r], b' as [e'|c' r'|r']; cbn; try contradiction; auto.
  intros <-. auto.
Qed.

Lemma flat_map_NoDup_idx {X Y} (f : X -> list Y) l a b x y u :
  NoDup (flat_map f l) -> nth_error l a = Some x -> nth_error l b = Some y -> a <> b -> In u (f x) -> ~ In u (f y).
Proof.
  revert a b. induction l as [|z r IH]; intros [|a] [|b]; cbn; try discriminate; intros Hnd Ha Hb Hne Hu.
  - contradiction.
  - injection Ha as ->. intros Hu'. eapply (NoDup_app_disj (f x) (flat_map f r)); [exact Hnd|exact Hu|].
    apply in_flat_map. exists y. split; [eapply nth_error_In, Hb|exact Hu'].
  - injection Hb as ->. intros Hu'. eapply (NoDup_app_disj (f y) (flat_map f r)); [exact Hnd|exact Hu'|].
    apply in_flat_map. exists x. split; [eapply nth_error_In, Ha|exact Hu].
  - eapply (IH a b); eauto. eapply NoDup_app_r, Hnd.
Qed.

Lemma cluster_nodes_update_other cn i x c : ~ In i (cluster_idx c) -> cluster_nodes (RowSem.update cn i x) c = cluster_nodes cn c.
Proof.
  intros Hni. unfold cluster_nodes, cluster_idx in *. destruct c as [k1 [j|]]; cbn in *.
  - rewrite !update_nth_other by (intros ->; apply Hni; auto). reflexivity.
  - rewrite update_nth_other by (intros ->; apply Hni; auto). reflexivity.
Qed.

Lemma cluster_nodes_update_some cn i x y c nd o :
  nth_error cn i = Some y -> cluster_nodes cn c = Some (nd, o) -> exists nd' o', cluster_nodes (RowSem.update cn i x) c = Some (nd', o').
Proof.
  intros Hi. unfold cluster_nodes. destruct c as [k1 [j|]]; cbn.
  - destruct (nth_error cn k1) as [a|] eqn:E1; [|discriminate]. destruct (nth_error cn j) as [b|] eqn:E2; [|discriminate]. intros _.
    destruct (Nat.eq_dec k1 i) as [->|N1]; destruct (Nat.eq_dec j i) as [->|N2];
      rewrite ?(update_nth_same _ _ x _ Hi), ?(update_nth_other _ _ _ _ N1), ?(update_nth_other _ _ _ _ N2), ?E1, ?E2; eauto.
  - destruct (nth_error cn k1) as [a|] eqn:E1; [|discriminate]. intros _.
    destruct (Nat.eq_dec k1 i) as [->|N1]; rewrite ?(update_nth_same _ _ x _ Hi), ?(update_nth_other _ _ _ _ N1), ?E1; eauto.
Qed.

Lemma same_class_plain b b' r : same_class b b' -> b = BSwitch SPlain r -> exists r', b' = BSwitch SPlain r'.
Proof. intros H ->. destruct b' as [e|c r'|r']; cbn in H; try contradiction. subst c. eauto. Qed.

Lemma group_sim_update phi cn i ndi nd' g g' :
  nth_error cn i = Some ndi -> same_class (cn_body ndi) (cn_body nd') ->
  group_sim phi cn g g' -> group_sim phi (RowSem.update cn i nd') g g'.
Proof.
  intros Hi Hc H. destruct H as [k cls c rt nd Hk Hn Hcl|ps Hps|ps k k1 nd r Hps Hk Hn Hb|ms]; try (constructor; assumption).
  - destruct (Nat.eq_dec (fst c) i) as [E|N].
    + rewrite E in Hn. assert (nd = ndi) by congruence. subst nd.
      eapply GS_row; [exact Hk|rewrite E; eapply update_nth_same; eauto|eapply class_ok_same; eauto].
    + eapply GS_row; [exact Hk|rewrite update_nth_other by auto; exact Hn|exact Hcl].
  - destruct (Nat.eq_dec k1 i) as [E|N].
    + subst k1. assert (nd = ndi) by congruence. subst nd. destruct (same_class_plain _ _ _ Hc Hb) as (r' & Hb').
      eapply GS_noop_router; [exact Hps|exact Hk|eapply update_nth_same; eauto|exact Hb'].
    + eapply GS_noop_router; [exact Hps|exact Hk|rewrite update_nth_other by auto; exact Hn|exact Hb].
Qed.

Lemma group_sim_mono phi phi' cn cn' g g' :
  (forall k c, nth_error phi k = Some c -> nth_error phi' k = Some c) ->
  (forall i nd, nth_error cn i = Some nd -> nth_error cn' i = Some nd) ->
  group_sim phi cn g g' -> group_sim phi' cn' g g'.
Proof.
  intros Hp Hc H. destruct H as [k cls c rt nd Hk Hn Hcl|ps Hps|ps k k1 nd r Hps Hk Hn Hb|ms]; try (constructor; auto).
  - eapply GS_row; eauto.
  - eapply GS_noop_router; eauto.
Qed.

(* the name maps stay related when phi grows *)
Lemma names_mono phi phi' (sn cn : list (str * nat)) :
  phi_le phi phi' ->
  (forall nm, nm <> [] -> match alookup sn nm with
                          | Some k => exists c, nth_error phi k = Some c /\ alookup cn nm = Some (fst c)
                          | None => alookup cn nm = None end) ->
  forall nm, nm <> [] -> match alookup sn nm with
                         | Some k => exists c, nth_error phi' k = Some c /\ alookup cn nm = Some (fst c)
                         | None => alookup cn nm = None end.
Proof.
  intros Hle H nm Hnm. specialize (H nm Hnm). destruct (alookup sn nm) as [k|]; [|exact H].
  destruct H as (c & Hc & E). destruct (Hle k c Hc) as (c' & Hc' & Ef). exists c'. split; [exact Hc'|]. rewrite Ef. exact E.
Qed.

(* ---------------------------------------------------------------- updating a reference node with a node of its cluster *)
Lemma Sim_set phi sr sc k n n' c i ndi nd' next' :
  Sim phi sr sc ->
  nth_error (s_nodes sr) k = Some n -> nth_error phi k = Some c -> In i (cluster_idx c) ->
  nth_error (cs_nodes sc) i = Some ndi -> cn_uuid nd' = cn_uuid ndi -> same_class (cn_body ndi) (cn_body nd') ->
  rn_actions n' = rn_actions n ->
  (forall nd o, cluster_nodes (RowSem.update (cs_nodes sc) i nd') c = Some (nd, o) -> node_sim phi (cuu sc) n' nd o) ->
  Sim phi (RowSem.set_node sr k n') (Compile.set_node sc i nd' next').
Proof.
  intros [Hlen Hnodes Hdisj Hgroups Hginj Hacts Hrm Hst Hnames] Hk Hc Hin Hi Hu Hcl Hact Hnew.
  assert (Euu : map cn_uuid (RowSem.update (cs_nodes sc) i nd') = cuu sc) by (unfold cuu; eapply update_map_same; eauto).
  constructor; cbn.
  - rewrite update_length. exact Hlen.
  - intros k0 n0 c0 Hk0 Hc0. rewrite Euu. destruct (Nat.eq_dec k0 k) as [->|Hne].
    + rewrite (update_nth_same _ _ n' _ Hk) in Hk0. injection Hk0 as <-.
      assert (c0 = c) by congruence. subst c0.
      destruct (Hnodes k n c Hk Hc) as (nd & o & Hcn & _).
      destruct (cluster_nodes_update_some _ i nd' ndi c nd o Hi Hcn) as (nd2 & o2 & E2).
      exists nd2, o2. split; [exact E2|apply Hnew, E2].
    + rewrite update_nth_other in Hk0 by exact Hne.
      destruct (Hnodes k0 n0 c0 Hk0 Hc0) as (nd & o & Hcn & Hs). exists nd, o. split; [|exact Hs].
      rewrite cluster_nodes_update_other; [exact Hcn|].
      eapply (flat_map_NoDup_idx cluster_idx phi k k0 c c0 i); eauto.
  - exact Hdisj.
  - eapply Forall2_impl; [|exact Hgroups]. intros g g'. apply group_sim_update with (ndi := ndi); assumption.
  - exact Hginj.
  - intros g ps k0 n0 Hg0 Hk0. destruct (Nat.eq_dec k0 k) as [->|Hne].
    + rewrite (update_nth_same _ _ n' _ Hk) in Hk0. injection Hk0 as <-. rewrite Hact. eapply Hacts; eauto.
    + rewrite update_nth_other in Hk0 by exact Hne. eapply Hacts; eauto.
  - exact Hrm.
  - exact Hst.
  - exact Hnames.
Qed.

(* nothing changes on the compiled side (an edge the implementation ignores) and nothing on the reference side *)
Lemma Sim_same_next phi sr sc : Sim phi sr sc -> Sim phi sr sc.
Proof. auto. Qed.

(* ---------------------------------------------------------------- both builders allocate a node *)
Lemma Sim_push phi sr sc n nd next' :
  Sim phi sr sc -> node_sim (phi ++ [(length (cs_nodes sc), None)]) (cuu sc ++ [cn_uuid nd]) n nd None ->
  Sim (phi ++ [(length (cs_nodes sc), None)]) (fst (RowSem.add_node sr n)) (push_node sc nd next').
Proof.
  intros [Hlen Hnodes Hdisj Hgroups Hginj Hacts Hrm Hst Hnames] Hnew.
  assert (Hbound : forall k c i, nth_error phi k = Some c -> In i (cluster_idx c) -> i < length (cs_nodes sc)).
  { intros k c i Hc Hi. assert (Hk : k < length (s_nodes sr)) by (rewrite <- Hlen; apply nth_error_Some; congruence).
    destruct (nth_error (s_nodes sr) k) as [n0|] eqn:En; [|apply nth_error_None in En; lia].
    destruct (Hnodes k n0 c En Hc) as (nd0 & o & Hcn & _). unfold cluster_nodes, cluster_idx in *. destruct c as [k1 [j|]]; cbn in *.
    - destruct (nth_error (cs_nodes sc) k1) eqn:E1; [|discriminate]. destruct (nth_error (cs_nodes sc) j) eqn:E2; [|discriminate].
      destruct Hi as [<-|[<-|[]]]; apply nth_error_Some; congruence.
    - destruct (nth_error (cs_nodes sc) k1) eqn:E1; [|discriminate]. destruct Hi as [<-|[]]. apply nth_error_Some; congruence. }
  constructor; cbn.
  - rewrite !app_length. cbn. lia.
  - intros k0 n0 c0 Hk0 Hc0. unfold cuu. rewrite map_app. cbn.
    destruct (Nat.lt_ge_cases k0 (length (s_nodes sr))) as [Hlt|Hge].
    + rewrite nth_error_app1 in Hk0 by exact Hlt. rewrite nth_error_app1 in Hc0 by lia.
      destruct (Hnodes k0 n0 c0 Hk0 Hc0) as (nd0 & o & Hcn & Hs). exists nd0, o. split.
      * unfold cluster_nodes in *. destruct c0 as [k1 [j|]]; cbn in *.
        -- destruct (nth_error (cs_nodes sc) k1) eqn:E1; [|discriminate]. destruct (nth_error (cs_nodes sc) j) eqn:E2; [|discriminate].
           rewrite (nth_error_app_l _ [nd] _ _ E1), (nth_error_app_l _ [nd] _ _ E2). exact Hcn.
        -- destruct (nth_error (cs_nodes sc) k1) eqn:E1; [|discriminate]. rewrite (nth_error_app_l _ [nd] _ _ E1). exact Hcn.
      * eapply node_sim_mono; [apply phi_le_app|apply grows_app|exact Hs].
    + assert (k0 = length (s_nodes sr)).
      { assert (k0 < length (s_nodes sr ++ [n])) by (apply nth_error_Some; congruence). rewrite app_length in *. cbn in *. lia. }
      subst k0. rewrite nth_error_app2 in Hk0 by lia. rewrite Nat.sub_diag in Hk0. injection Hk0 as <-.
      rewrite nth_error_app2 in Hc0 by lia. rewrite Hlen, Nat.sub_diag in Hc0. injection Hc0 as <-.
      exists nd, None. split; [|exact Hnew]. unfold cluster_nodes. cbn. rewrite nth_error_app2 by lia. rewrite Nat.sub_diag. reflexivity.
  - rewrite flat_map_app. cbn. apply NoDup_app_intro; [exact Hdisj|constructor; [intros []|constructor]|].
    intros i Hi [<-|[]]. apply in_flat_map in Hi as (c & Hc & Hic). apply In_nth_error in Hc as (k & Hk).
    specialize (Hbound k c _ Hk Hic). lia.
  - eapply Forall2_impl; [|exact Hgroups]. intros g g'. apply group_sim_mono.
    + intros k c. apply nth_error_app_l.
    + intros i x. apply nth_error_app_l.
  - exact Hginj.
  - intros g ps k0 n0 Hg0 Hk0. destruct (Nat.lt_ge_cases k0 (length (s_nodes sr))) as [Hlt|Hge].
    + rewrite nth_error_app1 in Hk0 by exact Hlt. eapply Hacts; eauto.
    + (* a group never names a node that does not exist yet *)
      exfalso. destruct (Forall2_nth _ _ _ _ _ Hgroups Hg0) as (y & _ & Hxy). inversion Hxy as [| |? ? ? ? ? ? Hk1|]; subst.
      assert (k0 < length phi) by (apply nth_error_Some; congruence). lia.
  - exact Hrm.
  - exact Hst.
  - apply (names_mono phi); [apply phi_le_app|exact Hnames].
Qed.

(* ---------------------------------------------------------------- groups *)
(* every node a group names exists *)
Lemma grow_bound phi sr sc x : Sim phi sr sc -> In x (flat_map grow_node (s_groups sr)) -> x < length (s_nodes sr).
Proof.
  intros Hsim Hin. apply in_flat_map in Hin as (gr & Hgr & Hx). apply In_nth_error in Hgr as (g & Hg).
  destruct (Forall2_nth _ _ _ _ _ (sim_groups _ _ _ Hsim) Hg) as (y & _ & Hxy). rewrite <- (sim_len _ _ _ Hsim).
  destruct Hxy as [k cls c rt nd Hk _ _|ps _|ps k k1 nd r _ Hk _ _|ms]; cbn in Hx; try contradiction;
    destruct Hx as [<-|[]]; apply nth_error_Some; congruence.
Qed.

Lemma Sim_set_group phi sr sc g gr gc old :
  Sim phi sr sc -> nth_error (s_groups sr) g = Some old ->
  NoDup (grow_node gr) -> (forall x, In x (grow_node gr) -> In x (grow_node old) \/ ~ In x (flat_map grow_node (s_groups sr))) ->
  (forall ps k n, gr = GNoOp ps (Some k) -> nth_error (s_nodes sr) k = Some n -> rn_actions n = []) ->
  group_sim phi (cs_nodes sc) gr gc -> Sim phi (RowSem.set_group sr g gr) (set_cgroup sc g gc).
Proof.
  intros [Hlen Hnodes Hdisj Hgroups Hginj Hacts Hrm Hst Hnames] Hg Hnd Hnew Hact Hs. constructor; cbn; try assumption.
  - apply Forall2_update; assumption.
  - destruct (flat_map_update_split grow_node _ _ _ Hg) as [E1 E2]. rewrite E2. rewrite E1 in Hginj.
    set (A := flat_map grow_node (firstn g (s_groups sr))) in *. set (B := flat_map grow_node (skipn (S g) (s_groups sr))) in *.
    assert (HAB : NoDup (A ++ B)) by (apply NoDup_app_intro; [eapply NoDup_app_l, Hginj|eapply NoDup_app_r, NoDup_app_r, Hginj|];
                                      intros x Hx Hb; eapply (NoDup_app_disj A (grow_node old ++ B)); [exact Hginj|exact Hx|apply in_or_app; right; exact Hb]).
    assert (Hout : forall x, In x (grow_node gr) -> ~ In x A /\ ~ In x B).
    { intros x Hx. destruct (Hnew x Hx) as [Ho|Hn].
      - split.
        + intros Ha. eapply (NoDup_app_disj A (grow_node old ++ B)); [exact Hginj|exact Ha|apply in_or_app; left; exact Ho].
        + intros Hb. apply NoDup_app_r in Hginj. eapply (NoDup_app_disj (grow_node old) B); eauto.
      - rewrite E1 in Hn. split; intros H; apply Hn; apply in_or_app; [left; exact H|right; apply in_or_app; right; exact H]. }
    apply NoDup_app_intro; [eapply NoDup_app_l, HAB|apply NoDup_app_intro; [exact Hnd|eapply NoDup_app_r, HAB|]|].
    + intros x Hx Hb. destruct (Hout x Hx) as [_ H]. contradiction.
    + intros x Ha Hin. apply in_app_or in Hin as [Hx|Hb].
      * destruct (Hout x Hx) as [H _]. contradiction.
      * eapply (NoDup_app_disj A B); eauto.
  - intros g0 ps k n Hg0 Hk. destruct (Nat.eq_dec g0 g) as [->|Hne].
    + rewrite (update_nth_same _ _ gr _ Hg) in Hg0. injection Hg0 as ->. eapply Hact; eauto.
    + rewrite update_nth_other in Hg0 by exact Hne. eapply Hacts; eauto.
Qed.

Lemma Sim_add_group phi sr sc gr gc rid :
  Sim phi sr sc -> group_sim phi (cs_nodes sc) gr gc ->
  (forall k, In k (grow_node gr) -> ~ In k (flat_map grow_node (s_groups sr))) ->
  (forall ps k, gr <> GNoOp ps (Some k)) ->
  Sim phi (fst (RowSem.add_group sr gr rid)) (add_cgroup sc gc rid).
Proof.
  intros [Hlen Hnodes Hdisj Hgroups Hginj Hacts Hrm Hst Hnames] Hs Hnew Hnr.
  assert (Hgl := Forall2_length' _ _ _ Hgroups).
  constructor; cbn; try assumption.
  - apply Forall2_app_one; assumption.
  - rewrite flat_map_app. cbn. rewrite app_nil_r. apply NoDup_app_intro; [exact Hginj| |].
    + destruct gr as [? ?|? [?|]|?]; cbn; try constructor; try (intros []); constructor.
    + intros k Hk Hk'. exact (Hnew k Hk' Hk).
  - intros g ps k n Hg Hk. destruct (Nat.lt_ge_cases g (length (s_groups sr))) as [Hlt|Hge].
    + rewrite nth_error_app1 in Hg by exact Hlt. eapply Hacts; eauto.
    + assert (g = length (s_groups sr)).
      { assert (g < length (s_groups sr ++ [gr])) by (apply nth_error_Some; congruence). rewrite app_length in *. cbn in *. lia. }
      subst g. rewrite nth_error_app2 in Hg by lia. rewrite Nat.sub_diag in Hg. injection Hg as ->. exfalso. eapply Hnr; eauto.
  - rewrite Hgl, Hrm. reflexivity.
  - rewrite Hgl, Hst. reflexivity.
Qed.

Lemma Forall2_update_idx {X Y} (P Q : X -> Y -> Prop) l l' g x y :
  Forall2 P l l' -> nth_error l g = Some x -> Q x y ->
  (forall i a b, i <> g -> nth_error l i = Some a -> nth_error l' i = Some b -> P a b -> Q a b) ->
  Forall2 Q l (RowSem.update l' g y).
Proof.
  intros H. revert g. induction H as [|a b l l' Hab Hl IH]; intros [|g]; cbn; try discriminate.
  - intros E Hq Hother. injection E as ->. constructor; [exact Hq|].
    clear IH. assert (G : forall m, Forall2 P (skipn m l) (skipn m l') -> (forall i a0 b0, nth_error (skipn m l) i = Some a0 -> nth_error (skipn m l') i = Some b0 -> P a0 b0 -> Q a0 b0) -> Forall2 Q (skipn m l) (skipn m l')).
    { intros m F. induction F as [|u v s s' Huv _ IHs]; intros Hq'; constructor.
      - apply (Hq' 0 u v); auto.
      - apply IHs. intros i a0 b0. apply (Hq' (S i)). }
    apply (G 0 Hl). intros i a0 b0 Ha Hb. apply (Hother (S i)); auto.
  - intros E Hq Hother. constructor.
    + apply (Hother 0 a b); auto.
    + apply IH; [exact E|exact Hq|]. intros i a0 b0 Hne. apply (Hother (S i)). lia.
Qed.

Lemma group_sim_row_inv phi cn k cls y :
  group_sim phi cn (GRow k cls) y ->
  exists c rt nd, y = CGRow (fst c) (match snd c with Some j => [j] | None => [] end) rt
                  /\ nth_error phi k = Some c /\ nth_error cn (fst c) = Some nd /\ class_ok cls rt (cn_body nd).
Proof. intros H. inversion H; subst. eauto 10. Qed.

(* ---------------------------------------------------------------- an action node gains its implicit router *)
Lemma Sim_implicit phi sr sc g k cls n n' k1 nd nd1 nr next' rt :
  Sim phi sr sc ->
  nth_error (s_nodes sr) k = Some n -> nth_error phi k = Some (k1, None) ->
  nth_error (s_groups sr) g = Some (GRow k cls) -> nth_error (cs_groups sc) g = Some (CGRow k1 [] rt) ->
  nth_error (cs_nodes sc) k1 = Some nd -> cn_uuid nd1 = cn_uuid nd -> same_class (cn_body nd) (cn_body nd1) ->
  rn_actions n' = rn_actions n ->
  node_sim (RowSem.update phi k (k1, Some (length (cs_nodes sc)))) (cuu sc ++ [cn_uuid nr]) n' nd1 (Some nr) ->
  Sim (RowSem.update phi k (k1, Some (length (cs_nodes sc)))) (RowSem.set_node sr k n')
      (set_cgroup (push_node (Compile.set_node sc k1 nd1 next') nr next') g (CGRow k1 [length (cs_nodes sc)] rt)).
Proof.
  intros [Hlen Hnodes Hdisj Hgroups Hginj Hacts Hrm Hst Hnames] Hk Hc Hgr Hgc Hk1 Hu Hcl Hact Hnew.
  set (j := length (cs_nodes sc)) in *. set (phi' := RowSem.update phi k (k1, Some j)).
  assert (Hple : phi_le phi phi') by (eapply phi_le_update; eauto).
  assert (Euu : map cn_uuid (RowSem.update (cs_nodes sc) k1 nd1 ++ [nr]) = cuu sc ++ [cn_uuid nr]).
  { rewrite map_app. cbn. unfold cuu. erewrite update_map_same by eauto. reflexivity. }
  assert (Hbound : forall k0 c i, nth_error phi k0 = Some c -> In i (cluster_idx c) -> i < j).
  { intros k0 c i Hc0 Hi. assert (Hk0 : k0 < length (s_nodes sr)) by (rewrite <- Hlen; apply nth_error_Some; congruence).
    destruct (nth_error (s_nodes sr) k0) as [n0|] eqn:En; [|apply nth_error_None in En; lia].
    destruct (Hnodes k0 n0 c En Hc0) as (nd0 & o & Hcn & _). unfold cluster_nodes, cluster_idx in *. destruct c as [a [b|]]; cbn in *.
    - destruct (nth_error (cs_nodes sc) a) eqn:E1; [|discriminate]. destruct (nth_error (cs_nodes sc) b) eqn:E2; [|discriminate].
      destruct Hi as [<-|[<-|[]]]; apply nth_error_Some; congruence.
    - destruct (nth_error (cs_nodes sc) a) eqn:E1; [|discriminate]. destruct Hi as [<-|[]]. apply nth_error_Some; congruence. }
  assert (Hnth' : forall i x, nth_error (cs_nodes sc) i = Some x -> i <> k1 -> nth_error (RowSem.update (cs_nodes sc) k1 nd1 ++ [nr]) i = Some x).
  { intros i x Hx Hne. apply nth_error_app_l. rewrite update_nth_other by exact Hne. exact Hx. }
  constructor; cbn.
  - unfold phi'. rewrite !update_length. exact Hlen.
  - intros k0 n0 c0 Hk0 Hc0. rewrite Euu. destruct (Nat.eq_dec k0 k) as [->|Hne].
    + rewrite (update_nth_same _ _ n' _ Hk) in Hk0. injection Hk0 as <-.
      unfold phi' in Hc0. rewrite (update_nth_same _ _ (k1, Some j) _ Hc) in Hc0. injection Hc0 as <-.
      exists nd1, (Some nr). split; [|exact Hnew]. unfold cluster_nodes. cbn.
      rewrite nth_error_app1 by (rewrite update_length; apply nth_error_Some; congruence).
      rewrite (update_nth_same _ _ nd1 _ Hk1). rewrite nth_error_app2 by (rewrite update_length; unfold j; lia).
      rewrite update_length. unfold j. rewrite Nat.sub_diag. reflexivity.
    + rewrite update_nth_other in Hk0 by exact Hne. unfold phi' in Hc0. rewrite update_nth_other in Hc0 by exact Hne.
      destruct (Hnodes k0 n0 c0 Hk0 Hc0) as (nd0 & o & Hcn & Hs). exists nd0, o. split.
      * assert (Hni : ~ In k1 (cluster_idx c0)).
        { eapply (flat_map_NoDup_idx cluster_idx phi k k0 (k1, None) c0 k1); eauto. left. reflexivity. }
        unfold cluster_nodes, cluster_idx in *. destruct c0 as [a [b|]]; cbn in *.
        -- destruct (nth_error (cs_nodes sc) a) eqn:E1; [|discriminate]. destruct (nth_error (cs_nodes sc) b) eqn:E2; [|discriminate].
           rewrite (Hnth' a _ E1) by (intros ->; apply Hni; auto). rewrite (Hnth' b _ E2) by (intros ->; apply Hni; auto). exact Hcn.
        -- destruct (nth_error (cs_nodes sc) a) eqn:E1; [|discriminate].
           rewrite (Hnth' a _ E1) by (intros ->; apply Hni; auto). exact Hcn.
      * eapply node_sim_mono; [exact Hple|apply grows_app|exact Hs].
  - unfold phi'. destruct (flat_map_update_split cluster_idx _ _ _ Hc) as [E1 E2]. rewrite E2. rewrite E1 in Hdisj.
    cbn [cluster_idx fst snd app] in *.
    change (flat_map cluster_idx (firstn k phi) ++ k1 :: j :: flat_map cluster_idx (skipn (S k) phi))
      with (flat_map cluster_idx (firstn k phi) ++ [k1] ++ j :: flat_map cluster_idx (skipn (S k) phi)).
    rewrite app_assoc. apply NoDup_insert; [rewrite <- app_assoc; exact Hdisj|].
    intros Hin. rewrite <- app_assoc in Hin. cbn [app] in Hin. rewrite <- E1 in Hin.
    apply in_flat_map in Hin as (c & Hc' & Hic). apply In_nth_error in Hc' as (k0 & Hk0').
    specialize (Hbound k0 c j Hk0' Hic). lia.
  - apply (Forall2_update_idx (group_sim phi (cs_nodes sc)) _ _ _ g (GRow k cls)); [exact Hgroups|exact Hgr| |].
    + apply (GS_row phi' _ k cls (k1, Some j) rt nd1).
      * unfold phi'. eapply update_nth_same; eauto.
      * cbn. apply nth_error_app_l. eapply update_nth_same; eauto.
      * pose proof (Forall2_nth _ _ _ _ _ Hgroups Hgr) as (y & Hy & Hxy). rewrite Hgc in Hy. injection Hy as <-.
        apply group_sim_row_inv in Hxy as (c' & rt' & nd' & Ey & Hk' & Hn' & Hcl').
        assert (c' = (k1, None)) by congruence. subst c'. cbn in Hn', Ey. injection Ey as <-.
        assert (nd' = nd) by congruence. subst nd'. eapply class_ok_same; eauto.
    + intros i a b Hne Ha Hb Hab.
      apply group_sim_update with (ndi := nd) (i := k1) (nd' := nd1) in Hab; [|exact Hk1|exact Hcl].
      assert (Hak : ~ In k (grow_node a)).
      { eapply (flat_map_NoDup_idx grow_node (s_groups sr) g i (GRow k cls) a k); eauto. left. reflexivity. }
      destruct Hab as [k0 cls0 c0 rt0 nd0 Hk0 Hn0 Hcl0|ps Hps|ps k0 k1' nd0 r0 Hps Hk0 Hn0 Hb0|ms].
      * eapply GS_row; [unfold phi'; rewrite update_nth_other; [exact Hk0|intros ->; apply Hak; left; reflexivity]
                       |apply nth_error_app_l; exact Hn0|exact Hcl0].
      * constructor. exact Hps.
      * eapply GS_noop_router; [exact Hps| |apply nth_error_app_l; exact Hn0|exact Hb0].
        unfold phi'. rewrite update_nth_other; [exact Hk0|intros ->; apply Hak; left; reflexivity].
      * constructor.
  - exact Hginj.
  - intros g0 ps k0 n0 Hg0 Hk0. destruct (Nat.eq_dec k0 k) as [->|Hne].
    + rewrite (update_nth_same _ _ n' _ Hk) in Hk0. injection Hk0 as <-. rewrite Hact. eapply Hacts; eauto.
    + rewrite update_nth_other in Hk0 by exact Hne. eapply Hacts; eauto.
  - exact Hrm.
  - exact Hst.
  - apply (names_mono phi); [exact Hple|exact Hnames].
Qed.

(* the same for the node of a ROW group, whose actions may change (a row merged into the node) *)
Lemma Sim_set_row phi sr sc k n n' c i ndi nd' next' :
  Sim phi sr sc ->
  nth_error (s_nodes sr) k = Some n -> nth_error phi k = Some c -> In i (cluster_idx c) ->
  nth_error (cs_nodes sc) i = Some ndi -> cn_uuid nd' = cn_uuid ndi -> same_class (cn_body ndi) (cn_body nd') ->
  (forall g ps, nth_error (s_groups sr) g <> Some (GNoOp ps (Some k))) ->
  (forall nd o, cluster_nodes (RowSem.update (cs_nodes sc) i nd') c = Some (nd, o) -> node_sim phi (cuu sc) n' nd o) ->
  Sim phi (RowSem.set_node sr k n') (Compile.set_node sc i nd' next').
Proof.
  intros [Hlen Hnodes Hdisj Hgroups Hginj Hacts Hrm Hst Hnames] Hk Hc Hin Hi Hu Hcl Hrow Hnew.
  assert (Euu : map cn_uuid (RowSem.update (cs_nodes sc) i nd') = cuu sc) by (unfold cuu; eapply update_map_same; eauto).
  constructor; cbn.
  - rewrite update_length. exact Hlen.
  - intros k0 n0 c0 Hk0 Hc0. rewrite Euu. destruct (Nat.eq_dec k0 k) as [->|Hne].
    + rewrite (update_nth_same _ _ n' _ Hk) in Hk0. injection Hk0 as <-.
      assert (c0 = c) by congruence. subst c0.
      destruct (Hnodes k n c Hk Hc) as (nd & o & Hcn & _).
      destruct (cluster_nodes_update_some _ i nd' ndi c nd o Hi Hcn) as (nd2 & o2 & E2).
      exists nd2, o2. split; [exact E2|apply Hnew, E2].
    + rewrite update_nth_other in Hk0 by exact Hne.
      destruct (Hnodes k0 n0 c0 Hk0 Hc0) as (nd & o & Hcn & Hs). exists nd, o. split; [|exact Hs].
      rewrite cluster_nodes_update_other; [exact Hcn|].
      eapply (flat_map_NoDup_idx cluster_idx phi k k0 c c0 i); eauto.
  - exact Hdisj.
  - eapply Forall2_impl; [|exact Hgroups]. intros g g'. apply group_sim_update with (ndi := ndi); assumption.
  - exact Hginj.
  - intros g ps k0 n0 Hg0 Hk0. destruct (Nat.eq_dec k0 k) as [->|Hne].
    + exfalso. exact (Hrow g ps Hg0).
    + rewrite update_nth_other in Hk0 by exact Hne. eapply Hacts; eauto.
  - exact Hrm.
  - exact Hst.
  - exact Hnames.
Qed.

(* ---------------------------------------------------------------- node names *)
(* the row's node gets a name on both sides (the reference only records a non-blank one) *)
Lemma Sim_names phi sr sc nm k c :
  Sim phi sr sc -> nth_error phi k = Some c ->
  Sim phi (push_names sr nm k) (set_names sc nm (fst c)).
Proof.
  intros [Hlen Hnodes Hdisj Hgroups Hginj Hacts Hrm Hst Hnames] Hc.
  assert (E : push_names sr nm k = mkSt (s_nodes sr) (s_groups sr) (s_rowmap sr) (match nm with [] => s_names sr | _ => (nm, k) :: s_names sr end) (s_stack sr)).
  { unfold push_names. destruct nm; [destruct sr|]; reflexivity. }
  rewrite E. constructor; cbn [s_nodes s_groups s_rowmap s_stack cs_nodes cs_groups cs_rowmap cs_stack set_names]; try assumption.
  cbn [s_names cs_names set_names]. intros nm0 Hnm0. specialize (Hnames nm0 Hnm0).
  destruct nm as [|a nm'].
  - cbn [alookup]. assert (Eb : str_eqb [] nm0 = false) by (destruct nm0; [contradiction|reflexivity]). rewrite Eb. exact Hnames.
  - cbn [alookup]. destruct (str_eqb (a :: nm') nm0); [exists c; auto|exact Hnames].
Qed.

(* a row merged into a node gets its row id as an alias of the row it continues *)
Lemma Sim_alias phi sr sc rid g : Sim phi sr sc -> Sim phi (alias_row sr rid g) (match rid with [] => sc | _ => set_rowmap sc rid g end).
Proof.
  intros [Hlen Hnodes Hdisj Hgroups Hginj Hacts Hrm Hst Hnames]. destruct rid as [|a r]; [destruct sr; constructor; assumption|].
  constructor; cbn; try assumption. rewrite Hrm. reflexivity.
Qed.
End WithNames.
