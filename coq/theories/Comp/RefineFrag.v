(* E7/C02 — the boolean fragment test (Comp/Refine.v: fragb, evaluated by the harness on every generated sheet) is
   sound for the hypotheses of the refinement theorem. *)
From Coq Require Import List NArith Bool Arith Lia.
From RPFT Require Import Base.Sexp Base.PyStr Base.PyStrFacts Base.Result Gen.Tables Flow.Lts Flow.Flow Flow.Closed Flow.RowSem
     Comp.Compile Comp.Refine Comp.RefineStep Comp.RefineFinal.
Import ListNotations.

Lemma list_eqb_eq {X} (eqb : X -> X -> bool) : (forall a b, eqb a b = true -> a = b) -> forall l l', list_eqb eqb l l' = true -> l = l'.
Proof.
  intros H. induction l as [|a r IH]; intros [|b r']; cbn; try discriminate; [reflexivity|].
  intros E. apply andb_true_iff in E as [E1 E2]. rewrite (H _ _ E1), (IH _ E2). reflexivity.
Qed.

Lemma cname_eqb_eq a b : cname_eqb a b = true -> a = b.
Proof. destruct a, b; cbn; try discriminate; [|reflexivity]. intros H. apply str_eqb_eq in H. congruence. Qed.
Lemma dest_eqb_eq a b : dest_eqb a b = true -> a = b.
Proof. destruct a, b; cbn; try discriminate; try reflexivity. intros H. apply Nat.eqb_eq in H. congruence. Qed.
Lemma catd_eqb_eq a b : catd_eqb a b = true -> a = b.
Proof.
  destruct a as [a1 a2], b as [b1 b2]. unfold catd_eqb. cbn. intros H. apply andb_true_iff in H as [H1 H2].
  rewrite (cname_eqb_eq _ _ H1), (dest_eqb_eq _ _ H2). reflexivity.
Qed.
Lemma wait_eqb_eq a b : wait_eqb a b = true -> a = b.
Proof.
  destruct a, b; cbn; try discriminate; try reflexivity. intros H. apply andb_true_iff in H as [H1 H2].
  apply N.eqb_eq in H1. apply str_eqb_eq in H2. congruence.
Qed.
Lemma ostr_eqb_eq a b : ostr_eqb a b = true -> a = b.
Proof. destruct a, b; cbn; try discriminate; [|reflexivity]. intros H. apply str_eqb_eq in H. congruence. Qed.
Lemma rcase_eqb_eq a b : rcase_eqb a b = true -> a = b.
Proof.
  destruct a as [[a1 a2] a3], b as [[b1 b2] b3]. unfold rcase_eqb. cbn. intros H.
  apply andb_true_iff in H as [H H3]. apply andb_true_iff in H as [H1 H2].
  apply str_eqb_eq in H1. apply (list_eqb_eq _ ostr_eqb_eq) in H2. apply Nat.eqb_eq in H3. congruence.
Qed.

Lemma rdec_eqb_eq x y : rdec_eqb x y = true -> x = y.
Proof.
  unfold rdec_eqb. intros H. repeat (apply andb_true_iff in H as [H ?]).
  destruct x, y; cbn in *.
  assert (rd_random = rd_random0) by (apply Bool.eqb_prop; assumption).
  assert (rd_operand = rd_operand0) by (apply str_eqb_eq; assumption).
  assert (rd_wait = rd_wait0) by (apply wait_eqb_eq; assumption).
  assert (rd_result = rd_result0) by (apply ostr_eqb_eq; assumption).
  assert (rd_cases = rd_cases0) by (apply (list_eqb_eq _ rcase_eqb_eq); assumption).
  assert (rd_cats = rd_cats0) by (apply (list_eqb_eq _ catd_eqb_eq); assumption).
  assert (rd_default = rd_default0) by (apply catd_eqb_eq; assumption).
  assert (rd_noresp = rd_noresp0).
  { destruct rd_noresp, rd_noresp0; try discriminate; [|reflexivity]. f_equal. apply catd_eqb_eq. assumption. }
  subst. reflexivity.
Qed.

Lemma rdec_eqb_shallow_eq a b : rdec_eqb_shallow a b = true -> a = b.
Proof. destruct a, b; cbn; try discriminate; [|reflexivity]. intros H. f_equal. apply rdec_eqb_eq, H. Qed.

Lemma eclass_eqb_eq a b : eclass_eqb a b = true -> a = b.
Proof. destruct a, b; cbn; try discriminate; reflexivity. Qed.

(* where the boolean agreement test holds, the code of this run reads as the reference does *)
Lemma cond_agreesb_sound c : cond_agreesb c = true -> row_args c = ref_args c /\ noop_args c = ref_args c.
Proof.
  unfold cond_agreesb, row_args, noop_args, by_name_args, ref_args, has_group_typed. intros H.
  destruct (str_eqb (c_type c) has_group_s); [|rewrite !andb_false_r; auto].
  rewrite !andb_true_r. cbn [negb] in H. rewrite orb_false_r in H. apply andb_true_iff in H as [-> ->]. auto.
Qed.

Lemma no_paddingb_sound es : no_paddingb es = true -> drop_padding es = es.
Proof.
  unfold no_paddingb, drop_padding. destruct es as [|e0 rest]; [reflexivity|]. cbn [tl]. intros H. f_equal.
  induction rest as [|e r IH]; [reflexivity|]. cbn [forallb filter] in *. apply andb_true_iff in H as [H1 H2].
  rewrite H1. f_equal. apply IH, H2.
Qed.

Lemma edges_agreeb_sound es :
  edges_agreeb es = true ->
  read_edges es = drop_padding es /\ Forall (fun e => row_args (e_cond e) = ref_args (e_cond e) /\ noop_args (e_cond e) = ref_args (e_cond e)) es.
Proof.
  unfold edges_agreeb. intros H. apply andb_true_iff in H as [H1 H2]. split.
  - unfold read_edges. destruct padding_edges_dropped_at_read; [reflexivity|]. cbn [orb] in H1. symmetry. apply no_paddingb_sound, H1.
  - rewrite forallb_forall in H2. apply Forall_forall. intros e He. apply cond_agreesb_sound, H2, He.
Qed.

(* ---------------------------------------------------------------- the invented names of a sheet *)
Lemma gnameb_other bases : gnameb bases s_Other = true.
Proof. unfold gnameb. rewrite str_eqb_refl. reflexivity. Qed.

Definition sheet_names (rows : list crow) : GenNames :=
  {| gname := fun n => gnameb (sheet_bases rows) n = true; gname_other := gnameb_other _ |}.

Lemma alts_length k : length (alts k) = 4 * k.
Proof. induction k as [|k IH]; cbn [alts]; [reflexivity|]. rewrite app_length, IH. cbn. lia. Qed.

Lemma gnameb_base bases b k : In b bases -> gnameb bases (b ++ alts k) = true.
Proof.
  intros Hin. unfold gnameb. apply orb_true_iff. right. apply existsb_exists. exists b. split; [exact Hin|].
  apply existsb_exists. exists k. split; [|apply str_eqb_refl].
  apply in_seq. rewrite app_length, alts_length. lia.
Qed.

Lemma sheet_bases_in rows cr e b :
  In cr rows -> In e (r_edges (cr_row cr)) -> In b (cond_bases (e_cond e)) -> In b (sheet_bases rows).
Proof.
  intros H1 H2 H3. unfold sheet_bases. apply in_flat_map. exists cr. split; [exact H1|].
  apply in_flat_map. exists e. split; [exact H2|exact H3].
Qed.

(* every condition of the sheet gets a name of the sheet's invented names *)
Lemma gen_ok_sheet rows cr e : In cr rows -> In e (r_edges (cr_row cr)) -> @gen_ok (sheet_names rows) (e_cond e).
Proof.
  intros H1 H2 k. unfold sheet_names. cbn [gname].
  split; apply gnameb_base; eapply sheet_bases_in; eauto; unfold cond_bases; [left|right; left]; reflexivity.
Qed.

Lemma starts_with_app p x : starts_with p (p ++ x) = true.
Proof. induction p as [|a p IH]; cbn; [reflexivity|]. rewrite N.eqb_refl. exact IH. Qed.

Lemma edge_okb_sound rows cr e :
  In cr rows -> In e (r_edges (cr_row cr)) -> edge_okb (sheet_bases rows) e = true ->
  @cname_ok (sheet_names rows) (e_cond e) /\ ~ is_bucket_name (bucket_name (e_cond e)).
Proof.
  intros H1 H2. unfold edge_okb, cname_ok. intros H. apply andb_true_iff in H as [H Hbk]. split.
  - destruct explicit_names_claimed; [exact I|]. cbn [orb] in H.
    destruct (c_cname (e_cond e)) as [|a nm] eqn:En; [eapply gen_ok_sheet; eauto|].
    apply andb_true_iff in H as [Ha Hb]. split.
    + unfold sheet_names. cbn [gname]. intros Hg. rewrite Hg in Ha. discriminate.
    + intros E. rewrite E, str_eqb_refl in Hb. discriminate.
  - intros (k & E). rewrite E, starts_with_app in Hbk. discriminate.
Qed.

Lemma row_okb_sound rows cr :
  In cr rows -> row_okb (sheet_bases rows) cr = true -> @row_ok (sheet_names rows) cr /\ reads_same cr.
Proof.
  intros Hin. unfold row_okb, row_ok. intros H. apply andb_true_iff in H as [H H3]. apply andb_true_iff in H as [H H2]. apply andb_true_iff in H as [H0 H1].
  apply edges_agreeb_sound in H0 as [Hsame Hargs].
  split; [|exact Hsame]. split; [|split].
  - rewrite forallb_forall in H1. rewrite Forall_forall in Hargs. apply Forall_forall. intros e He. specialize (H1 e He).
    unfold edge_ok, cond_ok. destruct (Hargs e He) as [Ha Hb]. split; [exact Ha|]. split; [exact Hb|].
    apply (edge_okb_sound rows cr e Hin He H1).
  - intros Hne. destruct (cr_uuid cr) as [|a u] eqn:Eu; [contradiction|]. apply andb_true_iff in H2 as [E1 E2].
    apply str_eqb_eq in E1. split; [exact E1|]. intros E. rewrite E, str_eqb_refl in E2. discriminate.
  - destruct (r_type (cr_row cr)) as [cls acts dec0| | | | | |]; try exact I.
    apply andb_true_iff in H3 as [H3 H6]. apply andb_true_iff in H3 as [H4 H5].
    split; [apply eclass_eqb_eq, H4|]. split; [apply rdec_eqb_shallow_eq, H5|].
    destruct (cr_kind cr); try discriminate.
    + apply Nat.leb_le, H6.
    + apply Nat.leb_le, H6.
    + destruct acts; [reflexivity|discriminate].
    + destruct acts; [reflexivity|discriminate].
    + destruct acts; [reflexivity|discriminate].
    + destruct acts; [reflexivity|discriminate].
    + apply Nat.eqb_eq, H6.
    + apply Nat.eqb_eq, H6.
    + apply Nat.eqb_eq, H6.
Qed.

(* Decided for the code of this run (the three constants are probed from it): does it read rows as the reference
   does?  Padding entries: in every row when _parse_next_row drops them, otherwise only in rows that have none;
   has_group tests: in every condition when both add_exit functions write [None, name], otherwise only in
   conditions of another type. *)
Theorem reading_agrees_decided :
  (if padding_edges_dropped_at_read then forall cr, reads_same cr
   else forall cr, no_paddingb (r_edges (cr_row cr)) = true -> reads_same cr)
  /\ (if has_group_edges_by_name && has_group_by_name_from_noop
      then forall c, row_args c = ref_args c /\ noop_args c = ref_args c
      else forall c, has_group_typed c = false -> row_args c = ref_args c /\ noop_args c = ref_args c).
Proof.
  split.
  - unfold reads_same, read_edges. destruct padding_edges_dropped_at_read; [reflexivity|].
    intros cr H. symmetry. apply no_paddingb_sound, H.
  - destruct (has_group_edges_by_name && has_group_by_name_from_noop) eqn:E.
    + intros c. apply cond_agreesb_sound. unfold cond_agreesb. rewrite E. reflexivity.
    + intros c H. apply cond_agreesb_sound. unfold cond_agreesb. rewrite H. apply orb_true_r.
Qed.

(* the premise on category names, decided *)
Theorem names_decided {G : GenNames} c :
  if explicit_names_claimed then cname_ok c
  else cname_ok c <-> match c_cname c with [] => gen_ok c | nm => ~ gname nm /\ nm <> s_NoResponse end.
Proof. unfold cname_ok. destruct explicit_names_claimed; [exact I|tauto]. Qed.

Theorem fragb_sound rows : fragb rows = true -> Forall (@row_ok (sheet_names rows)) rows /\ Forall reads_same rows.
Proof.
  unfold fragb. intros H1. rewrite forallb_forall in H1. split.
  - apply Forall_forall. intros cr Hcr. apply (row_okb_sound rows cr Hcr), H1, Hcr.
  - apply Forall_forall. intros cr Hcr. apply (row_okb_sound rows cr Hcr), H1, Hcr.
Qed.

(* the theorem in the form the harness evaluates: on a sheet that passes the fragment test *)
Theorem compile_refines_rowsem_fragb fresh validate name rows f ref :
  (forall a b : nat, fresh a = fresh b -> a = b) -> (forall k, fresh k <> hard_exit_sentinel) ->
  (forall us, validate us = None -> NoDup us) ->
  fragb rows = true ->
  compile_with fresh validate name rows = Ok f -> rowsem nab (map cr_row rows) = Some ref ->
  (forall t, FlowFacts.traces ref t -> exists t', FlowFacts.traces f t' /\ Forall2 (ematch sexp SexpEq.smatch) t t')
  /\ (forall t, FlowFacts.traces f t -> exists t', FlowFacts.traces ref t' /\ Forall2 (ematch sexp (fun a b => SexpEq.smatch b a)) t t').
Proof.
  intros Hi Hs Hv Hfr. destruct (fragb_sound rows Hfr) as (H1 & H2).
  eapply (@compile_refines_rowsem_partial (sheet_names rows)); eauto.
Qed.
