(* E7/C02 — facts for the refinement, part 7: from the simulation of the builders to the traces of the flows.
   The reference flow (to_flow of the final reference state) and the compiled flow (cfinish of the final compiler
   state) are weakly similar in both directions, labels matched up to the names the sheet does not fix. *)
From Coq Require Import List NArith Bool Arith Lia.
From RPFT Require Import Base.Sexp Base.PyStr Base.PyStrFacts Base.SexpEq Base.Result Gen.Tables Flow.Lts Flow.Flow Flow.FlowFacts Flow.Closed
     Flow.RowSem Comp.Compile Comp.CompileFacts Comp.CompileIds Comp.CompileInv Comp.CompileStep Comp.CompileClosed Comp.CompileClass
     Comp.Refine Comp.RefineFacts Comp.RefineStore Comp.WeakSim.
Import ListNotations.

Section WithNames.
Context {GN : GenNames}.

(* ---------------------------------------------------------------- lists *)
Lemma number_from_nth {X} (l : list X) i0 i : nth_error (number_from i0 l) i = option_map (fun x => (i0 + i, x)) (nth_error l i).
Proof.
  revert i0 i. induction l as [|a r IH]; intros i0 [|i]; cbn; try reflexivity.
  - rewrite Nat.add_0_r. reflexivity.
  - rewrite IH. destruct (nth_error r i); cbn; [|reflexivity]. f_equal. f_equal. lia.
Qed.

Lemma number_from_length {X} (l : list X) i0 : length (number_from i0 l) = length l.
Proof. revert i0. induction l as [|a r IH]; intros i0; cbn; [reflexivity|]. rewrite IH. reflexivity. Qed.

Lemma smatch_refl a : smatch a a = true.
Proof.
  induction a as [n|l IH] using sexp_ind'; cbn.
  - destruct (N.eqb n WILD); [reflexivity|apply N.eqb_refl].
  - induction IH as [|x r Hx _ IHr]; [reflexivity|]. rewrite Hx, IHr. reflexivity.
Qed.

(* find over a mapped list with distinct keys *)
Lemma find_key {X Y} (key : X -> str) (g : X -> Y) (key' : Y -> str) (l : list X) i x :
  (forall y, key' (g y) = key y) -> NoDup (map key l) -> nth_error l i = Some x ->
  find (fun y => str_eqb (key' y) (key x)) (map g l) = Some (g x).
Proof.
  intros Hk. revert i. induction l as [|a r IH]; intros [|i]; cbn; try discriminate.
  - intros _ E. injection E as ->. rewrite Hk, str_eqb_refl. reflexivity.
  - intros Hnd E. inversion Hnd as [|? ? Ha Hr]; subst. rewrite Hk.
    destruct (str_eqb (key a) (key x)) eqn:Eq.
    + apply str_eqb_eq in Eq. exfalso. apply Ha. rewrite Eq. apply in_map. eapply nth_error_In, E.
    + eapply IH; eauto.
Qed.

Lemma find_idx_key {X} (key : X -> str) (l : list X) i x :
  NoDup (map key l) -> nth_error l i = Some x -> find_idx (fun y => str_eqb (key y) (key x)) l = Some i.
Proof.
  revert i. induction l as [|a r IH]; intros [|i]; cbn; try discriminate.
  - intros _ E. injection E as ->. rewrite str_eqb_refl. reflexivity.
  - intros Hnd E. inversion Hnd as [|? ? Ha Hr]; subst.
    destruct (str_eqb (key a) (key x)) eqn:Eq.
    + apply str_eqb_eq in Eq. exfalso. apply Ha. rewrite Eq. apply in_map. eapply nth_error_In, E.
    + rewrite (IH i Hr E). reflexivity.
Qed.

(* ---------------------------------------------------------------- the reference flow *)
Lemma nid_inj a b : nid a = nid b -> a = b.
Proof. unfold nid. intros H. injection H as H. apply Nat2N.inj, H. Qed.
Lemma cid_inj k a b : cid k a = cid k b -> a = b.
Proof. unfold cid. intros H. injection H as H. apply Nat2N.inj, H. Qed.
Lemma xid_inj k a b : xid k a = xid k b -> a = b.
Proof. unfold xid. intros H. injection H as H. apply Nat2N.inj, H. Qed.

Lemma to_node_uuid k n : n_uuid (to_node k n) = nid k.
Proof. unfold to_node. destruct (rn_dec n); reflexivity. Qed.

(* ---------------------------------------------------------------- what a flow does at a node *)
Lemma lts_act F i nd pc u p :
  nth_error (f_nodes F) i = Some nd -> nth_error (n_actions nd) pc = Some (u, p) -> lts_of_flow F (i, pc) = KAct p (i, S pc).
Proof. intros H1 H2. unfold lts_of_flow. cbn [fst snd]. rewrite H1, H2. reflexivity. Qed.

Lemma lts_tail F i nd pc :
  nth_error (f_nodes F) i = Some nd -> nth_error (n_actions nd) pc = None ->
  lts_of_flow F (i, pc) = match n_router nd with
                          | None => match n_exits nd with [e] => KTau (dest_state F (e_dest e)) | _ => KBad end
                          | Some r => KDec (router_sig r) (router_branches F nd r)
                          end.
Proof. intros H1 H2. unfold lts_of_flow. cbn [fst snd]. rewrite H1, H2. reflexivity. Qed.

Lemma lts_end F : lts_of_flow F (end_state F) = KEnd.
Proof.
  unfold lts_of_flow, end_state. cbn [fst snd].
  assert (E : nth_error (f_nodes F) (length (f_nodes F)) = None) by (apply nth_error_None; lia). rewrite E, Nat.eqb_refl. reflexivity.
Qed.

(* the reference node *)
Lemma ref_actions_nth k n pc :
  nth_error (n_actions (to_node k n)) pc = option_map (fun p => ([5%N; N.of_nat k; N.of_nat pc], p)) (nth_error (rn_actions n) pc).
Proof.
  assert (E : n_actions (to_node k n) = map (fun ip => ([5%N; N.of_nat k; N.of_nat (fst ip)], snd ip)) (number_from 0 (rn_actions n)))
    by (unfold to_node; destruct (rn_dec n); reflexivity).
  rewrite E, nth_error_map, number_from_nth. destruct (nth_error (rn_actions n) pc); reflexivity.
Qed.

Lemma cid_keys_nodup {X} k (l : list X) i0 : NoDup (map (fun ic : nat * X => cid k (fst ic)) (number_from i0 l)).
Proof.
  revert i0. induction l as [|a r IH]; intros i0; cbn; constructor; [|apply IH].
  intros Hin. apply in_map_iff in Hin as ([j y] & E & Hj). cbn in E. apply cid_inj in E. subst j.
  assert (G : forall (l' : list X) s j0 y0, In (j0, y0) (number_from s l') -> s <= j0).
  { induction l' as [|b r' IH']; intros s j0 y0 H; cbn in H; [contradiction|]. destruct H as [H|H]; [injection H as <- _; lia|]. apply IH' in H. lia. }
  apply G in Hj. lia.
Qed.

Lemma xid_keys_nodup {X} k (l : list X) i0 : NoDup (map (fun ic : nat * X => xid k (fst ic)) (number_from i0 l)).
Proof.
  revert i0. induction l as [|a r IH]; intros i0; cbn; constructor; [|apply IH].
  intros Hin. apply in_map_iff in Hin as ([j y] & E & Hj). cbn in E. apply xid_inj in E. subst j.
  assert (G : forall (l' : list X) s j0 y0, In (j0, y0) (number_from s l') -> s <= j0).
  { induction l' as [|b r' IH']; intros s j0 y0 H; cbn in H; [contradiction|]. destruct H as [H|H]; [injection H as <- _; lia|]. apply IH' in H. lia. }
  apply G in Hj. lia.
Qed.

Definition ref_cats k (all : list (cname * dest)) : list category :=
  map (fun ic => mkCat (cid k (fst ic)) (cname_str (fst (snd ic))) (xid k (fst ic))) (number_from 0 all).
Definition ref_exits k (all : list (cname * dest)) : list exit_ :=
  map (fun ic => mkExit (xid k (fst ic)) (dest_id (snd (snd ic)))) (number_from 0 all).

Lemma ref_cat_find k all i x : nth_error all i = Some x ->
  find (fun c => str_eqb (c_uuid c) (cid k i)) (ref_cats k all) = Some (mkCat (cid k i) (cname_str (fst x)) (xid k i)).
Proof.
  intros H. unfold ref_cats.
  assert (Hn : nth_error (number_from 0 all) i = Some (i, x)) by (rewrite number_from_nth, H; reflexivity).
  exact (find_key (fun ic : nat * (cname * dest) => cid k (fst ic))
                  (fun ic : nat * (cname * dest) => mkCat (cid k (fst ic)) (cname_str (fst (snd ic))) (xid k (fst ic)))
                  c_uuid (number_from 0 all) i (i, x) (fun y => eq_refl) (cid_keys_nodup k all 0) Hn).
Qed.

Lemma ref_exit_find k all i x : nth_error all i = Some x ->
  find (fun e => str_eqb (e_uuid e) (xid k i)) (ref_exits k all) = Some (mkExit (xid k i) (dest_id (snd x))).
Proof.
  intros H. unfold ref_exits.
  assert (Hn : nth_error (number_from 0 all) i = Some (i, x)) by (rewrite number_from_nth, H; reflexivity).
  exact (find_key (fun ic : nat * (cname * dest) => xid k (fst ic))
                  (fun ic : nat * (cname * dest) => mkExit (xid k (fst ic)) (dest_id (snd (snd ic))))
                  e_uuid (number_from 0 all) i (i, x) (fun y => eq_refl) (xid_keys_nodup k all 0) Hn).
Qed.

(* the compiled node *)
Lemma comp_cat_find l i c : NoDup (map cc_uuid l) -> nth_error l i = Some c ->
  find (fun y => str_eqb (c_uuid y) (cc_uuid c)) (map render_cat l) = Some (render_cat c).
Proof. intros Hnd H. exact (find_key cc_uuid render_cat c_uuid l i c (fun y => eq_refl) Hnd H). Qed.

Lemma comp_exit_find l i c : NoDup (map cat_xid l) -> nth_error l i = Some c ->
  find (fun e => str_eqb (e_uuid e) (cat_xid c)) (map (fun x => render_exit (cc_exit x)) l) = Some (render_exit (cc_exit c)).
Proof. intros Hnd H. exact (find_key cat_xid (fun x => render_exit (cc_exit x)) e_uuid l i c (fun y => eq_refl) Hnd H). Qed.

(* ---------------------------------------------------------------- routers: signatures and branches *)
Lemma render_node_actions nd : n_actions (render_node nd) = cn_actions nd.
Proof. unfold render_node. destruct (cn_body nd); reflexivity. Qed.

Definition ref_wait k (d : rdec) : wait_spec :=
  match rd_wait d, rd_noresp d with
  | WTimeout sec _, Some _ => WTimeout sec (cid k (S (length (rd_cats d))))
  | WTimeout _ _, None => WMsg
  | w, _ => w
  end.

Definition ref_router k (d : rdec) : router :=
  RSwitch (rd_operand d)
          (map (fun ik => mkCase (kid k (fst ik)) (fst (fst (snd ik))) (snd (fst (snd ik))) (cid k (snd (snd ik)))) (number_from 0 (rd_cases d)))
          (ref_cats k (all_cats d)) (cid k (length (rd_cats d))) (ref_wait k d) (rd_result d).

Lemma to_node_dec k n d : rn_dec n = Some d -> rd_random d = false ->
  n_exits (to_node k n) = ref_exits k (all_cats d) /\ n_router (to_node k n) = Some (ref_router k d).
Proof. intros H1 H2. unfold to_node. rewrite H1. cbn. rewrite H2. split; reflexivity. Qed.

Lemma to_node_basic k n : rn_dec n = None ->
  n_exits (to_node k n) = [mkExit (xid k 0) (dest_id (rn_cont n))] /\ n_router (to_node k n) = None.
Proof. intros H. unfold to_node. rewrite H. split; reflexivity. Qed.

Definition comp_wait (w : cwait) : wait_spec :=
  match w with CWNone => WNone | CWMsg => WMsg | CWTimeout t c => WTimeout t (cc_uuid c) end.
Definition comp_router (r : cswitch) : router :=
  RSwitch (sw_operand r) (map render_case (sw_cases r)) (map render_cat (sw_all_cats r)) (cc_uuid (sw_default r))
          (comp_wait (sw_wait r)) (render_result (sw_result r)).

Lemma render_switch nd cls r : cn_body nd = BSwitch cls r ->
  n_exits (render_node nd) = map (fun c => render_exit (cc_exit c)) (sw_all_cats r) /\ n_router (render_node nd) = Some (comp_router r).
Proof. intros H. unfold render_node. rewrite H. split; reflexivity. Qed.

Lemma render_basic nd e : cn_body nd = BBasic e -> n_exits (render_node nd) = [render_exit e] /\ n_router (render_node nd) = None.
Proof. intros H. unfold render_node. rewrite H. split; reflexivity. Qed.

Lemma all_sim phi uu d r : dec_sim phi uu d r -> Forall2 (cat_sim phi uu) (all_cats d) (sw_all_cats r).
Proof.
  intros [H1 _ _ H4 H5 H6 _ _]. unfold all_cats, sw_all_cats. rewrite H1. apply Forall2_app; [exact H5|]. constructor; [exact H6|].
  unfold wait_sim in H4. destruct (rd_wait d), (sw_wait r) as [| |t c]; try contradiction; try (rewrite H4; constructor).
  destruct H4 as (_ & x & -> & Hx). cbn. constructor; [exact Hx|constructor].
Qed.

Lemma name_match phi uu x c : cat_sim phi uu x c -> smatch (name_sexp (cname_str (fst x))) (name_sexp (cc_name c)) = true.
Proof.
  intros [Hn _]. destruct (fst x) as [s|]; cbn in *.
  - subst s. apply smatch_refl.
  - reflexivity.
Qed.

Lemma ref_cat_name k all i x : nth_error all i = Some x -> cat_name (ref_cats k all) (cid k i) = name_sexp (cname_str (fst x)).
Proof. intros H. unfold cat_name. rewrite (ref_cat_find k all i x H). reflexivity. Qed.

Lemma comp_cat_name l i c : NoDup (map cc_uuid l) -> nth_error l i = Some c -> cat_name (map render_cat l) (cc_uuid c) = name_sexp (cc_name c).
Proof. intros Hnd H. unfold cat_name. rewrite (comp_cat_find l i c Hnd H). reflexivity. Qed.

Lemma cat_name_match phi uu k d r i x c :
  dec_sim phi uu d r -> nth_error (all_cats d) i = Some x -> nth_error (sw_all_cats r) i = Some c ->
  smatch (cat_name (ref_cats k (all_cats d)) (cid k i)) (cat_name (map render_cat (sw_all_cats r)) (cc_uuid c)) = true.
Proof.
  intros Hs Hx Hc. rewrite (ref_cat_name _ _ _ _ Hx), (comp_cat_name _ _ _ (ds_uuids _ _ _ _ Hs) Hc).
  destruct (Forall2_nth _ _ _ _ _ (all_sim _ _ _ _ Hs) Hx) as (c' & Hc' & Hxc). assert (c' = c) by congruence. subst c'.
  eapply name_match; eauto.
Qed.

Lemma Forall2_map2 {A B C D} (P : C -> D -> Prop) (f : A -> C) (g : B -> D) l l' :
  Forall2 (fun a b => P (f a) (g b)) l l' -> Forall2 P (map f l) (map g l').
Proof. intros H. induction H; cbn; constructor; auto. Qed.

Lemma smatch_list (l l' : list sexp) : Forall2 (fun a b => smatch a b = true) l l' -> smatch (L l) (L l') = true.
Proof. intros H. cbn. induction H as [|a b r r' Hab _ IH]; [reflexivity|]. rewrite Hab, IH. reflexivity. Qed.

Lemma default_idx phi uu d r : dec_sim phi uu d r ->
  nth_error (all_cats d) (length (rd_cats d)) = Some (rd_default d) /\ nth_error (sw_all_cats r) (length (rd_cats d)) = Some (sw_default r).
Proof.
  intros Hs. pose proof (Forall2_length' _ _ _ (ds_cats _ _ _ _ Hs)) as Hl. unfold all_cats, sw_all_cats. rewrite (ds_random _ _ _ _ Hs). split.
  - rewrite nth_error_app2 by lia. rewrite Nat.sub_diag. reflexivity.
  - rewrite nth_error_app2 by lia. rewrite Hl, Nat.sub_diag. reflexivity.
Qed.

Lemma noresp_idx phi uu d r t z c x : dec_sim phi uu d r -> rd_wait d = WTimeout t z -> sw_wait r = CWTimeout t c -> rd_noresp d = Some x ->
  nth_error (all_cats d) (S (length (rd_cats d))) = Some x /\ nth_error (sw_all_cats r) (S (length (rd_cats d))) = Some c.
Proof.
  intros Hs Hw Hc Hx. pose proof (Forall2_length' _ _ _ (ds_cats _ _ _ _ Hs)) as Hl. unfold all_cats, sw_all_cats.
  rewrite (ds_random _ _ _ _ Hs), Hx, Hc. split.
  - rewrite nth_error_app2 by lia. replace (S (length (rd_cats d)) - length (rd_cats d)) with 1 by lia. reflexivity.
  - rewrite nth_error_app2 by lia. replace (S (length (rd_cats d)) - length (sw_cats r)) with 1 by lia. reflexivity.
Qed.

(* the signatures of the two routers match, names the sheet does not fix being wildcards on the reference side *)
Lemma sig_match phi uu k d r : dec_sim phi uu d r -> smatch (router_sig (ref_router k d)) (router_sig (comp_router r)) = true.
Proof.
  intros Hs. unfold ref_router, comp_router, router_sig.
  apply smatch_list. constructor; [reflexivity|]. constructor; [rewrite (ds_operand _ _ _ _ Hs); apply smatch_refl|].
  constructor.
  { (* wait *)
    pose proof (ds_wait _ _ _ _ Hs) as Hw. unfold wait_sim in Hw. unfold ref_wait, comp_wait, wait_sig.
    destruct (rd_wait d) as [| |t z] eqn:Ew, (sw_wait r) as [| |t' c] eqn:Ec; try contradiction; try reflexivity.
    destruct Hw as (-> & x & Ex & Hx). rewrite Ex.
    destruct (noresp_idx _ _ _ _ _ _ _ _ Hs Ew Ec Ex) as [I1 I2].
    apply smatch_list. constructor; [reflexivity|]. constructor; [apply smatch_refl|]. constructor; [|constructor].
    eapply cat_name_match; eauto. }
  constructor; [rewrite (ds_result _ _ _ _ Hs); apply smatch_refl|].
  constructor.
  { (* cases *)
    apply smatch_list. apply Forall2_map2. apply Forall2_map2. pose proof (ds_cases _ _ _ _ Hs) as Hc.
    assert (G : forall i0 l l', Forall2 (case_sim (map cc_uuid (sw_all_cats r))) l l' ->
              Forall2 (fun (a : nat * (str * list (option str) * nat)) (b : ccase) =>
                         smatch (case_sig (ref_cats k (all_cats d)) (mkCase (kid k (fst a)) (fst (fst (snd a))) (snd (fst (snd a))) (cid k (snd (snd a)))))
                                (case_sig (map render_cat (sw_all_cats r)) (render_case b)) = true) (number_from i0 l) l').
    { intros i0 l l' H. revert i0. induction H as [|a b l l' Hab _ IH]; intros i0; cbn [number_from]; constructor; [|apply IH].
      destruct Hab as (E1 & E2 & E3). unfold case_sig, render_case. cbn [k_type k_args k_cat k_uuid fst snd]. rewrite <- E1, <- E2.
      apply smatch_list. constructor; [apply smatch_refl|]. constructor; [apply smatch_refl|]. constructor; [|constructor].
      rewrite nth_error_map in E3. destruct (nth_error (sw_all_cats r) (snd a)) as [c|] eqn:Ec; [|discriminate]. injection E3 as E3. rewrite <- E3.
      destruct (nth_error (all_cats d) (snd a)) as [x|] eqn:Ex.
      - eapply cat_name_match; eauto.
      - exfalso. apply nth_error_None in Ex. pose proof (Forall2_length' _ _ _ (all_sim _ _ _ _ Hs)).
        assert (snd a < length (sw_all_cats r)) by (apply nth_error_Some; congruence). lia. }
    apply G, Hc. }
  constructor; [|constructor].
  destruct (default_idx _ _ _ _ Hs) as [I1 I2]. eapply cat_name_match; eauto.
Qed.


(* ---------------------------------------------------------------- random splits *)
Definition ref_random k (d : rdec) : router := RRandom (ref_cats k (rd_cats d)) (rd_result d).
Definition comp_random (r : crandom) : router := RRandom (map render_cat (rr_cats r)) (render_result (rr_result r)).

Lemma to_node_rand k n d : rn_dec n = Some d -> rd_random d = true ->
  n_exits (to_node k n) = ref_exits k (rd_cats d) /\ n_router (to_node k n) = Some (ref_random k d).
Proof. intros H1 H2. unfold to_node. rewrite H1. cbn. unfold all_cats. rewrite H2. split; reflexivity. Qed.

Lemma render_rand nd r : cn_body nd = BRandom r ->
  n_exits (render_node nd) = map (fun c => render_exit (cc_exit c)) (rr_cats r) /\ n_router (render_node nd) = Some (comp_random r).
Proof. intros H. unfold render_node. rewrite H. split; reflexivity. Qed.

Lemma bucket_name_match phi uu ix c : bucket_sim phi uu ix c -> smatch (name_sexp (cname_str (fst (snd ix)))) (name_sexp (cc_name c)) = true.
Proof.
  intros [Hn _]. destruct (fst (snd ix)) as [s|]; cbn in *.
  - destruct Hn as [-> _]. apply smatch_refl.
  - reflexivity.
Qed.

Lemma rand_sig_match phi uu k d r : rand_sim phi uu d r -> smatch (router_sig (ref_random k d)) (router_sig (comp_random r)) = true.
Proof.
  intros [H1 H2 H3 H4]. unfold ref_random, comp_random, router_sig.
  apply smatch_list. constructor; [reflexivity|]. constructor; [rewrite H2; apply smatch_refl|]. constructor; [|constructor].
  apply smatch_list. unfold ref_cats. rewrite !map_map. cbn [c_name render_cat]. apply Forall2_map2.
  eapply Forall2_impl; [|exact H3]. intros ix c Hb. eapply bucket_name_match; eauto.
Qed.

(* ---------------------------------------------------------------- the two flows at the end of the run *)
Section Final.
Variable fresh : nat -> id.
Hypothesis fresh_inj : forall a b, fresh a = fresh b -> a = b.
Variable GP : id -> Prop.
Variables (phi : list (nat * option nat)) (sr : st) (sc : cstate).
Hypothesis Hsim : Sim phi sr sc.
Hypothesis Hst : StOK fresh GP sc.
Variables (nds : list cnode) (idxs : list nat) (F : flow).
Hypothesis HF : f_nodes F = map render_node nds.
Hypothesis Hidx : Forall2 (fun i nd => nth_error (cs_nodes sc) i = Some nd) idxs nds.
Hypothesis Hcover : forall i, i < length (cs_nodes sc) -> In i idxs.
Hypothesis Hnodup : NoDup (map cn_uuid nds).

(* the reference flow lists its nodes in sheet order *)
Variable ridxs : list nat.
Hypothesis Hrorder : node_order sr = ridxs.
Hypothesis Hrbound : forall k, In k ridxs -> k < length (s_nodes sr).
Hypothesis Hrcover : forall k, k < length (s_nodes sr) -> In k ridxs.
Hypothesis Hrnodup : NoDup ridxs.

Let R := to_flow sr.
Let N := length (s_nodes sr).

Lemma ref_nodes : Forall2 (fun k nd => exists n, nth_error (s_nodes sr) k = Some n /\ nd = to_node k n) ridxs (f_nodes R).
Proof.
  unfold R, to_flow. cbn [f_nodes]. rewrite Hrorder. clear Hrorder Hrcover Hrnodup.
  induction ridxs as [|k l IH]; cbn; [constructor|].
  assert (Hk : k < length (s_nodes sr)) by (apply Hrbound; left; reflexivity).
  destruct (nth_error (s_nodes sr) k) as [n|] eqn:E; [|apply nth_error_None in E; lia].
  cbn. constructor; [exists n; auto|]. apply IH. intros k0 H0. apply Hrbound. right. exact H0.
Qed.

Lemma ref_nth q k n : nth_error ridxs q = Some k -> nth_error (s_nodes sr) k = Some n -> nth_error (f_nodes R) q = Some (to_node k n).
Proof.
  intros Hq Hk. destruct (Forall2_nth _ _ _ _ _ ref_nodes Hq) as (nd & Hnd & n' & Hn' & ->). rewrite Hnd. congruence.
Qed.

Lemma ref_length : length (f_nodes R) = length ridxs.
Proof. symmetry. apply (Forall2_length' _ _ _ ref_nodes). Qed.

Lemma ref_uuids_nodup : NoDup (map (n_uuid : node -> str) (f_nodes R)).
Proof.
  assert (G : forall l l', Forall2 (fun k nd => exists n, nth_error (s_nodes sr) k = Some n /\ nd = to_node k n) l l' ->
                           map (n_uuid : node -> str) l' = map nid l).
  { intros l l' H. induction H as [|k nd l l' Hk _ IH]; cbn; [reflexivity|].
    destruct Hk as (n & _ & ->). rewrite to_node_uuid, IH. reflexivity. }
  rewrite (G _ _ ref_nodes). generalize Hrnodup. generalize ridxs. clear. intros l H. induction H as [|x l Hx _ IH]; cbn; [constructor|]. constructor; [|exact IH].
  intros Hin. apply in_map_iff in Hin as (y & E & Hy). apply nid_inj in E. subst y. contradiction.
Qed.

Lemma ref_node_index q k : nth_error ridxs q = Some k -> node_index R (nid k) = Some q.
Proof.
  intros Hq. destruct (Forall2_nth _ _ _ _ _ ref_nodes Hq) as (nd & Hnd & n & Hn & ->). unfold node_index.
  rewrite <- (to_node_uuid k n). apply (find_idx_key n_uuid (f_nodes R) q (to_node k n)); [|exact Hnd].
  exact ref_uuids_nodup.
Qed.

Lemma rpos_exists k : k < length (s_nodes sr) -> exists q, nth_error ridxs q = Some k.
Proof. intros H. apply In_nth_error, Hrcover, H. Qed.

Lemma pos_exists i : i < length (cs_nodes sc) -> exists p, nth_error idxs p = Some i.
Proof. intros H. apply In_nth_error, Hcover, H. Qed.

Lemma comp_nth p i x : nth_error idxs p = Some i -> nth_error (cs_nodes sc) i = Some x -> nth_error (f_nodes F) p = Some (render_node x).
Proof.
  intros Hp Hi. destruct (Forall2_nth _ _ _ _ _ Hidx Hp) as (y & Hy & Hiy). assert (y = x) by congruence. subst y.
  rewrite HF, nth_error_map, Hy. reflexivity.
Qed.

Lemma comp_node_index p i x : nth_error idxs p = Some i -> nth_error (cs_nodes sc) i = Some x -> node_index F (cn_uuid x) = Some p.
Proof.
  intros Hp Hi. pose proof (comp_nth p i x Hp Hi) as Hn. unfold node_index.
  rewrite <- (render_node_uuid x).
  apply (find_idx_key n_uuid (f_nodes F) p (render_node x)); [|exact Hn].
  rewrite HF, map_map. erewrite map_ext; [exact Hnodup|]. intros a. apply render_node_uuid.
Qed.

(* states of the reference flow against states of the compiled flow *)
Inductive Rel : state -> state -> Prop :=
| Rel_node k n c q p pc :
    nth_error (s_nodes sr) k = Some n -> nth_error phi k = Some c -> nth_error ridxs q = Some k -> nth_error idxs p = Some (fst c) ->
    pc <= length (rn_actions n) -> Rel (q, pc) (p, pc)
| Rel_router k n k1 j q p :
    nth_error (s_nodes sr) k = Some n -> nth_error phi k = Some (k1, Some j) -> nth_error ridxs q = Some k -> nth_error idxs p = Some j ->
    Rel (q, length (rn_actions n)) (p, 0)
| Rel_end : Rel (end_state R) (end_state F).

Lemma ref_in_range k c : nth_error phi k = Some c -> exists n, nth_error (s_nodes sr) k = Some n.
Proof.
  intros H. assert (k < length (s_nodes sr)) by (rewrite <- (sim_len _ _ _ Hsim); apply nth_error_Some; congruence).
  destruct (nth_error (s_nodes sr) k) as [n|] eqn:E; [eauto|apply nth_error_None in E; lia].
Qed.

(* related destinations lead to related states *)
Lemma dest_rel d d' : dest_sim phi (cuu sc) d d' -> Rel (dest_state R (dest_id d)) (dest_state F (render_dest d')).
Proof.
  destruct d as [| |k], d' as [u|]; cbn [dest_sim]; try contradiction.
  - intros _. apply Rel_end.
  - intros ->. cbn. try rewrite str_eqb_refl. apply Rel_end.
  - intros (Hne & c & Hc & Hu). cbn [dest_id render_dest].
    assert (Es : str_eqb u hard_exit_sentinel = false) by (apply str_eqb_neq; exact Hne). rewrite Es.
    destruct (ref_in_range k c Hc) as (n & Hn).
    unfold cuu in Hu. rewrite nth_error_map in Hu. destruct (nth_error (cs_nodes sc) (fst c)) as [x|] eqn:Ex; [|discriminate]. injection Hu as <-.
    destruct (pos_exists (fst c)) as (p & Hp); [apply nth_error_Some; congruence|].
    unfold dest_state. rewrite (comp_node_index p (fst c) x Hp Ex).
    destruct (rpos_exists k) as (q & Hq); [apply nth_error_Some; congruence|].
    rewrite (ref_node_index q k Hq).
    eapply Rel_node; eauto. lia.
Qed.

(* the cluster of a reference node, as nodes of the compiled flow *)
Lemma cluster_view k n c :
  nth_error (s_nodes sr) k = Some n -> nth_error phi k = Some c ->
  exists nd o, cluster_nodes (cs_nodes sc) c = Some (nd, o) /\ node_sim phi (cuu sc) n nd o.
Proof. intros H1 H2. exact (sim_nodes _ _ _ Hsim k n c H1 H2). Qed.

Lemma comp_actions_nth nd n pc : map snd (cn_actions nd) = rn_actions n ->
  match nth_error (rn_actions n) pc with
  | Some p => exists u, nth_error (cn_actions nd) pc = Some (u, p)
  | None => nth_error (cn_actions nd) pc = None
  end.
Proof.
  intros E. rewrite <- E, nth_error_map. destruct (nth_error (cn_actions nd) pc) as [[u p]|]; cbn; [eauto|reflexivity].
Qed.

(* the branches of two corresponding routers *)
Lemma cat_dest_rel k n (x : cnode) d r i a c :
  rn_dec n = Some d -> dec_sim phi (cuu sc) d r ->
  n_exits (to_node k n) = ref_exits k (all_cats d) ->
  NoDup (map cat_xid (sw_all_cats r)) ->
  nth_error (all_cats d) i = Some a -> nth_error (sw_all_cats r) i = Some c ->
  Rel (Flow.cat_dest R (to_node k n) (ref_cats k (all_cats d)) (cid k i))
      (Flow.cat_dest F (mkNode (cn_uuid x) (cn_actions x) (map (fun y => render_exit (cc_exit y)) (sw_all_cats r)) (Some (comp_router r)))
                (map render_cat (sw_all_cats r)) (cc_uuid c)).
Proof.
  intros Hdec Hs He Hx Ha Hc. unfold Flow.cat_dest.
  rewrite (ref_cat_find k _ i a Ha). cbn [c_exit]. rewrite He, (ref_exit_find k _ i a Ha). cbn [e_dest].
  rewrite (comp_cat_find _ i c (ds_uuids _ _ _ _ Hs) Hc). cbn [c_exit render_cat n_exits].
  change (x_uuid (cc_exit c)) with (cat_xid c). rewrite (comp_exit_find _ i c Hx Hc). cbn [e_dest render_exit].
  apply dest_rel. destruct (Forall2_nth _ _ _ _ _ (all_sim _ _ _ _ Hs) Ha) as (c' & Hc' & Hac). assert (c' = c) by congruence. subst c'.
  apply Hac.
Qed.

Lemma number_from_map {X Y} (f : X -> Y) l i0 : number_from i0 (map f l) = map (fun ix => (fst ix, f (snd ix))) (number_from i0 l).
Proof. revert i0. induction l as [|a r IH]; intros i0; cbn; [reflexivity|]. rewrite IH. reflexivity. Qed.

Lemma render_switch_eq x cls r : cn_body x = BSwitch cls r ->
  render_node x = mkNode (cn_uuid x) (cn_actions x) (map (fun y => render_exit (cc_exit y)) (sw_all_cats r)) (Some (comp_router r)).
Proof. intros H. unfold render_node. rewrite H. reflexivity. Qed.

Lemma branches_rel k n x cls d r :
  rn_dec n = Some d -> cn_body x = BSwitch cls r -> dec_sim phi (cuu sc) d r -> NoDup (map cat_xid (sw_all_cats r)) ->
  Forall2 (fun a b => fst a = fst b /\ Rel (snd a) (snd b))
          (router_branches R (to_node k n) (ref_router k d)) (router_branches F (render_node x) (comp_router r)).
Proof.
  intros Hdec Hb Hs Hx. rewrite (render_switch_eq x cls r Hb).
  destruct (to_node_dec k n d Hdec (ds_random _ _ _ _ Hs)) as [He _].
  set (ndc := mkNode (cn_uuid x) (cn_actions x) (map (fun y => render_exit (cc_exit y)) (sw_all_cats r)) (Some (comp_router r))).
  assert (Hcd : forall i a c, nth_error (all_cats d) i = Some a -> nth_error (sw_all_cats r) i = Some c ->
              Rel (Flow.cat_dest R (to_node k n) (ref_cats k (all_cats d)) (cid k i))
                  (Flow.cat_dest F ndc (map render_cat (sw_all_cats r)) (cc_uuid c))).
  { intros i a c Ha Hc. eapply cat_dest_rel; eauto. }
  clearbody ndc.
  unfold ref_router, comp_router, router_branches. apply Forall2_app; [|apply Forall2_app].
  - rewrite !number_from_map, !map_map. cbn [fst snd k_cat render_case].
    pose proof (ds_cases _ _ _ _ Hs) as Hc.
    assert (G : forall i0 j0 l l', Forall2 (case_sim (map cc_uuid (sw_all_cats r))) l l' ->
              Forall2 (fun a b => fst a = fst b /\ Rel (snd a) (snd b))
                (map (fun ik : nat * (nat * (str * list (option str) * nat)) =>
                        (b_case (fst ik), Flow.cat_dest R (to_node k n) (ref_cats k (all_cats d)) (cid k (snd (snd (snd ik)))))) (number_from i0 (number_from j0 l)))
                (map (fun ik : nat * ccase =>
                        (b_case (fst ik), Flow.cat_dest F ndc (map render_cat (sw_all_cats r)) (ck_cat (snd ik)))) (number_from i0 l'))).
    { intros i0 j0 l l' H. revert i0 j0. induction H as [|a b l l' Hab _ IH]; intros i0 j0; cbn [number_from map]; constructor; [|apply IH].
      cbn [fst snd]. split; [reflexivity|]. destruct Hab as (_ & _ & E3).
      rewrite nth_error_map in E3. destruct (nth_error (sw_all_cats r) (snd a)) as [c|] eqn:Ec; [|discriminate]. injection E3 as E3. rewrite <- E3.
      destruct (nth_error (all_cats d) (snd a)) as [y|] eqn:Ey.
      - eapply Hcd; eauto.
      - exfalso. apply nth_error_None in Ey. pose proof (Forall2_length' _ _ _ (all_sim _ _ _ _ Hs)).
        assert (snd a < length (sw_all_cats r)) by (apply nth_error_Some; congruence). lia. }
    apply G, Hc.
  - constructor; [|constructor]. cbn [fst snd]. split; [reflexivity|].
    destruct (default_idx _ _ _ _ Hs) as [I1 I2]. eapply Hcd; eauto.
  - pose proof (ds_wait _ _ _ _ Hs) as Hw. unfold wait_sim in Hw. unfold ref_wait, comp_wait.
    destruct (rd_wait d) as [| |t z] eqn:Ew, (sw_wait r) as [| |t' c] eqn:Ec; try contradiction; try (rewrite ?Hw; constructor).
    destruct Hw as (-> & y & Ey & Hy). rewrite Ey.
    destruct (noresp_idx _ _ _ _ _ _ _ _ Hs Ew Ec Ey) as [I1 I2].
    constructor; [|constructor]. cbn [fst snd]. split; [reflexivity|]. eapply Hcd; eauto.
Qed.

Lemma StOK_cat_xid k1 x cls r : nth_error (cs_nodes sc) k1 = Some x -> cn_body x = BSwitch cls r -> NoDup (map cat_xid (sw_all_cats r)).
Proof. intros H1 H2. destruct (StOK_switch fresh GP _ _ _ _ _ Hst H1 H2) as [[_ Hnd _] _ _]. exact Hnd. Qed.


Lemma rand_branches_rel k n x d r :
  rn_dec n = Some d -> cn_body x = BRandom r -> rand_sim phi (cuu sc) d r -> NoDup (map cat_xid (rr_cats r)) ->
  Forall2 (fun a b => fst a = fst b /\ Rel (snd a) (snd b))
          (router_branches R (to_node k n) (ref_random k d)) (router_branches F (render_node x) (comp_random r)).
Proof.
  intros Hdec Hb Hs Hx. destruct (to_node_rand k n d Hdec (rs_random _ _ _ _ Hs)) as [He _].
  destruct (render_rand x r Hb) as [Hce _].
  unfold ref_random, comp_random, router_branches.
  assert (G : forall i0 l l', Forall2 (fun (a : nat * category) (b : ccat) => Rel (Flow.cat_dest R (to_node k n) (ref_cats k (rd_cats d)) (c_uuid (snd a)))
                                                                    (Flow.cat_dest F (render_node x) (map render_cat (rr_cats r)) (cc_uuid b))) (number_from i0 l) l' ->
            Forall2 (fun a b => fst a = fst b /\ Rel (snd a) (snd b))
                    (map (fun ic : nat * category => (b_bucket (fst ic), Flow.cat_dest R (to_node k n) (ref_cats k (rd_cats d)) (c_uuid (snd ic)))) (number_from i0 l))
                    (map (fun ic : nat * category => (b_bucket (fst ic), Flow.cat_dest F (render_node x) (map render_cat (rr_cats r)) (c_uuid (snd ic)))) (number_from i0 (map render_cat l')))).
  { intros i0 l. revert i0. induction l as [|a l IH]; intros i0 l' H; cbn [number_from] in H; inversion H as [|? b ? l1 Hab Hl]; subst; cbn [number_from map]; constructor; [|apply IH, Hl].
    cbn [fst snd]. split; [reflexivity|exact Hab]. }
  apply G. unfold ref_cats. clear G.
  (* position by position *)
  pose proof (rs_cats _ _ _ _ Hs) as H3.
  assert (Hpos : forall i a c, nth_error (rd_cats d) i = Some a -> nth_error (rr_cats r) i = Some c ->
              Rel (Flow.cat_dest R (to_node k n) (ref_cats k (rd_cats d)) (cid k i)) (Flow.cat_dest F (render_node x) (map render_cat (rr_cats r)) (cc_uuid c))).
  { intros i a c Ha Hc. unfold Flow.cat_dest.
    rewrite (ref_cat_find k _ i a Ha). cbn [c_exit]. rewrite He, (ref_exit_find k _ i a Ha). cbn [e_dest].
    rewrite (comp_cat_find _ i c (rs_uuids _ _ _ _ Hs) Hc). cbn [c_exit render_cat]. rewrite Hce.
    change (x_uuid (cc_exit c)) with (cat_xid c). rewrite (comp_exit_find _ i c Hx Hc). cbn [e_dest render_exit].
    apply dest_rel. assert (Hn : nth_error (number_from 0 (rd_cats d)) i = Some (i, a)) by (rewrite number_from_nth, Ha; reflexivity).
    destruct (Forall2_nth _ _ _ _ _ H3 Hn) as (c' & Hc' & Hac). assert (c' = c) by congruence. subst c'. apply Hac. }
  assert (G2 : forall i0 (l : list (cname * dest)) l', (forall j a c, nth_error l j = Some a -> nth_error l' j = Some c ->
                   Rel (Flow.cat_dest R (to_node k n) (ref_cats k (rd_cats d)) (cid k (i0 + j))) (Flow.cat_dest F (render_node x) (map render_cat (rr_cats r)) (cc_uuid c))) ->
               length l = length l' ->
               Forall2 (fun (a : nat * category) (b : ccat) => Rel (Flow.cat_dest R (to_node k n) (ref_cats k (rd_cats d)) (c_uuid (snd a)))
                                                                    (Flow.cat_dest F (render_node x) (map render_cat (rr_cats r)) (cc_uuid b)))
                       (number_from i0 (map (fun ic : nat * (cname * dest) => mkCat (cid k (fst ic)) (cname_str (fst (snd ic))) (xid k (fst ic))) (number_from i0 l))) l').
  { intros i0 l. revert i0. induction l as [|a l IH]; intros i0 [|c l'] Hj Hlen; cbn in Hlen; try discriminate; cbn [number_from map]; constructor.
    - cbn [snd c_uuid fst]. specialize (Hj 0 a c eq_refl eq_refl). rewrite Nat.add_0_r in Hj. exact Hj.
    - apply IH; [|lia]. intros j a' c' Ha' Hc'. specialize (Hj (S j) a' c' Ha' Hc'). replace (S i0 + j) with (i0 + S j) by lia. exact Hj. }
  apply G2; [intros j a c Ha Hc; apply (Hpos j a c Ha Hc)|].
  rewrite <- (Forall2_length' _ _ _ H3). symmetry. clear. generalize 0. induction (rd_cats d) as [|a l IH]; intros i; cbn; [reflexivity|]. rewrite IH. reflexivity.
Qed.

Lemma StOK_rand_xid k1 x r : nth_error (cs_nodes sc) k1 = Some x -> cn_body x = BRandom r -> NoDup (map cat_xid (rr_cats r)).
Proof. intros H1 H2. destruct (StOK_random fresh GP _ _ _ _ Hst H1 H2) as [_ Hnd _]. exact Hnd. Qed.

(* ---------------------------------------------------------------- the weak simulations *)
Definition lmf (a b : sexp) : bool := smatch a b.
Definition lmb (a b : sexp) : bool := smatch b a.

Lemma branches_fwd bs bs' : Forall2 (fun a b => fst a = fst b /\ Rel (snd a) (snd b)) bs bs' ->
  Forall2 (fun (a b : sexp * state) => lmf (fst a) (fst b) = true /\ Rel (snd a) (snd b)) bs bs'.
Proof. intros H. eapply Forall2_impl; [|exact H]. intros a b [E Hr]. split; [unfold lmf; rewrite E; apply smatch_refl|exact Hr]. Qed.

Lemma branches_bwd bs bs' : Forall2 (fun a b => fst a = fst b /\ Rel (snd a) (snd b)) bs bs' ->
  Forall2 (fun (b a : sexp * state) => lmb (fst b) (fst a) = true /\ Rel (snd a) (snd b)) bs' bs.
Proof.
  intros H. induction H as [|a b l l' [E Hr] _ IH]; constructor; [|exact IH].
  split; [unfold lmb; rewrite E; apply smatch_refl|exact Hr].
Qed.

Lemma fwd_sim a b : Rel a b -> wsim_at sexp state state (lts_of_flow R) (lts_of_flow F) lmf Rel a b.
Proof.
  intros H. unfold wsim_at. destruct H as [k n c q p pc Hk Hc Hq Hp Hpc|k n k1 j q p Hk Hc Hq Hp|].
  - destruct (cluster_view k n c Hk Hc) as (nd & o & Hcl & Hns).
    assert (Hnd : nth_error (cs_nodes sc) (fst c) = Some nd).
    { unfold cluster_nodes in Hcl. destruct (nth_error (cs_nodes sc) (fst c)) as [y|]; [|discriminate].
      destruct (snd c) as [j|]; [destruct (nth_error (cs_nodes sc) j); [|discriminate]|]; injection Hcl as <- _; reflexivity. }
    pose proof (ref_nth q k n Hq Hk) as Hrn. pose proof (comp_nth p (fst c) nd Hp Hnd) as Hcn.
    assert (Hact : map snd (cn_actions nd) = rn_actions n) by (destruct Hns; assumption).
    pose proof (comp_actions_nth nd n pc Hact) as Hca.
    destruct (nth_error (rn_actions n) pc) as [pl|] eqn:Epl.
    + (* an action *)
      destruct Hca as (u & Hu).
      rewrite (lts_act R q (to_node k n) pc [5%N; N.of_nat k; N.of_nat pc] pl Hrn) by (rewrite ref_actions_nth, Epl; reflexivity).
      exists (p, pc), pl, (p, S pc). split; [apply taus_refl|]. split; [apply (lts_act F p _ pc u pl Hcn); rewrite render_node_actions; exact Hu|].
      split; [apply smatch_refl|]. eapply Rel_node; eauto. apply nth_error_Some. congruence.
    + (* past the actions *)
      assert (Epc : pc = length (rn_actions n)) by (apply nth_error_None in Epl; lia). subst pc.
      rewrite (lts_tail R q (to_node k n) _ Hrn) by (rewrite ref_actions_nth, Epl; reflexivity).
      assert (Hct : lts_of_flow F (p, length (rn_actions n)) = match n_router (render_node nd) with
                      | None => match n_exits (render_node nd) with [e] => KTau (dest_state F (e_dest e)) | _ => KBad end
                      | Some r => KDec (router_sig r) (router_branches F (render_node nd) r) end)
        by (apply (lts_tail F p _ _ Hcn); rewrite render_node_actions; exact Hca).
      destruct Hns as [n nd e Hdec Hb _ Hcont|n nd cls r d Hdec Hb _ Hds Hsh|n nd r d Hdec Hb _ Hrs|n nd e nr r d Hdec Hb _ Hdest Hnes Hbr Har Hds Hpl].
      * destruct (to_node_basic k n Hdec) as [E1 E2]. rewrite E1, E2. destruct (render_basic nd e Hb) as [E3 E4]. rewrite E3, E4 in Hct.
        exists (dest_state F (e_dest (render_exit e))). split; [eapply taus_step; [exact Hct|apply taus_refl]|]. cbn. apply dest_rel, Hcont.
      * destruct (to_node_dec k n d Hdec (ds_random _ _ _ _ Hds)) as [E1 E2]. rewrite E2.
        destruct (render_switch nd cls r Hb) as [E3 E4]. rewrite E4 in Hct.
        exists (p, length (rn_actions n)), (router_sig (comp_router r)), (router_branches F (render_node nd) (comp_router r)).
        split; [apply taus_refl|]. split; [exact Hct|]. split; [apply sig_match with (phi := phi) (uu := cuu sc); exact Hds|].
        apply branches_fwd. apply (branches_rel k n nd cls d r Hdec Hb Hds). eapply (StOK_cat_xid (fst c) nd cls r); eauto.
      * (* a random split *)
        destruct (to_node_rand k n d Hdec (rs_random _ _ _ _ Hrs)) as [E1 E2]. rewrite E2.
        destruct (render_rand nd r Hb) as [E3 E4]. rewrite E4 in Hct.
        exists (p, length (rn_actions n)), (router_sig (comp_random r)), (router_branches F (render_node nd) (comp_random r)).
        split; [apply taus_refl|]. split; [exact Hct|]. split; [apply rand_sig_match with (phi := phi) (uu := cuu sc); exact Hrs|].
        apply branches_fwd. apply (rand_branches_rel k n nd d r Hdec Hb Hrs). eapply (StOK_rand_xid (fst c) nd r); eauto.
      * (* the implicit router: one silent step on the compiled side *)
        destruct (to_node_dec k n d Hdec (ds_random _ _ _ _ Hds)) as [E1 E2]. rewrite E2.
        destruct (render_basic nd e Hb) as [E3 E4]. rewrite E3, E4 in Hct.
        unfold cluster_nodes in Hcl. rewrite Hnd in Hcl. destruct (snd c) as [j|] eqn:Ej; [|discriminate].
        destruct (nth_error (cs_nodes sc) j) as [nr'|] eqn:Enr; [|discriminate]. injection Hcl as ->.
        destruct (pos_exists j) as (pj & Hpj); [apply nth_error_Some; congruence|].
        pose proof (comp_nth pj j nr Hpj Enr) as Hcnr.
        assert (Hd1 : dest_state F (e_dest (render_exit e)) = (pj, 0)).
        { cbn. rewrite Hdest. cbn. rewrite (str_eqb_neq _ _ Hnes). unfold dest_state. rewrite (comp_node_index pj j nr Hpj Enr). reflexivity. }
        destruct (render_switch nr SPlain r Hbr) as [E5 E6].
        assert (Hct2 : lts_of_flow F (pj, 0) = KDec (router_sig (comp_router r)) (router_branches F (render_node nr) (comp_router r))).
        { rewrite (lts_tail F pj _ 0 Hcnr) by (rewrite render_node_actions, Har; reflexivity). rewrite E6. reflexivity. }
        exists (pj, 0), (router_sig (comp_router r)), (router_branches F (render_node nr) (comp_router r)).
        split; [eapply taus_step; [exact Hct|rewrite Hd1; apply taus_refl]|]. split; [exact Hct2|].
        split; [apply sig_match with (phi := phi) (uu := cuu sc); exact Hds|].
        apply branches_fwd. apply (branches_rel k n nr SPlain d r Hdec Hbr Hds). eapply (StOK_cat_xid j nr SPlain r); eauto.
  - (* reference at its decision, compiled flow already at the implicit router *)
    destruct (cluster_view k n _ Hk Hc) as (nd & o & Hcl & Hns).
    unfold cluster_nodes in Hcl. cbn in Hcl. destruct (nth_error (cs_nodes sc) k1) as [y|] eqn:Ey; [|discriminate].
    destruct (nth_error (cs_nodes sc) j) as [nr|] eqn:Enr; [|discriminate]. injection Hcl as <- <-.
    inversion Hns as [| | |? ? e nr0 r d Hdec Hb _ Hdest Hnes Hbr Har Hds Hpl]; subst.
    pose proof (ref_nth q k n Hq Hk) as Hrn. pose proof (comp_nth p j nr Hp Enr) as Hcnr.
    rewrite (lts_tail R q (to_node k n) _ Hrn) by (rewrite ref_actions_nth; assert (E : nth_error (rn_actions n) (length (rn_actions n)) = None) by (apply nth_error_None; lia); rewrite E; reflexivity).
    destruct (to_node_dec k n d Hdec (ds_random _ _ _ _ Hds)) as [E1 E2]. rewrite E2.
    destruct (render_switch nr SPlain r Hbr) as [E5 E6].
    exists (p, 0), (router_sig (comp_router r)), (router_branches F (render_node nr) (comp_router r)).
    split; [apply taus_refl|]. split.
    + rewrite (lts_tail F p _ 0 Hcnr) by (rewrite render_node_actions, Har; reflexivity). rewrite E6. reflexivity.
    + split; [apply sig_match with (phi := phi) (uu := cuu sc); exact Hds|].
      apply branches_fwd. apply (branches_rel k n nr SPlain d r Hdec Hbr Hds). eapply (StOK_cat_xid j nr SPlain r); eauto.
  - unfold R. rewrite lts_end. exists (end_state F). split; [apply taus_refl|apply lts_end].
Qed.

Lemma bwd_sim b a : Rel a b -> wsim_at sexp state state (lts_of_flow F) (lts_of_flow R) lmb (fun b' a' => Rel a' b') b a.
Proof.
  intros H. unfold wsim_at. destruct H as [k n c q p pc Hk Hc Hq Hp Hpc|k n k1 j q p Hk Hc Hq Hp|].
  - destruct (cluster_view k n c Hk Hc) as (nd & o & Hcl & Hns).
    assert (Hnd : nth_error (cs_nodes sc) (fst c) = Some nd).
    { unfold cluster_nodes in Hcl. destruct (nth_error (cs_nodes sc) (fst c)) as [y|]; [|discriminate].
      destruct (snd c) as [j|]; [destruct (nth_error (cs_nodes sc) j); [|discriminate]|]; injection Hcl as <- _; reflexivity. }
    pose proof (ref_nth q k n Hq Hk) as Hrn. pose proof (comp_nth p (fst c) nd Hp Hnd) as Hcn.
    assert (Hact : map snd (cn_actions nd) = rn_actions n) by (destruct Hns; assumption).
    pose proof (comp_actions_nth nd n pc Hact) as Hca.
    destruct (nth_error (rn_actions n) pc) as [pl|] eqn:Epl.
    + destruct Hca as (u & Hu).
      rewrite (lts_act F p _ pc u pl Hcn) by (rewrite render_node_actions; exact Hu).
      exists (q, pc), pl, (q, S pc). split; [apply taus_refl|].
      split; [apply (lts_act R q (to_node k n) pc [5%N; N.of_nat k; N.of_nat pc] pl Hrn); rewrite ref_actions_nth, Epl; reflexivity|].
      split; [apply smatch_refl|]. eapply Rel_node; eauto. apply nth_error_Some. congruence.
    + assert (Epc : pc = length (rn_actions n)) by (apply nth_error_None in Epl; lia). subst pc.
      rewrite (lts_tail F p _ _ Hcn) by (rewrite render_node_actions; exact Hca).
      assert (Hrt : lts_of_flow R (q, length (rn_actions n)) = match n_router (to_node k n) with
                      | None => match n_exits (to_node k n) with [e] => KTau (dest_state R (e_dest e)) | _ => KBad end
                      | Some r => KDec (router_sig r) (router_branches R (to_node k n) r) end)
        by (apply (lts_tail R q _ _ Hrn); rewrite ref_actions_nth, Epl; reflexivity).
      destruct Hns as [n nd e Hdec Hb _ Hcont|n nd cls r d Hdec Hb _ Hds Hsh|n nd r d Hdec Hb _ Hrs|n nd e nr r d Hdec Hb _ Hdest Hnes Hbr Har Hds Hpl].
      * destruct (to_node_basic k n Hdec) as [E1 E2]. rewrite E1, E2 in Hrt. destruct (render_basic nd e Hb) as [E3 E4]. rewrite E3, E4.
        exists (dest_state R (dest_id (rn_cont n))). split; [eapply taus_step; [exact Hrt|apply taus_refl]|]. cbn. apply dest_rel, Hcont.
      * destruct (to_node_dec k n d Hdec (ds_random _ _ _ _ Hds)) as [E1 E2]. rewrite E2 in Hrt.
        destruct (render_switch nd cls r Hb) as [E3 E4]. rewrite E4.
        exists (q, length (rn_actions n)), (router_sig (ref_router k d)), (router_branches R (to_node k n) (ref_router k d)).
        split; [apply taus_refl|]. split; [exact Hrt|]. split; [unfold lmb; apply sig_match with (phi := phi) (uu := cuu sc); exact Hds|].
        apply branches_bwd. apply (branches_rel k n nd cls d r Hdec Hb Hds). eapply (StOK_cat_xid (fst c) nd cls r); eauto.
      * destruct (to_node_rand k n d Hdec (rs_random _ _ _ _ Hrs)) as [E1 E2]. rewrite E2 in Hrt.
        destruct (render_rand nd r Hb) as [E3 E4]. rewrite E4.
        exists (q, length (rn_actions n)), (router_sig (ref_random k d)), (router_branches R (to_node k n) (ref_random k d)).
        split; [apply taus_refl|]. split; [exact Hrt|]. split; [unfold lmb; apply rand_sig_match with (phi := phi) (uu := cuu sc); exact Hrs|].
        apply branches_bwd. apply (rand_branches_rel k n nd d r Hdec Hb Hrs). eapply (StOK_rand_xid (fst c) nd r); eauto.
      * destruct (render_basic nd e Hb) as [E3 E4]. rewrite E3, E4.
        unfold cluster_nodes in Hcl. rewrite Hnd in Hcl. destruct (snd c) as [j|] eqn:Ej; [|discriminate].
        destruct (nth_error (cs_nodes sc) j) as [nr'|] eqn:Enr; [|discriminate]. injection Hcl as ->.
        destruct (pos_exists j) as (pj & Hpj); [apply nth_error_Some; congruence|].
        assert (Hd1 : dest_state F (e_dest (render_exit e)) = (pj, 0)).
        { cbn. rewrite Hdest. cbn. rewrite (str_eqb_neq _ _ Hnes). unfold dest_state. rewrite (comp_node_index pj j nr Hpj Enr). reflexivity. }
        exists (q, length (rn_actions n)). split; [apply taus_refl|]. rewrite Hd1.
        eapply (Rel_router k n (fst c) j q pj); eauto. rewrite Hc. destruct c as [c1 c2]. cbn in Ej. subst c2. reflexivity.
  - destruct (cluster_view k n _ Hk Hc) as (nd & o & Hcl & Hns).
    unfold cluster_nodes in Hcl. cbn in Hcl. destruct (nth_error (cs_nodes sc) k1) as [y|] eqn:Ey; [|discriminate].
    destruct (nth_error (cs_nodes sc) j) as [nr|] eqn:Enr; [|discriminate]. injection Hcl as <- <-.
    inversion Hns as [| | |? ? e nr0 r d Hdec Hb _ Hdest Hnes Hbr Har Hds Hpl]; subst.
    pose proof (ref_nth q k n Hq Hk) as Hrn. pose proof (comp_nth p j nr Hp Enr) as Hcnr.
    rewrite (lts_tail F p _ 0 Hcnr) by (rewrite render_node_actions, Har; reflexivity).
    destruct (render_switch nr SPlain r Hbr) as [E5 E6]. rewrite E6.
    destruct (to_node_dec k n d Hdec (ds_random _ _ _ _ Hds)) as [E1 E2].
    exists (q, length (rn_actions n)), (router_sig (ref_router k d)), (router_branches R (to_node k n) (ref_router k d)).
    split; [apply taus_refl|]. split.
    + rewrite (lts_tail R q (to_node k n) _ Hrn) by (rewrite ref_actions_nth; assert (E : nth_error (rn_actions n) (length (rn_actions n)) = None) by (apply nth_error_None; lia); rewrite E; reflexivity).
      rewrite E2. reflexivity.
    + split; [unfold lmb; apply sig_match with (phi := phi) (uu := cuu sc); exact Hds|].
      apply branches_bwd. apply (branches_rel k n nr SPlain d r Hdec Hbr Hds). eapply (StOK_cat_xid j nr SPlain r); eauto.
  - rewrite lts_end. exists (end_state R). split; [apply taus_refl|apply lts_end].
Qed.

(* the two flows have the same traces from related states, labels matched up to the names the sheet leaves open *)
Theorem rel_traces a b : Rel a b ->
  (forall t, exec sexp (lts_of_flow R) a t -> exists t', exec sexp (lts_of_flow F) b t' /\ Forall2 (ematch sexp lmf) t t')
  /\ (forall t, exec sexp (lts_of_flow F) b t -> exists t', exec sexp (lts_of_flow R) a t' /\ Forall2 (ematch sexp lmb) t t').
Proof.
  intros H. split; intros t Ht.
  - eapply (wsim_traces sexp state state (lts_of_flow R) (lts_of_flow F) lmf Rel fwd_sim); eauto.
  - eapply (wsim_traces sexp state state (lts_of_flow F) (lts_of_flow R) lmb (fun b' a' => Rel a' b') bwd_sim); eauto.
Qed.
End Final.
End WithNames.
