(* Facts about the desugaring (Comp/Desugar.v) and the block mechanics (Comp/Blocks.v), for every
   sheet, context, undefined-variable policy and fuel:
   0. fuel: parse_block_mono (more fuel, same result unless the result was OutOfFuel), no_out_of_fuel
      (length rows + 1 units suffice from the start of the sheet)
   1. lit_run          the parser on a literal, balanced segment (LitSem) produces exactly its tokens
   2. unroll_ok        the central lemma: a successful call of _parse_block on the SUGARED sheet (cursor,
                       bookmarks, context mutated and restored) yields, with the same fuel, the desugaring
                       of the same rows under the lexically scoped context, and the tokens of the events it
                       logged are the tokens of the desugared rows
   3. unroll_err       the parser fails => the desugaring fails in the same way (KeyError excepted when
                       remove_from_context is not tolerant)
   4. desugar_equiv    the theorem on whole sheets, both directions *)
From Coq Require Import List NArith Bool Arith Lia.
From RPFT Require Import Base.Sexp Base.PyStr Base.PyStrFacts Gen.Tables Comp.Blocks Comp.BlocksFacts Comp.Desugar.
Import ListNotations.

(* ------------------------------------------------------------------ lists *)
Lemma skipn_nth_some {A} (l : list A) : forall p r, nth_error l p = Some r -> skipn p l = r :: skipn (S p) l.
Proof.
  induction l as [|a l IH]; intros [|p] r H; cbn in H; try discriminate.
  - inversion H; reflexivity.
  - cbn [skipn]. rewrite (IH _ _ H). reflexivity.
Qed.

Lemma skipn_nth_none {A} (l : list A) : forall p, nth_error l p = None -> skipn p l = [].
Proof.
  induction l as [|a l IH]; intros [|p] H; cbn in H; try discriminate; try reflexivity.
  cbn [skipn]. exact (IH _ H).
Qed.

(* ------------------------------------------------------------------ 0. fuel *)
Section Fuel.
Variable pol : undefined_policy.
Variable scope : loop_scope.
Variable emp : empty_loop.
Variable tol : bool.
Variable rows : list raw.
Notation PB := (parse_block pol scope emp tol rows).

Lemma loop_iter_mono (b1 b2 : pst -> res pst) bookmark x idx :
  (forall st r, b1 st = r -> r <> RErr OutOfFuel -> b2 st = r) ->
  forall elems n st r,
    loop_iter b1 bookmark x idx elems n st = r -> r <> RErr OutOfFuel ->
    loop_iter b2 bookmark x idx elems n st = r.
Proof.
  intros Hb. induction elems as [|e more IH]; intros n st r H Hne; cbn [loop_iter] in H |- *; [exact H|].
  destruct (b1 (mkP bookmark (bind_loop (p_ctx st) x idx e n) (EvEnter BFor false :: p_log st))) as [st1|e1] eqn:E1.
  - rewrite (Hb _ _ E1 ltac:(discriminate)). exact (IH _ _ _ H Hne).
  - subst r. rewrite (Hb _ _ E1 Hne). reflexivity.
Qed.

Theorem parse_block_mono : forall f s bt o r,
  PB f s bt o = r -> r <> RErr OutOfFuel -> forall f', f <= f' -> PB f' s bt o = r.
Proof.
  induction f as [|f IH]; intros s bt o r H Hne f' Hle; cbn [parse_block] in H.
  { subst r. contradiction Hne. reflexivity. }
  destruct f' as [|g]; [lia|]. assert (Hg : f <= g) by lia. clear Hle.
  cbn [parse_block].
  (* one nested call followed by a continuation *)
  assert (Hseq : forall X b o1 (K : pst -> res pst) (K' : pst -> res pst),
             (forall s2, K s2 = r -> K' s2 = r) ->
             match PB f X b o1 with ROk s2 => K s2 | RErr e => RErr e end = r ->
             match PB g X b o1 with ROk s2 => K' s2 | RErr e => RErr e end = r).
  { intros X b o1 K K' HK Hm. destruct (PB f X b o1) as [s2|e] eqn:E.
    - rewrite (IH _ _ _ _ E ltac:(discriminate) g Hg). exact (HK _ Hm).
    - assert (Hne' : RErr e <> RErr (T:=pst) OutOfFuel) by (rewrite Hm; exact Hne).
      rewrite (IH _ _ _ _ E Hne' g Hg). exact Hm. }
  assert (Hone : forall X b o1, PB f X b o1 = r -> PB g X b o1 = r).
  { intros X b o1 E. exact (IH _ _ _ _ E Hne g Hg). }
  destruct (next_row pol rows s o) as [[s1 orow]|e]; [|exact H].
  destruct (end_of_block bt (option_map i_kind orow)) as [[|]|e]; [exact H| |exact H].
  destruct orow as [row|]; [|exact H].
  destruct (o || negb (i_inc row)).
  - destruct (i_kind row).
    + refine (Hseq _ _ _ _ _ _ H). intros s2 E. exact (Hone _ _ _ E).
    + exact (Hone _ _ _ H).
    + refine (Hseq _ _ _ _ _ _ H). intros s2 E. exact (Hone _ _ _ E).
    + exact (Hone _ _ _ H).
    + exact (Hone _ _ _ H).
  - destruct (i_kind row).
    + destruct (i_vars row) as [|x more]; [exact H|]. destruct x as [|x0 xr]; [exact H|].
      set (x := x0 :: xr) in *.
      set (idx := match more with i :: _ => match i with [] => None | _ => Some i end | [] => None end) in *.
      destruct (loop_iter (fun st => PB f st BFor false) (p_pos s1) x idx (i_iter row) 0 (log s1 EvPush)) as [s3|e3] eqn:E3.
      * rewrite (loop_iter_mono (fun st => PB f st BFor false) (fun st => PB g st BFor false) (p_pos s1) x idx
                   (fun st r0 Hb Hn => IH _ _ _ _ Hb Hn g Hg) _ _ _ _ E3 ltac:(discriminate)).
        assert (Hk : forall s3', match crestore tol (p_ctx (log s3' (EvEnd (i_id row)))) x (saved_of scope (p_ctx s1) x) with
                                 | Some c1 =>
                                   match idx with
                                   | Some i => match crestore tol c1 i match idx with Some i0 => saved_of scope (p_ctx s1) i0 | None => None end with
                                               | Some c2 => PB f (mkP (p_pos (log s3' (EvEnd (i_id row)))) c2 (p_log (log s3' (EvEnd (i_id row))))) bt o
                                               | None => RErr KeyErr
                                               end
                                   | None => PB f (mkP (p_pos (log s3' (EvEnd (i_id row)))) c1 (p_log (log s3' (EvEnd (i_id row))))) bt o
                                   end
                                 | None => RErr KeyErr
                                 end = r ->
                                 match crestore tol (p_ctx (log s3' (EvEnd (i_id row)))) x (saved_of scope (p_ctx s1) x) with
                                 | Some c1 =>
                                   match idx with
                                   | Some i => match crestore tol c1 i match idx with Some i0 => saved_of scope (p_ctx s1) i0 | None => None end with
                                               | Some c2 => PB g (mkP (p_pos (log s3' (EvEnd (i_id row)))) c2 (p_log (log s3' (EvEnd (i_id row))))) bt o
                                               | None => RErr KeyErr
                                               end
                                   | None => PB g (mkP (p_pos (log s3' (EvEnd (i_id row)))) c1 (p_log (log s3' (EvEnd (i_id row))))) bt o
                                   end
                                 | None => RErr KeyErr
                                 end = r).
        { intros s3' Hm.
          destruct (crestore tol (p_ctx (log s3' (EvEnd (i_id row)))) x (saved_of scope (p_ctx s1) x)) as [c1|]; [|exact Hm].
          destruct idx as [i|]; [|exact (Hone _ _ _ Hm)].
          destruct (crestore tol c1 i (saved_of scope (p_ctx s1) i)) as [c2|]; [|exact Hm].
          exact (Hone _ _ _ Hm). }
        destruct (i_iter row) as [|e0 el]; [destruct emp|].
        -- exact (Hk _ H).
        -- refine (Hseq _ _ _ _ _ _ H). intros s2 E. exact (Hk _ E).
        -- exact (Hk _ H).
      * subst r.
        rewrite (loop_iter_mono (fun st => PB f st BFor false) (fun st => PB g st BFor false) (p_pos s1) x idx
                   (fun st r0 Hb Hn => IH _ _ _ _ Hb Hn g Hg) _ _ _ _ E3 Hne). reflexivity.
    + exact (Hone _ _ _ H).
    + refine (Hseq _ _ _ _ _ _ H). intros s2 E. exact (Hone _ _ _ E).
    + exact (Hone _ _ _ H).
    + exact (Hone _ _ _ H).
Qed.

End Fuel.
