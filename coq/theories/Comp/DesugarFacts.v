(* Facts about the desugaring (Comp/Desugar.v) and the block mechanics (Comp/Blocks.v), for every
   sheet, context, undefined-variable policy and fuel:
   0. fuel: parse_block_mono (more fuel, same result unless the result was OutOfFuel), no_out_of_fuel
      (length rows + 1 units suffice from the start of the sheet)
   1. lit_run          the parser on a literal, balanced segment (LitSem) produces exactly its tokens
   2. unroll_ok        the central lemma: a successful call of _parse_block on the SUGARED sheet (cursor,
                       bookmarks, context mutated and restored) yields, with the same fuel, the desugaring
                       of the same rows under the lexically scoped context, and the tokens of the events it
                       logged are the tokens of the desugared rows
   3. unroll_err       the parser fails => the desugaring fails in the same way (KeyError excepted when
                       remove_from_context is not tolerant)
   4. desugar_equiv    the theorem on whole sheets, both directions *)
From Coq Require Import List NArith Bool Arith Lia.
From RPFT Require Import Base.Sexp Base.PyStr Base.PyStrFacts Gen.Tables Comp.Blocks Comp.BlocksFacts Comp.Desugar.
Import ListNotations.

(* ------------------------------------------------------------------ lists *)
Lemma skipn_nth_some {A} (l : list A) : forall p r, nth_error l p = Some r -> skipn p l = r :: skipn (S p) l.
Proof.
  induction l as [|a l IH]; intros [|p] r H; cbn in H; try discriminate.
  - inversion H; reflexivity.
  - cbn [skipn]. rewrite (IH _ _ H). reflexivity.
Qed.

Lemma skipn_nth_none {A} (l : list A) : forall p, nth_error l p = None -> skipn p l = [].
Proof.
  induction l as [|a l IH]; intros [|p] H; cbn in H; try discriminate; try reflexivity.
  cbn [skipn]. exact (IH _ H).
Qed.

(* ------------------------------------------------------------------ 0. fuel *)
Section Fuel.
Variable pol : undefined_policy.
Variable scope : loop_scope.
Variable emp : empty_loop.
Variable tol : bool.
Variable rows : list raw.
Notation PB := (parse_block pol scope emp tol rows).

Lemma loop_iter_mono (b1 b2 : pst -> res pst) bookmark x idx :
  (forall st r, b1 st = r -> r <> RErr OutOfFuel -> b2 st = r) ->
  forall elems n st r,
    loop_iter b1 bookmark x idx elems n st = r -> r <> RErr OutOfFuel ->
    loop_iter b2 bookmark x idx elems n st = r.
Proof.
  intros Hb. induction elems as [|e more IH]; intros n st r H Hne; cbn [loop_iter] in H |- *; [exact H|].
  destruct (b1 (mkP bookmark (bind_loop (p_ctx st) x idx e n) (EvEnter BFor false :: p_log st))) as [st1|e1] eqn:E1.
  - rewrite (Hb _ _ E1 ltac:(discriminate)). exact (IH _ _ _ H Hne).
  - subst r. rewrite (Hb _ _ E1 Hne). reflexivity.
Qed.

Theorem parse_block_mono : forall f s bt o r,
  PB f s bt o = r -> r <> RErr OutOfFuel -> forall f', f <= f' -> PB f' s bt o = r.
Proof.
  induction f as [|f IH]; intros s bt o r H Hne f' Hle; cbn [parse_block] in H.
  { subst r. contradiction Hne. reflexivity. }
  destruct f' as [|g]; [lia|]. assert (Hg : f <= g) by lia. clear Hle.
  cbn [parse_block].
  (* one nested call followed by a continuation *)
  assert (Hseq : forall X b o1 (K : pst -> res pst) (K' : pst -> res pst),
             (forall s2, K s2 = r -> K' s2 = r) ->
             match PB f X b o1 with ROk s2 => K s2 | RErr e => RErr e end = r ->
             match PB g X b o1 with ROk s2 => K' s2 | RErr e => RErr e end = r).
  { intros X b o1 K K' HK Hm. destruct (PB f X b o1) as [s2|e] eqn:E.
    - rewrite (IH _ _ _ _ E ltac:(discriminate) g Hg). exact (HK _ Hm).
    - assert (Hne' : RErr e <> RErr (T:=pst) OutOfFuel) by (rewrite Hm; exact Hne).
      rewrite (IH _ _ _ _ E Hne' g Hg). exact Hm. }
  assert (Hone : forall X b o1, PB f X b o1 = r -> PB g X b o1 = r).
  { intros X b o1 E. exact (IH _ _ _ _ E Hne g Hg). }
  destruct (next_row pol rows s o) as [[s1 orow]|e]; [|exact H].
  destruct (end_of_block bt (option_map i_kind orow)) as [[|]|e]; [exact H| |exact H].
  destruct orow as [row|]; [|exact H].
  destruct (o || negb (i_inc row)).
  - destruct (i_kind row).
    + refine (Hseq _ _ _ _ _ _ H). intros s2 E. exact (Hone _ _ _ E).
    + exact (Hone _ _ _ H).
    + refine (Hseq _ _ _ _ _ _ H). intros s2 E. exact (Hone _ _ _ E).
    + exact (Hone _ _ _ H).
    + exact (Hone _ _ _ H).
  - destruct (i_kind row).
    + destruct (i_vars row) as [|x more]; [exact H|]. destruct x as [|x0 xr]; [exact H|].
      set (x := x0 :: xr) in *.
      set (idx := match more with i :: _ => match i with [] => None | _ => Some i end | [] => None end) in *.
      destruct (loop_iter (fun st => PB f st BFor false) (p_pos s1) x idx (i_iter row) 0 (log s1 EvPush)) as [s3|e3] eqn:E3.
      * rewrite (loop_iter_mono (fun st => PB f st BFor false) (fun st => PB g st BFor false) (p_pos s1) x idx
                   (fun st r0 Hb Hn => IH _ _ _ _ Hb Hn g Hg) _ _ _ _ E3 ltac:(discriminate)).
        assert (Hk : forall s3', match crestore tol (p_ctx (log s3' (EvEnd (i_id row)))) x (saved_of scope (p_ctx s1) x) with
                                 | Some c1 =>
                                   match idx with
                                   | Some i => match crestore tol c1 i match idx with Some i0 => saved_of scope (p_ctx s1) i0 | None => None end with
                                               | Some c2 => PB f (mkP (p_pos (log s3' (EvEnd (i_id row)))) c2 (p_log (log s3' (EvEnd (i_id row))))) bt o
                                               | None => RErr KeyErr
                                               end
                                   | None => PB f (mkP (p_pos (log s3' (EvEnd (i_id row)))) c1 (p_log (log s3' (EvEnd (i_id row))))) bt o
                                   end
                                 | None => RErr KeyErr
                                 end = r ->
                                 match crestore tol (p_ctx (log s3' (EvEnd (i_id row)))) x (saved_of scope (p_ctx s1) x) with
                                 | Some c1 =>
                                   match idx with
                                   | Some i => match crestore tol c1 i match idx with Some i0 => saved_of scope (p_ctx s1) i0 | None => None end with
                                               | Some c2 => PB g (mkP (p_pos (log s3' (EvEnd (i_id row)))) c2 (p_log (log s3' (EvEnd (i_id row))))) bt o
                                               | None => RErr KeyErr
                                               end
                                   | None => PB g (mkP (p_pos (log s3' (EvEnd (i_id row)))) c1 (p_log (log s3' (EvEnd (i_id row))))) bt o
                                   end
                                 | None => RErr KeyErr
                                 end = r).
        { intros s3' Hm.
          destruct (crestore tol (p_ctx (log s3' (EvEnd (i_id row)))) x (saved_of scope (p_ctx s1) x)) as [c1|]; [|exact Hm].
          destruct idx as [i|]; [|exact (Hone _ _ _ Hm)].
          destruct (crestore tol c1 i (saved_of scope (p_ctx s1) i)) as [c2|]; [|exact Hm].
          exact (Hone _ _ _ Hm). }
        destruct (i_iter row) as [|e0 el]; [destruct emp|].
        -- exact (Hk _ H).
        -- refine (Hseq _ _ _ _ _ _ H). intros s2 E. exact (Hk _ E).
        -- exact (Hk _ H).
      * subst r.
        rewrite (loop_iter_mono (fun st => PB f st BFor false) (fun st => PB g st BFor false) (p_pos s1) x idx
                   (fun st r0 Hb Hn => IH _ _ _ _ Hb Hn g Hg) _ _ _ _ E3 Hne). reflexivity.
    + exact (Hone _ _ _ H).
    + refine (Hseq _ _ _ _ _ _ H). intros s2 E. exact (Hone _ _ _ E).
    + exact (Hone _ _ _ H).
    + exact (Hone _ _ _ H).
Qed.

(* the cursor only moves forward *)
Lemma next_row_cases s o s1 orow :
  next_row pol rows s o = ROk (s1, orow) ->
  (orow = None /\ s1 = s /\ nth_error rows (p_pos s) = None)
  \/ (exists r row, orow = Some row /\ nth_error rows (p_pos s) = Some r /\ p_pos s1 = S (p_pos s)).
Proof.
  unfold next_row. destruct (nth_error rows (p_pos s)) as [r|] eqn:En.
  - destruct o.
    + intros H. inversion H; subst. right. exists r. eexists. repeat split.
    + destruct (instantiate pol (p_ctx s) r) as [i|e]; intros H; inversion H; subst.
      right. exists r, i. repeat split.
  - intros H. inversion H; subst. left. repeat split.
Qed.

Lemma loop_iter_pos (body : pst -> res pst) bookmark x idx :
  (forall st st', body st = ROk st' -> p_pos st <= p_pos st') ->
  forall elems n st st', loop_iter body bookmark x idx elems n st = ROk st' ->
    p_pos st' = p_pos st \/ bookmark <= p_pos st'.
Proof.
  intros Hb. induction elems as [|e more IH]; intros n st st' H; cbn [loop_iter] in H.
  - inversion H; subst. left. reflexivity.
  - destruct (body (mkP bookmark (bind_loop (p_ctx st) x idx e n) (EvEnter BFor false :: p_log st))) as [st1|] eqn:E1; [|discriminate].
    apply Hb in E1. cbn [p_pos] in E1. right. destruct (IH _ _ _ H) as [Hp|Hp]; lia.
Qed.

Theorem pos_mono : forall f s bt o s', PB f s bt o = ROk s' -> p_pos s <= p_pos s'.
Proof.
  induction f as [|f IH]; intros s bt o s' H; cbn [parse_block] in H; [discriminate|].
  destruct (next_row pol rows s o) as [[s1 orow]|] eqn:En; [|discriminate].
  assert (H1 : p_pos s <= p_pos s1).
  { destruct (next_row_cases _ _ _ _ En) as [[_ [-> _]]|[r [row [_ [_ Hp]]]]]; lia. }
  destruct (end_of_block bt (option_map i_kind orow)) as [[|]|]; [inversion H; subst; exact H1| |discriminate].
  destruct orow as [row|]; [|discriminate].
  assert (Hseq : forall X b o1 (K : pst -> res pst),
             p_pos s <= p_pos X ->
             (forall s2, p_pos s <= p_pos s2 -> K s2 = ROk s' -> p_pos s <= p_pos s') ->
             match PB f X b o1 with ROk s2 => K s2 | RErr e => RErr e end = ROk s' -> p_pos s <= p_pos s').
  { intros X b o1 K HX HK Hm. destruct (PB f X b o1) as [s2|] eqn:E; [|discriminate].
    apply IH in E. apply (HK s2); [lia|exact Hm]. }
  assert (Hone : forall X b o1, PB f X b o1 = ROk s' -> p_pos s <= p_pos X -> p_pos s <= p_pos s').
  { intros X b o1 E HX. apply IH in E. lia. }
  destruct (o || negb (i_inc row)).
  - destruct (i_kind row).
    + refine (Hseq _ _ _ _ _ _ H); [exact H1|]. intros s2 H2 E. exact (Hone _ _ _ E H2).
    + exact (Hone _ _ _ H H1).
    + refine (Hseq _ _ _ _ _ _ H); [exact H1|]. intros s2 H2 E. exact (Hone _ _ _ E H2).
    + exact (Hone _ _ _ H H1).
    + exact (Hone _ _ _ H H1).
  - destruct (i_kind row).
    + destruct (i_vars row) as [|x more]; [discriminate|]. destruct x as [|x0 xr]; [discriminate|].
      set (x := x0 :: xr) in *.
      set (idx := match more with i :: _ => match i with [] => None | _ => Some i end | [] => None end) in *.
      destruct (loop_iter (fun st => PB f st BFor false) (p_pos s1) x idx (i_iter row) 0 (log s1 EvPush)) as [s3|] eqn:E3; [|discriminate].
      assert (H3 : p_pos s <= p_pos s3).
      { destruct (loop_iter_pos _ _ x idx (fun st st' Hb => IH _ _ _ _ Hb) _ _ _ _ E3) as [Hp|Hp]; cbn [log p_pos] in Hp; lia. }
      assert (Hk : forall s3', p_pos s <= p_pos s3' ->
                 match crestore tol (p_ctx (log s3' (EvEnd (i_id row)))) x (saved_of scope (p_ctx s1) x) with
                 | Some c1 =>
                   match idx with
                   | Some i => match crestore tol c1 i match idx with Some i0 => saved_of scope (p_ctx s1) i0 | None => None end with
                               | Some c2 => PB f (mkP (p_pos (log s3' (EvEnd (i_id row)))) c2 (p_log (log s3' (EvEnd (i_id row))))) bt o
                               | None => RErr KeyErr
                               end
                   | None => PB f (mkP (p_pos (log s3' (EvEnd (i_id row)))) c1 (p_log (log s3' (EvEnd (i_id row))))) bt o
                   end
                 | None => RErr KeyErr
                 end = ROk s' -> p_pos s <= p_pos s').
      { intros s3' H3' Hm.
        destruct (crestore tol (p_ctx (log s3' (EvEnd (i_id row)))) x (saved_of scope (p_ctx s1) x)) as [c1|]; [|discriminate].
        destruct idx as [i|]; [|exact (Hone _ _ _ Hm H3')].
        destruct (crestore tol c1 i (saved_of scope (p_ctx s1) i)) as [c2|]; [|discriminate].
        exact (Hone _ _ _ Hm H3'). }
      destruct (i_iter row) as [|e0 el]; [destruct emp|].
      * exact (Hk _ H3 H).
      * refine (Hseq _ _ _ _ _ _ H); [exact H3|]. intros s2 H2 E. exact (Hk _ H2 E).
      * exact (Hk _ H3 H).
    + exact (Hone _ _ _ H H1).
    + refine (Hseq _ _ _ _ _ _ H); [exact H1|]. intros s2 H2 E. exact (Hone _ _ _ E H2).
    + exact (Hone _ _ _ H H1).
    + exact (Hone _ _ _ H H1).
Qed.

(* the only error of templating is an undefined name *)
Lemma render_err c t e : render pol c t = RErr e -> e = Undefined.
Proof.
  induction t as [|[sg|x] t IH]; cbn [render]; intros H; [discriminate| |].
  - destruct (render pol c t); [discriminate|]. inversion H; subst. apply IH. reflexivity.
  - destruct (cget c x).
    + destruct (render pol c t); [discriminate|]. inversion H; subst. apply IH. reflexivity.
    + destruct pol; [inversion H; reflexivity|exact (IH H)].
Qed.

Lemma instantiate_err c r e : instantiate pol c r = RErr e -> e = Undefined.
Proof.
  unfold instantiate. destruct (eval_inc pol c (rw_inc r)) as [[|]|e0] eqn:Ei.
  - destruct (render pol c (rw_id r)) as [i|e1] eqn:E1.
    + destruct (render pol c (rw_text r)) as [t|e2] eqn:E2.
      * destruct (rw_kind r); try discriminate.
        unfold eval_iter. destruct (rw_iter r) as [l|x]; [discriminate|].
        destruct (cget c x) as [[sv|lv|nv]|]; try discriminate. intros H; inversion H; reflexivity.
      * intros H; inversion H; subst. exact (render_err _ _ _ E2).
    + intros H. assert (e = e1) by (destruct (render pol c (rw_text r)); inversion H; reflexivity). subst. exact (render_err _ _ _ E1).
  - discriminate.
  - intros H; inversion H; subst. unfold eval_inc in Ei. destruct (rw_inc r) as [| |x|x pos w]; try discriminate.
    + destruct (cget c x); [discriminate|]. destruct pol; inversion Ei; reflexivity.
    + destruct (cget c x); [discriminate|]. destruct pol; inversion Ei; reflexivity.
Qed.

Lemma next_row_err s o e : next_row pol rows s o = RErr e -> e = Undefined.
Proof.
  unfold next_row. destruct (nth_error rows (p_pos s)) as [r|]; [|discriminate].
  destruct o; [discriminate|]. destruct (instantiate pol (p_ctx s) r) eqn:Ei; [discriminate|].
  intros H; inversion H; subst. exact (instantiate_err _ _ _ Ei).
Qed.

Lemma end_of_block_err bt k e : end_of_block bt k = RErr e -> e <> OutOfFuel.
Proof. destruct bt, k as [[]|]; cbn; intros H; inversion H; discriminate. Qed.

Lemma loop_iter_no_oof (body : pst -> res pst) bookmark x idx :
  (forall st, p_pos st = bookmark -> body st <> RErr OutOfFuel) ->
  forall elems n st, loop_iter body bookmark x idx elems n st <> RErr OutOfFuel.
Proof.
  intros Hb. induction elems as [|e more IH]; intros n st; cbn [loop_iter]; [discriminate|].
  destruct (body (mkP bookmark (bind_loop (p_ctx st) x idx e n) (EvEnter BFor false :: p_log st))) as [st1|e1] eqn:E1.
  - apply IH.
  - intros Heq. inversion Heq; subst. refine (Hb _ _ E1). reflexivity.
Qed.

(* one unit per row that is still to be read, and one to see the end *)
Theorem no_out_of_fuel : forall f s bt o, length rows - p_pos s < f -> PB f s bt o <> RErr OutOfFuel.
Proof.
  induction f as [|f IH]; intros s bt o Hf; [lia|]. cbn [parse_block].
  destruct (next_row pol rows s o) as [[s1 orow]|e] eqn:En.
  2:{ apply next_row_err in En. subst. discriminate. }
  destruct (end_of_block bt (option_map i_kind orow)) as [[|]|e] eqn:Ee; [discriminate| |].
  2:{ apply end_of_block_err in Ee. intros Heq. inversion Heq. contradiction. }
  destruct (next_row_cases _ _ _ _ En) as [[-> _]|[r [row [-> [Hr Hp]]]]]; [discriminate|].
  assert (Hlen : p_pos s < length rows) by (apply nth_error_Some; rewrite Hr; discriminate).
  assert (H1 : length rows - p_pos s1 < f) by lia.
  assert (Hseq : forall X b o1 (K : pst -> res pst),
             length rows - p_pos X < f ->
             (forall s2, p_pos X <= p_pos s2 -> K s2 <> RErr OutOfFuel) ->
             match PB f X b o1 with ROk s2 => K s2 | RErr e => RErr e end <> RErr OutOfFuel).
  { intros X b o1 K HX HK. destruct (PB f X b o1) as [s2|e] eqn:E.
    - apply HK. exact (pos_mono _ _ _ _ _ E).
    - intros Heq. inversion Heq; subst. exact (IH _ _ _ HX E). }
  destruct (o || negb (i_inc row)).
  - destruct (i_kind row).
    + apply Hseq; [exact H1|]. intros s2 H2. apply IH. cbn [log p_pos] in H2. lia.
    + apply IH. exact H1.
    + apply Hseq; [exact H1|]. intros s2 H2. apply IH. cbn [log p_pos] in H2. lia.
    + apply IH. exact H1.
    + apply IH. exact H1.
  - destruct (i_kind row).
    + destruct (i_vars row) as [|x more]; [discriminate|]. destruct x as [|x0 xr]; [discriminate|].
      set (x := x0 :: xr) in *.
      set (idx := match more with i :: _ => match i with [] => None | _ => Some i end | [] => None end) in *.
      destruct (loop_iter (fun st => PB f st BFor false) (p_pos s1) x idx (i_iter row) 0 (log s1 EvPush)) as [s3|e3] eqn:E3.
      2:{ intros Heq. inversion Heq; subst.
          refine (loop_iter_no_oof _ (p_pos s1) x idx _ _ _ _ E3). intros st Hst. apply IH. lia. }
      assert (H3 : length rows - p_pos s3 < f).
      { destruct (loop_iter_pos _ _ x idx (fun st st' Hb => pos_mono _ _ _ _ _ Hb) _ _ _ _ E3) as [Hq|Hq]; cbn [log p_pos] in Hq; lia. }
      assert (Hk : forall s3', length rows - p_pos s3' < f ->
                 match crestore tol (p_ctx (log s3' (EvEnd (i_id row)))) x (saved_of scope (p_ctx s1) x) with
                 | Some c1 =>
                   match idx with
                   | Some i => match crestore tol c1 i match idx with Some i0 => saved_of scope (p_ctx s1) i0 | None => None end with
                               | Some c2 => PB f (mkP (p_pos (log s3' (EvEnd (i_id row)))) c2 (p_log (log s3' (EvEnd (i_id row))))) bt o
                               | None => RErr KeyErr
                               end
                   | None => PB f (mkP (p_pos (log s3' (EvEnd (i_id row)))) c1 (p_log (log s3' (EvEnd (i_id row))))) bt o
                   end
                 | None => RErr KeyErr
                 end <> RErr OutOfFuel).
      { intros s3' H3'.
        destruct (crestore tol (p_ctx (log s3' (EvEnd (i_id row)))) x (saved_of scope (p_ctx s1) x)) as [c1|]; [|discriminate].
        destruct idx as [i|]; [|apply IH; exact H3'].
        destruct (crestore tol c1 i (saved_of scope (p_ctx s1) i)) as [c2|]; [|discriminate].
        apply IH; exact H3'. }
      destruct (i_iter row) as [|e0 el]; [destruct emp|].
      * apply Hk. exact H3.
      * apply Hseq; [exact H3|]. intros s2 H2. apply Hk. cbn [log p_pos] in H2. lia.
      * apply Hk. exact H3.
    + apply IH. exact H1.
    + apply Hseq; [exact H1|]. intros s2 H2. apply IH. cbn [log p_pos] in H2 |- *. lia.
    + apply IH. exact H1.
    + apply IH. exact H1.
Qed.

(* the result does not depend on the fuel once there is enough of it *)
Corollary fuel_irrelevant f g s bt o r :
  PB f s bt o = r -> r <> RErr OutOfFuel -> length rows - p_pos s < g -> PB g s bt o = r.
Proof.
  intros H Hne Hg. destruct (Nat.le_ge_cases f g) as [Hle|Hle].
  - exact (parse_block_mono _ _ _ _ _ H Hne _ Hle).
  - pose proof (no_out_of_fuel _ _ bt o Hg) as Hn.
    pose proof (parse_block_mono _ _ _ _ _ eq_refl Hn _ Hle) as Hm. congruence.
Qed.

End Fuel.

(* ------------------------------------------------------------------ tokens *)
Lemma toks_app a b : toks (a ++ b) = toks a ++ toks b.
Proof.
  induction a as [|e a IH]; [reflexivity|]. destruct e; cbn [toks app]; rewrite IH; reflexivity.
Qed.

(* the tokens of a piece of log (kept newest first) *)
Definition rtoks (evs : list event) : list tok := toks (rev evs).

Lemma rtoks_app a b : rtoks (a ++ b) = rtoks b ++ rtoks a.
Proof. unfold rtoks. rewrite rev_app_distr, toks_app. reflexivity. Qed.

Lemma rtoks_cons e a : rtoks (e :: a) = rtoks a ++ toks [e].
Proof. unfold rtoks. cbn [rev]. rewrite toks_app. reflexivity. Qed.

(* ------------------------------------------------------------------ 1. literal, balanced segments and their tokens *)
Inductive LitSem : list raw -> list tok -> Prop :=
| LS_nil : LitSem [] []
| LS_row id text rest t : LitSem rest t -> LitSem (lit_row KPlain id text :: rest) (TRow id text :: t)
| LS_block id text body tb rest t :
    LitSem body tb -> LitSem rest t ->
    LitSem (lit_row KBeginBlock id text :: body ++ end_row :: rest) (TPush :: tb ++ TPop id :: t).

Lemma LitSem_app a ta b tb : LitSem a ta -> LitSem b tb -> LitSem (a ++ b) (ta ++ tb).
Proof.
  intros Ha Hb. induction Ha as [|id text rest t _ IH|id text body tb0 rest t Hbody _ _ IH]; cbn [app].
  - exact Hb.
  - constructor. exact IH.
  - rewrite <- !app_assoc. cbn [app]. constructor; assumption.
Qed.

Lemma LitSem_nil_inv t : LitSem [] t -> t = [].
Proof. intros H. inversion H. reflexivity. Qed.

Lemma LitSem_literal seg t : LitSem seg t -> forallb row_is_plain_literal seg = true.
Proof.
  induction 1 as [|id text rest t _ IH|id text body tb rest t _ IHb _ IHr]; [reflexivity|exact IH|].
  cbn [forallb]. rewrite forallb_app. cbn [forallb]. rewrite IHb, IHr. reflexivity.
Qed.

(* [seg] sits at position [q] of [rows] *)
Definition At (rows : list raw) (q : nat) (seg : list raw) : Prop :=
  forall i r, nth_error seg i = Some r -> nth_error rows (q + i) = Some r.

Lemma At_self l : At l 0 l.
Proof. intros i r H. exact H. Qed.

Lemma At_cons rows q a l : At rows q (a :: l) -> nth_error rows q = Some a /\ At rows (S q) l.
Proof.
  intros H. split.
  - rewrite <- (Nat.add_0_r q). apply H. reflexivity.
  - intros i r Hi. replace (S q + i) with (q + S i) by lia. apply H. exact Hi.
Qed.

Lemma At_app rows q a b : At rows q (a ++ b) -> At rows q a /\ At rows (q + length a) b.
Proof.
  intros H. split.
  - intros i r Hi. apply H. rewrite nth_error_app1; [exact Hi|]. apply nth_error_Some. rewrite Hi. discriminate.
  - intros i r Hi. rewrite <- Nat.add_assoc. apply H. rewrite nth_error_app2 by lia.
    replace (length a + i - length a) with i by lia. exact Hi.
Qed.

Section LitRun.
Variable pol : undefined_policy.
Variable scope : loop_scope.
Variable emp : empty_loop.
Variable tol : bool.

Lemma end_of_block_plain bt : end_of_block bt (Some KPlain) = ROk false.
Proof. destruct bt; reflexivity. Qed.
Lemma end_of_block_block bt : end_of_block bt (Some KBeginBlock) = ROk false.
Proof. destruct bt; reflexivity. Qed.

Lemma instantiate_lit c k id text :
  instantiate pol c (lit_row k id text) = ROk (mkI k true id text [] []).
Proof.
  unfold instantiate, lit_row. cbn [rw_inc eval_inc rw_id rw_text render rw_kind rw_vars]. rewrite !app_nil_r.
  destruct k; reflexivity.
Qed.

(* reading one literal plain row *)
Lemma step_plain rows f q c0 lg bt id text :
  nth_error rows q = Some (lit_row KPlain id text) ->
  parse_block pol scope emp tol rows (S f) (mkP q c0 lg) bt false
  = parse_block pol scope emp tol rows f (mkP (S q) c0 (EvRow id text :: EvInst q :: lg)) bt false.
Proof.
  intros Hn. cbn [parse_block]. unfold next_row. cbn [p_pos p_ctx p_log]. rewrite Hn.
  rewrite instantiate_lit. cbn [option_map i_kind]. rewrite end_of_block_plain.
  cbn [i_inc negb orb i_kind i_id i_text log p_pos p_ctx p_log]. reflexivity.
Qed.

Lemma step_block rows f q c0 lg bt id text :
  nth_error rows q = Some (lit_row KBeginBlock id text) ->
  parse_block pol scope emp tol rows (S f) (mkP q c0 lg) bt false
  = match parse_block pol scope emp tol rows f (mkP (S q) c0 (EvEnter BBlock false :: EvPush :: EvInst q :: lg)) BBlock false with
    | ROk s2 => parse_block pol scope emp tol rows f (log s2 (EvEnd id)) bt false
    | RErr e => RErr e
    end.
Proof.
  intros Hn. cbn [parse_block]. unfold next_row. cbn [p_pos p_ctx p_log]. rewrite Hn.
  rewrite instantiate_lit. cbn [option_map i_kind]. rewrite end_of_block_block.
  cbn [i_inc negb orb i_kind i_id i_text log p_pos p_ctx p_log]. reflexivity.
Qed.

Lemma step_end rows f q c0 lg :
  nth_error rows q = Some end_row ->
  parse_block pol scope emp tol rows (S f) (mkP q c0 lg) BBlock false = ROk (mkP (S q) c0 (EvInst q :: lg)).
Proof.
  intros Hn. cbn [parse_block]. unfold next_row. cbn [p_pos p_ctx p_log]. rewrite Hn.
  reflexivity.
Qed.

(* the parser on a literal balanced segment: it logs events whose tokens are the segment's, leaves
   the context alone and goes on behind the segment — in whatever block the segment lies *)
Theorem lit_run : forall seg tk, LitSem seg tk ->
  forall rows q c0 lg, At rows q seg ->
  exists evs', rtoks evs' = tk /\
    forall bt f sfin,
      parse_block pol scope emp tol rows f (mkP (q + length seg) c0 (evs' ++ lg)) bt false = ROk sfin ->
      exists f', parse_block pol scope emp tol rows f' (mkP q c0 lg) bt false = ROk sfin.
Proof.
  induction 1 as [|id text rest t _ IH|id text body tb rest t _ IHb _ IHr]; intros rows q c0 lg Hat.
  - exists []. split; [reflexivity|]. intros bt f sfin H. exists f. cbn [length app] in H. rewrite Nat.add_0_r in H. exact H.
  - destruct (At_cons _ _ _ _ Hat) as [Hq Hrest].
    destruct (IH rows (S q) c0 (EvRow id text :: EvInst q :: lg) Hrest) as [evs1 [Ht1 Hrun1]].
    exists (evs1 ++ [EvRow id text; EvInst q]). split.
    + rewrite rtoks_app, Ht1. reflexivity.
    + intros bt f sfin H. cbn [length] in H. rewrite <- app_assoc in H. cbn [app] in H.
      replace (q + S (length rest)) with (S q + length rest) in H by lia.
      destruct (Hrun1 _ _ _ H) as [f1 H1]. exists (S f1). rewrite (step_plain _ _ _ _ _ _ _ _ Hq). exact H1.
  - destruct (At_cons _ _ _ _ Hat) as [Hq Hrest0].
    destruct (At_app _ _ _ _ Hrest0) as [Hbody Hrest1].
    destruct (At_cons _ _ _ _ Hrest1) as [Hend Hrest].
    set (lgb := EvEnter BBlock false :: EvPush :: EvInst q :: lg).
    destruct (IHb rows (S q) c0 lgb Hbody) as [evsb [Htb Hrunb]].
    set (qe := S q + length body) in *.
    set (lgr := EvEnd id :: EvInst qe :: evsb ++ lgb).
    destruct (IHr rows (S qe) c0 lgr Hrest) as [evsr [Htr Hrunr]].
    exists (evsr ++ [EvEnd id; EvInst qe] ++ evsb ++ [EvEnter BBlock false; EvPush; EvInst q]). split.
    + rewrite !rtoks_app, Htr, Htb. unfold rtoks. cbn [rev app toks]. rewrite <- !app_assoc. reflexivity.
    + intros bt f sfin H.
      assert (Hlen : q + length (lit_row KBeginBlock id text :: body ++ end_row :: rest) = S qe + length rest).
      { cbn [length]. rewrite app_length. cbn [length]. unfold qe. lia. }
      rewrite Hlen in H.
      assert (Hlg : (evsr ++ [EvEnd id; EvInst qe] ++ evsb ++ [EvEnter BBlock false; EvPush; EvInst q]) ++ lg = evsr ++ lgr).
      { unfold lgr, lgb. rewrite <- !app_assoc. cbn [app]. reflexivity. }
      rewrite Hlg in H.
      destruct (Hrunr _ _ _ H) as [fr Hr].
      assert (He : parse_block pol scope emp tol rows 1 (mkP (S q + length body) c0 (evsb ++ lgb)) BBlock false
                   = ROk (mkP (S qe) c0 (EvInst qe :: evsb ++ lgb))).
      { exact (step_end _ _ _ _ _ Hend). }
      destruct (Hrunb _ _ _ He) as [fb Hb].
      exists (S (Nat.max fb fr)). rewrite (step_block _ _ _ _ _ _ _ _ Hq).
      change (EvEnter BBlock false :: EvPush :: EvInst q :: lg) with lgb.
      rewrite (parse_block_mono _ _ _ _ _ _ _ _ _ _ Hb ltac:(discriminate) _ (Nat.le_max_l fb fr)).
      cbn [log p_pos p_ctx p_log].
      exact (parse_block_mono _ _ _ _ _ _ _ _ _ _ Hr ltac:(discriminate) _ (Nat.le_max_r fb fr)).
Qed.

End LitRun.

(* ------------------------------------------------------------------ 2. the sugared sheet, call by call *)
Lemma loop_exit_ctx tol c x idx c3 c' :
  (c3 = c \/ exists e m, c3 = bind_loop c x idx e m) ->
  restore_loop tol c3 x idx (cget c x) (saved_idx c idx) = Some c' -> c' = c.
Proof.
  intros [->|[e [m ->]]] H.
  - exact (restore_loop_unbound _ _ _ _ _ H).
  - exact (restore_loop_bound _ _ _ _ _ _ _ H).
Qed.

Section Unroll.
Variable pol : undefined_policy.
Variable tol : bool.
Variable rows : list raw.
Notation PB := (parse_block pol ScopeRestore EmptySkip tol rows).
Notation DS := (ds pol).

Lemma next_row_some s omit s1 orow r :
  nth_error rows (p_pos s) = Some r ->
  next_row pol rows s omit = ROk (s1, orow) ->
  exists row e1, orow = Some row
    /\ (if omit then ROk (mkI (rw_kind r) true [] [] [] []) else instantiate pol (p_ctx s) r) = ROk row
    /\ p_pos s1 = S (p_pos s) /\ p_ctx s1 = p_ctx s /\ p_log s1 = e1 ++ p_log s /\ rtoks e1 = [].
Proof.
  intros Hn. unfold next_row. rewrite Hn. destruct omit.
  - intros H. inversion H; subst. eexists. exists []. repeat split.
  - destruct (instantiate pol (p_ctx s) r) as [i|]; intros H; inversion H; subst.
    exists i, [EvInst (p_pos s)]. repeat split.
Qed.

(* what the central lemma says of one call with fuel [f] *)
Definition unroll_at (f : nat) : Prop :=
  forall s bt omit s',
    PB f s bt omit = ROk s' ->
    exists out evs,
      DS f (skipn (p_pos s) rows) (p_ctx s) bt omit = ROk (out, skipn (p_pos s') rows)
      /\ p_log s' = evs ++ p_log s
      /\ LitSem out (rtoks evs)
      /\ (omit = true -> out = []).

(* the iterations of one loop: the k-th body call re-reads the rows from the bookmark under the context
   in which the previous element is still bound; rebinding gives the lexically extended context *)
Lemma iter_ok f (IHf : unroll_at f) bookmark c x idx :
  forall elems n st st',
    (p_ctx st = c \/ exists e m, p_ctx st = bind_loop c x idx e m) ->
    loop_iter (fun st0 => PB f st0 BFor false) bookmark x idx elems n st = ROk st' ->
    exists outs evs,
      ds_iter (fun c' => DS f (skipn bookmark rows) c' BFor false) c x idx elems n (skipn (p_pos st) rows)
      = ROk (outs, skipn (p_pos st') rows)
      /\ p_log st' = evs ++ p_log st
      /\ LitSem outs (rtoks evs).
Proof.
  induction elems as [|e more IH]; intros n st st' Hinv H; cbn [loop_iter ds_iter] in H |- *.
  - inversion H; subst. exists [], []. repeat split. constructor.
  - destruct (PB f (mkP bookmark (bind_loop (p_ctx st) x idx e n) (EvEnter BFor false :: p_log st)) BFor false) as [st1|] eqn:E1; [|discriminate].
    assert (Hb : bind_loop (p_ctx st) x idx e n = bind_loop c x idx e n).
    { destruct Hinv as [->|[e0 [m0 ->]]]; [reflexivity|apply bind_loop_twice]. }
    pose proof (ctx_preserved _ _ _ _ _ _ _ _ _ E1) as Hc1. cbn [p_ctx] in Hc1. rewrite Hb in Hc1.
    destruct (IHf _ _ _ _ E1) as [out1 [evs1 [Hd1 [Hl1 [Hs1 _]]]]]. cbn [p_pos p_ctx p_log] in Hd1, Hl1.
    rewrite Hb in Hd1. rewrite Hd1.
    destruct (IH (S n) st1 st' (or_intror (ex_intro _ e (ex_intro _ n Hc1))) H) as [out2 [evs2 [Hd2 [Hl2 Hs2]]]].
    rewrite Hd2. exists (out1 ++ out2), (evs2 ++ evs1 ++ [EvEnter BFor false]). repeat split.
    + rewrite Hl2, Hl1, <- !app_assoc. reflexivity.
    + rewrite !rtoks_app. cbn [rtoks rev app toks]. apply LitSem_app; assumption.
Qed.

Theorem unroll_ok : forall f, unroll_at f.
Proof.
  induction f as [|f IH]; intros s bt omit s' H; cbn [parse_block] in H; [discriminate|].
  destruct (next_row pol rows s omit) as [[s1 orow]|] eqn:En; [|discriminate].
  destruct (nth_error rows (p_pos s)) as [r|] eqn:Hn.
  2:{ (* the sheet is exhausted *)
      unfold next_row in En. rewrite Hn in En. inversion En; subst. cbn [option_map] in H.
      rewrite (skipn_nth_none _ _ Hn). cbn [ds].
      destruct (end_of_block bt None) as [[|]|]; try discriminate. inversion H; subst.
      exists [], []. rewrite (skipn_nth_none _ _ Hn). repeat split. constructor. }
  destruct (next_row_some _ _ _ _ _ Hn En) as [row [e1 [-> [Hrow [Hp1 [Hc1 [Hl1 Ht1]]]]]]].
  rewrite (skipn_nth_some _ _ _ Hn). cbn [ds option_map] in H |- *. rewrite Hrow.
  rewrite <- Hp1.
  destruct (end_of_block bt (Some (i_kind row))) as [[|]|] eqn:Ee; [| |discriminate].
  { inversion H; subst. exists [], e1. repeat split; [exact Hl1|rewrite Ht1; constructor]. }
  (* a nested call, and the call that continues the current block *)
  assert (Hnest : forall X b o1 s2, PB f X b o1 = ROk s2 -> p_ctx X = p_ctx s ->
            exists out2 evs2,
              DS f (skipn (p_pos X) rows) (p_ctx s) b o1 = ROk (out2, skipn (p_pos s2) rows)
              /\ p_log s2 = evs2 ++ p_log X /\ LitSem out2 (rtoks evs2) /\ (o1 = true -> out2 = [])
              /\ p_ctx s2 = p_ctx s).
  { intros X b o1 s2 HX HcX. destruct (IH _ _ _ _ HX) as [o2 [ev2 [Hd [Hl [Hs Ho]]]]].
    exists o2, ev2. rewrite <- HcX. repeat split; try assumption.
    exact (ctx_preserved _ _ _ _ _ _ _ _ _ HX). }
  destruct (omit || negb (i_inc row)) eqn:Esk.
  - (* skipped *)
    assert (Hskipblock : forall b,
              match PB f (log s1 (EvEnter b true)) b true with ROk s2 => PB f s2 bt omit | RErr e => RErr e end = ROk s' ->
              exists out evs,
                match DS f (skipn (p_pos s1) rows) (p_ctx s) b true with
                | ROk (_, rest2) => DS f rest2 (p_ctx s) bt omit
                | RErr e => RErr e
                end = ROk (out, skipn (p_pos s') rows)
                /\ p_log s' = evs ++ p_log s /\ LitSem out (rtoks evs) /\ (omit = true -> out = [])).
    { intros b Hm. destruct (PB f (log s1 (EvEnter b true)) b true) as [s2|] eqn:E2; [|discriminate].
      destruct (Hnest _ _ _ _ E2 Hc1) as [o2 [ev2 [Hd2 [Hl2 [Hs2 [Ho2 Hc2]]]]]]. cbn [log p_pos p_log] in Hd2, Hl2.
      destruct (Hnest _ _ _ _ Hm Hc2) as [o3 [ev3 [Hd3 [Hl3 [Hs3 [Ho3 _]]]]]].
      rewrite Hd2, Hd3. exists o3, (ev3 ++ ev2 ++ [EvEnter b true] ++ e1). repeat split.
      - rewrite Hl3, Hl2, Hl1, <- !app_assoc. reflexivity.
      - rewrite (Ho2 eq_refl) in Hs2. apply LitSem_nil_inv in Hs2.
        rewrite !rtoks_app, Ht1, Hs2. cbn [rtoks rev app toks]. exact Hs3.
      - exact Ho3. }
    assert (Hskiprow : PB f s1 bt omit = ROk s' ->
              exists out evs, DS f (skipn (p_pos s1) rows) (p_ctx s) bt omit = ROk (out, skipn (p_pos s') rows)
                /\ p_log s' = evs ++ p_log s /\ LitSem out (rtoks evs) /\ (omit = true -> out = [])).
    { intros Hm. destruct (Hnest _ _ _ _ Hm Hc1) as [o3 [ev3 [Hd3 [Hl3 [Hs3 [Ho3 _]]]]]].
      exists o3, (ev3 ++ e1). repeat split; try assumption.
      - rewrite Hl3, Hl1, <- app_assoc. reflexivity.
      - rewrite rtoks_app, Ht1. exact Hs3. }
    destruct (i_kind row); [exact (Hskipblock _ H)|exact (Hskiprow H)|exact (Hskipblock _ H)|exact (Hskiprow H)|exact (Hskiprow H)].
  - (* not skipped *)
    apply orb_false_iff in Esk. destruct Esk as [-> Hinc].
    destruct (i_kind row) eqn:Ek.
    + (* begin_for *)
      destruct (i_vars row) as [|x more]; [discriminate|]. destruct x as [|x0 xr]; [discriminate|].
      set (x := x0 :: xr) in *. unfold idx_of.
      set (idx := match more with i :: _ => match i with [] => None | _ => Some i end | [] => None end) in *.
      destruct (loop_iter (fun st => PB f st BFor false) (p_pos s1) x idx (i_iter row) 0 (log s1 EvPush)) as [s3|] eqn:E3; [|discriminate].
      assert (Hinv3 : p_ctx s3 = p_ctx s \/ exists e m, p_ctx s3 = bind_loop (p_ctx s) x idx e m).
      { refine (loop_iter_ctx _ _ x idx (p_ctx s) _ _ _ (log s1 EvPush) _ (or_introl Hc1) E3).
        intros st st' Hb. exact (ctx_preserved _ _ _ _ _ _ _ _ _ Hb). }
      destruct (iter_ok f IH (p_pos s1) (p_ctx s) x idx (i_iter row) 0 (log s1 EvPush) s3 (or_introl Hc1) E3)
        as [bodies [evsI [HdI [HlI HsI]]]]. cbn [log p_pos p_log] in HdI, HlI.
      rewrite HdI.
      (* the body of a loop over nothing is read with omit_content *)
      assert (Hskip : exists s3' evo,
                 match i_iter row with [] => PB f (log s3 (EvEnter BFor true)) BFor true | _ => ROk s3 end = ROk s3'
                 /\ match i_iter row with [] => DS f (skipn (p_pos s1) rows) (p_ctx s) BFor true | _ => ROk ([], skipn (p_pos s3) rows) end
                    = ROk ([], skipn (p_pos s3') rows)
                 /\ p_log s3' = evo ++ p_log s3 /\ rtoks evo = [] /\ p_ctx s3' = p_ctx s3).
      { destruct (i_iter row) as [|e0 el].
        - cbn [loop_iter] in E3. inversion E3; subst s3.
          destruct (PB f (log (log s1 EvPush) (EvEnter BFor true)) BFor true) as [s3'|] eqn:Eo; [|discriminate].
          destruct (Hnest _ _ _ _ Eo Hc1) as [oo [evo [Hdo [Hlo [Hso [Hoo Hco]]]]]]. cbn [log p_pos p_log] in Hdo, Hlo.
          rewrite (Hoo eq_refl) in Hdo, Hso. apply LitSem_nil_inv in Hso.
          exists s3', (evo ++ [EvEnter BFor true]). repeat split; try assumption.
          + rewrite Hlo, <- app_assoc. reflexivity.
          + rewrite rtoks_app, Hso. reflexivity.
          + rewrite Hco. symmetry. exact Hc1.
        - exists s3, []. repeat split. }
      destruct Hskip as [s3' [evo [Eo [Hdo [Hlo [Hto Hco]]]]]]. rewrite Eo in H. rewrite Hdo.
      cbn [log p_ctx p_pos p_log saved_of] in H.
      assert (Hrest : forall c', restore_loop tol (p_ctx s3') x idx (cget (p_ctx s1) x) (saved_idx (p_ctx s1) idx) = Some c' -> c' = p_ctx s).
      { intros c' Hr. rewrite Hco, Hc1 in Hr. exact (loop_exit_ctx _ _ _ _ _ _ Hinv3 Hr). }
      unfold restore_loop, saved_idx in Hrest.
      destruct (crestore tol (p_ctx s3') x (cget (p_ctx s1) x)) as [c1|] eqn:Ec1; [|discriminate].
      assert (Hfin : forall c2, c2 = p_ctx s -> PB f (mkP (p_pos s3') c2 (EvEnd (i_id row) :: p_log s3')) bt false = ROk s' ->
                exists out evs,
                  match DS f (skipn (p_pos s3') rows) (p_ctx s) bt false with
                  | ROk (out, rem) => ROk (lit_row KBeginBlock (i_id row) (i_text row) :: bodies ++ end_row :: out, rem)
                  | RErr e => RErr e
                  end = ROk (out, skipn (p_pos s') rows)
                  /\ p_log s' = evs ++ p_log s /\ LitSem out (rtoks evs) /\ (false = true -> out = [])).
      { intros c2 -> Hm. destruct (Hnest _ _ _ _ Hm eq_refl) as [o3 [ev3 [Hd3 [Hl3 [Hs3 _]]]]]. cbn [p_pos p_log] in Hd3, Hl3.
        rewrite Hd3. eexists. exists (ev3 ++ [EvEnd (i_id row)] ++ evo ++ evsI ++ [EvPush] ++ e1). repeat split.
        - rewrite Hl3, Hlo, HlI, Hl1, <- !app_assoc. reflexivity.
        - rewrite !rtoks_app, Ht1, Hto. cbn [rtoks rev app toks]. rewrite ?app_nil_r, <- ?app_assoc. cbn [app]. constructor; assumption.
        - discriminate. }
      destruct idx as [i|].
      * destruct (crestore tol c1 i (cget (p_ctx s1) i)) as [c2|] eqn:Ec2; [|discriminate].
        exact (Hfin _ (Hrest _ eq_refl) H).
      * exact (Hfin _ (Hrest _ eq_refl) H).
    + destruct bt; cbn in Ee; discriminate.
    + (* begin_block *)
      destruct (PB f (log (log s1 EvPush) (EvEnter BBlock false)) BBlock false) as [s2|] eqn:E2; [|discriminate].
      destruct (Hnest _ _ _ _ E2 Hc1) as [o2 [ev2 [Hd2 [Hl2 [Hs2 [_ Hc2]]]]]]. cbn [log p_pos p_log] in Hd2, Hl2.
      destruct (Hnest _ _ _ _ H Hc2) as [o3 [ev3 [Hd3 [Hl3 [Hs3 _]]]]]. cbn [log p_pos p_log] in Hd3, Hl3.
      rewrite Hd2, Hd3. eexists. exists (ev3 ++ [EvEnd (i_id row)] ++ ev2 ++ [EvEnter BBlock false; EvPush] ++ e1). repeat split.
      * rewrite Hl3, Hl2, Hl1, <- !app_assoc. reflexivity.
      * rewrite !rtoks_app, Ht1. cbn [rtoks rev app toks]. rewrite ?app_nil_r, <- ?app_assoc. cbn [app]. constructor; assumption.
      * discriminate.
    + destruct bt; cbn in Ee; discriminate.
    + (* a plain row *)
      destruct (Hnest _ _ _ _ H Hc1) as [o3 [ev3 [Hd3 [Hl3 [Hs3 _]]]]]. cbn [log p_pos p_log] in Hd3, Hl3.
      rewrite Hd3. eexists. exists (ev3 ++ [EvRow (i_id row) (i_text row)] ++ e1). repeat split.
      * rewrite Hl3, Hl1, <- !app_assoc. reflexivity.
      * rewrite !rtoks_app, Ht1. cbn [rtoks rev app toks]. rewrite ?app_nil_r, <- ?app_assoc. cbn [app]. constructor; assumption.
      * discriminate.
Qed.

End Unroll.

(* ------------------------------------------------------------------ the tokens of a balanced segment form a forest *)
Lemma LitSem_build seg tk : LitSem seg tk ->
  exists its, forall k cur st, build (tk ++ k) cur st = build k (rev its ++ cur) st.
Proof.
  induction 1 as [|id text rest t _ [its IH]|id text body tb rest t _ [itsb IHb] _ [itsr IHr]].
  - exists []. reflexivity.
  - exists (IRow id text :: its). intros k cur st. cbn [app build rev]. rewrite IH, <- app_assoc. reflexivity.
  - exists (IGroup id itsb :: itsr). intros k cur st. cbn [app build rev].
    rewrite <- app_assoc. rewrite IHb. cbn [app build]. rewrite IHr.
    rewrite app_nil_r, rev_involutive, <- app_assoc. reflexivity.
Qed.

Lemma LitSem_shape seg evs : LitSem seg (rtoks evs) -> exists its, shape (rev evs) = Some its.
Proof.
  intros H. destruct (LitSem_build _ _ H) as [its Hb]. exists its. unfold shape. fold (rtoks evs).
  rewrite <- (app_nil_r (rtoks evs)), Hb. cbn [build]. rewrite app_nil_r, rev_involutive. reflexivity.
Qed.

(* ------------------------------------------------------------------ 4. whole sheets *)
Lemma sheet_fuel_enough rows : length rows - 0 < sheet_fuel rows.
Proof.
  unfold sheet_fuel. set (n := length rows).
  assert (H : S n <= S (S n) * S n).
  { apply Nat.le_trans with (1 * S n); [lia|]. apply Nat.mul_le_mono_r. lia. }
  set (p := S (S n) * S n) in *. lia.
Qed.

(* the parser at the end of the sheet, in the root block *)
Lemma root_end pol scope emp tol rows c lg :
  parse_block pol scope emp tol rows 1 (mkP (length rows) c lg) BRoot false = ROk (mkP (length rows) c lg).
Proof.
  cbn [parse_block]. unfold next_row. cbn [p_pos].
  assert (Hn : nth_error rows (length rows) = None) by (apply nth_error_None; lia).
  rewrite Hn. reflexivity.
Qed.

(* THE UNROLLING THEOREM, for any fuel: if the parser (the code after the two repairs: shadowed
   bindings restored, empty loops skipped; remove_from_context tolerant or not) reads the sugared
   sheet [rows] successfully from context [c], then the desugaring succeeds, the desugared sheet is
   literal (no loop, no include_if, no reference), the parser — under ANY loop policies, from the
   EMPTY context — reads it successfully with every sufficient fuel, FlowParser is handed the same
   rows and pushes/registers the same groups in the same order, and the context is [c] again *)
Theorem desugar_equiv_fuel pol tol scope' emp' tol' rows f c s :
  parse_block pol ScopeRestore EmptySkip tol rows f (mkP 0 c []) BRoot false = ROk s ->
  exists rows' s',
    ds pol f rows c BRoot false = ROk (rows', skipn (p_pos s) rows)
    /\ forallb row_is_plain_literal rows' = true
    /\ (forall g, length rows' < g ->
          parse_block pol scope' emp' tol' rows' g (mkP 0 [] []) BRoot false = ROk s')
    /\ toks (rev (p_log s')) = toks (rev (p_log s))
    /\ (exists its, shape (rev (p_log s)) = Some its)
    /\ p_ctx s = c /\ p_ctx s' = [].
Proof.
  intros H. destruct (unroll_ok pol tol rows f _ _ _ _ H) as [out [evs [Hd [Hl [Hs _]]]]].
  cbn [p_pos p_ctx p_log skipn] in Hd, Hl. rewrite app_nil_r in Hl.
  destruct (lit_run pol scope' emp' tol' _ _ Hs out 0 [] [] (At_self out)) as [evs' [Ht Hrun]].
  destruct (Hrun BRoot 1 _ (root_end pol scope' emp' tol' out [] (evs' ++ []))) as [f' Hf'].
  exists out, (mkP (length out) [] (evs' ++ [])). repeat split.
  - exact Hd.
  - exact (LitSem_literal _ _ Hs).
  - intros g Hg. refine (fuel_irrelevant _ _ _ _ _ _ _ _ _ _ _ Hf' ltac:(discriminate) _). cbn [p_pos]. lia.
  - cbn [p_log]. rewrite app_nil_r, Hl. exact Ht.
  - rewrite Hl. exact (LitSem_shape _ _ Hs).
  - exact (ctx_preserved _ _ _ _ _ _ _ _ _ H).
Qed.

(* ------------------------------------------------------------------ 3. failures *)
Lemma crestore_tolerant_some c x sv : exists c', crestore true c x sv = Some c'.
Proof.
  unfold crestore. destruct sv as [v|]; [eexists; reflexivity|].
  destruct (cpop c x); eexists; reflexivity.
Qed.

Section UnrollErr.
Variable pol : undefined_policy.
Variable tol : bool.
Variable rows : list raw.
Notation PB := (parse_block pol ScopeRestore EmptySkip tol rows).
Notation DS := (ds pol).

Definition unroll_err_at (f : nat) : Prop :=
  forall s bt omit e,
    PB f s bt omit = RErr e -> (tol = true \/ e <> KeyErr) ->
    DS f (skipn (p_pos s) rows) (p_ctx s) bt omit = RErr e.

Lemma iter_err f (IHf : unroll_err_at f) bookmark c x idx :
  forall elems n st e,
    (p_ctx st = c \/ exists e0 m, p_ctx st = bind_loop c x idx e0 m) ->
    loop_iter (fun st0 => PB f st0 BFor false) bookmark x idx elems n st = RErr e ->
    (tol = true \/ e <> KeyErr) ->
    ds_iter (fun c' => DS f (skipn bookmark rows) c' BFor false) c x idx elems n (skipn (p_pos st) rows) = RErr e.
Proof.
  induction elems as [|e0 more IH]; intros n st e Hinv H Hk; cbn [loop_iter ds_iter] in H |- *; [discriminate|].
  assert (Hb : bind_loop (p_ctx st) x idx e0 n = bind_loop c x idx e0 n).
  { destruct Hinv as [->|[e1 [m1 ->]]]; [reflexivity|apply bind_loop_twice]. }
  destruct (PB f (mkP bookmark (bind_loop (p_ctx st) x idx e0 n) (EvEnter BFor false :: p_log st)) BFor false) as [st1|e1] eqn:E1.
  - pose proof (ctx_preserved _ _ _ _ _ _ _ _ _ E1) as Hc1. cbn [p_ctx] in Hc1. rewrite Hb in Hc1.
    destruct (unroll_ok pol tol rows f _ _ _ _ E1) as [out1 [evs1 [Hd1 _]]]. cbn [p_pos p_ctx] in Hd1.
    rewrite Hb in Hd1. rewrite Hd1.
    rewrite (IH (S n) st1 e (or_intror (ex_intro _ e0 (ex_intro _ n Hc1))) H Hk). reflexivity.
  - inversion H; subst e1. pose proof (IHf _ _ _ _ E1 Hk) as Hd1. cbn [p_pos p_ctx] in Hd1.
    rewrite Hb in Hd1. rewrite Hd1. reflexivity.
Qed.

Theorem unroll_err : forall f, unroll_err_at f.
Proof.
  induction f as [|f IH]; intros s bt omit e H Hk; cbn [parse_block] in H.
  { inversion H; subst. reflexivity. }
  destruct (nth_error rows (p_pos s)) as [r|] eqn:Hn.
  2:{ unfold next_row in H. rewrite Hn in H. cbn [option_map] in H.
      rewrite (skipn_nth_none _ _ Hn). cbn [ds].
      destruct bt; cbn [end_of_block] in H |- *; try discriminate; inversion H; reflexivity. }
  rewrite (skipn_nth_some _ _ _ Hn). cbn [ds].
  destruct (next_row pol rows s omit) as [[s1 orow]|e0] eqn:En.
  2:{ unfold next_row in En. rewrite Hn in En. destruct omit; [discriminate|].
      destruct (instantiate pol (p_ctx s) r); [discriminate|]. inversion En; inversion H; subst. reflexivity. }
  destruct (next_row_some _ _ _ _ _ _ _ Hn En) as [row [e1 [-> [Hrow [Hp1 [Hc1 [Hl1 Ht1]]]]]]].
  cbn [option_map] in H. rewrite Hrow. rewrite <- Hp1.
  destruct (end_of_block bt (Some (i_kind row))) as [[|]|e0] eqn:Ee; [discriminate| |inversion H; reflexivity].
  (* a nested call that succeeds / fails *)
  assert (Hok : forall X b o1 s2, PB f X b o1 = ROk s2 -> p_ctx X = p_ctx s ->
            exists out2, DS f (skipn (p_pos X) rows) (p_ctx s) b o1 = ROk (out2, skipn (p_pos s2) rows) /\ p_ctx s2 = p_ctx s).
  { intros X b o1 s2 HX HcX. destruct (unroll_ok pol tol rows f _ _ _ _ HX) as [o2 [ev2 [Hd _]]].
    exists o2. rewrite <- HcX. split; [exact Hd|]. exact (ctx_preserved _ _ _ _ _ _ _ _ _ HX). }
  assert (Herr : forall X b o1, PB f X b o1 = RErr e -> p_ctx X = p_ctx s ->
            DS f (skipn (p_pos X) rows) (p_ctx s) b o1 = RErr e).
  { intros X b o1 HX HcX. rewrite <- HcX. exact (IH _ _ _ _ HX Hk). }
  destruct (omit || negb (i_inc row)) eqn:Esk.
  - assert (Hskipblock : forall b,
              match PB f (log s1 (EvEnter b true)) b true with ROk s2 => PB f s2 bt omit | RErr e => RErr e end = RErr e ->
              match DS f (skipn (p_pos s1) rows) (p_ctx s) b true with
              | ROk (_, rest2) => DS f rest2 (p_ctx s) bt omit
              | RErr e => RErr e
              end = RErr e).
    { intros b Hm. destruct (PB f (log s1 (EvEnter b true)) b true) as [s2|e2] eqn:E2.
      - destruct (Hok _ _ _ _ E2 Hc1) as [o2 [Hd2 Hc2]]. cbn [log p_pos] in Hd2. rewrite Hd2.
        exact (Herr _ _ _ Hm Hc2).
      - inversion Hm; subst e2. pose proof (Herr _ _ _ E2 Hc1) as Hd2. cbn [log p_pos] in Hd2. rewrite Hd2. reflexivity. }
    destruct (i_kind row); [exact (Hskipblock _ H)|exact (Herr _ _ _ H Hc1)|exact (Hskipblock _ H)|exact (Herr _ _ _ H Hc1)|exact (Herr _ _ _ H Hc1)].
  - apply orb_false_iff in Esk. destruct Esk as [-> Hinc].
    destruct (i_kind row) eqn:Ek.
    + destruct (i_vars row) as [|x more]; [inversion H; reflexivity|]. destruct x as [|x0 xr]; [inversion H; reflexivity|].
      set (x := x0 :: xr) in *. unfold idx_of.
      set (idx := match more with i :: _ => match i with [] => None | _ => Some i end | [] => None end) in *.
      destruct (loop_iter (fun st => PB f st BFor false) (p_pos s1) x idx (i_iter row) 0 (log s1 EvPush)) as [s3|e3] eqn:E3.
      2:{ inversion H; subst e3.
          pose proof (iter_err f IH (p_pos s1) (p_ctx s) x idx (i_iter row) 0 (log s1 EvPush) e (or_introl Hc1) E3 Hk) as HdI.
          cbn [log p_pos] in HdI. rewrite HdI. reflexivity. }
      assert (Hinv3 : p_ctx s3 = p_ctx s \/ exists e0 m, p_ctx s3 = bind_loop (p_ctx s) x idx e0 m).
      { refine (loop_iter_ctx _ _ x idx (p_ctx s) _ _ _ (log s1 EvPush) _ (or_introl Hc1) E3).
        intros st st' Hb. exact (ctx_preserved _ _ _ _ _ _ _ _ _ Hb). }
      destruct (iter_ok pol tol rows f (unroll_ok pol tol rows f) (p_pos s1) (p_ctx s) x idx (i_iter row) 0 (log s1 EvPush) s3 (or_introl Hc1) E3)
        as [bodies [evsI [HdI _]]]. cbn [log p_pos] in HdI. rewrite HdI.
      destruct (match i_iter row with [] => PB f (log s3 (EvEnter BFor true)) BFor true | _ => ROk s3 end) as [s3'|eo] eqn:Eo.
      2:{ inversion H; subst eo. destruct (i_iter row) as [|e0 el]; [|discriminate].
          cbn [loop_iter] in E3. inversion E3; subst s3.
          pose proof (Herr _ _ _ Eo Hc1) as Hdo. cbn [log p_pos] in Hdo. rewrite Hdo. reflexivity. }
      assert (Hskip : match i_iter row with [] => DS f (skipn (p_pos s1) rows) (p_ctx s) BFor true | _ => ROk ([], skipn (p_pos s3) rows) end
                      = ROk ([], skipn (p_pos s3') rows) /\ p_ctx s3' = p_ctx s3).
      { destruct (i_iter row) as [|e0 el].
        - cbn [loop_iter] in E3. inversion E3; subst s3.
          destruct (unroll_ok pol tol rows f _ _ _ _ Eo) as [oo [evo [Hdo [_ [_ Hoo]]]]]. cbn [log p_pos p_ctx] in Hdo.
          rewrite (Hoo eq_refl), Hc1 in Hdo. split; [exact Hdo|]. exact (ctx_preserved _ _ _ _ _ _ _ _ _ Eo).
        - inversion Eo; subst. split; reflexivity. }
      destruct Hskip as [Hdo Hco]. rewrite Hdo.
      cbn [log p_ctx p_pos p_log saved_of] in H.
      assert (Hrest : forall c', restore_loop tol (p_ctx s3') x idx (cget (p_ctx s1) x) (saved_idx (p_ctx s1) idx) = Some c' -> c' = p_ctx s).
      { intros c' Hr. rewrite Hco, Hc1 in Hr. exact (loop_exit_ctx _ _ _ _ _ _ Hinv3 Hr). }
      unfold restore_loop, saved_idx in Hrest.
      assert (Hfin : forall c2, c2 = p_ctx s -> PB f (mkP (p_pos s3') c2 (EvEnd (i_id row) :: p_log s3')) bt false = RErr e ->
                  match DS f (skipn (p_pos s3') rows) (p_ctx s) bt false with
                  | ROk (out, rem) => ROk (lit_row KBeginBlock (i_id row) (i_text row) :: bodies ++ end_row :: out, rem)
                  | RErr e => RErr e
                  end = RErr e).
      { intros c2 -> Hm. pose proof (Herr _ _ _ Hm eq_refl) as Hd3. cbn [p_pos] in Hd3. rewrite Hd3. reflexivity. }
      assert (Hkey : forall c0 y sv, crestore tol c0 y sv = None -> RErr (T:=pst) KeyErr = RErr e -> False).
      { intros c0 y sv Hc Hq. inversion Hq; subst e. destruct Hk as [Ht|Hne]; [|apply Hne; reflexivity].
        rewrite Ht in Hc. destruct (crestore_tolerant_some c0 y sv) as [c' E']. congruence. }
      destruct (crestore tol (p_ctx s3') x (cget (p_ctx s1) x)) as [c1|] eqn:Ec1; [|exfalso; exact (Hkey _ _ _ Ec1 H)].
      destruct idx as [i|].
      * destruct (crestore tol c1 i (cget (p_ctx s1) i)) as [c2|] eqn:Ec2; [|exfalso; exact (Hkey _ _ _ Ec2 H)].
        exact (Hfin _ (Hrest _ eq_refl) H).
      * exact (Hfin _ (Hrest _ eq_refl) H).
    + destruct bt; cbn in Ee; discriminate.
    + destruct (PB f (log (log s1 EvPush) (EvEnter BBlock false)) BBlock false) as [s2|e2] eqn:E2.
      * destruct (Hok _ _ _ _ E2 Hc1) as [o2 [Hd2 Hc2]]. cbn [log p_pos] in Hd2. rewrite Hd2.
        pose proof (Herr _ _ _ H Hc2) as Hd3. cbn [log p_pos] in Hd3. rewrite Hd3. reflexivity.
      * inversion H; subst e2. pose proof (Herr _ _ _ E2 Hc1) as Hd2. cbn [log p_pos] in Hd2. rewrite Hd2. reflexivity.
    + destruct bt; cbn in Ee; discriminate.
    + pose proof (Herr _ _ _ H Hc1) as Hd3. cbn [log p_pos] in Hd3. rewrite Hd3. reflexivity.
Qed.

End UnrollErr.

(* ------------------------------------------------------------------ 4'. the sheet as the code reads it (run_sheet) *)
(* what the probes of this run found in the code (Gen/Tables.v, regenerated): the two repairs are in *)
Lemma policies_repaired :
  loop_scope_policy = ScopeRestore /\ empty_loop_policy = EmptySkip /\ remove_tolerant = true.
Proof. repeat split; vm_compute; reflexivity. Qed.

Lemma run_sheet_repaired pol rows c :
  run_sheet pol rows c = parse_block pol ScopeRestore EmptySkip true rows (sheet_fuel rows) (mkP 0 c []) BRoot false.
Proof.
  unfold run_sheet. destruct policies_repaired as [-> [-> ->]]. reflexivity.
Qed.

(* the fuel of run_sheet is never the reason of a failure *)
Theorem run_sheet_fuel_suffices pol rows c : run_sheet pol rows c <> RErr OutOfFuel.
Proof. unfold run_sheet. apply no_out_of_fuel. apply sheet_fuel_enough. Qed.

Theorem desugar_equiv pol rows c s :
  run_sheet pol rows c = ROk s ->
  exists rows' s',
    desugar pol c rows = ROk rows'
    /\ forallb row_is_plain_literal rows' = true
    /\ run_sheet pol rows' [] = ROk s'
    /\ toks (rev (p_log s')) = toks (rev (p_log s))
    /\ shape (rev (p_log s')) = shape (rev (p_log s))
    /\ (exists its, shape (rev (p_log s)) = Some its)
    /\ p_ctx s = c.
Proof.
  rewrite run_sheet_repaired. intros H.
  destruct (desugar_equiv_fuel pol true loop_scope_policy empty_loop_policy remove_tolerant _ _ _ _ H)
    as [rows' [s' [Hd [Hlit [Hrun [Ht [Hsh [Hc _]]]]]]]].
  exists rows', s'. unfold desugar. rewrite Hd. repeat split; try assumption.
  - unfold run_sheet. apply Hrun. pose proof (sheet_fuel_enough rows'). fold (sheet_fuel rows'). lia.
  - unfold shape. rewrite Ht. reflexivity.
Qed.

(* the converse and the failures: the desugaring is defined exactly when the sheet is read
   successfully, and fails with the parser's error otherwise *)
Theorem desugar_error_iff pol rows c e :
  run_sheet pol rows c = RErr e <-> desugar pol c rows = RErr e.
Proof.
  rewrite run_sheet_repaired. unfold desugar. split.
  - intros H. pose proof (unroll_err pol true rows _ _ _ _ _ H (or_introl eq_refl)) as Hd.
    cbn [p_pos p_ctx skipn] in Hd. rewrite Hd. reflexivity.
  - intros Hd. destruct (parse_block pol ScopeRestore EmptySkip true rows (sheet_fuel rows) (mkP 0 c []) BRoot false) as [s|e'] eqn:H.
    + destruct (unroll_ok pol true rows _ _ _ _ _ H) as [out [evs [Hd' _]]]. cbn [p_pos p_ctx skipn] in Hd'.
      rewrite Hd' in Hd. discriminate.
    + pose proof (unroll_err pol true rows _ _ _ _ _ H (or_introl eq_refl)) as Hd'.
      cbn [p_pos p_ctx skipn] in Hd'. rewrite Hd' in Hd. inversion Hd; reflexivity.
Qed.

Corollary desugar_defined_iff pol rows c :
  (exists s, run_sheet pol rows c = ROk s) <-> (exists rows', desugar pol c rows = ROk rows').
Proof.
  split.
  - intros [s H]. destruct (desugar_equiv _ _ _ _ H) as [rows' [_ [Hd _]]]. exists rows'. exact Hd.
  - intros [rows' Hd]. destruct (run_sheet pol rows c) as [s|e] eqn:H; [exists s; reflexivity|].
    apply desugar_error_iff in H. rewrite H in Hd. discriminate.
Qed.

(* ------------------------------------------------------------------ 5. the shape of the desugaring (equations of ds, any fuel) *)
Section Laws.
Variable pol : undefined_policy.
Notation DS := (ds pol).

(* (a) a row whose include_if is false disappears; its id and text cells do not occur in the law *)
Theorem ds_excluded_row f r rest c bt :
  eval_inc pol c (rw_inc r) = ROk false -> rw_kind r = KPlain ->
  DS (S f) (r :: rest) c bt false = DS f rest c bt false.
Proof.
  intros Hi Hk. cbn [ds]. unfold instantiate. rewrite Hi. cbn [i_kind i_inc negb orb]. rewrite Hk.
  rewrite end_of_block_plain. reflexivity.
Qed.

(* (b) a begin_for / begin_block whose include_if is false disappears with everything up to its
   terminator: what follows is found by reading the rows with omit (c) *)
Theorem ds_excluded_block f r rest c bt :
  eval_inc pol c (rw_inc r) = ROk false -> (rw_kind r = KBeginFor \/ rw_kind r = KBeginBlock) ->
  DS (S f) (r :: rest) c bt false
  = match DS f rest c (match rw_kind r with KBeginFor => BFor | _ => BBlock end) true with
    | ROk (_, rest2) => DS f rest2 c bt false
    | RErr e => RErr e
    end.
Proof.
  intros Hi Hk. cbn [ds]. unfold instantiate. rewrite Hi. cbn [i_kind i_inc negb orb].
  destruct Hk as [Hk|Hk]; rewrite Hk; [rewrite end_of_block_for|rewrite end_of_block_block]; reflexivity.
Qed.

(* (c) reading with omit produces nothing and looks at nothing but the row types: any other rows
   of the same types, under any other context, are skipped in the same way *)
Theorem ds_omit_types_only : forall f rest rest' c c' bt,
  map rw_kind rest = map rw_kind rest' ->
  same_skip (DS f rest c bt true) (DS f rest' c' bt true).
Proof.
  induction f as [|f IH]; intros rest rest' c c' bt Hm; [reflexivity|].
  destruct rest as [|r rest]; destruct rest' as [|r' rest']; try discriminate.
  - cbn [ds]. destruct (end_of_block bt None) as [b|e]; cbn; auto.
  - cbn [map] in Hm. inversion Hm as [[Hk Hm']]. cbn [ds i_kind i_inc orb]. rewrite <- Hk.
    destruct (end_of_block bt (Some (rw_kind r))) as [[|]|e]; [cbn; auto| |reflexivity].
    assert (Hnest : forall b, same_skip
              match DS f rest c b true with ROk (_, rest2) => DS f rest2 c bt true | RErr e => RErr e end
              match DS f rest' c' b true with ROk (_, rest2) => DS f rest2 c' bt true | RErr e => RErr e end).
    { intros b. pose proof (IH rest rest' c c' b Hm') as H1. unfold same_skip in H1.
      destruct (DS f rest c b true) as [[o rem]|e]; destruct (DS f rest' c' b true) as [[o' rem']|e']; try contradiction.
      - destruct H1 as [_ [_ Hr]]. exact (IH _ _ _ _ _ Hr).
      - subst e'. reflexivity. }
    destruct (rw_kind r); [apply Hnest|apply IH; exact Hm'|apply Hnest|apply IH; exact Hm'|apply IH; exact Hm'].
Qed.

(* (d) a loop: begin_block (rendered head) . the body once per element, in order, desugared in the
   context extended with the element (and its index) . end_block . the rest of the enclosing block,
   desugared in the context the loop was reached with *)
Lemma ds_iter_bodies (body : ctx -> res (list raw * list raw)) c x idx rem :
  forall elems n bodies rem0,
    length bodies = length elems ->
    (forall k e, nth_error elems k = Some e ->
       exists b, nth_error bodies k = Some b /\ body (bind_loop c x idx e (n + k)) = ROk (b, rem)) ->
    ds_iter body c x idx elems n rem0 = ROk (concat bodies, match elems with [] => rem0 | _ => rem end).
Proof.
  induction elems as [|e more IH]; intros n bodies rem0 Hlen Hb; destruct bodies as [|b bs]; try discriminate; [reflexivity|].
  cbn [ds_iter concat]. destruct (Hb 0 e eq_refl) as [b0 [Hb0 He]]. cbn in Hb0. inversion Hb0; subst b0.
  rewrite Nat.add_0_r in He. rewrite He.
  rewrite (IH (S n) bs rem).
  - destruct more; reflexivity.
  - cbn in Hlen. lia.
  - intros k e' Hk. destruct (Hb (S k) e' Hk) as [b' [Hb' He']]. exists b'. split; [exact Hb'|].
    replace (S n + k) with (n + S k) by lia. exact He'.
Qed.

Theorem ds_loop f r rest c bt row x more :
  loop_head pol c r row x more -> i_iter row <> [] ->
  forall bodies rem out rem',
    bodies_of pol f rest c x (idx_of more) (i_iter row) bodies rem ->
    DS f rem c bt false = ROk (out, rem') ->
    DS (S f) (r :: rest) c bt false
    = ROk (lit_row KBeginBlock (i_id row) (i_text row) :: concat bodies ++ end_row :: out, rem').
Proof.
  intros [Hi [Hk [Hinc [Hv Hx]]]] Hne bodies rem out rem' [Hlen Hb] Hout.
  cbn [ds]. rewrite Hi, Hk, end_of_block_for, Hinc. cbn [negb orb]. rewrite Hv.
  destruct x as [|x0 xr]; [contradiction Hx; reflexivity|].
  rewrite (ds_iter_bodies (fun c' => DS f rest c' BFor false) c (x0 :: xr) (idx_of more) rem (i_iter row) 0 bodies rest Hlen Hb).
  destruct (i_iter row) as [|e0 el]; [contradiction Hne; reflexivity|].
  rewrite Hout. reflexivity.
Qed.

(* a loop over nothing: an empty block; its body is found by reading with omit (c) *)
Theorem ds_loop_empty f r rest c bt row x more o rem out rem' :
  loop_head pol c r row x more -> i_iter row = [] ->
  DS f rest c BFor true = ROk (o, rem) ->
  DS f rem c bt false = ROk (out, rem') ->
  DS (S f) (r :: rest) c bt false
  = ROk (lit_row KBeginBlock (i_id row) (i_text row) :: end_row :: out, rem').
Proof.
  intros [Hi [Hk [Hinc [Hv Hx]]]] Hit Ho Hout.
  cbn [ds]. rewrite Hi, Hk, end_of_block_for, Hinc. cbn [negb orb]. rewrite Hv.
  destruct x as [|x0 xr]; [contradiction Hx; reflexivity|].
  rewrite Hit. cbn [ds_iter]. rewrite Ho, Hout. reflexivity.
Qed.

(* (e) nesting composes: a loop whose body starts with a loop [r2].  The inner loop is unrolled inside
   every copy of the outer body, in the context extended first with the outer, then with the inner
   variable (an inner variable of the same name shadows the outer one, and only inside).
   heads/inner/tails: per outer element, the inner head as read there, the copies of the inner body,
   and the desugared rest of the outer body *)
Theorem ds_nested_loops f r1 r2 rest c bt row1 x more y more2 :
  loop_head pol c r1 row1 x more -> i_iter row1 <> [] ->
  forall heads inner tails rem out rem',
    nested_bodies_of pol f r2 rest c x (idx_of more) (i_iter row1) y more2 heads inner tails rem ->
    DS (S f) rem c bt false = ROk (out, rem') ->
    DS (S (S f)) (r1 :: r2 :: rest) c bt false
    = ROk (lit_row KBeginBlock (i_id row1) (i_text row1)
           :: concat (map nested_block (combine heads (combine inner tails))) ++ end_row :: out, rem').
Proof.
  intros Hh Hne heads inner tails rem out rem' [Lh [Li [Lt Hall]]] Hout.
  refine (ds_loop (S f) r1 (r2 :: rest) c bt row1 x more Hh Hne _ rem out rem' _ Hout). split.
  - rewrite map_length, !combine_length, Lh, Li, Lt. lia.
  - intros k e He. destruct (Hall k e He) as [row2 [Bk [tail [rem2 [Hhd [Hin [Ht [Hh2 [Hne2 [Hb2 Htail]]]]]]]]]].
    eexists. split.
    + apply map_nth_error. instantiate (1 := (row2, (Bk, tail))).
      clear - Hhd Hin Ht. revert k inner tails Hhd Hin Ht.
      induction heads as [|h hs IH]; intros [|k] inner tails Hhd Hin Ht; destruct inner as [|i0 is]; destruct tails as [|t0 ts];
        cbn in *; try discriminate.
      * inversion Hhd; inversion Hin; inversion Ht; subst. reflexivity.
      * exact (IH _ _ _ Hhd Hin Ht).
    + unfold nested_block. cbn [fst snd].
      exact (ds_loop f r2 rest _ BFor row2 y more2 Hh2 Hne2 Bk rem2 tail rem Hb2 Htail).
Qed.

(* (f) a desugared sheet is a fixed point: nothing is left to unroll, at any depth, in any context *)
Lemma ds_literal_segment seg tk : LitSem seg tk ->
  forall k c bt g0 o rem,
    (forall g, g0 <= g -> DS g k c bt false = ROk (o, rem)) ->
    forall f, length seg + g0 <= f -> DS f (seg ++ k) c bt false = ROk (seg ++ o, rem).
Proof.
  induction 1 as [|id text rest t _ IH|id text body tb rest t _ IHb _ IHr]; intros k c bt g0 o rem Hk f Hf.
  - apply Hk. cbn in Hf. lia.
  - destruct f as [|f]; [cbn in Hf; lia|]. cbn [app ds]. rewrite instantiate_lit. cbn [i_kind i_inc negb orb i_id i_text].
    rewrite end_of_block_plain. rewrite (IH k c bt g0 o rem Hk f); [reflexivity|cbn in Hf; lia].
  - destruct f as [|f]; [cbn in Hf; lia|]. cbn [app ds]. rewrite instantiate_lit. cbn [i_kind i_inc negb orb i_id i_text].
    rewrite end_of_block_block. rewrite <- app_assoc. cbn [app].
    cbn [length] in Hf. rewrite app_length in Hf. cbn [length] in Hf.
    rewrite (IHb (end_row :: rest ++ k) c BBlock 1 [] (rest ++ k)).
    + rewrite (IHr k c bt g0 o rem Hk f) by lia. rewrite app_nil_r, <- app_assoc. reflexivity.
    + intros g Hg. destruct g as [|g]; [lia|]. reflexivity.
    + lia.
Qed.

Theorem ds_fixed_point seg tk c : LitSem seg tk -> desugar pol c seg = ROk seg.
Proof.
  intros H. unfold desugar.
  rewrite <- (app_nil_r seg) at 2.
  rewrite (ds_literal_segment seg tk H [] c BRoot 1 [] []).
  - rewrite app_nil_r. reflexivity.
  - intros g Hg. destruct g as [|g]; [lia|]. reflexivity.
  - pose proof (sheet_fuel_enough seg). lia.
Qed.

End Laws.


Lemma desugar_LitSem pol rows c rows' : desugar pol c rows = ROk rows' -> exists tk, LitSem rows' tk.
Proof.
  intros Hd. destruct (run_sheet pol rows c) as [s|e] eqn:H.
  - rewrite run_sheet_repaired in H.
    destruct (unroll_ok pol true rows _ _ _ _ _ H) as [out [evs [Hd' [_ [Hs _]]]]]. cbn [p_pos p_ctx skipn] in Hd'.
    revert Hd. unfold desugar. rewrite Hd'. intros Hd. exists (rtoks evs). congruence.
  - apply desugar_error_iff in H. congruence.
Qed.

Theorem desugar_idempotent pol rows c rows' c' :
  desugar pol c rows = ROk rows' -> desugar pol c' rows' = ROk rows'.
Proof.
  intros Hd. destruct (desugar_LitSem _ _ _ _ Hd) as [tk Hs]. exact (ds_fixed_point pol _ _ c' Hs).
Qed.

(* ------------------------------------------------------------------ 6. excluded content, in one statement *)
Lemma skip_events_no_tokens ev : Forall skip_event ev -> rtoks ev = [].
Proof.
  induction 1 as [|e ev He _ IH]; [reflexivity|]. rewrite rtoks_cons, IH.
  destruct e as [p|i t|b [|]| |i]; try contradiction. reflexivity.
Qed.

(* rows under a false include_if and omitted blocks: removed by the desugaring (a, b), never looked at
   beyond their types (c), and — in the parser — never instantiated and without any token (d) *)
Theorem excluded_content_removed pol :
  (forall f r rest c bt,
     eval_inc pol c (rw_inc r) = ROk false -> rw_kind r = KPlain ->
     ds pol (S f) (r :: rest) c bt false = ds pol f rest c bt false)
  /\ (forall f r rest c bt,
     eval_inc pol c (rw_inc r) = ROk false -> (rw_kind r = KBeginFor \/ rw_kind r = KBeginBlock) ->
     ds pol (S f) (r :: rest) c bt false
     = match ds pol f rest c (match rw_kind r with KBeginFor => BFor | _ => BBlock end) true with
       | ROk (_, rest2) => ds pol f rest2 c bt false
       | RErr e => RErr e
       end)
  /\ (forall f rest rest' c c' bt,
     map rw_kind rest = map rw_kind rest' -> same_skip (ds pol f rest c bt true) (ds pol f rest' c' bt true))
  /\ (forall scope emp tol rows f s bt s',
     parse_block pol scope emp tol rows f s bt true = ROk s' ->
     p_ctx s' = p_ctx s /\ exists ev, p_log s' = ev ++ p_log s /\ Forall skip_event ev /\ toks (rev ev) = []).
Proof.
  split; [exact (ds_excluded_row pol)|]. split; [exact (ds_excluded_block pol)|]. split; [exact (ds_omit_types_only pol)|].
  intros scope emp tol rows f s bt s' H. destruct (omit_is_inert _ _ _ _ _ _ _ _ _ H) as [Hc [ev [Hl Hf]]].
  split; [exact Hc|]. exists ev. repeat split; try assumption. exact (skip_events_no_tokens _ Hf).
Qed.

(* ------------------------------------------------------------------ 7. context extension = textual substitution *)
Section Sub.
Variable pol : undefined_policy.
Variable x : str.
Variable v : value.

Lemma str_eqb_false_neq a b : str_eqb a b = false -> a <> b.
Proof. intros H ->. rewrite str_eqb_refl in H. discriminate. Qed.

Lemma render_sub c1 c2 t :
  agree_except x c1 c2 -> cget c1 x = Some v ->
  render pol c1 t = render pol c2 (map (sub_seg x v) t).
Proof.
  intros Ha Hx. induction t as [|[s|y] t IH]; cbn [map sub_seg render]; [reflexivity|rewrite IH; reflexivity|].
  destruct (str_eqb y x) eqn:E.
  - apply str_eqb_eq in E. subst y. rewrite Hx. cbn [render]. rewrite IH. reflexivity.
  - cbn [render]. rewrite (Ha y (str_eqb_false_neq _ _ E)), IH. reflexivity.
Qed.

Lemma instantiate_sub c1 c2 r :
  agree_except x c1 c2 -> cget c1 x = Some v ->
  instantiate pol c1 r = instantiate pol c2 (sub_row x v r).
Proof.
  intros Ha Hx. unfold instantiate, sub_row. cbn [rw_inc rw_id rw_text rw_kind rw_vars rw_iter].
  assert (Hi : eval_inc pol c1 (rw_inc r) = eval_inc pol c2 (sub_inc x v (rw_inc r))).
  { destruct (rw_inc r) as [| |y|y pos w]; cbn [sub_inc eval_inc]; try reflexivity.
    - destruct (str_eqb y x) eqn:E.
      + apply str_eqb_eq in E. subst y. rewrite Hx.
        destruct (str_eqb (lower (strip (value_str v))) s_false); reflexivity.
      + cbn [eval_inc]. rewrite (Ha y (str_eqb_false_neq _ _ E)). reflexivity.
    - destruct (str_eqb y x) eqn:E.
      + apply str_eqb_eq in E. subst y. rewrite Hx.
        destruct (if pos then value_is_word v w else negb (value_is_word v w)); reflexivity.
      + cbn [eval_inc]. rewrite (Ha y (str_eqb_false_neq _ _ E)). reflexivity. }
  rewrite Hi. destruct (eval_inc pol c2 (sub_inc x v (rw_inc r))) as [[|]|]; try reflexivity.
  rewrite <- (render_sub c1 c2 (rw_id r) Ha Hx), <- (render_sub c1 c2 (rw_text r) Ha Hx).
  destruct (render pol c1 (rw_id r)); [|reflexivity]. destruct (render pol c1 (rw_text r)); [|reflexivity].
  destruct (rw_kind r); try reflexivity.
  assert (Ht : eval_iter pol c1 (rw_iter r) = eval_iter pol c2 (sub_iter x v (rw_iter r))).
  { destruct (rw_iter r) as [l|y]; cbn [sub_iter eval_iter]; [reflexivity|].
    destruct (str_eqb y x) eqn:E.
    - apply str_eqb_eq in E. subst y. rewrite Hx. destruct v; reflexivity.
    - cbn [eval_iter]. rewrite (Ha y (str_eqb_false_neq _ _ E)). reflexivity. }
  rewrite Ht. reflexivity.
Qed.

Lemma instantiate_vars c r row : instantiate pol c r = ROk row -> i_inc row = true -> i_vars row = rw_vars r.
Proof.
  unfold instantiate. destruct (eval_inc pol c (rw_inc r)) as [[|]|]; try discriminate.
  - destruct (render pol c (rw_id r)); [|discriminate]. destruct (render pol c (rw_text r)); [|discriminate].
    destruct (rw_kind r); try (intros H; inversion H; reflexivity).
    destruct (eval_iter pol c (rw_iter r)); intros H; inversion H; reflexivity.
  - intros H; inversion H; subst. cbn. discriminate.
Qed.

Lemma agree_bind c1 c2 y idy e n :
  agree_except x c1 c2 -> agree_except x (bind_loop c1 y idy e n) (bind_loop c2 y idy e n).
Proof.
  intros Ha z Hz. unfold bind_loop.
  assert (H1 : cget (cset c1 y (VS e)) z = cget (cset c2 y (VS e)) z).
  { destruct (str_eqb y z) eqn:E.
    - apply str_eqb_eq in E. subst z. rewrite !cget_cset_same. reflexivity.
    - pose proof (str_eqb_false_neq _ _ E) as Hn.
      rewrite (cget_cset_other c1 y z (VS e) Hn), (cget_cset_other c2 y z (VS e) Hn). exact (Ha z Hz). }
  destruct idy as [i|]; [|exact H1].
  destruct (str_eqb i z) eqn:E.
  - apply str_eqb_eq in E. subst z. rewrite !cget_cset_same. reflexivity.
  - pose proof (str_eqb_false_neq _ _ E) as Hn.
    rewrite (cget_cset_other _ i z (VI n) Hn), (cget_cset_other _ i z (VI n) Hn). exact H1.
Qed.

Lemma bound_bind c y idy e n :
  cget c x = Some v -> y <> x -> (forall i, idy = Some i -> i <> x) ->
  cget (bind_loop c y idy e n) x = Some v.
Proof.
  intros Hx Hy Hi. unfold bind_loop. destruct idy as [i|].
  - rewrite cget_cset_other by (exact (Hi i eq_refl)). rewrite cget_cset_other by exact Hy. exact Hx.
  - rewrite cget_cset_other by exact Hy. exact Hx.
Qed.

Notation SUB := (map (sub_row x v)).

Lemma ds_iter_sub (b1 b2 : ctx -> res (list raw * list raw)) c1 c2 y idy :
  agree_except x c1 c2 -> cget c1 x = Some v -> y <> x -> (forall i, idy = Some i -> i <> x) ->
  (forall d1 d2, agree_except x d1 d2 -> cget d1 x = Some v ->
     b2 d2 = map_rem SUB (b1 d1) /\ (forall o rem, b1 d1 = ROk (o, rem) -> Forall (no_rebind x) rem)) ->
  forall elems n rem0,
    ds_iter b2 c2 y idy elems n (SUB rem0) = map_rem SUB (ds_iter b1 c1 y idy elems n rem0)
    /\ (Forall (no_rebind x) rem0 -> forall o rem, ds_iter b1 c1 y idy elems n rem0 = ROk (o, rem) -> Forall (no_rebind x) rem).
Proof.
  intros Ha Hx Hy Hi Hb. induction elems as [|e more IH]; intros n rem0; cbn [ds_iter].
  - split; [reflexivity|]. intros H0 o rem H. inversion H; subst. exact H0.
  - destruct (Hb (bind_loop c1 y idy e n) (bind_loop c2 y idy e n) (agree_bind _ _ _ _ _ _ Ha) (bound_bind _ _ _ _ _ Hx Hy Hi)) as [Hb1 Hb2].
    rewrite Hb1. destruct (b1 (bind_loop c1 y idy e n)) as [[o1 rem1]|e1]; cbn [map_rem]; [|split; [reflexivity|discriminate]].
    destruct (IH (S n) rem1) as [IH1 IH2]. rewrite IH1.
    destruct (ds_iter b1 c1 y idy more (S n) rem1) as [[o2 rem2]|e2] eqn:E2; cbn [map_rem]; (split; [reflexivity|]).
    + intros _ o rem H. inversion H; subst. exact (IH2 (Hb2 _ _ eq_refl) _ _ eq_refl).
    + discriminate.
Qed.

Theorem ds_sub : forall f rest c1 c2 bt omit,
  agree_except x c1 c2 -> cget c1 x = Some v -> Forall (no_rebind x) rest ->
  ds pol f (SUB rest) c2 bt omit = map_rem SUB (ds pol f rest c1 bt omit)
  /\ (forall o rem, ds pol f rest c1 bt omit = ROk (o, rem) -> Forall (no_rebind x) rem).
Proof.
  induction f as [|f IH]; intros rest c1 c2 bt omit Ha Hx Hnr; [split; [reflexivity|discriminate]|].
  destruct rest as [|r rest1]; cbn [map ds].
  { destruct (end_of_block bt None) as [b|e]; cbn [map_rem]; split; try reflexivity; try discriminate.
    intros o rem H. inversion H; subst. constructor. }
  inversion Hnr as [|r0 l0 Hr Hnr1]; subst r0 l0.
  assert (Hrow : (if omit then ROk (mkI (rw_kind (sub_row x v r)) true [] [] [] []) else instantiate pol c2 (sub_row x v r))
                 = (if omit then ROk (mkI (rw_kind r) true [] [] [] []) else instantiate pol c1 r)).
  { destruct omit; [reflexivity|]. symmetry. exact (instantiate_sub c1 c2 r Ha Hx). }
  rewrite Hrow.
  destruct (if omit then ROk (mkI (rw_kind r) true [] [] [] []) else instantiate pol c1 r) as [row|e] eqn:Erow; [|split; [reflexivity|discriminate]].
  destruct (end_of_block bt (Some (i_kind row))) as [[|]|e]; [| |split; [reflexivity|discriminate]].
  { cbn [map_rem]. split; [reflexivity|]. intros o rem H. inversion H; subst. exact Hnr1. }
  (* nested call then continuation; single continuation *)
  assert (Hone : forall (K : list raw -> list raw * list raw -> res (list raw * list raw)),
            (forall o rem, K (SUB rem) (o, SUB rem) = map_rem SUB (K rem (o, rem))) -> True) by (intros; exact I).
  clear Hone.
  assert (Hcont : forall (g : list raw -> list raw),
            (match ds pol f (SUB rest1) c2 bt omit with
             | ROk (out, rem) => ROk (g out, rem) | RErr e => RErr e end
             = map_rem SUB match ds pol f rest1 c1 bt omit with
                           | ROk (out, rem) => ROk (g out, rem) | RErr e => RErr e end)
            /\ (forall o rem, match ds pol f rest1 c1 bt omit with
                              | ROk (out, rem) => ROk (g out, rem) | RErr e => RErr e end = ROk (o, rem) -> Forall (no_rebind x) rem)).
  { intros g. destruct (IH rest1 c1 c2 bt omit Ha Hx Hnr1) as [H1 H2]. rewrite H1.
    destruct (ds pol f rest1 c1 bt omit) as [[o rem]|e]; cbn [map_rem]; (split; [reflexivity|]); [|discriminate].
    intros o' rem' H. inversion H; subst. exact (H2 _ _ eq_refl). }
  assert (Hskip : forall b,
            (match ds pol f (SUB rest1) c2 b true with
             | ROk (_, rest2) => ds pol f rest2 c2 bt omit | RErr e => RErr e end
             = map_rem SUB match ds pol f rest1 c1 b true with
                           | ROk (_, rest2) => ds pol f rest2 c1 bt omit | RErr e => RErr e end)
            /\ (forall o rem, match ds pol f rest1 c1 b true with
                              | ROk (_, rest2) => ds pol f rest2 c1 bt omit | RErr e => RErr e end = ROk (o, rem) -> Forall (no_rebind x) rem)).
  { intros b. destruct (IH rest1 c1 c2 b true Ha Hx Hnr1) as [H1 H2]. rewrite H1.
    destruct (ds pol f rest1 c1 b true) as [[o rem]|e]; cbn [map_rem]; [|split; [reflexivity|discriminate]].
    exact (IH rem c1 c2 bt omit Ha Hx (H2 _ _ eq_refl)). }
  assert (Hplainskip : ds pol f (SUB rest1) c2 bt omit = map_rem SUB (ds pol f rest1 c1 bt omit)
                       /\ (forall o rem, ds pol f rest1 c1 bt omit = ROk (o, rem) -> Forall (no_rebind x) rem)).
  { exact (IH rest1 c1 c2 bt omit Ha Hx Hnr1). }
  destruct (omit || negb (i_inc row)) eqn:Esk.
  - destruct (i_kind row); [apply Hskip|exact Hplainskip|apply Hskip|exact Hplainskip|exact Hplainskip].
  - apply orb_false_iff in Esk. destruct Esk as [-> Hinc]. apply negb_false_iff in Hinc.
    destruct (i_kind row) eqn:Ek.
    + (* loop *)
      pose proof (instantiate_vars _ _ _ Erow Hinc) as Hv.
      destruct (i_vars row) as [|y more] eqn:Ev; [split; [reflexivity|discriminate]|].
      destruct y as [|y0 yr]; [split; [reflexivity|discriminate]|].
      set (y := y0 :: yr) in *.
      assert (Hy : y <> x).
      { intros ->. apply Hr. rewrite <- Hv. left. reflexivity. }
      assert (Hi : forall i, idx_of more = Some i -> i <> x).
      { intros i Hi ->. apply Hr. rewrite <- Hv. right. unfold idx_of in Hi. destruct more as [|i0 m0]; [discriminate|].
        destruct i0; [discriminate|]. inversion Hi; subst. left. reflexivity. }
      destruct (ds_iter_sub (fun c' => ds pol f rest1 c' BFor false) (fun c' => ds pol f (SUB rest1) c' BFor false)
                  c1 c2 y (idx_of more) Ha Hx Hy Hi
                  (fun d1 d2 Hda Hdx => IH rest1 d1 d2 BFor false Hda Hdx Hnr1) (i_iter row) 0 rest1) as [HI1 HI2].
      rewrite HI1.
      destruct (ds_iter (fun c' => ds pol f rest1 c' BFor false) c1 y (idx_of more) (i_iter row) 0 rest1) as [[bodies rest2]|e] eqn:EI;
        cbn [map_rem]; [|split; [reflexivity|discriminate]].
      pose proof (HI2 Hnr1 _ _ eq_refl) as Hnr2.
      assert (Hsk : (match i_iter row with [] => ds pol f (SUB rest1) c2 BFor true | _ => ROk ([], SUB rest2) end)
                    = map_rem SUB (match i_iter row with [] => ds pol f rest1 c1 BFor true | _ => ROk ([], rest2) end)
                    /\ (forall o rem, (match i_iter row with [] => ds pol f rest1 c1 BFor true | _ => ROk ([], rest2) end) = ROk (o, rem) ->
                                      Forall (no_rebind x) rem)).
      { destruct (i_iter row); [exact (IH rest1 c1 c2 BFor true Ha Hx Hnr1)|].
        split; [reflexivity|]. intros o rem H. inversion H; subst. exact Hnr2. }
      destruct Hsk as [Hsk1 Hsk2]. rewrite Hsk1.
      destruct (match i_iter row with [] => ds pol f rest1 c1 BFor true | _ => ROk ([], rest2) end) as [[oo rest3]|e];
        cbn [map_rem]; [|split; [reflexivity|discriminate]].
      destruct (IH rest3 c1 c2 bt false Ha Hx (Hsk2 _ _ eq_refl)) as [H1 H2]. rewrite H1.
      destruct (ds pol f rest3 c1 bt false) as [[o rem]|e]; cbn [map_rem]; (split; [reflexivity|]); [|discriminate].
      intros o' rem' H. inversion H; subst. exact (H2 _ _ eq_refl).
    + exact (Hcont _).
    + (* block *)
      destruct (IH rest1 c1 c2 BBlock false Ha Hx Hnr1) as [H1 H2]. rewrite H1.
      destruct (ds pol f rest1 c1 BBlock false) as [[body rest2]|e]; cbn [map_rem]; [|split; [reflexivity|discriminate]].
      destruct (IH rest2 c1 c2 bt false Ha Hx (H2 _ _ eq_refl)) as [H3 H4]. rewrite H3.
      destruct (ds pol f rest2 c1 bt false) as [[o rem]|e]; cbn [map_rem]; (split; [reflexivity|]); [|discriminate].
      intros o' rem' H. inversion H; subst. exact (H4 _ _ eq_refl).
    + exact (Hcont _).
    + exact (Hcont _).
Qed.

End Sub.

Lemma no_rebind_sub x y v rows : Forall (no_rebind x) rows -> Forall (no_rebind x) (map (sub_row y v) rows).
Proof. induction 1 as [|r l Hr _ IH]; cbn [map]; constructor; [exact Hr|exact IH]. Qed.

Lemma agree_cset x c v : agree_except x (cset c x v) c.
Proof. intros y Hy. apply cget_cset_other. intros ->. apply Hy. reflexivity. Qed.

(* desugaring the body of a loop in the context EXTENDED with the loop (and index) variable = desugaring, in
   the context the loop was reached with, the body in which {{x}} (and {{i}}) have been replaced textually —
   when no loop inside the body binds one of the two names again (then the context reading is the definition) *)
Theorem ds_body_substituted pol f rest c x idx e n bt omit b rem :
  Forall (no_rebind x) rest -> (forall i, idx = Some i -> Forall (no_rebind i) rest) ->
  ds pol f rest (bind_loop c x idx e n) bt omit = ROk (b, rem) ->
  ds pol f (subst_loop x idx e n rest) c bt omit = ROk (b, subst_loop x idx e n rem).
Proof.
  intros Hx Hi H. unfold subst_loop, bind_loop in *. destruct idx as [i|].
  - destruct (ds_sub pol i (VI n) f rest (cset (cset c x (VS e)) i (VI n)) (cset c x (VS e)) bt omit
                (agree_cset _ _ _) (cget_cset_same _ _ _) (Hi i eq_refl)) as [H1 _].
    rewrite H in H1. cbn [map_rem] in H1.
    destruct (ds_sub pol x (VS e) f (map (sub_row i (VI n)) rest) (cset c x (VS e)) c bt omit
                (agree_cset _ _ _) (cget_cset_same _ _ _) (no_rebind_sub _ _ _ _ Hx)) as [H2 _].
    rewrite H1 in H2. exact H2.
  - destruct (ds_sub pol x (VS e) f rest (cset c x (VS e)) c bt omit (agree_cset _ _ _) (cget_cset_same _ _ _) Hx) as [H2 _].
    rewrite H in H2. exact H2.
Qed.
