(* E7 — clause (g) of C01 on the compiler model: the identifiers at DEFINING positions of a compiled flow
   (flow, node, action, exit, category, case uuids) are pairwise distinct, and — for an input whose given
   `_nodeId`s are known (G) and a supply that hands out RFC-4122 strings outside G — the whole document
   checker accepts the flow:  closedb G [f] = true. *)
From Coq Require Import List NArith Bool Arith Lia Permutation.
From RPFT Require Import Base.Sexp Base.PyStr Base.PyStrFacts Base.Result Gen.Tables Flow.Flow Flow.Closed
     Flow.NodeIdCheck Flow.NodeIdCheckFacts Flow.RowSem Comp.Compile Comp.CompileFacts Comp.CompileIds Comp.CompileInv
     Comp.CompileStep Comp.CompileClosed.
Import ListNotations.

(* ---------------------------------------------------------------- lists *)
Lemma flat_map_app_perm {X Y} (f g : X -> list Y) l :
  Permutation (flat_map (fun x => f x ++ g x) l) (flat_map f l ++ flat_map g l).
Proof.
  induction l as [|x r IH]; cbn; [constructor|]. rewrite IH. rewrite <- !app_assoc. apply Permutation_app_head.
  rewrite !app_assoc. apply Permutation_app_tail. apply Permutation_app_comm.
Qed.

Lemma flat_map_perm {X Y} (f g : X -> list Y) l :
  (forall x, In x l -> Permutation (f x) (g x)) -> Permutation (flat_map f l) (flat_map g l).
Proof.
  induction l as [|x r IH]; cbn; [constructor|]. intros H. apply Permutation_app; [apply H; left; reflexivity|].
  apply IH. intros y Hy. apply H. right. exact Hy.
Qed.

(* a duplicate-free sub-collection of a list whose flattened image is duplicate-free *)
Lemma flat_map_NoDup_disj {X Y} (f : X -> list Y) l x y u :
  NoDup (flat_map f l) -> In x l -> In y l -> x <> y -> In u (f x) -> ~ In u (f y).
Proof.
  induction l as [|z r IH]; cbn; [intros _ []|]. intros Hnd [->|Hx] [->|Hy] Hne Hu.
  - contradiction.
  - intros Hu'. eapply (NoDup_app_disj (f x) (flat_map f r)); [exact Hnd|exact Hu|]. apply in_flat_map. exists y. auto.
  - intros Hu'. eapply (NoDup_app_disj (f y) (flat_map f r)); [exact Hnd|exact Hu'|]. apply in_flat_map. exists x. auto.
  - apply IH; try assumption. eapply NoDup_app_r, Hnd.
Qed.

Lemma flat_map_NoDup_in {X Y} (f : X -> list Y) l x : NoDup (flat_map f l) -> In x l -> NoDup (f x).
Proof.
  induction l as [|z r IH]; cbn; [intros _ []|]. intros Hnd [->|Hx]; [eapply NoDup_app_l, Hnd|].
  apply IH; [eapply NoDup_app_r, Hnd|exact Hx].
Qed.

Lemma flat_map_NoDup_sub {X Y} (f : X -> list Y) l l' :
  NoDup (flat_map f l) -> NoDup l' -> incl l' l -> NoDup (flat_map f l').
Proof.
  intros Hnd Hl' Hi. induction Hl' as [|x r Hx Hr IH]; cbn; [constructor|].
  apply NoDup_app_intro.
  - eapply flat_map_NoDup_in; [exact Hnd|apply Hi; left; reflexivity].
  - apply IH. intros y Hy. apply Hi. right. exact Hy.
  - intros u Hu Hin. apply in_flat_map in Hin as (y & Hy & Huy).
    eapply (flat_map_NoDup_disj f l x y u); try eassumption; [apply Hi; left; reflexivity|apply Hi; right; exact Hy|].
    intros ->. contradiction.
Qed.

Lemma cat_ids_perm l : Permutation (flat_map cat_ids l) (map cat_xid l ++ map cc_uuid l).
Proof.
  induction l as [|c r IH]; cbn; [constructor|]. rewrite IH.
  apply perm_trans with (cat_xid c :: cc_uuid c :: map cat_xid r ++ map cc_uuid r); [apply perm_swap|].
  apply perm_skip. apply Permutation_middle.
Qed.

(* ---------------------------------------------------------------- the rendered identifiers of one node *)
Definition given_ids (nd : cnode) : list id := if cn_given nd then [cn_uuid nd] else [].

Lemma node_def_ids_perm nd : Permutation (node_def_ids (render_node nd)) (given_ids nd ++ node_ids nd).
Proof.
  assert (Hu : forall rest, Permutation (cn_uuid nd :: rest) (given_ids nd ++ uuid_ids nd ++ rest)).
  { intros rest. unfold given_ids, uuid_ids. destruct (cn_given nd); cbn; apply Permutation_refl. }
  unfold node_def_ids, render_node, node_ids. destruct (cn_body nd) as [e|cls r|r]; cbn [n_uuid n_actions n_exits n_router body_ids].
  - cbn [map render_exit e_uuid app]. apply Hu.
  - rewrite Hu. apply Permutation_app_head. apply Permutation_app_head. apply Permutation_app_head.
    unfold router_def_ids, sw_ids. cbn [router_cats router_cases]. rewrite !map_map. cbn.
    rewrite cat_ids_perm. rewrite <- !app_assoc. apply Permutation_refl.
  - rewrite Hu. apply Permutation_app_head. apply Permutation_app_head. apply Permutation_app_head.
    unfold router_def_ids. cbn [router_cats router_cases]. rewrite !map_map. cbn. rewrite app_nil_r.
    rewrite cat_ids_perm. apply Permutation_refl.
Qed.

(* the number of identifiers a run draws from the supply (the flow uuid is the last draw) *)
Definition compile_draws (fresh : nat -> id) (rows : list crow) : nat :=
  match crun fresh rows with Ok s => S (cs_next s) | Err _ => 0 end.

Section Distinct.
Variable fresh : nat -> id.
Hypothesis fresh_inj : forall a b, fresh a = fresh b -> a = b.
(* what is known of the given node uuids; at least: the supply never hands them out *)
Variable GP : id -> Prop.
Hypothesis GP_notfresh : forall u, GP u -> forall k, u <> fresh k.

Lemma given_ids_map nds : flat_map given_ids nds = map cn_uuid (filter cn_given nds).
Proof. induction nds as [|x r IH]; cbn; [reflexivity|]. unfold given_ids at 1. destruct (cn_given x); cbn; rewrite IH; reflexivity. Qed.

Lemma NoDup_map_filter {X Y} (f : X -> Y) p l : NoDup (map f l) -> NoDup (map f (filter p l)).
Proof.
  induction l as [|x r IH]; cbn; [auto|]. intros H. inversion H as [|? ? Hx Hr]; subst. destruct (p x); cbn; [|auto].
  constructor; [|auto]. intros Hin. apply Hx. apply in_map_iff in Hin as (y & E & Hy). apply filter_In in Hy as [Hy _].
  rewrite <- E. apply in_map, Hy.
Qed.

(* the defining identifiers of a compiled flow: all distinct; and each is the flow uuid (a draw), a given node
   uuid (GP), or a draw *)
Theorem compile_def_ids validate name rows f :
  (forall us, validate us = None -> NoDup us) ->
  (forall cr, In cr rows -> cr_uuid cr <> [] -> GP (cr_uuid cr)) ->
  compile_with fresh validate name rows = Ok f ->
  NoDup (flow_def_ids f) /\ forall u, In u (flow_def_ids f) -> GP u \/ exists k, k < compile_draws fresh rows /\ u = fresh k.
Proof.
  intros Hv Hgiven. unfold compile_with, compile_draws. destruct (crun fresh rows) as [s|x] eqn:Er; [|discriminate].
  intros Hf. assert (Hi := crun_Inv fresh GP fresh_inj _ _ Hgiven Er).
  destruct (cfinish_nodes fresh _ _ _ _ _ Hi Hf) as (nds & Efn & Ev & Hsub & _).
  assert (Efu : f_uuid f = fresh (cs_next s)).
  { revert Hf. unfold cfinish_with. destruct (cs_heads s); [|discriminate]. destruct (cs_stack s) as [|root [|? ?]]; try discriminate.
    destruct (mapM _ root) as [ls|]; [|discriminate]. destruct (mapM _ (concat ls)) as [v|]; [|discriminate]. destruct (validate (map cn_uuid v)); [discriminate|].
    destruct (forallb node_groups_named v); [|discriminate]. intros H. injection H as <-. reflexivity. }
  destruct Hi as [[Hnodes [Hnd Hbelow]] _ _].
  assert (Hndn : NoDup nds). { apply Hv in Ev. eapply NoDup_map_inv, Ev. }
  assert (P : Permutation (flat_map node_def_ids (f_nodes f)) (flat_map given_ids nds ++ flat_map node_ids nds)).
  { rewrite Efn. rewrite flat_map_concat_map, map_map, <- flat_map_concat_map.
    rewrite <- flat_map_app_perm. apply flat_map_perm. intros nd _. apply node_def_ids_perm. }
  assert (Hids : NoDup (flat_map node_ids nds)) by (eapply flat_map_NoDup_sub; eauto).
  assert (Hidb : Forall (below fresh (cs_next s)) (flat_map node_ids nds)).
  { rewrite Forall_forall in *. intros u Hu. apply Hbelow. apply in_flat_map in Hu as (nd & Hnd' & Hu).
    apply in_flat_map. exists nd. split; [apply Hsub, Hnd'|exact Hu]. }
  assert (Hgiv : forall u, In u (flat_map given_ids nds) -> GP u).
  { intros u Hu. apply in_flat_map in Hu as (nd & Hnd' & Hu). unfold given_ids in Hu.
    destruct (cn_given nd) eqn:Eg; [|destruct Hu]. destruct Hu as [<-|[]].
    rewrite Forall_forall in Hnodes. apply (no_given _ _ _ _ _ (Hnodes _ (Hsub _ Hnd'))). exact Eg. }
  split.
  - unfold flow_def_ids. constructor.
    + rewrite Efu. intros Hin. eapply Permutation_in in Hin; [|exact P]. apply in_app_or in Hin as [Hin|Hin].
      * exact (GP_notfresh _ (Hgiv _ Hin) _ eq_refl).
      * rewrite Forall_forall in Hidb. exact (below_neq fresh fresh_inj _ _ _ (Hidb _ Hin) (le_n _) eq_refl).
    + eapply Permutation_NoDup; [apply Permutation_sym, P|]. apply NoDup_app_intro; [| exact Hids|].
      * rewrite given_ids_map. apply NoDup_map_filter. apply Hv, Ev.
      * intros u Hg Hin. rewrite Forall_forall in Hidb. destruct (Hidb _ Hin) as (k & _ & ->).
        exact (GP_notfresh _ (Hgiv _ Hg) _ eq_refl).
  - unfold flow_def_ids. intros u [<-|Hin]; [right; exists (cs_next s); split; [lia|exact Efu]|].
    eapply Permutation_in in Hin; [|exact P]. apply in_app_or in Hin as [Hin|Hin]; [left; apply Hgiv, Hin|].
    rewrite Forall_forall in Hidb. destruct (Hidb _ Hin) as (k & Hk & ->). right. exists k. split; [lia|reflexivity].
Qed.
End Distinct.

(* ---------------------------------------------------------------- the statements *)
Section Statements.
Variable fresh : nat -> id.
Hypothesis fresh_inj : forall a b, fresh a = fresh b -> a = b.

(* no given `_nodeId` is an identifier the supply hands out: then ALL defining identifiers are distinct *)
Theorem compile_def_ids_distinct validate name rows f :
  (forall us, validate us = None -> NoDup us) ->
  (forall cr k, In cr rows -> cr_uuid cr <> fresh k) ->
  compile_with fresh validate name rows = Ok f -> NoDup (flow_def_ids f).
Proof.
  intros Hv Hg Hf.
  apply (compile_def_ids fresh fresh_inj (fun u => forall k, u <> fresh k) (fun u H => H) validate name rows f Hv); [|exact Hf].
  intros cr Hcr _ k. apply Hg, Hcr.
Qed.

(* the document checker of the property (clauses a-g) accepts the one-flow document, for every set G of given
   identifiers that holds the rows' `_nodeId`s and none of the supply's identifiers, when the identifiers the run
   draws are RFC-4122 version-4 strings *)
Theorem compile_doc_closed G name rows f :
  (forall k, k < compile_draws fresh rows -> is_uuid4 (fresh k) = true) -> (forall k, ~ In (fresh k) G) ->
  (forall cr, In cr rows -> cr_uuid cr <> [] -> In (cr_uuid cr) G) ->
  compile_checks_node_uuids = true -> compile fresh name rows = Ok f -> closedb G [f] = true.
Proof.
  intros Hu4 HG Hrows Hc Hf. apply closedb_spec.
  assert (Hv : forall us, compile_flow_validation us = None -> NoDup us).
  { intros us. unfold compile_flow_validation. rewrite Hc. apply node_id_check_spec. }
  destruct (compile_def_ids fresh fresh_inj (fun u => In u G) (fun u Hin k E => HG k (eq_ind _ (fun x => In x G) Hin _ E))
                            _ name rows f Hv Hrows Hf) as [Hnd Hsrc].
  constructor.
  - intros f0 [<-|[]]. eapply compile_with_closed; eauto.
  - unfold doc_def_ids. cbn [flat_map]. rewrite app_nil_r. apply NoDup_filter, Hnd.
  - unfold doc_def_ids. cbn [flat_map]. rewrite app_nil_r. intros u Hu. apply filter_In in Hu as [Hin Hinv].
    destruct (Hsrc u Hin) as [HG'|(k & Hk & ->)]; [|apply Hu4, Hk].
    unfold invented in Hinv. apply memb_In in HG'. rewrite HG' in Hinv. discriminate.
Qed.
End Statements.
