(* E7/C02 — facts for the refinement, part 5: one row.
   The node a row creates (constructor-made router included) against the reference node with the initial decision
   the reference reading gives the row; the edges of the row; the groups. *)
From Coq Require Import List NArith Bool Arith Lia.
From RPFT Require Import Base.Sexp Base.PyStr Base.PyStrFacts Base.Result Gen.Tables Flow.Lts Flow.Flow Flow.Closed
     Flow.RowSem Comp.Compile Comp.CompileFacts Comp.CompileIds Comp.CompileInv Comp.CompileStep Comp.Refine Comp.RefineFacts Comp.RefineStore
     Comp.RefineEdge Comp.RefineGroup.
Import ListNotations.

(* ---------------------------------------------------------------- the fragment, as a proposition *)
Definition edge_ok (e : redge) : Prop := c_cname (e_cond e) = [].

Definition row_ok (cr : crow) : Prop :=
  Forall edge_ok (r_edges (cr_row cr)) /\
  match r_type (cr_row cr) with
  | TNode cls acts dec0 =>
    r_node_name (cr_row cr) = [] /\ cr_uuid cr = [] /\ cls = kind_cls (cr_kind cr) /\ dec0 = kind_dec0 (cr_kind cr)
    /\ match cr_kind cr with
       | KBasic1 | KBasic2 => length acts <= 1
       | KRandom _ => False
       | KWait _ _ | KSplitValue _ _ | KSplitGroup _ => acts = []
       | KEnterFlow _ | KWebhook _ | KAirtime _ => length acts = 1
       end
  | _ => True
  end.

Section Step.
Variable fresh : nat -> id.
Hypothesis fresh_inj : forall a b, fresh a = fresh b -> a = b.
Hypothesis fresh_not_sentinel : forall k, fresh k <> hard_exit_sentinel.

(* the router SwitchRouter.__init__ makes, against the decision a row starts with *)
Definition wait_of (timeout : option N) : wait_spec :=
  match timeout with None => WNone | Some 0%N => WMsg | Some t => WTimeout t [] end.
Definition noresp_of (timeout : option N) : option (cname * dest) :=
  match timeout with None => None | Some 0%N => None | Some _ => Some (CFixed s_NoResponse, DNone) end.

Lemma new_switch_dec_sim' phi uu n operand result timeout r0 n1 :
  new_switch fresh n operand result timeout = Ok (r0, n1) ->
  dec_sim phi uu (mkDec false operand (wait_of timeout) (render_result result) [] [] wild0 (noresp_of timeout)) r0.
Proof.
  unfold new_switch. destruct (new_cat fresh n s_Other None) as [[other n']|e] eqn:E; [|discriminate].
  apply (new_cat_spec fresh fresh_inj) in E as (-> & ->).
  assert (Hbase : forall w, wait_cats w = [] -> forall wr nr0, (wr = WNone \/ wr = WMsg) -> nr0 = None ->
            match wr, w with WNone, CWNone | WMsg, CWMsg => True | _, _ => False end ->
            dec_sim phi uu (mkDec false operand wr (render_result result) [] [] wild0 nr0)
                    (mkSwitch operand result w [] [] (mkCCat (fresh n) s_Other (mkCExit (fresh (S n)) None)))).
  { intros w Hw wr nr0 Hwr -> Hm. constructor; cbn.
    - reflexivity.
    - reflexivity.
    - reflexivity.
    - unfold wait_sim. cbn. destruct Hwr as [-> | ->], w; try contradiction; reflexivity.
    - constructor.
    - split; cbn; exact I.
    - constructor.
    - unfold sw_all_cats. cbn. rewrite Hw. cbn. constructor; [intros []|constructor]. }
  destruct timeout as [[|p]|].
  - intros H. injection H as <- <-. apply Hbase; auto. exact I.
  - destruct (new_cat fresh (S (S n)) s_NoResponse None) as [[nr n2]|e] eqn:E2; [|discriminate].
    apply (new_cat_spec fresh fresh_inj) in E2 as (-> & ->). intros H. injection H as <- <-.
    constructor; cbn.
    + reflexivity.
    + reflexivity.
    + reflexivity.
    + unfold wait_sim. cbn. split; [reflexivity|]. exists (CFixed s_NoResponse, DNone). split; [reflexivity|]. split; cbn; auto.
    + constructor.
    + split; cbn; exact I.
    + constructor.
    + unfold sw_all_cats. cbn. constructor.
      * intros [H|[]]. apply fresh_inj in H. lia.
      * constructor; [intros []|constructor].
  - intros H. injection H as <- <-. apply Hbase; auto. exact I.
Qed.

Definition payload_of (payloads : list sexp) : sexp := match payloads with p :: _ => p | [] => L [] end.

Definition acts_ok (kind : nkind) (acts : list (id * sexp)) (payloads : list sexp) : Prop :=
  match kind with
  | KBasic1 | KBasic2 => map snd acts = payloads
  | KRandom _ => False
  | KWait _ _ | KSplitValue _ _ | KSplitGroup _ => acts = [] /\ payloads = []
  | KEnterFlow _ | KWebhook _ | KAirtime _ => acts = [] /\ exists p, payloads = [p]
  end.

Lemma new_switch_node_sim phi uu n operand sv timeout nd n' :
  new_switch_node fresh n [] operand (Some sv) timeout = Ok (nd, n') ->
  exists r, cn_body nd = BSwitch SPlain r /\ cn_actions nd = []
            /\ dec_sim phi uu (mkDec false operand (wait_of timeout) (render_result (Some sv)) [] [] wild0 (noresp_of timeout)) r.
Proof.
  unfold new_switch_node, new_switch_parts. cbn [node_uuid]. destruct operand as [|c o]; [discriminate|].
  destruct (new_switch fresh (S (S n)) (c :: o) (Some sv) timeout) as [[r n3]|e] eqn:E; [|discriminate].
  intros H. injection H as <- <-. exists r. split; [reflexivity|]. split; [reflexivity|]. eapply new_switch_dec_sim'; eauto.
Qed.

Lemma new_row_node_sim phi uu n kind acts payloads nd n' :
  acts_ok kind acts payloads ->
  new_row_node fresh n kind [] acts (payload_of payloads) = Ok (nd, n') ->
  node_sim phi uu (mkRNode payloads (kind_dec0 kind) DNone) nd None /\ class_ok (kind_cls kind) (rowtype_of kind) (cn_body nd).
Proof.
  intros Ha. unfold new_row_node. destruct kind as [| |t sv|op sv|sv|sv|name|sv|sv]; cbn [acts_ok] in Ha.
  - cbn [node_uuid]. intros H. injection H as <- <-. split; [|reflexivity].
    eapply NS_basic; cbn; eauto. exact I.
  - cbn [node_uuid]. intros H. injection H as <- <-. split; [|reflexivity].
    eapply NS_basic; cbn; eauto. exact I.
  - destruct Ha as [-> ->]. intros H. destruct (new_switch_node_sim phi uu _ _ _ _ _ _ H) as (r & Hb & Hac & Hds).
    rewrite Hb. split; [|reflexivity].
    eapply NS_router with (cls := SPlain) (r := r) (d := mkDec false s_input_text (wait_of (Some t)) (render_result (Some sv)) [] [] wild0 (noresp_of (Some t)));
      cbn; eauto; try (rewrite Hac; reflexivity); try (destruct t; reflexivity); try constructor.
  - destruct Ha as [-> ->]. intros H. destruct (new_switch_node_sim phi uu _ _ _ _ _ _ H) as (r & Hb & Hac & Hds).
    rewrite Hb. split; [|reflexivity].
    eapply NS_router with (cls := SPlain) (r := r); cbn; eauto; try (rewrite Hac; reflexivity); try constructor.
  - destruct Ha as [-> ->]. intros H. destruct (new_switch_node_sim phi uu _ _ _ _ _ _ H) as (r & Hb & Hac & Hds).
    rewrite Hb. split; [|reflexivity].
    eapply NS_router with (cls := SPlain) (r := r); cbn; eauto; try (rewrite Hac; reflexivity); try constructor.
  - contradiction.
  - (* start_new_flow *)
    destruct Ha as [-> (p & ->)]. unfold new_enter_node. cbn [node_uuid]. destruct name as [|c0 nm]; [discriminate|].
    cbn. intros H. injection H as <- <-. split; [|exact I].
    eapply NS_router with (cls := SEnter); cbn; eauto.
    + constructor; cbn.
      * reflexivity.
      * reflexivity.
      * reflexivity.
      * reflexivity.
      * constructor; [split; cbn; auto|constructor].
      * split; cbn; auto.
      * constructor; [repeat split; reflexivity|constructor; [repeat split; reflexivity|constructor]].
      * unfold sw_all_cats. cbn. constructor; [intros [H|[]]; apply fresh_inj in H; lia|constructor; [intros []|constructor]].
    + eexists. reflexivity.
  - (* call_webhook *)
    destruct Ha as [-> (p & ->)]. unfold new_outcome_node. cbn [node_uuid]. destruct sv as [|c0 sv']; [discriminate|].
    cbn [kind_dec0]. destruct (field_key (c0 :: sv')) as [key|e]; [|discriminate].
    cbn. intros H. injection H as <- <-. split; [|exact I].
    eapply NS_router with (cls := SOutcome); cbn; eauto.
    + constructor; cbn.
      * reflexivity.
      * reflexivity.
      * reflexivity.
      * reflexivity.
      * constructor; [split; cbn; auto|constructor].
      * split; cbn; auto.
      * constructor; [repeat split; reflexivity|constructor].
      * unfold sw_all_cats. cbn. constructor; [intros [H|[]]; apply fresh_inj in H; lia|constructor; [intros []|constructor]].
    + eexists. reflexivity.
  - (* transfer_airtime *)
    destruct Ha as [-> (p & ->)]. unfold new_outcome_node. cbn [node_uuid]. destruct sv as [|c0 sv']; [discriminate|].
    cbn [kind_dec0]. destruct (field_key (c0 :: sv')) as [key|e]; [|discriminate].
    cbn. intros H. injection H as <- <-. split; [|exact I].
    eapply NS_router with (cls := SOutcome); cbn; eauto.
    + constructor; cbn.
      * reflexivity.
      * reflexivity.
      * reflexivity.
      * reflexivity.
      * constructor; [split; cbn; auto|constructor].
      * split; cbn; auto.
      * constructor; [repeat split; reflexivity|constructor].
      * unfold sw_all_cats. cbn. constructor; [intros [H|[]]; apply fresh_inj in H; lia|constructor; [intros []|constructor]].
    + eexists. reflexivity.
Qed.

(* ---------------------------------------------------------------- edges of a row *)
Variable GP : id -> Prop.

Lemma source_sim phi sr sc e :
  Sim phi sr sc ->
  match source_group sr e, csource sc e with
  | None, Err _ => True
  | Some a, Ok b => a = b
  | _, _ => False
  end.
Proof.
  intros Hsim. unfold source_group, csource. rewrite (sim_stack _ _ _ Hsim), (sim_rowmap _ _ _ Hsim).
  destruct (e_from e) as [| |rid]; try reflexivity. destruct (alookup (cs_rowmap sc) rid); [reflexivity|exact I].
Qed.

Lemma fuel_sim phi sr sc : Sim phi sr sc -> fuel_of sr = cfuel sc.
Proof. intros Hsim. unfold fuel_of, cfuel. rewrite (Forall2_length' _ _ _ (sim_groups _ _ _ Hsim)). reflexivity. Qed.

Definition step_post (phi : list (nat * option nat)) (sr : st) (sc : cstate) (sr' : st) (sc' : cstate) : Prop :=
  exists phi', Sim phi' sr' sc' /\ phi_le phi phi' /\ StOK fresh GP sc' /\ ext sc sc' /\ gframe sr sr' /\ pframe sr phi phi'.

Lemma step_post_refl phi sr sc : Sim phi sr sc -> StOK fresh GP sc -> step_post phi sr sc sr sc.
Proof.
  intros H1 H2. exists phi. split; [exact H1|]. split; [apply phi_le_refl|]. split; [exact H2|]. split; [apply ext_refl|].
  split; [apply (gframe_refl fresh fresh_inj)|apply pframe_refl].
Qed.

Lemma add_row_edge_sim phi sr sc e tgt dd sr' sc' :
  Sim phi sr sc -> StOK fresh GP sc -> edge_ok e -> dest_sim phi (cuu sc) tgt dd ->
  add_row_edge nab sr e tgt = Some sr' -> cadd_row_edge fresh sc e dd = Ok sc' -> step_post phi sr sc sr' sc'.
Proof.
  intros Hsim Hst He Hd. unfold add_row_edge, cadd_row_edge. pose proof (source_sim phi sr sc e Hsim) as Hs.
  destruct (source_group sr e) as [[g|]|], (csource sc e) as [[g'|]|x]; try contradiction; try discriminate.
  - injection Hs as <-. rewrite (fuel_sim _ _ _ Hsim). intros H1 H2.
    eapply (add_exit_sim fresh GP fresh_inj fresh_not_sentinel); eauto.
  - intros H1 H2. injection H1 as <-. injection H2 as <-. apply step_post_refl; assumption.
Qed.

Lemma step_post_trans phi sr sc phi1 sr1 sc1 sr2 sc2 :
  Sim phi1 sr1 sc1 -> phi_le phi phi1 -> ext sc sc1 -> gframe sr sr1 -> pframe sr phi phi1 ->
  step_post phi1 sr1 sc1 sr2 sc2 -> step_post phi sr sc sr2 sc2.
Proof.
  intros _ Hle He Hf Hp (phi2 & H1 & H2 & H3 & H4 & H5 & H6). exists phi2. split; [exact H1|].
  split; [eapply phi_le_trans; eauto|]. split; [exact H3|]. split; [eapply ext_trans; eauto|].
  split; [eapply gframe_trans; eauto|eapply pframe_trans; eauto].
Qed.

(* all the edges of a row lead to one target *)
Lemma fold_edges_sim es : forall phi sr sc tgt dd sr' sc',
  Sim phi sr sc -> StOK fresh GP sc -> Forall edge_ok es -> dest_sim phi (cuu sc) tgt dd ->
  fold_edges nab sr es (fun _ => tgt) = Some sr' -> foldM (fun s' e => cadd_row_edge fresh s' e dd) es sc = Ok sc' ->
  step_post phi sr sc sr' sc'.
Proof.
  unfold fold_edges. induction es as [|e r IH]; intros phi sr sc tgt dd sr' sc' Hsim Hst Hes Hd; cbn.
  - intros H1 H2. injection H1 as <-. injection H2 as <-. apply step_post_refl; assumption.
  - inversion Hes as [|? ? He Hr]; subst.
    destruct (add_row_edge nab sr e tgt) as [s1|] eqn:E1.
    2:{ intros H. exfalso. clear - H. induction r as [|a r IHr]; cbn in H; [discriminate|auto]. }
    destruct (cadd_row_edge fresh sc e dd) as [c1|x] eqn:E2; [|discriminate]. intros H1 H2.
    destruct (add_row_edge_sim phi sr sc e tgt dd s1 c1 Hsim Hst He Hd E1 E2) as (phi1 & S1 & L1 & T1 & X1 & F1 & P1).
    eapply step_post_trans; eauto. eapply IH; eauto. eapply dest_sim_mono; [exact L1|apply ext_grows, X1|exact Hd].
Qed.
End Step.
