(* E7/C02 — facts for the refinement, part 5: one row.
   The node a row creates (constructor-made router included) against the reference node with the initial decision
   the reference reading gives the row; the edges of the row; the groups. *)
From Coq Require Import List NArith Bool Arith Lia.
From RPFT Require Import Base.Sexp Base.PyStr Base.PyStrFacts Base.Result Gen.Tables Flow.Lts Flow.Flow Flow.Closed
     Flow.RowSem Comp.Compile Comp.CompileFacts Comp.CompileIds Comp.CompileInv Comp.CompileStep Comp.CompileClass Comp.Refine Comp.RefineFacts Comp.RefineStore
     Comp.RefineEdge Comp.RefineGroup.
Import ListNotations.

(* ---------------------------------------------------------------- the fragment, as a proposition *)
Definition edge_ok (e : redge) : Prop := cond_ok (e_cond e).

Definition row_ok (cr : crow) : Prop :=
  Forall edge_ok (r_edges (cr_row cr)) /\
  match r_type (cr_row cr) with
  | TNode cls acts dec0 =>
    r_node_name (cr_row cr) = [] /\ cr_uuid cr = [] /\ cls = kind_cls (cr_kind cr) /\ dec0 = kind_dec0 (cr_kind cr)
    /\ match cr_kind cr with
       | KBasic1 | KBasic2 => length acts <= 1
       | KRandom _ => False
       | KWait _ _ | KSplitValue _ _ | KSplitGroup _ => acts = []
       | KEnterFlow _ | KWebhook _ | KAirtime _ => length acts = 1
       end
  | _ => True
  end.

(* the code of this run reads the padding entries of the row as the reference does *)
Definition reads_same (cr : crow) : Prop := read_edges (r_edges (cr_row cr)) = drop_padding (r_edges (cr_row cr)).

Section Step.
Variable fresh : nat -> id.
Hypothesis fresh_inj : forall a b, fresh a = fresh b -> a = b.
Hypothesis fresh_not_sentinel : forall k, fresh k <> hard_exit_sentinel.

(* the router SwitchRouter.__init__ makes, against the decision a row starts with *)
Definition wait_of (timeout : option N) : wait_spec :=
  match timeout with None => WNone | Some 0%N => WMsg | Some t => WTimeout t [] end.
Definition noresp_of (timeout : option N) : option (cname * dest) :=
  match timeout with None => None | Some 0%N => None | Some _ => Some (CFixed s_NoResponse, DNone) end.

Lemma new_switch_dec_sim' phi uu n operand result timeout r0 n1 :
  new_switch fresh n operand result timeout = Ok (r0, n1) ->
  dec_sim phi uu (mkDec false operand (wait_of timeout) (render_result result) [] [] wild0 (noresp_of timeout)) r0.
Proof.
  unfold new_switch. destruct (new_cat fresh n s_Other None) as [[other n']|e] eqn:E; [|discriminate].
  apply (new_cat_spec fresh fresh_inj) in E as (-> & ->).
  assert (Hbase : forall w, wait_cats w = [] -> forall wr nr0, (wr = WNone \/ wr = WMsg) -> nr0 = None ->
            match wr, w with WNone, CWNone | WMsg, CWMsg => True | _, _ => False end ->
            dec_sim phi uu (mkDec false operand wr (render_result result) [] [] wild0 nr0)
                    (mkSwitch operand result w [] [] (mkCCat (fresh n) s_Other (mkCExit (fresh (S n)) None)))).
  { intros w Hw wr nr0 Hwr -> Hm. constructor; cbn.
    - reflexivity.
    - reflexivity.
    - reflexivity.
    - unfold wait_sim. cbn. destruct Hwr as [-> | ->], w; try contradiction; reflexivity.
    - constructor.
    - split; cbn; exact I.
    - constructor.
    - unfold sw_all_cats. cbn. rewrite Hw. cbn. constructor; [intros []|constructor]. }
  destruct timeout as [[|p]|].
  - intros H. injection H as <- <-. apply Hbase; auto. exact I.
  - destruct (new_cat fresh (S (S n)) s_NoResponse None) as [[nr n2]|e] eqn:E2; [|discriminate].
    apply (new_cat_spec fresh fresh_inj) in E2 as (-> & ->). intros H. injection H as <- <-.
    constructor; cbn.
    + reflexivity.
    + reflexivity.
    + reflexivity.
    + unfold wait_sim. cbn. split; [reflexivity|]. exists (CFixed s_NoResponse, DNone). split; [reflexivity|]. split; cbn; auto.
    + constructor.
    + split; cbn; exact I.
    + constructor.
    + unfold sw_all_cats. cbn. constructor.
      * intros [H|[]]. apply fresh_inj in H. lia.
      * constructor; [intros []|constructor].
  - intros H. injection H as <- <-. apply Hbase; auto. exact I.
Qed.

Definition payload_of (payloads : list sexp) : sexp := match payloads with p :: _ => p | [] => L [] end.

Definition acts_ok (kind : nkind) (acts : list (id * sexp)) (payloads : list sexp) : Prop :=
  match kind with
  | KBasic1 | KBasic2 => map snd acts = payloads
  | KRandom _ => False
  | KWait _ _ | KSplitValue _ _ | KSplitGroup _ => acts = [] /\ payloads = []
  | KEnterFlow _ | KWebhook _ | KAirtime _ => acts = [] /\ exists p, payloads = [p]
  end.

Lemma new_switch_node_sim phi uu n operand sv timeout nd n' :
  new_switch_node fresh n [] operand (Some sv) timeout = Ok (nd, n') ->
  exists r, cn_body nd = BSwitch SPlain r /\ cn_actions nd = []
            /\ dec_sim phi uu (mkDec false operand (wait_of timeout) (render_result (Some sv)) [] [] wild0 (noresp_of timeout)) r.
Proof.
  unfold new_switch_node, new_switch_parts. cbn [node_uuid]. destruct operand as [|c o]; [discriminate|].
  destruct (new_switch fresh (S (S n)) (c :: o) (Some sv) timeout) as [[r n3]|e] eqn:E; [|discriminate].
  intros H. injection H as <- <-. exists r. split; [reflexivity|]. split; [reflexivity|]. eapply new_switch_dec_sim'; eauto.
Qed.

Lemma new_row_node_sim phi uu n kind acts payloads nd n' :
  acts_ok kind acts payloads ->
  new_row_node fresh n kind [] acts (payload_of payloads) = Ok (nd, n') ->
  node_sim phi uu (mkRNode payloads (kind_dec0 kind) DNone) nd None /\ class_ok (kind_cls kind) (rowtype_of kind) (cn_body nd).
Proof.
  intros Ha. unfold new_row_node. destruct kind as [| |t sv|op sv|sv|sv|name|sv|sv]; cbn [acts_ok] in Ha.
  - cbn [node_uuid]. intros H. injection H as <- <-. split; [|reflexivity].
    eapply NS_basic; cbn; eauto. exact I.
  - cbn [node_uuid]. intros H. injection H as <- <-. split; [|reflexivity].
    eapply NS_basic; cbn; eauto. exact I.
  - destruct Ha as [-> ->]. intros H. destruct (new_switch_node_sim phi uu _ _ _ _ _ _ H) as (r & Hb & Hac & Hds).
    rewrite Hb. split; [|reflexivity].
    eapply NS_router with (cls := SPlain) (r := r) (d := mkDec false s_input_text (wait_of (Some t)) (render_result (Some sv)) [] [] wild0 (noresp_of (Some t)));
      cbn; eauto; try (rewrite Hac; reflexivity); try (destruct t; reflexivity); try constructor.
  - destruct Ha as [-> ->]. intros H. destruct (new_switch_node_sim phi uu _ _ _ _ _ _ H) as (r & Hb & Hac & Hds).
    rewrite Hb. split; [|reflexivity].
    eapply NS_router with (cls := SPlain) (r := r); cbn; eauto; try (rewrite Hac; reflexivity); try constructor.
  - destruct Ha as [-> ->]. intros H. destruct (new_switch_node_sim phi uu _ _ _ _ _ _ H) as (r & Hb & Hac & Hds).
    rewrite Hb. split; [|reflexivity].
    eapply NS_router with (cls := SPlain) (r := r); cbn; eauto; try (rewrite Hac; reflexivity); try constructor.
  - contradiction.
  - (* start_new_flow *)
    destruct Ha as [-> (p & ->)]. unfold new_enter_node. cbn [node_uuid]. destruct name as [|c0 nm]; [discriminate|].
    cbn. intros H. injection H as <- <-. split; [|exact I].
    eapply NS_router with (cls := SEnter); cbn; eauto.
    + constructor; cbn.
      * reflexivity.
      * reflexivity.
      * reflexivity.
      * reflexivity.
      * constructor; [split; cbn; auto|constructor].
      * split; cbn; auto.
      * constructor; [repeat split; reflexivity|constructor; [repeat split; reflexivity|constructor]].
      * unfold sw_all_cats. cbn. constructor; [intros [H|[]]; apply fresh_inj in H; lia|constructor; [intros []|constructor]].
    + eexists. reflexivity.
  - (* call_webhook *)
    destruct Ha as [-> (p & ->)]. unfold new_outcome_node. cbn [node_uuid]. destruct sv as [|c0 sv']; [discriminate|].
    cbn [kind_dec0]. destruct (field_key (c0 :: sv')) as [key|e]; [|discriminate].
    cbn. intros H. injection H as <- <-. split; [|exact I].
    eapply NS_router with (cls := SOutcome); cbn; eauto.
    + constructor; cbn.
      * reflexivity.
      * reflexivity.
      * reflexivity.
      * reflexivity.
      * constructor; [split; cbn; auto|constructor].
      * split; cbn; auto.
      * constructor; [repeat split; reflexivity|constructor].
      * unfold sw_all_cats. cbn. constructor; [intros [H|[]]; apply fresh_inj in H; lia|constructor; [intros []|constructor]].
    + eexists. reflexivity.
  - (* transfer_airtime *)
    destruct Ha as [-> (p & ->)]. unfold new_outcome_node. cbn [node_uuid]. destruct sv as [|c0 sv']; [discriminate|].
    cbn [kind_dec0]. destruct (field_key (c0 :: sv')) as [key|e]; [|discriminate].
    cbn. intros H. injection H as <- <-. split; [|exact I].
    eapply NS_router with (cls := SOutcome); cbn; eauto.
    + constructor; cbn.
      * reflexivity.
      * reflexivity.
      * reflexivity.
      * reflexivity.
      * constructor; [split; cbn; auto|constructor].
      * split; cbn; auto.
      * constructor; [repeat split; reflexivity|constructor].
      * unfold sw_all_cats. cbn. constructor; [intros [H|[]]; apply fresh_inj in H; lia|constructor; [intros []|constructor]].
    + eexists. reflexivity.
Qed.

(* ---------------------------------------------------------------- edges of a row *)
Variable GP : id -> Prop.

Lemma source_sim phi sr sc e :
  Sim phi sr sc ->
  match source_group sr e, csource sc e with
  | None, Err _ => True
  | Some a, Ok b => a = b
  | _, _ => False
  end.
Proof.
  intros Hsim. unfold source_group, csource. rewrite (sim_stack _ _ _ Hsim), (sim_rowmap _ _ _ Hsim).
  destruct (e_from e) as [| |rid]; try reflexivity. destruct (alookup (cs_rowmap sc) rid); [reflexivity|exact I].
Qed.

Lemma fuel_sim phi sr sc : Sim phi sr sc -> fuel_of sr = cfuel sc.
Proof. intros Hsim. unfold fuel_of, cfuel. rewrite (Forall2_length' _ _ _ (sim_groups _ _ _ Hsim)). reflexivity. Qed.

Definition step_post (phi : list (nat * option nat)) (sr : st) (sc : cstate) (sr' : st) (sc' : cstate) : Prop :=
  exists phi', Sim phi' sr' sc' /\ phi_le phi phi' /\ StOK fresh GP sc' /\ ext sc sc' /\ gframe sr sr' /\ pframe sr phi phi'.

Lemma step_post_refl phi sr sc : Sim phi sr sc -> StOK fresh GP sc -> step_post phi sr sc sr sc.
Proof.
  intros H1 H2. exists phi. split; [exact H1|]. split; [apply phi_le_refl|]. split; [exact H2|]. split; [apply ext_refl|].
  split; [apply (gframe_refl fresh fresh_inj)|apply pframe_refl].
Qed.

Lemma add_row_edge_sim phi sr sc e tgt dd sr' sc' :
  Sim phi sr sc -> StOK fresh GP sc -> edge_ok e -> dest_sim phi (cuu sc) tgt dd ->
  add_row_edge nab sr e tgt = Some sr' -> cadd_row_edge fresh sc e dd = Ok sc' -> step_post phi sr sc sr' sc'.
Proof.
  intros Hsim Hst He Hd. unfold add_row_edge, cadd_row_edge. pose proof (source_sim phi sr sc e Hsim) as Hs.
  destruct (source_group sr e) as [[g|]|], (csource sc e) as [[g'|]|x]; try contradiction; try discriminate.
  - injection Hs as <-. rewrite (fuel_sim _ _ _ Hsim). intros H1 H2.
    eapply (add_exit_sim fresh GP fresh_inj fresh_not_sentinel); eauto.
  - intros H1 H2. injection H1 as <-. injection H2 as <-. apply step_post_refl; assumption.
Qed.

Lemma step_post_trans phi sr sc phi1 sr1 sc1 sr2 sc2 :
  Sim phi1 sr1 sc1 -> phi_le phi phi1 -> ext sc sc1 -> gframe sr sr1 -> pframe sr phi phi1 ->
  step_post phi1 sr1 sc1 sr2 sc2 -> step_post phi sr sc sr2 sc2.
Proof.
  intros _ Hle He Hf Hp (phi2 & H1 & H2 & H3 & H4 & H5 & H6). exists phi2. split; [exact H1|].
  split; [eapply phi_le_trans; eauto|]. split; [exact H3|]. split; [eapply ext_trans; eauto|].
  split; [eapply gframe_trans; eauto|eapply pframe_trans; eauto].
Qed.

(* all the edges of a row lead to one target *)
Lemma fold_edges_sim es : forall phi sr sc tgt dd sr' sc',
  Sim phi sr sc -> StOK fresh GP sc -> Forall edge_ok es -> dest_sim phi (cuu sc) tgt dd ->
  fold_edges nab sr es (fun _ => tgt) = Some sr' -> foldM (fun s' e => cadd_row_edge fresh s' e dd) es sc = Ok sc' ->
  step_post phi sr sc sr' sc'.
Proof.
  unfold fold_edges. induction es as [|e r IH]; intros phi sr sc tgt dd sr' sc' Hsim Hst Hes Hd; cbn.
  - intros H1 H2. injection H1 as <-. injection H2 as <-. apply step_post_refl; assumption.
  - inversion Hes as [|? ? He Hr]; subst.
    destruct (add_row_edge nab sr e tgt) as [s1|] eqn:E1.
    2:{ intros H. exfalso. clear - H. induction r as [|a r IHr]; cbn in H; [discriminate|auto]. }
    destruct (cadd_row_edge fresh sc e dd) as [c1|x] eqn:E2; [|discriminate]. intros H1 H2.
    destruct (add_row_edge_sim phi sr sc e tgt dd s1 c1 Hsim Hst He Hd E1 E2) as (phi1 & S1 & L1 & T1 & X1 & F1 & P1).
    eapply step_post_trans; eauto. eapply IH; eauto. eapply dest_sim_mono; [exact L1|apply ext_grows, X1|exact Hd].
Qed.

(* ---------------------------------------------------------------- the rows *)
Hypothesis GP_ns : forall u, GP u -> u <> hard_exit_sentinel.

Lemma uuid_not_sentinel sc k nd : StOK fresh GP sc -> nth_error (cs_nodes sc) k = Some nd -> cn_uuid nd <> hard_exit_sentinel.
Proof.
  intros Hst Hk. destruct (StOK_nth fresh GP _ _ _ Hst Hk) as [H1 _ _ H4]. destruct (cn_given nd) eqn:Eg.
  - apply GP_ns, H4. reflexivity.
  - destruct (H1 eq_refl) as (j & _ & ->). apply fresh_not_sentinel.
Qed.

Lemma class_pres_fold_edges es sc dd sc' :
  foldM (fun s' e => cadd_row_edge fresh s' e dd) es sc = Ok sc' -> class_pres sc sc'.
Proof. apply class_pres_foldM. intros a x b. apply cadd_row_edge_class. Qed.

Lemma basic_acts (payloads : list sexp) acts n1 next :
  length payloads <= 1 ->
  match match payloads with p :: _ => Some p | [] => None end with
  | Some p => ([(fresh next, p)], S next) | None => ([], next) end = (acts, n1) ->
  map snd acts = payloads /\ next <= n1 /\ Forall (below fresh n1) (map fst acts) /\ FreshList fresh next n1 (map fst acts).
Proof.
  destruct payloads as [|p [|q r]]; cbn; intros Hl H; try lia; injection H as <- <-; cbn.
  - split; [reflexivity|]. split; [lia|]. split; [constructor|apply FreshList_nil].
  - split; [reflexivity|]. split; [lia|]. split; [constructor; [apply below_fresh; lia|constructor]|apply FreshList_one; lia].
Qed.

(* a node row (not merged into another) *)
Lemma node_row_sim phi sr sc cr cls payloads dec0 sr' sc' :
  Sim phi sr sc -> StOK fresh GP sc -> row_ok cr -> r_type (cr_row cr) = TNode cls payloads dec0 ->
  step_row nab sr (cr_row cr) = Some sr' -> cstep_read fresh sc cr = Ok sc' ->
  exists phi', Sim phi' sr' sc' /\ cs_heads sc' = cs_heads sc /\ phi_le phi phi'
               /\ nth_error phi' (length (s_nodes sr)) = Some (length (cs_nodes sc), None).
Proof.
  intros Hsim Hst [Hedges Hrow] Ht. rewrite Ht in Hrow. destruct Hrow as (Hname & Huuid & -> & -> & Hacts).
  unfold step_row, cstep_read. rewrite Ht, Hname, Huuid. cbn [or_default].
  set (kind := cr_kind cr) in *.
  set (row_action := if is_basic_kind kind then match payloads with p :: _ => Some p | [] => None end else None).
  destruct (match row_action with Some p => ([(fresh (cs_next sc), p)], S (cs_next sc)) | None => ([], cs_next sc) end) as [acts n1] eqn:Eacts.
  assert (Hacts' : acts_ok kind acts payloads /\ cs_next sc <= n1 /\ Forall (below fresh n1) (map fst acts)
                   /\ FreshList fresh (cs_next sc) n1 (map fst acts)).
  { assert (Hnone : forall n, ([] : list (id * sexp), n) = (acts, n1) ->
                               acts = [] /\ cs_next sc <= n1 /\ Forall (below fresh n1) (map fst acts) /\ FreshList fresh (cs_next sc) n1 (map fst acts) \/ n <> cs_next sc).
    { intros n H. destruct (Nat.eq_dec n (cs_next sc)) as [->|Hne]; [left|right; exact Hne]. injection H as <- <-.
      split; [reflexivity|]. split; [lia|]. split; [constructor|apply FreshList_nil]. }
    unfold row_action in Eacts. destruct kind; cbn [is_basic_kind acts_ok] in *; try contradiction.
    - exact (basic_acts _ _ _ _ Hacts Eacts).
    - exact (basic_acts _ _ _ _ Hacts Eacts).
    - destruct (Hnone _ Eacts) as [(-> & H2 & H3 & H4)|Hne]; [|contradiction]. auto.
    - destruct (Hnone _ Eacts) as [(-> & H2 & H3 & H4)|Hne]; [|contradiction]. auto.
    - destruct (Hnone _ Eacts) as [(-> & H2 & H3 & H4)|Hne]; [|contradiction]. auto.
    - destruct (Hnone _ Eacts) as [(-> & H2 & H3 & H4)|Hne]; [|contradiction].
      destruct payloads as [|p [|? ?]]; cbn in Hacts; try lia. split; [split; [reflexivity|eexists; reflexivity]|auto].
    - destruct (Hnone _ Eacts) as [(-> & H2 & H3 & H4)|Hne]; [|contradiction].
      destruct payloads as [|p [|? ?]]; cbn in Hacts; try lia. split; [split; [reflexivity|eexists; reflexivity]|auto].
    - destruct (Hnone _ Eacts) as [(-> & H2 & H3 & H4)|Hne]; [|contradiction].
      destruct payloads as [|p [|? ?]]; cbn in Hacts; try lia. split; [split; [reflexivity|eexists; reflexivity]|auto]. }
  destruct Hacts' as (Haok & Hn1 & Hbelow & Hfresh).
  (* the merge branch is not taken: there is no node name *)
  assert (Hnomerge : forall (X : Type) (a b : X), match row_action with Some _ => b | None => b end = b) by (intros; destruct row_action; reflexivity).
  change (match payloads with p :: _ => p | [] => L [] end) with (payload_of payloads).
  destruct (new_row_node fresh n1 kind [] acts (payload_of payloads)) as [[nd n2]|x] eqn:En.
  2:{ intros _ H. destruct row_action; discriminate. }
  destruct (new_row_node_sim (phi ++ [(length (cs_nodes sc), None)]) (cuu sc ++ [cn_uuid nd]) n1 kind acts payloads nd n2 Haok En) as [Hns Hcls].
  destruct (new_row_node_ok fresh GP fresh_inj n1 (uuids sc ++ [cn_uuid nd]) kind [] acts (payload_of payloads) nd n2) as (N1 & N2 & _);
    [intros Hne; contradiction|exact Hbelow|exact En|].
  destruct (new_row_node_ids fresh fresh_inj (cs_next sc) n1 kind [] acts (payload_of payloads) nd n2 Hn1 Hfresh En) as (_ & Fn).
  set (n0 := mkRNode payloads (kind_dec0 kind) DNone) in *.
  set (k := length (s_nodes sr)). set (j := length (cs_nodes sc)) in *.
  set (phi1 := phi ++ [(j, None)]) in *.
  pose proof (Sim_push phi sr sc n0 nd n2 Hsim Hns) as Hsim1. fold j phi1 in Hsim1.
  assert (Hst1 : StOK fresh GP (push_node sc nd n2)) by (apply (push_StOK fresh GP fresh_inj); [exact Hst|lia|exact N2|exact Fn]).
  set (es := drop_padding (r_edges (cr_row cr))).
  assert (Hes : Forall edge_ok es).
  { unfold es, drop_padding. destruct (r_edges (cr_row cr)) as [|e0 rest]; [constructor|]. inversion Hedges as [|? ? H0 Hr]; subst.
    constructor; [exact H0|]. rewrite Forall_forall in *. intros e He. apply filter_In in He as [He _]. auto. }
  cbv zeta. change (add_node sr (mkRNode payloads (kind_dec0 kind) DNone)) with (RowSem.add_node sr n0).
  destruct (RowSem.add_node sr n0) as [sr1 k'] eqn:Eadd. unfold RowSem.add_node in Eadd. injection Eadd as <- <-. fold k.
  intros Hr Hc.
  assert (Hr' : match fold_edges nab (mkSt (s_nodes sr ++ [n0]) (s_groups sr) (s_rowmap sr) (s_names sr) (s_stack sr)) es (fun _ => DNode k) with
                | Some s2 => Some (fst (RowSem.add_group s2 (GRow k (kind_cls kind)) (r_id (cr_row cr))))
                | None => None end = Some sr').
  { destruct (fold_edges _ _ es _) as [s2|]; [|discriminate]. destruct (RowSem.add_group s2 _ _) as [s3 g3] eqn:Eg.
    unfold push_names in Hr. injection Hr as <-. reflexivity. }
  clear Hr.
  assert (Hc' : match foldM (fun s' e => cadd_row_edge fresh s' e (Some (cn_uuid nd))) es (push_node sc nd n2) with
                | Ok s2 => Ok (set_names (add_cgroup s2 (CGRow j [] (rowtype_of kind)) (r_id (cr_row cr))) [] j)
                | Err x => Err x end = Ok sc') by (destruct row_action; exact Hc).
  clear Hc.
  destruct (fold_edges nab _ es _) as [sr2|] eqn:Ef1; [|discriminate]. injection Hr' as <-.
  destruct (foldM _ es (push_node sc nd n2)) as [sc2|x] eqn:Ef2; [|discriminate]. injection Hc' as <-.
  assert (Hd1 : dest_sim phi1 (cuu (push_node sc nd n2)) (DNode k) (Some (cn_uuid nd))).
  { cbn. split.
    - eapply (uuid_not_sentinel (push_node sc nd n2) j); [exact Hst1|]. cbn. unfold j. apply nth_error_app2_same.
    - exists (j, None). split.
      + unfold phi1, k. rewrite <- (sim_len _ _ _ Hsim). apply nth_error_app2_same.
      + cbn. unfold cuu. cbn. rewrite map_app. cbn. unfold j. rewrite <- (map_length cn_uuid (cs_nodes sc)). apply nth_error_app2_same. }
  destruct (fold_edges_sim es phi1 _ _ (DNode k) (Some (cn_uuid nd)) sr2 sc2 Hsim1 Hst1 Hes Hd1 Ef1 Ef2) as (phi2 & Hs2 & Hle2 & Ht2 & He2 & Hf2 & Hp2).
  (* the new node is still alone in its cluster, unchanged on the reference side, of the same class on the compiled side *)
  assert (Hknew : ~ In k (flat_map grow_node (s_groups sr))) by (intros Hin; pose proof (grow_bound phi sr sc _ Hsim Hin); unfold k in *; lia).
  assert (Hk2 : nth_error phi2 k = Some (j, None)).
  { apply Hp2; [cbn; rewrite app_length; cbn; unfold k; lia|exact Hknew|]. unfold phi1, k. rewrite <- (sim_len _ _ _ Hsim). apply nth_error_app2_same. }
  destruct (class_pres_fold_edges _ _ _ _ Ef2 j nd) as (nd2 & Hj2 & Hcl2); [cbn; unfold j; apply nth_error_app2_same|].
  exists phi2.
  assert (G : Sim phi2 (fst (RowSem.add_group sr2 (GRow k (kind_cls kind)) (r_id (cr_row cr)))) (add_cgroup sc2 (CGRow j [] (rowtype_of kind)) (r_id (cr_row cr)))).
  { apply Sim_add_group; [exact Hs2| | |intros ps k0; discriminate].
    - apply (GS_row phi2 (cs_nodes sc2) k (kind_cls kind) (j, None) (rowtype_of kind) nd2); [exact Hk2|exact Hj2|eapply class_ok_same; eauto].
    - intros x [<-|[]]. apply (gframe_grow _ _ k Hf2); [cbn; rewrite app_length; cbn; unfold k; lia|exact Hknew]. }
  split; [destruct G as [G1 G2 G3 G4 G5 G6 G7 G8]; constructor; assumption|].
  split; [cbn; rewrite (ext_heads _ _ He2); reflexivity|]. split; [eapply phi_le_trans; [apply phi_le_app|exact Hle2]|exact Hk2].
Qed.

(* hard_exit / loose_exit rows *)
Lemma exit_rows_sim phi sr sc es tgt dd sr' sc' :
  Sim phi sr sc -> StOK fresh GP sc -> Forall edge_ok es -> dest_sim phi (cuu sc) tgt dd ->
  fold_edges nab sr es (fun _ => tgt) = Some sr' -> foldM (fun s' e => cadd_row_edge fresh s' e dd) es sc = Ok sc' ->
  exists phi', Sim phi' sr' sc' /\ cs_heads sc' = cs_heads sc /\ phi_le phi phi'.
Proof.
  intros Hsim Hst Hes Hd H1 H2. destruct (fold_edges_sim es phi sr sc tgt dd sr' sc' Hsim Hst Hes Hd H1 H2) as (phi' & H & Hle & _ & He & _).
  exists phi'. split; [exact H|]. split; [apply (ext_heads _ _ He)|exact Hle].
Qed.

(* go_to rows *)
Lemma goto_sim (l : list (redge * str)) : forall phi sr sc sr' sc',
  Sim phi sr sc -> StOK fresh GP sc -> Forall (fun et => edge_ok (fst et)) l ->
  fold_left (fun os et => match os with
                          | None => None
                          | Some s' => match alookup (s_rowmap s') (snd et) with
                                       | None => None
                                       | Some g => match entry_node (fuel_of s') s' g with
                                                   | Some k => add_row_edge nab s' (fst et) (DNode k)
                                                   | None => None end end end) l (Some sr) = Some sr' ->
  foldM (fun s' et => match alookup (cs_rowmap s') (snd et) with
                      | None => Err (ECrash CKeyError)
                      | Some g => match centry (cfuel s') s' g with
                                  | Err x => Err x
                                  | Ok k => match nth_error (cs_nodes s') k with
                                            | Some nd => cadd_row_edge fresh s' (fst et) (Some (cn_uuid nd))
                                            | None => Err EInternal end end end) l sc = Ok sc' ->
  exists phi', Sim phi' sr' sc' /\ cs_heads sc' = cs_heads sc /\ phi_le phi phi'.
Proof.
  induction l as [|et r IH]; intros phi sr sc sr' sc' Hsim Hst Hl; cbn [fold_left foldM].
  - intros H1 H2. injection H1 as <-. injection H2 as <-. exists phi. split; [exact Hsim|]. split; [reflexivity|apply phi_le_refl].
  - inversion Hl as [|? ? He Hr]; subst. rewrite (sim_rowmap _ _ _ Hsim).
    destruct (alookup (cs_rowmap sc) (snd et)) as [g|].
    2:{ intros H. exfalso. clear - H. induction r as [|a r IHr]; cbn in H; [discriminate|auto]. }
    rewrite (fuel_sim _ _ _ Hsim).
    destruct (entry_node (cfuel sc) sr g) as [k|] eqn:E1.
    2:{ intros H. exfalso. clear - H. induction r as [|a r IHr]; cbn in H; [discriminate|auto]. }
    destruct (centry (cfuel sc) sc g) as [k1|x] eqn:E2; [|discriminate].
    destruct (entry_sim fresh fresh_inj _ _ _ _ _ _ _ Hsim E1 E2) as (c & Hc & Ec).
    destruct (nth_error (cs_nodes sc) k1) as [nd|] eqn:En; [|discriminate].
    destruct (add_row_edge nab sr (fst et) (DNode k)) as [s1|] eqn:A1.
    2:{ intros H. exfalso. clear - H. induction r as [|a r IHr]; cbn in H; [discriminate|auto]. }
    destruct (cadd_row_edge fresh sc (fst et) (Some (cn_uuid nd))) as [c1|x] eqn:A2; [|discriminate].
    intros H1 H2.
    assert (Hd : dest_sim phi (cuu sc) (DNode k) (Some (cn_uuid nd))).
    { cbn. split; [eapply uuid_not_sentinel; eauto|]. exists c. split; [exact Hc|]. rewrite Ec. unfold cuu. rewrite nth_error_map, En. reflexivity. }
    destruct (add_row_edge_sim phi sr sc (fst et) (DNode k) (Some (cn_uuid nd)) s1 c1 Hsim Hst He Hd A1 A2) as (phi1 & S1 & L1 & T1 & X1 & _).
    destruct (IH phi1 s1 c1 sr' sc' S1 T1 Hr H1 H2) as (phi2 & S2 & E2' & L2). exists phi2. split; [exact S2|].
    split; [rewrite E2'; apply (ext_heads _ _ X1)|eapply phi_le_trans; eauto].
Qed.

(* the parents of a no_op / of a block head *)
Lemma noop_parents_sim phi sr sc edges : forall acc ps ps',
  Sim phi sr sc -> Forall edge_ok edges -> Forall (fun p : nat * econd => cond_ok (snd p)) acc ->
  fold_left (fun a e => match a with
                        | None => None
                        | Some q => match source_group sr e with
                                    | None => None
                                    | Some None => Some q
                                    | Some (Some g) => Some (q ++ [(g, e_cond e)]) end end) edges (Some acc) = Some ps ->
  foldM (fun q e => match csource sc e with
                    | Err x => Err x
                    | Ok None => Ok q
                    | Ok (Some g) => Ok (q ++ [(g, e_cond e)]) end) edges acc = Ok ps' ->
  ps = ps' /\ Forall (fun p : nat * econd => cond_ok (snd p)) ps.
Proof.
  induction edges as [|e r IH]; intros acc ps ps' Hsim Hes Hacc; cbn.
  - intros H1 H2. injection H1 as <-. injection H2 as <-. auto.
  - inversion Hes as [|? ? He Hr]; subst. pose proof (source_sim phi sr sc e Hsim) as Hs.
    destruct (source_group sr e) as [[g|]|], (csource sc e) as [[g'|]|x]; try contradiction; try discriminate.
    + injection Hs as <-. apply IH; auto. apply Forall_app. split; [exact Hacc|constructor; [exact He|constructor]].
    + apply IH; auto.
Qed.

Lemma noop_row_sim phi sr sc edges rid sr' sc' :
  Sim phi sr sc -> Forall edge_ok edges ->
  match fold_left (fun a e => match a with
                        | None => None
                        | Some q => match source_group sr e with
                                    | None => None
                                    | Some None => Some q
                                    | Some (Some g) => Some (q ++ [(g, e_cond e)]) end end) edges (Some []) with
  | None => None
  | Some ps => Some (fst (RowSem.add_group sr (GNoOp ps None) rid)) end = Some sr' ->
  cparse_noop sc edges rid = Ok sc' -> Sim phi sr' sc'.
Proof.
  intros Hsim Hes H1. unfold cparse_noop. destruct (fold_left _ edges (Some [])) as [ps|] eqn:E1; [|discriminate]. injection H1 as <-.
  destruct (foldM _ edges []) as [ps'|x] eqn:E2; [|discriminate]. intros H. injection H as <-.
  destruct (noop_parents_sim phi sr sc edges [] ps ps' Hsim Hes ltac:(constructor) E1 E2) as [<- Hps].
  apply Sim_add_group; [exact Hsim|constructor; exact Hps|intros k []|intros q k; discriminate].
Qed.

(* only the stack of open blocks (and the heads the compiler remembers) changes *)
Lemma Sim_with_stack phi sr sc stk hs :
  Sim phi sr sc -> Sim phi (mkSt (s_nodes sr) (s_groups sr) (s_rowmap sr) (s_names sr) stk) (set_stack_heads sc stk hs).
Proof. intros [H1 H2 H3 H4 H5 H6 H7 H8]. constructor; cbn; auto. Qed.
End Step.
