(* E7/C02 — facts for the refinement, part 5: one row.
   The node a row creates (constructor-made router included) against the reference node with the initial decision
   the reference reading gives the row; the edges of the row; the groups. *)
From Coq Require Import List NArith Bool Arith Lia.
From RPFT Require Import Base.Sexp Base.PyStr Base.PyStrFacts Base.Result Gen.Tables Flow.Lts Flow.Flow Flow.Closed
     Flow.RowSem Comp.Compile Comp.CompileFacts Comp.CompileIds Comp.CompileInv Comp.CompileStep Comp.CompileClass Comp.Refine Comp.RefineFacts Comp.RefineStore
     Comp.RefineEdge Comp.RefineGroup.
Import ListNotations.

Section WithNames.
Context {GN : GenNames}.

(* ---------------------------------------------------------------- the fragment, as a proposition *)
Definition edge_ok (e : redge) : Prop := cond_ok (e_cond e).

Definition row_ok (cr : crow) : Prop :=
  Forall edge_ok (r_edges (cr_row cr)) /\
  (* the input encoding: a given `_nodeId` is the row's node name, and is not the hard-exit marker *)
  (cr_uuid cr <> [] -> r_node_name (cr_row cr) = cr_uuid cr /\ cr_uuid cr <> hard_exit_sentinel) /\
  match r_type (cr_row cr) with
  | TNode cls acts dec0 =>
    cls = kind_cls (cr_kind cr) /\ dec0 = kind_dec0 (cr_kind cr)
    /\ match cr_kind cr with
       | KBasic1 | KBasic2 => length acts <= 1
       | KWait _ _ | KSplitValue _ _ | KSplitGroup _ | KRandom _ => acts = []
       | KEnterFlow _ | KWebhook _ | KAirtime _ => length acts = 1
       end
  | _ => True
  end.

(* the code of this run reads the padding entries of the row as the reference does *)
Definition reads_same (cr : crow) : Prop := read_edges (r_edges (cr_row cr)) = drop_padding (r_edges (cr_row cr)).

Section Step.
Variable fresh : nat -> id.
Hypothesis fresh_inj : forall a b, fresh a = fresh b -> a = b.
Hypothesis fresh_not_sentinel : forall k, fresh k <> hard_exit_sentinel.

(* the router SwitchRouter.__init__ makes, against the decision a row starts with *)
Definition wait_of (timeout : option N) : wait_spec :=
  match timeout with None => WNone | Some 0%N => WMsg | Some t => WTimeout t [] end.
Definition noresp_of (timeout : option N) : option (cname * dest) :=
  match timeout with None => None | Some 0%N => None | Some _ => Some (CFixed s_NoResponse, DNone) end.

Lemma new_switch_dec_sim' phi uu n operand result timeout r0 n1 :
  new_switch fresh n operand result timeout = Ok (r0, n1) ->
  dec_sim phi uu (mkDec false operand (wait_of timeout) (render_result result) [] [] wild0 (noresp_of timeout)) r0.
Proof.
  unfold new_switch. destruct (new_cat fresh n s_Other None) as [[other n']|e] eqn:E; [|discriminate].
  apply (new_cat_spec fresh fresh_inj) in E as (-> & ->).
  assert (Hbase : forall w, wait_cats w = [] -> forall wr nr0, (wr = WNone \/ wr = WMsg) -> nr0 = None ->
            match wr, w with WNone, CWNone | WMsg, CWMsg => True | _, _ => False end ->
            dec_sim phi uu (mkDec false operand wr (render_result result) [] [] wild0 nr0)
                    (mkSwitch operand result w [] [] (mkCCat (fresh n) s_Other (mkCExit (fresh (S n)) None)) [])).
  { intros w Hw wr nr0 Hwr -> Hm. constructor; cbn.
    - reflexivity.
    - reflexivity.
    - reflexivity.
    - unfold wait_sim. cbn. destruct Hwr as [-> | ->], w; try contradiction; reflexivity.
    - constructor.
    - split; cbn [fst snd wild0 rd_default cc_name sw_default]; [apply name_sim_wild; intros _; exact gname_other|exact I].
    - constructor.
    - unfold sw_all_cats. cbn. rewrite Hw. cbn. constructor; [intros []|constructor].
    - constructor; cbn; [constructor|intros u []|]. intros _. unfold sw_all_cats. cbn. rewrite Hw. cbn. constructor; [intros []|constructor]. }
  destruct timeout as [[|p]|].
  - intros H. injection H as <- <-. apply Hbase; auto. exact I.
  - destruct (new_cat fresh (S (S n)) s_NoResponse None) as [[nr n2]|e] eqn:E2; [|discriminate].
    apply (new_cat_spec fresh fresh_inj) in E2 as (-> & ->). intros H. injection H as <- <-.
    constructor; cbn.
    + reflexivity.
    + reflexivity.
    + reflexivity.
    + unfold wait_sim. cbn. split; [reflexivity|]. exists (CFixed s_NoResponse, DNone). split; [reflexivity|]. split; cbn; auto.
    + constructor.
    + split; cbn [fst snd wild0 rd_default cc_name sw_default]; [apply name_sim_wild; intros _; exact gname_other|exact I].
    + constructor.
    + unfold sw_all_cats. cbn. constructor.
      * intros [H|[]]. apply fresh_inj in H. lia.
      * constructor; [intros []|constructor].
    + constructor; cbn; [constructor|intros u []|]. intros _. unfold sw_all_cats. cbn. constructor.
      * intros [H|[]]. vm_compute in H. discriminate.
      * constructor; [intros []|constructor].
  - intros H. injection H as <- <-. apply Hbase; auto. exact I.
Qed.

Definition payload_of (payloads : list sexp) : sexp := match payloads with p :: _ => p | [] => L [] end.

Definition acts_ok (kind : nkind) (acts : list (id * sexp)) (payloads : list sexp) : Prop :=
  match kind with
  | KBasic1 | KBasic2 => map snd acts = payloads
  | KWait _ _ | KSplitValue _ _ | KSplitGroup _ | KRandom _ => acts = [] /\ payloads = []
  | KEnterFlow _ | KWebhook _ | KAirtime _ => acts = [] /\ exists p, payloads = [p]
  end.

Lemma new_switch_node_sim phi uu n given operand sv timeout nd n' :
  new_switch_node fresh n given operand (Some sv) timeout = Ok (nd, n') ->
  exists r, cn_body nd = BSwitch SPlain r /\ cn_actions nd = []
            /\ dec_sim phi uu (mkDec false operand (wait_of timeout) (render_result (Some sv)) [] [] wild0 (noresp_of timeout)) r.
Proof.
  unfold new_switch_node, new_switch_parts. destruct (node_uuid fresh given n) as [[u g] n1]. destruct operand as [|c o]; [discriminate|].
  destruct (new_switch fresh (S n1) (c :: o) (Some sv) timeout) as [[r n3]|e] eqn:E; [|discriminate].
  intros H. injection H as <- <-. exists r. split; [reflexivity|]. split; [reflexivity|]. eapply new_switch_dec_sim'; eauto.
Qed.

Lemma new_row_node_sim phi uu n kind given acts payloads nd n' :
  acts_ok kind acts payloads ->
  new_row_node fresh n kind given acts (payload_of payloads) = Ok (nd, n') ->
  node_sim phi uu (mkRNode payloads (kind_dec0 kind) DNone) nd None /\ class_ok (kind_cls kind) (rowtype_of kind) (cn_body nd).
Proof.
  intros Ha. unfold new_row_node. destruct kind as [| |t sv|op sv|sv|sv|name|sv|sv]; cbn [acts_ok] in Ha.
  - destruct (node_uuid fresh given n) as [[u g] n1]. intros H. injection H as <- <-. split; [|reflexivity].
    eapply NS_basic; cbn; eauto. exact I.
  - destruct (node_uuid fresh given n) as [[u g] n1]. intros H. injection H as <- <-. split; [|reflexivity].
    eapply NS_basic; cbn; eauto. exact I.
  - destruct Ha as [-> ->]. intros H. destruct (new_switch_node_sim phi uu _ _ _ _ _ _ _ H) as (r & Hb & Hac & Hds).
    rewrite Hb. split; [|reflexivity].
    eapply NS_router with (cls := SPlain) (r := r) (d := mkDec false s_input_text (wait_of (Some t)) (render_result (Some sv)) [] [] wild0 (noresp_of (Some t)));
      cbn; eauto; try (rewrite Hac; reflexivity); try (destruct t; reflexivity).
    split; [constructor|split; [reflexivity|destruct t; cbn; [exact I|reflexivity]]].
  - destruct Ha as [-> ->]. intros H. destruct (new_switch_node_sim phi uu _ _ _ _ _ _ _ H) as (r & Hb & Hac & Hds).
    rewrite Hb. split; [|reflexivity].
    eapply NS_router with (cls := SPlain) (r := r); cbn; eauto; try (rewrite Hac; reflexivity).
    split; [constructor|split; [reflexivity|exact I]].
  - destruct Ha as [-> ->]. intros H. destruct (new_switch_node_sim phi uu _ _ _ _ _ _ _ H) as (r & Hb & Hac & Hds).
    rewrite Hb. split; [|reflexivity].
    eapply NS_router with (cls := SPlain) (r := r); cbn; eauto; try (rewrite Hac; reflexivity).
    split; [constructor|split; [reflexivity|exact I]].
  - (* split_random *)
    destruct Ha as [-> ->]. destruct (node_uuid fresh given n) as [[u g] n1]. intros H. injection H as <- <-. split; [|reflexivity].
    eapply NS_random with (r := mkRandom (Some sv) []); cbn; eauto.
    constructor; cbn; [reflexivity|reflexivity|constructor|constructor].
  - (* start_new_flow *)
    destruct Ha as [-> (p & ->)]. unfold new_enter_node. destruct (node_uuid fresh given n) as [[u g] n1]. destruct name as [|c0 nm]; [discriminate|].
    unfold sw_add_choice. destruct explicit_names_claimed eqn:Eflag; cbn; intros H; injection H as <- <-; (split; [|exact I]);
      (eapply NS_router with (cls := SEnter); cbn; eauto; [|eexists; reflexivity]);
      (constructor; cbn;
       [reflexivity|reflexivity|reflexivity|reflexivity
       |constructor; [split; cbn; auto|constructor]
       |split; cbn; auto
       |constructor; [repeat split; reflexivity|constructor; [repeat split; reflexivity|constructor]]
       |unfold sw_all_cats; cbn; constructor; [intros [H|[]]; apply fresh_inj in H; lia|constructor; [intros []|constructor]]
       |constructor; cbn; [constructor; [reflexivity|constructor]|intros x []|intros _; unfold sw_all_cats; cbn; constructor; [intros [H|[]]; discriminate H|constructor; [intros []|constructor]]]]).
  - (* call_webhook *)
    destruct Ha as [-> (p & ->)]. unfold new_outcome_node. destruct (node_uuid fresh given n) as [[u g] n1]. destruct sv as [|c0 sv']; [discriminate|].
    cbn [kind_dec0]. destruct (field_key (c0 :: sv')) as [key|e]; [|discriminate].
    unfold sw_add_choice. destruct explicit_names_claimed eqn:Eflag; cbn; intros H; injection H as <- <-; (split; [|exact I]);
      (eapply NS_router with (cls := SOutcome); cbn; eauto; [|eexists; reflexivity]);
      (constructor; cbn;
       [reflexivity|reflexivity|reflexivity|reflexivity
       |constructor; [split; cbn; auto|constructor]
       |split; cbn; auto
       |constructor; [repeat split; reflexivity|constructor]
       |unfold sw_all_cats; cbn; constructor; [intros [H|[]]; apply fresh_inj in H; lia|constructor; [intros []|constructor]]
       |constructor; cbn; [constructor; [reflexivity|constructor]|intros x []|intros _; unfold sw_all_cats; cbn; constructor; [intros [H|[]]; discriminate H|constructor; [intros []|constructor]]]]).
  - (* transfer_airtime *)
    destruct Ha as [-> (p & ->)]. unfold new_outcome_node. destruct (node_uuid fresh given n) as [[u g] n1]. destruct sv as [|c0 sv']; [discriminate|].
    cbn [kind_dec0]. destruct (field_key (c0 :: sv')) as [key|e]; [|discriminate].
    unfold sw_add_choice. destruct explicit_names_claimed eqn:Eflag; cbn; intros H; injection H as <- <-; (split; [|exact I]);
      (eapply NS_router with (cls := SOutcome); cbn; eauto; [|eexists; reflexivity]);
      (constructor; cbn;
       [reflexivity|reflexivity|reflexivity|reflexivity
       |constructor; [split; cbn; auto|constructor]
       |split; cbn; auto
       |constructor; [repeat split; reflexivity|constructor]
       |unfold sw_all_cats; cbn; constructor; [intros [H|[]]; apply fresh_inj in H; lia|constructor; [intros []|constructor]]
       |constructor; cbn; [constructor; [reflexivity|constructor]|intros x []|intros _; unfold sw_all_cats; cbn; constructor; [intros [H|[]]; discriminate H|constructor; [intros []|constructor]]]]).
Qed.

(* ---------------------------------------------------------------- edges of a row *)
Variable GP : id -> Prop.

Lemma source_sim phi sr sc e :
  Sim phi sr sc ->
  match source_group sr e, csource sc e with
  | None, Err _ => True
  | Some a, Ok b => a = b
  | _, _ => False
  end.
Proof.
  intros Hsim. unfold source_group, csource. rewrite (sim_stack _ _ _ Hsim), (sim_rowmap _ _ _ Hsim).
  destruct (e_from e) as [| |rid]; try reflexivity. destruct (alookup (cs_rowmap sc) rid); [reflexivity|exact I].
Qed.

Lemma fuel_sim phi sr sc : Sim phi sr sc -> fuel_of sr = cfuel sc.
Proof. intros Hsim. unfold fuel_of, cfuel. rewrite (Forall2_length' _ _ _ (sim_groups _ _ _ Hsim)). reflexivity. Qed.

Definition step_post (phi : list (nat * option nat)) (sr : st) (sc : cstate) (sr' : st) (sc' : cstate) : Prop :=
  exists phi', Sim phi' sr' sc' /\ phi_le phi phi' /\ StOK fresh GP sc' /\ ext sc sc' /\ gframe sr sr' /\ pframe sr phi phi'.

Lemma step_post_refl phi sr sc : Sim phi sr sc -> StOK fresh GP sc -> step_post phi sr sc sr sc.
Proof.
  intros H1 H2. exists phi. split; [exact H1|]. split; [apply phi_le_refl|]. split; [exact H2|]. split; [apply ext_refl|].
  split; [apply (gframe_refl fresh fresh_inj)|apply pframe_refl].
Qed.

Lemma add_row_edge_sim phi sr sc e tgt dd sr' sc' :
  Sim phi sr sc -> StOK fresh GP sc -> edge_ok e -> dest_sim phi (cuu sc) tgt dd ->
  add_row_edge nab sr e tgt = Some sr' -> cadd_row_edge fresh sc e dd = Ok sc' -> step_post phi sr sc sr' sc'.
Proof.
  intros Hsim Hst He Hd. unfold add_row_edge, cadd_row_edge. pose proof (source_sim phi sr sc e Hsim) as Hs.
  destruct (source_group sr e) as [[g|]|], (csource sc e) as [[g'|]|x]; try contradiction; try discriminate.
  - injection Hs as <-. rewrite (fuel_sim _ _ _ Hsim). intros H1 H2.
    eapply (add_exit_sim fresh GP fresh_inj fresh_not_sentinel); eauto.
  - intros H1 H2. injection H1 as <-. injection H2 as <-. apply step_post_refl; assumption.
Qed.

Lemma step_post_trans phi sr sc phi1 sr1 sc1 sr2 sc2 :
  Sim phi1 sr1 sc1 -> phi_le phi phi1 -> ext sc sc1 -> gframe sr sr1 -> pframe sr phi phi1 ->
  step_post phi1 sr1 sc1 sr2 sc2 -> step_post phi sr sc sr2 sc2.
Proof.
  intros _ Hle He Hf Hp (phi2 & H1 & H2 & H3 & H4 & H5 & H6). exists phi2. split; [exact H1|].
  split; [eapply phi_le_trans; eauto|]. split; [exact H3|]. split; [eapply ext_trans; eauto|].
  split; [eapply gframe_trans; eauto|eapply pframe_trans; eauto].
Qed.

(* all the edges of a row lead to one target *)
Lemma fold_edges_sim es : forall phi sr sc tgt dd sr' sc',
  Sim phi sr sc -> StOK fresh GP sc -> Forall edge_ok es -> dest_sim phi (cuu sc) tgt dd ->
  fold_edges nab sr es (fun _ => tgt) = Some sr' -> foldM (fun s' e => cadd_row_edge fresh s' e dd) es sc = Ok sc' ->
  step_post phi sr sc sr' sc'.
Proof.
  unfold fold_edges. induction es as [|e r IH]; intros phi sr sc tgt dd sr' sc' Hsim Hst Hes Hd; cbn.
  - intros H1 H2. injection H1 as <-. injection H2 as <-. apply step_post_refl; assumption.
  - inversion Hes as [|? ? He Hr]; subst.
    destruct (add_row_edge nab sr e tgt) as [s1|] eqn:E1.
    2:{ intros H. exfalso. clear - H. induction r as [|a r IHr]; cbn in H; [discriminate|auto]. }
    destruct (cadd_row_edge fresh sc e dd) as [c1|x] eqn:E2; [|discriminate]. intros H1 H2.
    destruct (add_row_edge_sim phi sr sc e tgt dd s1 c1 Hsim Hst He Hd E1 E2) as (phi1 & S1 & L1 & T1 & X1 & F1 & P1).
    eapply step_post_trans; eauto. eapply IH; eauto. eapply dest_sim_mono; [exact L1|apply ext_grows, X1|exact Hd].
Qed.

(* ---------------------------------------------------------------- the rows *)
Hypothesis GP_ns : forall u, GP u -> u <> hard_exit_sentinel.

Lemma uuid_not_sentinel sc k nd : StOK fresh GP sc -> nth_error (cs_nodes sc) k = Some nd -> cn_uuid nd <> hard_exit_sentinel.
Proof.
  intros Hst Hk. destruct (StOK_nth fresh GP _ _ _ Hst Hk) as [H1 _ _ H4]. destruct (cn_given nd) eqn:Eg.
  - apply GP_ns, H4. reflexivity.
  - destruct (H1 eq_refl) as (j & _ & ->). apply fresh_not_sentinel.
Qed.

Lemma class_pres_fold_edges es sc dd sc' :
  foldM (fun s' e => cadd_row_edge fresh s' e dd) es sc = Ok sc' -> class_pres sc sc'.
Proof. apply class_pres_foldM. intros a x b. apply cadd_row_edge_class. Qed.

Lemma basic_acts (payloads : list sexp) acts n1 next :
  length payloads <= 1 ->
  match match payloads with p :: _ => Some p | [] => None end with
  | Some p => ([(fresh next, p)], S next) | None => ([], next) end = (acts, n1) ->
  map snd acts = payloads /\ next <= n1 /\ Forall (below fresh n1) (map fst acts) /\ FreshList fresh next n1 (map fst acts).
Proof.
  destruct payloads as [|p [|q r]]; cbn; intros Hl H; try lia; injection H as <- <-; cbn.
  - split; [reflexivity|]. split; [lia|]. split; [constructor|apply FreshList_nil].
  - split; [reflexivity|]. split; [lia|]. split; [constructor; [apply below_fresh; lia|constructor]|apply FreshList_one; lia].
Qed.

(* ---------------------------------------------------------------- node rows *)
(* the two builders when the row makes a node of its own *)
Definition ref_new (sr : st) (r : row) (cls : eclass) (payloads : list sexp) (dec0 : option rdec) : option st :=
  let (s1, k) := RowSem.add_node sr (mkRNode payloads dec0 DNone) in
  match fold_edges nab s1 (drop_padding (r_edges r)) (fun _ => DNode k) with
  | None => None
  | Some s2 => let (s3, g) := RowSem.add_group s2 (GRow k cls) (r_id r) in Some (push_names s3 (r_node_name r) k)
  end.

Definition comp_new (sc : cstate) (cr : crow) (acts : list (id * sexp)) (n1 : nat) (payloads : list sexp) : res cstate :=
  match new_row_node fresh n1 (cr_kind cr) (cr_uuid cr) acts (payload_of payloads) with
  | Err x => Err x
  | Ok (nd, n2) =>
    match foldM (fun s' e => cadd_row_edge fresh s' e (Some (cn_uuid nd))) (drop_padding (r_edges (cr_row cr))) (push_node sc nd n2) with
    | Err x => Err x
    | Ok s2 => Ok (set_names (add_cgroup s2 (CGRow (length (cs_nodes sc)) [] (rowtype_of (cr_kind cr))) (r_id (cr_row cr)))
                             (or_default (cr_uuid cr) (r_node_name (cr_row cr))) (length (cs_nodes sc)))
    end
  end.

(* the action of the row (drawn before the node) *)
Definition row_acts (sc : cstate) (kind : nkind) (payloads : list sexp) : list (id * sexp) * nat :=
  match (if is_basic_kind kind then match payloads with p :: _ => Some p | [] => None end else None) with
  | Some p => ([(fresh (cs_next sc), p)], S (cs_next sc))
  | None => ([], cs_next sc)
  end.

Definition kind_acts_ok (kind : nkind) (payloads : list sexp) : Prop :=
  match kind with
  | KBasic1 | KBasic2 => length payloads <= 1
  | KWait _ _ | KSplitValue _ _ | KSplitGroup _ | KRandom _ => payloads = []
  | KEnterFlow _ | KWebhook _ | KAirtime _ => length payloads = 1
  end.

Lemma row_acts_ok sc kind payloads acts n1 :
  kind_acts_ok kind payloads -> row_acts sc kind payloads = (acts, n1) ->
  acts_ok kind acts payloads /\ cs_next sc <= n1 /\ Forall (below fresh n1) (map fst acts) /\ FreshList fresh (cs_next sc) n1 (map fst acts).
Proof.
  intros Hacts Eacts. unfold row_acts in Eacts.
  assert (Hnone : ([] : list (id * sexp), cs_next sc) = (acts, n1) ->
                  acts = [] /\ cs_next sc <= n1 /\ Forall (below fresh n1) (map fst acts) /\ FreshList fresh (cs_next sc) n1 (map fst acts)).
  { intros H. injection H as <- <-. split; [reflexivity|]. split; [lia|]. split; [constructor|apply FreshList_nil]. }
  destruct kind; cbn [is_basic_kind acts_ok kind_acts_ok] in *.
  - exact (basic_acts _ _ _ _ Hacts Eacts).
  - exact (basic_acts _ _ _ _ Hacts Eacts).
  - destruct (Hnone Eacts) as (-> & H2 & H3 & H4). auto.
  - destruct (Hnone Eacts) as (-> & H2 & H3 & H4). auto.
  - destruct (Hnone Eacts) as (-> & H2 & H3 & H4). auto.
  - destruct (Hnone Eacts) as (-> & H2 & H3 & H4). auto.
  - destruct (Hnone Eacts) as (-> & H2 & H3 & H4).
    destruct payloads as [|p [|? ?]]; cbn in Hacts; try lia. split; [split; [reflexivity|eexists; reflexivity]|auto].
  - destruct (Hnone Eacts) as (-> & H2 & H3 & H4).
    destruct payloads as [|p [|? ?]]; cbn in Hacts; try lia. split; [split; [reflexivity|eexists; reflexivity]|auto].
  - destruct (Hnone Eacts) as (-> & H2 & H3 & H4).
    destruct payloads as [|p [|? ?]]; cbn in Hacts; try lia. split; [split; [reflexivity|eexists; reflexivity]|auto].
Qed.

(* a node row that makes a node of its own *)
Lemma new_node_sim phi sr sc cr payloads acts n1 sr' sc' :
  Sim phi sr sc -> StOK fresh GP sc -> Forall edge_ok (r_edges (cr_row cr)) ->
  (cr_uuid cr <> [] -> GP (cr_uuid cr)) -> or_default (cr_uuid cr) (r_node_name (cr_row cr)) = r_node_name (cr_row cr) ->
  acts_ok (cr_kind cr) acts payloads -> cs_next sc <= n1 -> Forall (below fresh n1) (map fst acts) -> FreshList fresh (cs_next sc) n1 (map fst acts) ->
  ref_new sr (cr_row cr) (kind_cls (cr_kind cr)) payloads (kind_dec0 (cr_kind cr)) = Some sr' ->
  comp_new sc cr acts n1 payloads = Ok sc' ->
  exists phi', Sim phi' sr' sc' /\ cs_heads sc' = cs_heads sc /\ phi_le phi phi'
               /\ nth_error phi' (length (s_nodes sr)) = Some (length (cs_nodes sc), None).
Proof.
  intros Hsim Hst Hedges Hgiven Hname Haok Hn1 Hbelow Hfresh. unfold ref_new, comp_new. rewrite Hname.
  set (kind := cr_kind cr) in *.
  destruct (new_row_node fresh n1 kind (cr_uuid cr) acts (payload_of payloads)) as [[nd n2]|x] eqn:En; [|discriminate].
  destruct (new_row_node_sim (phi ++ [(length (cs_nodes sc), None)]) (cuu sc ++ [cn_uuid nd]) n1 kind (cr_uuid cr) acts payloads nd n2 Haok En) as [Hns Hcls].
  destruct (new_row_node_ok fresh GP fresh_inj n1 (uuids sc ++ [cn_uuid nd]) kind (cr_uuid cr) acts (payload_of payloads) nd n2) as (N1 & N2 & _);
    [exact Hgiven|exact Hbelow|exact En|].
  destruct (new_row_node_ids fresh fresh_inj (cs_next sc) n1 kind (cr_uuid cr) acts (payload_of payloads) nd n2 Hn1 Hfresh En) as (_ & Fn).
  set (n0 := mkRNode payloads (kind_dec0 kind) DNone) in *.
  set (k := length (s_nodes sr)). set (j := length (cs_nodes sc)) in *.
  set (phi1 := phi ++ [(j, None)]) in *.
  pose proof (Sim_push phi sr sc n0 nd n2 Hsim Hns) as Hsim1. fold j phi1 in Hsim1.
  assert (Hst1 : StOK fresh GP (push_node sc nd n2)) by (apply (push_StOK fresh GP fresh_inj); [exact Hst|lia|exact N2|exact Fn]).
  set (es := drop_padding (r_edges (cr_row cr))).
  assert (Hes : Forall edge_ok es).
  { unfold es, drop_padding. destruct (r_edges (cr_row cr)) as [|e0 rest]; [constructor|]. inversion Hedges as [|? ? H0 Hr]; subst.
    constructor; [exact H0|]. rewrite Forall_forall in *. intros e He. apply filter_In in He as [He _]. auto. }
  destruct (RowSem.add_node sr n0) as [sr1 k'] eqn:Eadd. unfold RowSem.add_node in Eadd. injection Eadd as <- <-. fold k.
  destruct (fold_edges nab _ es _) as [sr2|] eqn:Ef1; [|discriminate].
  destruct (foldM _ es (push_node sc nd n2)) as [sc2|x] eqn:Ef2; [|discriminate].
  destruct (RowSem.add_group sr2 (GRow k (kind_cls kind)) (r_id (cr_row cr))) as [s3 g3] eqn:Eg.
  intros Hr Hc. injection Hr as <-. injection Hc as <-.
  assert (Hd1 : dest_sim phi1 (cuu (push_node sc nd n2)) (DNode k) (Some (cn_uuid nd))).
  { cbn. split.
    - eapply (uuid_not_sentinel (push_node sc nd n2) j); [exact Hst1|]. cbn. unfold j. apply nth_error_app2_same.
    - exists (j, None). split.
      + unfold phi1, k. rewrite <- (sim_len _ _ _ Hsim). apply nth_error_app2_same.
      + cbn. unfold cuu. cbn. rewrite map_app. cbn. unfold j. rewrite <- (map_length cn_uuid (cs_nodes sc)). apply nth_error_app2_same. }
  destruct (fold_edges_sim es phi1 _ _ (DNode k) (Some (cn_uuid nd)) sr2 sc2 Hsim1 Hst1 Hes Hd1 Ef1 Ef2) as (phi2 & Hs2 & Hle2 & Ht2 & He2 & Hf2 & Hp2).
  (* the new node is still alone in its cluster, unchanged on the reference side, of the same class on the compiled side *)
  assert (Hknew : ~ In k (flat_map grow_node (s_groups sr))) by (intros Hin; pose proof (grow_bound phi sr sc _ Hsim Hin); unfold k in *; lia).
  assert (Hk2 : nth_error phi2 k = Some (j, None)).
  { apply Hp2; [cbn; rewrite app_length; cbn; unfold k; lia|exact Hknew|]. unfold phi1, k. rewrite <- (sim_len _ _ _ Hsim). apply nth_error_app2_same. }
  destruct (class_pres_fold_edges _ _ _ _ Ef2 j nd) as (nd2 & Hj2 & Hcl2); [cbn; unfold j; apply nth_error_app2_same|].
  exists phi2.
  assert (G : Sim phi2 (fst (RowSem.add_group sr2 (GRow k (kind_cls kind)) (r_id (cr_row cr)))) (add_cgroup sc2 (CGRow j [] (rowtype_of kind)) (r_id (cr_row cr)))).
  { apply Sim_add_group; [exact Hs2| | |intros ps k0; discriminate].
    - apply (GS_row phi2 (cs_nodes sc2) k (kind_cls kind) (j, None) (rowtype_of kind) nd2); [exact Hk2|exact Hj2|eapply class_ok_same; eauto].
    - intros x [<-|[]]. apply (gframe_grow _ _ k Hf2); [cbn; rewrite app_length; cbn; unfold k; lia|exact Hknew]. }
  rewrite Eg in G. cbn [fst] in G.
  split; [apply (Sim_names phi2 s3 _ (r_node_name (cr_row cr)) k (j, None) G Hk2)|].
  split; [cbn; rewrite (ext_heads _ _ He2); reflexivity|]. split; [eapply phi_le_trans; [apply phi_le_app|exact Hle2]|exact Hk2].
Qed.

(* every node an entry_node names is the node of a row group, hence never the decision node of a no_op *)
Lemma entry_node_row fuel : forall sr g k, entry_node fuel sr g = Some k -> exists g' cls, nth_error (s_groups sr) g' = Some (GRow k cls).
Proof.
  induction fuel as [|f IH]; intros sr g k; cbn; [discriminate|].
  destruct (nth_error (s_groups sr) g) as [[k0 cls|ps o|[|m ms]]|] eqn:E; try discriminate.
  - intros H. injection H as <-. exists g, cls. exact E.
  - apply IH.
Qed.

Lemma row_node_not_noop phi sr sc k g' cls : Sim phi sr sc -> nth_error (s_groups sr) g' = Some (GRow k cls) ->
  forall g ps, nth_error (s_groups sr) g <> Some (GNoOp ps (Some k)).
Proof.
  intros Hsim Hg' g ps Hg. destruct (Nat.eq_dec g' g) as [->|Hne]; [congruence|].
  eapply (flat_map_NoDup_idx grow_node (s_groups sr) g' g (GRow k cls) (GNoOp ps (Some k)) k (sim_ginj _ _ _ Hsim)); eauto; left; reflexivity.
Qed.

(* an action row merged into the node of that name *)
Lemma merge_row_sim phi sr sc k kc e g acts n1 payloads rid sr' sc' :
  Sim phi sr sc -> StOK fresh GP sc ->
  (exists c, nth_error phi k = Some c /\ fst c = kc) ->
  map snd acts = payloads -> cs_next sc <= n1 -> Forall (below fresh n1) (map fst acts) -> FreshList fresh (cs_next sc) n1 (map fst acts) ->
  source_group sr e = Some (Some g) ->
  match entry_node (fuel_of sr) sr g, nth_error (s_nodes sr) k with
  | Some k', Some n => if Nat.eqb k k'
                       then Some (alias_row (RowSem.set_node sr k (mkRNode (rn_actions n ++ payloads) (rn_dec n) (rn_cont n))) rid g)
                       else None
  | _, _ => None
  end = Some sr' ->
  match match e_from e with FBlank => most_recent (cs_stack sc) | FStart => None | FRow r0 => alookup (cs_rowmap sc) r0 end with
  | None => Err (ECrash CAttributeError)
  | Some g0 =>
    match centry (cfuel sc) sc g0 with
    | Err x => Err x
    | Ok k' =>
      if negb (Nat.eqb kc k') then Err EMergeSource
      else match nth_error (cs_nodes sc) kc with
           | None => Err EInternal
           | Some nd =>
             let s1 := Compile.set_node sc kc (mkCNode (cn_uuid nd) (cn_given nd) (cn_actions nd ++ acts) (cn_body nd)) n1 in
             match rid with
             | [] => Ok s1
             | a0 :: r0 => match e_from e with
                           | FRow frm => match alookup (cs_rowmap sc) frm with Some g' => Ok (set_rowmap s1 (a0 :: r0) g') | None => Err (ECrash CKeyError) end
                           | _ => Err (ECrash CKeyError)
                           end
             end
           end
    end
  end = Ok sc' ->
  Sim phi sr' sc' /\ cs_heads sc' = cs_heads sc.
Proof.
  intros Hsim Hst (c & Hc & Efc) Hacts Hn1 Hbelow Hfresh Hsrc Hr Hcomp.
  (* the source group is the same on both sides *)
  assert (Hg0 : match e_from e with FBlank => most_recent (cs_stack sc) | FStart => None | FRow r0 => alookup (cs_rowmap sc) r0 end = Some g).
  { unfold source_group in Hsrc. rewrite (sim_stack _ _ _ Hsim), (sim_rowmap _ _ _ Hsim) in Hsrc.
    destruct (e_from e) as [| |r0]; [injection Hsrc as ->; reflexivity|discriminate|].
    destruct (alookup (cs_rowmap sc) r0); [injection Hsrc as ->; reflexivity|discriminate]. }
  rewrite Hg0 in Hcomp. rewrite (fuel_sim _ _ _ Hsim) in Hr.
  destruct (entry_node (cfuel sc) sr g) as [k'|] eqn:Ee; [|discriminate].
  destruct (nth_error (s_nodes sr) k) as [n|] eqn:En; [|discriminate].
  destruct (Nat.eqb k k') eqn:Ekk; [|discriminate]. apply Nat.eqb_eq in Ekk. subst k'. injection Hr as <-.
  destruct (centry (cfuel sc) sc g) as [k1|x] eqn:Ec; [|discriminate].
  destruct (entry_sim fresh fresh_inj _ _ _ _ _ _ _ Hsim Ee Ec) as (c' & Hc' & Ec'). assert (c' = c) by congruence. subst c'.
  rewrite <- Efc, Ec', Nat.eqb_refl in Hcomp. cbn [negb] in Hcomp.
  destruct (sim_nodes _ _ _ Hsim k n c En Hc) as (nd & o & Hcn & Hns).
  assert (Hnd : nth_error (cs_nodes sc) k1 = Some nd).
  { unfold cluster_nodes in Hcn. rewrite Ec' in Hcn. destruct (nth_error (cs_nodes sc) k1) as [y|]; [|discriminate].
    destruct (snd c) as [j|]; [destruct (nth_error (cs_nodes sc) j); [|discriminate]|]; injection Hcn as <- _; reflexivity. }
  rewrite Hnd in Hcomp.
  set (nd' := mkCNode (cn_uuid nd) (cn_given nd) (cn_actions nd ++ acts) (cn_body nd)) in *.
  destruct (entry_node_row _ _ _ _ Ee) as (g' & cls' & Hg').
  assert (Hs1 : Sim phi (RowSem.set_node sr k (mkRNode (rn_actions n ++ payloads) (rn_dec n) (rn_cont n))) (Compile.set_node sc k1 nd' n1)).
  { eapply (Sim_set_row phi sr sc k n _ c k1 nd nd' n1 Hsim En Hc); eauto.
    - rewrite <- Ec'. left. reflexivity.
    - apply same_class_refl.
    - eapply row_node_not_noop; eauto.
    - intros nd2 o2 Hcn2. unfold cluster_nodes in Hcn, Hcn2. rewrite Ec' in Hcn, Hcn2. rewrite Hnd in Hcn.
      rewrite (update_nth_same _ _ _ _ Hnd) in Hcn2.
      assert (Hact' : map snd (cn_actions nd') = rn_actions n ++ payloads).
      { unfold nd'. cbn. rewrite map_app, Hacts. f_equal. destruct Hns; assumption. }
      destruct (snd c) as [j|] eqn:Ej.
      + assert (Hne : k1 <> j).
        { intros ->. pose proof (sim_disj _ _ _ Hsim) as Hd. destruct (flat_map_update_split cluster_idx _ _ _ Hc) as [E _]. rewrite E in Hd.
          unfold cluster_idx in Hd. rewrite Ec', Ej in Hd. cbn in Hd. apply NoDup_app_r in Hd. inversion Hd as [|? ? Hx _]; subst. apply Hx. left. reflexivity. }
        rewrite update_nth_other in Hcn2 by (intros E; apply Hne; symmetry; exact E).
        destruct (nth_error (cs_nodes sc) j) as [nr|] eqn:Enr; [|discriminate]. injection Hcn as <-. injection Hcn2 as <- <-.
        inversion Hns as [| | |? ? e0 nr0 r d H1 H2 H3 H4 H5 H6 H7 H8 H9]; subst.
        eapply NS_implicit with (e := e0) (r := r); cbn; eauto.
      + injection Hcn as <-. injection Hcn2 as <- <-.
        inversion Hns as [? ? e0 H1 H2 H3 H4|? ? cls0 r0 d0 H1 H2 H3 H4 H5|? ? rr0 dr0 H1 H2 H3 H4|]; subst.
        * eapply NS_basic with (e := e0); cbn; eauto.
        * eapply NS_router with (cls := cls0) (r := r0); cbn; eauto.
        * eapply NS_random with (r := rr0); cbn; eauto. }
  pose proof (Sim_alias phi _ _ rid g Hs1) as Hs2.
  destruct rid as [|a rid'].
  - injection Hcomp as <-. split; [exact Hs2|reflexivity].
  - destruct (e_from e) as [| |frm]; try discriminate. rewrite Hg0 in Hcomp. injection Hcomp as <-. split; [exact Hs2|reflexivity].
Qed.

(* hard_exit / loose_exit rows *)
Lemma exit_rows_sim phi sr sc es tgt dd sr' sc' :
  Sim phi sr sc -> StOK fresh GP sc -> Forall edge_ok es -> dest_sim phi (cuu sc) tgt dd ->
  fold_edges nab sr es (fun _ => tgt) = Some sr' -> foldM (fun s' e => cadd_row_edge fresh s' e dd) es sc = Ok sc' ->
  exists phi', Sim phi' sr' sc' /\ cs_heads sc' = cs_heads sc /\ phi_le phi phi'.
Proof.
  intros Hsim Hst Hes Hd H1 H2. destruct (fold_edges_sim es phi sr sc tgt dd sr' sc' Hsim Hst Hes Hd H1 H2) as (phi' & H & Hle & _ & He & _).
  exists phi'. split; [exact H|]. split; [apply (ext_heads _ _ He)|exact Hle].
Qed.

(* go_to rows *)
Lemma goto_sim (l : list (redge * str)) : forall phi sr sc sr' sc',
  Sim phi sr sc -> StOK fresh GP sc -> Forall (fun et => edge_ok (fst et)) l ->
  fold_left (fun os et => match os with
                          | None => None
                          | Some s' => match alookup (s_rowmap s') (snd et) with
                                       | None => None
                                       | Some g => match entry_node (fuel_of s') s' g with
                                                   | Some k => add_row_edge nab s' (fst et) (DNode k)
                                                   | None => None end end end) l (Some sr) = Some sr' ->
  foldM (fun s' et => match alookup (cs_rowmap s') (snd et) with
                      | None => Err (ECrash CKeyError)
                      | Some g => match centry (cfuel s') s' g with
                                  | Err x => Err x
                                  | Ok k => match nth_error (cs_nodes s') k with
                                            | Some nd => cadd_row_edge fresh s' (fst et) (Some (cn_uuid nd))
                                            | None => Err EInternal end end end) l sc = Ok sc' ->
  exists phi', Sim phi' sr' sc' /\ cs_heads sc' = cs_heads sc /\ phi_le phi phi'.
Proof.
  induction l as [|et r IH]; intros phi sr sc sr' sc' Hsim Hst Hl; cbn [fold_left foldM].
  - intros H1 H2. injection H1 as <-. injection H2 as <-. exists phi. split; [exact Hsim|]. split; [reflexivity|apply phi_le_refl].
  - inversion Hl as [|? ? He Hr]; subst. rewrite (sim_rowmap _ _ _ Hsim).
    destruct (alookup (cs_rowmap sc) (snd et)) as [g|].
    2:{ intros H. exfalso. clear - H. induction r as [|a r IHr]; cbn in H; [discriminate|auto]. }
    rewrite (fuel_sim _ _ _ Hsim).
    destruct (entry_node (cfuel sc) sr g) as [k|] eqn:E1.
    2:{ intros H. exfalso. clear - H. induction r as [|a r IHr]; cbn in H; [discriminate|auto]. }
    destruct (centry (cfuel sc) sc g) as [k1|x] eqn:E2; [|discriminate].
    destruct (entry_sim fresh fresh_inj _ _ _ _ _ _ _ Hsim E1 E2) as (c & Hc & Ec).
    destruct (nth_error (cs_nodes sc) k1) as [nd|] eqn:En; [|discriminate].
    destruct (add_row_edge nab sr (fst et) (DNode k)) as [s1|] eqn:A1.
    2:{ intros H. exfalso. clear - H. induction r as [|a r IHr]; cbn in H; [discriminate|auto]. }
    destruct (cadd_row_edge fresh sc (fst et) (Some (cn_uuid nd))) as [c1|x] eqn:A2; [|discriminate].
    intros H1 H2.
    assert (Hd : dest_sim phi (cuu sc) (DNode k) (Some (cn_uuid nd))).
    { cbn. split; [eapply uuid_not_sentinel; eauto|]. exists c. split; [exact Hc|]. rewrite Ec. unfold cuu. rewrite nth_error_map, En. reflexivity. }
    destruct (add_row_edge_sim phi sr sc (fst et) (DNode k) (Some (cn_uuid nd)) s1 c1 Hsim Hst He Hd A1 A2) as (phi1 & S1 & L1 & T1 & X1 & _).
    destruct (IH phi1 s1 c1 sr' sc' S1 T1 Hr H1 H2) as (phi2 & S2 & E2' & L2). exists phi2. split; [exact S2|].
    split; [rewrite E2'; apply (ext_heads _ _ X1)|eapply phi_le_trans; eauto].
Qed.

(* the parents of a no_op / of a block head *)
Lemma noop_parents_sim phi sr sc edges : forall acc ps ps',
  Sim phi sr sc -> Forall edge_ok edges -> Forall (fun p : nat * econd => cond_ok (snd p)) acc ->
  fold_left (fun a e => match a with
                        | None => None
                        | Some q => match source_group sr e with
                                    | None => None
                                    | Some None => Some q
                                    | Some (Some g) => Some (q ++ [(g, e_cond e)]) end end) edges (Some acc) = Some ps ->
  foldM (fun q e => match csource sc e with
                    | Err x => Err x
                    | Ok None => Ok q
                    | Ok (Some g) => Ok (q ++ [(g, e_cond e)]) end) edges acc = Ok ps' ->
  ps = ps' /\ Forall (fun p : nat * econd => cond_ok (snd p)) ps.
Proof.
  induction edges as [|e r IH]; intros acc ps ps' Hsim Hes Hacc; cbn.
  - intros H1 H2. injection H1 as <-. injection H2 as <-. auto.
  - inversion Hes as [|? ? He Hr]; subst. pose proof (source_sim phi sr sc e Hsim) as Hs.
    destruct (source_group sr e) as [[g|]|], (csource sc e) as [[g'|]|x]; try contradiction; try discriminate.
    + injection Hs as <-. apply IH; auto. apply Forall_app. split; [exact Hacc|constructor; [exact He|constructor]].
    + apply IH; auto.
Qed.

Lemma noop_row_sim phi sr sc edges rid sr' sc' :
  Sim phi sr sc -> Forall edge_ok edges ->
  match fold_left (fun a e => match a with
                        | None => None
                        | Some q => match source_group sr e with
                                    | None => None
                                    | Some None => Some q
                                    | Some (Some g) => Some (q ++ [(g, e_cond e)]) end end) edges (Some []) with
  | None => None
  | Some ps => Some (fst (RowSem.add_group sr (GNoOp ps None) rid)) end = Some sr' ->
  cparse_noop sc edges rid = Ok sc' -> Sim phi sr' sc'.
Proof.
  intros Hsim Hes H1. unfold cparse_noop. destruct (fold_left _ edges (Some [])) as [ps|] eqn:E1; [|discriminate]. injection H1 as <-.
  destruct (foldM _ edges []) as [ps'|x] eqn:E2; [|discriminate]. intros H. injection H as <-.
  destruct (noop_parents_sim phi sr sc edges [] ps ps' Hsim Hes ltac:(constructor) E1 E2) as [<- Hps].
  apply Sim_add_group; [exact Hsim|constructor; exact Hps|intros k []|intros q k; discriminate].
Qed.

(* only the stack of open blocks (and the heads the compiler remembers) changes *)
Lemma Sim_with_stack phi sr sc stk hs :
  Sim phi sr sc -> Sim phi (mkSt (s_nodes sr) (s_groups sr) (s_rowmap sr) (s_names sr) stk) (set_stack_heads sc stk hs).
Proof. intros [H1 H2 H3 H4 H5 H6 H7 H8]. constructor; cbn; auto. Qed.
End Step.
End WithNames.
