(* E7 — non-vacuity of the compiler theorems, and the decided form of compile_closed:
   the example sheets (Comp/CompileExamples.v, generated from the directed sheets of the harness) compile to
   Ok; without the node-uuid validation the statement is false (two router rows with one `_nodeId`). *)
From Coq Require Import List NArith Bool Arith Lia.
From RPFT Require Import Base.Sexp Base.PyStr Base.Result Gen.Tables Flow.Flow Flow.Closed Flow.NodeIdCheck
     Flow.NodeIdCheckFacts Flow.RowSem Comp.Compile Comp.CompileFacts Comp.CompileInv Comp.CompileStep
     Comp.CompileClosed Comp.CompileDistinct Comp.CompileExamples.
Import ListNotations.

Definition ex_name : str := [102; 49]%N.     (* "f1" *)

(* what an example establishes: the sheet compiles, to so many nodes of which so many carry a router, and the
   proved checker accepts the flow *)
Definition compiles_to (rows : list crow) (nodes routers : nat) : Prop :=
  exists f, compile std_fresh ex_name rows = Ok f /\ length (f_nodes f) = nodes
            /\ length (filter (fun nd => match n_router nd with Some _ => true | None => false end) (f_nodes f)) = routers
            /\ flow_closedb f = true.

Ltac run_example :=
  match goal with
  | |- compiles_to ?rows _ _ =>
    let r := eval vm_compute in (compile std_fresh ex_name rows) in
    match r with
    | Ok ?f => exists f; split; [vm_compute; reflexivity|split; [vm_compute; reflexivity|split; vm_compute; reflexivity]]
    end
  end.

Example compile_ex_router : compiles_to ex_router 6 1.
Proof. run_example. Qed.
Example compile_ex_goto_cycle : compiles_to ex_goto_cycle 3 1.
Proof. run_example. Qed.
Example compile_ex_noop : compiles_to ex_noop 9 2.
Proof. run_example. Qed.
Example compile_ex_blocks : compiles_to ex_blocks 8 1.
Proof. run_example. Qed.
Example compile_ex_merged : compiles_to ex_merged 3 0.
Proof. run_example. Qed.
Example compile_ex_outcome : compiles_to ex_outcome 9 3.
Proof. run_example. Qed.
Example compile_ex_exits : compiles_to ex_exits 3 1.
Proof. run_example. Qed.

(* two router rows carrying one `_nodeId`: with the validation the sheet is rejected, naming the uuid; without
   it the sheet compiles to a flow with a repeated node uuid, which is not closed *)
Example compile_ex_dup_rejected :
  exists u, compile_with std_fresh (first_repeated []) ex_name ex_dup_uuid = Err (EDupNodeUuid u).
Proof. eexists. vm_compute. reflexivity. Qed.

Example compile_ex_dup_unvalidated :
  exists f, compile_with std_fresh (fun _ => None) ex_name ex_dup_uuid = Ok f /\ flow_closedb f = false.
Proof.
  let r := eval vm_compute in (compile_with std_fresh (fun _ => None) ex_name ex_dup_uuid) in
  match r with Ok ?f => exists f; split; vm_compute; reflexivity end.
Qed.

Lemma cfinish_with_ext v1 v2 name s : (forall us, v1 us = v2 us) -> cfinish_with std_fresh v1 name s = cfinish_with std_fresh v2 name s.
Proof.
  intros H. unfold cfinish_with. destruct (cs_heads s); [|reflexivity]. destruct (cs_stack s) as [|r [|? ?]]; try reflexivity.
  destruct (mapM _ r); [|reflexivity]. destruct (mapM _ (concat v)); [|reflexivity]. rewrite H. reflexivity.
Qed.

(* Decided on the code of this run (compile_checks_node_uuids is probed from it): with the validation every
   compiled flow is closed; without it (the defect duplicate-given-node-id) the statement is refuted *)
Theorem compile_closed_decided :
  if compile_checks_node_uuids
  then forall fresh, (forall a b, fresh a = fresh b -> a = b) ->
       forall name rows f, compile fresh name rows = Ok f -> flow_closedb f = true
  else exists rows f, compile std_fresh ex_name rows = Ok f /\ flow_closedb f = false.
Proof.
  destruct compile_checks_node_uuids eqn:E.
  - intros fresh Hinj name rows f. apply compile_closed; assumption.
  - destruct compile_ex_dup_unvalidated as (f & Hf & Hc). exists ex_dup_uuid, f. split; [|exact Hc].
    unfold compile, compile_with in *. destruct (crun std_fresh ex_dup_uuid) as [s|x]; [|discriminate].
    rewrite <- Hf. apply cfinish_with_ext. intros us. unfold compile_flow_validation. rewrite E. reflexivity.
Qed.

(* ---------------------------------------------------------------- a supply of RFC-4122 strings
   The hypotheses of compile_doc_closed are satisfiable: the first 256 identifiers of this supply are version-4
   uuid strings (00000000-0000-4000-8000-0000000000xx), the others the pseudo-characters of std_fresh. *)
Definition hexd (d : N) : N := (if d <? 10 then 48 + d else 87 + d)%N.
Definition uuid_prefix : str :=
  [48;48;48;48;48;48;48;48;45;48;48;48;48;45;52;48;48;48;45;56;48;48;48;45;48;48;48;48;48;48;48;48;48;48]%N.
Definition uuid_fresh (k : nat) : id :=
  if Nat.ltb k 256 then uuid_prefix ++ [hexd (N.of_nat k / 16); hexd (N.of_nat k mod 16)]%N else std_fresh k.

Lemma uuid_fresh_small_inj :
  forallb (fun a => forallb (fun b => implb (str_eqb (uuid_fresh a) (uuid_fresh b)) (Nat.eqb a b)) (seq 0 256)) (seq 0 256) = true.
Proof. vm_compute. reflexivity. Qed.

Lemma uuid_fresh_small_uuid4 : forallb (fun k => is_uuid4 (uuid_fresh k)) (seq 0 256) = true.
Proof. vm_compute. reflexivity. Qed.

Lemma uuid_fresh_inj a b : uuid_fresh a = uuid_fresh b -> a = b.
Proof.
  intros E. destruct (Nat.ltb a 256) eqn:Ea, (Nat.ltb b 256) eqn:Eb.
  - apply Nat.ltb_lt in Ea, Eb. pose proof uuid_fresh_small_inj as H. rewrite forallb_forall in H.
    specialize (H a ltac:(apply in_seq; lia)). rewrite forallb_forall in H. specialize (H b ltac:(apply in_seq; lia)).
    rewrite E, PyStrFacts.str_eqb_refl in H. cbn in H. apply Nat.eqb_eq, H.
  - unfold uuid_fresh in E. rewrite Ea, Eb in E. discriminate E.
  - unfold uuid_fresh in E. rewrite Ea, Eb in E. discriminate E.
  - unfold uuid_fresh in E. rewrite Ea, Eb in E. apply std_fresh_inj, E.
Qed.

Lemma uuid_fresh_uuid4 k : k < 256 -> is_uuid4 (uuid_fresh k) = true.
Proof. intros H. pose proof uuid_fresh_small_uuid4 as F. rewrite forallb_forall in F. apply F, in_seq. lia. Qed.

(* the two given `_nodeId`s of ex_given *)
Definition ex_given_ids : list id := filter (fun u => match u with [] => false | _ => true end) (map cr_uuid ex_given).

(* all hypotheses of compile_doc_closed hold of this supply, this sheet (a message row and a router row with given
   `_nodeId`s, a third row) and its given identifiers, and the document checker accepts the compiled flow *)
Example compile_doc_closed_example :
  (forall a b, uuid_fresh a = uuid_fresh b -> a = b)
  /\ (forall k, k < compile_draws uuid_fresh ex_given -> is_uuid4 (uuid_fresh k) = true)
  /\ (forall k, ~ In (uuid_fresh k) ex_given_ids)
  /\ (forall cr, In cr ex_given -> cr_uuid cr <> [] -> In (cr_uuid cr) ex_given_ids)
  /\ length ex_given_ids = 2
  /\ exists f, compile uuid_fresh ex_name ex_given = Ok f /\ length (f_nodes f) = 3 /\ closedb ex_given_ids [f] = true.
Proof.
  split; [exact uuid_fresh_inj|]. split; [|split; [|split; [|split]]].
  - intros k Hk. apply uuid_fresh_uuid4. assert (E : compile_draws uuid_fresh ex_given <= 256) by (vm_compute; lia). lia.
  - intros k Hin. assert (E : forallb (fun u => negb (Nat.eqb (length u) 1) && negb (starts_with [48%N] u)) ex_given_ids = true)
      by (vm_compute; reflexivity).
    rewrite forallb_forall in E. specialize (E _ Hin). unfold uuid_fresh in E. destruct (Nat.ltb k 256); vm_compute in E; discriminate.
  - intros cr Hcr Hne. unfold ex_given_ids. apply filter_In. split; [apply in_map, Hcr|]. destruct (cr_uuid cr); [contradiction|reflexivity].
  - vm_compute. reflexivity.
  - let r := eval vm_compute in (compile uuid_fresh ex_name ex_given) in
    match r with Ok ?f => exists f; split; [vm_compute; reflexivity|split; vm_compute; reflexivity] end.
Qed.
