(* E7 — non-vacuity of the compiler theorems, and the decided form of compile_closed:
   the example sheets (Comp/CompileExamples.v, generated from the directed sheets of the harness) compile to
   Ok; without the node-uuid validation the statement is false (two router rows with one `_nodeId`). *)
From Coq Require Import List NArith Bool Arith Lia.
From RPFT Require Import Base.Sexp Base.PyStr Base.Result Gen.Tables Flow.Flow Flow.Closed Flow.NodeIdCheck
     Flow.NodeIdCheckFacts Flow.RowSem Comp.Compile Comp.CompileFacts Comp.CompileInv Comp.CompileStep
     Comp.CompileClosed Comp.CompileExamples.
Import ListNotations.

Definition ex_name : str := [102; 49]%N.     (* "f1" *)

(* what an example establishes: the sheet compiles, to so many nodes of which so many carry a router, and the
   proved checker accepts the flow *)
Definition compiles_to (rows : list crow) (nodes routers : nat) : Prop :=
  exists f, compile std_fresh ex_name rows = Ok f /\ length (f_nodes f) = nodes
            /\ length (filter (fun nd => match n_router nd with Some _ => true | None => false end) (f_nodes f)) = routers
            /\ flow_closedb f = true.

Ltac run_example :=
  match goal with
  | |- compiles_to ?rows _ _ =>
    let r := eval vm_compute in (compile std_fresh ex_name rows) in
    match r with
    | Ok ?f => exists f; split; [vm_compute; reflexivity|split; [vm_compute; reflexivity|split; vm_compute; reflexivity]]
    end
  end.

Example compile_ex_router : compiles_to ex_router 6 1.
Proof. run_example. Qed.
Example compile_ex_goto_cycle : compiles_to ex_goto_cycle 3 1.
Proof. run_example. Qed.
Example compile_ex_noop : compiles_to ex_noop 9 2.
Proof. run_example. Qed.
Example compile_ex_blocks : compiles_to ex_blocks 8 1.
Proof. run_example. Qed.
Example compile_ex_merged : compiles_to ex_merged 3 0.
Proof. run_example. Qed.
Example compile_ex_outcome : compiles_to ex_outcome 9 3.
Proof. run_example. Qed.
Example compile_ex_exits : compiles_to ex_exits 3 1.
Proof. run_example. Qed.

(* two router rows carrying one `_nodeId`: with the validation the sheet is rejected, naming the uuid; without
   it the sheet compiles to a flow with a repeated node uuid, which is not closed *)
Example compile_ex_dup_rejected :
  exists u, compile_with std_fresh (first_repeated []) ex_name ex_dup_uuid = Err (EDupNodeUuid u).
Proof. eexists. vm_compute. reflexivity. Qed.

Example compile_ex_dup_unvalidated :
  exists f, compile_with std_fresh (fun _ => None) ex_name ex_dup_uuid = Ok f /\ flow_closedb f = false.
Proof.
  let r := eval vm_compute in (compile_with std_fresh (fun _ => None) ex_name ex_dup_uuid) in
  match r with Ok ?f => exists f; split; vm_compute; reflexivity end.
Qed.

Lemma cfinish_with_ext v1 v2 name s : (forall us, v1 us = v2 us) -> cfinish_with std_fresh v1 name s = cfinish_with std_fresh v2 name s.
Proof.
  intros H. unfold cfinish_with. destruct (cs_heads s); [|reflexivity]. destruct (cs_stack s) as [|r [|? ?]]; try reflexivity.
  destruct (mapM _ r); [|reflexivity]. destruct (mapM _ (concat v)); [|reflexivity]. rewrite H. reflexivity.
Qed.

(* Decided on the code of this run (compile_checks_node_uuids is probed from it): with the validation every
   compiled flow is closed; without it (the defect duplicate-given-node-id) the statement is refuted *)
Theorem compile_closed_decided :
  if compile_checks_node_uuids
  then forall fresh, (forall a b, fresh a = fresh b -> a = b) ->
       forall name rows f, compile fresh name rows = Ok f -> flow_closedb f = true
  else exists rows f, compile std_fresh ex_name rows = Ok f /\ flow_closedb f = false.
Proof.
  destruct compile_checks_node_uuids eqn:E.
  - intros fresh Hinj name rows f. apply compile_closed; assumption.
  - destruct compile_ex_dup_unvalidated as (f & Hf & Hc). exists ex_dup_uuid, f. split; [|exact Hc].
    unfold compile, compile_with in *. destruct (crun std_fresh ex_dup_uuid) as [s|x]; [|discriminate].
    rewrite <- Hf. apply cfinish_with_ext. intros us. unfold compile_flow_validation. rewrite E. reflexivity.
Qed.
