(* E7 — a Gallina mirror of the flow compiler AS CODED (definitions only, total, executable):

     rpft/parsers/creation/flowparser.py   NodeGroup, NoOpNodeGroup, RowNodeGroup (add_exit,
                                           connect_loose_exits, has_loose_exits, entry_node),
                                           FlowParser._parse_row/_parse_goto_row/_parse_noop_row/
                                           _add_row_edge/_get_node_group_from_edge/most_recent_node_group,
                                           begin_block/end_block nesting of _parse_block, _get_row_node,
                                           node merging through node names, _compile_flow
     rpft/rapidpro/models/nodes.py         BaseNode/BasicNode/SwitchRouterNode/RandomRouterNode/
                                           EnterFlowNode/CallWebhookNode/TransferAirtimeNode constructors,
                                           update_default_exit, add_choice, get_exits, render
     rpft/rapidpro/models/routers.py       SwitchRouter, RandomRouter, RouterCategory, RouterCase
     rpft/rapidpro/models/common.py        Exit (HARD_EXIT is mapped to null at render)

   INPUT: the abstract rows of Flow/RowSem.v (the very rows the reference meaning `rowsem` reads) wrapped with
   what only the compiler looks at: which node constructor the row type selects (with its arguments) and the
   given `_nodeId`.  OUTPUT: Flow.flow (the AST closedb / lts_of_flow consume).

   Python objects become a functional store: nodes live in a list indexed by allocation number (object
   identity = index, mutation = list update); node groups live in a second list and refer to node indices
   and to other groups by index.  Every generate_new_uuid() is a draw `fresh n` from an explicit supply with a
   counter threaded through the state, IN THE ORDER the implementation draws.  Every LOGGER.critical (the CLI
   stops) and every uncaught exception is `Err _`; LOGGER.error / warn do not stop.

   How a row is READ follows the tree (Gen/Tables.v: behavioural probes of translator/tables_flowread.py,
   tables_c04.py, tables_c01.py; tables_c01.py checks the first two for every row type the model applies them to):
   padding_edges_dropped_at_read   - FlowParser._parse_next_row drops trivial edges other than the first for every
                                     row type (before the repair a05766f only rows that create a node omitted them);
   has_group_edges_by_name         - RowNodeGroup.add_exit compiles a has_group condition of a row that is not a
                                     split_by_group row with the arguments [None, value] (before f02a865: [value]);
   has_group_by_name_from_noop     - the same for NoOpNodeGroup.add_exit.
   SwitchRouter.record_global_uuids (container validation, after every flow is compiled) reads arguments[1] of every
   has_group case: a case with fewer arguments is an IndexError.

   Loops, templating, include_if, insert_as_block: not here (they are eliminated before: Comp/Blocks.v,
   Tmpl/RowLoop.v).  Actions are opaque canonical payloads (their construction is not modelled).
   Group/flow uuids written by update_global_uuids (has_group argument 0) are not modelled: the argument stays
   None as _parse_row leaves it. *)
From Coq Require Import List NArith Bool Arith.
From RPFT Require Import Base.Sexp Base.PyStr Base.Result Gen.Tables Flow.Lts Flow.Flow Flow.Closed
     Flow.NodeIdCheck Flow.RowSem.
Import ListNotations.

(* ---------------------------------------------------------------- input *)
(* which constructor _get_row_node selects, with the arguments that matter for the graph *)
Inductive nkind :=
| KBasic2                                   (* send_message, save_value, add_to_group, remove_from_group,
                                               save_flow_result: BasicNode(...) THEN update_default_exit(None) *)
| KBasic1                                   (* every other type (set_contact_*, add_contact_urn, unknown): BasicNode(...) *)
| KWait (timeout : N) (save_name : str)     (* wait_for_response; no_response blank = 0 *)
| KSplitValue (operand : str) (save_name : str)
| KSplitGroup (save_name : str)
| KRandom (save_name : str)
| KEnterFlow (flow_name : str)
| KWebhook (save_name : str)
| KAirtime (save_name : str).

Record crow := mkCRow {
  cr_row : row;            (* the RowSem row: type, row_id, node name (= _nodeId or node_name), edges *)
  cr_kind : nkind;         (* read for TNode rows only *)
  cr_uuid : str }.         (* the given `_nodeId` ("" = none) *)

(* FlowParser._parse_next_row: `row.edges = [edge for i, edge in enumerate(row.edges) if edge != Edge() or i == 0]`
   since the repair; the rows as parsed before it *)
Definition read_edges (es : list redge) : list redge :=
  if padding_edges_dropped_at_read then drop_padding es else es.
Definition cread_row (cr : crow) : crow :=
  mkCRow (mkRow (r_type (cr_row cr)) (r_id (cr_row cr)) (r_node_name (cr_row cr)) (read_edges (r_edges (cr_row cr))))
         (cr_kind cr) (cr_uuid cr).

(* ---------------------------------------------------------------- objects *)
Definition dst := option id.                (* destination_uuid: None, Some "HARD_EXIT", Some <node uuid> *)
Record cexit := mkCExit { x_uuid : id; x_dest : dst }.
Record ccat := mkCCat { cc_uuid : id; cc_name : str; cc_exit : cexit }.     (* RouterCategory owns its Exit *)
Record ccase := mkCCase { ck_uuid : id; ck_type : str; ck_args : list (option str); ck_cat : id }.
(* wait_timeout None / 0 / n>0 ; the No Response category exists exactly when n>0 (SwitchRouter.__init__) *)
Inductive cwait := CWNone | CWMsg | CWTimeout (seconds : N) (noresp : ccat).
Record cswitch := mkSwitch {
  sw_operand : str; sw_result : option str; sw_wait : cwait;
  sw_cases : list ccase; sw_cats : list ccat; sw_default : ccat;
  sw_auto : list id }.        (* SwitchRouter._generated_name_uuids: the categories whose name was invented (ghost before the repair
                                 of category-name-clash: nothing reads it then) *)
Record crandom := mkRandom { rr_result : option str; rr_cats : list ccat }.
(* the Python class of a node with a SwitchRouter: SwitchRouterNode / EnterFlowNode / CallWebhookNode or
   TransferAirtimeNode (the two are treated alike by RowNodeGroup.add_exit) *)
Inductive swclass := SPlain | SEnter | SOutcome.
Inductive cbody := BBasic (e : cexit) | BSwitch (cls : swclass) (r : cswitch) | BRandom (r : crandom).
Record cnode := mkCNode {
  cn_uuid : id;
  cn_given : bool;                           (* ghost: the uuid was given by the row (not drawn) *)
  cn_actions : list (id * sexp);
  cn_body : cbody }.

Inductive rowtype := RTSplitValue | RTSplitGroup | RTOther.    (* RowNodeGroup.row_type, as far as add_exit reads it *)
Inductive cgroup :=
| CGRow (first : nat) (more : list nat) (rt : rowtype)          (* RowNodeGroup.nodes: the row's node [+ the implicit router] *)
| CGNoOp (parents : list (nat * econd)) (router : option nat)   (* NoOpNodeGroup *)
| CGBlock (members : list nat).                                 (* NodeGroup *)

Inductive crash := CKeyError | CIndexError | CAttributeError | CValueError | CActionError.
Inductive cerr :=
| EBlockCond            (* "Cannot attach conditional edges to a block." *)
| EBlockNoLoose         (* "Block has no loose exit to connect to." *)
| ENoOpEntry            (* "NotImplementedError: go_to not implemented to link to no_op row." *)
| ENoOpNoVariable       (* "Condition must have a variable." *)
| EDefaultExit          (* ValueError of update_default_exit, reported as critical ("... does not support default exits.") *)
| EFromMissing          (* 'Edge from row_id "..." which does not exist.' *)
| EGotoCount            (* "If a go_to has multiple destinations, the number of destinations has to match ..." *)
| EMergeSource          (* 'To merge rows using node name ... edge must come from a node with name ...' *)
| EMergeEdges           (* '... there must be exactly one unconditional incoming edge.' *)
| EUnterminated         (* "Sheet has unterminated block." *)
| EWrongTerminator      (* 'Wrong block terminator "end_block" found for block of type root_block.' *)
| EUnexpectedEnd        (* "Unexpected end of flow. Did you forget end_for/end_block?" *)
| ECatNameTooLong       (* RapidProRouterError "Category name too long (>115)" *)
| ECatNameTaken         (* RapidProRouterError 'Category name "..." is taken by the default or No Response category' (repair of
                           category-name-clash) *)
| EDupNodeUuid (u : id) (* 'Node uuid "..." is used by more than one node of flow' *)
| ECrash (k : crash)    (* uncaught exception: traceback + status 1 *)
| EInternal             (* a dangling index of the store: never happens (no Python counterpart) *)
| EOutOfFuel.

Definition res := result cerr.

Record cstate := mkCS {
  cs_next : nat;                       (* number of uuids drawn so far *)
  cs_nodes : list cnode;
  cs_groups : list cgroup;
  cs_rowmap : list (str * nat);        (* row_id_to_nodegroup, latest first *)
  cs_names : list (str * nat);         (* node_name_to_node_map *)
  cs_stack : list (list nat);          (* node_group_stack, innermost first; members in order *)
  cs_heads : list str }.               (* row ids of the open begin_block rows (the Python call stack) *)

Definition cs0 : cstate := mkCS 0 [] [] [] [] [[]] [].

(* ---------------------------------------------------------------- literals *)
Definition s_Other : str := [79;116;104;101;114]%N.
Definition s_NoResponse : str := [78;111;32;82;101;115;112;111;110;115;101]%N.
Definition s_Expired : str := [69;120;112;105;114;101;100]%N.
Definition s_Failure : str := [70;97;105;108;117;114;101]%N.
Definition s_child_run_status : str := [64;99;104;105;108;100;46;114;117;110;46;115;116;97;116;117;115]%N.
Definition s_has_only_text : str := [104;97;115;95;111;110;108;121;95;116;101;120;116]%N.
Definition s_has_category : str := [104;97;115;95;99;97;116;101;103;111;114;121]%N.
Definition s_results_prefix : str := [64;114;101;115;117;108;116;115;46]%N.
Definition s_category_suffix : str := [46;99;97;116;101;103;111;114;121]%N.
Definition s_contact_groups : str := [64;99;111;110;116;97;99;116;46;103;114;111;117;112;115]%N.
Definition s_alt : str := [95;97;108;116]%N.
Definition s_None : str := [78;111;110;101]%N.
Definition s_Bucket : str := [66;117;99;107;101;116;32]%N.
Definition cat_name_limit : nat := 115.
Definition field_key_limit : nat := 36.

(* ---------------------------------------------------------------- Python str helpers (ASCII) *)
Definition is_upper_a (c : char) : bool := ((65 <=? c) && (c <=? 90))%N.
Definition is_lower_a (c : char) : bool := ((97 <=? c) && (c <=? 122))%N.
Definition upper_char (c : char) : char := if is_lower_a c then (c - 32)%N else c.
(* str.title(): a cased character is upper-cased when the previous character is not cased, lower-cased otherwise *)
Fixpoint title_aux (prev_cased : bool) (s : str) : str :=
  match s with
  | [] => []
  | c :: r => if is_upper_a c || is_lower_a c
              then (if prev_cased then lower_char c else upper_char c) :: title_aux true r
              else c :: title_aux false r
  end.
Definition title (s : str) : str := title_aux false s.

Fixpoint dec_aux (fuel : nat) (n : N) (acc : str) : str :=
  match fuel with
  | O => acc
  | S f => let d := N.modulo n 10 in
           let q := N.div n 10 in
           if N.eqb q 0 then (48 + d)%N :: acc else dec_aux f q ((48 + d)%N :: acc)
  end.
(* str(n): one division per digit, so n + 1 steps are always enough *)
Definition dec_nat (n : nat) : str := dec_aux (S n) (N.of_nat n) [].

Definition nonempty (s : str) : bool := match s with [] => false | _ => true end.

(* common.generate_field_key *)
Definition field_key (name : str) : res str :=
  let k := replace1 32%N [95%N] (lower (strip name)) in
  if Nat.ltb field_key_limit (length k) then Err (ECrash CActionError)
  else if negb (existsb (fun c => is_upper_a c || is_lower_a c) k) then Err (ECrash CActionError)
  else Ok k.

(* ---------------------------------------------------------------- categories and routers *)
Definition cat_set_dest (c : ccat) (d : dst) : ccat :=
  mkCCat (cc_uuid c) (cc_name c) (mkCExit (x_uuid (cc_exit c)) d).
Definition cat_set_name (c : ccat) (n : str) : ccat := mkCCat (cc_uuid c) n (cc_exit c).
Definition cat_dest (c : ccat) : dst := x_dest (cc_exit c).

Definition wait_cats (w : cwait) : list ccat := match w with CWTimeout _ c => [c] | _ => [] end.
(* SwitchRouter.get_categories *)
Definition sw_all_cats (r : cswitch) : list ccat := sw_cats r ++ sw_default r :: wait_cats (sw_wait r).

(* update the FIRST element that satisfies p (none: unchanged) *)
Fixpoint upd_first {X} (p : X -> bool) (f : X -> X) (l : list X) : list X :=
  match l with
  | [] => []
  | c :: r => if p c then f c :: r else c :: upd_first p f r
  end.

(* the same on get_categories(): categories, then the default category, then the No Response category *)
Definition sw_upd_cat (p : ccat -> bool) (f : ccat -> ccat) (r : cswitch) : cswitch :=
  if existsb p (sw_cats r)
  then mkSwitch (sw_operand r) (sw_result r) (sw_wait r) (sw_cases r) (upd_first p f (sw_cats r)) (sw_default r) (sw_auto r)
  else if p (sw_default r)
  then mkSwitch (sw_operand r) (sw_result r) (sw_wait r) (sw_cases r) (sw_cats r) (f (sw_default r)) (sw_auto r)
  else match sw_wait r with
       | CWTimeout t c =>
         if p c then mkSwitch (sw_operand r) (sw_result r) (CWTimeout t (f c)) (sw_cases r) (sw_cats r) (sw_default r) (sw_auto r)
         else r
       | _ => r
       end.

Definition name_is (n : str) (c : ccat) : bool := str_eqb (cc_name c) n.
Definition uuid_is (u : id) (c : ccat) : bool := str_eqb (cc_uuid c) u.

Definition sw_set_operand (r : cswitch) (v : str) : cswitch :=
  match v with
  | [] => r
  | _ => mkSwitch v (sw_result r) (sw_wait r) (sw_cases r) (sw_cats r) (sw_default r) (sw_auto r)
  end.

(* update_default_category(destination_uuid, category_name=None) *)
Definition sw_update_default (r : cswitch) (d : dst) (name : str) : cswitch :=
  let c := cat_set_dest (sw_default r) d in
  let c := match name with [] => c | _ => cat_set_name c name end in
  mkSwitch (sw_operand r) (sw_result r) (sw_wait r) (sw_cases r) (sw_cats r) c (sw_auto r).

Definition sw_rename_default (r : cswitch) (name : str) : cswitch :=
  mkSwitch (sw_operand r) (sw_result r) (sw_wait r) (sw_cases r) (sw_cats r) (cat_set_name (sw_default r) name) (sw_auto r).

(* update_no_response_category (callers check has_positive_wait) *)
Definition sw_update_noresp (r : cswitch) (d : dst) : cswitch :=
  match sw_wait r with
  | CWTimeout t c => mkSwitch (sw_operand r) (sw_result r) (CWTimeout t (cat_set_dest c d)) (sw_cases r) (sw_cats r) (sw_default r) (sw_auto r)
  | _ => r
  end.

Definition sw_add_cat (r : cswitch) (c : ccat) : cswitch :=
  mkSwitch (sw_operand r) (sw_result r) (sw_wait r) (sw_cases r) (sw_cats r ++ [c]) (sw_default r) (sw_auto r).
Definition sw_add_case (r : cswitch) (k : ccase) : cswitch :=
  mkSwitch (sw_operand r) (sw_result r) (sw_wait r) (sw_cases r ++ [k]) (sw_cats r) (sw_default r) (sw_auto r).

(* generate_category_name: "_".join(str(a).title() ...), then "_alt" appended while the name is taken *)
Definition arg_text (a : option str) : str := match a with Some s => s | None => s_None end.
Fixpoint alt_loop (fuel : nat) (names : list str) (nm : str) : res str :=
  match fuel with
  | O => Err EOutOfFuel
  | S f => if memb nm names then alt_loop f names (nm ++ s_alt) else Ok nm
  end.
Definition gen_cat_name (names : list str) (args : list (option str)) : res str :=
  alt_loop (S (length names)) names (join_char 95%N (map (fun a => title (arg_text a)) args)).

Section Supply.
Variable fresh : nat -> id.

(* Exit(destination_uuid): one draw *)
Definition new_exit (n : nat) (d : dst) : cexit * nat := (mkCExit (fresh n) d, S n).

(* RouterCategory(name, destination_uuid): the category uuid, then the uuid of its exit *)
Definition new_cat (n : nat) (name : str) (d : dst) : res (ccat * nat) :=
  if Nat.ltb cat_name_limit (length name) then Err ECatNameTooLong
  else Ok (mkCCat (fresh n) name (mkCExit (fresh (S n)) d), S (S n)).

(* RouterCase(type, arguments, category_uuid): validate() raises ValueError for an unknown test *)
Definition new_case (n : nat) (ty : str) (args : list (option str)) (cat : id) : res (ccase * nat) :=
  if negb (memb ty known_tests) then Err (ECrash CValueError)
  else Ok (mkCCase (fresh n) ty (if memb ty no_args_tests then [] else args) cat, S n).

(* SwitchRouter(operand, result_name, wait_timeout) *)
Definition new_switch (n : nat) (operand : str) (result : option str) (timeout : option N) : res (cswitch * nat) :=
  match new_cat n s_Other None with
  | Err e => Err e
  | Ok (other, n1) =>
    match timeout with
    | None => Ok (mkSwitch operand result CWNone [] [] other [], n1)
    | Some 0%N => Ok (mkSwitch operand result CWMsg [] [] other [], n1)
    | Some t => match new_cat n1 s_NoResponse None with
                | Err e => Err e
                | Ok (nr, n2) => Ok (mkSwitch operand result (CWTimeout t nr) [] [] other [], n2)
                end
    end
  end.

(* SwitchRouter._claim_category_name (the repair of the finding category-name-clash; Gen/Tables.v: explicit_names_claimed):
   a name given by the sheet refers to the category the sheet gave that name to - it is refused when it is the name of
   the default / No Response category, and a category that merely was given the same INVENTED name makes way ("_alt") *)
Definition sw_mark_auto (r : cswitch) (u : id) : cswitch :=
  mkSwitch (sw_operand r) (sw_result r) (sw_wait r) (sw_cases r) (sw_cats r) (sw_default r) (u :: sw_auto r).

Definition sw_claim (r : cswitch) (nm : str) : res cswitch :=
  match find (name_is nm) (sw_all_cats r) with
  | None => Ok r
  | Some c =>
    if str_eqb (cc_uuid c) (cc_uuid (sw_default r)) || existsb (uuid_is (cc_uuid c)) (wait_cats (sw_wait r)) then Err ECatNameTaken
    else if memb (cc_uuid c) (sw_auto r)
    then match alt_loop (S (length (sw_all_cats r))) (map cc_name (sw_all_cats r)) (nm ++ s_alt) with
         | Err e => Err e
         | Ok nm' => Ok (sw_upd_cat (uuid_is (cc_uuid c)) (fun x => cat_set_name x nm') r)
         end
    else Ok r
  end.

(* SwitchRouter.add_choice *)
Definition sw_add_choice (n : nat) (r : cswitch) (variable ty : str) (args : list (option str))
           (name : str) (d : dst) (is_default : bool) : res (cswitch * nat) :=
  let r := sw_set_operand r variable in
  match find (fun k => str_eqb (ck_type k) ty && ostr_list_eqb (ck_args k) args) (sw_cases r) with
  | Some k =>
    (* the case exists: only the destination of its category is updated (get_category_by_uuid: KeyError) *)
    if existsb (uuid_is (ck_cat k)) (sw_all_cats r)
    then Ok (sw_upd_cat (uuid_is (ck_cat k)) (fun c => cat_set_dest c d) r, n)
    else Err (ECrash CKeyError)
  | None =>
    let generated := match name with [] => true | _ => false end in
    let mark (r' : cswitch) (u : id) := if generated then sw_mark_auto r' u else r' in
    match (match name with [] => gen_cat_name (map cc_name (sw_all_cats r)) args | _ => Ok name end) with
    | Err e => Err e
    | Ok nm =>
      if is_default then
        let r1 := sw_update_default r d nm in
        match new_case n ty args (cc_uuid (sw_default r1)) with
        | Err e => Err e
        | Ok (k, n1) => Ok (sw_add_case r1 k, n1)
        end
      else
        match (if explicit_names_claimed && negb generated then sw_claim r nm else Ok r) with
        | Err e => Err e
        | Ok r =>
          (* get_or_create_category: the first category of get_categories() with that name is re-targeted *)
          match find (name_is nm) (sw_all_cats r) with
          | Some c =>
            let r1 := sw_upd_cat (name_is nm) (fun c => cat_set_dest c d) r in
            match new_case n ty args (cc_uuid c) with
            | Err e => Err e
            | Ok (k, n1) => Ok (mark (sw_add_case r1 k) (cc_uuid c), n1)
            end
          | None =>
            match new_cat n nm d with
            | Err e => Err e
            | Ok (c, n1) =>
              match new_case n1 ty args (cc_uuid c) with
              | Err e => Err e
              | Ok (k, n2) => Ok (mark (sw_add_case (sw_add_cat r c) k) (cc_uuid c), n2)
              end
            end
          end
        end
    end
  end.

(* RandomRouter.add_choice *)
Definition rr_add_choice (n : nat) (r : crandom) (name : str) (d : dst) : res (crandom * nat) :=
  let nm := match name with [] => s_Bucket ++ dec_nat (length (rr_cats r) + 2) | _ => name end in
  if existsb (name_is nm) (rr_cats r)
  then Ok (mkRandom (rr_result r) (upd_first (name_is nm) (fun c => cat_set_dest c d) (rr_cats r)), n)
  else match new_cat n nm d with
       | Err e => Err e
       | Ok (c, n1) => Ok (mkRandom (rr_result r) (rr_cats r ++ [c]), n1)
       end.

(* ---------------------------------------------------------------- node constructors *)
(* BaseNode.__init__: self.uuid = uuid or generate_new_uuid() *)
Definition node_uuid (given : str) (n : nat) : id * bool * nat :=
  match given with [] => (fresh n, false, S n) | _ => (given, true, n) end.

(* SwitchRouterNode(operand, result_name, wait_timeout, uuid): BaseNode.__init__ draws the node uuid (unless
   given) and the uuid of a default Exit that a router node never renders; then the SwitchRouter *)
Definition new_switch_parts (n : nat) (given operand : str) (result : option str) (timeout : option N)
  : res (id * bool * cswitch * nat) :=
  let '(u, g, n1) := node_uuid given n in
  let n2 := S n1 in
  match operand with
  | [] => Err (ECrash CValueError)
  | _ => match new_switch n2 operand result timeout with
         | Err e => Err e
         | Ok (r, n3) => Ok (u, g, r, n3)
         end
  end.
Definition new_switch_node (n : nat) (given operand : str) (result : option str) (timeout : option N)
  : res (cnode * nat) :=
  match new_switch_parts n given operand result timeout with
  | Err e => Err e
  | Ok (u, g, r, n3) => Ok (mkCNode u g [] (BSwitch SPlain r), n3)
  end.

(* EnterFlowNode / CallWebhookNode / TransferAirtimeNode: BaseNode.__init__, the action, the router with its
   constructor-made categories and cases *)
Definition new_enter_node (n : nat) (given flow_name : str) (payload : sexp) : res (cnode * nat) :=
  let '(u, g, n1) := node_uuid given n in
  let n2 := S n1 in
  match flow_name with
  | [] => Err (ECrash CValueError)
  | _ =>
    let act := (fresh n2, payload) in
    match new_switch (S n2) s_child_run_status None None with
    | Err e => Err e
    | Ok (r0, n3) =>
      let r1 := sw_rename_default r0 s_Expired in
      match sw_add_choice n3 r1 s_child_run_status s_has_only_text [Some s_completed] s_Complete None false with
      | Err e => Err e
      | Ok (r2, n4) =>
        match sw_add_choice n4 r2 s_child_run_status s_has_only_text [Some s_expired] s_Expired None true with
        | Err e => Err e
        | Ok (r3, n5) => Ok (mkCNode u g [act] (BSwitch SEnter r3), n5)
        end
      end
    end
  end.

Definition new_outcome_node (n : nat) (given save_name : str) (payload : sexp) (webhook : bool) : res (cnode * nat) :=
  let '(u, g, n1) := node_uuid given n in
  let n2 := S n1 in
  match save_name with
  | [] => Err (ECrash CValueError)
  | _ =>
    let act := (fresh n2, payload) in
    match field_key save_name with
    | Err e => Err e
    | Ok key =>
      let operand := if webhook then s_results_prefix ++ key ++ s_category_suffix else s_results_prefix ++ key in
      match new_switch (S n2) operand None None with
      | Err e => Err e
      | Ok (r0, n3) =>
        let r1 := sw_rename_default r0 s_Failure in
        match sw_add_choice n3 r1 operand (if webhook then s_has_only_text else s_has_category)
                            [Some s_Success] s_Success None false with
        | Err e => Err e
        | Ok (r2, n4) => Ok (mkCNode u g [act] (BSwitch SOutcome (sw_update_default r2 None s_Failure)), n4)
        end
      end
    end
  end.

(* FlowParser._get_row_node (+ add_action of the row's action, whose uuid was drawn before) *)
Definition new_row_node (n : nat) (k : nkind) (given : str) (acts : list (id * sexp)) (payload : sexp)
  : res (cnode * nat) :=
  match k with
  | KBasic2 =>
    let '(u, g, n1) := node_uuid given n in
    (* BaseNode.__init__ draws an exit uuid; update_default_exit(None) replaces the exit: a second draw *)
    Ok (mkCNode u g acts (BBasic (mkCExit (fresh (S n1)) None)), S (S n1))
  | KBasic1 =>
    let '(u, g, n1) := node_uuid given n in
    Ok (mkCNode u g acts (BBasic (mkCExit (fresh n1) None)), S n1)
  | KWait t sv => new_switch_node n given s_input_text (Some sv) (Some t)
  | KSplitValue op sv => new_switch_node n given op (Some sv) None
  | KSplitGroup sv => new_switch_node n given s_contact_groups (Some sv) None
  | KRandom sv =>
    let '(u, g, n1) := node_uuid given n in
    Ok (mkCNode u g [] (BRandom (mkRandom (Some sv) [])), S n1)
  | KEnterFlow name => new_enter_node n given name payload
  | KWebhook sv => new_outcome_node n given sv payload true
  | KAirtime sv => new_outcome_node n given sv payload false
  end.

Definition rowtype_of (k : nkind) : rowtype :=
  match k with KSplitValue _ _ => RTSplitValue | KSplitGroup _ => RTSplitGroup | _ => RTOther end.

(* ---------------------------------------------------------------- store updates *)
Definition set_node (s : cstate) (k : nat) (nd : cnode) (next : nat) : cstate :=
  mkCS next (update (cs_nodes s) k nd) (cs_groups s) (cs_rowmap s) (cs_names s) (cs_stack s) (cs_heads s).
Definition set_cgroup (s : cstate) (g : nat) (x : cgroup) : cstate :=
  mkCS (cs_next s) (cs_nodes s) (update (cs_groups s) g x) (cs_rowmap s) (cs_names s) (cs_stack s) (cs_heads s).
Definition push_node (s : cstate) (nd : cnode) (next : nat) : cstate :=
  mkCS next (cs_nodes s ++ [nd]) (cs_groups s) (cs_rowmap s) (cs_names s) (cs_stack s) (cs_heads s).

(* append_node_group: the new group becomes the last member of the innermost open block *)
Definition add_cgroup (s : cstate) (x : cgroup) (rid : str) : cstate :=
  let k := length (cs_groups s) in
  let stack' := match cs_stack s with [] => [[k]] | top :: r => (top ++ [k]) :: r end in
  let rowmap' := match rid with [] => cs_rowmap s | _ => (rid, k) :: cs_rowmap s end in
  mkCS (cs_next s) (cs_nodes s) (cs_groups s ++ [x]) rowmap' (cs_names s) stack' (cs_heads s).

Definition with_body (nd : cnode) (b : cbody) : cnode := mkCNode (cn_uuid nd) (cn_given nd) (cn_actions nd) b.

(* ---------------------------------------------------------------- exits of a node *)
(* get_exits(): the default exit of a basic node; the exits of get_categories() of a router node *)
Definition body_cats (b : cbody) : list ccat :=
  match b with BBasic _ => [] | BSwitch _ r => sw_all_cats r | BRandom r => rr_cats r end.
Definition node_exits (nd : cnode) : list cexit :=
  match cn_body nd with BBasic e => [e] | b => map cc_exit (body_cats b) end.

Definition is_loose (d : dst) : bool := match d with None => true | Some _ => false end.
Definition node_has_loose (nd : cnode) : bool := existsb (fun e => is_loose (x_dest e)) (node_exits nd).

Definition fill_exit (d : dst) (e : cexit) : cexit := if is_loose (x_dest e) then mkCExit (x_uuid e) d else e.
Definition fill_cat (d : dst) (c : ccat) : ccat := mkCCat (cc_uuid c) (cc_name c) (fill_exit d (cc_exit c)).
Definition node_fill_loose (nd : cnode) (d : dst) : cnode :=
  with_body nd
    match cn_body nd with
    | BBasic e => BBasic (fill_exit d e)
    | BSwitch cls r =>
      BSwitch cls (mkSwitch (sw_operand r) (sw_result r)
                            (match sw_wait r with CWTimeout t c => CWTimeout t (fill_cat d c) | w => w end)
                            (sw_cases r) (map (fill_cat d) (sw_cats r)) (fill_cat d (sw_default r)) (sw_auto r))
    | BRandom r => BRandom (mkRandom (rr_result r) (map (fill_cat d) (rr_cats r)))
    end.

Definition row_exit_node (k1 : nat) (ks : list nat) : nat := last ks k1.       (* self.nodes[-1] *)

Fixpoint chas_loose (fuel : nat) (s : cstate) (g : nat) : bool :=
  match fuel with
  | O => false
  | S f =>
    match nth_error (cs_groups s) g with
    | Some (CGRow k1 k2 _) =>
      match nth_error (cs_nodes s) (row_exit_node k1 k2) with Some nd => node_has_loose nd | None => false end
    | Some (CGNoOp ps (Some k)) =>
      match nth_error (cs_nodes s) k with Some nd => node_has_loose nd | None => false end
    | Some (CGNoOp ps None) => existsb (fun p => chas_loose f s (fst p)) ps
    | Some (CGBlock ms) => existsb (chas_loose f s) ms
    | None => false
    end
  end.

Definition fill_node_at (s : cstate) (k : nat) (d : dst) : res cstate :=
  match nth_error (cs_nodes s) k with
  | Some nd => Ok (set_node s k (node_fill_loose nd d) (cs_next s))
  | None => Err EInternal
  end.

Fixpoint cconnect_loose (fuel : nat) (s : cstate) (g : nat) (d : dst) : res cstate :=
  match fuel with
  | O => Err EOutOfFuel
  | S f =>
    match nth_error (cs_groups s) g with
    | Some (CGRow k1 k2 _) => fill_node_at s (row_exit_node k1 k2) d
    | Some (CGNoOp _ (Some k)) => fill_node_at s k d
    | Some (CGNoOp ps None) => foldM (fun s' p => cconnect_loose f s' (fst p) d) ps s
    | Some (CGBlock ms) => foldM (fun s' m => cconnect_loose f s' m d) ms s
    | None => Err EInternal
    end
  end.

(* ---------------------------------------------------------------- add_exit *)
(* the edge a SwitchRouter receives: (variable, test type, arguments) *)
Definition or_default (s dflt : str) : str := match s with [] => dflt | _ => s end.

(* comparison_arguments of an edge leaving a row that is not a split_by_group row / leaving a no_op decision *)
Definition by_name_args (flag : bool) (c : econd) : list (option str) :=
  if flag && str_eqb (c_type c) has_group_s then [None; Some (c_value c)] else [Some (c_value c)].
Definition row_args (c : econd) : list (option str) := by_name_args has_group_edges_by_name c.
Definition noop_args (c : econd) : list (option str) := by_name_args has_group_by_name_from_noop c.

(* BaseNode/RouterNode.update_default_exit on the node nd *)
Definition node_update_default (n : nat) (nd : cnode) (d : dst) : res (cnode * nat) :=
  match cn_body nd with
  | BBasic _ => let (e, n1) := new_exit n d in Ok (with_body nd (BBasic e), n1)
  | BSwitch SEnter _ => Err EDefaultExit
  | BSwitch cls r => Ok (with_body nd (BSwitch cls (sw_update_default r d [])), n)
  | BRandom _ => Err EDefaultExit
  end.

(* RowNodeGroup.add_exit, the group g = CGRow k1 k2 rt *)
Definition row_add_exit (s : cstate) (g k1 : nat) (k2 : list nat) (rt : rowtype) (d : dst) (c : econd)
  : res cstate :=
  let k := row_exit_node k1 k2 in
  match nth_error (cs_nodes s) k with
  | None => Err EInternal
  | Some nd =>
    let lv := lower (c_value c) in
    let n := cs_next s in
    let is_random := match cn_body nd with BRandom _ => true | _ => false end in
    if cond_blank c && negb is_random then
      match node_update_default n nd d with
      | Err e => Err e
      | Ok (nd', n1) => Ok (set_node s k nd' n1)
      end
    else
    match cn_body nd with
    | BSwitch SEnter r =>
      if str_eqb lv s_complete || str_eqb lv s_completed then
        if existsb (name_is s_Complete) (sw_all_cats r)
        then Ok (set_node s k (with_body nd (BSwitch SEnter (sw_upd_cat (name_is s_Complete) (fun x => cat_set_dest x d) r))) n)
        else Err (ECrash CAttributeError)
      else if str_eqb lv s_expired then Ok (set_node s k (with_body nd (BSwitch SEnter (sw_update_default r d []))) n)
      else Ok s                                                      (* LOGGER.error: not fatal *)
    | BSwitch SOutcome r =>
      if str_eqb lv s_success then
        if existsb (name_is s_Success) (sw_all_cats r)
        then Ok (set_node s k (with_body nd (BSwitch SOutcome (sw_upd_cat (name_is s_Success) (fun x => cat_set_dest x d) r))) n)
        else Err (ECrash CAttributeError)
      else if str_eqb lv s_failure then Ok (set_node s k (with_body nd (BSwitch SOutcome (sw_update_default r d []))) n)
      else Ok s
    | BSwitch SPlain r =>
      if str_eqb lv s_no_response then
        match sw_wait r with
        | CWTimeout _ _ => Ok (set_node s k (with_body nd (BSwitch SPlain (sw_update_noresp r d))) n)
        | _ => Ok s                                                  (* LOGGER.warn *)
        end
      else
        let variable := match rt with
                        | RTOther => or_default (c_variable c) s_input_text
                        | _ => sw_operand r
                        end in
        let ty := match rt with RTSplitGroup => has_group_s | _ => or_default (c_type c) s_has_any_word end in
        let args := match rt with RTSplitGroup => [None; Some (c_value c)] | _ => row_args c end in
        match sw_add_choice n r variable ty args (c_cname c) d false with
        | Err e => Err e
        | Ok (r', n1) => Ok (set_node s k (with_body nd (BSwitch SPlain r')) n1)
        end
    | BRandom r =>
      match rr_add_choice n r (or_default (c_cname c) (c_value c)) d with
      | Err e => Err e
      | Ok (r', n1) => Ok (set_node s k (with_body nd (BRandom r')) n1)
      end
    | BBasic e =>
      (* a basic node with a non-trivial condition: a router node is created after it *)
      match rt with
      | RTOther =>
        let variable := or_default (c_variable c) s_input_text in
        let timeout := match c_variable c with [] => Some 0%N | _ => None end in
        match new_switch_parts n [] variable None timeout with
        | Err e' => Err e'
        | Ok (u, gv, r0, n1) =>
          let r1 := sw_update_default r0 (x_dest e) [] in
          let (e', n2) := new_exit n1 (Some u) in
          match sw_add_choice n2 r1 variable (or_default (c_type c) s_has_any_word) (row_args c) (c_cname c) d false with
          | Err e'' => Err e''
          | Ok (r2, n3) =>
            let k' := length (cs_nodes s) in
            let s1 := set_node s k (with_body nd (BBasic e')) n3 in
            let s2 := push_node s1 (mkCNode u gv [] (BSwitch SPlain r2)) n3 in
            Ok (set_cgroup s2 g (CGRow k1 (k2 ++ [k']) rt))
          end
        end
      | _ => Err (ECrash CAttributeError)          (* exit_node.router.operand on a node without router *)
      end
    end
  end.

(* the router node k of a no_op receives the edge *)
Definition noop_router_edge (s : cstate) (k : nat) (d : dst) (c : econd) : res cstate :=
  match nth_error (cs_nodes s) k with
  | Some nd =>
    match cn_body nd with
    | BSwitch cls r =>
      if negb (nonempty (c_value c)) && negb (memb (c_type c) no_args_tests)
      then Ok (set_node s k (with_body nd (BSwitch cls (sw_update_default r d []))) (cs_next s))
      else match sw_add_choice (cs_next s) r (c_variable c) (or_default (c_type c) s_has_any_word)
                               (noop_args c) (c_cname c) d false with
           | Err e => Err e
           | Ok (r', n1) => Ok (set_node s k (with_body nd (BSwitch cls r')) n1)
           end
    | _ => Err EInternal
    end
  | None => Err EInternal
  end.

Fixpoint cadd_exit (fuel : nat) (s : cstate) (g : nat) (d : dst) (c : econd) : res cstate :=
  match fuel with
  | O => Err EOutOfFuel
  | S f =>
    match nth_error (cs_groups s) g with
    | None => Err EInternal
    | Some (CGRow k1 k2 rt) => row_add_exit s g k1 k2 rt d c
    | Some (CGBlock ms) =>
      if negb (cond_blank c) then Err EBlockCond
      else if negb (chas_loose f s g) then Err EBlockNoLoose
      else foldM (fun s' m => if chas_loose f s' m then cconnect_loose f s' m d else Ok s') ms s
    | Some (CGNoOp ps None) =>
      if cond_blank c then foldM (fun s' p => cadd_exit f s' (fst p) d (snd p)) ps s
      else
        match c_variable c with
        | [] => Err ENoOpNoVariable
        | v =>
          match new_switch_node (cs_next s) [] v None None with
          | Err e => Err e
          | Ok (nn, n1) =>
            let k := length (cs_nodes s) in
            let s1 := set_cgroup (push_node s nn n1) g (CGNoOp ps (Some k)) in
            match foldM (fun s' p => cadd_exit f s' (fst p) (Some (cn_uuid nn)) (snd p)) ps s1 with
            | Err e => Err e
            | Ok s2 => noop_router_edge s2 k d c
            end
          end
        end
    | Some (CGNoOp ps (Some k)) => noop_router_edge s k d c
    end
  end.

(* ---------------------------------------------------------------- rows *)
Definition cfuel (s : cstate) : nat := S (S (length (cs_groups s))).

(* _get_node_group_from_edge *)
Definition csource (s : cstate) (e : redge) : res (option nat) :=
  match e_from e with
  | FStart => Ok None
  | FBlank => Ok (most_recent (cs_stack s))
  | FRow rid => match alookup (cs_rowmap s) rid with Some g => Ok (Some g) | None => Err EFromMissing end
  end.

(* _add_row_edge *)
Definition cadd_row_edge (s : cstate) (e : redge) (d : dst) : res cstate :=
  match csource s e with
  | Err x => Err x
  | Ok None => Ok s
  | Ok (Some g) => cadd_exit (cfuel s) s g d (e_cond e)
  end.

Fixpoint centry (fuel : nat) (s : cstate) (g : nat) : res nat :=
  match fuel with
  | O => Err EOutOfFuel
  | S f =>
    match nth_error (cs_groups s) g with
    | Some (CGRow k1 _ _) => Ok k1
    | Some (CGNoOp _ _) => Err ENoOpEntry
    | Some (CGBlock []) => Err (ECrash CIndexError)
    | Some (CGBlock (m :: _)) => centry f s m
    | None => Err EInternal
    end
  end.

(* _parse_noop_row *)
Definition cparse_noop (s : cstate) (edges : list redge) (rid : str) : res cstate :=
  match foldM (fun ps e => match csource s e with
                           | Err x => Err x
                           | Ok None => Ok ps
                           | Ok (Some g) => Ok (ps ++ [(g, e_cond e)])
                           end) edges [] with
  | Err x => Err x
  | Ok ps => Ok (add_cgroup s (CGNoOp ps None) rid)
  end.

Definition set_names (s : cstate) (name : str) (k : nat) : cstate :=
  mkCS (cs_next s) (cs_nodes s) (cs_groups s) (cs_rowmap s) ((name, k) :: cs_names s) (cs_stack s) (cs_heads s).
Definition set_rowmap (s : cstate) (rid : str) (g : nat) : cstate :=
  mkCS (cs_next s) (cs_nodes s) (cs_groups s) ((rid, g) :: cs_rowmap s) (cs_names s) (cs_stack s) (cs_heads s).
Definition set_stack_heads (s : cstate) (st : list (list nat)) (hs : list str) : cstate :=
  mkCS (cs_next s) (cs_nodes s) (cs_groups s) (cs_rowmap s) (cs_names s) st hs.
Definition set_next (s : cstate) (n : nat) : cstate :=
  mkCS n (cs_nodes s) (cs_groups s) (cs_rowmap s) (cs_names s) (cs_stack s) (cs_heads s).

Definition sentinel_dst : dst := Some hard_exit_sentinel.

Definition is_basic_kind (k : nkind) : bool := match k with KBasic1 | KBasic2 => true | _ => false end.

(* one row AS READ (its edges are what _parse_next_row hands to _parse_row / _parse_block) *)
Definition cstep_read (s : cstate) (cr : crow) : res cstate :=
  let r := cr_row cr in
  match r_type r with
  | THard => foldM (fun s' e => cadd_row_edge s' e sentinel_dst) (r_edges r) s
  | TLoose => foldM (fun s' e => cadd_row_edge s' e None) (r_edges r) s
  | TGoto tgts =>
    let n := length (r_edges r) in
    let tgts' := match tgts with [t] => repeat t n | _ => tgts end in
    if negb (Nat.eqb (length tgts') n) then Err EGotoCount
    else foldM (fun s' et =>
                  match alookup (cs_rowmap s') (snd et) with
                  | None => Err (ECrash CKeyError)
                  | Some g =>
                    match centry (cfuel s') s' g with
                    | Err x => Err x
                    | Ok k => match nth_error (cs_nodes s') k with
                              | Some nd => cadd_row_edge s' (fst et) (Some (cn_uuid nd))
                              | None => Err EInternal
                              end
                    end
                  end) (combine (r_edges r) tgts') s
  | TNoOp => cparse_noop s (r_edges r) (r_id r)
  | TBeginBlock =>
    let is_start := match r_edges r with [e] => match e_from e with FStart => true | _ => false end | _ => false end in
    let s0 := set_stack_heads s ([] :: cs_stack s) (r_id r :: cs_heads s) in
    if is_start then Ok s0 else cparse_noop s0 (r_edges r) []
  | TEndBlock =>
    match cs_heads s, cs_stack s with
    | h :: heads', members :: outer => Ok (add_cgroup (set_stack_heads s outer heads') (CGBlock members) h)
    | _, _ => Err EWrongTerminator
    end
  | TNode _ payloads _ =>
    (* _get_row_action: the action (and its uuid) exists before the node *)
    let row_action := if is_basic_kind (cr_kind cr) then match payloads with p :: _ => Some p | [] => None end else None in
    let n0 := cs_next s in
    let '(acts, n1) := match row_action with Some p => ([(fresh n0, p)], S n0) | None => ([], n0) end in
    let node_name := or_default (cr_uuid cr) (r_node_name r) in
    let existing := match node_name with [] => None | _ => alookup (cs_names s) node_name end in
    match existing, row_action with
    | Some k, Some _ =>
      (* merge the action into the node of that name *)
      match r_edges r with
      | [e] =>
        if negb (cond_blank (e_cond e)) then Err EMergeEdges
        else
          let pred := match e_from e with
                      | FBlank => most_recent (cs_stack s)
                      | FStart => None                          (* row_id_to_nodegroup.get("start") *)
                      | FRow rid => alookup (cs_rowmap s) rid
                      end in
          match pred with
          | None => Err (ECrash CAttributeError)
          | Some g =>
            match centry (cfuel s) s g with
            | Err x => Err x
            | Ok k' =>
              if negb (Nat.eqb k k') then Err EMergeSource
              else
                match nth_error (cs_nodes s) k with
                | None => Err EInternal
                | Some nd =>
                  let s1 := set_node s k (mkCNode (cn_uuid nd) (cn_given nd) (cn_actions nd ++ acts) (cn_body nd)) n1 in
                  match r_id r with
                  | [] => Ok s1
                  | rid => match e_from e with
                           | FRow frm => match alookup (cs_rowmap s) frm with
                                         | Some g' => Ok (set_rowmap s1 rid g')
                                         | None => Err (ECrash CKeyError)
                                         end
                           | _ => Err (ECrash CKeyError)       (* row_id_to_nodegroup[""] *)
                           end
                  end
                end
            end
          end
      | _ => Err EMergeEdges
      end
    | _, _ =>
      let payload := match payloads with p :: _ => p | [] => L [] end in
      match new_row_node n1 (cr_kind cr) (cr_uuid cr) acts payload with
      | Err x => Err x
      | Ok (nd, n2) =>
        let k := length (cs_nodes s) in
        let s1 := push_node s nd n2 in
        (* before the repair: `if edge != Edge() or i == 0` here; since then on every row when it is read
           (drop_padding is idempotent) *)
        let es := drop_padding (r_edges r) in
        match foldM (fun s' e => cadd_row_edge s' e (Some (cn_uuid nd))) es s1 with
        | Err x => Err x
        | Ok s2 => Ok (set_names (add_cgroup s2 (CGRow k [] (rowtype_of (cr_kind cr))) (r_id r)) node_name k)
        end
      end
    end
  end.

Definition cstep (s : cstate) (cr : crow) : res cstate := cstep_read s (cread_row cr).

(* ---------------------------------------------------------------- _compile_flow and render *)
Definition opt_list {X} (o : option X) : list X := match o with Some x => [x] | None => [] end.

(* add_nodes_to_flow *)
Fixpoint cgnodes (fuel : nat) (gs : list cgroup) (g : nat) : res (list nat) :=
  match fuel with
  | O => Err EOutOfFuel
  | S f =>
    match nth_error gs g with
    | Some (CGRow a b _) => Ok (a :: b)
    | Some (CGNoOp _ r) => Ok (opt_list r)
    | Some (CGBlock ms) => rmap (@concat nat) (mapM (cgnodes f gs) ms)
    | None => Err EInternal
    end
  end.

(* Exit.render: the sentinel becomes null *)
Definition render_dest (d : dst) : option id :=
  match d with
  | Some u => if str_eqb u hard_exit_sentinel then None else Some u
  | None => None
  end.
Definition render_exit (e : cexit) : exit_ := mkExit (x_uuid e) (render_dest (x_dest e)).
Definition render_cat (c : ccat) : category := mkCat (cc_uuid c) (cc_name c) (x_uuid (cc_exit c)).
Definition render_case (k : ccase) : case_ := mkCase (ck_uuid k) (ck_type k) (ck_args k) (ck_cat k).
(* result_name "" means no result is saved (flowutil.flow_sexp reads it that way on the implementation side) *)
Definition render_result (o : option str) : option str :=
  match o with Some [] => None | x => x end.
Definition render_node (nd : cnode) : node :=
  match cn_body nd with
  | BBasic e => mkNode (cn_uuid nd) (cn_actions nd) [render_exit e] None
  | BSwitch _ r =>
    let cats := sw_all_cats r in
    mkNode (cn_uuid nd) (cn_actions nd) (map (fun c => render_exit (cc_exit c)) cats)
           (Some (RSwitch (sw_operand r) (map render_case (sw_cases r)) (map render_cat cats) (cc_uuid (sw_default r))
                          (match sw_wait r with
                           | CWNone => WNone
                           | CWMsg => WMsg
                           | CWTimeout t c => WTimeout t (cc_uuid c)
                           end)
                          (render_result (sw_result r))))
  | BRandom r =>
    mkNode (cn_uuid nd) (cn_actions nd) (map (fun c => render_exit (cc_exit c)) (rr_cats r))
           (Some (RRandom (map render_cat (rr_cats r)) (render_result (rr_result r))))
  end.

(* SwitchRouter.record_global_uuids (RapidProContainer.update_global_uuids, when the container is validated):
   `case.arguments[1]` of every has_group case *)
Definition case_has_group_name (k : ccase) : bool :=
  negb (str_eqb (ck_type k) has_group_s) || Nat.leb 2 (length (ck_args k)).
Definition node_groups_named (nd : cnode) : bool :=
  match cn_body nd with BSwitch _ r => forallb case_has_group_name (sw_cases r) | _ => true end.

(* `validate` = the node-uuid validation of _compile_flow (Flow/NodeIdCheck.v: compile_flow_validation, which
   follows the probed constant compile_checks_node_uuids) *)
Definition cfinish_with (validate : list str -> option str) (name : str) (s : cstate) : res flow :=
  match cs_heads s with
  | _ :: _ => Err EUnterminated
  | [] =>
    let fu := fresh (cs_next s) in                       (* FlowContainer(uuid=None) *)
    match cs_stack s with
    | [root] =>
      match mapM (cgnodes (S (length (cs_groups s))) (cs_groups s)) root with
      | Err x => Err x
      | Ok ls =>
        match mapM (fun k => match nth_error (cs_nodes s) k with Some nd => Ok nd | None => Err EInternal end) (concat ls) with
        | Err x => Err x
        | Ok nds =>
          match validate (map cn_uuid nds) with
          | Some u => Err (EDupNodeUuid u)
          | None => if forallb node_groups_named nds then Ok (mkFlow fu name (map render_node nds))
                    else Err (ECrash CIndexError)
          end
        end
      end
    | _ => Err EUnexpectedEnd
    end
  end.

(* rows as read *)
Definition crun_read (rows : list crow) : res cstate := foldM cstep_read rows cs0.
Definition compile_read_with (validate : list str -> option str) (name : str) (rows : list crow) : res flow :=
  match crun_read rows with
  | Err x => Err x
  | Ok s => cfinish_with validate name s
  end.

(* rows as written in the sheet *)
Definition crun (rows : list crow) : res cstate := foldM cstep rows cs0.

Definition compile_with (validate : list str -> option str) (name : str) (rows : list crow) : res flow :=
  match crun rows with
  | Err x => Err x
  | Ok s => cfinish_with validate name s
  end.

Definition compile : str -> list crow -> res flow := compile_with compile_flow_validation.

End Supply.

(* an executable uuid supply: one pseudo-character above the Unicode range, so that an invented identifier is
   never equal to a string of the input *)
Definition std_fresh (k : nat) : id := [(1114112 + N.of_nat k)%N].
