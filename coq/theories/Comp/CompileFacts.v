(* E7 — facts about the compiler model, part 1: identifiers, categories, routers, nodes.
   NodeOK n U nd: every identifier of the node was drawn before n, the exits of its router are pairwise
   distinct, its cases name categories of its own router, every exit leads nowhere, to the sentinel, or to
   a uuid of U.  Each constructor establishes it, each update keeps it. *)
From Coq Require Import List NArith Bool Arith Lia.
From RPFT Require Import Base.Sexp Base.PyStr Base.PyStrFacts Base.Result Gen.Tables Flow.Flow Flow.Closed
     Flow.RowSem Comp.Compile.
Import ListNotations.

(* ---------------------------------------------------------------- generic list facts *)
Lemma upd_first_map {X Y} (p : X -> bool) (f : X -> X) (h : X -> Y) l :
  (forall c, h (f c) = h c) -> map h (upd_first p f l) = map h l.
Proof.
  intros Hf. induction l as [|c r IH]; cbn; [reflexivity|].
  destruct (p c); cbn; [rewrite Hf; reflexivity|rewrite IH; reflexivity].
Qed.

Lemma upd_first_Forall {X} (P : X -> Prop) (p : X -> bool) (f : X -> X) l :
  (forall c, P c -> P (f c)) -> Forall P l -> Forall P (upd_first p f l).
Proof.
  intros Hf H. induction H as [|c r Hc Hr IH]; cbn; [constructor|].
  destruct (p c); constructor; auto.
Qed.

Lemma upd_first_app_l {X} (p : X -> bool) f (a b : list X) :
  existsb p a = true -> upd_first p f (a ++ b) = upd_first p f a ++ b.
Proof.
  induction a as [|c r IH]; cbn; [discriminate|].
  destruct (p c); cbn; [reflexivity|]. intros H. rewrite IH by exact H. reflexivity.
Qed.

Lemma upd_first_app_r {X} (p : X -> bool) f (a b : list X) :
  existsb p a = false -> upd_first p f (a ++ b) = a ++ upd_first p f b.
Proof.
  induction a as [|c r IH]; cbn; [reflexivity|].
  destruct (p c); cbn; [discriminate|]. intros H. rewrite IH by exact H. reflexivity.
Qed.

Lemma upd_first_none {X} (p : X -> bool) f (l : list X) : existsb p l = false -> upd_first p f l = l.
Proof.
  induction l as [|c r IH]; cbn; [reflexivity|]. destruct (p c); cbn; [discriminate|].
  intros H. rewrite IH by exact H. reflexivity.
Qed.

Lemma flat_map_map_eq {X Y} (f g : X -> list Y) l : map f l = map g l -> flat_map f l = flat_map g l.
Proof.
  induction l as [|x r IH]; cbn; [reflexivity|]. intros H. injection H as H1 H2. rewrite H1, IH by exact H2. reflexivity.
Qed.

Lemma update_length {X} (l : list X) k x : length (update l k x) = length l.
Proof. revert k. induction l as [|y r IH]; intros [|k]; cbn; auto. Qed.

Lemma update_nth_same {X} (l : list X) k x y : nth_error l k = Some y -> nth_error (update l k x) k = Some x.
Proof. revert k. induction l as [|z r IH]; intros [|k]; cbn; try discriminate; auto. Qed.

Lemma update_nth_other {X} (l : list X) k j x : j <> k -> nth_error (update l k x) j = nth_error l j.
Proof.
  revert k j. induction l as [|z r IH]; intros [|k] [|j] H; cbn; try reflexivity; try contradiction.
  apply IH. intros E. apply H. rewrite E. reflexivity.
Qed.

Lemma update_map_same {X Y} (h : X -> Y) (l : list X) k x y :
  nth_error l k = Some y -> h x = h y -> map h (update l k x) = map h l.
Proof.
  revert k. induction l as [|z r IH]; intros [|k]; cbn; try discriminate.
  - intros E Hh. injection E as ->. rewrite Hh. reflexivity.
  - intros E Hh. rewrite (IH _ E Hh). reflexivity.
Qed.

Lemma update_Forall {X} (P : X -> Prop) (l : list X) k x : Forall P l -> P x -> Forall P (update l k x).
Proof.
  intros H Hx. revert k. induction H as [|z r Hz Hr IH]; intros [|k]; cbn; constructor; auto.
Qed.

Lemma NoDup_insert {X} (a b : list X) x : NoDup (a ++ b) -> ~ In x (a ++ b) -> NoDup (a ++ x :: b).
Proof. intros H1 H2. apply (proj2 (NoDup_Add (Add_app x a b))). split; assumption. Qed.

Section Facts.
Variable fresh : nat -> id.
(* what is known of every GIVEN node uuid (instantiated at the end: it is one of the rows' `_nodeId`s) *)
Variable GP : id -> Prop.
Hypothesis fresh_inj : forall a b, fresh a = fresh b -> a = b.

(* ---------------------------------------------------------------- identifiers drawn so far *)
Definition below (n : nat) (u : id) : Prop := exists k, k < n /\ u = fresh k.

Lemma below_mono n n' u : n <= n' -> below n u -> below n' u.
Proof. intros Hle (k & Hk & ->). exists k. split; [lia|reflexivity]. Qed.

Lemma below_fresh n m : m < n -> below n (fresh m).
Proof. intros H. exists m. split; [exact H|reflexivity]. Qed.

Lemma below_neq n m u : below n u -> n <= m -> u <> fresh m.
Proof. intros (k & Hk & ->) Hle E. apply fresh_inj in E. lia. Qed.

Lemma Forall_below_mono n n' l : n <= n' -> Forall (below n) l -> Forall (below n') l.
Proof. intros Hle H. eapply Forall_impl; [|exact H]. intros u. apply below_mono. exact Hle. Qed.

Lemma not_in_below n m l : Forall (below n) l -> n <= m -> ~ In (fresh m) l.
Proof.
  intros H Hle Hin. rewrite Forall_forall in H. specialize (H _ Hin). exact (below_neq _ _ _ H Hle eq_refl).
Qed.

(* ---------------------------------------------------------------- destinations *)
Definition dest_ok (U : list id) (d : dst) : Prop :=
  match d with None => True | Some u => u = hard_exit_sentinel \/ In u U end.

Lemma dest_ok_mono U U' d : incl U U' -> dest_ok U d -> dest_ok U' d.
Proof. intros Hi. destruct d as [u|]; cbn; [|auto]. intros [H|H]; [left; exact H|right; apply Hi, H]. Qed.

Lemma dest_ok_none U : dest_ok U None.
Proof. exact I. Qed.

(* ---------------------------------------------------------------- categories *)
Definition cat_xid (c : ccat) : id := x_uuid (cc_exit c).
Definition cat_ids (c : ccat) : list id := [cc_uuid c; cat_xid c].

Lemma cat_set_dest_uuid c d : cc_uuid (cat_set_dest c d) = cc_uuid c. Proof. reflexivity. Qed.
Lemma cat_set_dest_xid c d : cat_xid (cat_set_dest c d) = cat_xid c. Proof. reflexivity. Qed.
Lemma cat_set_dest_ids c d : cat_ids (cat_set_dest c d) = cat_ids c. Proof. reflexivity. Qed.
Lemma cat_set_dest_dest c d : cat_dest (cat_set_dest c d) = d. Proof. reflexivity. Qed.
Lemma cat_set_name_ids c n : cat_ids (cat_set_name c n) = cat_ids c. Proof. reflexivity. Qed.
Lemma fill_cat_ids d c : cat_ids (fill_cat d c) = cat_ids c.
Proof. unfold fill_cat, fill_exit, cat_ids, cat_xid. cbn. destruct (is_loose (x_dest (cc_exit c))); reflexivity. Qed.
Lemma fill_cat_uuid d c : cc_uuid (fill_cat d c) = cc_uuid c. Proof. reflexivity. Qed.
Lemma fill_cat_xid d c : cat_xid (fill_cat d c) = cat_xid c.
Proof. unfold fill_cat, fill_exit, cat_xid. cbn. destruct (is_loose (x_dest (cc_exit c))); reflexivity. Qed.
Lemma fill_cat_dest U d c : dest_ok U d -> dest_ok U (cat_dest c) -> dest_ok U (cat_dest (fill_cat d c)).
Proof. unfold fill_cat, fill_exit, cat_dest. cbn. destruct (is_loose (x_dest (cc_exit c))); auto. Qed.

(* a list of categories: ids drawn before n, exit uuids pairwise distinct, destinations fine *)
Record CatsOK (n : nat) (U : list id) (l : list ccat) : Prop := {
  co_ids : Forall (below n) (flat_map cat_ids l);
  co_nodup : NoDup (map cat_xid l);
  co_dests : Forall (fun c => dest_ok U (cat_dest c)) l }.

Lemma CatsOK_mono n n' U U' l : n <= n' -> incl U U' -> CatsOK n U l -> CatsOK n' U' l.
Proof.
  intros Hle Hi [H1 H2 H3]. constructor; [eapply Forall_below_mono; eauto|exact H2|].
  eapply Forall_impl; [|exact H3]. intros c. apply dest_ok_mono. exact Hi.
Qed.

Lemma CatsOK_nil n U : CatsOK n U [].
Proof. constructor; cbn; constructor. Qed.

(* an update of the first match that keeps the identifiers and gives an acceptable destination *)
Lemma CatsOK_upd_first n U p f l :
  (forall c, cat_ids (f c) = cat_ids c) ->
  (forall c, dest_ok U (cat_dest c) -> dest_ok U (cat_dest (f c))) ->
  CatsOK n U l -> CatsOK n U (upd_first p f l).
Proof.
  intros Hid Hd [H1 H2 H3]. constructor.
  - rewrite flat_map_concat_map, upd_first_map, <- flat_map_concat_map; [exact H1|exact Hid].
  - rewrite upd_first_map; [exact H2|]. intros c. specialize (Hid c). unfold cat_ids in Hid. congruence.
  - apply upd_first_Forall; assumption.
Qed.

Lemma CatsOK_map n U f l :
  (forall c, cat_ids (f c) = cat_ids c) ->
  (forall c, dest_ok U (cat_dest c) -> dest_ok U (cat_dest (f c))) ->
  CatsOK n U l -> CatsOK n U (map f l).
Proof.
  intros Hid Hd [H1 H2 H3]. constructor.
  - rewrite flat_map_concat_map, map_map. rewrite flat_map_concat_map in H1.
    erewrite map_ext; [exact H1|]. intros c. apply Hid.
  - rewrite map_map. erewrite map_ext; [exact H2|]. intros c. specialize (Hid c). unfold cat_ids in Hid. congruence.
  - rewrite Forall_map. eapply Forall_impl; [|exact H3]. exact Hd.
Qed.

(* inserting a new category whose two identifiers are the next two draws *)
Lemma CatsOK_insert n U a b name d :
  CatsOK n U (a ++ b) -> dest_ok U d ->
  CatsOK (S (S n)) U (a ++ mkCCat (fresh n) name (mkCExit (fresh (S n)) d) :: b).
Proof.
  intros [H1 H2 H3] Hd. constructor.
  - rewrite flat_map_app in *. cbn. apply Forall_app in H1 as [Ha Hb]. apply Forall_app. split.
    + eapply Forall_below_mono; [|exact Ha]. lia.
    + constructor; [apply below_fresh; lia|]. constructor; [apply below_fresh; lia|].
      eapply Forall_below_mono; [|exact Hb]. lia.
  - rewrite map_app in *. cbn. apply NoDup_insert; [exact H2|].
    (* the new exit uuid is not among the old ones *)
    intros Hin. assert (Hall : Forall (below n) (map cat_xid a ++ map cat_xid b)).
    { rewrite <- map_app. rewrite Forall_forall. intros u Hu. apply in_map_iff in Hu as (c & <- & Hc).
      rewrite Forall_forall in H1. apply H1. apply in_flat_map. exists c. split; [exact Hc|]. right. left. reflexivity. }
    exact (not_in_below _ (S n) _ Hall ltac:(lia) Hin).
  - apply Forall_app in H3 as [Ha Hb]. apply Forall_app. split; [exact Ha|]. constructor; [exact Hd|exact Hb].
Qed.

Lemma CatsOK_replace n U a c c' b :
  cat_ids c' = cat_ids c -> dest_ok U (cat_dest c') -> CatsOK n U (a ++ c :: b) -> CatsOK n U (a ++ c' :: b).
Proof.
  intros Hid Hd [H1 H2 H3]. constructor.
  - rewrite flat_map_app in *. cbn [flat_map] in *. rewrite Hid. exact H1.
  - rewrite map_app in *. cbn [map] in *. unfold cat_ids in Hid. injection Hid as _ Hx. rewrite Hx. exact H2.
  - apply Forall_app in H3 as [Ha Hb]. inversion Hb as [|? ? Hc Hb']; subst.
    apply Forall_app. split; [exact Ha|]. constructor; assumption.
Qed.

(* ---------------------------------------------------------------- switch routers *)
Definition sw_ids (r : cswitch) : list id := flat_map cat_ids (sw_all_cats r) ++ map ck_uuid (sw_cases r).

Record SwOK (n : nat) (U : list id) (r : cswitch) : Prop := {
  so_cats : CatsOK n U (sw_all_cats r);
  so_case_ids : Forall (below n) (map ck_uuid (sw_cases r));
  so_cases : forall k, In k (sw_cases r) -> In (ck_cat k) (map cc_uuid (sw_all_cats r)) }.

Lemma SwOK_mono n n' U U' r : n <= n' -> incl U U' -> SwOK n U r -> SwOK n' U' r.
Proof.
  intros Hle Hi [H1 H2 H3]. constructor; [eapply CatsOK_mono; eauto|eapply Forall_below_mono; eauto|exact H3].
Qed.

Lemma sw_all_cats_upd_cat p f r : sw_all_cats (sw_upd_cat p f r) = upd_first p f (sw_all_cats r).
Proof.
  unfold sw_upd_cat, sw_all_cats. destruct (existsb p (sw_cats r)) eqn:E1.
  - cbn. rewrite upd_first_app_l by exact E1. reflexivity.
  - rewrite upd_first_app_r by exact E1. cbn [upd_first]. destruct (p (sw_default r)) eqn:E2; [reflexivity|].
    destruct (sw_wait r) as [| |t c] eqn:E3; cbn; rewrite ?E3; cbn; try reflexivity.
    destruct (p c) eqn:E4; cbn; rewrite ?E3; reflexivity.
Qed.

Lemma sw_cases_upd_cat p f r : sw_cases (sw_upd_cat p f r) = sw_cases r.
Proof.
  unfold sw_upd_cat. destruct (existsb p (sw_cats r)); [reflexivity|]. destruct (p (sw_default r)); [reflexivity|].
  destruct (sw_wait r) as [| |t c]; try reflexivity. destruct (p c); reflexivity.
Qed.

Lemma SwOK_upd_cat n U p f r :
  (forall c, cat_ids (f c) = cat_ids c) ->
  (forall c, dest_ok U (cat_dest c) -> dest_ok U (cat_dest (f c))) ->
  SwOK n U r -> SwOK n U (sw_upd_cat p f r).
Proof.
  intros Hid Hd [H1 H2 H3]. constructor.
  - rewrite sw_all_cats_upd_cat. apply CatsOK_upd_first; assumption.
  - rewrite sw_cases_upd_cat. exact H2.
  - rewrite sw_cases_upd_cat, sw_all_cats_upd_cat. intros k Hk. rewrite upd_first_map; [apply H3, Hk|].
    intros c. specialize (Hid c). unfold cat_ids in Hid. congruence.
Qed.

Lemma SwOK_set_dest n U p d r : dest_ok U d -> SwOK n U r -> SwOK n U (sw_upd_cat p (fun c => cat_set_dest c d) r).
Proof. intros Hd. apply SwOK_upd_cat; [reflexivity|intros c _; exact Hd]. Qed.

Lemma SwOK_set_operand n U r v : SwOK n U r -> SwOK n U (sw_set_operand r v).
Proof. intros [H1 H2 H3]. destruct v; constructor; assumption. Qed.

Lemma SwOK_update_default n U r d name : dest_ok U d -> SwOK n U r -> SwOK n U (sw_update_default r d name).
Proof.
  intros Hd [H1 H2 H3].
  assert (Hid : forall nm, cat_ids (match nm with [] => cat_set_dest (sw_default r) d | _ => cat_set_name (cat_set_dest (sw_default r) d) nm end)
                           = cat_ids (sw_default r)) by (intros [|? ?]; reflexivity).
  assert (Hdd : forall nm, cat_dest (match nm with [] => cat_set_dest (sw_default r) d | _ => cat_set_name (cat_set_dest (sw_default r) d) nm end) = d)
    by (intros [|? ?]; reflexivity).
  constructor.
  - unfold sw_update_default, sw_all_cats in *. cbn. eapply (CatsOK_replace _ _ _ (sw_default r)); [apply Hid|rewrite Hdd; exact Hd|exact H1].
  - exact H2.
  - intros k Hk. specialize (H3 k Hk). unfold sw_update_default, sw_all_cats in *. cbn in *.
    rewrite map_app in *. cbn [map] in *. specialize (Hid name). unfold cat_ids in Hid. injection Hid as Hu _. rewrite Hu. exact H3.
Qed.

Lemma SwOK_rename_default n U r name : SwOK n U r -> SwOK n U (sw_rename_default r name).
Proof.
  intros [H1 H2 H3]. constructor.
  - unfold sw_rename_default, sw_all_cats in *. cbn. eapply (CatsOK_replace _ _ _ (sw_default r)); [reflexivity| |exact H1].
    destruct H1 as [_ _ Hd]. apply Forall_app in Hd as [_ Hd]. inversion Hd; subst. assumption.
  - exact H2.
  - intros k Hk. specialize (H3 k Hk). unfold sw_rename_default, sw_all_cats in *. cbn in *.
    rewrite map_app in *. exact H3.
Qed.

Lemma SwOK_update_noresp n U r d : dest_ok U d -> SwOK n U r -> SwOK n U (sw_update_noresp r d).
Proof.
  intros Hd [H1 H2 H3]. unfold sw_update_noresp. destruct (sw_wait r) as [| |t c] eqn:E; try (constructor; assumption).
  constructor.
  - unfold sw_all_cats in *. cbn. rewrite E in H1. cbn in H1.
    change (sw_cats r ++ sw_default r :: [cat_set_dest c d]) with (sw_cats r ++ [sw_default r] ++ cat_set_dest c d :: []).
    rewrite app_assoc. eapply (CatsOK_replace _ _ _ c); [reflexivity|exact Hd|]. rewrite <- app_assoc. exact H1.
  - exact H2.
  - intros k Hk. specialize (H3 k Hk). unfold sw_all_cats in *. cbn in *. rewrite E in H3. cbn in H3.
    rewrite map_app in *. cbn in *. exact H3.
Qed.

(* RouterCategory(name, d) added to the categories *)
Lemma new_cat_spec n name d c n' :
  new_cat fresh n name d = Ok (c, n') -> c = mkCCat (fresh n) name (mkCExit (fresh (S n)) d) /\ n' = S (S n).
Proof. unfold new_cat. destruct (Nat.ltb cat_name_limit (length name)); [discriminate|]. intros H. injection H as <- <-. auto. Qed.

Lemma new_case_spec n ty args cat k n' :
  new_case fresh n ty args cat = Ok (k, n') -> ck_uuid k = fresh n /\ ck_cat k = cat /\ n' = S n.
Proof. unfold new_case. destruct (negb (memb ty known_tests)); [discriminate|]. intros H. injection H as <- <-. auto. Qed.

Lemma SwOK_add_cat n U r name d :
  dest_ok U d -> SwOK n U r -> SwOK (S (S n)) U (sw_add_cat r (mkCCat (fresh n) name (mkCExit (fresh (S n)) d))).
Proof.
  intros Hd [H1 H2 H3]. constructor.
  - unfold sw_add_cat, sw_all_cats in *. cbn. rewrite <- app_assoc. cbn. apply CatsOK_insert; assumption.
  - eapply Forall_below_mono; [|exact H2]. lia.
  - intros k Hk. specialize (H3 k Hk). unfold sw_add_cat, sw_all_cats in *. cbn in *. rewrite <- app_assoc. cbn.
    rewrite map_app in *. cbn [map]. apply in_app_or in H3 as [H|H]; apply in_or_app; [left; exact H|right; right; exact H].
Qed.

Lemma SwOK_add_case n U r k :
  ck_uuid k = fresh n -> In (ck_cat k) (map cc_uuid (sw_all_cats r)) -> SwOK n U r -> SwOK (S n) U (sw_add_case r k).
Proof.
  intros Hu Hc [H1 H2 H3]. constructor.
  - eapply CatsOK_mono; [| |exact H1]; [lia|apply incl_refl].
  - unfold sw_add_case. cbn. rewrite map_app. apply Forall_app. split.
    + eapply Forall_below_mono; [|exact H2]. lia.
    + constructor; [|constructor]. rewrite Hu. apply below_fresh. lia.
  - unfold sw_add_case. cbn. intros k' Hk'. apply in_app_or in Hk' as [H|[<-|[]]]; [apply H3, H|exact Hc].
Qed.

Lemma sw_all_cats_add_case r k : sw_all_cats (sw_add_case r k) = sw_all_cats r.
Proof. reflexivity. Qed.

Lemma find_In {X} (p : X -> bool) l x : find p l = Some x -> In x l /\ p x = true.
Proof. apply find_some. Qed.

Lemma SwOK_mark_auto n U r u : SwOK n U r -> SwOK n U (sw_mark_auto r u).
Proof. intros [H1 H2 H3]. constructor; assumption. Qed.

Lemma SwOK_mark n U (g : bool) r u : SwOK n U r -> SwOK n U (if g then sw_mark_auto r u else r).
Proof. destruct g; [apply SwOK_mark_auto|auto]. Qed.

Lemma sw_claim_ok n U r nm r' : SwOK n U r -> sw_claim r nm = Ok r' -> SwOK n U r'.
Proof.
  intros Hok. unfold sw_claim. destruct (find (name_is nm) (sw_all_cats r)) as [c|]; [|intros H; injection H as <-; exact Hok].
  destruct (_ || _); [discriminate|]. destruct (memb (cc_uuid c) (sw_auto r)); [|intros H; injection H as <-; exact Hok].
  destruct (alt_loop _ _ _) as [nm'|e]; [|discriminate]. intros H. injection H as <-.
  apply SwOK_upd_cat; [reflexivity|intros c0 H0; exact H0|exact Hok].
Qed.

Lemma sw_add_choice_ok n U r v ty args name d b r' n' :
  SwOK n U r -> dest_ok U d -> sw_add_choice fresh n r v ty args name d b = Ok (r', n') ->
  n <= n' /\ SwOK n' U r'.
Proof.
  intros Hok Hd. unfold sw_add_choice.
  assert (Hok0 := SwOK_set_operand n U r v Hok). set (r0 := sw_set_operand r v) in *. clearbody r0.
  destruct (find _ (sw_cases r0)) as [k|] eqn:Ef.
  - destruct (existsb _ (sw_all_cats r0)); [|discriminate]. intros H. injection H as <- <-.
    split; [lia|]. apply SwOK_set_dest; assumption.
  - destruct (match name with [] => _ | _ => _ end) as [nm|e] eqn:En; [|discriminate].
    destruct b.
    + destruct (new_case _ _ _ _ _) as [[k n1]|e] eqn:Ek; [|discriminate]. intros H. injection H as <- <-.
      apply new_case_spec in Ek as (Hu & Hc & ->). split; [lia|].
      apply SwOK_add_case; [exact Hu| |apply SwOK_update_default; assumption].
      rewrite Hc. unfold sw_all_cats. rewrite map_app. apply in_or_app. right. left. reflexivity.
    + destruct (if explicit_names_claimed && _ then sw_claim r0 nm else Ok r0) as [r1|e] eqn:Ecl; [|discriminate].
      assert (Hok1 : SwOK n U r1).
      { destruct (explicit_names_claimed && _); [eapply sw_claim_ok; eauto|injection Ecl as <-; exact Hok0]. }
      clear Ecl. destruct (find (name_is nm) (sw_all_cats r1)) as [c|] eqn:Ec.
      * destruct (new_case _ _ _ _ _) as [[k n1]|e] eqn:Ek; [|discriminate]. intros H. injection H as <- <-.
        apply new_case_spec in Ek as (Hu & Hc & ->). split; [lia|]. apply SwOK_mark.
        apply SwOK_add_case; [exact Hu| |apply SwOK_set_dest; assumption].
        rewrite Hc, sw_all_cats_upd_cat, upd_first_map by reflexivity.
        apply find_In in Ec as [Hin _]. apply in_map. exact Hin.
      * destruct (new_cat _ _ _ _) as [[c n1]|e] eqn:Ecat; [|discriminate].
        destruct (new_case _ _ _ _ _) as [[k n2]|e] eqn:Ek; [|discriminate]. intros H. injection H as <- <-.
        apply new_cat_spec in Ecat as (-> & ->). apply new_case_spec in Ek as (Hu & Hc & ->). split; [lia|]. apply SwOK_mark.
        apply SwOK_add_case; [exact Hu| |apply SwOK_add_cat; assumption].
        rewrite Hc. unfold sw_add_cat, sw_all_cats. cbn. rewrite !map_app. cbn.
        apply in_or_app. left. apply in_or_app. right. left. reflexivity.
Qed.

Lemma new_switch_ok n U operand result timeout r n' :
  new_switch fresh n operand result timeout = Ok (r, n') -> n <= n' /\ SwOK n' U r.
Proof.
  unfold new_switch. destruct (new_cat fresh n s_Other None) as [[other n1]|e] eqn:E1; [|discriminate].
  apply new_cat_spec in E1 as (-> & ->).
  assert (Hbase : forall w, wait_cats w = [] -> SwOK (S (S n)) U (mkSwitch operand result w [] [] (mkCCat (fresh n) s_Other (mkCExit (fresh (S n)) None)) [])).
  { intros w Hw. constructor.
    - unfold sw_all_cats. cbn. rewrite Hw.
      apply (CatsOK_insert n U [] [] s_Other None); [apply CatsOK_nil|exact I].
    - constructor.
    - intros k []. }
  destruct timeout as [t|].
  - destruct t as [|p].
    + intros H. injection H as <- <-. split; [lia|]. apply Hbase. reflexivity.
    + destruct (new_cat fresh (S (S n)) s_NoResponse None) as [[nr n2]|e] eqn:E2; [|discriminate].
      apply new_cat_spec in E2 as (-> & ->). intros H. injection H as <- <-. split; [lia|]. constructor.
      * unfold sw_all_cats. cbn.
        apply (CatsOK_insert (S (S n)) U [_] [] s_NoResponse None); [|exact I].
        apply (CatsOK_insert n U [] [] s_Other None); [apply CatsOK_nil|exact I].
      * constructor.
      * intros k [].
  - intros H. injection H as <- <-. split; [lia|]. apply Hbase. reflexivity.
Qed.

(* ---------------------------------------------------------------- random routers *)
Lemma rr_add_choice_ok n U r name d r' n' :
  CatsOK n U (rr_cats r) -> dest_ok U d -> rr_add_choice fresh n r name d = Ok (r', n') ->
  n <= n' /\ CatsOK n' U (rr_cats r').
Proof.
  intros Hok Hd. unfold rr_add_choice.
  generalize (match name with [] => s_Bucket ++ dec_nat (length (rr_cats r) + 2) | _ => name end). intros nm.
  destruct (existsb (name_is nm) (rr_cats r)).
  - intros H. injection H as <- <-. split; [lia|]. cbn. apply CatsOK_upd_first; [reflexivity|intros c _; exact Hd|exact Hok].
  - destruct (new_cat fresh n nm d) as [[c n1]|e] eqn:E; [|discriminate]. apply new_cat_spec in E as (-> & ->).
    intros H. injection H as <- <-. split; [lia|]. cbn. apply CatsOK_insert; [rewrite app_nil_r; exact Hok|exact Hd].
Qed.

(* ---------------------------------------------------------------- nodes *)
Inductive BodyOK (n : nat) (U : list id) : cbody -> Prop :=
| BO_basic e : below n (x_uuid e) -> dest_ok U (x_dest e) -> BodyOK n U (BBasic e)
| BO_switch cls r : SwOK n U r -> BodyOK n U (BSwitch cls r)
| BO_random r : CatsOK n U (rr_cats r) -> BodyOK n U (BRandom r).

Record NodeOK (n : nat) (U : list id) (nd : cnode) : Prop := {
  no_uuid : cn_given nd = false -> below n (cn_uuid nd);
  no_acts : Forall (below n) (map fst (cn_actions nd));
  no_body : BodyOK n U (cn_body nd);
  no_given : cn_given nd = true -> GP (cn_uuid nd) }.

Lemma BodyOK_mono n n' U U' b : n <= n' -> incl U U' -> BodyOK n U b -> BodyOK n' U' b.
Proof.
  intros Hle Hi H. destruct H as [e H1 H2|cls r H|r H].
  - constructor; [eapply below_mono; eauto|eapply dest_ok_mono; eauto].
  - constructor. eapply SwOK_mono; eauto.
  - constructor. eapply CatsOK_mono; eauto.
Qed.

Lemma NodeOK_mono n n' U U' nd : n <= n' -> incl U U' -> NodeOK n U nd -> NodeOK n' U' nd.
Proof.
  intros Hle Hi [H1 H2 H3 H4]. constructor.
  - intros Hg. eapply below_mono; [exact Hle|apply H1, Hg].
  - eapply Forall_below_mono; eauto.
  - eapply BodyOK_mono; eauto.
  - exact H4.
Qed.

Lemma NodeOK_with_body n n' U nd b : n <= n' -> NodeOK n U nd -> BodyOK n' U b -> NodeOK n' U (with_body nd b).
Proof.
  intros Hle [H1 H2 _ H4] Hb. constructor; cbn.
  - intros Hg. eapply below_mono; [exact Hle|apply H1, Hg].
  - eapply Forall_below_mono; eauto.
  - exact Hb.
  - exact H4.
Qed.

(* node_uuid: the uuid is the given one, or the next draw *)
Lemma node_uuid_spec given n u g n1 :
  node_uuid fresh given n = (u, g, n1) ->
  n <= n1 /\ n1 <= S n /\ (g = false -> below n1 u) /\ (given <> [] -> u = given /\ g = true) /\ (given = [] -> g = false).
Proof.
  unfold node_uuid. destruct given as [|c r]; intros H; injection H as <- <- <-.
  - split; [lia|]. split; [lia|]. split; [intros _; apply below_fresh; lia|]. split; [intros E; contradiction|reflexivity].
  - split; [lia|]. split; [lia|]. split; [discriminate|]. split; [intros _; split; reflexivity|discriminate].
Qed.

Lemma node_uuid_given given n u g n1 :
  node_uuid fresh given n = (u, g, n1) -> (given <> [] -> GP given) -> g = true -> GP u.
Proof.
  unfold node_uuid. destruct given as [|c r]; intros H; injection H as <- <- <-; [discriminate|].
  intros Hg _. apply Hg. discriminate.
Qed.

Lemma new_switch_parts_given n given operand result timeout u g r n' :
  new_switch_parts fresh n given operand result timeout = Ok (u, g, r, n') ->
  (given <> [] -> GP given) -> g = true -> GP u.
Proof.
  unfold new_switch_parts. destruct (node_uuid fresh given n) as [[u0 g0] n1] eqn:Eu.
  destruct operand as [|c o]; [discriminate|]. destruct (new_switch _ _ _ _ _) as [[r0 n3]|e]; [|discriminate].
  intros H. injection H as <- <- <- <-. eapply node_uuid_given; eauto.
Qed.

Lemma new_switch_parts_ok n U given operand result timeout u g r n' :
  new_switch_parts fresh n given operand result timeout = Ok (u, g, r, n') ->
  n <= n' /\ (g = false -> below n' u) /\ SwOK n' U r /\ (given <> [] -> u = given /\ g = true) /\ (given = [] -> g = false).
Proof.
  unfold new_switch_parts. destruct (node_uuid fresh given n) as [[u0 g0] n1] eqn:Eu.
  apply node_uuid_spec in Eu as (H1 & H2 & H3 & H4 & H5).
  destruct operand as [|c o]; [discriminate|].
  destruct (new_switch fresh (S n1) (c :: o) result timeout) as [[r0 n3]|e] eqn:Er; [|discriminate].
  apply (new_switch_ok _ U) in Er as (H6 & H7). intros H. injection H as <- <- <- <-.
  split; [lia|]. split; [intros Hg; eapply below_mono; [|apply H3, Hg]; lia|]. split; [exact H7|]. split; assumption.
Qed.

Lemma new_switch_node_ok n U given operand result timeout nd n' :
  (given <> [] -> GP given) ->
  new_switch_node fresh n given operand result timeout = Ok (nd, n') ->
  n <= n' /\ NodeOK n' U nd /\ (given <> [] -> cn_uuid nd = given).
Proof.
  intros Hgiven.
  unfold new_switch_node. destruct (new_switch_parts fresh n given operand result timeout) as [[[[u g] r] n3]|e] eqn:E; [|discriminate].
  pose proof (new_switch_parts_given _ _ _ _ _ _ _ _ _ E Hgiven) as HG.
  apply (new_switch_parts_ok _ U) in E as (H1 & H2 & H3 & H4 & _). intros H. injection H as <- <-.
  split; [exact H1|]. split.
  - constructor; cbn; [exact H2|constructor|constructor; exact H3|exact HG].
  - intros Hg. apply H4, Hg.
Qed.

Lemma new_enter_node_ok n U given name payload nd n' :
  (given <> [] -> GP given) ->
  new_enter_node fresh n given name payload = Ok (nd, n') ->
  n <= n' /\ NodeOK n' U nd /\ (given <> [] -> cn_uuid nd = given).
Proof.
  intros Hgiven.
  unfold new_enter_node. destruct (node_uuid fresh given n) as [[u0 g0] n1] eqn:Eu.
  pose proof (fun Hg => node_uuid_given _ _ _ _ _ Eu Hgiven Hg) as HG.
  apply node_uuid_spec in Eu as (H1 & H2 & H3 & H4 & H5).
  destruct name as [|c o]; [discriminate|].
  destruct (new_switch fresh (S (S n1)) s_child_run_status None None) as [[r0 n3]|e] eqn:Er; [|discriminate].
  apply (new_switch_ok _ U) in Er as (H6 & H7).
  destruct (sw_add_choice fresh n3 _ _ _ _ _ _ _) as [[r2 n4]|e] eqn:E1; [|discriminate].
  apply (sw_add_choice_ok _ U) in E1 as (H8 & H9); [|apply SwOK_rename_default; exact H7|exact I].
  destruct (sw_add_choice fresh n4 _ _ _ _ _ _ _) as [[r3 n5]|e] eqn:E2; [|discriminate].
  apply (sw_add_choice_ok _ U) in E2 as (H10 & H11); [|exact H9|exact I].
  intros H. injection H as <- <-. split; [lia|]. split.
  - constructor; cbn.
    + intros Hg. eapply below_mono; [|apply H3, Hg]. lia.
    + constructor; [apply below_fresh; lia|constructor].
    + constructor. exact H11.
    + exact HG.
  - intros Hg. apply H4, Hg.
Qed.

Lemma new_outcome_node_ok n U given sv payload wh nd n' :
  (given <> [] -> GP given) ->
  new_outcome_node fresh n given sv payload wh = Ok (nd, n') ->
  n <= n' /\ NodeOK n' U nd /\ (given <> [] -> cn_uuid nd = given).
Proof.
  intros Hgiven.
  unfold new_outcome_node. destruct (node_uuid fresh given n) as [[u0 g0] n1] eqn:Eu.
  pose proof (fun Hg => node_uuid_given _ _ _ _ _ Eu Hgiven Hg) as HG.
  apply node_uuid_spec in Eu as (H1 & H2 & H3 & H4 & H5).
  destruct sv as [|c o]; [discriminate|].
  destruct (field_key (c :: o)) as [key|e]; [|discriminate].
  destruct (new_switch fresh (S (S n1)) _ None None) as [[r0 n3]|e] eqn:Er; [|discriminate].
  apply (new_switch_ok _ U) in Er as (H6 & H7).
  destruct (sw_add_choice fresh n3 _ _ _ _ _ _ _) as [[r2 n4]|e] eqn:E1; [|discriminate].
  apply (sw_add_choice_ok _ U) in E1 as (H8 & H9); [|apply SwOK_rename_default; exact H7|exact I].
  intros H. injection H as <- <-. split; [lia|]. split.
  - constructor; cbn.
    + intros Hg. eapply below_mono; [|apply H3, Hg]. lia.
    + constructor; [apply below_fresh; lia|constructor].
    + constructor. apply SwOK_update_default; [exact I|exact H9].
    + exact HG.
  - intros Hg. apply H4, Hg.
Qed.

Lemma new_row_node_ok n U k given acts payload nd n' :
  (given <> [] -> GP given) ->
  Forall (below n) (map fst acts) ->
  new_row_node fresh n k given acts payload = Ok (nd, n') ->
  n <= n' /\ NodeOK n' U nd /\ (given <> [] -> cn_uuid nd = given).
Proof.
  intros Hgiven Ha. unfold new_row_node. destruct k as [| |t sv|op sv|sv|sv|name|sv|sv].
  - destruct (node_uuid fresh given n) as [[u0 g0] n1] eqn:Eu.
    pose proof (fun Hg => node_uuid_given _ _ _ _ _ Eu Hgiven Hg) as HG.
    apply node_uuid_spec in Eu as (H1 & H2 & H3 & H4 & H5). intros H. injection H as <- <-.
    split; [lia|]. split; [|intros Hg; apply H4, Hg]. constructor; cbn.
    + intros Hg. eapply below_mono; [|apply H3, Hg]. lia.
    + eapply Forall_below_mono; [|exact Ha]. lia.
    + constructor; cbn; [apply below_fresh; lia|exact I].
    + exact HG.
  - destruct (node_uuid fresh given n) as [[u0 g0] n1] eqn:Eu.
    pose proof (fun Hg => node_uuid_given _ _ _ _ _ Eu Hgiven Hg) as HG.
    apply node_uuid_spec in Eu as (H1 & H2 & H3 & H4 & H5). intros H. injection H as <- <-.
    split; [lia|]. split; [|intros Hg; apply H4, Hg]. constructor; cbn.
    + intros Hg. eapply below_mono; [|apply H3, Hg]. lia.
    + eapply Forall_below_mono; [|exact Ha]. lia.
    + constructor; cbn; [apply below_fresh; lia|exact I].
    + exact HG.
  - apply new_switch_node_ok, Hgiven.
  - apply new_switch_node_ok, Hgiven.
  - apply new_switch_node_ok, Hgiven.
  - destruct (node_uuid fresh given n) as [[u0 g0] n1] eqn:Eu.
    pose proof (fun Hg => node_uuid_given _ _ _ _ _ Eu Hgiven Hg) as HG.
    apply node_uuid_spec in Eu as (H1 & H2 & H3 & H4 & H5). intros H. injection H as <- <-.
    split; [lia|]. split; [|intros Hg; apply H4, Hg]. constructor; cbn.
    + intros Hg. eapply below_mono; [|apply H3, Hg]. lia.
    + constructor.
    + constructor. apply CatsOK_nil.
    + exact HG.
  - apply new_enter_node_ok, Hgiven.
  - apply new_outcome_node_ok, Hgiven.
  - apply new_outcome_node_ok, Hgiven.
Qed.

(* update_default_exit *)
Lemma node_update_default_ok n U nd d nd' n' :
  NodeOK n U nd -> dest_ok U d -> node_update_default fresh n nd d = Ok (nd', n') ->
  n <= n' /\ NodeOK n' U nd' /\ cn_uuid nd' = cn_uuid nd.
Proof.
  intros Hok Hd. unfold node_update_default. destruct (cn_body nd) as [e|cls r|r] eqn:Eb.
  - cbn. intros H. injection H as <- <-. split; [lia|]. split; [|reflexivity].
    apply NodeOK_with_body with (n := n); [lia|exact Hok|]. constructor; cbn; [apply below_fresh; lia|exact Hd].
  - destruct cls; try discriminate; intros H; injection H as <- <-; (split; [lia|]); (split; [|reflexivity]);
      (apply NodeOK_with_body with (n := n); [lia|exact Hok|]); constructor;
      destruct Hok as [_ _ Hb _]; rewrite Eb in Hb; inversion Hb; subst; apply SwOK_update_default; assumption.
  - discriminate.
Qed.

Lemma node_fill_loose_ok n U nd d : NodeOK n U nd -> dest_ok U d -> NodeOK n U (node_fill_loose nd d).
Proof.
  intros Hok Hd. unfold node_fill_loose. apply NodeOK_with_body with (n := n); [lia|exact Hok|].
  destruct Hok as [_ _ Hb _]. destruct (cn_body nd) as [e|cls r|r]; inversion Hb; subst.
  - constructor; unfold fill_exit; destruct (is_loose (x_dest e)); cbn; assumption.
  - constructor. match goal with H : SwOK _ _ _ |- _ => destruct H as [H1 H2 H3] end. constructor.
    + unfold sw_all_cats in *. cbn.
      assert (E : map (fill_cat d) (sw_cats r) ++ fill_cat d (sw_default r) :: wait_cats (match sw_wait r with CWTimeout t c => CWTimeout t (fill_cat d c) | w => w end)
                  = map (fill_cat d) (sw_cats r ++ sw_default r :: wait_cats (sw_wait r))).
      { rewrite map_app. cbn. destruct (sw_wait r); reflexivity. }
      rewrite E. apply CatsOK_map; [apply fill_cat_ids|intros c; apply fill_cat_dest; exact Hd|exact H1].
    + exact H2.
    + cbn. intros k Hk. specialize (H3 k Hk). unfold sw_all_cats in *. cbn.
      rewrite map_app in *. cbn in *. rewrite map_map. cbn.
      replace (map cc_uuid (wait_cats (match sw_wait r with CWTimeout t c => CWTimeout t (fill_cat d c) | w => w end)))
        with (map cc_uuid (wait_cats (sw_wait r))) by (destruct (sw_wait r); reflexivity).
      exact H3.
  - constructor. cbn. apply CatsOK_map; [apply fill_cat_ids|intros c; apply fill_cat_dest; exact Hd|assumption].
Qed.

Lemma node_fill_loose_uuid nd d : cn_uuid (node_fill_loose nd d) = cn_uuid nd.
Proof. reflexivity. Qed.
End Facts.
