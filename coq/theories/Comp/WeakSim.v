(* Weak simulation between two labelled transition systems (Flow/Lts.v) implies trace inclusion up to the label
   matching: silent steps may be taken on either side. *)
From Coq Require Import List Arith Bool Lia.
From RPFT Require Import Flow.Lts.
Import ListNotations.

Section WeakSim.
Variable label : Type.
Variables S S' : Type.
Variable L : S -> kind label S.
Variable R : S' -> kind label S'.
Variable lm : label -> label -> bool.

(* b' is reached from b by silent steps *)
Inductive taus : S' -> S' -> Prop :=
| taus_refl b : taus b b
| taus_step b n b' : R b = KTau n -> taus n b' -> taus b b'.

Lemma taus_exec b b' t : taus b b' -> exec label R b' t -> exec label R b t.
Proof. intros H. induction H as [b|b n b' E _ IH]; [auto|]. intros Hx. eapply ex_tau; eauto. Qed.

Lemma taus_trans a b c : taus a b -> taus b c -> taus a c.
Proof. intros H. induction H as [b0|b0 n b' E _ IH]; [auto|]. intros Hc. eapply taus_step; eauto. Qed.

Variable W : S -> S' -> Prop.

Definition wsim_at (a : S) (b : S') : Prop :=
  match L a with
  | KEnd => exists b', taus b b' /\ R b' = KEnd
  | KTau n => exists b', taus b b' /\ W n b'
  | KAct p n => exists b' p' n', taus b b' /\ R b' = KAct p' n' /\ lm p p' = true /\ W n n'
  | KDec sg bs => exists b' sg' bs', taus b b' /\ R b' = KDec sg' bs' /\ lm sg sg' = true
                                     /\ Forall2 (fun x y => lm (fst x) (fst y) = true /\ W (snd x) (snd y)) bs bs'
  | KBad => True
  end.

Hypothesis wsim : forall a b, W a b -> wsim_at a b.

Lemma Forall2_In_l {X Y} (P : X -> Y -> Prop) l l' x : Forall2 P l l' -> In x l -> exists y, In y l' /\ P x y.
Proof.
  intros H. induction H as [|a b l l' Hab _ IH]; [intros []|]. intros [<-|Hin]; [exists b; split; [left; reflexivity|exact Hab]|].
  destruct (IH Hin) as (y & Hy & Hp). exists y. split; [right; exact Hy|exact Hp].
Qed.

Theorem wsim_traces a t : exec label L a t -> forall b, W a b -> exists t', exec label R b t' /\ Forall2 (ematch label lm) t t'.
Proof.
  intros Hx. induction Hx as [s|s E|s n t E _ IH|s p n t E _ IH|s sg bs b0 n t E Hin _ IH]; intros b Hw.
  - exists []. split; constructor.
  - pose proof (wsim _ _ Hw) as H. unfold wsim_at in H. rewrite E in H. destruct H as (b' & Ht & Eb).
    exists [EEnd]. split; [eapply taus_exec; [exact Ht|apply ex_end, Eb]|constructor; [exact I|constructor]].
  - pose proof (wsim _ _ Hw) as H. unfold wsim_at in H. rewrite E in H. destruct H as (b' & Ht & Hw').
    destruct (IH _ Hw') as (t' & Hx' & Hm). exists t'. split; [eapply taus_exec; eauto|exact Hm].
  - pose proof (wsim _ _ Hw) as H. unfold wsim_at in H. rewrite E in H. destruct H as (b' & p' & n' & Ht & Eb & Hl & Hw').
    destruct (IH _ Hw') as (t' & Hx' & Hm). exists (EAct p' :: t'). split.
    + eapply taus_exec; [exact Ht|]. eapply ex_act; eauto.
    + constructor; [exact Hl|exact Hm].
  - pose proof (wsim _ _ Hw) as H. unfold wsim_at in H. rewrite E in H.
    destruct H as (b' & sg' & bs' & Ht & Eb & Hl & Hbs).
    destruct (Forall2_In_l _ _ _ _ Hbs Hin) as ([lb nb] & Hin' & Hlb & Hwb). cbn in Hlb, Hwb.
    destruct (IH _ Hwb) as (t' & Hx' & Hm). exists (EDec sg' lb :: t'). split.
    + eapply taus_exec; [exact Ht|]. eapply ex_dec; eauto.
    + constructor; [split; assumption|exact Hm].
Qed.
End WeakSim.
