(* E7 — facts about the compiler model, part 2: the store.  StOK s: every node of the store is NodeOK
   w.r.t. the uuid counter and the uuids of the store.  ext s s': what add_exit / connect_loose_exits may
   change (they only add nodes, keep every node's uuid, keep the group structure up to a row group or a no_op
   gaining its router node, and every node they add sits in a group).  Every operation keeps StOK and is
   an extension. *)
From Coq Require Import List NArith Bool Arith Lia Permutation.
From RPFT Require Import Base.Sexp Base.PyStr Base.Result Gen.Tables Flow.Flow Flow.Closed Flow.RowSem
     Comp.Compile Comp.CompileFacts Comp.CompileIds.
Import ListNotations.

Lemma flat_map_update_split {X Y} (f : X -> list Y) (l : list X) k y :
  nth_error l k = Some y ->
  flat_map f l = flat_map f (firstn k l) ++ f y ++ flat_map f (skipn (S k) l)
  /\ forall x, flat_map f (update l k x) = flat_map f (firstn k l) ++ f x ++ flat_map f (skipn (S k) l).
Proof.
  revert k. induction l as [|z r IH]; intros [|k]; cbn; try discriminate.
  - intros H. injection H as ->. split; [reflexivity|intros x; reflexivity].
  - intros H. destruct (IH k H) as [E1 E2]. split.
    + rewrite E1 at 1. rewrite <- app_assoc. reflexivity.
    + intros x. rewrite E2, <- app_assoc. reflexivity.
Qed.

Section Inv.
Variable fresh : nat -> id.
Variable GP : id -> Prop.
Hypothesis fresh_inj : forall a b, fresh a = fresh b -> a = b.

Definition uuids (s : cstate) : list id := map cn_uuid (cs_nodes s).
(* the identifiers at defining positions, over the whole store: pairwise distinct, all drawn already *)
Definition all_ids (s : cstate) : list id := flat_map node_ids (cs_nodes s).
Definition IdsOK (n : nat) (l : list id) : Prop := NoDup l /\ Forall (below fresh n) l.
Record StOK (s : cstate) : Prop := {
  st_nodes : Forall (NodeOK fresh GP (cs_next s) (uuids s)) (cs_nodes s);
  st_ids : IdsOK (cs_next s) (all_ids s) }.

(* one step of identifier accounting inside a larger list *)
Lemma IdsOK_step n n' a b old new :
  n <= n' -> IdsOK n (a ++ old ++ b) -> IdStep fresh n n' old new -> IdsOK n' (a ++ new ++ b).
Proof.
  intros Hle [Hnd Hb] (news & kept & dropped & Hf & Pn & Po).
  assert (P1 : Permutation (a ++ old ++ b) (dropped ++ kept ++ a ++ b)).
  { rewrite Po. rewrite <- app_assoc. rewrite (Permutation_app_swap_app a). apply Permutation_app_head.
    apply (Permutation_app_swap_app a kept b). }
  assert (P2 : Permutation (a ++ new ++ b) (news ++ kept ++ a ++ b)).
  { rewrite Pn. rewrite <- app_assoc. rewrite (Permutation_app_swap_app a). apply Permutation_app_head.
    apply (Permutation_app_swap_app a kept b). }
  assert (Hnd1 : NoDup (kept ++ a ++ b)) by (eapply NoDup_app_r, Permutation_NoDup; [exact P1|exact Hnd]).
  assert (Hb1 : Forall (below fresh n) (kept ++ a ++ b)).
  { eapply Permutation_Forall in Hb; [|exact P1]. apply Forall_app in Hb as [_ Hb]. exact Hb. }
  split.
  - eapply Permutation_NoDup; [apply Permutation_sym, P2|]. apply NoDup_app_intro; [apply Hf|exact Hnd1|].
    intros x Hx Hin. rewrite Forall_forall in Hb1. exact (FreshList_not_below fresh fresh_inj _ _ _ _ Hf (Hb1 _ Hin) Hx).
  - eapply Permutation_Forall; [apply Permutation_sym, P2|]. apply Forall_app. split.
    + apply (FreshList_below fresh _ _ _ Hf).
    + eapply Forall_below_mono; [exact Hle|exact Hb1].
Qed.

(* node k belongs to the (leaf) group g *)
Definition InGroup (gs : list cgroup) (g k : nat) : Prop :=
  match nth_error gs g with
  | Some (CGRow a b _) => k = a \/ In k b
  | Some (CGNoOp _ r) => r = Some k
  | _ => False
  end.

Record ext (s s' : cstate) : Prop := {
  ext_next : cs_next s <= cs_next s';
  ext_uuids : exists extra, uuids s' = uuids s ++ extra;
  ext_glen : length (cs_groups s') = length (cs_groups s);
  ext_blocks : forall g ms, nth_error (cs_groups s) g = Some (CGBlock ms) -> nth_error (cs_groups s') g = Some (CGBlock ms);
  ext_leaf : forall g k, InGroup (cs_groups s) g k -> InGroup (cs_groups s') g k;
  ext_new : forall k, length (cs_nodes s) <= k -> k < length (cs_nodes s') -> exists g, InGroup (cs_groups s') g k;
  ext_rowmap : cs_rowmap s' = cs_rowmap s;
  ext_names : cs_names s' = cs_names s;
  ext_stack : cs_stack s' = cs_stack s;
  ext_heads : cs_heads s' = cs_heads s }.

Lemma ext_refl s : ext s s.
Proof.
  constructor; try reflexivity; auto.
  - exists []. rewrite app_nil_r. reflexivity.
  - intros k H1 H2. lia.
Qed.

Lemma ext_len s s' : ext s s' -> length (cs_nodes s) <= length (cs_nodes s').
Proof.
  intros [_ (extra & E) _ _ _ _ _ _ _ _]. unfold uuids in E.
  assert (H : length (map cn_uuid (cs_nodes s')) = length (map cn_uuid (cs_nodes s) ++ extra)) by (rewrite E; reflexivity).
  rewrite app_length, !map_length in H. lia.
Qed.

Lemma ext_trans a b c : ext a b -> ext b c -> ext a c.
Proof.
  intros Hab Hbc. assert (L1 := ext_len _ _ Hab). assert (L2 := ext_len _ _ Hbc).
  destruct Hab as [A1 (xa & A2) A3 A4 A5 A6 A7 A8 A9 A10]. destruct Hbc as [B1 (xb & B2) B3 B4 B5 B6 B7 B8 B9 B10].
  constructor; try congruence; try lia.
  - exists (xa ++ xb). rewrite B2, A2, app_assoc. reflexivity.
  - intros g ms H. apply B4, A4, H.
  - intros g k H. apply B5, A5, H.
  - intros k H1 H2. destruct (Nat.lt_ge_cases k (length (cs_nodes b))) as [Hlt|Hge].
    + destruct (A6 k H1 Hlt) as (g & Hg). exists g. apply B5, Hg.
    + apply B6; assumption.
Qed.

Lemma ext_incl s s' : ext s s' -> incl (uuids s) (uuids s').
Proof. intros [_ (extra & E) _ _ _ _ _ _ _ _]. rewrite E. apply incl_appl, incl_refl. Qed.

Lemma ext_dest_ok s s' d : ext s s' -> dest_ok (uuids s) d -> dest_ok (uuids s') d.
Proof. intros H. apply dest_ok_mono, ext_incl, H. Qed.

Lemma StOK_nth s k nd : StOK s -> nth_error (cs_nodes s) k = Some nd -> NodeOK fresh GP (cs_next s) (uuids s) nd.
Proof. intros [H _] E. rewrite Forall_forall in H. apply H. eapply nth_error_In, E. Qed.

Lemma StOK_switch s k nd cls r :
  StOK s -> nth_error (cs_nodes s) k = Some nd -> cn_body nd = BSwitch cls r -> SwOK fresh (cs_next s) (uuids s) r.
Proof. intros H E Eb. destruct (StOK_nth _ _ _ H E) as [_ _ Hb _]. rewrite Eb in Hb. inversion Hb; subst. assumption. Qed.

Lemma StOK_random s k nd r :
  StOK s -> nth_error (cs_nodes s) k = Some nd -> cn_body nd = BRandom r -> CatsOK fresh (cs_next s) (uuids s) (rr_cats r).
Proof. intros H E Eb. destruct (StOK_nth _ _ _ H E) as [_ _ Hb _]. rewrite Eb in Hb. inversion Hb; subst. assumption. Qed.

Lemma StOK_basic s k nd e :
  StOK s -> nth_error (cs_nodes s) k = Some nd -> cn_body nd = BBasic e -> dest_ok (uuids s) (x_dest e).
Proof. intros H E Eb. destruct (StOK_nth _ _ _ H E) as [_ _ Hb _]. rewrite Eb in Hb. inversion Hb; subst. assumption. Qed.

(* replacing a node by one with the same uuid *)
Lemma set_node_ok s k nd nd' n' :
  StOK s -> nth_error (cs_nodes s) k = Some nd -> cn_uuid nd' = cn_uuid nd -> cs_next s <= n' ->
  NodeOK fresh GP n' (uuids s) nd' -> IdStep fresh (cs_next s) n' (node_ids nd) (node_ids nd') ->
  StOK (set_node s k nd' n') /\ ext s (set_node s k nd' n').
Proof.
  intros [Hst Hids] E Hu Hle Hok Hstep.
  assert (EU : uuids (set_node s k nd' n') = uuids s).
  { unfold uuids, set_node. cbn. eapply update_map_same; eauto. }
  split.
  - constructor.
    + rewrite EU. cbn. apply update_Forall; [|exact Hok].
      eapply Forall_impl; [|exact Hst]. intros x. apply NodeOK_mono; [exact Hle|apply incl_refl].
    + unfold all_ids in *. cbn. destruct (flat_map_update_split node_ids _ _ _ E) as [E1 E2].
      rewrite E2. rewrite E1 in Hids. eapply IdsOK_step; eauto.
  - constructor; cbn; try reflexivity; auto.
    + exists []. rewrite app_nil_r. exact EU.
    + intros j H1 H2. rewrite update_length in H2. lia.
Qed.

(* replacing node k and appending a node: the implicit router after a basic node *)
Lemma set_push_StOK s k nd nd1 nn n' :
  StOK s -> nth_error (cs_nodes s) k = Some nd -> cn_uuid nd1 = cn_uuid nd -> cs_next s <= n' ->
  NodeOK fresh GP n' (uuids s ++ [cn_uuid nn]) nd1 -> NodeOK fresh GP n' (uuids s ++ [cn_uuid nn]) nn ->
  IdStep fresh (cs_next s) n' (node_ids nd) (node_ids nd1 ++ node_ids nn) ->
  StOK (push_node (set_node s k nd1 n') nn n').
Proof.
  intros [Hst Hids] E Hu Hle H1 H2 Hstep. constructor.
  - unfold uuids, push_node, set_node. cbn.
    rewrite map_app. cbn. erewrite update_map_same by eauto.
    apply Forall_app. split; [|constructor; [exact H2|constructor]].
    apply update_Forall; [|exact H1]. eapply Forall_impl; [|exact Hst].
    intros x. apply NodeOK_mono; [exact Hle|apply incl_appl, incl_refl].
  - unfold all_ids in *. cbn. rewrite flat_map_app. cbn. rewrite app_nil_r.
    destruct (flat_map_update_split node_ids _ _ _ E) as [E1 E2]. rewrite E2. rewrite E1 in Hids.
    pose proof (IdsOK_step _ n' _ _ _ _ Hle Hids Hstep) as [Hn Hb]. split.
    + eapply Permutation_NoDup; [|exact Hn]. rewrite <- !app_assoc. apply Permutation_app_head. apply Permutation_app_head.
      apply Permutation_app_comm.
    + eapply Permutation_Forall; [|exact Hb]. rewrite <- !app_assoc. apply Permutation_app_head. apply Permutation_app_head.
      apply Permutation_app_comm.
Qed.

Lemma push_StOK s nn n' :
  StOK s -> cs_next s <= n' -> NodeOK fresh GP n' (uuids s ++ [cn_uuid nn]) nn ->
  FreshList fresh (cs_next s) n' (node_ids nn) -> StOK (push_node s nn n').
Proof.
  intros [Hst Hids] Hle H2 Hf. constructor.
  - unfold uuids, push_node. cbn. rewrite map_app. cbn.
    apply Forall_app. split; [|constructor; [exact H2|constructor]].
    eapply Forall_impl; [|exact Hst]. intros x. apply NodeOK_mono; [exact Hle|apply incl_appl, incl_refl].
  - unfold all_ids in *. cbn. rewrite flat_map_app. cbn. rewrite app_nil_r.
    assert (H0 : IdsOK (cs_next s) (flat_map node_ids (cs_nodes s) ++ [] ++ [])) by (rewrite !app_nil_r; exact Hids).
    apply (IdsOK_step _ n' _ _ [] (node_ids nn) Hle) in H0; [rewrite app_nil_r in H0; exact H0|].
    apply (IdStep_gain fresh _ _ (node_ids nn)); [exact Hf|rewrite app_nil_r; apply Permutation_refl].
Qed.

Lemma StOK_set_cgroup s g x : StOK s -> StOK (set_cgroup s g x).
Proof. intros [H1 H2]. constructor; [exact H1|exact H2]. Qed.

(* ---------------------------------------------------------------- folds *)
Lemma foldM_ext {X} (f : cstate -> X -> res cstate) l : forall s s',
  (forall a x b, StOK a -> ext s a -> In x l -> f a x = Ok b -> StOK b /\ ext a b) ->
  StOK s -> foldM f l s = Ok s' -> StOK s' /\ ext s s'.
Proof.
  induction l as [|x r IH]; intros s s' Hstep Hst; cbn.
  - intros H. injection H as <-. split; [exact Hst|apply ext_refl].
  - destruct (f s x) as [s1|e] eqn:E; [|discriminate]. intros H.
    destruct (Hstep s x s1 Hst (ext_refl s) (or_introl eq_refl) E) as [Hst1 Hext1].
    destruct (IH s1 s') as [Hst' Hext']; [|exact Hst1|exact H|].
    + intros a y b Ha Hea Hy. apply Hstep; [exact Ha|eapply ext_trans; eauto|right; exact Hy].
    + split; [exact Hst'|eapply ext_trans; eauto].
Qed.

(* ---------------------------------------------------------------- connect_loose_exits *)
Lemma fill_node_at_ok s k d s' :
  StOK s -> dest_ok (uuids s) d -> fill_node_at s k d = Ok s' -> StOK s' /\ ext s s'.
Proof.
  intros Hst Hd. unfold fill_node_at. destruct (nth_error (cs_nodes s) k) as [nd|] eqn:E; [|discriminate].
  intros H. injection H as <-. eapply set_node_ok; eauto.
  - apply node_fill_loose_ok; [eapply StOK_nth; eauto|exact Hd].
  - rewrite node_fill_loose_ids. apply IdStep_eq.
Qed.

Lemma cconnect_loose_ok fuel : forall s g d s',
  StOK s -> dest_ok (uuids s) d -> cconnect_loose fuel s g d = Ok s' -> StOK s' /\ ext s s'.
Proof.
  induction fuel as [|f IH]; intros s g d s' Hst Hd; cbn; [discriminate|].
  destruct (nth_error (cs_groups s) g) as [[k1 k2 rt|ps [k|]|ms]|]; try discriminate.
  - apply fill_node_at_ok; assumption.
  - apply fill_node_at_ok; assumption.
  - apply foldM_ext; [|exact Hst]. intros a x b Ha Hea _. apply IH; [exact Ha|eapply ext_dest_ok; eauto].
  - apply foldM_ext; [|exact Hst]. intros a x b Ha Hea _. apply IH; [exact Ha|eapply ext_dest_ok; eauto].
Qed.

(* ---------------------------------------------------------------- RowNodeGroup.add_exit *)
Lemma set_body_ok s k nd b n' :
  StOK s -> nth_error (cs_nodes s) k = Some nd -> cs_next s <= n' -> BodyOK fresh n' (uuids s) b ->
  IdStep fresh (cs_next s) n' (body_ids (cn_body nd)) (body_ids b) ->
  StOK (set_node s k (with_body nd b) n') /\ ext s (set_node s k (with_body nd b) n').
Proof.
  intros Hst E Hle Hb Hs. eapply set_node_ok; eauto.
  - eapply NodeOK_with_body; [exact Hle|eapply StOK_nth; eauto|exact Hb].
  - apply IdStep_body, Hs.
Qed.

(* a step of a switch router, as a step of the body *)
Lemma IdStep_switch n n' nd cls r r' news :
  cn_body nd = BSwitch cls r -> FreshList fresh n n' news -> Permutation (sw_ids r') (news ++ sw_ids r) ->
  IdStep fresh n n' (body_ids (cn_body nd)) (body_ids (BSwitch cls r')).
Proof. intros Eb Hf Hp. rewrite Eb. cbn. eapply IdStep_gain; eauto. Qed.

Lemma IdStep_switch_eq n n' nd cls r r' :
  cn_body nd = BSwitch cls r -> sw_ids r' = sw_ids r ->
  IdStep fresh n n' (body_ids (cn_body nd)) (body_ids (BSwitch cls r')).
Proof. intros Eb E. rewrite Eb. cbn. rewrite E. apply IdStep_eq. Qed.

Lemma InGroup_update_other gs g x g0 k : g0 <> g -> InGroup (update gs g x) g0 k <-> InGroup gs g0 k.
Proof. intros H. unfold InGroup. rewrite update_nth_other by exact H. reflexivity. Qed.

Lemma grow_row_ext s k nd nd1 nn n' g k1 k2 rt :
  nth_error (cs_nodes s) k = Some nd -> cn_uuid nd1 = cn_uuid nd -> cs_next s <= n' ->
  nth_error (cs_groups s) g = Some (CGRow k1 k2 rt) ->
  ext s (set_cgroup (push_node (set_node s k nd1 n') nn n') g (CGRow k1 (k2 ++ [length (cs_nodes s)]) rt)).
Proof.
  intros E Hu Hle Hg. constructor; cbn; try reflexivity; auto.
  - exists [cn_uuid nn]. unfold uuids. cbn. rewrite map_app. cbn. erewrite update_map_same by eauto. reflexivity.
  - apply update_length.
  - intros g0 ms H. destruct (Nat.eq_dec g0 g) as [->|Hne]; [congruence|]. rewrite update_nth_other by exact Hne. exact H.
  - intros g0 j H. destruct (Nat.eq_dec g0 g) as [->|Hne].
    + unfold InGroup in *. rewrite Hg in H. erewrite update_nth_same by eauto.
      destruct H as [H|H]; [left; exact H|right; apply in_or_app; left; exact H].
    + apply InGroup_update_other; assumption.
  - intros j H1 H2. rewrite app_length, update_length in H2. cbn in H2. exists g.
    unfold InGroup. erewrite update_nth_same by eauto. right. apply in_or_app. right. left. lia.
Qed.

Lemma grow_noop_ext s nn n' g ps :
  cs_next s <= n' -> nth_error (cs_groups s) g = Some (CGNoOp ps None) ->
  ext s (set_cgroup (push_node s nn n') g (CGNoOp ps (Some (length (cs_nodes s))))).
Proof.
  intros Hle Hg. constructor; cbn; try reflexivity; auto.
  - exists [cn_uuid nn]. unfold uuids. cbn. rewrite map_app. reflexivity.
  - apply update_length.
  - intros g0 ms H. destruct (Nat.eq_dec g0 g) as [->|Hne]; [congruence|]. rewrite update_nth_other by exact Hne. exact H.
  - intros g0 j H. destruct (Nat.eq_dec g0 g) as [->|Hne].
    + unfold InGroup in H. rewrite Hg in H. discriminate.
    + apply InGroup_update_other; assumption.
  - intros j H1 H2. rewrite app_length in H2. cbn in H2. exists g.
    unfold InGroup. erewrite update_nth_same by eauto. f_equal. lia.
Qed.

Lemma row_add_exit_ok s g k1 k2 rt d c s' :
  StOK s -> dest_ok (uuids s) d -> nth_error (cs_groups s) g = Some (CGRow k1 k2 rt) ->
  row_add_exit fresh s g k1 k2 rt d c = Ok s' -> StOK s' /\ ext s s'.
Proof.
  intros Hst Hd Hg. unfold row_add_exit.
  destruct (nth_error (cs_nodes s) (row_exit_node k1 k2)) as [nd|] eqn:E; [|discriminate].
  destruct (cond_blank c && negb _).
  { destruct (node_update_default fresh (cs_next s) nd d) as [[nd' n1]|e] eqn:Eu; [|discriminate].
    intros H. injection H as <-.
    pose proof (node_update_default_ids fresh _ _ _ _ _ Eu) as (_ & Hstep).
    eapply (node_update_default_ok fresh GP) in Eu as (H1 & H2 & H3); [|eapply StOK_nth; eauto|exact Hd].
    eapply set_node_ok; eauto. }
  destruct (cn_body nd) as [e|cls r|r] eqn:Eb.
  - (* basic node: the implicit router *)
    destruct rt; try discriminate.
    destruct (new_switch_parts fresh (cs_next s) [] _ None _) as [[[[u gv] r0] n1]|e'] eqn:Ep; [|discriminate].
    pose (U' := uuids s ++ [u]).
    pose proof (new_switch_parts_ids fresh fresh_inj _ _ _ _ _ _ _ _ _ Ep) as (_ & Fp).
    destruct (new_switch_parts_ok fresh fresh_inj _ U' _ _ _ _ _ _ _ _ Ep) as (P1 & P2 & P3 & _ & P5).
    cbn [new_exit].
    destruct (sw_add_choice fresh (S n1) _ _ _ _ _ _ _) as [[r2 n3]|e''] eqn:Ea; [|discriminate].
    pose proof (sw_add_choice_ids fresh fresh_inj _ _ _ _ _ _ _ _ _ _ Ea) as (_ & news & Fa & Pa).
    rewrite sw_ids_update_default in Pa.
    assert (HdU : dest_ok U' d) by (eapply dest_ok_mono; [|exact Hd]; apply incl_appl, incl_refl).
    apply (sw_add_choice_ok fresh fresh_inj _ U') in Ea; [| |exact HdU].
    2:{ apply SwOK_update_default.
        - eapply dest_ok_mono; [|eapply StOK_basic; eauto]. apply incl_appl, incl_refl.
        - eapply SwOK_mono; [| |exact P3]; [lia|apply incl_refl]. }
    destruct Ea as (A1 & A2). intros H. injection H as <-. split.
    + apply StOK_set_cgroup. apply (set_push_StOK s _ nd); [exact Hst|exact E|reflexivity|lia| | |].
      * cbn [cn_uuid]. apply NodeOK_with_body with (n := cs_next s); [lia| |].
        -- eapply NodeOK_mono; [| |eapply StOK_nth; eauto]; [lia|apply incl_appl, incl_refl].
        -- constructor; cbn; [apply below_fresh; lia|right; apply in_or_app; right; left; reflexivity].
      * cbn [cn_uuid]. constructor; cbn.
        -- intros Hgv. eapply below_mono; [|apply P2, Hgv]. lia.
        -- constructor.
        -- constructor. exact A2.
        -- intros Hgv. rewrite (P5 eq_refl) in Hgv. discriminate.
      * (* the old exit uuid is dropped; the new exit, the router's uuid and its identifiers are draws *)
        unfold node_ids at 2 3. unfold uuid_ids. cbn [cn_given cn_uuid cn_actions cn_body with_body body_ids map].
        unfold node_ids, uuid_ids. rewrite Eb. cbn [body_ids].
        exists ([fresh n1] ++ ((if gv then [] else [u]) ++ sw_ids r0) ++ news),
               ((if cn_given nd then [] else [cn_uuid nd]) ++ map fst (cn_actions nd)), [x_uuid e].
        split; [|split].
        -- apply (FreshList_perm fresh _ _ (((if gv then [] else [u]) ++ sw_ids r0) ++ [fresh n1] ++ news)).
           ++ rewrite app_assoc. rewrite (Permutation_app_comm _ [fresh n1]). rewrite <- app_assoc. apply Permutation_refl.
           ++ apply (FreshList_app fresh fresh_inj _ n1 _); [lia|lia|exact Fp|].
              apply (FreshList_app fresh fresh_inj _ (S n1) _); [lia|lia|apply FreshList_one; lia|exact Fa].
        -- rewrite Pa. cbn [app]. rewrite <- !app_assoc.
           set (X := (if cn_given nd then [] else [cn_uuid nd])). set (Y := map fst (cn_actions nd)).
           set (Z := (if gv then [] else [u])).
           (* X ++ Y ++ [f] ++ Z ++ news ++ ids0   ~   f :: Z ++ ids0 ++ news ++ X ++ Y *)
           apply (Permutation_trans (l' := (X ++ Y) ++ ([fresh n1] ++ Z ++ news ++ sw_ids r0))).
           ++ rewrite <- !app_assoc. apply Permutation_refl.
           ++ rewrite (Permutation_app_comm (X ++ Y)). cbn [app]. apply perm_skip. rewrite <- !app_assoc.
              apply Permutation_app_head. rewrite !app_assoc. apply Permutation_app_tail. apply Permutation_app_tail.
              apply Permutation_app_comm.
        -- rewrite (Permutation_app_comm [x_uuid e]). rewrite <- !app_assoc. apply Permutation_refl.
    + eapply grow_row_ext; eauto. lia.
  - destruct cls.
    + (* SwitchRouterNode *)
      destruct (str_eqb (lower (c_value c)) s_no_response).
      * destruct (sw_wait r) eqn:Ew; intros H; injection H as <-; try (split; [exact Hst|apply ext_refl]).
        eapply set_body_ok; eauto.
        -- constructor. apply SwOK_update_noresp; [exact Hd|eapply StOK_switch; eauto].
        -- eapply IdStep_switch_eq; eauto. apply sw_ids_update_noresp.
      * destruct (sw_add_choice fresh (cs_next s) r _ _ _ _ _ _) as [[r' n1]|e] eqn:Ea; [|discriminate].
        pose proof (sw_add_choice_ids fresh fresh_inj _ _ _ _ _ _ _ _ _ _ Ea) as (_ & news & Fa & Pa).
        apply (sw_add_choice_ok fresh fresh_inj _ (uuids s)) in Ea as (A1 & A2); [|eapply StOK_switch; eauto|exact Hd].
        intros H. injection H as <-. eapply set_body_ok; eauto; [constructor; exact A2|eapply IdStep_switch; eauto].
    + (* EnterFlowNode *)
      destruct (str_eqb _ s_complete || str_eqb _ s_completed).
      * destruct (existsb _ _); [|discriminate]. intros H. injection H as <-.
        eapply set_body_ok; eauto.
        -- constructor. apply SwOK_set_dest; [exact Hd|eapply StOK_switch; eauto].
        -- eapply IdStep_switch_eq; eauto. apply sw_ids_upd_cat. reflexivity.
      * destruct (str_eqb _ s_expired); intros H; injection H as <-; [|split; [exact Hst|apply ext_refl]].
        eapply set_body_ok; eauto.
        -- constructor. apply SwOK_update_default; [exact Hd|eapply StOK_switch; eauto].
        -- eapply IdStep_switch_eq; eauto. apply sw_ids_update_default.
    + (* CallWebhookNode / TransferAirtimeNode *)
      destruct (str_eqb _ s_success).
      * destruct (existsb _ _); [|discriminate]. intros H. injection H as <-.
        eapply set_body_ok; eauto.
        -- constructor. apply SwOK_set_dest; [exact Hd|eapply StOK_switch; eauto].
        -- eapply IdStep_switch_eq; eauto. apply sw_ids_upd_cat. reflexivity.
      * destruct (str_eqb _ s_failure); intros H; injection H as <-; [|split; [exact Hst|apply ext_refl]].
        eapply set_body_ok; eauto.
        -- constructor. apply SwOK_update_default; [exact Hd|eapply StOK_switch; eauto].
        -- eapply IdStep_switch_eq; eauto. apply sw_ids_update_default.
  - destruct (rr_add_choice fresh (cs_next s) r _ d) as [[r' n1]|e] eqn:Ea; [|discriminate].
    pose proof (rr_add_choice_ids fresh fresh_inj _ _ _ _ _ _ Ea) as (_ & news & Fa & Pa).
    apply (rr_add_choice_ok fresh fresh_inj _ (uuids s)) in Ea as (A1 & A2); [|eapply StOK_random; eauto|exact Hd].
    intros H. injection H as <-. eapply set_body_ok; eauto; [constructor; exact A2|].
    rewrite Eb. cbn. eapply IdStep_gain; eauto.
Qed.

Lemma noop_router_edge_ok s k d c s' :
  StOK s -> dest_ok (uuids s) d -> noop_router_edge fresh s k d c = Ok s' -> StOK s' /\ ext s s'.
Proof.
  intros Hst Hd. unfold noop_router_edge.
  destruct (nth_error (cs_nodes s) k) as [nd|] eqn:E; [|discriminate].
  destruct (cn_body nd) as [e|cls r|r] eqn:Eb; try discriminate.
  destruct (negb (nonempty (c_value c)) && negb (memb (c_type c) no_args_tests)).
  - intros H. injection H as <-. eapply set_body_ok; eauto.
    + constructor. apply SwOK_update_default; [exact Hd|eapply StOK_switch; eauto].
    + eapply IdStep_switch_eq; eauto. apply sw_ids_update_default.
  - destruct (sw_add_choice fresh (cs_next s) r _ _ _ _ _ _) as [[r' n1]|e] eqn:Ea; [|discriminate].
    pose proof (sw_add_choice_ids fresh fresh_inj _ _ _ _ _ _ _ _ _ _ Ea) as (_ & news & Fa & Pa).
    apply (sw_add_choice_ok fresh fresh_inj _ (uuids s)) in Ea as (A1 & A2); [|eapply StOK_switch; eauto|exact Hd].
    intros H. injection H as <-. eapply set_body_ok; eauto; [constructor; exact A2|eapply IdStep_switch; eauto].
Qed.

(* ---------------------------------------------------------------- add_exit *)
Lemma cadd_exit_ok fuel : forall s g d c s',
  StOK s -> dest_ok (uuids s) d -> cadd_exit fresh fuel s g d c = Ok s' -> StOK s' /\ ext s s'.
Proof.
  induction fuel as [|f IH]; intros s g d c s' Hst Hd; cbn [cadd_exit]; [discriminate|].
  destruct (nth_error (cs_groups s) g) as [[k1 k2 rt|ps [k|]|ms]|] eqn:Hg; try discriminate.
  - apply row_add_exit_ok; assumption.
  - apply noop_router_edge_ok; assumption.
  - destruct (cond_blank c).
    + apply foldM_ext; [|exact Hst]. intros a x b Ha Hea _. apply IH; [exact Ha|eapply ext_dest_ok; eauto].
    + destruct (c_variable c) as [|v0 v] eqn:Ev; [discriminate|].
      destruct (new_switch_node fresh (cs_next s) [] (v0 :: v) None None) as [[nn n1]|e] eqn:En; [|discriminate].
      pose proof (new_switch_node_ids fresh fresh_inj _ _ _ _ _ _ _ En) as (_ & Fn).
      apply (new_switch_node_ok fresh GP fresh_inj _ (uuids s ++ [cn_uuid nn])) in En as (N1 & N2 & _); [|intros Hne; contradiction].
      set (s1 := set_cgroup (push_node s nn n1) g (CGNoOp ps (Some (length (cs_nodes s))))).
      assert (Hst1 : StOK s1) by (apply StOK_set_cgroup; apply (push_StOK s nn n1); assumption).
      assert (Hext1 : ext s s1) by (apply grow_noop_ext; assumption).
      destruct (foldM _ ps s1) as [s2|e] eqn:Ef; [|discriminate].
      apply foldM_ext in Ef as [Hst2 Hext2]; [| |exact Hst1].
      2:{ intros a x b Ha Hea _. apply IH; [exact Ha|].
          eapply ext_dest_ok; [exact Hea|]. right. unfold s1, uuids. cbn. rewrite map_app. apply in_or_app. right. left. reflexivity. }
      intros H. apply noop_router_edge_ok in H as [Hst3 Hext3]; [|exact Hst2|].
      * split; [exact Hst3|]. eapply ext_trans; [exact Hext1|]. eapply ext_trans; eauto.
      * eapply ext_dest_ok; [|exact Hd]. eapply ext_trans; eauto.
  - destruct (negb (cond_blank c)); [discriminate|]. destruct (negb (chas_loose f s g)); [discriminate|].
    apply foldM_ext; [|exact Hst]. intros a x b Ha Hea _. destruct (chas_loose f a x).
    + apply cconnect_loose_ok; [exact Ha|eapply ext_dest_ok; eauto].
    + intros H. injection H as <-. split; [exact Ha|apply ext_refl].
Qed.
End Inv.
