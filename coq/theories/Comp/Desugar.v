(* E7 — the DESUGARING of a block-structured sheet of the block-mechanics model (Comp/Blocks.v),
   DESIGN Appendix B rules 1-2, as a function from the flat row list the parser reads to a flat
   row list, and the compile-relevant projection of the parser's event stream.

   desugar pol c rows
     * a row whose include_if is false disappears (its other cells are never looked at);
     * a begin_for / begin_block whose include_if is false disappears with everything up to its
       matching terminator (nothing in between is looked at except the row types);
     * begin_block ... end_block stays, the cells of its head rendered;
     * begin_for (id L, variables x[;i], list [e0..e(n-1)]) ... end_for becomes
         begin_block (id L rendered) . body{x:=e0,i:=0} . ... . body{x:=e(n-1),i:=n-1} . end_block
       where body{..} is the desugaring of the loop body in the context EXTENDED with the loop
       (and index) variable — lexical scope: the continuation after end_for is desugared in the
       context the loop was reached with; zero elements give an empty block;
     * every cell of the result is a literal: no begin_for, no include_if, no {{reference}}.
   The function reads the row list as a recursive-descent parser does: `ds` is given the rows that
   are still to be read and returns the desugared items of the current block together with the
   rows that follow the block's terminator; a loop body is desugared once per element from the
   SAME remaining rows (no cursor, no bookmark, no mutation of the context).  Errors are those of
   the parser (wrong/missing terminator, no loop variable, undefined name under the Strict policy,
   undefined loop list), met in reading order.  Fuel bounds the number of rows read in a chain.

   toks / shape: what FlowParser builds from the event stream: a plain row goes to _parse_row, a
   begin_for / begin_block that is not skipped pushes a NodeGroup (EvPush), the end of the block
   pops it and registers it under the head's row id (EvEnd).  EvInst (templating bookkeeping) and
   EvEnter (entries of _parse_block: one per loop iteration, one per skipped block) are dropped.
   Definitions only. *)
From Coq Require Import List NArith Bool Arith.
From RPFT Require Import Base.Sexp Base.PyStr Gen.Tables Comp.Blocks.
Import ListNotations.

(* ---------------------------------------------------------------- literal rows *)
Definition lit_row (k : rkind) (id text : str) : raw := mkRaw k IncTrue [Lit id] [Lit text] [] (ILit []).
Definition end_row : raw := mkRaw KEndBlock IncTrue [] [] [] (ILit []).

(* the index variable named by a loop_variable cell `x;i` (blank = none) *)
Definition idx_of (rest : list str) : option str :=
  match rest with i :: _ => match i with [] => None | _ => Some i end | [] => None end.

Section Ds.
Variable pol : undefined_policy.

(* the body once per element, in order; [rem0] = what follows when there is no element *)
Fixpoint ds_iter (body : ctx -> res (list raw * list raw)) (c : ctx) (x : str) (idx : option str)
         (elems : list str) (n : nat) (rem0 : list raw) : res (list raw * list raw) :=
  match elems with
  | [] => ROk ([], rem0)
  | e :: more =>
    match body (bind_loop c x idx e n) with
    | RErr er => RErr er
    | ROk (out1, rem1) =>
      match ds_iter body c x idx more (S n) rem1 with
      | RErr er => RErr er
      | ROk (out2, rem2) => ROk (out1 ++ out2, rem2)
      end
    end
  end.

(* the items of the block of type [bt] that starts at [rest] (without its terminator), and the
   rows after the terminator; [omit] = the block is being skipped (nothing is rendered or produced) *)
Fixpoint ds (fuel : nat) (rest : list raw) (c : ctx) (bt : btype) (omit : bool) : res (list raw * list raw) :=
  match fuel with
  | O => RErr OutOfFuel
  | S f =>
    match rest with
    | [] => match end_of_block bt None with
            | RErr e => RErr e
            | ROk _ => ROk ([], [])
            end
    | r :: rest1 =>
      match (if omit then ROk (mkI (rw_kind r) true [] [] [] []) else instantiate pol c r) with
      | RErr e => RErr e
      | ROk row =>
        match end_of_block bt (Some (i_kind row)) with
        | RErr e => RErr e
        | ROk true => ROk ([], rest1)
        | ROk false =>
          if omit || negb (i_inc row) then
            match i_kind row with
            | KBeginFor => match ds f rest1 c BFor true with
                           | ROk (_, rest2) => ds f rest2 c bt omit
                           | RErr e => RErr e
                           end
            | KBeginBlock => match ds f rest1 c BBlock true with
                             | ROk (_, rest2) => ds f rest2 c bt omit
                             | RErr e => RErr e
                             end
            | _ => ds f rest1 c bt omit
            end
          else
            match i_kind row with
            | KBeginFor =>
              match i_vars row with
              | [] | [] :: _ => RErr NoLoopVar
              | x :: more =>
                match ds_iter (fun c' => ds f rest1 c' BFor false) c x (idx_of more) (i_iter row) O rest1 with
                | RErr e => RErr e
                | ROk (bodies, rest2) =>
                  match (match i_iter row with
                         | [] => ds f rest1 c BFor true          (* nothing to repeat: find the end_for *)
                         | _ => ROk ([], rest2)
                         end) with
                  | RErr e => RErr e
                  | ROk (_, rest3) =>
                    match ds f rest3 c bt omit with
                    | RErr e => RErr e
                    | ROk (out, rem) =>
                      ROk (lit_row KBeginBlock (i_id row) (i_text row) :: bodies ++ end_row :: out, rem)
                    end
                  end
                end
              end
            | KBeginBlock =>
              match ds f rest1 c BBlock false with
              | RErr e => RErr e
              | ROk (body, rest2) =>
                match ds f rest2 c bt omit with
                | RErr e => RErr e
                | ROk (out, rem) =>
                  ROk (lit_row KBeginBlock (i_id row) (i_text row) :: body ++ end_row :: out, rem)
                end
              end
            | _ =>
              match ds f rest1 c bt omit with
              | RErr e => RErr e
              | ROk (out, rem) => ROk (lit_row KPlain (i_id row) (i_text row) :: out, rem)
              end
            end
        end
      end
    end
  end.
End Ds.

(* the fuel run_sheet gives the parser for a sheet of this length *)
Definition sheet_fuel (rows : list raw) : nat := S (S (length rows)) * S (length rows) * 8.

Definition desugar (pol : undefined_policy) (c : ctx) (rows : list raw) : res (list raw) :=
  match ds pol (sheet_fuel rows) rows c BRoot false with
  | ROk (out, _) => ROk out
  | RErr e => RErr e
  end.

(* what a desugared sheet may contain: literal plain rows, literal begin_block heads, end_block *)
Definition seg_is_lit (s : seg) : bool := match s with Lit _ => true | Ref _ => false end.
Definition row_is_plain_literal (r : raw) : bool :=
  match rw_kind r with KBeginFor | KEndFor => false | _ => true end
  && match rw_inc r with IncTrue => true | _ => false end
  && forallb seg_is_lit (rw_id r) && forallb seg_is_lit (rw_text r)
  && match rw_vars r with [] => true | _ => false end.

(* ---------------------------------------------------------------- what FlowParser builds from the events *)
Inductive tok := TRow (id text : str) | TPush | TPop (id : str).

Fixpoint toks (l : list event) : list tok :=
  match l with
  | [] => []
  | EvRow i t :: r => TRow i t :: toks r
  | EvPush :: r => TPush :: toks r
  | EvEnd i :: r => TPop i :: toks r
  | _ :: r => toks r
  end.

Inductive item := IRow (id text : str) | IGroup (id : str) (body : list item).

(* the stack of open NodeGroups: [cur] = the children of the innermost open group, newest first *)
Fixpoint build (ts : list tok) (cur : list item) (stack : list (list item)) : option (list item) :=
  match ts with
  | [] => match stack with [] => Some (rev cur) | _ => None end
  | TRow i t :: r => build r (IRow i t :: cur) stack
  | TPush :: r => build r [] (cur :: stack)
  | TPop i :: r => match stack with
                   | [] => None
                   | par :: st => build r (IGroup i (rev cur) :: par) st
                   end
  end.

(* [log] in the order the events happened *)
Definition shape (log : list event) : option (list item) := build (toks log) [] [].

(* ---------------------------------------------------------------- vocabulary of the laws of ds (Comp/DesugarFacts.v) *)
Section Vocabulary.
Variable pol : undefined_policy.

(* two readings with omit agree: nothing produced, the same rows (by type) left *)
Definition same_skip (a b : res (list raw * list raw)) : Prop :=
  match a, b with
  | ROk (o, rem), ROk (o', rem') => o = [] /\ o' = [] /\ map rw_kind rem = map rw_kind rem'
  | RErr e, RErr e' => e = e'
  | _, _ => False
  end.


(* the row [r], read in context [c], is the head of a loop that is not skipped, over variable [x] *)
Definition loop_head (c : ctx) (r : raw) (row : irow) (x : str) (more : list str) : Prop :=
  instantiate pol c r = ROk row /\ i_kind row = KBeginFor /\ i_inc row = true
  /\ i_vars row = x :: more /\ x <> [].

(* [bodies] = the desugared loop body, once per element of [elems], the k-th one in the context
   extended with x := the k-th element (and the index variable := k); [rem] = what follows end_for *)
Definition bodies_of (f : nat) (rest : list raw) (c : ctx) (x : str) (idx : option str) (elems : list str)
           (bodies : list (list raw)) (rem : list raw) : Prop :=
  length bodies = length elems
  /\ forall k e, nth_error elems k = Some e ->
       exists b, nth_error bodies k = Some b /\ ds pol f rest (bind_loop c x idx e k) BFor false = ROk (b, rem).

Definition nested_bodies_of (f : nat) (r2 : raw) (rest : list raw) (c : ctx) (x : str) (idx : option str) (elems : list str)
           (y : str) (more2 : list str)
           (heads : list irow) (inner : list (list (list raw))) (tails : list (list raw)) (rem : list raw) : Prop :=
  length heads = length elems /\ length inner = length elems /\ length tails = length elems
  /\ forall k e, nth_error elems k = Some e ->
       let ck := bind_loop c x idx e k in
       exists row2 Bk tail rem2,
         nth_error heads k = Some row2 /\ nth_error inner k = Some Bk /\ nth_error tails k = Some tail
         /\ loop_head ck r2 row2 y more2 /\ i_iter row2 <> []
         /\ bodies_of f rest ck y (idx_of more2) (i_iter row2) Bk rem2
         /\ ds pol f rem2 ck BFor false = ROk (tail, rem).

Definition nested_block (hbt : irow * (list (list raw) * list raw)) : list raw :=
  lit_row KBeginBlock (i_id (fst hbt)) (i_text (fst hbt)) :: concat (fst (snd hbt)) ++ end_row :: snd (snd hbt).

End Vocabulary.

(* ---------------------------------------------------------------- textual substitution (for the law ds_body_substituted) *)
(* textual substitution of one variable by the value it is bound to *)
Definition value_entries (v : value) : list str :=
  match v with VL l => l | VS s => [s] | VI n => [enc_dec n] end.
Definition sub_seg (x : str) (v : value) (s : seg) : seg :=
  match s with Ref y => if str_eqb y x then Lit (value_str v) else s | Lit _ => s end.
Definition sub_inc (x : str) (v : value) (i : incl) : incl :=
  match i with
  | IncRef y => if str_eqb y x then (if str_eqb (lower (strip (value_str v))) s_false then IncFalse else IncTrue) else i
  | IncCmp y pos w =>
    if str_eqb y x then (if (if pos then value_is_word v w else negb (value_is_word v w)) then IncTrue else IncFalse) else i
  | _ => i
  end.
Definition sub_iter (x : str) (v : value) (it : iterspec) : iterspec :=
  match it with IRef y => if str_eqb y x then ILit (value_entries v) else it | _ => it end.
Definition sub_row (x : str) (v : value) (r : raw) : raw :=
  mkRaw (rw_kind r) (sub_inc x v (rw_inc r)) (map (sub_seg x v) (rw_id r)) (map (sub_seg x v) (rw_text r))
        (rw_vars r) (sub_iter x v (rw_iter r)).

Definition agree_except (x : str) (c1 c2 : ctx) : Prop := forall y, y <> x -> cget c1 y = cget c2 y.
Definition no_rebind (x : str) (r : raw) : Prop := ~ In x (rw_vars r).
Definition map_rem (g : list raw -> list raw) (r : res (list raw * list raw)) : res (list raw * list raw) :=
  match r with ROk (o, rem) => ROk (o, g rem) | RErr e => RErr e end.

(* both loop variables: the index variable first (it is bound last, so it wins when the two names coincide) *)
Definition subst_loop (x : str) (idx : option str) (e : str) (n : nat) (rows : list raw) : list raw :=
  map (sub_row x (VS e)) (match idx with Some i => map (sub_row i (VI n)) rows | None => rows end).

