(* C03 — the arguments of an inserted template, TYPED.  Definitions only.

   FlowParser._parse_insert_as_block_row hands row.template_arguments to
   ContentIndexParser.get_node_group -> _parse_flow -> map_template_arguments_to_context.  The cell of an
   insert_as_block row is instantiated like every other cell of a flow sheet (CellParser.parse): a text template is
   rendered and split into (nested lists of) STRINGS, but a whole-cell native template `{@ ... @}` yields the Python
   OBJECT itself, which RowParser.assign_value stores into the field `template_arguments: list` as `list(value)` when
   it is iterable (and not a str) and as `[value]` otherwise.  So the arguments that reach the binding are arbitrary
   objects: 0, False, None, [], {} among them.  Index/Args.v (C12) models the binding for what a content-index row can
   hold (strings and nested lists of strings, [nv]); here the same function is modelled over the value universe of the
   template engine model (Tmpl/MiniJinja.v: [value]), together with the two steps before it, so that

       insert_context = the context the inserted template's FlowParser is constructed with
                      = dict(data row) + {declared name -> argument | declared default}

   is a function of (declarations, data sheets, data row, inserting context, argument cell).
   As coded:   arg_value = arg if arg != "" else arg_def.default_value   — only the str "" is "blank";
               if arg_value == "": critical "Required template argument ... not provided";
               non_empty_extra_args = [ea for ea in extra_args if ea]   — truthiness, a warning only. *)
From Coq Require Import List NArith ZArith Bool.
From RPFT Require Import Base.Sexp Base.PyStr Base.ODict Base.Result Gen.Tables Cell.Cell Index.Args Tmpl.MiniJinja Tmpl.RowLoop.
Import ListNotations.

(* ---- from the cell's value to the argument list ----
   RowParser.assign_value, model `list`:  list(value) if isinstance(value, Iterable) and type(value) is not str else
   [value]  — the same field type as the list of a begin_for row: Tmpl/RowLoop.v [to_entries] (a parsed text cell gives
   strings / nested lists of strings; a native list or tuple its elements; a dict its keys; any other object, a str
   among them, is the only element). *)

(* ---- the binding, over objects ---- *)

(* arg != "" is False for the str "" only: 0 != "", False != "", None != "", [] != "" are all True *)
Definition is_blank (v : value) : bool :=
  match v with VStr [] => true | _ => false end.

(* Python truthiness of an argument (no Undefined inside): what the "too many arguments" warning looks at *)
Definition falsy (v : value) : bool :=
  match v with
  | VNone => true
  | VBool b => negb b
  | VInt z => Z.eqb z 0
  | VStr s => match s with [] => true | _ => false end
  | VList l | VTuple l => match l with [] => true | _ => false end
  | VDict d => match d with [] => true | _ => false end
  | VRange n => Z.leb n 0
  | VUndef => false
  end.

Definition too_many_warning (n : nat) (args : list value) : bool :=
  existsb (fun a => negb (falsy a)) (skipn n args).

(* args[:len(arg_defs)] + [""] * (len(arg_defs) - len(args)) *)
Definition fit (n : nat) (args : list value) : list value :=
  let a := firstn n args in a ++ repeat (VStr []) (n - length a).

(* arg if arg != "" else arg_def.default_value *)
Definition arg_value (d : argdef) (a : value) : value :=
  if is_blank a then VStr (ad_default d) else a.

(* hash(v) succeeds *)
Fixpoint hashable (v : value) : bool :=
  match v with
  | VList _ | VDict _ | VUndef => false
  | VTuple l => (fix go (l : list value) : bool := match l with [] => true | x :: r => hashable x && go r end) l
  | _ => true
  end.

Inductive berr :=
| BDoubly (name : str)          (* critical: Template argument ... doubly defined *)
| BRequired (name : str)        (* critical: Required template argument ... not provided *)
| BUnknownSheet (key : value)   (* KeyError in self.data_sheets[arg_value] *)
| BUnhashable                   (* TypeError: unhashable type *)
| BCell (e : terr).             (* the argument cell could not be instantiated / is outside the sub-language *)

Definition tctx := ctx.          (* MiniJinja.ctx: list (str * value) *)

(* the rows of a data sheet as an object: {ID: {field: value}} *)
Definition tsheets := list (str * value).

Definition bind_one (sheets : tsheets) (c : tctx) (d : argdef) (a : value) : result berr tctx :=
  if ocontains str_eqb c (ad_name d) then Err (BDoubly (ad_name d))
  else
    let v := arg_value d a in
    if is_blank v then Err (BRequired (ad_name d))
    else if str_eqb (ad_type d) sheet_type_kw then
      match v with
      | VStr s => match oget str_eqb sheets s with
                  | Some rows => Ok (oset str_eqb c (ad_name d) rows)
                  | None => Err (BUnknownSheet v)
                  end
      | _ => if hashable v then Err (BUnknownSheet v) else Err BUnhashable
      end
    else Ok (oset str_eqb c (ad_name d) v).

Fixpoint bind_all (sheets : tsheets) (das : list (argdef * value)) (c : tctx) : result berr tctx :=
  match das with
  | [] => Ok c
  | (d, a) :: r => match bind_one sheets c d a with
                   | Err e => Err e
                   | Ok c' => bind_all sheets r c'
                   end
  end.

(* map_template_arguments_to_context(arg_defs, args, dict(context)) *)
Definition bind_args (sheets : tsheets) (defs : list argdef) (args : list value) (c : tctx) : result berr tctx :=
  bind_all sheets (combine defs (fit (length defs) args)) c.

(* ---- the whole road from the insert row to the inserted template's context ---- *)
Section Insert.
Variables penv pnat : undefined_policy.

(* the argument list of an insert row whose template_arguments cell is [cell] (None: no such column / model default []),
   instantiated in the context [outer] of the INSERTING flow *)
Definition insert_args (outer : tctx) (cell : option cell) : result berr (list value) :=
  match cell with
  | None => Ok []
  | Some c =>
    match parse_m penv pnat (Some outer) c with
    | Err e => Err (BCell e)
    | Ok r => match to_entries pnat r with Err e => Err (BCell e) | Ok l => Ok l end
    end
  end.

(* [row]: dict(data row) of the insert row's data_sheet / data_row_id ([] when it names none).  Nothing of [outer]
   reaches the result except through the value of the cell. *)
Definition insert_context (sheets : tsheets) (defs : list argdef) (row outer : tctx) (cell : option cell)
  : result berr tctx :=
  match insert_args outer cell with
  | Err e => Err e
  | Ok args => bind_args sheets defs args row
  end.

End Insert.

(* the code of this run *)
Definition insert_context_m := insert_context env_undefined_policy native_undefined_policy.
