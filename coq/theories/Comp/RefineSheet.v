(* E7/C02 — the refinement theorem stated over SHEET ROWS.
   Comp/RefineFinal.v quantifies over crow = (RowSem row, node kind, `_nodeId`), three views of one sheet row that must
   agree (row_ok: "input encoding").  Here a sheet row is ONE value - type (with the node kind and the action payload),
   row id, node name, `_nodeId`, edges - and the two views are FUNCTIONS of it (row_of: what the reference reads,
   crow_of: what the compiler reads), as harness/rowref.py and harness/comp_corr.py compute them.  The encoding premises
   become definitions. *)
From Coq Require Import List NArith Bool Arith Lia.
From RPFT Require Import Base.Sexp Base.PyStr Base.PyStrFacts Base.SexpEq Base.Result Gen.Tables Flow.Lts Flow.Flow Flow.FlowFacts Flow.Closed
     Flow.RowSem Comp.Compile Comp.Refine Comp.RefineFacts Comp.RefineStep Comp.RefineFinal Comp.RefineFrag.
Import ListNotations.

Inductive stype :=
| SNode (k : nkind) (payload : option sexp)      (* a row that makes (or joins) a node; the canonical payload of its action *)
| SGoto (targets : list str) | SNoOp | SHard | SLoose | SBegin | SEnd.

Record srow := mkSRow { sr_type : stype; sr_id : str; sr_name : str; sr_uuid : str; sr_edges : list redge }.

(* the actions the reference sees on the row's node: the action of an action row (if any); the enter_flow / webhook /
   airtime action; none for a wait or a split *)
Definition node_actions (k : nkind) (payload : option sexp) : list sexp :=
  match k with
  | KBasic1 | KBasic2 => match payload with Some p => [p] | None => [] end
  | KWait _ _ | KSplitValue _ _ | KSplitGroup _ | KRandom _ => []
  | KEnterFlow _ | KWebhook _ | KAirtime _ => [match payload with Some p => p | None => L [] end]
  end.

Definition row_of (r : srow) : row :=
  mkRow (match sr_type r with
         | SNode k p => TNode (kind_cls k) (node_actions k p) (kind_dec0 k)
         | SGoto t => TGoto t | SNoOp => TNoOp | SHard => THard | SLoose => TLoose | SBegin => TBeginBlock | SEnd => TEndBlock
         end)
        (sr_id r) (or_default (sr_uuid r) (sr_name r)) (sr_edges r).

Definition crow_of (r : srow) : crow :=
  mkCRow (row_of r) (match sr_type r with SNode k _ => k | _ => KBasic1 end) (sr_uuid r).

Lemma cr_row_crow_of rows : map cr_row (map crow_of rows) = map row_of rows.
Proof. rewrite map_map. reflexivity. Qed.

Section WithNames.
Context {GN : GenNames}.

(* what is left to ask of a sheet row *)
Definition srow_ok (r : srow) : Prop := Forall edge_ok (sr_edges r) /\ sr_uuid r <> hard_exit_sentinel.

Lemma row_ok_crow_of r : srow_ok r -> row_ok (crow_of r).
Proof.
  intros [He Hu]. unfold row_ok, crow_of, row_of. cbn [cr_row cr_kind cr_uuid r_edges r_type r_node_name]. split; [exact He|]. split.
  - intros Hne. split; [|exact Hu]. unfold or_default. destruct (sr_uuid r); [contradiction|reflexivity].
  - destruct (sr_type r) as [k p| | | | | |]; try exact I. split; [reflexivity|]. split; [reflexivity|].
    destruct k; cbn; try reflexivity; destruct p; cbn; lia.
Qed.

Theorem compile_refines_rowsem_sheet fresh validate name (rows : list srow) f ref :
  (forall a b : nat, fresh a = fresh b -> a = b) -> (forall k, fresh k <> hard_exit_sentinel) ->
  (forall us, validate us = None -> NoDup us) ->
  Forall srow_ok rows -> Forall reads_same (map crow_of rows) ->
  compile_with fresh validate name (map crow_of rows) = Ok f -> rowsem nab (map row_of rows) = Some ref ->
  (forall t, traces ref t -> exists t', traces f t' /\ Forall2 (ematch sexp smatch) t t')
  /\ (forall t, traces f t -> exists t', traces ref t' /\ Forall2 (ematch sexp (fun a b => smatch b a)) t t').
Proof.
  intros Hi Hs Hv Hok Hsame Hc Hr. rewrite <- cr_row_crow_of in Hr.
  eapply (compile_refines_rowsem_partial fresh Hi Hs validate name (map crow_of rows)); eauto.
  apply Forall_forall. intros cr Hin. apply in_map_iff in Hin as (r & <- & Hr0). apply row_ok_crow_of. rewrite Forall_forall in Hok. auto.
Qed.
End WithNames.

(* ---------------------------------------------------------------- on a tree with the four repairs *)
(* a05766f (padding entries are not edges), f02a865 + 7eafa08 (has_group tests name their group, in rows and from no_op
   decisions), and the repair of category-name-clash (an explicit category name claims its name) *)
Definition tree_repaired : bool :=
  padding_edges_dropped_at_read && has_group_edges_by_name && has_group_by_name_from_noop && explicit_names_claimed.

Definition trivial_names : GenNames := {| gname := fun _ => True; gname_other := I |}.

Lemma by_name_args_true c : by_name_args true c = ref_args c.
Proof. unfold by_name_args, ref_args. cbn [andb]. reflexivity. Qed.

(* the only things a sheet must still avoid: a `_nodeId` that is the hard-exit marker, and - for the buckets of a
   split_random - an explicit name that looks like the names RandomRouter.add_choice invents ("Bucket <n>") *)
Definition sheet_ok (rows : list srow) : Prop :=
  forall r, In r rows -> sr_uuid r <> hard_exit_sentinel /\ forall e, In e (sr_edges r) -> ~ is_bucket_name (bucket_name (e_cond e)).

Theorem compile_refines_rowsem_repaired fresh validate name (rows : list srow) f ref :
  tree_repaired = true ->
  (forall a b : nat, fresh a = fresh b -> a = b) -> (forall k, fresh k <> hard_exit_sentinel) ->
  (forall us, validate us = None -> NoDup us) ->
  sheet_ok rows ->
  compile_with fresh validate name (map crow_of rows) = Ok f -> rowsem nab (map row_of rows) = Some ref ->
  (forall t, traces ref t -> exists t', traces f t' /\ Forall2 (ematch sexp smatch) t t')
  /\ (forall t, traces f t -> exists t', traces ref t' /\ Forall2 (ematch sexp (fun a b => smatch b a)) t t').
Proof.
  unfold tree_repaired. intros Ht Hi Hs Hv Hok Hc Hr.
  apply andb_true_iff in Ht as [Ht E4]. apply andb_true_iff in Ht as [Ht E3]. apply andb_true_iff in Ht as [E1 E2].
  eapply (@compile_refines_rowsem_sheet trivial_names fresh validate name rows); eauto.
  - apply Forall_forall. intros r Hin. destruct (Hok r Hin) as [Hu Hb]. split; [|exact Hu].
    apply Forall_forall. intros e He. unfold edge_ok, cond_ok, cname_ok, row_args, noop_args. rewrite E2, E3, E4, !by_name_args_true.
    split; [reflexivity|]. split; [reflexivity|]. split; [exact I|apply Hb, He].
  - apply Forall_forall. intros cr _. unfold reads_same, read_edges. rewrite E1. reflexivity.
Qed.

(* ---------------------------------------------------------------- non-vacuity: a sheet given as sheet rows *)
(* a message, a wait with two named tests sharing a category and an unnamed one, a message joined by the node name of
   the first, a random split with a named and an unnamed bucket *)
Local Open Scope N_scope.
Definition e_from_row (rid : str) (c : econd) : redge := mkEdge (FRow rid) c.
Definition blank : econd := mkCond [] [] [] [].
Definition ex_srows : list srow :=
  [ mkSRow (SNode KBasic2 (Some (L [A 1]))) [49] [110; 110] [] [mkEdge FStart blank];
    mkSRow (SNode KBasic2 (Some (L [A 2]))) [50] [110; 110] [] [e_from_row [49] blank];
    mkSRow (SNode (KWait 60 [97]) None) [51] [] [] [e_from_row [50] blank];
    mkSRow (SNode KBasic1 (Some (L [A 3]))) [52] [] [] [e_from_row [51] (mkCond [121] [] [] [80]); e_from_row [51] (mkCond [111] [] [] [80]); e_from_row [51] (mkCond [122] [] [] [])];
    mkSRow (SNode (KRandom []) None) [53] [] [] [e_from_row [52] blank];
    mkSRow SLoose [] [] [] [e_from_row [53] (mkCond [98] [] [] []); e_from_row [53] blank] ].
Local Close Scope N_scope.

Lemma bucket_name_not n k : starts_with s_Bucket n = false -> n <> s_Bucket ++ dec_nat k.
Proof. intros H E. rewrite E, starts_with_app in H. discriminate. Qed.

Example sheet_rows_nonvacuous :
  sheet_ok ex_srows
  /\ exists f ref, compile std_fresh [102%N] (map crow_of ex_srows) = Ok f /\ rowsem nab (map row_of ex_srows) = Some ref
                   /\ length (f_nodes f) = 4 /\ length (f_nodes ref) = 4.
Proof.
  split.
  - intros r Hin. split.
    + cbn in Hin. repeat (destruct Hin as [<-|Hin]; [discriminate|]). destruct Hin.
    + intros e He (k & E). revert E. apply bucket_name_not.
      cbn in Hin. repeat (destruct Hin as [<-|Hin]; [cbn in He; repeat (destruct He as [<-|He]; [reflexivity|]); destruct He|]). destruct Hin.
  - let c := eval vm_compute in (compile std_fresh [102%N] (map crow_of ex_srows)) in
    let r := eval vm_compute in (rowsem nab (map row_of ex_srows)) in
    match c with Ok ?f => match r with Some ?g =>
      exists f, g; split; [vm_compute; reflexivity|split; [vm_compute; reflexivity|split; vm_compute; reflexivity]] end end.
Qed.
