(* E7 (block mechanics) — model of FlowParser._parse_block together with the SheetParser
   cursor it drives (sheetparser.py: iterator, bookmarks, context add/remove, omit_templating)
   AS CODED: a loop rewinds the cursor to a bookmark once per element, loop variables are
   added with dict assignment and removed with dict.pop (no restore), rows under a false
   include_if / inside an omitted block are read WITHOUT templating.  The observable is the
   stream of events FlowParser acts on.  Definitions only. *)
From Coq Require Import List NArith Bool Arith.
From RPFT Require Import Base.Sexp Base.PyStr Gen.Tables.
Import ListNotations.

(* ---------------------------------------------------------------- sheets *)
Inductive value := VS (s : str) | VL (l : list str).
Definition ctx := list (str * value).          (* insertion-ordered dict *)

Inductive seg := Lit (s : str) | Ref (x : str).          (* "{{x}}" *)
Inductive rkind := KBeginFor | KEndFor | KBeginBlock | KEndBlock | KPlain.
Inductive incl := IncTrue | IncFalse | IncRef (x : str). (* include_if cell *)
Inductive iterspec := ILit (l : list str) | IRef (x : str).   (* `a;b` / {@ x @} *)

Record raw := mkRaw {
  rw_kind : rkind;
  rw_inc : incl;
  rw_id : list seg;
  rw_text : list seg;
  rw_vars : list str;         (* loop_variable cell *)
  rw_iter : iterspec }.

(* ---------------------------------------------------------------- context = Python dict *)
Fixpoint cget (c : ctx) (x : str) : option value :=
  match c with [] => None | (k, v) :: r => if str_eqb k x then Some v else cget r x end.
Fixpoint cset (c : ctx) (x : str) (v : value) : ctx :=           (* context[x] = v *)
  match c with
  | [] => [(x, v)]
  | (k, w) :: r => if str_eqb k x then (k, v) :: r else (k, w) :: cset r x v
  end.
Fixpoint cpop (c : ctx) (x : str) : option ctx :=                (* context.pop(x): KeyError = None *)
  match c with
  | [] => None
  | (k, w) :: r => if str_eqb k x then Some r
                   else match cpop r x with Some r' => Some ((k, w) :: r') | None => None end
  end.

(* ---------------------------------------------------------------- instantiation *)
Inductive err := Unterminated | WrongTerminator | NoLoopVar | KeyErr | Undefined | NotAList | OutOfFuel.
Inductive res (T : Type) := ROk (v : T) | RErr (e : err).
Arguments ROk {T} v.
Arguments RErr {T} e.

Definition value_str (v : value) : str :=
  match v with VS s => s | VL l => join_char 44%N l end.   (* lists never reach a text in the generator *)

(* rendering a cell under the undefined-variable policy the code configures (Tables) *)
Fixpoint render (pol : undefined_policy) (c : ctx) (t : list seg) : res str :=
  match t with
  | [] => ROk []
  | Lit s :: r => match render pol c r with ROk x => ROk (s ++ x) | RErr e => RErr e end
  | Ref x :: r =>
    match cget c x with
    | Some v => match render pol c r with ROk y => ROk (value_str v ++ y) | RErr e => RErr e end
    | None => match pol with
              | Strict => RErr Undefined
              | Lenient => render pol c r            (* silently blank *)
              end
    end
  end.

Definition s_false : str := [102;97;108;115;101]%N.

Definition eval_inc (pol : undefined_policy) (c : ctx) (i : incl) : res bool :=
  match i with
  | IncTrue => ROk true
  | IncFalse => ROk false
  | IncRef x => match cget c x with
                | Some v => ROk (negb (str_eqb (lower (strip (value_str v))) s_false))
                | None => match pol with Strict => RErr Undefined | Lenient => ROk true end  (* "" = default True *)
                end
  end.

Definition eval_iter (pol : undefined_policy) (c : ctx) (i : iterspec) : res (list str) :=
  match i with
  | ILit l => ROk l
  | IRef x => match cget c x with
              | Some (VL l) => ROk l
              | Some (VS s) => ROk (map (fun ch => [ch]) s)  (* iterating a str: its characters *)
              | None => RErr Undefined                       (* native env: iterating Undefined raises under both policies *)
              end
  end.

(* an instantiated row *)
Record irow := mkI { i_kind : rkind; i_inc : bool; i_id : str; i_text : str; i_vars : list str; i_iter : list str }.

Definition instantiate (pol : undefined_policy) (c : ctx) (r : raw) : res irow :=
  match eval_inc pol c (rw_inc r), render pol c (rw_id r), render pol c (rw_text r) with
  | ROk b, ROk i, ROk t =>
    match rw_kind r with
    | KBeginFor => match eval_iter pol c (rw_iter r) with
                   | ROk l => ROk (mkI KBeginFor b i t (rw_vars r) l)
                   | RErr e => RErr e
                   end
    | k => ROk (mkI k b i t (rw_vars r) [])
    end
  | RErr e, _, _ => RErr e
  | _, RErr e, _ => RErr e
  | _, _, RErr e => RErr e
  end.

(* ---------------------------------------------------------------- events *)
Inductive btype := BRoot | BFor | BBlock.

Inductive event :=
| EvInst (pos : nat)                 (* row at pos was instantiated (templated) *)
| EvRow (id text : str)              (* a plain row handed to _parse_row *)
| EvEnter (bt : btype) (omit : bool) (* _parse_block entered (once per loop iteration) *)
| EvEnd (id : str).                  (* block closed: group popped and registered under the head's id *)

(* decimal rendering of the loop index (str(i)) *)
Fixpoint dec_aux (fuel : nat) (n : N) (acc : str) : str :=
  match fuel with
  | O => acc
  | S f => let d := N.modulo n 10 in
           let q := N.div n 10 in
           if N.eqb q 0 then (48 + d)%N :: acc else dec_aux f q ((48 + d)%N :: acc)
  end.
Definition enc_dec (n : nat) : str := dec_aux 40 (N.of_nat n) [].

Definition btype_eqb (a b : btype) : bool :=
  match a, b with BRoot, BRoot | BFor, BFor | BBlock, BBlock => true | _, _ => false end.

(* _is_end_of_block for a row kind (None = the cursor is exhausted) *)
Definition end_of_block (bt : btype) (k : option rkind) : res bool :=
  match k with
  | None => match bt with BRoot => ROk true | _ => RErr Unterminated end
  | Some KEndFor => if btype_eqb bt BFor then ROk true else RErr WrongTerminator
  | Some KEndBlock => if btype_eqb bt BBlock then ROk true else RErr WrongTerminator
  | Some _ => ROk false
  end.

(* state threaded through: cursor position, context, event log (reversed) *)
Record pst := mkP { p_pos : nat; p_ctx : ctx; p_log : list event }.

Definition log (s : pst) (e : event) : pst := mkP (p_pos s) (p_ctx s) (e :: p_log s).

Section Parse.
Variable pol : undefined_policy.
Variable rows : list raw.

(* parse_next_row: advance the cursor; templating unless omitted *)
Definition next_row (s : pst) (omit : bool) : res (pst * option irow) :=
  match nth_error rows (p_pos s) with
  | None => ROk (s, None)
  | Some r =>
    let s1 := mkP (S (p_pos s)) (p_ctx s) (p_log s) in
    if omit then ROk (s1, Some (mkI (rw_kind r) true [] [] [] []))
    else match instantiate pol (p_ctx s) r with
         | ROk i => ROk (log s1 (EvInst (p_pos s)), Some i)
         | RErr e => RErr e
         end
  end.

(* _parse_block; fuel bounds the nesting of calls (each row read consumes one unit) *)
Fixpoint parse_block (fuel : nat) (s : pst) (bt : btype) (omit : bool) : res pst :=
  match fuel with
  | O => RErr OutOfFuel
  | S f =>
    match next_row s omit with
    | RErr e => RErr e
    | ROk (s1, orow) =>
      match end_of_block bt (option_map i_kind orow) with
      | RErr e => RErr e
      | ROk true => ROk s1
      | ROk false =>
        match orow with
        | None => RErr Unterminated
        | Some row =>
          if omit || negb (i_inc row) then
            (* skipped: nested blocks are skipped too, without templating *)
            match i_kind row with
            | KBeginFor => match parse_block f (log s1 (EvEnter BFor true)) BFor true with
                           | ROk s2 => parse_block f s2 bt omit
                           | RErr e => RErr e
                           end
            | KBeginBlock => match parse_block f (log s1 (EvEnter BBlock true)) BBlock true with
                             | ROk s2 => parse_block f s2 bt omit
                             | RErr e => RErr e
                             end
            | _ => parse_block f s1 bt omit
            end
          else
            match i_kind row with
            | KBeginFor =>
              match i_vars row with
              | [] | [] :: _ => RErr NoLoopVar
              | x :: rest =>
                let idx := match rest with i :: _ => match i with [] => None | _ => Some i end | [] => None end in
                let bookmark := p_pos s1 in
                (* for i, entry in enumerate(iterlist): rewind, bind, parse the body *)
                let iterate :=
                    fix iterate (elems : list str) (n : nat) (st : pst) : res pst :=
                      match elems with
                      | [] => ROk st
                      | e :: more =>
                        let c1 := cset (p_ctx st) x (VS e) in
                        let c2 := match idx with Some i => cset c1 i (VS (enc_dec n)) | None => c1 end in
                        match parse_block f (mkP bookmark c2 (EvEnter BFor false :: p_log st)) BFor false with
                        | ROk st' => iterate more (S n) st'
                        | RErr e' => RErr e'
                        end
                      end in
                match iterate (i_iter row) O s1 with
                | RErr e => RErr e
                | ROk s3 =>
                  (* the group is registered, then remove_from_context: dict.pop *)
                  let s4 := log s3 (EvEnd (i_id row)) in
                  match cpop (p_ctx s4) x with
                  | None => RErr KeyErr
                  | Some c1 =>
                    match idx with
                    | None => parse_block f (mkP (p_pos s4) c1 (p_log s4)) bt omit
                    | Some i => match cpop c1 i with
                                | None => RErr KeyErr
                                | Some c2 => parse_block f (mkP (p_pos s4) c2 (p_log s4)) bt omit
                                end
                    end
                  end
                end
              end
            | KBeginBlock =>
              match parse_block f (log s1 (EvEnter BBlock false)) BBlock false with
              | ROk s2 => parse_block f (log s2 (EvEnd (i_id row))) bt omit
              | RErr e => RErr e
              end
            | _ => parse_block f (log s1 (EvRow (i_id row) (i_text row))) bt omit
            end
        end
      end
    end
  end.
End Parse.

Definition run_sheet (pol : undefined_policy) (rows : list raw) (c : ctx) : res pst :=
  parse_block pol rows (S (S (length rows)) * S (length rows) * 8) (mkP 0 c []) BRoot false.
