(* E7 — the first node of the compiled flow is the node of the first row (when the first row is a node row):
   group 0 is the row group of node 0 and stays at the bottom of the block stack, so add_nodes_to_flow starts
   with node 0.  (The reference meaning numbers nodes by creation; FlowParser has the caveat "need to ensure
   starting node comes first".) *)
From Coq Require Import List NArith Bool Arith Lia.
From RPFT Require Import Base.Sexp Base.PyStr Base.Result Gen.Tables Flow.Flow Flow.Closed Flow.RowSem
     Comp.Compile Comp.CompileFacts.
Import ListNotations.

(* what add_exit / connect_loose_exits leave alone: the stack, the open heads, the first node of every row group *)
Definition grp_pres (s s' : cstate) : Prop :=
  cs_stack s' = cs_stack s /\ cs_heads s' = cs_heads s /\
  forall g k1 k2 rt, nth_error (cs_groups s) g = Some (CGRow k1 k2 rt) -> exists k2', nth_error (cs_groups s') g = Some (CGRow k1 k2' rt).

Lemma grp_pres_refl s : grp_pres s s.
Proof. split; [reflexivity|]. split; [reflexivity|]. intros g k1 k2 rt H. eauto. Qed.

Lemma grp_pres_trans a b c : grp_pres a b -> grp_pres b c -> grp_pres a c.
Proof.
  intros (A1 & A2 & A3) (B1 & B2 & B3). split; [congruence|]. split; [congruence|].
  intros g k1 k2 rt H. destruct (A3 _ _ _ _ H) as (k2' & H'). eapply B3; eauto.
Qed.

Lemma grp_pres_groups s s' : cs_stack s' = cs_stack s -> cs_heads s' = cs_heads s -> cs_groups s' = cs_groups s -> grp_pres s s'.
Proof. intros E1 E2 E3. split; [exact E1|]. split; [exact E2|]. intros g k1 k2 rt H. rewrite E3. eauto. Qed.

Lemma grp_pres_foldM {X} (f : cstate -> X -> res cstate) l : forall s s',
  (forall a x b, f a x = Ok b -> grp_pres a b) -> foldM f l s = Ok s' -> grp_pres s s'.
Proof.
  induction l as [|x r IH]; intros s s' Hf; cbn.
  - intros H. injection H as <-. apply grp_pres_refl.
  - destruct (f s x) as [s1|e] eqn:E; [|discriminate]. intros H. eapply grp_pres_trans; [eapply Hf, E|eapply IH; eauto].
Qed.

Section First.
Variable fresh : nat -> id.

Lemma fill_node_at_grp s k d s' : fill_node_at s k d = Ok s' -> grp_pres s s'.
Proof.
  unfold fill_node_at. destruct (nth_error (cs_nodes s) k); [|discriminate]. intros H. injection H as <-.
  apply grp_pres_groups; reflexivity.
Qed.

Lemma cconnect_loose_grp fuel : forall s g d s', cconnect_loose fuel s g d = Ok s' -> grp_pres s s'.
Proof.
  induction fuel as [|f IH]; intros s g d s'; cbn; [discriminate|].
  destruct (nth_error (cs_groups s) g) as [[k1 k2 rt|ps [k|]|ms]|]; try discriminate.
  - apply fill_node_at_grp.
  - apply fill_node_at_grp.
  - apply grp_pres_foldM. intros a x b. apply IH.
  - apply grp_pres_foldM. intros a x b. apply IH.
Qed.

Lemma set_cgroup_row_grp s g k1 k2 k2' rt :
  nth_error (cs_groups s) g = Some (CGRow k1 k2 rt) -> grp_pres s (set_cgroup s g (CGRow k1 k2' rt)).
Proof.
  intros Hg. split; [reflexivity|]. split; [reflexivity|]. intros g0 a b c H. cbn. destruct (Nat.eq_dec g0 g) as [->|Hne].
  - rewrite (update_nth_same _ _ _ _ Hg). assert (a = k1 /\ c = rt) as [-> ->] by (rewrite Hg in H; injection H; auto). eauto.
  - rewrite update_nth_other by exact Hne. eauto.
Qed.

Lemma set_cgroup_noop_grp s g ps r x : nth_error (cs_groups s) g = Some (CGNoOp ps r) -> grp_pres s (set_cgroup s g (CGNoOp ps x)).
Proof.
  intros Hg. split; [reflexivity|]. split; [reflexivity|]. intros g0 a b c H. cbn. destruct (Nat.eq_dec g0 g) as [->|Hne].
  - rewrite Hg in H. discriminate.
  - rewrite update_nth_other by exact Hne. eauto.
Qed.

Lemma row_add_exit_grp s g k1 k2 rt d c s' :
  nth_error (cs_groups s) g = Some (CGRow k1 k2 rt) -> row_add_exit fresh s g k1 k2 rt d c = Ok s' -> grp_pres s s'.
Proof.
  intros Hg. unfold row_add_exit. destruct (nth_error (cs_nodes s) (row_exit_node k1 k2)) as [nd|]; [|discriminate].
  destruct (cond_blank c && negb _).
  { destruct (node_update_default fresh (cs_next s) nd d) as [[nd' n1]|e]; [|discriminate]. intros H. injection H as <-. apply grp_pres_groups; reflexivity. }
  destruct (cn_body nd) as [e|cls r|r].
  - destruct rt; try discriminate.
    destruct (new_switch_parts fresh (cs_next s) [] _ None _) as [[[[u gv] r0] n1]|e']; [|discriminate].
    cbn [new_exit]. destruct (sw_add_choice fresh (S n1) _ _ _ _ _ _ _) as [[r2 n3]|e'']; [|discriminate].
    intros H. injection H as <-.
    eapply grp_pres_trans; [|apply (set_cgroup_row_grp _ g k1 k2); cbn; exact Hg]. apply grp_pres_groups; reflexivity.
  - destruct cls.
    + destruct (str_eqb (lower (c_value c)) s_no_response).
      * destruct (sw_wait r); intros H; injection H as <-; try apply grp_pres_refl. apply grp_pres_groups; reflexivity.
      * destruct (sw_add_choice fresh (cs_next s) r _ _ _ _ _ _) as [[r' n1]|e]; [|discriminate].
        intros H. injection H as <-. apply grp_pres_groups; reflexivity.
    + destruct (str_eqb _ s_complete || str_eqb _ s_completed).
      * destruct (existsb _ _); [|discriminate]. intros H. injection H as <-. apply grp_pres_groups; reflexivity.
      * destruct (str_eqb _ s_expired); intros H; injection H as <-; [apply grp_pres_groups; reflexivity|apply grp_pres_refl].
    + destruct (str_eqb _ s_success).
      * destruct (existsb _ _); [|discriminate]. intros H. injection H as <-. apply grp_pres_groups; reflexivity.
      * destruct (str_eqb _ s_failure); intros H; injection H as <-; [apply grp_pres_groups; reflexivity|apply grp_pres_refl].
  - destruct (rr_add_choice fresh (cs_next s) r _ d) as [[r' n1]|e]; [|discriminate].
    intros H. injection H as <-. apply grp_pres_groups; reflexivity.
Qed.

Lemma noop_router_edge_grp s k d c s' : noop_router_edge fresh s k d c = Ok s' -> grp_pres s s'.
Proof.
  unfold noop_router_edge. destruct (nth_error (cs_nodes s) k) as [nd|]; [|discriminate].
  destruct (cn_body nd) as [e|cls r|r]; try discriminate.
  destruct (negb (nonempty (c_value c)) && negb (memb (c_type c) no_args_tests)).
  - intros H. injection H as <-. apply grp_pres_groups; reflexivity.
  - destruct (sw_add_choice fresh (cs_next s) r _ _ _ _ _ _) as [[r' n1]|e]; [|discriminate].
    intros H. injection H as <-. apply grp_pres_groups; reflexivity.
Qed.

Lemma cadd_exit_grp fuel : forall s g d c s', cadd_exit fresh fuel s g d c = Ok s' -> grp_pres s s'.
Proof.
  induction fuel as [|f IH]; intros s g d c s'; cbn [cadd_exit]; [discriminate|].
  destruct (nth_error (cs_groups s) g) as [[k1 k2 rt|ps [k|]|ms]|] eqn:Hg; try discriminate.
  - apply row_add_exit_grp. exact Hg.
  - apply noop_router_edge_grp.
  - destruct (cond_blank c).
    + apply grp_pres_foldM. intros a x b. apply IH.
    + destruct (c_variable c) as [|v0 v]; [discriminate|].
      destruct (new_switch_node fresh (cs_next s) [] (v0 :: v) None None) as [[nn n1]|e]; [|discriminate].
      destruct (foldM _ ps _) as [s2|e] eqn:Ef; [|discriminate]. intros H.
      eapply grp_pres_trans; [|eapply noop_router_edge_grp, H].
      eapply grp_pres_trans; [|eapply grp_pres_foldM; [|exact Ef]; intros a x b; apply IH].
      eapply grp_pres_trans; [|apply (set_cgroup_noop_grp _ g ps None); cbn; exact Hg]. apply grp_pres_groups; reflexivity.
  - destruct (negb (cond_blank c)); [discriminate|]. destruct (negb (chas_loose f s g)); [discriminate|].
    apply grp_pres_foldM. intros a x b. destruct (chas_loose f a x); [apply cconnect_loose_grp|].
    intros H. injection H as <-. apply grp_pres_refl.
Qed.

Lemma cadd_row_edge_grp s e d s' : cadd_row_edge fresh s e d = Ok s' -> grp_pres s s'.
Proof.
  unfold cadd_row_edge. destruct (csource s e) as [[g|]|x]; try discriminate.
  - apply cadd_exit_grp.
  - intros H. injection H as <-. apply grp_pres_refl.
Qed.

(* ---------------------------------------------------------------- the invariant of the row loop *)
Definition FirstOK (s : cstate) : Prop :=
  (exists ks rt, nth_error (cs_groups s) 0 = Some (CGRow 0 ks rt))
  /\ (exists rest, last (cs_stack s) [] = 0 :: rest)
  /\ length (cs_stack s) = S (length (cs_heads s)).

Lemma FirstOK_pres s s' : grp_pres s s' -> FirstOK s -> FirstOK s'.
Proof.
  intros (E1 & E2 & E3) ((ks & rt & H1) & H2 & H3). unfold FirstOK. rewrite E1, E2. split; [|split; assumption].
  destruct (E3 _ _ _ _ H1) as (k2' & H). eauto.
Qed.

Lemma last_stack_add (st : list (list nat)) k rest :
  st <> [] -> last st [] = 0 :: rest ->
  exists rest', last (match st with [] => [[k]] | top :: r => (top ++ [k]) :: r end) [] = 0 :: rest'.
Proof.
  destruct st as [|top r]; [contradiction|]. intros _. destruct r as [|b r']; cbn.
  - intros ->. eexists. reflexivity.
  - intros H. eexists. exact H.
Qed.

Lemma FirstOK_add_cgroup s x rid : FirstOK s -> FirstOK (add_cgroup s x rid).
Proof.
  intros ((ks & rt & H1) & (rest & H2) & H3). split; [|split].
  - exists ks, rt. cbn [add_cgroup cs_groups]. rewrite nth_error_app1; [exact H1|]. apply nth_error_Some. congruence.
  - cbn. apply (last_stack_add (cs_stack s) _ rest); [destruct (cs_stack s); [cbn in H3; lia|discriminate]|exact H2].
  - cbn. destruct (cs_stack s); cbn in *; lia.
Qed.

Lemma cparse_noop_First s edges rid s' : FirstOK s -> cparse_noop s edges rid = Ok s' -> FirstOK s'.
Proof.
  intros Hf. unfold cparse_noop. destruct (foldM _ edges []) as [ps|x]; [|discriminate]. intros H. injection H as <-.
  apply FirstOK_add_cgroup, Hf.
Qed.

Lemma cstep_read_First s cr s' : FirstOK s -> cstep_read fresh s cr = Ok s' -> FirstOK s'.
Proof.
  intros Hf. unfold cstep_read. destruct (r_type (cr_row cr)) as [cls payloads dec0|tgts| | | | |].
  - destruct (match _ with Some p => _ | None => _ end) as [acts n1].
    set (existing := match or_default (cr_uuid cr) (r_node_name (cr_row cr)) with [] => None | _ => _ end).
    set (row_action := if is_basic_kind (cr_kind cr) then _ else None).
    assert (Hnew : forall sx, match new_row_node fresh n1 (cr_kind cr) (cr_uuid cr) acts match payloads with p :: _ => p | [] => L [] end with
                              | Ok (nd, n2) =>
                                match foldM (fun s' e => cadd_row_edge fresh s' e (Some (cn_uuid nd)))
                                            (drop_padding (r_edges (cr_row cr)))
                                            (push_node s nd n2) with
                                | Ok s2 => Ok (set_names (add_cgroup s2 (CGRow (length (cs_nodes s)) [] (rowtype_of (cr_kind cr))) (r_id (cr_row cr)))
                                                         (or_default (cr_uuid cr) (r_node_name (cr_row cr))) (length (cs_nodes s)))
                                | Err x => Err x end
                              | Err x => Err x end = Ok sx -> FirstOK sx).
    { intros sx. destruct (new_row_node _ _ _ _ _ _) as [[nd n2]|x]; [|discriminate].
      destruct (foldM _ _ (push_node s nd n2)) as [s2|x] eqn:Ef; [|discriminate]. intros H. injection H as <-.
      assert (F2 : FirstOK s2).
      { eapply FirstOK_pres; [eapply grp_pres_foldM; [|exact Ef]; intros a x b; apply cadd_row_edge_grp|].
        destruct Hf as (A & B & C). split; [exact A|split; [exact B|exact C]]. }
      destruct (FirstOK_add_cgroup s2 (CGRow (length (cs_nodes s)) [] (rowtype_of (cr_kind cr))) (r_id (cr_row cr)) F2) as (A & B & C).
      split; [exact A|split; [exact B|exact C]]. }
    destruct existing as [k|]; [destruct row_action as [p|]|].
    + destruct (r_edges (cr_row cr)) as [|e [|e2 es]]; try discriminate.
      destruct (negb (cond_blank (e_cond e))); [discriminate|].
      destruct (match e_from e with FBlank => _ | FStart => _ | FRow rid => _ end) as [g|]; [|discriminate].
      destruct (centry (cfuel s) s g) as [k'|x]; [|discriminate]. destruct (negb (Nat.eqb k k')); [discriminate|].
      destruct (nth_error (cs_nodes s) k) as [nd|]; [|discriminate].
      destruct (r_id (cr_row cr)) as [|c0 rid].
      * intros H. injection H as <-. destruct Hf as (A & B & C). split; [exact A|split; [exact B|exact C]].
      * destruct (e_from e) as [| |frm]; try discriminate. destruct (alookup (cs_rowmap s) frm); [|discriminate].
        intros H. injection H as <-. destruct Hf as (A & B & C). split; [exact A|split; [exact B|exact C]].
    + apply Hnew.
    + intros H. apply Hnew. destruct row_action; exact H.
  - destruct (negb _); [discriminate|]. intros H. eapply FirstOK_pres; [|exact Hf].
    eapply grp_pres_foldM; [|exact H]. intros a x b. cbn beta. destruct (alookup (cs_rowmap a) (snd x)) as [g|]; [|discriminate].
    destruct (centry (cfuel a) a g) as [k|y]; [|discriminate]. destruct (nth_error (cs_nodes a) k) as [nd|]; [|discriminate]. apply cadd_row_edge_grp.
  - apply cparse_noop_First, Hf.
  - intros H. eapply FirstOK_pres; [|exact Hf]. eapply grp_pres_foldM; [|exact H]. intros a x b. apply cadd_row_edge_grp.
  - intros H. eapply FirstOK_pres; [|exact Hf]. eapply grp_pres_foldM; [|exact H]. intros a x b. apply cadd_row_edge_grp.
  - assert (F0 : FirstOK (set_stack_heads s ([] :: cs_stack s) (r_id (cr_row cr) :: cs_heads s))).
    { destruct Hf as (A & (rest & B) & C). split; [exact A|]. split; [|cbn; lia].
      exists rest. cbn. destruct (cs_stack s) as [|t r]; [cbn in C; lia|exact B]. }
    destruct (match r_edges (cr_row cr) with [e] => _ | _ => false end).
    + intros H. injection H as <-. exact F0.
    + apply cparse_noop_First, F0.
  - destruct (cs_heads s) as [|h heads'] eqn:Eh; [discriminate|]. destruct (cs_stack s) as [|members outer] eqn:Es; [discriminate|].
    intros H. injection H as <-. apply FirstOK_add_cgroup.
    destruct Hf as (A & (rest & B) & C). rewrite Es, Eh in *. split; [exact A|]. split; [|cbn in *; lia].
    exists rest. cbn. cbn in B, C. destruct outer as [|o r]; [cbn in C; lia|exact B].
Qed.

Lemma cstep_First s cr s' : FirstOK s -> cstep fresh s cr = Ok s' -> FirstOK s'.
Proof. unfold cstep. apply cstep_read_First. Qed.
End First.
